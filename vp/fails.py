#!/usr/bin/env python3
# usage: vp/fails.py <module> <unit>  -- list all non-SUCCESS obligations of one unit
import sys
sys.path.insert(0,'/verif/vp')
import engine
mods=engine.load_modules()
spec,u=engine.units_for(mods,module=sys.argv[1],name=sys.argv[2],tier='thorough')[0]
sc=engine.Scratch()
r=engine.run_unit(spec,u,sc)
print(r['status'],r['reason'][:300], r['secs'])
for f in r['failed']+r.get('unwind_failed',[]): print(f['obligation'],f['status'],'|',f['description'][:110],'|',f['function'],f['line'])
sc.cleanup()
