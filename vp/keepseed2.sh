#!/bin/bash
# usage: vp/keepseed2.sh <worktree> <k> <id> <ctest-regex>
# like keepseed.sh for agents that deliver several changes in <worktree>/_seed/<k>/ and leave the
# worktree unmodified: applies the patch in the worktree, rebuilds, runs demo + tests, reverts.
wt=$1; k=$2; id=$3; rx=$4
d=/verif/seeded/$id; mkdir -p $d
cp $wt/_seed/$k/patch.diff $wt/_seed/$k/*.c $wt/_seed/$k/*.h $wt/_seed/$k/notes.md $wt/_seed/$k/demo.sh $d/ 2>/dev/null
git -C /repo apply --check $d/patch.diff && echo "patch applies to /repo HEAD" || { echo "PATCH DOES NOT APPLY"; exit 1; }
git -C $wt checkout -q -- . ; git -C $wt apply $d/patch.diff || { echo "patch does not apply in worktree"; exit 1; }
cmake --build $wt/_build > /tmp/keepseed_build.log 2>&1 || { echo "BUILD FAILED"; tail -5 /tmp/keepseed_build.log; git -C $wt checkout -q -- .; exit 1; }
cd $d
gcc -w demo.c -I$wt/include -L$wt/_build -lnng -lpthread -o /tmp/demo_with_$id && (LD_LIBRARY_PATH=$wt/_build /tmp/demo_with_$id > $d/demo_with.out 2>&1; echo "exit=$?" >> $d/demo_with.out)
gcc -w demo.c -I/repo/include -L/repo/_build -lnng -lpthread -o /tmp/demo_without_$id && (LD_LIBRARY_PATH=/repo/_build /tmp/demo_without_$id > $d/demo_without.out 2>&1; echo "exit=$?" >> $d/demo_without.out)
echo "with:    $(tail -2 $d/demo_with.out | tr '\n' ' ')"
echo "without: $(tail -2 $d/demo_without.out | tr '\n' ' ')"
ctest --test-dir $wt/_build -R "$rx" --timeout 300 2>&1 | tail -4 > $d/ctest_subset.out; cat $d/ctest_subset.out | head -3
git -C $wt checkout -q -- .
rm -f /tmp/demo_with_$id /tmp/demo_without_$id
