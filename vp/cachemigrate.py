#!/usr/bin/env python3
"""One-off: copy .vpcache entries from the version-1 key (engine bytes + paths) to the version-2 key
(decision version + normalised paths).  Keys are recomputed from the current files; nothing is decided."""
import os, sys, shutil
VERIF = os.path.dirname(os.path.dirname(os.path.abspath(__file__)))
sys.path.insert(0, os.path.join(VERIF, "vp"))
os.environ["VP_WIP"] = "1"
import engine
mods = engine.load_modules()
n = m = 0
for tier in ("quick",):
    pairs = engine.units_for(mods, tier=tier)
    scratch = engine.Scratch()
    try:
        for spec, u in pairs:
            try:
                tu, iq = engine.make_tu(spec, u, scratch)
            except Exception:
                continue
            k1 = engine.cache_key(spec, u, scratch, tu, iq, tier, legacy=True)
            k2 = engine.cache_key(spec, u, scratch, tu, iq, tier)
            n += 1
            if k1 and k2:
                p1 = os.path.join(engine.CACHE_DIR, k1 + ".json")
                p2 = os.path.join(engine.CACHE_DIR, k2 + ".json")
                if os.path.exists(p1) and not os.path.exists(p2):
                    shutil.copy(p1, p2); m += 1
    finally:
        scratch.cleanup()
print("units", n, "migrated", m)
