#!/usr/bin/env python3
"""setup_cmd: nothing to build (python + cbmc are pre-installed); verify the tools and specs are usable offline."""
import json, os, shutil, subprocess, sys
VERIF = os.path.dirname(os.path.dirname(os.path.abspath(__file__)))
sys.path.insert(0, os.path.join(VERIF, "vp"))
import engine
for t in ("cbmc", "goto-cc", "goto-instrument", "gcc"):
    if not shutil.which(t):
        print("missing tool", t); sys.exit(1)
mods = engine.load_modules()
n = sum(len(m["units"]) for m in mods.values())
print("vp: %d modules, %d units; cbmc %s" % (len(mods), n, subprocess.check_output(["cbmc", "--version"]).decode().strip()))
os.makedirs(os.path.join(VERIF, "evidence"), exist_ok=True)
