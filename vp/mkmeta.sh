#!/bin/bash
# usage: vp/mkmeta.sh <id> <props comma> <what> <needs> <source>
cd /verif/seeded/$1 || exit 1
python3 - "$@" <<'PY'
import json,sys,re
sid,props,what,needs,src=sys.argv[1:6]
files=sorted(set(re.findall(r'^\+\+\+ b/(\S+)', open('patch.diff').read(), re.M)))
p=props.split(',')
json.dump({"property": p[0] if len(p)==1 else p, "what":what, "needs":needs, "files":files, "source":src,
 "confirmed":"patch applies to /repo HEAD; demo FAIL with / PASS without (demo_with.out / demo_without.out); related tests pass with the change (ctest_subset.out); the agent ran the full suite with the change"}, open('meta.json','w'), indent=1)
PY
