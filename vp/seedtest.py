#!/usr/bin/env python3
"""Run the registered checks against a kept seeded change.

  vp/seedtest.py run <id> [--units u1,u2]   apply seeded/<id>/patch.diff to /repo, run the
                                            check(s) of the property it breaks, undo the patch,
                                            record seeded/<id>/result.json
  vp/seedtest.py readme                     regenerate seeded/README.md
The patch is never committed to /repo; the tree is restored even on errors.
"""
import json, os, subprocess, sys, time
VERIF = os.path.dirname(os.path.dirname(os.path.abspath(__file__)))
REPO = "/repo"

def sh(cmd, **kw):
    return subprocess.run(cmd, shell=True, stdout=subprocess.PIPE, stderr=subprocess.STDOUT, **kw)

def run(sid, units=None):
    """The seeded change is applied to a scratch checkout of /repo's current HEAD (outside /repo and
    /verif, removed afterwards) and the registered checks are pointed at it with VP_REPO; this is
    `git -C /repo apply` + run + `git -C /repo checkout -- .` without disturbing builder agents that
    commit fixes to /repo while the seeds are being run."""
    d = os.path.join(VERIF, "seeded", sid)
    meta = json.load(open(os.path.join(d, "meta.json")))
    props = meta["property"] if isinstance(meta["property"], list) else [meta["property"]]
    wt = "/tmp/seedwt_%d" % os.getpid()
    sh("git -C %s worktree remove --force %s" % (REPO, wt))
    r = sh("git -C %s worktree add --detach %s HEAD" % (REPO, wt))
    if r.returncode != 0:
        print("cannot create scratch worktree:", r.stdout.decode()); return 2
    head = sh("git -C %s rev-parse --short HEAD" % wt).stdout.decode().strip()
    res = {"id": sid, "property": props, "runs": [], "at": time.strftime("%Y-%m-%d %H:%M:%S"), "repo_head": head}
    try:
        r = sh("git -C %s apply %s" % (wt, os.path.join(d, "patch.diff")))
        if r.returncode != 0:
            # later `fix:` commits may have moved the surrounding lines: retry with reduced context
            r = sh("git -C %s apply -C1 %s" % (wt, os.path.join(d, "patch.diff")))
            res["applied_with_reduced_context"] = True
        if r.returncode != 0:
            print("patch does not apply to /repo HEAD %s:" % head, r.stdout.decode()); return 2
        env = dict(os.environ, VP_REPO=wt, VP_NO_EVIDENCE="1")
        for p in props:
            # targeted runs name the units of the function the change touches; they are run in the thorough tier so
            # that a unit that is thorough-only (too slow for the quick tier) still counts, and the result records
            # whether the catching unit is also part of the quick tier
            cmds = ["./check %s --tier thorough --unit %s" % (p, u) for u in units] if units else ["./check %s" % p]
            for c in cmds:
                t0 = time.time()
                o = sh(c, cwd=VERIF, env=env)
                out = o.stdout.decode(errors="replace")
                viol = [l for l in out.splitlines() if l.startswith("VIOLATION") or l.startswith("FAILED OBLIGATION")]
                res["runs"].append({"cmd": c, "exit": o.returncode, "secs": round(time.time() - t0, 1),
                                    "lines": viol[:12], "tail": out.splitlines()[-3:]})
                print(c, "-> exit", o.returncode, viol[:3])
    finally:
        sh("git -C %s worktree remove --force %s" % (REPO, wt))
        sh("git -C %s worktree prune" % REPO)
    res["caught"] = any(r["exit"] == 1 for r in res["runs"])
    res["caught_by"] = sorted({l.split(":")[0].replace("FAILED OBLIGATION ", "") + ":" + l.split(":")[1].split(" --")[0]
                               for r in res["runs"] for l in r["lines"] if l.startswith("FAILED OBLIGATION")})
    try:
        plan = json.load(open(os.path.join(VERIF, "quick_plan.json"))).get("props", {})
        res["caught_in_quick_tier"] = sorted({c for c in res["caught_by"] for p in props
                                              if c.split(":")[0].strip() in plan.get(p, [])})
    except Exception:
        pass
    json.dump(res, open(os.path.join(d, "result.json"), "w"), indent=1)
    return 0

def readme():
    rows = []
    sd = os.path.join(VERIF, "seeded")
    for sid in sorted(os.listdir(sd)):
        mp = os.path.join(sd, sid, "meta.json")
        if not os.path.exists(mp):
            continue
        m = json.load(open(mp))
        rp = os.path.join(sd, sid, "result.json")
        r = json.load(open(rp)) if os.path.exists(rp) else None
        rows.append("| %s | %s | %s | %s | %s |" % (
            sid, ",".join(m["property"]) if isinstance(m["property"], list) else m["property"],
            m.get("what", "").replace("|", "/"), m.get("needs", "").replace("|", "/"),
            ("not run" if r is None else ("caught: " + "; ".join(r.get("caught_by", [])[:3]) if r["caught"]
              else "MISSED (" + m.get("missed_reason", "see meta.json") + ")"))))
    open(os.path.join(sd, "README.md"), "w").write(
        "# Seeded changes (never committed to /repo)\n\nEach directory: patch.diff, demonstration, meta.json, result.json "
        "(written by `vp/seedtest.py run <id>`).\n\n| id | property | change | needs to manifest | checks |\n|---|---|---|---|---|\n"
        + "\n".join(rows) + "\n")

if __name__ == "__main__":
    if sys.argv[1] == "run":
        units = None
        if "--units" in sys.argv:
            units = sys.argv[sys.argv.index("--units") + 1].split(",")
        rc = run(sys.argv[2], units)
        readme()
        sys.exit(rc)
    readme()
