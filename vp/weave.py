#!/usr/bin/env python3
"""Add-only weaver.

C syntax forces CBMC loop contracts to sit between a loop header and its body,
so they cannot live out of tree like function contracts do.  This tool copies a
real /repo source file and inserts, for (function, loop ordinal) pairs named in
a weave spec, the clauses

    /*VPW<*/ __CPROVER_assigns(..) __CPROVER_loop_invariant(..) ... /*>VPW*/

on the same line as the closing parenthesis of the loop header (so line numbers
are those of the original file).  A second kind of insertion ("ghost
statements") puts `/*VPW<*/ stmt; /*>VPW*/` at the beginning of a function body
or right before every `return` of a function.

Safety rules (all enforced here, violation -> WeaveError -> exit 2 upstream):
  must-fire : every function named in the spec must be found, and the number of
              loops found in it must equal the number of entries in the spec;
  add-only  : stripping every /*VPW<*/ ... /*>VPW*/ span from the output must
              reproduce the input byte for byte.
"""
import re
import sys
import json

MARK_L = "/*VPW<*/"
MARK_R = "/*>VPW*/"


class WeaveError(Exception):
    pass


def _scan_code_mask(src):
    """Return a bytearray mask: 1 where src[i] is code (not comment/string/char)."""
    n = len(src)
    mask = bytearray(n)
    i = 0
    while i < n:
        c = src[i]
        if c == '/' and i + 1 < n and src[i + 1] == '/':
            j = src.find('\n', i)
            if j < 0:
                j = n
            i = j
        elif c == '/' and i + 1 < n and src[i + 1] == '*':
            j = src.find('*/', i + 2)
            if j < 0:
                raise WeaveError("unterminated comment")
            i = j + 2
        elif c == '"' or c == "'":
            q = c
            j = i + 1
            while j < n and src[j] != q:
                if src[j] == '\\':
                    j += 1
                j += 1
            i = j + 1
        else:
            mask[i] = 1
            i += 1
    return mask


def _match(src, mask, i, open_c, close_c):
    """src[i] == open_c; return index of the matching close_c (code chars only)."""
    depth = 0
    n = len(src)
    while i < n:
        if mask[i]:
            if src[i] == open_c:
                depth += 1
            elif src[i] == close_c:
                depth -= 1
                if depth == 0:
                    return i
        i += 1
    raise WeaveError("unbalanced %s%s" % (open_c, close_c))


def find_function(src, mask, name):
    """Locate the definition `name(` at column 0 (nng style) followed by a body.
    Returns (body_open_index, body_close_index)."""
    for m in re.finditer(r'^' + re.escape(name) + r'\s*\(', src, re.M):
        if not mask[m.start()]:
            continue
        p_open = m.end() - 1
        p_close = _match(src, mask, p_open, '(', ')')
        j = p_close + 1
        while j < len(src) and (src[j].isspace() or not mask[j]):
            j += 1
        if j < len(src) and src[j] == '{':
            return j, _match(src, mask, j, '{', '}')
    raise WeaveError("function %s not found (must-fire)" % name)


_KW = re.compile(r'\b(for|while|do)\b')


def find_loops(src, mask, b_open, b_close):
    """Loops inside a body in source order of their keyword.
    Returns list of insertion offsets (index right after the header's ')' for
    for/while; for do-while, right after the ')' of the trailing while)."""
    loops = []
    pending_do = []  # stack of (ordinal placeholder index)
    pos = b_open
    # First pass: collect keywords
    events = []
    for m in _KW.finditer(src, b_open, b_close):
        if mask[m.start()]:
            events.append((m.start(), m.group(1)))
    # Identify the `while` that closes a do-while: it is preceded (ignoring
    # whitespace/comments) by '}' that closes the do body, or the do body is a
    # single statement.  nng is clang-formatted: `} while (...);`.
    result = []
    do_stack = []
    for (at, kw) in events:
        if kw == 'do':
            # body must be a brace block
            j = at + 2
            while not (mask[j] and not src[j].isspace()):
                j += 1
            if src[j] != '{':
                raise WeaveError("do without brace body at %d" % at)
            close = _match(src, mask, j, '{', '}')
            idx = len(result)
            result.append(None)
            do_stack.append((close, idx))
            continue
        p = at + len(kw)
        while not (mask[p] and not src[p].isspace()):
            p += 1
        if src[p] != '(':
            raise WeaveError("loop keyword without ( at %d" % at)
        p_close = _match(src, mask, p, '(', ')')
        if kw == 'while':
            # is this the tail of a do-while?
            k = at - 1
            while k >= 0 and (src[k].isspace() or not mask[k]):
                k -= 1
            matched = None
            for (close, idx) in do_stack:
                if close == k:
                    matched = (close, idx)
            if matched is not None:
                do_stack.remove(matched)
                result[matched[1]] = p_close + 1
                continue
        result.append(p_close + 1)
    if any(r is None for r in result):
        raise WeaveError("unterminated do-while")
    return result


def find_returns(src, mask, b_open, b_close):
    out = []
    for m in re.finditer(r'\breturn\b', src[b_open:b_close]):
        at = b_open + m.start()
        if mask[at]:
            out.append(at)
    return out


def clause_text(entry):
    parts = []
    if entry.get("assigns") is not None:
        parts.append("__CPROVER_assigns(%s)" % entry["assigns"])
    for inv in entry.get("invariants", []):
        parts.append("__CPROVER_loop_invariant(%s)" % inv)
    if entry.get("decreases"):
        parts.append("__CPROVER_decreases(%s)" % entry["decreases"])
    return " ".join(parts)


def strip(woven):
    return re.sub(re.escape(MARK_L) + r'.*?' + re.escape(MARK_R), '', woven,
                  flags=re.S)


def weave(src, spec):
    """spec: {"loops": {fn: [entry|null,...]}, "entry": {fn: "stmt;"},
              "before_return": {fn: "stmt;"}}
    A null loop entry means "this loop exists but gets no contract" (it must be
    unwound by the caller of the weaver)."""
    mask = _scan_code_mask(src)
    inserts = []  # (offset, text)
    info = {"loops": [], "functions": []}
    def locate(fn):
        """A function named in the weave spec that is no longer in the source (renamed, merged, removed) gets
        nothing woven and is reported in info["missing_functions"]: units that enforce or replace it cannot be
        built and stay undecided, the other units of the module are still decided.  A function that EXISTS
        with a different number of loops is still an extraction break (a loop contract must never be dropped
        silently)."""
        try:
            return find_function(src, mask, fn)
        except WeaveError:
            info.setdefault("missing_functions", []).append(fn)
            return None

    for fn, entries in spec.get("loops", {}).items():
        loc = locate(fn)
        if loc is None:
            continue
        b_open, b_close = loc
        loops = find_loops(src, mask, b_open, b_close)
        if len(loops) != len(entries):
            raise WeaveError(
                "function %s: spec expects %d loops, source has %d (must-fire)"
                % (fn, len(entries), len(loops)))
        for i, (off, e) in enumerate(zip(loops, entries)):
            line = src.count('\n', 0, off) + 1
            info["loops"].append({"function": fn, "ordinal": i, "line": line,
                                  "contract": e is not None})
            if e is None:
                continue
            inserts.append((off, "%s %s %s" % (MARK_L, clause_text(e), MARK_R)))
    for fn, stmt in spec.get("entry", {}).items():
        loc = locate(fn)
        if loc is None:
            continue
        b_open, b_close = loc
        inserts.append((b_open + 1, "%s %s %s" % (MARK_L, stmt, MARK_R)))
    for fn, stmt in spec.get("before_return", {}).items():
        loc = locate(fn)
        if loc is None:
            continue
        b_open, b_close = loc
        rets = find_returns(src, mask, b_open, b_close)
        if not rets:
            raise WeaveError("function %s: no return found (must-fire)" % fn)
        for at in rets:
            # a return that is the sole statement of an unbraced if would
            # change semantics if a statement were put in front: wrap as a
            # comma-free compound using a block.
            inserts.append((at, "%s { %s %s" % (MARK_L, stmt, MARK_R)))
            semi = at
            while not (mask[semi] and src[semi] == ';'):
                semi += 1
            inserts.append((semi + 1, "%s } %s" % (MARK_L, MARK_R)))
    inserts.sort(key=lambda t: t[0])
    out = []
    last = 0
    for off, text in inserts:
        out.append(src[last:off])
        out.append(text)
        last = off
    out.append(src[last:])
    woven = "".join(out)
    if strip(woven) != src:
        raise WeaveError("add-only check failed: stripped weave differs from source")
    return woven, info


if __name__ == "__main__":
    src = open(sys.argv[1]).read()
    spec = json.load(open(sys.argv[2]))
    w, info = weave(src, spec)
    sys.stdout.write(w)
    sys.stderr.write(json.dumps(info, indent=1) + "\n")
