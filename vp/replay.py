#!/usr/bin/env python3
"""Counterexample -> native replay against the real /repo code.

From a CBMC json trace of a failed obligation we take the values of the
`vp_in_*` / `vp_arg_*` snapshot locals (woven at the entry of the function
under contract, see weave.py) -- i.e. the concrete pre-state and arguments of
the failing call -- and hand them to the module's native driver, which is
compiled with gcc -fsanitize=address,undefined against the REAL source file.
"""
import json
import os
import re
import subprocess
import sys
import tempfile

VERIF = os.path.dirname(os.path.dirname(os.path.abspath(__file__)))
REPO = os.environ.get("VP_REPO", "/repo")


def _val(v):
    """Flatten a CBMC json value into {suffix: int}."""
    out = {}
    if not isinstance(v, dict):
        return out
    if "elements" in v:
        for e in v["elements"]:
            sub = _val(e.get("value", {}))
            for k, x in sub.items():
                out["[%s]%s" % (e.get("index"), k)] = x
        return out
    if "members" in v:
        for m in v["members"]:
            sub = _val(m.get("value", {}))
            for k, x in sub.items():
                out[".%s%s" % (m.get("name"), k)] = x
        return out
    d = v.get("data")
    b = v.get("binary")
    if v.get("name") == "pointer":
        out[""] = 0 if d in (None, "NULL") or "NULL" in str(d) else 1
        return out
    if b is not None and re.fullmatch(r"[01]+", b) and len(b) <= 64:
        out[""] = int(b, 2)
        return out
    if d is not None:
        m = re.match(r"^-?\d+", str(d))
        if m:
            x = int(m.group(0))
            if x < 0:
                x += 1 << 64
            out[""] = x
        elif str(d).lower() in ("true", "false"):
            out[""] = 1 if str(d).lower() == "true" else 0
    return out


def extract_inputs(trace, fn=None):
    """Last assignment to every vp_in_* / vp_arg_* snapshot (first call frame of
    the function under contract)."""
    kv = {}
    for s in trace:
        if s.get("stepType") != "assignment":
            continue
        lhs = s.get("lhs", "")
        # vp_in_x / vp_arg_x scalars (or arrays), and whole-struct snapshots named
        # exactly vp_in / vp_arg (members come out as "vp_in.field[i].sub"); vp_n0 is the
        # historic name of the count snapshot of nni_aio_iov_advance
        m = re.match(r"^(vp_(?:in|arg)(?:_\w+)?|vp_n0)(?![\w$!@#])(.*)$", lhs)
        if not m:
            continue
        base, rest = m.group(1), m.group(2)
        for suf, x in _val(s.get("value", {})).items():
            # member-wise assignments carry typed index literals ("a[0l].x"): same slot as "a[0].x"
            key = re.sub(r"\[(\d+)[a-zA-Z]+\]", r"[\1]", base + rest + suf)
            kv[key] = x      # last write wins (the declaration writes a default first)
    return kv


def native_replay(driver, fn, kv, outdir, tag):
    """Compile driver against the real source and run it. Returns dict."""
    os.makedirs(outdir, exist_ok=True)
    inp = os.path.join(outdir, tag + ".inputs")
    with open(inp, "w") as f:
        f.write("# counterexample inputs extracted from the CBMC trace\n")
        for k in sorted(kv):
            f.write("%s=%d\n" % (k, kv[k]))
    res = native_run(driver, fn, inp)
    res["inputs_file"] = inp
    return res


def native_run(driver, fn, inp):
    flags = open(os.path.join(VERIF, "vp", "flags.txt")).read().split()
    tmp = tempfile.mkdtemp(prefix="vpr.")
    exe = os.path.join(tmp, "replay")
    cmd = ["gcc", "-g", "-O0", "-fsanitize=address,undefined", "-fno-omit-frame-pointer",
           "-w"] + flags + ["-I%s/src" % REPO, "-I%s/include" % REPO, "-I%s" % VERIF,
                            "-I%s/include" % VERIF, "-DVP_NATIVE=1",
                            os.path.join(VERIF, driver), "-o", exe]
    try:
        p = subprocess.run(cmd, stdout=subprocess.PIPE, stderr=subprocess.STDOUT, timeout=300)
        if p.returncode != 0:
            return {"reproduced": False, "status": "driver-compile-failed",
                    "output": p.stdout.decode(errors="replace")[-3000:], "cmd": " ".join(cmd)}
        env = dict(os.environ, ASAN_OPTIONS="detect_leaks=1:abort_on_error=0",
                   UBSAN_OPTIONS="print_stacktrace=1:halt_on_error=0")
        try:
            r = subprocess.run([exe, inp, fn], stdout=subprocess.PIPE, stderr=subprocess.STDOUT,
                               timeout=120, env=env)
            out = r.stdout.decode(errors="replace")
            rc = r.returncode
        except subprocess.TimeoutExpired as e:
            out = (e.stdout or b"").decode(errors="replace") + "\nTIMEOUT (hang)"
            rc = -9
        san = ("ERROR: AddressSanitizer" in out) or ("runtime error:" in out) or ("LeakSanitizer" in out)
        if rc == 3 and not san:
            status, rep = "skipped", False
        elif rc == 0 and not san:
            status, rep = "not-reproduced", False
        else:
            status, rep = "reproduced", True
        return {"reproduced": rep, "status": status, "rc": rc, "output": out[-6000:],
                "cmd": " ".join(cmd) + " && %s %s %s" % (exe, inp, fn)}
    finally:
        import shutil
        shutil.rmtree(tmp, ignore_errors=True)


if __name__ == "__main__":
    # ./replay.py <replay.json>  -> re-run the native driver named in the file
    doc = json.load(open(sys.argv[1]))
    rc = 0
    for v in doc.get("violations", []):
        nat = v.get("native")
        if not nat or not v.get("driver"):
            print("no native driver for", v.get("unit"), "- obligation", v.get("obligations"))
            continue
        r = native_run(v["driver"], v["fn"], nat["inputs_file"])
        print(r["output"])
        print("native replay:", r["status"])
        if r["reproduced"]:
            rc = 1
    sys.exit(rc)
