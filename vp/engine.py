#!/usr/bin/env python3
"""vp engine: weave -> goto-cc -> goto-instrument (DFCC) -> cbmc, per unit.

A *unit* is one function of the real nng source under contract (or one lemma
harness over contracts).  See DESIGN.md section 2.
"""
import json
import os
import re
import resource
import shutil
import subprocess
import sys
import tempfile
import time
from concurrent.futures import ThreadPoolExecutor

VERIF = os.path.dirname(os.path.dirname(os.path.abspath(__file__)))
REPO = os.environ.get("VP_REPO", "/repo")
sys.path.insert(0, os.path.join(VERIF, "vp"))
import weave as weaver  # noqa: E402

DEFAULT_CHECKS = [
    "--bounds-check", "--pointer-check", "--pointer-overflow-check",
    "--pointer-primitive-check", "--div-by-zero-check",
    "--signed-overflow-check", "--undefined-shift-check",
]
MEM_LIMIT = int(os.environ.get("VP_MEM_GB", "12")) * (1 << 30)


def flags(asserts=False):
    f = open(os.path.join(VERIF, "vp", "flags.txt")).read().split()
    if asserts:
        # thorough tier: NNI_ASSERT is compiled in; nni_panic is a stub that asserts
        # unreachability, so every NNI_ASSERT of the code becomes a proof obligation
        f = [x for x in f if x != "-DNDEBUG"]
    return f + ["-I%s/src" % REPO, "-I%s/include" % REPO, "-I%s" % VERIF,
                "-I%s/include" % VERIF, "-DVP_CBMC=1"]


def load_modules():
    mods = {}
    mdir = os.path.join(VERIF, "modules")
    wip = set()
    if os.path.exists(os.path.join(mdir, "WIP")) and not os.environ.get("VP_WIP"):
        wip = set(open(os.path.join(mdir, "WIP")).read().split())
    for m in sorted(os.listdir(mdir)):
        if m in wip:
            continue
        p = os.path.join(mdir, m, "spec.json")
        if os.path.exists(p):
            spec = json.load(open(p))
            spec["_dir"] = os.path.join(mdir, m)
            mods[spec["module"]] = spec
    return mods


def _limits():
    resource.setrlimit(resource.RLIMIT_AS, (MEM_LIMIT, MEM_LIMIT))
    try:
        # cbmc recurses deeply while converting large SSA expressions (silent SIGSEGV
        # with the default 8 MB stack on two units)
        resource.setrlimit(resource.RLIMIT_STACK, (1 << 30, 1 << 30))
    except Exception:
        pass
    os.setsid()


def run(cmd, timeout, log):
    t0 = time.time()
    p = subprocess.Popen(cmd, stdout=subprocess.PIPE, stderr=subprocess.PIPE, preexec_fn=_limits)
    try:
        o, e = p.communicate(timeout=timeout)
        out, err, rc = o.decode(errors="replace"), e.decode(errors="replace"), p.returncode
    except subprocess.TimeoutExpired:
        try:
            os.killpg(p.pid, 9)   # _limits() made the child a session/group leader
        except Exception:
            p.kill()
        o, e = p.communicate()
        out = (o or b"").decode(errors="replace")
        err = (e or b"").decode(errors="replace") + "\nVP-TIMEOUT after %ss" % timeout
        rc = -9
    dt = time.time() - t0
    cs = " ".join(cmd)
    if cs.count("--property") > 3:
        i = cs.index("--property")
        cs = cs[:i] + "--property <%d names: all except excluded classes> " % cs.count("--property") + " ".join(c for c in cmd[-3:] if not c.startswith("--property") and "." not in c)
    log.append({"cmd": cs, "rc": rc, "secs": round(dt, 2)})
    return rc, out, err, dt


class Scratch:
    def __init__(self):
        base = os.environ.get("TMPDIR", "/tmp")
        self.dir = tempfile.mkdtemp(prefix="vp.", dir=base)
        self.woven = {}
        self.weave_info = {}

    def cleanup(self):
        if os.environ.get("VP_KEEP"):
            print("scratch kept:", self.dir)
            return
        shutil.rmtree(self.dir, ignore_errors=True)


def prepare_sources(spec, scratch):
    """Weave every source of a module; returns list of (include_path, origdir)."""
    res = []
    for s in spec["sources"]:
        path = os.path.join(REPO, s["path"])
        key = (spec["module"], s["path"])
        if key in scratch.woven:
            res.append(scratch.woven[key])
            continue
        if not os.path.exists(path):
            raise weaver.WeaveError("source %s missing" % path)
        w = s.get("weave")
        if w:
            src = open(path).read()
            woven, info = weaver.weave(src, w)
            bn = os.path.basename(s["path"])
            if sum(1 for t in spec["sources"] if os.path.basename(t["path"]) == bn) > 1:
                # two sources of one module with the same file name (pair0/pair.c, pair1/pair.c)
                bn = s["path"].replace("/", "_")
            out = os.path.join(scratch.dir, "%s__%s" % (spec["module"], bn))
            open(out, "w").write(woven)
            scratch.weave_info[key] = info
            item = (out, os.path.dirname(path), s)
        else:
            scratch.weave_info[key] = {"loops": []}
            item = (path, os.path.dirname(path), s)
        scratch.woven[key] = item
        res.append(item)
    return res


def make_tu(spec, unit, scratch):
    srcs = prepare_sources(spec, scratch)
    lines = ['#include "vp_prelude.h"']
    for d in unit.get("defines", []):
        lines.insert(0, "#define %s" % d)
    for inc in spec.get("includes_before", []):
        lines.append('#include "%s"' % os.path.join(VERIF, inc))
    iquote = []
    for (p, origdir, s) in srcs:
        lines.append('#include "%s"' % p)
        iquote.append(origdir)
    for inc in spec.get("includes_after", []):
        lines.append('#include "%s"' % os.path.join(VERIF, inc))
    tu = os.path.join(scratch.dir, "%s__%s.tu.c" % (spec["module"], unit["name"]))
    open(tu, "w").write("\n".join(lines) + "\n")
    return tu, iquote


def contracted_loops(spec, unit, scratch):
    """Loops (function, ordinal, line) carrying a woven contract in the function
    this unit enforces (or in functions listed under unit['loops_in'])."""
    fns = set(unit.get("loops_in", []))
    if unit.get("enforce"):
        fns.add(unit["enforce"])
    out = []
    for s in spec["sources"]:
        info = scratch.weave_info.get((spec["module"], s["path"]), {"loops": []})
        for l in info["loops"]:
            if l["function"] in fns and l["contract"]:
                out.append(l)
    return out



CACHE_DIR = os.path.join(VERIF, ".vpcache")
_TOOLVER = None


def _toolver():
    global _TOOLVER
    if _TOOLVER is None:
        try:
            _TOOLVER = subprocess.check_output(["cbmc", "--version"]).decode().strip()
        except Exception:
            _TOOLVER = "?"
    return _TOOLVER


ENGINE_DECISION_VERSION = "2"   # bump when a change of this file can change the decision of a unit

# unit fields that cannot change what CBMC decides (labels, limits, reporting)
_COSMETIC_UNIT_FIELDS = ("props", "bound", "assumes", "timeout", "timeout_thorough", "tier", "replay",
                         "replay_defines", "note", "notes")


def cache_key(spec, unit, scratch, tu, iquote, tier, legacy=False):
    """Content hash of EVERYTHING the decision of a unit depends on: the bytes of every file the
    translation unit includes (found with gcc -M under the unit's own flags: the woven copy of the
    real source, nng headers, contracts, stubs, harness, system headers), the unit and module spec,
    compile flags, tier, the engine's decision version and the cbmc version.  A unit whose key is
    unchanged was decided on byte-identical inputs, so a previous SUCCESS is reused when several
    properties share a unit (./check C03 after ./check C17).  The location of the source tree (VP_REPO:
    /repo or a scratch worktree with a seeded change) and of the scratch directory are normalised, so
    a unit whose files are byte-identical in a scratch worktree is not decided again.  Failures,
    undecided results and trace runs are never cached.  VP_NO_CACHE=1 disables it; the cache
    directory is not committed.  legacy=True computes the key of engine version 1 (used once by
    vp/cachemigrate.py)."""
    if os.environ.get("VP_NO_CACHE"):
        return None
    import hashlib
    fl = flags(unit.get("asserts_pass", False))
    cmd = ["gcc", "-M", "-w"] + fl + sum((["-iquote", d] for d in iquote), []) + [tu]
    try:
        out = subprocess.run(cmd, stdout=subprocess.PIPE, stderr=subprocess.PIPE, timeout=120)
        if out.returncode != 0:
            return None
        deps = out.stdout.decode().replace("\\\n", " ").split()[1:]
    except Exception:
        return None
    h = hashlib.sha256()
    repo_real = os.path.realpath(REPO)
    if legacy:
        norm = lambda t: t.replace(scratch.dir, "$S")
    else:
        norm = lambda t: t.replace(scratch.dir, "$S").replace(repo_real, "$R").replace(REPO, "$R")
    for d in sorted(set(os.path.realpath(x) for x in deps), key=norm):
        try:
            data = open(d, "rb").read()
        except Exception:
            return None
        if d.startswith(scratch.dir):
            data = norm(data.decode(errors="replace")).encode()
        h.update(norm(d).encode() + b"\0" + hashlib.sha256(data).digest())
    sp = {k: v for k, v in spec.items() if k not in ("_dir", "units")}
    if legacy:
        h.update(json.dumps([sp, unit, fl, tier, _toolver(), MEM_LIMIT], sort_keys=True, default=str).encode())
        h.update(open(os.path.join(VERIF, "vp", "engine_v1.py.txt"), "rb").read())
        return h.hexdigest()
    for k in ("stubs", "not_decided", "assumes", "notes", "enforced_elsewhere"):
        sp.pop(k, None)
    un = {k: v for k, v in unit.items() if k not in _COSMETIC_UNIT_FIELDS}
    tmo = unit.get("timeout_thorough" if tier == "thorough" and "timeout_thorough" in unit else "timeout", 600)
    h.update(json.dumps([sp, un, [norm(x) for x in fl], tier, _toolver(), MEM_LIMIT, ENGINE_DECISION_VERSION],
                        sort_keys=True, default=str).encode())
    return h.hexdigest()


def run_unit(spec, unit, scratch, tier="quick", trace=False):
    """Returns a result dict for the unit."""
    log = []
    res = {"module": spec["module"], "unit": unit["name"], "grade": unit.get("grade", "P"),
           "enforce": unit.get("enforce"), "replace": unit.get("replace", []),
           "bound": unit.get("bound", ""), "cmds": log, "status": "undecided",
           "reason": "", "obligations": 0, "discharged": 0, "failed": [],
           "canary": None, "secs": 0.0, "solver": "", "samples": []}
    t0 = time.time()
    try:
        tu, iquote = make_tu(spec, unit, scratch)
    except weaver.WeaveError as e:
        res["reason"] = "extraction break: %s" % e
        return res
    ckey = None if trace else cache_key(spec, unit, scratch, tu, iquote, tier)
    res["_cache_key"] = ckey
    if ckey:
        cp = os.path.join(CACHE_DIR, ckey + ".json")
        if os.path.exists(cp):
            try:
                old = json.load(open(cp))
                if old.get("status") == "ok":
                    old["reused"] = {"from_run_at": old.get("_decided_at"), "content_key": ckey[:16]}
                    old["bound"] = unit.get("bound", "")
                    old["secs"] = round(time.time() - t0, 2)
                    return old
            except Exception:
                pass
    base = tu[:-5]
    gb0, gb1, gb2 = base + ".0.gb", base + ".1.gb", base + ".2.gb"
    entry = unit["entry"]
    cmd = ["goto-cc"] + flags(unit.get("asserts_pass", False)) + sum((["-iquote", d] for d in iquote), []) + \
          ["--function", entry, tu, "-o", gb0]
    rc, out, err, _ = run(cmd, 300, log)
    if rc != 0:
        res["reason"] = "goto-cc failed: " + (err + out)[-1500:]
        return res
    cur = gb0
    tset = unit.get("unwindset_thorough") if tier == "thorough" and unit.get("unwindset_thorough") else unit.get("unwindset")
    if tset:
        cmd = ["goto-instrument", "--unwindset", ",".join(tset), "--unwinding-assertions", cur, gb1]
        rc, out, err, _ = run(cmd, 300, log)
        if rc != 0:
            res["reason"] = "goto-instrument unwindset failed: " + (err + out)[-1500:]
            return res
        cur = gb1
    if not unit.get("no_dfcc"):
        cmd = ["goto-instrument", "--dfcc", entry]
        if unit.get("enforce"):
            cmd += ["--enforce-contract", unit["enforce"]]
        for g in unit.get("replace", []):
            cmd += ["--replace-call-with-contract", g]
        if not unit.get("no_loop_contracts"):
            cmd += ["--apply-loop-contracts"]
        cmd += [cur, gb2]
        rc, out, err, _ = run(cmd, 600, log)
        if rc != 0:
            res["reason"] = "goto-instrument dfcc failed: " + (err + out)[-2500:]
            return res
        cur = gb2
    unwind = str(unit.get("unwind_thorough" if tier == "thorough" and "unwind_thorough" in unit else "unwind", 20))
    cmd = ["cbmc", cur] + DEFAULT_CHECKS + unit.get("cbmc_flags", []) + \
          ["--unwind", unwind, "--unwinding-assertions", "--json-ui"]
    solver = unit.get("solver", spec.get("solver", "cadical"))
    if tier == "thorough" and unit.get("solver_thorough"):
        solver = unit["solver_thorough"]
    if solver in ("cadical", "kissat"):
        if solver == "cadical":
            cmd += ["--sat-solver", "cadical"]
        else:
            cmd += ["--external-sat-solver", "kissat"]
    elif solver in ("z3", "cvc5"):
        cmd += ["--" + solver]
    res["solver"] = solver
    excl = spec.get("excluded_checks", []) + unit.get("excluded_checks", [])
    if excl:
        # A failed pointer-relation check is "fatal" in CBMC 6: every later
        # property is reported UNKNOWN.  Excluded check classes are therefore
        # removed from the property set (by name) instead of being ignored
        # after the fact.
        lcmd = [c for c in cmd if c != "--json-ui"] + ["--show-properties", "--json-ui"]
        rc, out, err, _ = run(lcmd, 300, log)
        try:
            plist = []
            for item in json.loads(out):
                if isinstance(item, dict) and "properties" in item:
                    plist = item["properties"]
        except Exception:
            plist = []
        if not plist:
            res["reason"] = "could not list properties for exclusion filter: " + (err + out)[-500:]
            return res
        keep = [pp["name"] for pp in plist
                if not any(x["match"] in (pp["name"] + " " + pp.get("description", "")) for x in excl)]
        res["excluded"] = len(plist) - len(keep)
        res["excluded_classes"] = [x["match"] for x in excl]
        pf = base + ".props"
        for n in keep:
            cmd += ["--property", n]
    if trace:
        cmd += ["--trace"]
    tmo = unit.get("timeout_thorough" if tier == "thorough" and "timeout_thorough" in unit else "timeout", 600)
    rc, out, err, dt = run(cmd, tmo, log)
    res["secs"] = round(time.time() - t0, 2)
    res["solver_secs"] = round(dt, 2)
    if rc == -9:
        res["reason"] = "timeout after %ss (undecided)" % tmo
        return res
    if rc not in (0, 10):
        res["reason"] = "cbmc exited with rc=%s (out of memory / tool error; undecided): %s" % (rc, (err + out)[-600:].replace("\n", " "))
        return res
    try:
        doc = json.loads(out)
    except Exception:
        res["reason"] = "cbmc output not json (rc=%s): %s" % (rc, (err + out)[-1500:])
        return res
    results = None
    msgs = []
    for item in doc:
        if isinstance(item, dict):
            if "result" in item:
                results = item["result"]
            if item.get("messageType") in ("ERROR", "WARNING"):
                msgs.append(item.get("messageText", ""))
    res["warnings"] = [m for m in msgs if m][:20]
    if any("ignoring" in m and "forall" in m for m in msgs):
        res["reason"] = "quantifier ignored by back end (undecided)"
        return res
    if results is None:
        res["reason"] = "cbmc gave no result (rc=%s): %s" % (rc, " | ".join(msgs)[-1500:])
        return res
    if trace:
        res["raw_results"] = results
    failed, unwind_fail, unknown, envgap = [], [], [], []
    nob = nok = 0
    canary = None
    names = []
    for r in results:
        name = r.get("property", "?")
        desc = r.get("description", "")
        st = r.get("status")
        if "vp_canary" in desc:
            # only the canary of THIS unit's harness counts (without DFCC the other
            # harnesses of the module are in the binary too, unreachable)
            if r.get("sourceLocation", {}).get("function", entry) == entry:
                canary = st
            continue
        nob += 1
        names.append(name)
        if st == "SUCCESS":
            nok += 1
        else:
            loc = r.get("sourceLocation", {})
            ent = {"obligation": name, "description": desc, "status": st,
                   "file": loc.get("file", ""), "line": loc.get("line", ""),
                   "function": loc.get("function", "")}
            if "unwinding assertion" in desc or ".unwind." in name or "recursion" in desc:
                unwind_fail.append(ent)
            elif st != "FAILURE":
                unknown.append(ent)
            elif "undefined function should be unreachable" in desc:
                # DFCC gives every function without a body `assert(false); assume(false)`:
                # the code reached a function outside the modelled environment. That is a gap
                # of the environment model (undecided, exit 2), not a property violation.
                envgap.append(ent)
            else:
                failed.append(ent)
    res["obligations"], res["discharged"], res["canary"] = nob, nok, canary
    res["failed"] = failed
    res["unwind_failed"] = unwind_fail
    # loop-contract presence guard
    need = [] if unit.get("no_loop_contracts") else contracted_loops(spec, unit, scratch)
    steps = [n for n in names if "loop_invariant_step" in n]
    # a `for (;;)` head carries no source location in goto-cc output: DFCC then
    # leaves that loop's >= 4 assertions (base, assigns, step, step unwinding)
    # unnamed: "<fn>_wrapped_for_contract_checking.N" / description "assertion"
    unnamed = [r for r in results if re.match(r'^\w+\.\d+$', r.get("property", ""))
               and r.get("description", "") == "assertion"
               and not r.get("property", "").startswith("__CPROVER")]
    res["loops_closed_by_invariant"] = len(need)
    if len(need) and len(steps) + len(unnamed) // 4 < len(need):
        res["reason"] = "loop contracts missing from obligations (%d step obligations for %d contracted loops)" % (len(steps), len(need))
        return res
    res["samples"] = [{"obligation": r.get("property"), "description": r.get("description"),
                       "line": r.get("sourceLocation", {}).get("line"),
                       "file": os.path.basename(r.get("sourceLocation", {}).get("file", ""))}
                      for r in results if any(k in r.get("property", "") for k in ("postcondition", "loop_invariant_step", "precondition"))][:4]
    if nob == 0:
        res["reason"] = "zero obligations (vacuous)"
        return res
    if nob < unit.get("min_obligations", 1):
        res["reason"] = "obligation count %d below expected minimum %d" % (nob, unit["min_obligations"])
        return res
    if failed:
        res["status"] = "violated"
        res["reason"] = "; ".join("%s (%s)" % (f["obligation"], f["description"][:80]) for f in failed[:4])
        return res
    if envgap:
        res["reason"] = "reaches a function outside the modelled environment (undecided): " + ", ".join(sorted({e["obligation"].split(".")[0] for e in envgap}))
        return res
    if unknown:
        res["reason"] = "%d obligations reported %s by cbmc (undecided): %s" % (len(unknown), unknown[0]["status"], unknown[0]["obligation"])
        return res
    if unwind_fail:
        res["reason"] = "unwinding assertion failed (bound too small; undecided): " + unwind_fail[0]["obligation"]
        return res
    if not unit.get("no_canary") and canary != "FAILURE":
        res["reason"] = "vacuity: canary after the call is unreachable (contradictory precondition?) canary=%s" % canary
        return res
    res["status"] = "ok"
    if res.get("_cache_key") and not trace:
        try:
            os.makedirs(CACHE_DIR, exist_ok=True)
            res["_decided_at"] = time.strftime("%Y-%m-%d %H:%M:%S")
            keep = {k: v for k, v in res.items() if k != "raw_results"}
            tmp = os.path.join(CACHE_DIR, "%s.%d.tmp" % (res["_cache_key"], os.getpid()))
            json.dump(keep, open(tmp, "w"))
            os.replace(tmp, os.path.join(CACHE_DIR, res["_cache_key"] + ".json"))
        except Exception:
            pass
    return res


def _name_match(uname, pat):
    """exact unit name, or a prefix when the pattern ends with '*' (used by vp/seedtest.py --units)"""
    if pat.endswith("*"):
        return uname.startswith(pat[:-1])
    return uname == pat


_PLAN = None


def quick_plan():
    """quick_plan.json (vp/mkplan.py): per property the units of the quick tier; absent => all units"""
    global _PLAN
    if _PLAN is None:
        p = os.path.join(VERIF, "quick_plan.json")
        try:
            _PLAN = json.load(open(p)).get("props", {})
        except Exception:
            _PLAN = {}
    return _PLAN


def units_for(mods, prop=None, module=None, name=None, tier="quick"):
    out = []
    sel = None
    if tier != "thorough" and prop and prop in quick_plan():
        sel = set(quick_plan()[prop])
    for m, spec in mods.items():
        if module and m != module:
            continue
        for u in spec["units"]:
            if name and not _name_match(u["name"], name):
                continue
            if prop and prop not in u.get("props", []):
                continue
            if u.get("tier") == "thorough" and tier != "thorough":
                continue
            if sel is not None and ("%s/%s" % (m, u["name"])) not in sel:
                continue
            out.append((spec, u))
            if tier == "thorough" and spec.get("thorough_assert_pass") and not u.get("no_assert_pass"):
                t = dict(u)
                t["name"] = u["name"] + "@asserts"
                t["asserts_pass"] = True
                t.pop("replay", None)
                out.append((spec, t))
    return out


def run_units(pairs, tier="quick", jobs=None, trace=False):
    scratch = Scratch()
    try:
        # weave sequentially first (cheap) so threads only read
        for spec, u in pairs:
            try:
                prepare_sources(spec, scratch)
            except weaver.WeaveError:
                pass
        jobs = jobs or int(os.environ.get("VP_JOBS", "16"))
        with ThreadPoolExecutor(max_workers=jobs) as ex:
            futs = [ex.submit(run_unit, spec, u, scratch, tier, trace) for spec, u in pairs]
            return [f.result() for f in futs]
    finally:
        scratch.cleanup()


if __name__ == "__main__":
    import argparse
    ap = argparse.ArgumentParser()
    ap.add_argument("--module")
    ap.add_argument("--unit")
    ap.add_argument("--prop")
    ap.add_argument("--tier", default="quick")
    ap.add_argument("-v", action="store_true")
    a = ap.parse_args()
    mods = load_modules()
    pairs = units_for(mods, a.prop, a.module, a.unit, a.tier)
    rs = run_units(pairs, a.tier)
    bad = 0
    seen_reason = set()
    for r in rs:
        if r["reason"].startswith("goto-cc failed"):
            if r["reason"] in seen_reason:
                r["reason"] = "goto-cc failed (same as above)"
            seen_reason.add(r["reason"])
        print("%-10s %-28s %-9s grade=%s obl=%d ok=%d canary=%s %.1fs %s" % (
            r["module"], r["unit"], r["status"], r["grade"], r["obligations"],
            r["discharged"], r["canary"], r["secs"], r["reason"][:3000 if a.v else 300]))
        if a.v:
            for c in r["cmds"]:
                print("    $", c["cmd"][-400:], "->", c["rc"], c["secs"])
        bad += r["status"] != "ok"
    sys.exit(1 if bad else 0)
