#!/bin/bash
# usage: vp/dbg.sh <module> <unit> <property>  -- print a filtered trace of one failing obligation
cd /verif
out=$(VP_KEEP=1 python3 vp/engine.py --module $1 --unit $2 -v)
dir=$(echo "$out" | grep "scratch kept" | awk '{print $3}')
cmd=$(echo "$out" | grep '\$ cbmc' | tail -1 | sed 's/^ *\$ //; s/ -> .*//; s/--json-ui//; s/--property <[^>]*>//')
$cmd --property $3 --trace 2>&1 | grep -v "__dfcc\|__CPROVER_contracts\|^$\|^State\|^---" | grep -v "^  \(set\|elem\|ptr\|car\|size\|write_set\|assume_\|assert_\|allow_\|object_id\|nof_objects\|max_elems\|idx\|retval\|target\|may_fail\|record\|seen\|is_fresh\|lb\|ub\|malloc_is_new_array\|should_malloc\|alloca\|__\|tmp_\|return_value___CPROVER\|offset\|lb_offset\|ub_offset\|max_offset\|require\|lambda_malloc\|c \)" | sed 's/ ([01 ]*)$//' | tail -${4:-60}
rm -rf $dir
