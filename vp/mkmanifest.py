#!/usr/bin/env python3
"""Regenerate MANIFEST.json from props.json + modules/*/spec.json.
A property is claimed iff at least one unit is registered for it."""
import json, os, sys
VERIF = os.path.dirname(os.path.dirname(os.path.abspath(__file__)))
sys.path.insert(0, os.path.join(VERIF, "vp"))
import engine
mods = engine.load_modules()
props = json.load(open(os.path.join(VERIF, "props.json")))
ids = [json.loads(l)["id"] for l in open(os.path.join(VERIF, "properties.jsonl"))]
have = {}
for spec, u in engine.units_for(mods, tier="thorough"):
    for p in u.get("props", []):
        have.setdefault(p, []).append(u)
hooks_commits = json.load(open(os.path.join(VERIF, "hooks.json"))) if os.path.exists(os.path.join(VERIF, "hooks.json")) else []
man = {
 "version": 1,
 "setup_cmd": "python3 vp/selftest.py",
 "hooks": {"guard": "NNG_VERIF", "enable": "none needed: contracts are attached out of tree (redeclaration after #include of the real .c file); loop contracts are woven into a scratch copy on every run",
           "baseline_off_cmd": "cmake -G Ninja -S /repo -B /repo/_build >/dev/null && cmake --build /repo/_build >/dev/null && ctest --test-dir /repo/_build -j8 --timeout 900",
           "source_commits": hooks_commits, "add_only": True},
 "engines": [{"name": "vp-cbmc-contracts", "path": "vp/engine.py",
              "serves_properties": sorted(have),
              "kind_free_text": "contract-based deductive verification: CBMC 6.11 code contracts (goto-instrument --dfcc --enforce-contract/--replace-call-with-contract/--apply-loop-contracts) on the real /repo C files, native ASan replay of counterexamples"}],
 "checks": [], "not_applicable": [],
 "notes": "See DESIGN.md. Exit 2 = undecided (timeout/tool error), never reported as VIOLATION. Grades: P = unbounded (loop invariants / loop-free), Pb/B = size-capped or unwound (reported under coverage.bounded, never counted in obligations/discharged). Quick tier = per property the cheapest units within a CPU budget (quick_plan.json, vp/mkplan.py; each evidence file lists the thorough-only units); thorough tier = every registered unit plus the NNI_ASSERT-enabled pass. A unit that hits its time limit is decided again with 3x the limit before the check reports undecided."
}
for i in ids:
    meta = props[i]
    if i in have:
        onlyb = all(u.get("grade", "P") != "P" for u in have[i])
        man["checks"].append({
            "property_id": i,
            "quick_cmd": "./check %s --tier quick" % i,
            "thorough_cmd": "./check %s --tier thorough" % i,
            "evidence_file": "evidence/%s.json" % i,
            "replay_cmd_template": "./check %s --replay {path}" % i,
            "engine": "vp-cbmc-contracts",
            "level_claimed": {"category": "other" if onlyb else "proof", "text": meta["text"], "design_ref": meta["design_ref"]},
            "level_note": meta["note"],
            "technique": meta["technique"]})
    else:
        man["not_applicable"].append({"property_id": i, "reason": meta["na_reason"]})
json.dump(man, open(os.path.join(VERIF, "MANIFEST.json"), "w"), indent=1)
print("claimed:", [c["property_id"] for c in man["checks"]])
import subprocess; subprocess.call(["python3", os.path.join(VERIF, "vp", "mkcoverage.py")])
