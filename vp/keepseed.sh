#!/bin/bash
# usage: vp/keepseed.sh <worktree> <id> <ctest-regex>
# confirm a delivered seeded change: demo fails against the mutant build, passes against
# /repo/_build (current HEAD), related tests pass in the mutant build; then keep it.
wt=$1; id=$2; rx=$3
d=/verif/seeded/$id; mkdir -p $d
cp $wt/_seed/patch.diff $wt/_seed/demo.c $wt/_seed/notes.md $d/ 2>/dev/null; cp $wt/_seed/demo.sh $d/demo.sh 2>/dev/null
git -C /repo apply --check $d/patch.diff && echo "patch applies to /repo HEAD" || { echo "PATCH DOES NOT APPLY"; exit 1; }
cd $d
gcc -w demo.c -I$wt/include -L$wt/_build -lnng -o /tmp/demo_with_$id && (LD_LIBRARY_PATH=$wt/_build /tmp/demo_with_$id > $d/demo_with.out 2>&1; echo "exit=$?" >> $d/demo_with.out)
gcc -w demo.c -I/repo/include -L/repo/_build -lnng -o /tmp/demo_without_$id && (LD_LIBRARY_PATH=/repo/_build /tmp/demo_without_$id > $d/demo_without.out 2>&1; echo "exit=$?" >> $d/demo_without.out)
echo "with:    $(tail -2 $d/demo_with.out | tr '\n' ' ')"
echo "without: $(tail -2 $d/demo_without.out | tr '\n' ' ')"
ctest --test-dir $wt/_build -R "$rx" --timeout 300 2>&1 | tail -4 > $d/ctest_subset.out; cat $d/ctest_subset.out | head -3
rm -f /tmp/demo_with_$id /tmp/demo_without_$id
