#!/bin/bash
# run every claimed check once (quick tier) and report; evidence files are rewritten
cd /verif
for p in $(python3 -c "import json;print(' '.join(c['property_id'] for c in json.load(open('MANIFEST.json'))['checks']))"); do
  t0=$(date +%s)
  ./check $p > /tmp/check_$p.log 2>&1; rc=$?
  echo "$p rc=$rc $(( $(date +%s) - t0 ))s $(grep SUMMARY /tmp/check_$p.log | cut -c1-160)"
done
