/* env_proto.h -- ASSUMED environment of a protocol implementation
 * (src/sp/protocol/...): pipes, aio completion, aio wait lists, stats, logs.
 * Ghost state only; no nng code.  Split in two parts:
 *   VP_PROTO_GHOSTS : declarations (include BEFORE the real source, so woven
 *                     loop invariants and spec macros can name the ghosts)
 *   VP_PROTO_STUBS  : stub bodies (include AFTER the real source)
 * The message layer is NOT stubbed here: protocol modules include the real
 * src/core/message.c (and lmq.c) so header/body bytes are the real ones.
 */
#if defined(VP_PROTO_GHOSTS) && !defined(VP_PROTO_GHOSTS_DONE)
#define VP_PROTO_GHOSTS_DONE
#include "core/nng_impl.h"

typedef struct {
	size_t   n;
	nni_aio *head;
	nni_aio *tail;
} vp_aioq;
/* All mutable environment ghosts live in ONE object so that a contract names a
 * single assigns target (DFCC checks every write against every target). */
struct vp_proto_env {
	size_t pipe_close_calls;
	nni_pipe *pipe_close_last;
	size_t pipe_recv_calls;
	nni_pipe *pipe_recv_pipe;
	nni_aio *pipe_recv_aio;
	size_t pipe_send_calls;
	nni_pipe *pipe_send_pipe;
	nni_aio *pipe_send_aio;
	nni_msg *pipe_send_msg;
	size_t fin_calls;
	nni_aio *fin_last;
	int fin_last_rv;
	size_t fin_last_count;
	nni_msg *fin_last_msg;
	size_t start_calls;
	nni_aio *start_last;
	size_t aio_close_calls;
	vp_aioq qa;
	vp_aioq qb;
	nni_aio *last_app;
	bool pollr, pollw;
} g_env;
#define g_pollr (g_env.pollr)
#define g_pollw (g_env.pollw)
#define g_pipe_close_calls (g_env.pipe_close_calls)
#define g_pipe_close_last (g_env.pipe_close_last)
#define g_pipe_recv_calls (g_env.pipe_recv_calls)
#define g_pipe_recv_pipe (g_env.pipe_recv_pipe)
#define g_pipe_recv_aio (g_env.pipe_recv_aio)
#define g_pipe_send_calls (g_env.pipe_send_calls)
#define g_pipe_send_pipe (g_env.pipe_send_pipe)
#define g_pipe_send_aio (g_env.pipe_send_aio)
#define g_pipe_send_msg (g_env.pipe_send_msg)
#define g_fin_calls (g_env.fin_calls)
#define g_fin_last (g_env.fin_last)
#define g_fin_last_rv (g_env.fin_last_rv)
#define g_fin_last_count (g_env.fin_last_count)
#define g_fin_last_msg (g_env.fin_last_msg)
#define g_start_calls (g_env.start_calls)
#define g_start_last (g_env.start_last)
#define g_aio_close_calls (g_env.aio_close_calls)
#define g_qa (g_env.qa)
#define g_qb (g_env.qb)
#define g_last_app (g_env.last_app)
/* pipe operations */
uint32_t g_pipe_id;
uint16_t g_pipe_peer;

/* completions */
bool g_aio_start_ok;

/* two aio wait lists (A, B) as ghost queues: count + head + last appended */

nni_list *g_qa_addr, *g_qb_addr;
bool g_aio_active;

/* two pollables (R = readable/recvable, W = writable/sendable) */
nni_pollable *g_pollr_addr, *g_pollw_addr;
/* (flags are members of g_env) */

/* clock */
nni_time g_now;

#define VP_AIOQ_OK(q)                                                      \
	((((q).n > 0 && (q).head == g_last_app) ? ((q).n == 1 && (q).tail == g_last_app) : 1) && \
	    (((q).n == 0) ? ((q).head == NULL && (q).tail == NULL)             \
	                  : ((q).head != NULL && ((q).n != 1 || (q).tail == NULL || (q).tail == (q).head) && \
	                        ((q).n == 1 || (q).tail != (q).head))))
#define VP_AIOQS_OK                                                        \
	(VP_AIOQ_OK(g_qa) && VP_AIOQ_OK(g_qb) && g_qa.n <= 8 && g_qb.n <= 8 && \
	    !(g_qa.n > 0 && g_qb.n > 0 && g_qa.tail != NULL && g_qa.tail == g_last_app && g_qb.tail == g_last_app) && \
	    (g_qa.n == 0 || g_qb.n == 0 ||                                     \
	        (g_qa.head != g_qb.head && g_qa.head != g_qb.tail &&           \
	            (g_qa.tail == NULL || (g_qa.tail != g_qb.head && g_qa.tail != g_qb.tail)))))
/* precondition form: the heads are real aio objects (the code may write their
 * message slot); use in requires instead of VP_AIOQS_OK */
#define VP_AIOQS_PRE                                                       \
	((g_qa.n == 0 || __CPROVER_is_fresh(g_qa.head, sizeof(nni_aio))) &&   \
	    (g_qb.n == 0 || __CPROVER_is_fresh(g_qb.head, sizeof(nni_aio))) && \
	    VP_AIOQS_OK) /* is_fresh first: it re-points the heads */
#define VP_AIO_NOT_QUEUED(aio)                                             \
	(!(g_qa.n > 0 && ((aio) == g_qa.head || (aio) == g_qa.tail)) &&        \
	    !(g_qb.n > 0 && ((aio) == g_qb.head || (aio) == g_qb.tail)))

#define VP_PROTO_GHOST_LIST g_env

#define VP_HAVOC_PROTO()                                                   \
	do {                                                                   \
		g_pipe_close_calls = nondet_size_t(); g_pipe_close_last = nondet_ptr(); \
		g_pipe_recv_calls = nondet_size_t(); g_pipe_recv_pipe = nondet_ptr(); g_pipe_recv_aio = nondet_ptr(); \
		g_pipe_send_calls = nondet_size_t(); g_pipe_send_pipe = nondet_ptr(); g_pipe_send_aio = nondet_ptr(); \
		g_pipe_send_msg = nondet_ptr(); g_pipe_id = nondet_u32(); g_pipe_peer = nondet_u16(); \
		g_fin_calls = nondet_size_t(); g_fin_last = nondet_ptr(); g_fin_last_rv = nondet_int(); \
		g_fin_last_count = nondet_size_t(); g_fin_last_msg = nondet_ptr(); \
		g_start_calls = nondet_size_t(); g_aio_start_ok = nondet_bool(); g_start_last = nondet_ptr(); \
		g_aio_close_calls = nondet_size_t(); \
		g_qa.n = nondet_size_t(); g_qa.head = nondet_ptr(); g_qa.tail = nondet_ptr(); \
		g_qb.n = nondet_size_t(); g_qb.head = nondet_ptr(); g_qb.tail = nondet_ptr(); \
		g_qa_addr = nondet_ptr(); g_qb_addr = nondet_ptr(); g_last_app = nondet_ptr(); \
		g_aio_active = nondet_bool(); \
		g_pollr_addr = nondet_ptr(); g_pollw_addr = nondet_ptr(); g_pollr = nondet_bool(); g_pollw = nondet_bool(); \
		g_now = nondet_u64(); \
		__CPROVER_assume(g_pipe_close_calls < ((size_t) 1 << 40) && g_pipe_recv_calls < ((size_t) 1 << 40) && \
		    g_pipe_send_calls < ((size_t) 1 << 40) && g_fin_calls < ((size_t) 1 << 40) && \
		    g_start_calls < ((size_t) 1 << 40) && g_aio_close_calls < ((size_t) 1 << 40)); \
	} while (0)
#endif /* VP_PROTO_GHOSTS */

#if defined(VP_PROTO_STUBS) && !defined(VP_PROTO_STUBS_DONE)
#define VP_PROTO_STUBS_DONE

/* ---- pipes ---- */
void nni_pipe_close(nni_pipe *p) { g_pipe_close_calls++; g_pipe_close_last = p; }
void nni_pipe_recv(nni_pipe *p, nni_aio *aio) { g_pipe_recv_calls++; g_pipe_recv_pipe = p; g_pipe_recv_aio = aio; }
void nni_pipe_send(nni_pipe *p, nni_aio *aio)
{
	g_pipe_send_calls++;
	g_pipe_send_pipe = p;
	g_pipe_send_aio  = aio;
	g_pipe_send_msg  = aio->a_msg;
}
uint32_t nni_pipe_id(nni_pipe *p) { (void) p; return (g_pipe_id); }
uint16_t nni_pipe_peer(nni_pipe *p) { (void) p; return (g_pipe_peer); }

/* ---- aio accessors on the real structure ---- */
nng_err  nni_aio_result(nni_aio *aio) { return (aio->a_result); }
size_t   nni_aio_count(nni_aio *aio) { return (aio->a_count); }
nni_msg *nni_aio_get_msg(nni_aio *aio) { return (aio->a_msg); }
void     nni_aio_set_msg(nni_aio *aio, nni_msg *m) { aio->a_msg = m; }
void     nni_aio_close(nni_aio *aio) { (void) aio; g_aio_close_calls++; }
void     nni_aio_reset(nni_aio *aio) { aio->a_result = NNG_OK; aio->a_count = 0; }

/* ---- completion ---- */
void nni_aio_finish(nni_aio *aio, nng_err rv, size_t count)
{
	g_fin_calls++;
	g_fin_last       = aio;
	g_fin_last_rv    = (int) rv;
	g_fin_last_count = count;
	g_fin_last_msg   = aio->a_msg;
}
void nni_aio_finish_sync(nni_aio *aio, nng_err rv, size_t count) { nni_aio_finish(aio, rv, count); }
void nni_aio_finish_error(nni_aio *aio, nng_err rv) { nni_aio_finish(aio, rv, 0); }
void nni_aio_finish_msg(nni_aio *aio, nni_msg *m) { aio->a_msg = m; nni_aio_finish(aio, NNG_OK, 0); }
bool nni_aio_start(nni_aio *aio, nni_aio_cancel_fn fn, void *arg)
{
	(void) fn;
	(void) arg;
	g_start_calls++;
	g_start_last = aio;
	return (g_aio_start_ok);
}

/* ---- aio wait lists (ghost queues) ---- */
static vp_aioq *vp_which(const nni_list *l)
{
	__CPROVER_assert(l == g_qa_addr || l == g_qb_addr, "list is one of the two modelled aio wait lists");
	return (l == g_qa_addr ? &g_qa : &g_qb);
}
static void vp_pop(vp_aioq *q)
{
	q->n--;
	if (q->n == 0) {
		q->head = NULL;
		q->tail = NULL;
	} else if (q->n == 1 && q->tail != NULL) {
		q->head = q->tail;
	} else {
		/* the next member: some other aio object (environment invariant:
		 * members are distinct live aios, each on one list only) */
		vp_aioq *o = (q == &g_qa) ? &g_qb : &g_qa;
		q->head    = malloc(sizeof(nni_aio));
		__CPROVER_assume(q->head != NULL && q->head != q->tail && q->head != g_last_app);
		__CPROVER_assume(o->n == 0 || (q->head != o->head && q->head != o->tail));
	}
}
static bool vp_on(vp_aioq *q, nni_aio *aio) { return (q->n > 0 && (aio == q->head || aio == q->tail)); }
void *nni_list_first(const nni_list *l) { vp_aioq *q = vp_which(l); return (q->n ? q->head : NULL); }
int   nni_list_empty(nni_list *l) { return (vp_which(l)->n == 0); }
void  nni_aio_list_init(nni_list *l) { (void) l; }
void  nni_aio_list_append(nni_list *l, nni_aio *aio)
{
	vp_aioq *q = vp_which(l);
	__CPROVER_assert(!vp_on(&g_qa, aio) && !vp_on(&g_qb, aio), "append: aio is not already on a list");
	if (q->n == 0) {
		q->head = aio;
	}
	q->tail    = aio;
	g_last_app = aio;
	q->n++;
}
void nni_aio_list_remove(nni_aio *aio)
{
	vp_aioq *q = vp_on(&g_qa, aio) ? &g_qa : (vp_on(&g_qb, aio) ? &g_qb : NULL);
	if (q != NULL && aio == q->head) {
		vp_pop(q);
	} else if (q != NULL) {
		q->n--;
		q->tail = (q->n == 1) ? q->head : NULL;
	} else {
		__CPROVER_assert(0, "aio list remove: aio is a tracked member of a list");
	}
}
int nni_aio_list_active(nni_aio *aio)
{
	if (vp_on(&g_qa, aio) || vp_on(&g_qb, aio)) {
		return (1);
	}
	if (aio == g_last_app) {
		return (0);
	}
	return (g_aio_active);
}

/* ---- pollables ---- */
void nni_pollable_init(nni_pollable *p) { (void) p; }
void nni_pollable_fini(nni_pollable *p) { (void) p; }
void nni_pollable_raise(nni_pollable *p)
{
	__CPROVER_assert(p == g_pollr_addr || p == g_pollw_addr, "pollable of this socket");
	if (p == g_pollr_addr) g_pollr = true; else g_pollw = true;
}
void nni_pollable_clear(nni_pollable *p)
{
	__CPROVER_assert(p == g_pollr_addr || p == g_pollw_addr, "pollable of this socket");
	if (p == g_pollr_addr) g_pollr = false; else g_pollw = false;
}

/* ---- misc ---- */
int  nni_atomic_get(nni_atomic_int *v) { return (v->v); }
void nni_atomic_set(nni_atomic_int *v, int i) { v->v = i; }
void nni_atomic_init(nni_atomic_int *v) { v->v = 0; }
void nni_atomic_inc(nni_atomic_int *v) { v->v++; }
int  nni_atomic_dec_nv(nni_atomic_int *v) { v->v--; return (v->v); }
void nni_stat_inc(nni_stat_item *s, uint64_t n) { (void) s; (void) n; }
void nni_sock_bump_rx(nni_sock *s, uint64_t n) { (void) s; (void) n; }
void nni_sock_bump_tx(nni_sock *s, uint64_t n) { (void) s; (void) n; }
void nng_log_warn(const char *id, const char *fmt, ...) { (void) id; (void) fmt; }
void nng_log_debug(const char *id, const char *fmt, ...) { (void) id; (void) fmt; }
nni_time nni_clock(void) { return (g_now); }
void
nni_panic(const char *fmt, ...)
{
	(void) fmt;
	__CPROVER_assert(0, "nni_panic reached (library aborts the process)");
	__CPROVER_assume(0);
}
#endif /* VP_PROTO_STUBS */
