/* env_mem.h -- over-approximating model of memmove for moves INSIDE A HEAP
 * BYTE BUFFER (used only by units that define VP_MEMMOVE_HAVOC_OBJECT).
 *
 * CBMC's built-in memmove (array_copy + array_replace of symbolic length at a
 * symbolic offset inside an object of symbolic size) did not finish
 * bit-blasting nni_chunk_insert in 10 minutes, with any back end, even with
 * the buffer capped at 64 bytes (DESIGN.md, tool limits).
 *
 * This stub checks the same preconditions, then havocs the WHOLE destination
 * object and re-establishes only the moved bytes at the ghost indices g_k,
 * g_j, g_hk.  Every behaviour of the real memmove is a behaviour of the stub
 * (the real result is one possible value of the havocked bytes), so an
 * obligation proved with the stub holds with the real function; the price is
 * that nothing may be concluded about other bytes of that buffer, which no
 * postcondition of the units using it inspects.
 */
#ifndef VP_ENV_MEM_H
#define VP_ENV_MEM_H
#ifdef VP_MEMMOVE_HAVOC_OBJECT
static inline void *
vp_memmove(void *dst, const void *src, size_t n)
{
	__CPROVER_assert(__CPROVER_r_ok(src, n), "memmove source region readable");
	__CPROVER_assert(__CPROVER_w_ok(dst, n), "memmove destination region writeable");
	if (n > 0) {
		const uint8_t *s = (const uint8_t *) src;
		uint8_t       *d = (uint8_t *) dst;
		uint8_t bk = (g_k < n) ? s[g_k] : 0;
		uint8_t bj = (g_j < n) ? s[g_j] : 0;
		uint8_t bh = (g_hk < n) ? s[g_hk] : 0;
		__CPROVER_havoc_object(d);
		if (g_k < n) {
			d[g_k] = bk;
		}
		if (g_j < n) {
			d[g_j] = bj;
		}
		if (g_hk < n) {
			d[g_hk] = bh;
		}
	}
	return (dst);
}
#define memmove vp_memmove
#endif
#ifdef VP_MEMCPY_HAVOC_OBJECT
/* same sound over-approximation for memcpy into a heap byte buffer: the whole
 * destination OBJECT is havocked and only the bytes at the ghost indices are
 * re-established (nothing may then be concluded about other bytes of it) */
static inline void *
vp_memcpy(void *dst, const void *src, size_t n)
{
	__CPROVER_assert(__CPROVER_r_ok(src, n), "memcpy source region readable");
	__CPROVER_assert(__CPROVER_w_ok(dst, n), "memcpy destination region writeable");
	if (n > 0) {
		const uint8_t *s = (const uint8_t *) src;
		uint8_t       *d = (uint8_t *) dst;
		uint8_t bk = (g_k < n) ? s[g_k] : 0;
		uint8_t bh = (g_hk < n) ? s[g_hk] : 0;
		__CPROVER_havoc_object(d);
		if (g_k < n) {
			d[g_k] = bk;
		}
		if (g_hk < n) {
			d[g_hk] = bh;
		}
	}
	return (dst);
}
#define memcpy vp_memcpy
#endif

/* Exact byte-loop models, for units where the copy length is bounded by a
 * constant OF THE CODE (the 64-byte message header): with --unwind above that
 * constant and unwinding assertions on, the result is complete, not bounded. */
#ifdef VP_MEM_BYTELOOP
static inline void *
vp_memcpy_loop(void *dst, const void *src, size_t n)
{
	__CPROVER_assert(__CPROVER_r_ok(src, n), "memcpy source region readable");
	__CPROVER_assert(__CPROVER_w_ok(dst, n), "memcpy destination region writeable");
	const uint8_t *s = (const uint8_t *) src;
	uint8_t       *d = (uint8_t *) dst;
	__CPROVER_assert(n == 0 || !__CPROVER_same_object(d, s) ||
	        (size_t) __CPROVER_POINTER_OFFSET(d) >= (size_t) __CPROVER_POINTER_OFFSET(s) + n ||
	        (size_t) __CPROVER_POINTER_OFFSET(s) >= (size_t) __CPROVER_POINTER_OFFSET(d) + n,
	    "memcpy regions do not overlap");
	for (size_t i = 0; i < n; i++) {
		d[i] = s[i];
	}
	return (dst);
}
static inline void *
vp_memmove_loop(void *dst, const void *src, size_t n)
{
	__CPROVER_assert(__CPROVER_r_ok(src, n), "memmove source region readable");
	__CPROVER_assert(__CPROVER_w_ok(dst, n), "memmove destination region writeable");
	const uint8_t *s = (const uint8_t *) src;
	uint8_t       *d = (uint8_t *) dst;
	uint8_t        tmp[VP_MEM_BYTELOOP];
	__CPROVER_assert(n <= VP_MEM_BYTELOOP, "memmove length within the constant bound of this unit");
	for (size_t i = 0; i < n; i++) {
		tmp[i] = s[i];
	}
	for (size_t i = 0; i < n; i++) {
		d[i] = tmp[i];
	}
	return (dst);
}
#define memcpy vp_memcpy_loop
#define memmove vp_memmove_loop
#endif
#endif
