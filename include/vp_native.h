/* vp_native.h -- support for native replay drivers (gcc + ASan/UBSan against
 * the REAL /repo source).  Inputs come from a key=value file produced by
 * vp/replay.py out of a CBMC counterexample trace (the vp_in_* snapshots that
 * the weaver inserts at the entry of the function under contract). */
#ifndef VP_NATIVE_H
#define VP_NATIVE_H
#include <stdbool.h>
#include <stddef.h>
#include <stdint.h>
#include <stdio.h>
#include <stdlib.h>
#include <string.h>

#define VP_MAXKV 2048
static char     vp_keys[VP_MAXKV][96];
static uint64_t vp_vals[VP_MAXKV];
static int      vp_nkv;

static void
vp_load(const char *path)
{
	FILE *f = fopen(path, "r");
	char  line[256];
	/* a sanitizer report ends the process without flushing stdio: keep what the
	 * driver printed before the failing call */
	setvbuf(stdout, NULL, _IOLBF, 0);
	if (f == NULL) {
		fprintf(stderr, "cannot open %s\n", path);
		exit(2);
	}
	while (fgets(line, sizeof(line), f) != NULL && vp_nkv < VP_MAXKV) {
		char *eq = strchr(line, '=');
		if (eq == NULL || line[0] == '#') {
			continue;
		}
		*eq = 0;
		snprintf(vp_keys[vp_nkv], sizeof(vp_keys[0]), "%s", line);
		vp_vals[vp_nkv] = strtoull(eq + 1, NULL, 0);
		vp_nkv++;
	}
	fclose(f);
}

static bool
vp_has(const char *k)
{
	for (int i = 0; i < vp_nkv; i++)
		if (strcmp(vp_keys[i], k) == 0)
			return true;
	return false;
}

static uint64_t
vp_u64(const char *k, uint64_t dflt)
{
	for (int i = 0; i < vp_nkv; i++)
		if (strcmp(vp_keys[i], k) == 0)
			return vp_vals[i];
	return dflt;
}

/* indexed key: name[i] */
static uint64_t
vp_idx(const char *k, size_t i, uint64_t dflt)
{
	char b[128];
	snprintf(b, sizeof(b), "%s[%zu]", k, i);
	return vp_u64(b, dflt);
}

/* key built with a printf format, e.g. vp_fmt(0, "vp_in.a_iov[%u].iov_len", i) */
#include <stdarg.h>
static uint64_t
vp_fmt(uint64_t dflt, const char *fmt, ...)
{
	char    b[128];
	va_list ap;
	va_start(ap, fmt);
	vsnprintf(b, sizeof(b), fmt, ap);
	va_end(ap);
	return vp_u64(b, dflt);
}
static bool
vp_hasf(const char *fmt, ...)
{
	char    b[128];
	va_list ap;
	va_start(ap, fmt);
	vsnprintf(b, sizeof(b), fmt, ap);
	va_end(ap);
	return vp_has(b);
}

static int vp_fail_count;
#define VP_EXPECT(c)                                                        \
	do {                                                                \
		if (!(c)) {                                                 \
			printf("REPLAY-FAIL: %s (%s:%d)\n", #c, __FILE__,   \
			    __LINE__);                                      \
			vp_fail_count++;                                    \
		}                                                           \
	} while (0)
#define VP_DONE()                                                           \
	do {                                                                \
		if (vp_fail_count) {                                        \
			printf("REPLAY-RESULT: reproduced (%d oracle "      \
			       "failures)\n", vp_fail_count);               \
			return 1;                                           \
		}                                                           \
		printf("REPLAY-RESULT: not reproduced\n");                  \
		return 0;                                                   \
	} while (0)

#define VP_POW2(x) ((x) != 0 && (((x) & ((x) - 1)) == 0))
#define VP_MIN(a, b) ((a) < (b) ? (a) : (b))
#endif
