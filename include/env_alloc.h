/* env_alloc.h -- ASSUMED model of the pluggable allocator
 * (src/platform/posix/posix_alloc.c: nni_alloc = sz>0 ? malloc : NULL etc.).
 * malloc/calloc are CBMC's models with the may-fail mode ON, so every
 * function under contract is also explored with each allocation failing.
 * nni_free carries the "sized free" obligation of C03: the size handed back
 * must be the size the block was allocated with.
 */
#ifndef VP_ENV_ALLOC_H
#define VP_ENV_ALLOC_H

void *
nni_alloc(size_t sz)
{
	void *p = (sz > 0 ? malloc(sz) : NULL);
	if (p != NULL) {
		g_alloc_ok++;
	}
	return (p);
}

void *
nni_zalloc(size_t sz)
{
	void *p = (sz > 0 ? calloc(1, sz) : NULL);
	if (p != NULL) {
		g_alloc_ok++;
	}
	return (p);
}

void
nni_free(void *ptr, size_t size)
{
	if (ptr != NULL) {
		g_free_calls++; /* counts releases of real blocks only */
		__CPROVER_assert(__CPROVER_OBJECT_SIZE(ptr) == size,
		    "sized free: nni_free size equals allocation size");
		__CPROVER_assert(__CPROVER_POINTER_OFFSET(ptr) == 0,
		    "sized free: nni_free of block start");
	}
	free(ptr);
}

#endif
