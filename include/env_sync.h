/* env_sync.h -- ASSUMED model of nni_mtx: a ghost "held" flag per mutex
 * (up to two distinct mutexes tracked).  Sequential: no interleaving is
 * explored; what IS checked is lock discipline -- never lock a mutex that is
 * already held by this call chain (self-deadlock), never unlock one that is
 * not held, and (via per-function postconditions) the lock state on return. */
#ifndef VP_ENV_SYNC_H
#define VP_ENV_SYNC_H
nni_mtx *g_mtx_a, *g_mtx_b; /* identities of tracked mutexes (set on first lock) */
bool     g_held_a, g_held_b;
size_t   g_lock_ops;

void nni_mtx_init(nni_mtx *m) { (void) m; }
void nni_mtx_fini(nni_mtx *m)
{
	__CPROVER_assert(!((m == g_mtx_a && g_held_a) || (m == g_mtx_b && g_held_b)), "mutex destroyed while held");
}
void
nni_mtx_lock(nni_mtx *m)
{
	g_lock_ops++;
	if (g_mtx_a == NULL || g_mtx_a == m) {
		g_mtx_a = m;
		__CPROVER_assert(!g_held_a, "lock: mutex already held by this call chain (self-deadlock)");
		g_held_a = true;
	} else {
		__CPROVER_assert(g_mtx_b == NULL || g_mtx_b == m, "lock: more than two distinct mutexes (model limit)");
		g_mtx_b = m;
		__CPROVER_assert(!g_held_b, "lock: mutex already held by this call chain (self-deadlock)");
		g_held_b = true;
	}
}
void
nni_mtx_unlock(nni_mtx *m)
{
	g_lock_ops++;
	if (m == g_mtx_a) {
		__CPROVER_assert(g_held_a, "unlock of a mutex that is not held");
		g_held_a = false;
	} else {
		__CPROVER_assert(m == g_mtx_b && g_held_b, "unlock of a mutex that is not held");
		g_held_b = false;
	}
}
#define VP_HAVOC_SYNC() do { g_mtx_a = NULL; g_mtx_b = NULL; g_held_a = false; g_held_b = false; g_lock_ops = 0; } while (0)
#define VP_SYNC_GHOSTS g_mtx_a, g_mtx_b, g_held_a, g_held_b, g_lock_ops
#define VP_NO_LOCK_HELD (!g_held_a && !g_held_b)
#endif
