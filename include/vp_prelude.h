/* vp_prelude.h -- ghost state and spec helpers shared by every verified TU.
 * Contains NO code of nng.  Included before the real /repo source file.
 */
#ifndef VP_PRELUDE_H
#define VP_PRELUDE_H

#include <stdbool.h>
#include <stddef.h>
#include <stdint.h>
#include <stdlib.h>
#include <string.h>

/* ---- ghost state -------------------------------------------------------
 * Ghost index technique: a universally quantified postcondition
 * "for all k < n: P(k)" is stated for one nondeterministic global g_k that
 * the harness leaves unconstrained; proving P(g_k) proves the forall.
 */
size_t   g_k;  /* ghost index 1 */
size_t   g_j;  /* ghost index 2 */
size_t   g_n;  /* ghost scalar (segmentation lemmas etc.) */
uint8_t  g_b;  /* ghost byte tied to index g_k by a precondition equation */
void    *g_p;  /* ghost pointer tied to index g_k by a precondition equation */
void    *g_p3; /* third ghost pointer */
void    *g_p2; /* second ghost pointer (tied to a pre-state pointer by a precondition equation) */
uint64_t g_u64; /* ghost 64-bit word (precondition equation) */
uint32_t g_u32; /* ghost word tied to a pre-state value by a precondition equation */
size_t   g_hk; /* ghost index, header string */
uint8_t  g_hb; /* ghost byte tied to g_hk */

/* ghost accounting for message frees (nni_msg_free stub) */
size_t   g_msg_freed;       /* number of nni_msg_free calls */
void    *g_msg_freed_at_j;  /* the message freed by call number g_j */

/* ghost accounting for nni_free */
size_t   g_free_calls;      /* number of nni_free calls */
size_t   g_alloc_ok;        /* number of successful nni_alloc/nni_zalloc calls */
#define VP_HEAP_DELTA(a, f) (g_alloc_ok == __CPROVER_old(g_alloc_ok) + (a) && g_free_calls == __CPROVER_old(g_free_calls) + (f))

/* canary: must be reachable (and therefore FAIL) in every harness */
#define VP_CANARY() __CPROVER_assert(0, "vp_canary: harness end reachable")

#define VP_POW2(x) ((x) != 0 && (((x) & ((x) - 1)) == 0))
#define VP_MIN(a, b) ((a) < (b) ? (a) : (b))

/* "p is the same pointer as before": stated with pointer_in_range_dfcc so
 * that, when the contract REPLACES a call and p was havocked by the assigns
 * clause, p is re-pointed at the old object (a plain == would leave CBMC's
 * points-to set of p empty and every read through it unconstrained) */
#define VP_SAME_PTR(p)                                                    \
	((__CPROVER_old(p) == NULL)                                           \
	        ? ((p) == NULL)                                               \
	        : __CPROVER_pointer_in_range_dfcc(                            \
	              __CPROVER_old(p), (p), __CPROVER_old(p)))

/* nondet sources */
size_t        nondet_size_t(void);
int           nondet_int(void);
unsigned      nondet_unsigned(void);
uint8_t       nondet_u8(void);
uint16_t      nondet_u16(void);
uint32_t      nondet_u32(void);
uint64_t      nondet_u64(void);
bool          nondet_bool(void);
void         *nondet_ptr(void);

#endif
