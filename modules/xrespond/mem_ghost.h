/* mem_ghost.h -- over-approximating model of memcpy for units that define
 * VP_MEMCPY_GHOST (same idea as VP_MEMMOVE_HAVOC_OBJECT in include/env_mem.h,
 * but confined to 64 bytes from the destination pointer).
 *
 * CBMC's built-in memcpy of symbolic length into a member of a struct
 * (ctx->btrace) did not fit into 50 GB inside the protocol TUs.  This model
 *   - checks the same preconditions (source readable, destination writable),
 *   - copies exactly when the length is the constant 4 (one backtrace word),
 *   - with VP_MEMCPY_WORDS: copies exactly, as 16 guarded word copies (length must be a whole
 *     number of words <= 64: asserted);
 *   - otherwise havocs dst[0..64) (a superset of the written range; n <= 64 and room for 64 bytes asserted) and re-establishes the copied bytes
 *     at the ghost indices g_k, g_hk and g_j.
 * Every behaviour of the real memcpy is a behaviour of the model (the real
 * result is one value of the havocked bytes), so an obligation proved with it
 * holds with the real function; nothing may be concluded about other bytes of
 * the destination range, which no postcondition of these units inspects.
 */
#ifndef VP_MEM_GHOST_H
#define VP_MEM_GHOST_H
#ifdef VP_MEMCPY_GHOST
static inline void *
vp_memcpy_ghost(void *dst, const void *src, size_t n)
{
	const uint8_t *s = (const uint8_t *) src;
	uint8_t       *d = (uint8_t *) dst;
	__CPROVER_assert(__CPROVER_r_ok(src, n), "memcpy source region readable");
	__CPROVER_assert(__CPROVER_w_ok(dst, n), "memcpy destination region writeable");
	if (n == 4) {
		d[0] = s[0];
		d[1] = s[1];
		d[2] = s[2];
		d[3] = s[3];
	} else if (n > 0) {
#ifdef VP_MEMCPY_WORDS
		/* exact model for word-aligned copies of at most 16 words (backtraces): 16 guarded
		 * word copies at constant offsets */
		__CPROVER_assert(n <= 64 && n % 4 == 0, "memcpy length is a whole number of words within the 64-byte header capacity (model limit of this unit)");
		/* the two region assertions above cover every access below (n <= 64, n % 4 == 0) */
#pragma CPROVER check push
#pragma CPROVER check disable "pointer"
#pragma CPROVER check disable "bounds"
#pragma CPROVER check disable "pointer-overflow"
#pragma CPROVER check disable "pointer-primitive"
#define VP_MG_W1(i) if ((size_t) 4 * (i) < n) { ((uint32_t *) dst)[(i)] = ((const uint32_t *) src)[(i)]; }
		VP_MG_W1(0) VP_MG_W1(1) VP_MG_W1(2) VP_MG_W1(3) VP_MG_W1(4) VP_MG_W1(5) VP_MG_W1(6) VP_MG_W1(7)
		VP_MG_W1(8) VP_MG_W1(9) VP_MG_W1(10) VP_MG_W1(11) VP_MG_W1(12) VP_MG_W1(13) VP_MG_W1(14) VP_MG_W1(15)
#pragma CPROVER check pop
		return (dst);
#endif
		uint8_t bk = (g_k < n) ? s[g_k] : 0;
		uint8_t bh = (g_hk < n) ? s[g_hk] : 0;
		uint8_t bj = (g_j < n) ? s[g_j] : 0;
		/* havoc: n is bounded by the 64-byte header capacity in every use and every destination
		 * (ctx->btrace, the message header from its start) has room for 64 bytes (both asserted);
		 * the model havocs all 64 bytes -- a superset of dst[0..n): __CPROVER_havoc_slice with a
		 * symbolic length, and 64 guarded byte writes, did not fit into memory */
		__CPROVER_assert(n <= 64, "memcpy length within the 64-byte header capacity (model limit of this unit)");
		__CPROVER_assert(__CPROVER_w_ok(dst, 64), "memcpy destination has room for 64 bytes (model limit of this unit)");
		__CPROVER_havoc_slice(d, 64);
		if (g_k < n) {
			d[g_k] = bk;
		}
		if (g_hk < n) {
			d[g_hk] = bh;
		}
		if (g_j < n) {
			d[g_j] = bj;
		}
	}
	return (dst);
}
#define memcpy vp_memcpy_ghost
#endif
#endif
