/* env.h (modules/xrespond, shared by the survey-family modules of this
 * directory tree: xrespond, respond, survey, xsurvey) -- ASSUMED environment
 * on top of include/env_proto.h:
 *   - nni_msgq_* (the socket's upper queues and the per-pipe send queues of
 *     the raw protocols) as ghost records: who was called with what; the
 *     answer of nni_msgq_tryput is an arbitrary ghost;
 *   - nni_id_map as a finite map with ONE tracked key: the harness leaves the
 *     key free and the contract ties it by a precondition equation to the key
 *     the function looks up (peer controlled word, pipe id, survey id), so the
 *     single (key,value) pair is the map's content AT THAT KEY for every map;
 *     an access to another key is a model limit and fails an assertion;
 *   - nni_aio timeout accessors on the real structure.
 * Two parts like env_proto.h: declarations first (before the real source),
 * VP_SV_STUBS bodies after it.
 */
#ifndef VP_SV_GHOSTS_DONE
#define VP_SV_GHOSTS_DONE
#include "core/nng_impl.h"
struct vp_sv_env {
	/* msgq */
	size_t    mq_put_calls;
	nni_msgq *mq_put_q;
	nni_aio  *mq_put_aio;
	nni_msg  *mq_put_msg;
	size_t    mq_get_calls;
	nni_msgq *mq_get_q;
	nni_aio  *mq_get_aio;
	size_t    mq_tryput_calls;
	nni_msgq *mq_tryput_q;
	nni_msg  *mq_tryput_msg;
	size_t    mq_close_calls;
	/* id map, one tracked key */
	bool      idm_present; /* the tracked key is in the map */
	void     *idm_val;     /* its value (meaningful iff present) */
	size_t    idm_get_calls, idm_set_calls, idm_remove_calls, idm_alloc_calls;
	uint64_t  idm_removed_last;
	/* aio expire */
	size_t    set_expire_calls;
	nni_aio  *set_expire_aio;
	nni_time  set_expire_when;
} g_sv;
nni_id_map *g_idm_addr;   /* the map the model stands for */
uint64_t    g_idm_key;    /* the tracked key (free; tied by contract preconditions) */
int         g_mq_tryput_rv; /* answer of nni_msgq_tryput: 0, NNG_EAGAIN or NNG_ECLOSED */
int         g_idm_set_rv;   /* answer of nni_id_set / nni_id_alloc32: 0 or NNG_ENOMEM */
uint32_t    g_idm_fresh;    /* the id nni_id_alloc32 hands out (within the map's range, not in the map) */
#define VP_SV_GHOST_LIST g_sv
#define VP_HAVOC_SV()                                                      \
	do {                                                                   \
		g_sv.mq_put_calls = nondet_size_t(); g_sv.mq_put_q = nondet_ptr(); g_sv.mq_put_aio = nondet_ptr(); \
		g_sv.mq_put_msg = nondet_ptr(); g_sv.mq_get_calls = nondet_size_t(); g_sv.mq_get_q = nondet_ptr(); \
		g_sv.mq_get_aio = nondet_ptr(); g_sv.mq_tryput_calls = nondet_size_t(); g_sv.mq_tryput_q = nondet_ptr(); \
		g_sv.mq_tryput_msg = nondet_ptr(); g_sv.mq_close_calls = nondet_size_t(); \
		g_sv.idm_present = nondet_bool(); g_sv.idm_val = nondet_ptr(); \
		g_sv.idm_get_calls = nondet_size_t(); g_sv.idm_set_calls = nondet_size_t(); \
		g_sv.idm_remove_calls = nondet_size_t(); g_sv.idm_alloc_calls = nondet_size_t(); \
		g_sv.idm_removed_last = nondet_u64(); \
		g_sv.set_expire_calls = nondet_size_t(); g_sv.set_expire_aio = nondet_ptr(); g_sv.set_expire_when = nondet_u64(); \
		g_idm_addr = nondet_ptr(); g_idm_key = nondet_u64(); g_mq_tryput_rv = nondet_int(); \
		g_idm_set_rv = nondet_int(); g_idm_fresh = nondet_u32(); \
		__CPROVER_assume(g_sv.mq_put_calls < ((size_t) 1 << 40) && g_sv.mq_get_calls < ((size_t) 1 << 40) && \
		    g_sv.mq_tryput_calls < ((size_t) 1 << 40) && g_sv.mq_close_calls < ((size_t) 1 << 40) && \
		    g_sv.idm_get_calls < ((size_t) 1 << 40) && g_sv.idm_set_calls < ((size_t) 1 << 40) && \
		    g_sv.idm_remove_calls < ((size_t) 1 << 40) && g_sv.idm_alloc_calls < ((size_t) 1 << 40) && \
		    g_sv.set_expire_calls < ((size_t) 1 << 40)); \
	} while (0)
#endif

#if defined(VP_SV_STUBS) && !defined(VP_SV_STUBS_DONE)
#define VP_SV_STUBS_DONE
/* ---- message queues (ghost records) ---- */
void nni_msgq_aio_put(nni_msgq *mq, nni_aio *aio)
{
	g_sv.mq_put_calls++;
	g_sv.mq_put_q   = mq;
	g_sv.mq_put_aio = aio;
	g_sv.mq_put_msg = aio->a_msg;
}
void nni_msgq_aio_get(nni_msgq *mq, nni_aio *aio)
{
	g_sv.mq_get_calls++;
	g_sv.mq_get_q   = mq;
	g_sv.mq_get_aio = aio;
}
int nni_msgq_tryput(nni_msgq *mq, nni_msg *msg)
{
	g_sv.mq_tryput_calls++;
	g_sv.mq_tryput_q   = mq;
	g_sv.mq_tryput_msg = msg;
	/* environment invariant: the answer is 0 (queue owns the message now),
	 * NNG_EAGAIN (full) or NNG_ECLOSED */
	__CPROVER_assume(g_mq_tryput_rv == 0 || g_mq_tryput_rv == NNG_EAGAIN || g_mq_tryput_rv == NNG_ECLOSED);
	return (g_mq_tryput_rv);
}
void nni_msgq_close(nni_msgq *mq) { (void) mq; g_sv.mq_close_calls++; }

/* ---- id map with one tracked key ---- */
static void vp_idm_check(nni_id_map *m, uint64_t id)
{
	__CPROVER_assert(m == g_idm_addr, "id map: the modelled map");
	__CPROVER_assert(id == g_idm_key, "id map: access to the tracked key (model limit: one key)");
}
void *nni_id_get(nni_id_map *m, uint64_t id)
{
	vp_idm_check(m, id);
	g_sv.idm_get_calls++;
	return (g_sv.idm_present ? g_sv.idm_val : NULL);
}
int nni_id_set(nni_id_map *m, uint64_t id, void *val)
{
	vp_idm_check(m, id);
	g_sv.idm_set_calls++;
	/* environment invariant: 0 or NNG_ENOMEM; replacing an existing entry cannot fail */
	__CPROVER_assume(g_idm_set_rv == 0 || (g_idm_set_rv == NNG_ENOMEM && !g_sv.idm_present));
	if (g_idm_set_rv == 0) {
		g_sv.idm_present = true;
		g_sv.idm_val     = val;
	}
	return (g_idm_set_rv);
}
int nni_id_remove(nni_id_map *m, uint64_t id)
{
	vp_idm_check(m, id);
	g_sv.idm_remove_calls++;
	g_sv.idm_removed_last = id;
	if (!g_sv.idm_present) {
		return (NNG_ENOENT);
	}
	g_sv.idm_present = false;
	g_sv.idm_val     = NULL;
	return (0);
}
/* allocation: the new id g_idm_fresh becomes THE tracked key (the previously
 * tracked key must have left the map before, which is what the caller's
 * contract is about); on failure nothing is stored (0761dd6/c7f4dcb fixes) */
int nni_id_alloc32(nni_id_map *m, uint32_t *idp, void *val)
{
	__CPROVER_assert(m == g_idm_addr, "id map: the modelled map");
	g_sv.idm_alloc_calls++;
	__CPROVER_assume(g_idm_set_rv == 0 || g_idm_set_rv == NNG_ENOMEM);
	if (g_idm_set_rv != 0) {
		return (g_idm_set_rv);
	}
	__CPROVER_assert(!g_sv.idm_present, "id map model: tracked key left the map before a new id is allocated");
	/* environment invariant (idhash module): ids handed out lie in the map's
	 * range [id_min_val, id_max_val] */
	__CPROVER_assume((uint64_t) g_idm_fresh >= m->id_min_val && (uint64_t) g_idm_fresh <= m->id_max_val);
	g_idm_key        = g_idm_fresh;
	g_sv.idm_present = true;
	g_sv.idm_val     = val;
	*idp             = g_idm_fresh;
	return (0);
}

/* ---- aio timeout accessors on the real structure ---- */
nni_duration nni_aio_get_timeout(nni_aio *aio) { return (aio->a_timeout); }
void nni_aio_set_expire(nni_aio *aio, nni_time when)
{
	aio->a_expire     = when;
	aio->a_use_expire = true;
	g_sv.set_expire_calls++;
	g_sv.set_expire_aio  = aio;
	g_sv.set_expire_when = when;
}
#endif

#if defined(VP_SV_LIST_STUBS) && !defined(VP_SV_LIST_STUBS_DONE)
#define VP_SV_LIST_STUBS_DONE
/* ---- generic nni_list operations on the two ghost queues of env_proto.h ----
 * respond.c / survey.c keep contexts, pipes and aios on nni_lists.  A list is
 * modelled by one of the two ghost queues (count + head + last appended), the
 * items are opaque pointers.  Limits (asserted): only the head or the last
 * appended item can be removed; per unit at most two lists, holding items of
 * different kinds (so an item is never on both). */
void nni_list_append(nni_list *l, void *item) { nni_aio_list_append(l, (nni_aio *) item); }
void nni_list_remove(nni_list *l, void *item)
{
	vp_aioq *q = vp_which(l);
	__CPROVER_assert(vp_on(q, (nni_aio *) item), "list remove: item is a tracked member (head / last appended) of that list");
	nni_aio_list_remove((nni_aio *) item);
}
int nni_list_active(nni_list *l, void *item)
{
	vp_aioq *q = vp_which(l);
	if (vp_on(q, (nni_aio *) item)) {
		return (1);
	}
	if ((nni_aio *) item == g_last_app) {
		return (0);
	}
	return (g_aio_active); /* an untracked middle member, or not a member: arbitrary */
}
#ifdef VP_SV_LIST_NEXT
/* iteration (NNI_LIST_FOREACH): model limit of at most two members, head then last appended */
void *nni_list_next(const nni_list *l, void *item)
{
	vp_aioq *q = vp_which(l);
	__CPROVER_assert(q->n <= 2, "list iteration: at most two members (model limit)");
	if (q->n == 2 && (nni_aio *) item == q->head) {
		__CPROVER_assert(q->tail != NULL, "list iteration: the second member is tracked");
		return (q->tail);
	}
	return (NULL);
}
#endif
#endif
