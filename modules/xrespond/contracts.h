/* Contracts for src/sp/protocol/survey0/xrespond.c (raw RESPONDENT; C13, C11) */
#ifndef VP_XRESPOND_CONTRACTS_H
#define VP_XRESPOND_CONTRACTS_H
/* clang-format off */
#define RV __CPROVER_return_value
#define OLD(e) __CPROVER_old(e)
#define XR_P ((xresp0_pipe *) arg)
#define XR_S (((xresp0_pipe *) arg)->psock)
#define XR_M (((xresp0_pipe *) arg)->aio_recv.a_msg)
#define XR_TTL (XR_S->ttl.v)
#define XR_LEN0 OLD(XR_M->m_body.ch_len)
#ifndef XR_TTLMAX
#define XR_TTLMAX NNI_MAX_MAX_TTL
#endif

/* Pipe receive callback.  For EVERY body a peer can send and every ttl 1..15
 * (g_n = number of leading non-end words, see spec.h):
 *  - receive failed                             => peer disconnected, nothing else;
 *  - body exhausted before the end word (within the hop limit): malformed
 *                                               => disconnected, freed, never delivered (C11);
 *  - no end word within the first ttl words     => dropped, NOT disconnected, receive re-armed (C13);
 *  - otherwise: header = [pipe id][word 0..n], at most 64 bytes, ends with the
 *    only word that has the high bit set; body = the remaining bytes unchanged;
 *    handed to the socket's receive queue exactly once.
 *  - the library never aborts (nni_panic unreachable, checked by the stub). */
#ifdef XR_RECV_FAILED
static void xresp0_recv_cb(void *arg)
__CPROVER_requires(__CPROVER_is_fresh(arg, sizeof(struct xresp0_pipe)))
__CPROVER_requires(__CPROVER_is_fresh(XR_S, sizeof(struct xresp0_sock)) && VP_NO_LOCK_HELD)
__CPROVER_requires(XR_P->aio_recv.a_result != 0)
__CPROVER_assigns(VP_PROTO_GHOST_LIST)
__CPROVER_ensures(VP_NO_LOCK_HELD)
__CPROVER_ensures(g_pipe_close_calls == OLD(g_pipe_close_calls) + 1 && g_pipe_close_last == XR_P->npipe && g_pipe_recv_calls == OLD(g_pipe_recv_calls) && g_sv.mq_put_calls == OLD(g_sv.mq_put_calls))
;
#else
#ifdef XR_OUTCOME
#define XR_X_DELIV (g_sv.mq_put_calls == OLD(g_sv.mq_put_calls) + 1)
#define XR_X_DISC (g_pipe_close_calls == OLD(g_pipe_close_calls) + 1)
#define XR_X_DROP (g_pipe_recv_calls == OLD(g_pipe_recv_calls) + 1)
#define XR_HL (OLD(XR_M)->m_header_len)
/* outcome-keyed statement (see spec.h): exactly one outcome + outcome ==> class, for EVERY ghost byte (g_k, g_b) */
static void xresp0_recv_cb(void *arg)
__CPROVER_requires(__CPROVER_is_fresh(arg, sizeof(struct xresp0_pipe)))
__CPROVER_requires(__CPROVER_is_fresh(XR_S, sizeof(struct xresp0_sock)) && VP_NO_LOCK_HELD)
__CPROVER_requires(XR_TTL >= 1 && XR_TTL <= XR_TTLMAX)
__CPROVER_requires(XR_P->aio_recv.a_result == 0 && SV_WIRE_MSG(XR_M) && CH_GHOST_PRE(&XR_M->m_body) && BT_BODY_GHOSTS(XR_M))
__CPROVER_assigns(XR_P->aio_recv.a_msg, XR_P->aio_putq.a_msg, VP_PROTO_GHOST_LIST, VP_SV_GHOST_LIST, g_free_calls)
__CPROVER_assigns(*XR_M)
__CPROVER_frees(XR_M, XR_M->m_body.ch_buf)
__CPROVER_ensures(VP_NO_LOCK_HELD && XR_P->aio_recv.a_msg == NULL && g_fin_calls == OLD(g_fin_calls))
/* exactly one of: delivered (handed up once, kept) / disconnected (freed) / dropped (freed, NOT disconnected, receive re-armed) */
__CPROVER_ensures((XR_X_DELIV && g_pipe_close_calls == OLD(g_pipe_close_calls) && g_pipe_recv_calls == OLD(g_pipe_recv_calls) && !__CPROVER_was_freed(OLD(XR_M)) && g_sv.mq_put_q == XR_S->urq && g_sv.mq_put_aio == &XR_P->aio_putq && g_sv.mq_put_msg == OLD(XR_M) && XR_P->aio_putq.a_msg == OLD(XR_M))
    || (g_sv.mq_put_calls == OLD(g_sv.mq_put_calls) && XR_X_DISC && g_pipe_close_last == XR_P->npipe && g_pipe_recv_calls == OLD(g_pipe_recv_calls) && __CPROVER_was_freed(OLD(XR_M)))
    || (g_sv.mq_put_calls == OLD(g_sv.mq_put_calls) && g_pipe_close_calls == OLD(g_pipe_close_calls) && XR_X_DROP && g_pipe_recv_pipe == XR_P->npipe && g_pipe_recv_aio == &XR_P->aio_recv && __CPROVER_was_freed(OLD(XR_M))))
/* disconnected ==> GARBAGE; dropped ==> TOOMANY */
__CPROVER_ensures(XR_X_DISC ==> (XR_LEN0 / 4 < (size_t) XR_TTL && BT_NO_END_BELOW(XR_LEN0 / 4)))
__CPROVER_ensures(XR_X_DROP ==> (XR_LEN0 / 4 >= (size_t) XR_TTL && BT_NO_END_BELOW(XR_TTL)))
/* delivered ==> ACCEPT: header = [pipe id][w_0..w_n], n + 1 <= ttl words moved, at most 64 bytes, w_n the first word with the high bit; body = the rest */
__CPROVER_ensures(XR_X_DELIV ==> (XR_HL >= 8 && XR_HL % 4 == 0 && XR_HL <= MSG_HDRCAP && XR_HL / 4 - 1 <= (size_t) XR_TTL && BE32(HDR(OLD(XR_M))) == XR_P->id && OLD(XR_M)->m_pipe == XR_P->id && XR_HL - 4 <= XR_LEN0 && OLD(XR_M)->m_body.ch_len == XR_LEN0 - (XR_HL - 4)))
__CPROVER_ensures((XR_X_DELIV && g_k < XR_HL - 4) ==> HDR(OLD(XR_M))[4 + g_k] == g_b)
__CPROVER_ensures(XR_X_DELIV ==> (BT_NO_END_BELOW(XR_HL / 4 - 2) && (g_k == XR_HL - 8 ==> BT_HB(g_b))))
__CPROVER_ensures((XR_X_DELIV && g_k >= XR_HL - 4 && g_k < XR_LEN0) ==> OLD(XR_M)->m_body.ch_ptr[g_k - (XR_HL - 4)] == g_b)
;
#else
static void xresp0_recv_cb(void *arg)
__CPROVER_requires(__CPROVER_is_fresh(arg, sizeof(struct xresp0_pipe)))
__CPROVER_requires(__CPROVER_is_fresh(XR_S, sizeof(struct xresp0_sock)) && VP_NO_LOCK_HELD)
__CPROVER_requires(XR_TTL >= 1 && XR_TTL <= XR_TTLMAX)
__CPROVER_requires(XR_P->aio_recv.a_result == 0 && SV_WIRE_MSG(XR_M) && CH_GHOST_PRE(&XR_M->m_body))
/* ghost equations: g_n = number of leading non-end words; (g_k, g_b) = any pre-state body byte; pre-state geometry */
BT_COUNT_REQ(XR_M, g_n)
__CPROVER_requires(BT_BODY_GHOSTS(XR_M))
__CPROVER_assigns(XR_P->aio_recv.a_msg, XR_P->aio_putq.a_msg, VP_PROTO_GHOST_LIST, VP_SV_GHOST_LIST, g_free_calls)
__CPROVER_assigns(*XR_M)
__CPROVER_frees(XR_M, XR_M->m_body.ch_buf)
__CPROVER_ensures(VP_NO_LOCK_HELD && XR_P->aio_recv.a_msg == NULL)
__CPROVER_ensures(g_pipe_close_calls <= OLD(g_pipe_close_calls) + 1 && g_sv.mq_put_calls <= OLD(g_sv.mq_put_calls) + 1 && g_fin_calls == OLD(g_fin_calls))
/* malformed: body exhausted before the end marker => disconnect, freed, never delivered */
__CPROVER_ensures(BT_SHORT(g_n, XR_TTL, XR_LEN0) ==> (__CPROVER_was_freed(OLD(XR_M)) && g_pipe_close_calls == OLD(g_pipe_close_calls) + 1 && g_pipe_close_last == XR_P->npipe && g_sv.mq_put_calls == OLD(g_sv.mq_put_calls) && g_pipe_recv_calls == OLD(g_pipe_recv_calls)))
/* too many hops: dropped, NOT disconnected, receive re-armed */
__CPROVER_ensures(BT_TOOFAR(g_n, XR_TTL) ==> (__CPROVER_was_freed(OLD(XR_M)) && g_pipe_close_calls == OLD(g_pipe_close_calls) && g_sv.mq_put_calls == OLD(g_sv.mq_put_calls) && g_pipe_recv_calls == OLD(g_pipe_recv_calls) + 1 && g_pipe_recv_pipe == XR_P->npipe && g_pipe_recv_aio == &XR_P->aio_recv))
/* accepted: delivered exactly once to the socket's receive queue, not freed, not disconnected */
__CPROVER_ensures(BT_OK(g_n, XR_TTL, XR_LEN0) ==> (!__CPROVER_was_freed(OLD(XR_M)) && g_pipe_close_calls == OLD(g_pipe_close_calls) && g_sv.mq_put_calls == OLD(g_sv.mq_put_calls) + 1 && g_sv.mq_put_q == XR_S->urq && g_sv.mq_put_aio == &XR_P->aio_putq && g_sv.mq_put_msg == OLD(XR_M) && XR_P->aio_putq.a_msg == OLD(XR_M)))
/* header = [pipe id][words 0..n] (n + 2 words <= 16 words = 64 bytes), origin recorded */
__CPROVER_ensures(BT_OK(g_n, XR_TTL, XR_LEN0) ==> (OLD(XR_M)->m_header_len == 4 * (g_n + 2) && OLD(XR_M)->m_header_len <= MSG_HDRCAP && BE32(HDR(OLD(XR_M))) == XR_P->id && OLD(XR_M)->m_pipe == XR_P->id))
__CPROVER_ensures((BT_OK(g_n, XR_TTL, XR_LEN0) && g_k < 4 * (g_n + 1)) ==> HDR(OLD(XR_M))[4 + g_k] == g_b)
/* the last header word is the end word, no earlier backtrace word is */
__CPROVER_ensures(BT_OK(g_n, XR_TTL, XR_LEN0) ==> (HDR(OLD(XR_M))[4 * (g_n + 1)] & 0x80u) != 0)
__CPROVER_ensures((BT_OK(g_n, XR_TTL, XR_LEN0) && g_k % 4 == 0 && g_k / 4 < g_n) ==> (HDR(OLD(XR_M))[4 + g_k] & 0x80u) == 0)
/* body = remaining bytes, unchanged */
__CPROVER_ensures(BT_OK(g_n, XR_TTL, XR_LEN0) ==> OLD(XR_M)->m_body.ch_len == XR_LEN0 - 4 * (g_n + 1))
__CPROVER_ensures((BT_OK(g_n, XR_TTL, XR_LEN0) && g_k >= 4 * (g_n + 1) && g_k < XR_LEN0) ==> OLD(XR_M)->m_body.ch_ptr[g_k - 4 * (g_n + 1)] == g_b)
;
#endif
#endif

/* Send path: the socket's upper write queue hands over a message whose first
 * header word names the outgoing pipe (C13: pop of the backtrace).  For EVERY
 * header (0..64 bytes, any content):
 *  - header shorter than one word                => dropped (freed);
 *  - first word is not a connected pipe          => dropped;
 *  - pipe's queue refuses (full/closed)          => dropped;
 *  - else queued for exactly that pipe with the first word removed, the rest of
 *    the header and the body unchanged;
 *  - in all cases the next get from the upper queue is armed exactly once. */
#define XS_S ((xresp0_sock *) arg)
#define XS_M (((xresp0_sock *) arg)->aio_getq.a_msg)
#define XS_HLEN0 OLD(XS_M->m_header_len)
#define XS_PIPE ((xresp0_pipe *) g_sv.idm_val)
#ifdef XR_GETQ_FAILED
void xresp0_sock_getq_cb(void *arg)
__CPROVER_requires(__CPROVER_is_fresh(arg, sizeof(struct xresp0_sock)) && VP_NO_LOCK_HELD)
__CPROVER_requires(XS_S->aio_getq.a_result != 0)
__CPROVER_assigns(VP_PROTO_GHOST_LIST, VP_SV_GHOST_LIST)
__CPROVER_ensures(VP_NO_LOCK_HELD && g_sv.mq_get_calls == OLD(g_sv.mq_get_calls) && g_sv.mq_tryput_calls == OLD(g_sv.mq_tryput_calls))
;
#else
void xresp0_sock_getq_cb(void *arg)
__CPROVER_requires(__CPROVER_is_fresh(arg, sizeof(struct xresp0_sock)) && VP_NO_LOCK_HELD)
__CPROVER_requires(XS_S->aio_getq.a_result == 0 && MSG_PRE(XS_M) && XS_M->m_refcnt.v == 1)
__CPROVER_requires(HDR_GHOST_PRE(XS_M) && CH_GHOST_PRE(&XS_M->m_body))
/* id map model: the tracked key is the word this message names */
__CPROVER_requires(g_idm_addr == &XS_S->pipes && (XS_M->m_header_len >= 4 ==> g_idm_key == (uint64_t) BE32(HDR(XS_M))))
__CPROVER_requires(g_sv.idm_present ==> __CPROVER_is_fresh(g_sv.idm_val, sizeof(struct xresp0_pipe)))
__CPROVER_assigns(XS_S->aio_getq.a_msg, VP_PROTO_GHOST_LIST, VP_SV_GHOST_LIST, VP_SYNC_GHOSTS, g_free_calls)
__CPROVER_assigns(*XS_M)
__CPROVER_frees(XS_M, XS_M->m_body.ch_buf)
__CPROVER_ensures(VP_NO_LOCK_HELD && XS_S->aio_getq.a_msg == NULL)
__CPROVER_ensures(g_sv.mq_get_calls == OLD(g_sv.mq_get_calls) + 1 && g_sv.mq_get_q == XS_S->uwq && g_sv.mq_get_aio == &XS_S->aio_getq)
__CPROVER_ensures(g_pipe_close_calls == OLD(g_pipe_close_calls) && g_pipe_send_calls == OLD(g_pipe_send_calls))
/* dropped */
__CPROVER_ensures(XS_HLEN0 < 4 ==> (__CPROVER_was_freed(OLD(XS_M)) && g_sv.mq_tryput_calls == OLD(g_sv.mq_tryput_calls)))
__CPROVER_ensures((XS_HLEN0 >= 4 && !g_sv.idm_present) ==> (__CPROVER_was_freed(OLD(XS_M)) && g_sv.mq_tryput_calls == OLD(g_sv.mq_tryput_calls)))
__CPROVER_ensures((XS_HLEN0 >= 4 && g_sv.idm_present && g_mq_tryput_rv != 0) ==> (__CPROVER_was_freed(OLD(XS_M)) && g_sv.mq_tryput_calls == OLD(g_sv.mq_tryput_calls) + 1))
/* routed */
__CPROVER_ensures((XS_HLEN0 >= 4 && g_sv.idm_present && g_mq_tryput_rv == 0) ==> (!__CPROVER_was_freed(OLD(XS_M)) && g_sv.mq_tryput_calls == OLD(g_sv.mq_tryput_calls) + 1 && g_sv.mq_tryput_q == XS_PIPE->sendq && g_sv.mq_tryput_msg == OLD(XS_M) && OLD(XS_M)->m_header_len == XS_HLEN0 - 4 && OLD(XS_M)->m_body.ch_len == OLD(XS_M->m_body.ch_len)))
__CPROVER_ensures((XS_HLEN0 >= 4 && g_sv.idm_present && g_mq_tryput_rv == 0 && g_hk >= 4 && g_hk < XS_HLEN0) ==> HDR(OLD(XS_M))[g_hk - 4] == g_hb)
__CPROVER_ensures((XS_HLEN0 >= 4 && g_sv.idm_present && g_mq_tryput_rv == 0 && g_k < OLD(XS_M->m_body.ch_len)) ==> OLD(XS_M)->m_body.ch_ptr[g_k] == g_b)
/* the map is only read */
__CPROVER_ensures(g_sv.idm_present == OLD(g_sv.idm_present) && g_sv.idm_set_calls == OLD(g_sv.idm_set_calls) && g_sv.idm_remove_calls == OLD(g_sv.idm_remove_calls))
;
#endif

/* Pipe start: a pipe whose peer is not a SURVEYOR is refused; otherwise it is
 * registered under its pipe id and both directions are armed. */
static int xresp0_pipe_start(void *arg)
__CPROVER_requires(__CPROVER_is_fresh(arg, sizeof(struct xresp0_pipe)))
__CPROVER_requires(__CPROVER_is_fresh(XR_S, sizeof(struct xresp0_sock)) && VP_NO_LOCK_HELD)
__CPROVER_requires(g_idm_addr == &XR_S->pipes && g_idm_key == (uint64_t) g_pipe_id)
__CPROVER_assigns(XR_P->id, VP_PROTO_GHOST_LIST, VP_SV_GHOST_LIST, VP_SYNC_GHOSTS)
__CPROVER_ensures(VP_NO_LOCK_HELD)
__CPROVER_ensures(g_pipe_peer != NNI_PROTO_SURVEYOR_V0 ==> (RV == NNG_EPROTO && g_sv.idm_set_calls == OLD(g_sv.idm_set_calls) && g_pipe_recv_calls == OLD(g_pipe_recv_calls) && g_sv.mq_get_calls == OLD(g_sv.mq_get_calls)))
__CPROVER_ensures((g_pipe_peer == NNI_PROTO_SURVEYOR_V0 && g_idm_set_rv != 0) ==> (RV == g_idm_set_rv && g_pipe_recv_calls == OLD(g_pipe_recv_calls) && g_sv.mq_get_calls == OLD(g_sv.mq_get_calls)))
__CPROVER_ensures((g_pipe_peer == NNI_PROTO_SURVEYOR_V0 && g_idm_set_rv == 0) ==> (RV == 0 && XR_P->id == g_pipe_id && g_sv.idm_present && g_sv.idm_val == arg && g_pipe_recv_calls == OLD(g_pipe_recv_calls) + 1 && g_pipe_recv_pipe == XR_P->npipe && g_pipe_recv_aio == &XR_P->aio_recv && g_sv.mq_get_calls == OLD(g_sv.mq_get_calls) + 1 && g_sv.mq_get_q == XR_P->sendq && g_sv.mq_get_aio == &XR_P->aio_getq))
;
/* clang-format on */
#endif
