/* Spec macros for the SURVEYOR/RESPONDENT backtrace (C07, C11, C13): used by
 * xrespond, respond (and xsurvey).  No code.
 *
 * Wire format of a survey as a respondent receives it: the body starts with a
 * backtrace = zero or more 32-bit big-endian peer ids (high bit CLEAR) followed
 * by the survey id (high bit SET); the payload follows.
 *
 * BT_COUNT_IS(m, n): n (0..15) is the number of leading COMPLETE words of the
 * body of m whose high bit is clear, looking at the first 15 words only
 * (NNI_MAX_MAX_TTL = 15 bounds every ttl, so later words never matter).
 * It is a DEFINITION of the free ghost n (a precondition equation), not a
 * restriction of the body: exactly one n satisfies it for every body.
 * Word n is then either incomplete (body exhausted: BT_SHORT_AT) or an end
 * word (BT_END_AT), or n == 15.
 */
#ifndef VP_SURVEY_BT_SPEC_H
#define VP_SURVEY_BT_SPEC_H

#define BT_WOK(m, i) ((m)->m_body.ch_len >= (size_t) 4 * ((size_t) (i) + 1))
#define BT_WEND(m, i) (((m)->m_body.ch_ptr[(size_t) 4 * (size_t) (i)] & 0x80u) != 0)
#define BT_NONEND(m, i) (BT_WOK(m, i) && !BT_WEND(m, i))
#define BT_LEAD(m, n, i) (((size_t) (i) < (n)) ==> BT_NONEND(m, i))
#define BT_COUNT_IS(m, n)                                                  \
	((n) <= 15 && BT_LEAD(m, n, 0) && BT_LEAD(m, n, 1) && BT_LEAD(m, n, 2) && \
	    BT_LEAD(m, n, 3) && BT_LEAD(m, n, 4) && BT_LEAD(m, n, 5) &&        \
	    BT_LEAD(m, n, 6) && BT_LEAD(m, n, 7) && BT_LEAD(m, n, 8) &&        \
	    BT_LEAD(m, n, 9) && BT_LEAD(m, n, 10) && BT_LEAD(m, n, 11) &&      \
	    BT_LEAD(m, n, 12) && BT_LEAD(m, n, 13) && BT_LEAD(m, n, 14) &&     \
	    ((n) == 15 || !BT_NONEND(m, n)))

/* outcome classes in terms of n, the ttl and the PRE-state body length len:
 *  TOOFAR : the first ttl words are complete and none is the end word: the
 *           message crossed more than ttl hops            => dropped
 *  SHORT  : the body ends before an end word was seen within the hop limit
 *           (malformed)                                   => disconnect
 *  OK     : the end word is word n, n < ttl               => accepted,
 *           n + 1 words move to the header                              */
#define BT_TOOFAR(n, ttl) ((n) >= (size_t) (ttl))
#define BT_SHORT(n, ttl, len) ((n) < (size_t) (ttl) && (len) < 4 * ((n) + 1))
#define BT_OK(n, ttl, len) ((n) < (size_t) (ttl) && (len) >= 4 * ((n) + 1))

/* a message as a transport delivers it: unshared, empty header, wire bytes in the body */
#define SV_WIRE_MSG(m)                                                     \
	(__CPROVER_is_fresh((m), sizeof(struct nng_msg)) &&                    \
	    (m)->m_header_len == 0 && (m)->m_refcnt.v == 1 &&                  \
	    CH_FULL_PRE(&(m)->m_body))
/* ghost equation: g_hb is the body byte that ends up at header index g_hk when
 * the words start at header offset `off` */
#define BT_HDR_GHOST_PRE(m, off)                                           \
	((g_hk >= (off) && g_hk - (off) < (m)->m_body.ch_len) ==> (g_hb == (m)->m_body.ch_ptr[g_hk - (off)]))
#endif
