/* Spec macros for the SURVEYOR/RESPONDENT backtrace (C07, C11, C13): used by
 * xrespond, respond (and xsurvey).  No code.
 *
 * Wire format of a survey as a respondent receives it: the body starts with a
 * backtrace = zero or more 32-bit big-endian peer ids (high bit CLEAR) followed
 * by the survey id (high bit SET); the payload follows.
 *
 * BT_COUNT_IS(m, n): n (0..15) is the number of leading COMPLETE words of the
 * body of m whose high bit is clear, looking at the first 15 words only
 * (NNI_MAX_MAX_TTL = 15 bounds every ttl, so later words never matter).
 * It is a DEFINITION of the free ghost n (a precondition equation), not a
 * restriction of the body: exactly one n satisfies it for every body.
 * Word n is then either incomplete (body exhausted: BT_SHORT_AT) or an end
 * word (BT_END_AT), or n == 15.
 */
#ifndef VP_SURVEY_BT_SPEC_H
#define VP_SURVEY_BT_SPEC_H

#define BT_WOK(m, i) ((m)->m_body.ch_len >= (size_t) 4 * ((size_t) (i) + 1))
#define BT_WEND(m, i) (((m)->m_body.ch_ptr[(size_t) 4 * (size_t) (i)] & 0x80u) != 0)
#define BT_NONEND(m, i) (BT_WOK(m, i) && !BT_WEND(m, i))
#define BT_LEAD(m, n, i) (((size_t) (i) < (n)) ==> BT_NONEND(m, i))
#define BT_COUNT_IS(m, n)                                                  \
	((n) <= 15 && BT_LEAD(m, n, 0) && BT_LEAD(m, n, 1) && BT_LEAD(m, n, 2) && \
	    BT_LEAD(m, n, 3) && BT_LEAD(m, n, 4) && BT_LEAD(m, n, 5) &&        \
	    BT_LEAD(m, n, 6) && BT_LEAD(m, n, 7) && BT_LEAD(m, n, 8) &&        \
	    BT_LEAD(m, n, 9) && BT_LEAD(m, n, 10) && BT_LEAD(m, n, 11) &&      \
	    BT_LEAD(m, n, 12) && BT_LEAD(m, n, 13) && BT_LEAD(m, n, 14) &&     \
	    ((n) == 15 || !BT_NONEND(m, n)))

/* the same definition as separate precondition clauses (one conjunct each) */
#define BT_COUNT_REQ(m, n) \
	__CPROVER_requires((n) <= 15) \
	__CPROVER_requires(BT_LEAD(m, n, 0)) __CPROVER_requires(BT_LEAD(m, n, 1)) __CPROVER_requires(BT_LEAD(m, n, 2)) \
	__CPROVER_requires(BT_LEAD(m, n, 3)) __CPROVER_requires(BT_LEAD(m, n, 4)) __CPROVER_requires(BT_LEAD(m, n, 5)) \
	__CPROVER_requires(BT_LEAD(m, n, 6)) __CPROVER_requires(BT_LEAD(m, n, 7)) __CPROVER_requires(BT_LEAD(m, n, 8)) \
	__CPROVER_requires(BT_LEAD(m, n, 9)) __CPROVER_requires(BT_LEAD(m, n, 10)) __CPROVER_requires(BT_LEAD(m, n, 11)) \
	__CPROVER_requires(BT_LEAD(m, n, 12)) __CPROVER_requires(BT_LEAD(m, n, 13)) __CPROVER_requires(BT_LEAD(m, n, 14)) \
	__CPROVER_requires((n) == 15 || !BT_NONEND(m, n))

/* outcome classes in terms of n, the ttl and the PRE-state body length len:
 *  TOOFAR : the first ttl words are complete and none is the end word: the
 *           message crossed more than ttl hops            => dropped
 *  SHORT  : the body ends before an end word was seen within the hop limit
 *           (malformed)                                   => disconnect
 *  OK     : the end word is word n, n < ttl               => accepted,
 *           n + 1 words move to the header                              */
#define BT_TOOFAR(n, ttl) ((n) >= (size_t) (ttl))
#define BT_SHORT(n, ttl, len) ((n) < (size_t) (ttl) && (len) < 4 * ((n) + 1))
#define BT_OK(n, ttl, len) ((n) < (size_t) (ttl) && (len) >= 4 * ((n) + 1))

/* a message as a transport delivers it: unshared, empty header, wire bytes in the body */
#define SV_WIRE_MSG(m)                                                     \
	(__CPROVER_is_fresh((m), sizeof(struct nng_msg)) &&                    \
	    (m)->m_header_len == 0 && (m)->m_refcnt.v == 1 &&                  \
	    CH_FULL_PRE(&(m)->m_body))
/* ---- woven loop invariant of the backtrace loop (recipe shared with modules/xrep) ----
 * ghost equations binding the pre-state geometry of the body (loop_entry() of a
 * field behind a pointer is rejected by CBMC, so the pre-state is named by ghosts) */
#define BT_BODY_GHOSTS(m)                                                  \
	(g_len0 == (m)->m_body.ch_len && g_off0 == CH_OFF(&(m)->m_body) &&     \
	    g_cap0 == (m)->m_body.ch_cap && g_p == (void *) (m)->m_body.ch_buf)
#define BT_HB(b) (((b) & 0x80u) != 0)
/* i = number of words moved so far, h0 = header bytes present before the first
 * moved word; (g_k, g_b) = pre-state body byte (CH_GHOST_PRE) */
#define BT_LOOP_INV(msg, i, h0)                                            \
	((msg)->m_header_len == (h0) + 4 * (size_t) (i) && (msg)->m_refcnt.v == 1 && \
	    (msg)->m_body.ch_cap == g_cap0 && (msg)->m_body.ch_buf == (uint8_t *) g_p && \
	    4 * (size_t) (i) <= g_len0 && (msg)->m_body.ch_len == g_len0 - 4 * (size_t) (i) && \
	    __CPROVER_same_object((msg)->m_body.ch_buf, (msg)->m_body.ch_ptr) && CH_FULL_SCALAR(&(msg)->m_body) && \
	    (((msg)->m_body.ch_len != 0) ==> CH_OFF(&(msg)->m_body) == g_off0 + 4 * (size_t) (i)) && \
	    ((g_k < 4 * (size_t) (i)) ==> HDR(msg)[(h0) + g_k] == g_b) &&     \
	    ((g_k >= 4 * (size_t) (i) && g_k < g_len0) ==> (msg)->m_body.ch_ptr[g_k - 4 * (size_t) (i)] == g_b) && \
	    BT_GN_LE(i) && BT_NO_END_BELOW(i))
#ifdef XR_NOGN
#define BT_GN_LE(i) (1)
#else
#define BT_GN_LE(i) ((size_t) (i) <= g_n)
#endif
/* ---- outcome-keyed variant (no g_n; used where the 16 body reads of BT_COUNT_REQ do not fit into memory) ----
 * With W = len/4 complete words the three classes are
 *   ACCEPT  : some word n < ttl has the high bit and no earlier one has
 *   GARBAGE : W < ttl and none of the W words has the high bit
 *   TOOMANY : W >= ttl and none of the first ttl words has the high bit
 * (disjoint, exhaustive).  A contract states "exactly one outcome happens" and
 * "outcome ==> its class" for EVERY ghost byte (g_k, g_b); since the classes are
 * disjoint and exhaustive this is equivalent to "class ==> outcome". */
#define BT_NO_END_BELOW(lim) ((g_k % 4 == 0 && g_k / 4 < (size_t) (lim)) ==> !BT_HB(g_b))
#define BT_LOOP_INV2(msg, i, h0)                                           \
	((msg)->m_header_len == (h0) + 4 * (size_t) (i) && (msg)->m_refcnt.v == 1 && \
	    (msg)->m_body.ch_cap == g_cap0 && (msg)->m_body.ch_buf == (uint8_t *) g_p && \
	    4 * (size_t) (i) <= g_len0 && (msg)->m_body.ch_len == g_len0 - 4 * (size_t) (i) && \
	    __CPROVER_same_object((msg)->m_body.ch_buf, (msg)->m_body.ch_ptr) && CH_FULL_SCALAR(&(msg)->m_body) && \
	    (((msg)->m_body.ch_len != 0) ==> CH_OFF(&(msg)->m_body) == g_off0 + 4 * (size_t) (i)) && \
	    ((g_k < 4 * (size_t) (i)) ==> HDR(msg)[(h0) + g_k] == g_b) &&     \
	    ((g_k >= 4 * (size_t) (i) && g_k < g_len0) ==> (msg)->m_body.ch_ptr[g_k - 4 * (size_t) (i)] == g_b) && \
	    BT_NO_END_BELOW(i))
#endif
