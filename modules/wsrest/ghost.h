/* Additional ghost state of module wsrest (reassembly, transmit completion,
 * cancel/close paths, stream entry points of websocket.c).  Comes AFTER
 * modules/wsframe/ghost.h, whose models (message, aio wait queue recvq, frame
 * queue rxq, transmit queue txq, completions ...) are reused unchanged. */
#ifndef VP_WSREST_GHOST_H
#define VP_WSREST_GHOST_H
/* sendq: wait queue of the user aios of ws_str_send (same model as recvq) */
vp_aioq   g_sendq;
nni_list *g_sendq_addr;
/* membership of a (real) aio on one of the two wait queues: the model keeps
 * in a_prov_node.ln_next WHICH list the aio is on (NULL = on none) */
#define VP_AIO_TAG(a) ((a)->a_prov_node.ln_next)
#define VP_AIO_ON(a, l) (VP_AIO_TAG(a) == (nni_list_node *) (l))
/* nni_aio_abort, nni_msg_free, nni_reap: recorded */
struct {
	size_t   abort_calls;
	nni_aio *abort_aio;
	int      abort_rv;
	size_t   msgfree_calls;
	nni_msg *msgfree_last;
	size_t   reap_calls;
	void    *reap_item;
} g_rs;
#define g_abort_calls g_rs.abort_calls
#define g_abort_aio g_rs.abort_aio
#define g_abort_rv g_rs.abort_rv
#define g_msgfree_calls g_rs.msgfree_calls
#define g_msgfree_last g_rs.msgfree_last
/* completions: besides the last one (g_fn of wsframe) the FIRST completion
 * since the ghost counter g_fin_mark was set, so that "the first waiting
 * receiver got X, everybody else got Y" can be said */
struct {
	size_t   first_at;    /* value of g_fin_calls at which the next completion is recorded */
	nni_aio *first_aio;
	int      first_rv;
	size_t   first_count;
} g_f1;
/* stream iov bookkeeping ghosts (free, tied by precondition equations) */
size_t g_s0, g_s1, g_s2, g_s3;
#endif
