/* Contracts of module wsrest: reassembly (ws_read_finish_*), transmit
 * completion (ws_write_cb), cancel / close paths and the stream entry points
 * of src/supplemental/websocket/websocket.c.
 *
 * The contracts of module wsframe (ws_frame_prep_tx, ws_msg_init_control,
 * ws_close, ws_start_read, ws_apply_mask ...) are pulled in UNCHANGED from
 * modules/wsframe/contracts.h, so that a callee replaced here is replaced by
 * exactly the text that was enforced there.  Only the two assigns-only
 * placeholder contracts of ws_read_finish_msg / ws_read_finish_str of that
 * file are kept away (the first by WSF_FINISH_FULL, the second by renaming
 * the declaration), because this module gives those functions their real
 * contracts. */
#ifndef VP_WSREST_CONTRACTS_H
#define VP_WSREST_CONTRACTS_H
/* clang-format off */
#define ws_read_finish_str wsf_placeholder_read_finish_str
#include "../wsframe/contracts.h"
#undef ws_read_finish_str
#undef WS
#undef OF
#undef FR
#undef HP
#undef HB

#define WSR_LISTS_PRE(w) (WSF_LISTS_PRE(w) && g_sendq_addr == &(w)->sendq)
/* ws->mtx is held by the caller; nothing else is */
#define WSR_LOCKED(w) (g_mtx_a == &(w)->mtx && g_held_a && !g_held_b)
/* nothing is locked (and the model tracks no mutex yet) */
#define WSR_NOLOCK_PRE (g_mtx_a == NULL && g_mtx_b == NULL && !g_held_a && !g_held_b)
/* ... and the function neither released nor re-acquired it */
#define WSR_STILL_LOCKED (g_held_a && !g_held_b && g_lock_ops == OLD(g_lock_ops))
/* the head of a wait queue is a real aio that knows it is on that queue */
#define WSR_HEAD_PRE(q, l) ((q).n == 0 || (__CPROVER_is_fresh((q).head, sizeof(nni_aio)) && VP_AIO_ON((q).head, l)))
#define WSR_EQ_MSG 21 /* (g_k, g_b): byte g_k of the concatenation of the queued frame payloads */

/* ---- reassembly, message mode (RFC 6455 5.4; C01, C16) --------------------
 * rxq holds the data frames of ONE message in arrival order (control frames
 * never enter it, ws_read_frame_cb); when the message is complete (!inmsg)
 * and a receiver waits, the receiver gets ONE message whose body is exactly
 * the concatenation of the frame payloads.  Bound: at most WSF_K = 3 frames. */
#ifndef WSR_N
#define WSR_N 1
#endif
#define IT(i) (g_rxq.item[i])
#define RFM_L(i) (g_rxq.n > (i) ? IT(i)->len : (size_t) 0)
#define RFM_A(i) ((g_rxq.n > (i) && IT(i)->asize != 0) ? (size_t) 1 : (size_t) 0)
#ifdef WSR_SHORT
/* (short-frame units) every payload is at most 125 bytes: it lives inside the frame (ws_read_cb) or is empty */
#define RFM_ITEM_ON(i) (__CPROVER_is_fresh(IT(i), sizeof(ws_frame)) && IT(i)->len <= 125 && IT(i)->asize == 0 && IT(i)->adata == NULL && ((IT(i)->len == 0 && IT(i)->buf == NULL) || (IT(i)->len > 0 && __CPROVER_pointer_in_range_dfcc(&IT(i)->sdata[0], IT(i)->buf, &IT(i)->sdata[0]))))
#else
#define RFM_ITEM_ON(i) (__CPROVER_is_fresh(IT(i), sizeof(ws_frame)) && IT(i)->len <= (SIZE_MAX >> 4) && WSF_PAYLOAD_PRE(IT(i)))
#endif
#define RFM_ITEM_PRE(i) ((g_rxq.n <= (i) && IT(i) == NULL) || (g_rxq.n > (i) && __CPROVER_is_fresh(IT(i), sizeof(ws_frame)) && IT(i)->len <= (SIZE_MAX >> 4) && WSF_PAYLOAD_PRE(IT(i))))
#define RFM_EQ(i, p) ((g_rxq.n > (i) && g_k >= (p) && g_k - (p) < IT(i)->len) ==> g_b == IT(i)->buf[g_k - (p)])
#define RFM_DO (!ws->inmsg && OLD(g_rxq.n) > 0 && OLD(g_recvq.n) > 0)
#define RFM_OK (RFM_DO && g_f1.first_rv == 0)
#define RFM_NOMEM (RFM_DO && g_f1.first_rv != 0)
#define RFM_MSG (OLD(g_recvq.head)->a_msg)
static void ws_read_finish_msg(nni_ws *ws)
__CPROVER_requires(__CPROVER_is_fresh(ws, sizeof(*ws)) && WSR_LISTS_PRE(ws) && WSR_LOCKED(ws) && ws->ready)
__CPROVER_requires(WSR_HEAD_PRE(g_recvq, &ws->recvq) && WSF_Q_OK(g_recvq) && WSF_TXQ_OK)
/* one unit per number of queued frames WSR_N = 0..WSF_K (constant list skeleton, see DESIGN "constant case splits") */
__CPROVER_requires(g_rxq.n == WSR_N)
#if WSR_N >= 1
__CPROVER_requires(RFM_ITEM_ON(0))
#else
__CPROVER_requires(IT(0) == NULL)
#endif
#if WSR_N >= 2
__CPROVER_requires(RFM_ITEM_ON(1))
#else
__CPROVER_requires(IT(1) == NULL)
#endif
#if WSR_N >= 3
__CPROVER_requires(RFM_ITEM_ON(2))
#else
__CPROVER_requires(IT(2) == NULL)
#endif
/* ghost equations: g_n = total length, g_s0/g_s1 = lengths of the first two frames, g_hk = number of heap payload blocks,
 * g_b = byte g_k of the concatenation */
__CPROVER_requires(g_n == RFM_L(0) + RFM_L(1) + RFM_L(2) && g_s0 == RFM_L(0) && g_s1 == RFM_L(1) && g_hk == RFM_A(0) + RFM_A(1) + RFM_A(2))
#ifdef WSR_CONTENT
/* (content unit) frame lengths capped */
__CPROVER_requires(g_eq == WSR_EQ_MSG)
__CPROVER_requires(RFM_EQ(0, 0) && RFM_EQ(1, g_s0) && RFM_EQ(2, g_s0 + g_s1))
#else
/* (structure unit, any lengths) nothing is claimed about the body bytes */
__CPROVER_requires(g_eq == 0)
#endif
__CPROVER_requires(g_f1.first_at == g_fin_calls)
__CPROVER_assigns(g_rxq, g_recvq, WSF_FIN_GHOSTS, g_f1.first_aio, g_f1.first_rv, g_f1.first_count, WSF_ALLOC_GHOSTS, WSF_MSG_GHOSTS;
	g_recvq.n > 0: __CPROVER_object_whole(g_recvq.head);
	/* what failing the connection touches (ws_close) */
	WSF_CLOSE_GHOSTS, WSF_TX_GHOSTS, WSF_RAND_GHOSTS, ws->closed, ws->wclose, ws->txframe, WSF_IOV_OF(ws->txaio))
__CPROVER_frees(g_rxq.item[0], g_rxq.item[1], g_rxq.item[2];
	g_rxq.n > 0: g_rxq.item[0]->adata; g_rxq.n > 1: g_rxq.item[1]->adata; g_rxq.n > 2: g_rxq.item[2]->adata)
/* the caller's lock is neither released nor taken again */
__CPROVER_ensures(WSR_STILL_LOCKED)
/* message incomplete, nothing queued or nobody waiting: nothing happens */
__CPROVER_ensures(!RFM_DO ==> (WSF_FQ_SAME(g_rxq) && g_recvq.n == OLD(g_recvq.n) && g_recvq.head == OLD(g_recvq.head) && g_fin_calls == OLD(g_fin_calls) && VP_HEAP_DELTA(0, 0) && g_msg_alloc_calls == OLD(g_msg_alloc_calls) && g_close_calls == OLD(g_close_calls)))
/* otherwise the FIRST waiting receiver leaves the wait queue and is completed (first completion of this call), with success or NNG_ENOMEM */
__CPROVER_ensures(RFM_DO ==> (g_f1.first_aio == OLD(g_recvq.head) && OLD(g_recvq.head)->a_prov_node.ln_next == NULL && (g_f1.first_rv == 0 || g_f1.first_rv == NNG_ENOMEM) && g_msg_alloc_calls == OLD(g_msg_alloc_calls) + 1 && g_msg_alloc_sz == g_n))
/* success: completed exactly once, nobody else is; count = message length = sum of the frame lengths */
__CPROVER_ensures(RFM_OK ==> (g_fin_calls == OLD(g_fin_calls) + 1 && g_f1.first_count == g_n && g_recvq.n == OLD(g_recvq.n) - 1 && g_recvq.head == OLD(g_recvq.next) && WSF_Q_OK(g_recvq) && g_close_calls == OLD(g_close_calls) && !ws->closed == !OLD(ws->closed)))
/* the receiver owns ONE new message of exactly that length */
__CPROVER_ensures(RFM_OK ==> (__CPROVER_is_fresh(RFM_MSG, sizeof(nni_msg)) && RFM_MSG == g_msg_last && RFM_MSG->vm_blen == g_n && RFM_MSG->vm_hlen == 0 && OLD(g_recvq.head)->a_count == OLD(g_recvq.head->a_count) + g_n))
/* whose body is the concatenation of the frame payloads, in queue order */
__CPROVER_ensures((RFM_OK && g_eq == WSR_EQ_MSG && g_k < g_n) ==> RFM_MSG->vm_body[g_k] == g_b)
/* every frame has left the queue and is released, once: one release per frame + one per heap payload block */
__CPROVER_ensures(RFM_OK ==> (g_rxq.n == 0 && g_free_calls == OLD(g_free_calls) + OLD(g_rxq.n) + g_hk && g_alloc_ok == OLD(g_alloc_ok)))
#ifndef WSR_NOWF
__CPROVER_ensures((RFM_OK && OLD(g_rxq.n) > 0) ==> __CPROVER_was_freed(OLD(g_rxq.item[0])))
__CPROVER_ensures((RFM_OK && OLD(g_rxq.n) > 1) ==> __CPROVER_was_freed(OLD(g_rxq.item[1])))
__CPROVER_ensures((RFM_OK && OLD(g_rxq.n) > 2) ==> __CPROVER_was_freed(OLD(g_rxq.item[2])))
#endif
/* no memory for the message: the connection is failed (internal error 1011), every waiting receiver is completed exactly once,
 * the frames stay queued (owned by the connection, released with it), no message exists */
__CPROVER_ensures(RFM_NOMEM ==> (g_f1.first_count == 0 && g_close_calls == OLD(g_close_calls) + 1 && g_close_code == WS_ST_INTERNAL && ws->closed && g_recvq.n == 0))
__CPROVER_ensures(RFM_NOMEM ==> (g_fin_calls == OLD(g_fin_calls) + OLD(g_recvq.n) + ((!OLD(ws->closed) && g_alloc_ok == OLD(g_alloc_ok)) ? 1 : 0) && (g_fin_calls > OLD(g_fin_calls) + 1 ==> (g_fin_last_rv == NNG_ECLOSED || g_fin_last_rv == NNG_ENOMEM))))
__CPROVER_ensures(RFM_NOMEM ==> (WSF_FQ_SAME(g_rxq) && OLD(g_recvq.head)->a_msg == OLD(g_recvq.head->a_msg) && OLD(g_recvq.head)->a_count == OLD(g_recvq.head->a_count)))
;

/* ---- release of a frame (C03: sized free, exactly once) ------------------- */
static void ws_frame_fini(ws_frame *frame)
__CPROVER_requires(__CPROVER_is_fresh(frame, sizeof(ws_frame)) && (frame->asize == 0 || __CPROVER_is_fresh(frame->adata, frame->asize)))
__CPROVER_assigns(g_free_calls)
__CPROVER_frees(frame; frame->asize != 0: frame->adata)
__CPROVER_ensures(g_free_calls == OLD(g_free_calls) + 1 + (OLD(frame->asize) != 0 ? 1 : 0) && __CPROVER_was_freed(OLD(frame)))
;

/* ---- cancellation of a receive (C02) --------------------------------------
 * The cancel code is reported iff the operation is still waiting; an
 * operation that has completed (left the wait queue) is not touched. */
#define WSR_MEMBER_PRE(a, q, l) (VP_AIO_TAG(a) == NULL || (VP_AIO_ON(a, l) && (q).n > 0 && ((a) == (q).head || (q).n >= 2)))
#define RC_WS ((nni_ws *) arg)
#define RC_ACTIVE (OLD(aio->a_prov_node.ln_next) != NULL)
static void ws_read_cancel(nni_aio *aio, void *arg, nng_err rv)
__CPROVER_requires(__CPROVER_is_fresh(arg, sizeof(nni_ws)) && __CPROVER_is_fresh(aio, sizeof(nni_aio)) && WSR_LISTS_PRE(RC_WS) && WSR_NOLOCK_PRE)
__CPROVER_requires(WSF_Q_OK(g_recvq) && WSR_MEMBER_PRE(aio, g_recvq, &RC_WS->recvq) && (g_recvq.n < 2 || aio != g_recvq.next || aio != g_recvq.head))
__CPROVER_requires(g_f1.first_at == g_fin_calls)
__CPROVER_assigns(VP_SYNC_GHOSTS, g_recvq, WSF_FIN_GHOSTS, g_f1.first_aio, g_f1.first_rv, g_f1.first_count, aio->a_prov_node)
__CPROVER_ensures(VP_NO_LOCK_HELD && g_lock_ops == OLD(g_lock_ops) + 2)
/* still waiting: leaves the wait queue and is completed exactly once with the cancel code */
__CPROVER_ensures(RC_ACTIVE ==> (g_fin_calls == OLD(g_fin_calls) + 1 && g_fin_last == aio && g_fin_last_rv == (int) rv && g_fin_last_count == 0 && g_recvq.n == OLD(g_recvq.n) - 1 && aio->a_prov_node.ln_next == NULL && WSF_Q_OK(g_recvq)))
__CPROVER_ensures((RC_ACTIVE && aio != OLD(g_recvq.head)) ==> g_recvq.head == OLD(g_recvq.head))
__CPROVER_ensures((RC_ACTIVE && aio == OLD(g_recvq.head)) ==> g_recvq.head == OLD(g_recvq.next))
/* already completed: nothing is reported, nothing changes */
__CPROVER_ensures(!RC_ACTIVE ==> (g_fin_calls == OLD(g_fin_calls) && g_recvq.n == OLD(g_recvq.n) && g_recvq.head == OLD(g_recvq.head) && g_recvq.next == OLD(g_recvq.next) && aio->a_prov_node.ln_next == NULL))
;

/* ---- cancellation of the lingering close (C02) ---------------------------- */
static void ws_cancel_close(nni_aio *aio, void *arg, nng_err rv)
__CPROVER_requires(__CPROVER_is_fresh(arg, sizeof(nni_ws)) && aio != NULL && WSR_NOLOCK_PRE)
__CPROVER_assigns(VP_SYNC_GHOSTS, WSF_FIN_GHOSTS, g_f1.first_aio, g_f1.first_rv, g_f1.first_count, RC_WS->wclose)
__CPROVER_ensures(VP_NO_LOCK_HELD && !RC_WS->wclose)
/* the close is still waiting for its frame to go out: reported once; otherwise (already completed) not at all */
__CPROVER_ensures(OLD(RC_WS->wclose) ? (g_fin_calls == OLD(g_fin_calls) + 1 && g_fin_last == aio && g_fin_last_rv == (int) rv) : g_fin_calls == OLD(g_fin_calls))
;

/* ---- close requested by the owner / on error (C02) ------------------------
 * ws_close under the connection lock: every waiting receiver is completed
 * exactly once (NNG_ECLOSED), the closing handshake is started once. */
#define CE_DO (!OLD(ws->closed) && ws->ready)
static void ws_close_error(nni_ws *ws, uint16_t code)
__CPROVER_requires(__CPROVER_is_fresh(ws, sizeof(*ws)) && WSR_LISTS_PRE(ws) && WSF_Q_OK(g_recvq) && WSF_TXQ_OK && WSR_NOLOCK_PRE && g_eq == 0)
__CPROVER_assigns(VP_SYNC_GHOSTS, g_recvq, WSF_FIN_GHOSTS, WSF_CLOSE_GHOSTS, WSF_TX_GHOSTS, ws->closed, ws->wclose, WSF_ALLOC_GHOSTS, WSF_RAND_GHOSTS, ws->txframe, WSF_IOV_OF(ws->txaio))
__CPROVER_ensures(VP_NO_LOCK_HELD && g_lock_ops == OLD(g_lock_ops) + 2)
__CPROVER_ensures(g_close_calls == OLD(g_close_calls) + 1 && g_close_code == code && WSF_TXQ_OK && WSF_Q_OK(g_recvq))
__CPROVER_ensures(g_recvq.n == 0 && g_fin_calls == OLD(g_fin_calls) + OLD(g_recvq.n) + ((CE_DO && g_alloc_ok == OLD(g_alloc_ok)) ? 1 : 0))
__CPROVER_ensures((OLD(g_recvq.n) > 0 && !(CE_DO && g_alloc_ok == OLD(g_alloc_ok))) ==> g_fin_last_rv == NNG_ECLOSED)
/* established and not yet closing: closing now; ONE close frame carrying the code is built */
__CPROVER_ensures(CE_DO ==> (ws->closed && g_ctl_calls == OLD(g_ctl_calls) + 1 && g_ctl_op == WS_OP_CLOSE && g_ctl_len == 2))
__CPROVER_ensures(!CE_DO ==> (g_ctl_calls == OLD(g_ctl_calls) && g_alloc_ok == OLD(g_alloc_ok) && g_wr_calls == OLD(g_wr_calls)))
;
#define SC_WS ((nni_ws *) arg)
static void ws_str_close(void *arg)
__CPROVER_requires(__CPROVER_is_fresh(arg, sizeof(nni_ws)) && WSR_LISTS_PRE(SC_WS) && WSF_Q_OK(g_recvq) && WSF_TXQ_OK && WSR_NOLOCK_PRE && g_eq == 0)
__CPROVER_assigns(VP_SYNC_GHOSTS, g_recvq, WSF_FIN_GHOSTS, WSF_CLOSE_GHOSTS, WSF_TX_GHOSTS, SC_WS->closed, SC_WS->wclose, WSF_ALLOC_GHOSTS, WSF_RAND_GHOSTS, SC_WS->txframe, WSF_IOV_OF(SC_WS->txaio))
__CPROVER_ensures(VP_NO_LOCK_HELD)
/* normal closure (1000); every waiting receiver completed exactly once */
__CPROVER_ensures(g_close_calls == OLD(g_close_calls) + 1 && g_close_code == WS_ST_NORMAL && g_recvq.n == 0)
__CPROVER_ensures(g_fin_calls == OLD(g_fin_calls) + OLD(g_recvq.n) + ((!OLD(SC_WS->closed) && SC_WS->ready && g_alloc_ok == OLD(g_alloc_ok)) ? 1 : 0))
;

/* ---- start the next transmission ------------------------------------------
 * Idle transmitter, established connection, something queued: the FIRST frame
 * of txq becomes the frame in flight and ONE write of header + payload is
 * submitted (payload entry only when there is a payload). */
#define SW_GO (OLD(ws->txframe) == NULL && ws->ready && OLD(g_txq.n) > 0)
/* transmit queue model well-formed: no head <=> empty; a second member is only known when there are two */
#define WSR_TXQ_WF (WSF_TXQ_OK && (g_txq.n >= 2 || g_txq.next == NULL))
#define WSR_TXQ_HEAD_PRE (WSR_TXQ_WF && (g_txq.n == 0 || (__CPROVER_is_fresh(g_txq.head, sizeof(ws_frame)) && g_txq.head->hlen <= 14)))
/* what ws_start_write leaves behind when it took frame F (pointer expression) of the connection W */
#define WSR_WRITING(W, F) ((W)->txframe == (F) && g_wr_aio == &(W)->txaio && g_wr_http == (W)->http && \
	(W)->txaio.a_nio == ((F)->len > 0 ? 2u : 1u) && (W)->txaio.a_iov[0].iov_buf == (void *) &(F)->head[0] && (W)->txaio.a_iov[0].iov_len == (F)->hlen && \
	((F)->len == 0 || ((W)->txaio.a_iov[1].iov_buf == (void *) (F)->buf && (W)->txaio.a_iov[1].iov_len == (F)->len)))
static void ws_start_write(nni_ws *ws)
__CPROVER_requires(__CPROVER_is_fresh(ws, sizeof(*ws)) && WSR_LISTS_PRE(ws) && WSF_TXQ_OK && WSR_TXQ_HEAD_PRE)
/* busy, not established or nothing queued: nothing happens (assigns clause) */
__CPROVER_assigns(ws->txframe == NULL && ws->ready && g_txq.n > 0: ws->txframe, WSF_TX_GHOSTS, WSF_IOV_OF(ws->txaio))
__CPROVER_ensures(SW_GO ==> (WSR_WRITING(ws, OLD(g_txq.head)) && g_wr_calls == OLD(g_wr_calls) + 1 && g_txq.n == OLD(g_txq.n) - 1 && WSR_TXQ_WF && (OLD(g_txq.next) != NULL ==> g_txq.head == OLD(g_txq.next))))
__CPROVER_ensures(SW_GO ==> (g_hclose_calls == OLD(g_hclose_calls) && g_start_calls == OLD(g_start_calls) && g_aio_close_calls == OLD(g_aio_close_calls) && g_aio_reset_calls == OLD(g_aio_reset_calls)))
;

/* ---- completion of a frame transmission (C01, C02, C03) -------------------
 * ws_write_cb runs when the write of ws->txframe (header + payload, written in
 * full by the HTTP layer or failed) has completed.  One contract text per
 * situation (WCB_CASE), selected by the unit's defines; the case
 * preconditions are disjoint:
 *   0 nothing in flight      1 a CLOSE frame went out        2 the write failed
 *   3 last frame of a submitted send went out                4 a non-final fragment went out (message mode)
 *   5 a control frame (PING/PONG, no submitter) went out */
#define WC ((nni_ws *) arg)
#define WCF (WC->txframe)                 /* frame in flight (pre-state) */
#define WCA (WC->txframe->aio)            /* its submitter (pre-state) */
#define OWF OLD(WC->txframe)
#define OWA OLD(WC->txframe->aio)
#ifndef WCB_CASE
#define WCB_CASE 0
#endif
#ifndef WCB_NQ
#define WCB_NQ 0
#endif
#define WCB_BLK 200 /* size of a queued frame's heap payload block in the CLOSE units (constant: object sizes stay concrete) */
/* a frame waiting in txq: real frame, owns its heap payload block if any; its submitter (if any) waits on sendq */
#define WCB_QF_PRE(f) (__CPROVER_is_fresh(f, sizeof(ws_frame)) && (f)->hlen <= 14 && (((f)->asize == 0) || ((f)->asize == WCB_BLK && __CPROVER_is_fresh((f)->adata, WCB_BLK))) && ((f)->aio == NULL || (__CPROVER_is_fresh((f)->aio, sizeof(nni_aio)) && VP_AIO_ON((f)->aio, &WC->sendq))))
#define WCB_HAS_AIO(f) ((f)->aio != NULL ? (size_t) 1 : (size_t) 0)
#define WCB_HAS_BLK(f) ((f)->asize != 0 ? (size_t) 1 : (size_t) 0)
/* the submitter's scatter/gather vector: at most 2 entries (message header + body: what ws_str_send builds), real buffers */
#define WCB_IOVCAP 1024 /* every entry points into a buffer object of this (constant) size: object sizes stay concrete */
#define WCB_ENT_PRE(A, i) ((i) >= (A)->a_nio || ((A)->a_iov[i].iov_len <= WCB_IOVCAP && __CPROVER_is_fresh((A)->a_iov[i].iov_buf, WCB_IOVCAP)))
#define WCB_IOV_PRE(A) ((A)->a_nio <= 2 && WCB_ENT_PRE(A, 0) && WCB_ENT_PRE(A, 1) && (A)->a_count <= (SIZE_MAX >> 4))
#define WCB_NEXT_TOTAL ((size_t) g_u64)
#define WCB_NEXT_FRAG (WC->fragsize > 0 && WCB_NEXT_TOTAL > WC->fragsize)
#define WCB_NEXT_LEN (WCB_NEXT_FRAG ? WC->fragsize : WCB_NEXT_TOTAL)
static void ws_write_cb(void *arg)
__CPROVER_requires(__CPROVER_is_fresh(arg, sizeof(nni_ws)) && WSR_LISTS_PRE(WC) && WSR_NOLOCK_PRE && WSF_TXQ_OK && g_eq == 0)
__CPROVER_requires(g_f1.first_at == g_fin_calls)
#if WCB_CASE == 0
__CPROVER_requires(WCF == NULL)
#else
__CPROVER_requires(WC->ready && __CPROVER_is_fresh(WCF, sizeof(ws_frame)) && WSR_TXQ_WF)
#endif
#if WCB_CASE == 1
/* a CLOSE frame is a control frame: payload inside the frame, no submitter */
__CPROVER_requires(WCF->op == WS_CLOSE && WCF->asize == 0 && WCF->aio == NULL && g_txq.n == WCB_NQ)
#if WCB_NQ >= 1
__CPROVER_requires(WCB_QF_PRE(g_txq.head))
#endif
#if WCB_NQ >= 2
__CPROVER_requires(WCB_QF_PRE(g_txq.next))
#endif
/* ghost equations: g_n = number of queued frames that have a submitter (exactly those wait on sendq), g_hk = number of heap payload blocks */
#if WCB_NQ == 0
__CPROVER_requires(g_n == 0 && g_hk == 0 && g_sendq.n == 0)
#elif WCB_NQ == 1
__CPROVER_requires(g_n == WCB_HAS_AIO(g_txq.head) && g_hk == WCB_HAS_BLK(g_txq.head) && g_sendq.n == g_n && WSF_Q_OK(g_sendq) && (g_n == 1 ==> g_sendq.head == g_txq.head->aio))
#else
__CPROVER_requires(g_n == WCB_HAS_AIO(g_txq.head) + WCB_HAS_AIO(g_txq.next) && g_hk == WCB_HAS_BLK(g_txq.head) + WCB_HAS_BLK(g_txq.next) && g_sendq.n == g_n && WSF_Q_OK(g_sendq))
__CPROVER_requires((g_n == 1 ==> (g_sendq.head == g_txq.head->aio || g_sendq.head == g_txq.next->aio)) && (g_n == 2 ==> ((g_sendq.head == g_txq.head->aio && g_sendq.next == g_txq.next->aio) || (g_sendq.head == g_txq.next->aio && g_sendq.next == g_txq.head->aio))))
#endif
#endif
#if WCB_CASE >= 2
/* (heap payload block of the frame in flight: none or WCB_BLK bytes -- constant object size, bound of these units) */
__CPROVER_requires(WCF->op != WS_CLOSE && (WCF->asize == 0 || (WCF->asize == WCB_BLK && __CPROVER_is_fresh(WCF->adata, WCB_BLK))) && WSR_TXQ_HEAD_PRE)
#endif
#if WCB_CASE == 2
__CPROVER_requires(WC->txaio.a_result != 0 && (WCA == NULL || (__CPROVER_is_fresh(WCA, sizeof(nni_aio)) && VP_AIO_ON(WCA, &WC->sendq) && g_sendq.n >= 1 && WSF_Q_OK(g_sendq) && (g_sendq.n >= 2 || g_sendq.head == WCA))))
#endif
#if WCB_CASE == 3 || WCB_CASE == 4
/* a data frame: its submitter waits on sendq; the frame carries the first frame->len bytes of what is left of the submitter's data */
__CPROVER_requires(WC->txaio.a_result == 0 && __CPROVER_is_fresh(WCA, sizeof(nni_aio)) && VP_AIO_ON(WCA, &WC->sendq) && g_sendq.n >= 1 && WSF_Q_OK(g_sendq) && (g_sendq.n >= 2 || g_sendq.head == WCA))
__CPROVER_requires(WCB_IOV_PRE(WCA) && WCF->len <= PT_TOTAL(WCA) && WC->fragsize <= NNI_MAXSZ)
#endif
#if WCB_CASE == 3
__CPROVER_requires(WCF->final && (WCA->a_msg == NULL || (__CPROVER_is_fresh(WCA->a_msg, sizeof(nni_msg)) && __CPROVER_is_fresh(WCA->a_msg->vm_body, 1))))
#endif
#if WCB_CASE == 4
/* a non-final fragment is a full fragment (ws_frame_prep_tx), message mode; g_u64 names what is left after it */
__CPROVER_requires(!WCF->final && !WC->isstream && WC->fragsize > 0 && WCF->len == WC->fragsize && WCF->asize >= WCF->len && __CPROVER_pointer_in_range_dfcc(WCF->adata, WCF->buf, WCF->adata))
/* (something IS left: a frame is non-final only when the data exceeds the fragment size) */
__CPROVER_requires(g_u64 == PT_TOTAL(WCA) - WCF->len && WCF->len < PT_TOTAL(WCA) && g_txq.n <= 1)
#endif
#if WCB_CASE == 5
__CPROVER_requires(WC->txaio.a_result == 0 && WCA == NULL && WCF->final)
#endif
__CPROVER_assigns(VP_SYNC_GHOSTS, WC->txframe, WC->closed, WC->wclose, WSF_TX_GHOSTS, WSF_FIN_GHOSTS, g_f1.first_aio, g_f1.first_rv, g_f1.first_count, g_sendq, WSF_ALLOC_GHOSTS, WSF_RAND_GHOSTS, g_rs, WSF_IOV_OF(WC->txaio)
#if WCB_CASE >= 1
	; __CPROVER_object_whole(WC->txframe)
#endif
#if WCB_CASE == 1 && WCB_NQ >= 1
	; __CPROVER_object_whole(g_txq.head); g_txq.head->aio != NULL: __CPROVER_object_whole(g_txq.head->aio)
#endif
#if WCB_CASE == 1 && WCB_NQ >= 2
	; __CPROVER_object_whole(g_txq.next); g_txq.next->aio != NULL: __CPROVER_object_whole(g_txq.next->aio)
#endif
#if WCB_CASE == 2
	; WC->txframe->aio != NULL: __CPROVER_object_whole(WC->txframe->aio)
#endif
#if WCB_CASE == 3 || WCB_CASE == 4
	; __CPROVER_object_whole(WC->txframe->aio)
#endif
#if WCB_CASE == 4
	; WC->txframe->asize > 0: __CPROVER_object_whole(WC->txframe->adata)
#endif
	)
#if WCB_CASE == 1
__CPROVER_frees(WC->txframe
#if WCB_NQ >= 1
	, g_txq.head; g_txq.head->asize != 0: g_txq.head->adata
#endif
#if WCB_NQ >= 2
	; g_txq.next; g_txq.next->asize != 0: g_txq.next->adata
#endif
	)
#elif WCB_CASE == 3
__CPROVER_frees(WC->txframe; WC->txframe->asize != 0: WC->txframe->adata; WC->txframe->aio->a_msg != NULL: WC->txframe->aio->a_msg, WC->txframe->aio->a_msg->vm_body)
#elif WCB_CASE == 4
__CPROVER_frees(WC->txframe->adata)
#elif WCB_CASE >= 2
__CPROVER_frees(WC->txframe; WC->txframe->asize != 0: WC->txframe->adata)
#endif
__CPROVER_ensures(VP_NO_LOCK_HELD)
#if WCB_CASE == 0
/* nothing in flight (aborted during close): nothing happens */
__CPROVER_ensures(g_fin_calls == OLD(g_fin_calls) && VP_HEAP_DELTA(0, 0) && g_wr_calls == OLD(g_wr_calls) && WSF_TXQ_SAME && WC->txframe == NULL && g_sendq.n == OLD(g_sendq.n))
#endif
#if WCB_CASE == 1
/* after our CLOSE frame nothing may be sent: EVERY frame still queued leaves txq and is released exactly once (with its heap payload block),
 * every submitter among them is completed exactly once with NNG_ECLOSED; nothing is written any more */
__CPROVER_ensures(WC->txframe == NULL && g_txq.n == 0 && g_wr_calls == OLD(g_wr_calls) && __CPROVER_was_freed(OWF))
__CPROVER_ensures(g_free_calls == OLD(g_free_calls) + 1 + WCB_NQ + g_hk && g_alloc_ok == OLD(g_alloc_ok))
__CPROVER_ensures(g_sendq.n == 0 && g_fin_calls == OLD(g_fin_calls) + g_n + ((WC->peer_closed && OLD(WC->wclose)) ? 1 : 0))
__CPROVER_ensures(g_n > 0 ==> (g_f1.first_rv == NNG_ECLOSED && g_f1.first_count == 0))
/* the peer's CLOSE has been seen already: the closing handshake is complete, the lingering close is completed (once) */
__CPROVER_ensures((WC->peer_closed && OLD(WC->wclose)) ==> (!WC->wclose && g_fin_last == &WC->closeaio && g_fin_last_rv == 0))
__CPROVER_ensures(!WC->peer_closed ==> (WC->wclose == OLD(WC->wclose) && (g_n > 0 ==> g_fin_last_rv == NNG_ECLOSED)))
#endif
#if WCB_CASE == 2
/* the connection is broken: the submitter (if any) is completed exactly once with the error and leaves sendq, the frame is released,
 * the connection is closed (no close frame can be sent), nothing more is written */
__CPROVER_ensures(WC->txframe == NULL && WC->closed && g_hclose_calls == OLD(g_hclose_calls) + 1 && g_wr_calls == OLD(g_wr_calls) && WSF_TXQ_SAME)
__CPROVER_ensures(g_free_calls == OLD(g_free_calls) + 1 + (OLD(WC->txframe->asize) != 0 ? 1 : 0) && __CPROVER_was_freed(OWF))
__CPROVER_ensures(OWA != NULL ? (g_fin_calls == OLD(g_fin_calls) + 1 && g_fin_last == OWA && g_fin_last_rv == (int) OLD(WC->txaio.a_result) && g_sendq.n == OLD(g_sendq.n) - 1 && OWA->a_prov_node.ln_next == NULL) : (g_fin_calls == OLD(g_fin_calls) && g_sendq.n == OLD(g_sendq.n)))
#endif
#if WCB_CASE == 3
/* the send is done: the submitter leaves sendq and is completed exactly once, successfully, count = everything sent for it
 * (what earlier fragments carried + this frame's payload); its message (message mode) is released, not leaked; the frame is released */
__CPROVER_ensures(g_fin_calls == OLD(g_fin_calls) + 1 && g_fin_last == OWA && g_fin_last_rv == 0 && g_fin_last_count == OLD(WC->txframe->aio->a_count) + OLD(WC->txframe->len) && OWA->a_count == g_fin_last_count)
__CPROVER_ensures(g_sendq.n == OLD(g_sendq.n) - 1 && OWA->a_prov_node.ln_next == NULL && OWA->a_msg == NULL && g_msgfree_calls == OLD(g_msgfree_calls) + (OLD(WC->txframe->aio->a_msg) != NULL ? 1 : 0))
__CPROVER_ensures(g_free_calls == OLD(g_free_calls) + 1 + (OLD(WC->txframe->asize) != 0 ? 1 : 0) && g_alloc_ok == OLD(g_alloc_ok) && __CPROVER_was_freed(OWF) && !WC->closed == !OLD(WC->closed) && g_hclose_calls == OLD(g_hclose_calls))
#endif
#if WCB_CASE == 5
__CPROVER_ensures(g_fin_calls == OLD(g_fin_calls) && g_sendq.n == OLD(g_sendq.n) && g_free_calls == OLD(g_free_calls) + 1 + (OLD(WC->txframe->asize) != 0 ? 1 : 0) && __CPROVER_was_freed(OWF) && g_hclose_calls == OLD(g_hclose_calls))
#endif
#if WCB_CASE == 3 || WCB_CASE == 5
/* the transmitter goes on with the first queued frame, if any */
__CPROVER_ensures(OLD(g_txq.n) > 0 ? (WSR_WRITING(WC, OLD(g_txq.head)) && g_wr_calls == OLD(g_wr_calls) + 1 && g_txq.n == OLD(g_txq.n) - 1) : (WC->txframe == NULL && g_wr_calls == OLD(g_wr_calls) && g_txq.n == 0))
#endif
#if WCB_CASE == 4
/* more of the message remains: nobody is completed; the submitter's vector is advanced by EXACTLY the payload that went out (no byte is
 * framed twice, none skipped) and its count grows by it */
__CPROVER_ensures(g_fin_calls == OLD(g_fin_calls) && g_sendq.n == OLD(g_sendq.n) && OWF->aio == OWA && VP_AIO_ON(OWA, &WC->sendq) && OWA->a_count == OLD(WC->txframe->aio->a_count) + OLD(WC->txframe->len))
__CPROVER_ensures(OLD(WC->txframe->len) < OLD(WC->txframe->aio->a_iov[0].iov_len) ?
	(OWA->a_nio == OLD(WC->txframe->aio->a_nio) && OWA->a_iov[0].iov_buf == (void *) ((uint8_t *) OLD(WC->txframe->aio->a_iov[0].iov_buf) + OLD(WC->txframe->len)) && OWA->a_iov[0].iov_len == OLD(WC->txframe->aio->a_iov[0].iov_len) - OLD(WC->txframe->len)) :
	(OWA->a_nio == 1 && OWA->a_iov[0].iov_buf == (void *) ((uint8_t *) OLD(WC->txframe->aio->a_iov[1].iov_buf) + (OLD(WC->txframe->len) - OLD(WC->txframe->aio->a_iov[0].iov_len))) && OWA->a_iov[0].iov_len == OLD(WC->txframe->aio->a_iov[1].iov_len) - (OLD(WC->txframe->len) - OLD(WC->txframe->aio->a_iov[0].iov_len))))
/* the SAME frame object is re-framed for the next piece: a continuation frame (5.4) of min(rest, fragment size) bytes, FIN iff it is the rest;
 * no allocation (the buffer of the first fragment is reused), the frame is not released */
__CPROVER_ensures(OWF->len == WCB_NEXT_LEN && (unsigned) OWF->op == WS_OP_CONT && (OWF->head[0] & 0x7fu) == WS_OP_CONT && OWF->final == !WCB_NEXT_FRAG && ((OWF->head[0] & 0x80u) != 0) == !WCB_NEXT_FRAG && VP_HEAP_DELTA(0, 0) && OWF->asize == OLD(WC->txframe->asize))
/* it goes to the END of txq (frames of other senders may interleave); the transmitter goes on with the first queued frame */
__CPROVER_ensures(OLD(g_txq.n) == 0 ? (WSR_WRITING(WC, OWF) && g_txq.n == 0) : (WSR_WRITING(WC, OLD(g_txq.head)) && g_txq.n == 1 && g_txq.head == OWF))
__CPROVER_ensures(g_wr_calls == OLD(g_wr_calls) + 1 && g_hclose_calls == OLD(g_hclose_calls) && !WC->closed == !OLD(WC->closed))
#endif
;

/* ---- reassembly, stream mode (C01) -----------------------------------------
 * rxq is a byte stream cut into frames; a waiting reader gets the next bytes
 * of it, in order, into its scatter/gather vector: as many as are there and
 * fit.  A frame leaves the queue (and is released) only when ALL its bytes
 * were handed over; a partially read frame keeps exactly its unread tail.
 * Units: WSR_N = 1, 2 queued frames (constant), short frames (payload inside
 * the frame object, possibly partially read already), ONE waiting reader with
 * a vector of at most 2 entries, empty ones included (buffers of RFS_CAP bytes). */
#define RFS_CAP 200
#define RFS_A (g_recvq.head)
#define RFS_OA OLD(g_recvq.head)
#define RFS_V(i) ((i) < RFS_A->a_nio ? RFS_A->a_iov[i].iov_len : (size_t) 0)
#define RFS_ENT_PRE(i) ((i) >= RFS_A->a_nio || (RFS_A->a_iov[i].iov_len <= RFS_CAP && __CPROVER_is_fresh(RFS_A->a_iov[i].iov_buf, RFS_CAP)))
/* a queued short frame, possibly partially read: the unread bytes are buf[0..len) inside sdata */
#define RFS_ITEM_ON(i) (__CPROVER_is_fresh(IT(i), sizeof(ws_frame)) && IT(i)->len <= 125 && IT(i)->asize == 0 && IT(i)->adata == NULL && __CPROVER_pointer_in_range_dfcc(&IT(i)->sdata[0], IT(i)->buf, &IT(i)->sdata[0] + (125 - IT(i)->len)))
/* concatenation index of (entry g_j, offset g_k) of the reader's vector */
#define RFS_X (g_j == 0 ? g_k : g_s2 + g_k)
#define RFS_EQ(i, p) ((g_rxq.n > (i) && RFS_X >= (p) && RFS_X - (p) < IT(i)->len) ==> g_b == IT(i)->buf[RFS_X - (p)])
/* g_n = bytes queued, g_s2/g_s3 = room in entry 0/1, g_u64 = bytes handed over = min(queued, room) */
#define RFS_C ((size_t) g_u64)
static void ws_read_finish_str(nni_ws *ws)
__CPROVER_requires(__CPROVER_is_fresh(ws, sizeof(*ws)) && WSR_LISTS_PRE(ws) && WSR_LOCKED(ws))
__CPROVER_requires(g_recvq.n == 1 && __CPROVER_is_fresh(RFS_A, sizeof(nni_aio)) && VP_AIO_ON(RFS_A, &ws->recvq) && WSF_Q_OK(g_recvq))
#ifdef RFS_NIO
/* (unit with a constant number of vector entries) */
__CPROVER_requires(RFS_A->a_nio == RFS_NIO)
#endif
__CPROVER_requires(RFS_A->a_nio <= 2 && RFS_ENT_PRE(0) && RFS_ENT_PRE(1) && RFS_A->a_count <= (SIZE_MAX >> 4))
__CPROVER_requires(g_rxq.n == WSR_N)
#if WSR_N >= 1
__CPROVER_requires(RFS_ITEM_ON(0))
#else
__CPROVER_requires(IT(0) == NULL)
#endif
#if WSR_N >= 2
__CPROVER_requires(RFS_ITEM_ON(1))
#else
__CPROVER_requires(IT(1) == NULL)
#endif
__CPROVER_requires(IT(2) == NULL)
__CPROVER_requires(g_s0 == RFM_L(0) && g_s1 == RFM_L(1) && g_n == g_s0 + g_s1 && g_s2 == RFS_V(0) && g_s3 == RFS_V(1) && g_u64 == (g_n < g_s2 + g_s3 ? g_n : g_s2 + g_s3))
__CPROVER_requires(g_eq == WSR_EQ_MSG && g_j <= 1 && RFS_EQ(0, 0) && RFS_EQ(1, g_s0))
__CPROVER_requires(g_f1.first_at == g_fin_calls)
__CPROVER_assigns(g_rxq, g_recvq, WSF_FIN_GHOSTS, g_f1.first_aio, g_f1.first_rv, g_f1.first_count, g_free_calls, __CPROVER_object_whole(g_recvq.head);
	RFS_A->a_nio > 0: __CPROVER_object_whole(RFS_A->a_iov[0].iov_buf); RFS_A->a_nio > 1: __CPROVER_object_whole(RFS_A->a_iov[1].iov_buf);
	g_rxq.n > 0: g_rxq.item[0]->len, g_rxq.item[0]->buf; g_rxq.n > 1: g_rxq.item[1]->len, g_rxq.item[1]->buf)
__CPROVER_frees(g_rxq.item[0], g_rxq.item[1])
__CPROVER_ensures(WSR_STILL_LOCKED && g_alloc_ok == OLD(g_alloc_ok))
/* nothing to read (only empty frames, which are dropped): the reader keeps waiting */
__CPROVER_ensures(g_n == 0 ==> (g_fin_calls == OLD(g_fin_calls) && g_recvq.n == 1 && g_recvq.head == RFS_OA && g_rxq.n == 0 && g_free_calls == OLD(g_free_calls) + WSR_N && RFS_OA->a_count == OLD(g_recvq.head->a_count)))
/* otherwise the reader leaves the wait queue and is completed exactly once, successfully, count = bytes handed over = min(queued, room) */
__CPROVER_ensures(g_n > 0 ==> (g_fin_calls == OLD(g_fin_calls) + 1 && g_fin_last == RFS_OA && g_fin_last_rv == 0 && g_fin_last_count == OLD(g_recvq.head->a_count) + RFS_C && RFS_OA->a_count == g_fin_last_count && g_recvq.n == 0 && RFS_OA->a_prov_node.ln_next == NULL))
/* the bytes are the next bytes of the stream, in order (entry g_j, offset g_k of the vector holds stream byte RFS_X) */
__CPROVER_ensures((g_n > 0 && RFS_X < RFS_C && g_k < (g_j == 0 ? g_s2 : g_s3)) ==> ((const uint8_t *) (g_j == 0 ? OLD(g_recvq.head->a_iov[0].iov_buf) : OLD(g_recvq.head->a_iov[1].iov_buf)))[g_k] == g_b)
/* first frame only partly read: it stays first, with exactly its unread tail; nothing is released */
__CPROVER_ensures((g_n > 0 && RFS_C < g_s0) ==> (g_rxq.n == WSR_N && g_rxq.item[0] == OLD(g_rxq.item[0]) && g_rxq.item[0]->len == g_s0 - RFS_C && g_rxq.item[0]->buf == OLD(g_rxq.item[0]->buf) + RFS_C && g_free_calls == OLD(g_free_calls)))
#if WSR_N >= 2
__CPROVER_ensures((g_n > 0 && RFS_C < g_s0) ==> (g_rxq.item[1] == OLD(g_rxq.item[1]) && g_rxq.item[1]->len == g_s1 && g_rxq.item[1]->buf == OLD(g_rxq.item[1]->buf)))
/* first frame read completely, second only partly: the first is released (once), the second is first now with exactly its unread tail */
__CPROVER_ensures((g_n > 0 && RFS_C >= g_s0 && RFS_C < g_n) ==> (g_rxq.n == 1 && g_rxq.item[0] == OLD(g_rxq.item[1]) && g_rxq.item[0]->len == g_s1 - (RFS_C - g_s0) && g_rxq.item[0]->buf == OLD(g_rxq.item[1]->buf) + (RFS_C - g_s0) && g_free_calls == OLD(g_free_calls) + 1 && __CPROVER_was_freed(OLD(g_rxq.item[0]))))
/* everything read: every frame is released once (an EMPTY last frame may stay queued when the vector filled up exactly; it carries no bytes) */
__CPROVER_ensures((g_n > 0 && RFS_C == g_n) ==> ((g_rxq.n == 0 && g_free_calls == OLD(g_free_calls) + 2) || (g_s1 == 0 && g_rxq.n == 1 && g_rxq.item[0] == OLD(g_rxq.item[1]) && g_rxq.item[0]->len == 0 && g_free_calls == OLD(g_free_calls) + 1)))
#else
__CPROVER_ensures((g_n > 0 && RFS_C == g_n) ==> (g_rxq.n == 0 && g_free_calls == OLD(g_free_calls) + 1 && __CPROVER_was_freed(OLD(g_rxq.item[0]))))
#endif
;

/* ---- emit side: control frames (RFC 6455 5.5; C16) -------------------------
 * ws_send_control: a PING/PONG with the given payload goes out AHEAD of queued
 * data (or at once when the transmitter is idle); a payload above 125 bytes
 * can not be carried by a control frame and is refused: nothing is emitted.
 * (The bytes of the frame are the business of ws_msg_init_control, replaced
 * here by its contract, enforced in module wsframe.) */
#define SCT_F_OK(F) ((F)->head[0] == (uint8_t) (0x80u | op) && ((F)->head[1] & 0x7fu) == len && (((F)->head[1] & 0x80u) != 0) == !ws->server && (F)->len == len && (F)->aio == NULL && (F)->asize == 0)
#define SCT_BUILT (!OLD(ws->closed) && len <= 125 && g_alloc_ok == OLD(g_alloc_ok) + 1)
static void ws_send_control(nni_ws *ws, uint8_t op, uint8_t *buf, size_t len)
__CPROVER_requires(__CPROVER_is_fresh(ws, sizeof(*ws)) && WSR_LISTS_PRE(ws) && WSR_TXQ_WF && g_eq == 0 && (op == WS_OP_PING || op == WS_OP_PONG))
__CPROVER_requires(len > 125 || (len == 0 && buf == NULL) || __CPROVER_is_fresh(buf, len == 0 ? 1 : len))
__CPROVER_assigns(!ws->closed: WSF_CTL_GHOSTS, WSF_ALLOC_GHOSTS, WSF_RAND_GHOSTS, WSF_TX_GHOSTS, ws->txframe, WSF_IOV_OF(ws->txaio))
/* closing: nothing is sent any more (assigns clause).  Over-long payload: refused, nothing built, nothing queued, nothing written */
__CPROVER_ensures((!OLD(ws->closed) && len > 125) ==> (g_alloc_ok == OLD(g_alloc_ok) && WSF_TXQ_SAME && g_wr_calls == OLD(g_wr_calls) && ws->txframe == OLD(ws->txframe)))
/* at most one frame is built; if that fails nothing changes */
__CPROVER_ensures(!OLD(ws->closed) ==> (g_free_calls == OLD(g_free_calls) && (g_alloc_ok == OLD(g_alloc_ok) || g_alloc_ok == OLD(g_alloc_ok) + 1) && g_ctl_calls == OLD(g_ctl_calls) + 1 && g_ctl_op == op && g_ctl_len == len))
__CPROVER_ensures((!OLD(ws->closed) && g_alloc_ok == OLD(g_alloc_ok)) ==> (WSF_TXQ_SAME && g_wr_calls == OLD(g_wr_calls) && ws->txframe == OLD(ws->txframe)))
/* transmitter idle: the frame goes out now */
__CPROVER_ensures((SCT_BUILT && OLD(ws->txframe) == NULL && ws->ready) ==> (__CPROVER_is_fresh(ws->txframe, sizeof(ws_frame)) && SCT_F_OK(ws->txframe) && WSR_WRITING(ws, ws->txframe) && g_wr_calls == OLD(g_wr_calls) + 1 && g_txq.n == OLD(g_txq.n)))
/* transmitter busy (or connection not established): first in line */
__CPROVER_ensures((SCT_BUILT && !(OLD(ws->txframe) == NULL && ws->ready)) ==> (__CPROVER_is_fresh(g_txq.head, sizeof(ws_frame)) && SCT_F_OK(g_txq.head) && g_txq.n == OLD(g_txq.n) + 1 && g_txq.next == OLD(g_txq.head) && ws->txframe == OLD(ws->txframe) && g_wr_calls == OLD(g_wr_calls)))
;

/* ---- emit side: the CLOSE frame (RFC 6455 5.5.1, 7.1.2; C16) ---------------
 * Same statement as the closing part of ws_close (module wsframe): ONE CLOSE
 * frame with FIN set, a 2-byte big-endian status code, masked iff we are the
 * client, ahead of everything queued. */
static void ws_send_close(nni_ws *ws, uint16_t code)
__CPROVER_requires(__CPROVER_is_fresh(ws, sizeof(*ws)) && WSR_LISTS_PRE(ws) && WSR_TXQ_WF)
__CPROVER_requires(g_txq.n == 0 || __CPROVER_is_fresh(g_txq.head, sizeof(ws_frame)))
__CPROVER_requires(g_eq == WSF_EQ_CTL ==> ((g_k == 0 ==> g_b == (uint8_t) (code >> 8)) && (g_k == 1 ==> g_b == (uint8_t) code)))
__CPROVER_assigns(!ws->closed && ws->ready: ws->closed, ws->wclose, WSF_FIN_GHOSTS, g_f1.first_aio, g_f1.first_rv, g_f1.first_count, WSF_CTL_GHOSTS, WSF_TX_GHOSTS, WSF_ALLOC_GHOSTS, WSF_RAND_GHOSTS, ws->txframe, WSF_IOV_OF(ws->txaio))
/* already closing or not established: nothing (assigns clause) */
__CPROVER_ensures(CL_DO ==> (ws->closed && g_ctl_calls == OLD(g_ctl_calls) + 1 && g_ctl_op == WS_OP_CLOSE && g_ctl_len == 2 && g_aio_reset_calls == OLD(g_aio_reset_calls) + 1 && WSF_TXQ_OK))
__CPROVER_ensures(CL_DO ==> (g_alloc_ok == OLD(g_alloc_ok) || g_alloc_ok == OLD(g_alloc_ok) + 1))
__CPROVER_ensures(CL_NOMEM ==> (!ws->wclose && g_fin_calls == OLD(g_fin_calls) + 1 && g_fin_last == &ws->closeaio && g_fin_last_rv == NNG_ENOMEM && WSF_TXQ_SAME && g_wr_calls == OLD(g_wr_calls) && g_free_calls == OLD(g_free_calls)))
__CPROVER_ensures(CL_REFUSED ==> (!ws->wclose && g_fin_calls == OLD(g_fin_calls) && g_free_calls == OLD(g_free_calls) + 1 && WSF_TXQ_SAME && g_wr_calls == OLD(g_wr_calls)))
__CPROVER_ensures(CL_SENT ==> (ws->wclose && g_fin_calls == OLD(g_fin_calls) && g_start_calls == OLD(g_start_calls) + 1 && g_free_calls == OLD(g_free_calls)))
__CPROVER_ensures((CL_SENT && OLD(ws->txframe) == NULL) ==> (__CPROVER_is_fresh(ws->txframe, sizeof(ws_frame)) && WSF_IS_CLOSE_FRAME(ws->txframe, ws) && WSF_TXQ_SAME && g_wr_calls == OLD(g_wr_calls) + 1 && WSR_WRITING(ws, ws->txframe)))
__CPROVER_ensures((CL_SENT && OLD(ws->txframe) != NULL) ==> (__CPROVER_is_fresh(g_txq.head, sizeof(ws_frame)) && WSF_IS_CLOSE_FRAME(g_txq.head, ws) && g_txq.n == OLD(g_txq.n) + 1 && g_txq.next == OLD(g_txq.head) && ws->txframe == OLD(ws->txframe) && g_wr_calls == OLD(g_wr_calls)))
;

/* ---- cancellation of a send (C02) ------------------------------------------ */
#define WX ((nni_ws *) arg)
#define WX_F ((ws_frame *) aio->a_prov_data)
#ifndef WXC_CASE
#define WXC_CASE 1 /* 0: the send has completed already (not on sendq), 1: still waiting */
#endif
#define WX_ACTIVE (WXC_CASE == 1)
#define WX_INFLIGHT (WX_ACTIVE && OLD(aio->a_prov_data) == (void *) WX->txframe)
#define WX_QUEUED (WX_ACTIVE && OLD(aio->a_prov_data) != (void *) WX->txframe)
static void ws_write_cancel(nni_aio *aio, void *arg, nng_err rv)
__CPROVER_requires(__CPROVER_is_fresh(arg, sizeof(nni_ws)) && __CPROVER_is_fresh(aio, sizeof(nni_aio)) && WSR_LISTS_PRE(WX) && WSR_NOLOCK_PRE && WSR_TXQ_WF)
__CPROVER_requires(WSF_Q_OK(g_sendq) && WSR_MEMBER_PRE(aio, g_sendq, &WX->sendq) && (g_sendq.n < 2 || aio != g_sendq.next || aio != g_sendq.head))
#if WXC_CASE == 0
__CPROVER_requires(VP_AIO_TAG(aio) == NULL)
__CPROVER_assigns(VP_SYNC_GHOSTS)
#else
/* a waiting send owns a frame (prov data) that is in flight or queued in txq */
__CPROVER_requires(VP_AIO_TAG(aio) != NULL && __CPROVER_is_fresh(aio->a_prov_data, sizeof(ws_frame)) && WX_F->aio == aio && (WX_F->asize == 0 || (WX_F->asize == WCB_BLK && __CPROVER_is_fresh(WX_F->adata, WCB_BLK))))
__CPROVER_requires(WX->txframe == (ws_frame *) aio->a_prov_data || (g_txq.n >= 1 && (g_txq.head == (ws_frame *) aio->a_prov_data || (g_txq.n >= 2 && (g_txq.next == (ws_frame *) aio->a_prov_data || g_txq.next == NULL || g_txq.n >= 3)))))
__CPROVER_assigns(VP_SYNC_GHOSTS, g_sendq, WSF_FIN_GHOSTS, g_f1.first_aio, g_f1.first_rv, g_f1.first_count, g_rs.abort_calls, g_rs.abort_aio, g_rs.abort_rv, g_tx.txq, g_free_calls, aio->a_prov_node, __CPROVER_object_whole(aio->a_prov_data))
__CPROVER_frees(aio->a_prov_data; ((ws_frame *) aio->a_prov_data)->asize != 0: ((ws_frame *) aio->a_prov_data)->adata)
#endif
__CPROVER_ensures(VP_NO_LOCK_HELD)
/* already completed: nothing is reported, nothing changes */
__CPROVER_ensures(!WX_ACTIVE ==> (g_fin_calls == OLD(g_fin_calls) && g_abort_calls == OLD(g_abort_calls) && g_sendq.n == OLD(g_sendq.n) && WSF_TXQ_SAME && g_free_calls == OLD(g_free_calls)))
/* its frame is being written: the write is aborted through the stream aio with the cancel code; the completion (exactly one) comes from ws_write_cb */
__CPROVER_ensures(WX_INFLIGHT ==> (g_abort_calls == OLD(g_abort_calls) + 1 && g_abort_aio == &WX->txaio && g_abort_rv == (int) rv && g_fin_calls == OLD(g_fin_calls) && g_sendq.n == OLD(g_sendq.n) && VP_AIO_ON(aio, &WX->sendq) && WSF_TXQ_SAME && g_free_calls == OLD(g_free_calls)))
/* still queued: frame leaves txq and is released, the send leaves sendq and is completed exactly once with the cancel code */
__CPROVER_ensures(WX_QUEUED ==> (g_fin_calls == OLD(g_fin_calls) + 1 && g_fin_last == aio && g_fin_last_rv == (int) rv && g_fin_last_count == 0 && g_sendq.n == OLD(g_sendq.n) - 1 && aio->a_prov_node.ln_next == NULL && g_abort_calls == OLD(g_abort_calls)))
#if WXC_CASE == 1
__CPROVER_ensures(WX_QUEUED ==> (g_txq.n == OLD(g_txq.n) - 1 && WSR_TXQ_WF && g_free_calls == OLD(g_free_calls) + 1 + (OLD(((ws_frame *) aio->a_prov_data)->asize) != 0 ? 1 : 0) && __CPROVER_was_freed(OLD(aio->a_prov_data))))
#endif
;
/* clang-format on */
#endif
