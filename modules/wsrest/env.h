/* Environment of websocket.c for module wsrest (ASSUMED models).  A variant of
 * modules/wsframe/env.h (same ghost state, same meaning of every ghost that
 * the wsframe contracts speak about, so that those contracts can be used by
 * replacement here), extended by:
 *  - the second aio wait queue sendq and removal of ANY member of a wait
 *    queue (cancel paths): an aio carries the identity of the list it is on
 *    in a_prov_node.ln_next (NULL = not queued), see ghost.h;
 *  - removal of any member of the transmit queue (ws_write_cancel);
 *  - nni_aio_abort, nni_msg_free, message header accessors, nni_reap;
 *  - first-completion record g_f1. */
#ifndef VP_WSREST_ENV_H
#define VP_WSREST_ENV_H

/* ---- lists ------------------------------------------------------------- */
static nni_aio *
vp_unknown_aio(nni_aio *not_this)
{
	nni_aio *x = nondet_ptr();
	__CPROVER_assume(x != NULL && x != not_this);
	return (x);
}
static void
vp_aioq_pop(vp_aioq *q)
{
	/* the head leaves: the one behind it becomes head; who is behind that one
	 * is unknown (some aio, not NULL) */
	q->n--;
	q->head = q->next;
	q->next = (q->n >= 2) ? vp_unknown_aio(q->head) : NULL;
}
static void
vp_aioq_append(vp_aioq *q, nni_aio *aio, nni_list *l)
{
	__CPROVER_assert(VP_AIO_TAG(aio) == NULL, "list_append: aio is not on a wait queue already");
	VP_AIO_TAG(aio) = (nni_list_node *) l;
	if (q->n == 0) {
		q->head = aio;
	} else if (q->n == 1) {
		q->next = aio;
	}
	q->n++;
}
static vp_frameq *
vp_fq(const nni_list *l)
{
	__CPROVER_assert(l == g_rxq_addr, "list: the reassembly queue of this model");
	return (&g_rxq);
}
void *
nni_list_first(const nni_list *l)
{
	if (l == g_recvq_addr) {
		return (g_recvq.n ? g_recvq.head : NULL);
	}
	if (l == g_sendq_addr) {
		return (g_sendq.n ? g_sendq.head : NULL);
	}
	if (l == g_txq_addr) {
		return (g_txq.n ? g_txq.head : NULL);
	}
	vp_frameq *q = vp_fq(l);
	return (q->n ? q->item[0] : NULL);
}
void *
nni_list_next(const nni_list *l, void *it)
{
	vp_frameq *q = vp_fq(l);
	__CPROVER_assert(q->n <= WSF_K, "frame queue within model capacity");
	if (q->n >= 1 && it == q->item[0]) {
		return (q->n >= 2 ? q->item[1] : NULL);
	}
	if (q->n >= 2 && it == q->item[1]) {
		return (q->n >= 3 ? q->item[2] : NULL);
	}
	__CPROVER_assert(q->n >= 3 && it == q->item[2], "list_next: item is a member of that queue");
	return (NULL);
}
void *
nni_list_last(const nni_list *l)
{
	/* (not used by the unchanged code under contract; models a walk to the end of the receive wait queue) */
	__CPROVER_assert(l == g_recvq_addr, "list_last: the receive wait queue");
	if (g_recvq.n == 0) {
		return (NULL);
	}
	if (g_recvq.n == 1) {
		return (g_recvq.head);
	}
	return (g_recvq.n == 2 ? g_recvq.next : vp_unknown_aio(g_recvq.head));
}
int
nni_list_empty(nni_list *l)
{
	if (l == g_recvq_addr) {
		return (g_recvq.n == 0);
	}
	if (l == g_sendq_addr) {
		return (g_sendq.n == 0);
	}
	if (l == g_txq_addr) {
		return (g_txq.n == 0);
	}
	return (vp_fq(l)->n == 0);
}
void
nni_list_append(nni_list *l, void *it)
{
	__CPROVER_assert(it != NULL, "list_append: item is not NULL");
	if (l == g_recvq_addr) {
		vp_aioq_append(&g_recvq, (nni_aio *) it, l);
		return;
	}
	if (l == g_sendq_addr) {
		vp_aioq_append(&g_sendq, (nni_aio *) it, l);
		return;
	}
	if (l == g_txq_addr) {
		if (g_txq.n == 0) {
			g_txq.head = it;
		} else if (g_txq.n == 1) {
			g_txq.next = it;
		}
		g_txq.n++;
		return;
	}
	vp_frameq *q = vp_fq(l);
	__CPROVER_assert(q->n < WSF_K, "frame queue model capacity (WSF_K) not exceeded");
	__CPROVER_assert(!(q->n >= 1 && it == q->item[0]) && !(q->n >= 2 && it == q->item[1]), "list_append: item is not already a member");
	q->item[q->n] = it;
	q->n++;
}
void
nni_list_prepend(nni_list *l, void *it)
{
	__CPROVER_assert(it != NULL, "list_prepend: item is not NULL");
	__CPROVER_assert(l == g_txq_addr, "list_prepend: the transmit queue");
	g_txq.next = g_txq.n ? g_txq.head : NULL;
	g_txq.head = it;
	g_txq.n++;
}
void
nni_list_remove(nni_list *l, void *it)
{
	if (l == g_txq_addr) {
		__CPROVER_assert(g_txq.n > 0 && it != NULL, "list_remove: the transmit queue is not empty");
		if (it == g_txq.head) {
			g_txq.n--;
			g_txq.head = g_txq.next;
			g_txq.next = NULL;
			if (g_txq.n >= 1 && g_txq.head == NULL) {
				/* identity unknown to the model: some other frame (a real object) */
				struct ws_frame *x = malloc(sizeof(struct ws_frame));
				__CPROVER_assume(x != NULL);
				g_txq.head = x;
			}
		} else {
			/* some member behind the head */
			__CPROVER_assert(g_txq.n >= 2, "list_remove: item is a member of the transmit queue");
			if (it == g_txq.next) {
				g_txq.next = NULL; /* who is second now is unknown */
			}
			g_txq.n--;
		}
		return;
	}
	vp_frameq *q = vp_fq(l);
	__CPROVER_assert(q->n <= WSF_K, "frame queue within model capacity");
	if (q->n >= 1 && it == q->item[0]) {
		q->item[0] = q->item[1];
		q->item[1] = q->item[2];
	} else if (q->n >= 2 && it == q->item[1]) {
		q->item[1] = q->item[2];
	} else {
		__CPROVER_assert(q->n >= 3 && it == q->item[2], "list_remove: item is a member of that queue");
	}
	q->item[2] = NULL;
	q->n--;
}
int
nni_aio_list_active(nni_aio *aio)
{
	return (VP_AIO_TAG(aio) != NULL);
}
void
nni_aio_list_remove(nni_aio *aio)
{
	__CPROVER_assert(aio != NULL, "aio_list_remove: aio is not NULL");
	if (VP_AIO_TAG(aio) == NULL) {
		return; /* nni_list_node_remove: nothing to do for a node that is on no list */
	}
	vp_aioq *q;
	if (VP_AIO_TAG(aio) == (nni_list_node *) g_recvq_addr) {
		q = &g_recvq;
	} else {
		__CPROVER_assert(VP_AIO_TAG(aio) == (nni_list_node *) g_sendq_addr, "aio_list_remove: aio is on the receive or the send wait queue");
		q = &g_sendq;
	}
	VP_AIO_TAG(aio)          = NULL;
	aio->a_prov_node.ln_prev = NULL;
	__CPROVER_assert(q->n > 0, "aio_list_remove: the wait queue the aio is on is not empty");
	if (aio == q->head) {
		vp_aioq_pop(q);
	} else {
		__CPROVER_assert(q->n >= 2, "aio_list_remove: aio is a member of its wait queue");
		q->n--;
		if (aio == q->next || q->n < 2) {
			q->next = (q->n >= 2) ? vp_unknown_aio(q->head) : NULL;
		}
	}
}

/* ---- completions / aio run-time ---------------------------------------- */
static void
vp_fin(nni_aio *aio, nng_err rv, size_t count)
{
	__CPROVER_assert(aio != NULL, "completion of a NULL aio");
	if (g_fin_calls == g_f1.first_at) {
		g_f1.first_aio   = aio;
		g_f1.first_rv    = (int) rv;
		g_f1.first_count = count;
	}
	g_fin_calls++;
	g_fin_last       = aio;
	g_fin_last_rv    = (int) rv;
	g_fin_last_count = count;
}
void nni_aio_finish(nni_aio *aio, nng_err rv, size_t count) { vp_fin(aio, rv, count); }
void nni_aio_finish_sync(nni_aio *aio, nng_err rv, size_t count) { vp_fin(aio, rv, count); }
void nni_aio_finish_error(nni_aio *aio, nng_err rv) { vp_fin(aio, rv, 0); }
void nni_aio_close(nni_aio *aio) { (void) aio; g_aio_close_calls++; }
void nni_aio_reset(nni_aio *aio) { (void) aio; g_aio_reset_calls++; }
bool nni_aio_start(nni_aio *aio, nni_aio_cancel_fn fn, void *arg) { (void) aio; (void) fn; (void) arg; g_start_calls++; return (g_aio_start_ok); }
void nni_aio_abort(nni_aio *aio, nng_err rv) { g_abort_calls++; g_abort_aio = aio; g_abort_rv = (int) rv; }

/* ---- HTTP connection --------------------------------------------------- */
void nni_http_read_full(nni_http_conn *c, nng_aio *aio) { g_rd_calls++; g_rd_http = c; g_rd_aio = aio; }
void nni_http_write_full(nni_http_conn *c, nng_aio *aio) { g_wr_calls++; g_wr_http = c; g_wr_aio = aio; }
void nni_http_conn_close(nng_http *c) { g_hclose_calls++; g_wr_http = c; }

/* ---- random ------------------------------------------------------------ */
uint32_t
nni_random(void)
{
	g_rand_calls++;
	g_rand_last = nondet_u32();
	return (g_rand_last);
}

/* ---- reap -------------------------------------------------------------- */
void nni_reap(nni_reap_list *rl, void *item) { (void) rl; g_rs.reap_calls++; g_rs.reap_item = item; }

/* ---- messages ---------------------------------------------------------- */
int
nni_msg_alloc(nni_msg **mp, size_t sz)
{
	nni_msg *m;
	g_msg_alloc_calls++;
	g_msg_alloc_sz = sz;
	if ((m = malloc(sizeof(*m))) == NULL) {
		return (NNG_ENOMEM);
	}
	if ((m->vm_body = malloc(sz ? sz : 1)) == NULL) {
		free(m);
		return (NNG_ENOMEM);
	}
	m->vm_hlen = 0;
	m->vm_blen = sz;
	g_msg_last = m;
	*mp        = m;
	return (0);
}
void
nni_msg_free(nni_msg *m)
{
	if (m != NULL) {
		g_msgfree_calls++;
		g_msgfree_last = m;
		free(m->vm_body);
		free(m);
	}
}
size_t nni_msg_len(const nni_msg *m) { return (m->vm_blen); }
void  *nni_msg_body(nni_msg *m) { return (m->vm_body); }
size_t nni_msg_header_len(const nni_msg *m) { return (m->vm_hlen); }
size_t nng_msg_header_len(const nng_msg *m) { return (m->vm_hlen); }
void  *nni_msg_header(nni_msg *m) { return (&m->vm_hdr[0]); }
#endif
