#define VP_SZ(v) do { v = nondet_size_t(); __CPROVER_assume(v < ((size_t) 1 << 40)); } while (0)
#define VP_HAVOC_FQ(q) do { VP_SZ((q).n); (q).item[0] = nondet_ptr(); (q).item[1] = nondet_ptr(); (q).item[2] = nondet_ptr(); } while (0)
#define VP_HAVOC_AQ(q) do { VP_SZ((q).n); (q).head = nondet_ptr(); (q).next = nondet_ptr(); } while (0)
/* every ghost starts arbitrary (size counters below 2^40 so that +1 does not wrap); the mutex ghosts too: the contracts say who holds what */
#define VP_HAVOC_GHOSTS()                                                     \
	do {                                                                      \
		g_k = nondet_size_t(); g_j = nondet_size_t(); g_n = nondet_size_t(); g_b = nondet_u8(); g_hk = nondet_size_t(); g_hb = nondet_u8(); \
		g_s0 = nondet_size_t(); g_s1 = nondet_size_t(); g_s2 = nondet_size_t(); g_s3 = nondet_size_t(); g_p = nondet_ptr(); g_p2 = nondet_ptr(); g_p3 = nondet_ptr(); \
		VP_SZ(g_msg_freed); g_msg_freed_at_j = nondet_ptr();                  \
		VP_SZ(g_free_calls); VP_SZ(g_alloc_ok); VP_SZ(g_msg_alloc_calls); g_msg_alloc_sz = nondet_size_t(); g_msg_last = nondet_ptr(); \
		VP_HAVOC_AQ(g_recvq); g_recvq_addr = nondet_ptr(); VP_HAVOC_AQ(g_sendq); g_sendq_addr = nondet_ptr(); \
		VP_HAVOC_FQ(g_rxq); VP_SZ(g_txq.n); g_txq.head = nondet_ptr(); g_txq.next = nondet_ptr(); g_rxq_addr = nondet_ptr(); g_txq_addr = nondet_ptr(); \
		VP_SZ(g_rd_calls); VP_SZ(g_wr_calls); VP_SZ(g_hclose_calls); g_rd_http = nondet_ptr(); g_wr_http = nondet_ptr(); g_rd_aio = nondet_ptr(); g_wr_aio = nondet_ptr(); \
		VP_SZ(g_fin_calls); g_fin_last = nondet_ptr(); g_fin_last_rv = nondet_int(); g_fin_last_count = nondet_size_t(); \
		g_f1.first_at = nondet_size_t(); g_f1.first_aio = nondet_ptr(); g_f1.first_rv = nondet_int(); g_f1.first_count = nondet_size_t(); \
		VP_SZ(g_aio_close_calls); VP_SZ(g_aio_reset_calls); VP_SZ(g_start_calls); g_aio_start_ok = nondet_bool(); \
		g_rand_last = nondet_u32(); VP_SZ(g_rand_calls);                      \
		VP_SZ(g_abort_calls); g_abort_aio = nondet_ptr(); g_abort_rv = nondet_int(); VP_SZ(g_msgfree_calls); g_msgfree_last = nondet_ptr(); VP_SZ(g_rs.reap_calls); g_rs.reap_item = nondet_ptr(); \
		VP_SZ(g_close_calls); g_close_code = nondet_u16(); VP_SZ(g_finish_calls); VP_SZ(g_ctl_calls); g_ctl_op = nondet_u8(); g_ctl_len = nondet_size_t(); \
		VP_HAVOC_FQ(g_fin_rxq); g_fin_inmsg = nondet_bool(); g_the_frame = nondet_ptr(); g_fin_flen = nondet_size_t(); g_fin_fbuf = nondet_ptr(); g_fin_fb = nondet_u8(); g_eq = nondet_int(); g_u64 = nondet_u64(); \
		g_mtx_a = nondet_ptr(); g_mtx_b = nondet_ptr(); g_held_a = nondet_bool(); g_held_b = nondet_bool(); VP_SZ(g_lock_ops); \
	} while (0)

void h_finish_msg(void) { nni_ws *ws; VP_HAVOC_GHOSTS(); ws_read_finish_msg(ws); VP_CANARY(); }
void h_frame_fini(void) { ws_frame *f; VP_HAVOC_GHOSTS(); ws_frame_fini(f); VP_CANARY(); }
void h_read_cancel(void) { nni_aio *aio; void *arg; nng_err rv; VP_HAVOC_GHOSTS(); ws_read_cancel(aio, arg, rv); VP_CANARY(); }
void h_cancel_close(void) { nni_aio *aio; void *arg; nng_err rv; VP_HAVOC_GHOSTS(); ws_cancel_close(aio, arg, rv); VP_CANARY(); }
void h_close_error(void) { nni_ws *ws; uint16_t code; VP_HAVOC_GHOSTS(); ws_close_error(ws, code); VP_CANARY(); }
void h_str_close(void) { void *arg; VP_HAVOC_GHOSTS(); ws_str_close(arg); VP_CANARY(); }
void h_start_write(void) { nni_ws *ws; VP_HAVOC_GHOSTS(); ws_start_write(ws); VP_CANARY(); }
void h_write_cb(void) { void *arg; VP_HAVOC_GHOSTS(); ws_write_cb(arg); VP_CANARY(); }
void h_finish_str(void) { nni_ws *ws; VP_HAVOC_GHOSTS(); ws_read_finish_str(ws); VP_CANARY(); }
void h_send_control(void) { nni_ws *ws; uint8_t op; uint8_t *buf; size_t len; VP_HAVOC_GHOSTS(); ws_send_control(ws, op, buf, len); VP_CANARY(); }
void h_send_close(void) { nni_ws *ws; uint16_t code; VP_HAVOC_GHOSTS(); ws_send_close(ws, code); VP_CANARY(); }
void h_write_cancel(void) { nni_aio *aio; void *arg; nng_err rv; VP_HAVOC_GHOSTS(); ws_write_cancel(aio, arg, rv); VP_CANARY(); }
