/* included BEFORE the real sources of the respond TU */
#define VP_PROTO_GHOSTS 1
#include "include/env_proto.h"
#include "modules/message/spec.h"
#include "modules/lmq/spec.h"
#include "modules/xrespond/env.h"
#include "modules/xrespond/spec.h"
#include "modules/respond/spec.h"
#include "modules/xrespond/mem_ghost.h"
size_t g_len0, g_off0, g_cap0; /* ghosts: pre-state body geometry (BT_BODY_GHOSTS) */
nni_aio *g_raio; /* ghost: the pending receive aio of the first waiting context */
