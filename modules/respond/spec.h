/* Spec macros for src/sp/protocol/survey0/respond.c (C07, C11, C13, C15). No code. */
#ifndef VP_RESPOND_SPEC_H
#define VP_RESPOND_SPEC_H
/* list binding: queue A = first list, queue B = second list; heads are real objects of the given sizes */
#define RS_LISTS_PRE(asz, bsz)                                             \
	((g_qa.n == 0 || __CPROVER_is_fresh(g_qa.head, (asz))) &&             \
	    (g_qb.n == 0 || __CPROVER_is_fresh(g_qb.head, (bsz))) && VP_AIOQS_OK)
#ifndef RS_TTLMAX
#define RS_TTLMAX NNI_MAX_MAX_TTL
#endif
#define RS_TTL_OK(s) ((s)->ttl.v >= 1 && (s)->ttl.v <= RS_TTLMAX)
#define RS_BT(ctx) ((uint8_t *) (ctx)->btrace)
#define RS_BTCAP ((size_t) (NNI_MAX_MAX_TTL + 1) * 4)
#endif
#ifndef RC_FAILED_MSG
#define RC_FAILED_MSG (RC_M == NULL)
#endif
