/* Contracts for src/sp/protocol/survey0/respond.c (cooked RESPONDENT; C07, C11, C13, C15) */
#ifndef VP_RESPOND_CONTRACTS_H
#define VP_RESPOND_CONTRACTS_H
/* clang-format off */
#define RV __CPROVER_return_value
#define OLD(e) __CPROVER_old(e)

/* ================= resp0_ctx_send (C07, C15, C03) =================
 * C07: a response goes only to the surveyor whose survey this context most
 * recently received: exactly the captured backtrace, to exactly the captured
 * pipe; the capture is consumed (a second send => NNG_ESTATE); with no survey
 * pending => NNG_ESTATE, message stays with the caller.
 * C15: nni_aio_start (the only place a non-blocking call can fail with
 * NNG_EAGAIN) is reached ONLY when the response cannot go out now (pipe busy). */
#define CS_C ((resp0_ctx *) arg)
#define CS_S (((resp0_ctx *) arg)->sock)
#define CS_M (aio->a_msg)
#define CS_P ((resp0_pipe *) g_sv.idm_val)
#define CS_BL OLD(CS_C->btrace_len)
#define CS_HAVE_PIPE (g_sv.idm_present)
/* "refused": nni_aio_start was reached and said no (aio stopped, or a
 * non-blocking call): the operation is over, nothing else may have happened */
#define CS_REFUSED (g_start_calls > OLD(g_start_calls) && !g_aio_start_ok)
static void resp0_ctx_send(void *arg, nni_aio *aio)
__CPROVER_requires(__CPROVER_is_fresh(arg, sizeof(struct resp0_ctx)) && __CPROVER_is_fresh(CS_S, sizeof(struct resp0_sock)) && VP_NO_LOCK_HELD)
__CPROVER_requires(__CPROVER_is_fresh(aio, sizeof(nni_aio)) && MSG_PRE(CS_M) && CS_M->m_refcnt.v == 1 && CH_GHOST_PRE(&CS_M->m_body))
__CPROVER_requires(CS_C->btrace_len <= RS_BTCAP && CS_C->saio == NULL)
/* ghost equation: g_hb = captured backtrace byte g_hk */
__CPROVER_requires(g_hk < CS_C->btrace_len ==> g_hb == RS_BT(CS_C)[g_hk])
/* id map model: tracked key = the captured pipe id */
__CPROVER_requires(g_idm_addr == &CS_S->pipes && g_idm_key == (uint64_t) CS_C->pipe_id)
/* the pipe object the tracked key would map to always exists (OLD() needs a valid pointer); membership is g_sv.idm_present */
__CPROVER_requires(__CPROVER_is_fresh(g_sv.idm_val, sizeof(struct resp0_pipe)) && g_qa_addr == &CS_P->sendq)
__CPROVER_requires((g_qa.n == 0 || __CPROVER_is_fresh(g_qa.head, sizeof(struct resp0_ctx))) && VP_AIOQS_OK && g_qa.n < 8 && VP_AIO_NOT_QUEUED((nni_aio *) arg))
__CPROVER_requires(g_pollr_addr == &CS_S->readable && g_pollw_addr == &CS_S->writable)
__CPROVER_assigns(aio->a_msg, aio->a_result, aio->a_count, CS_C->pipe_id, CS_C->btrace_len, CS_C->saio, CS_C->spipe, VP_PROTO_GHOST_LIST, VP_SV_GHOST_LIST, VP_SYNC_GHOSTS, g_free_calls)
__CPROVER_assigns(*CS_M, CS_P->busy, CS_P->aio_send.a_msg)
__CPROVER_frees(CS_M, CS_M->m_body.ch_buf)
__CPROVER_ensures(VP_NO_LOCK_HELD && VP_AIOQS_OK && g_start_calls <= OLD(g_start_calls) + 1)
/* ---- C15, the non-blocking rule: nni_aio_start is reached ONLY when the response has to wait for a busy pipe.
 * (KNOWN FINDING on the current tree: resp0_ctx_send starts the aio up front, so a non-blocking send fails with
 *  NNG_EAGAIN even when the response could go out at once; pinned by respond_test.c test_resp_ctx_send_nonblock) */
__CPROVER_ensures(CS_BL == 0 ==> g_start_calls == OLD(g_start_calls))
__CPROVER_ensures((CS_BL > 0 && (!CS_HAVE_PIPE || !OLD(CS_P->busy))) ==> g_start_calls == OLD(g_start_calls))
/* ---- refused start: the message stays with the caller, nothing sent/queued/completed here, the survey stays answerable */
__CPROVER_ensures(CS_REFUSED ==> (aio->a_msg == OLD(CS_M) && !__CPROVER_was_freed(OLD(CS_M)) && g_fin_calls == OLD(g_fin_calls) && g_pipe_send_calls == OLD(g_pipe_send_calls) && g_qa.n == OLD(g_qa.n) && CS_C->saio == NULL && CS_C->btrace_len == CS_BL && CS_C->pipe_id == OLD(CS_C->pipe_id)))
/* ---- C07 state machine (when not refused) ---- */
/* (a) no survey pending: NNG_ESTATE, message stays with the caller, nothing sent */
__CPROVER_ensures((CS_BL == 0 && !CS_REFUSED) ==> (g_fin_calls == OLD(g_fin_calls) + 1 && g_fin_last == aio && g_fin_last_rv == NNG_ESTATE && aio->a_msg == OLD(CS_M) && !__CPROVER_was_freed(OLD(CS_M)) && g_pipe_send_calls == OLD(g_pipe_send_calls) && g_qa.n == OLD(g_qa.n) && CS_C->saio == NULL))
/* (b) surveyor's pipe idle: on the wire now, to exactly the captured pipe, header = exactly the captured backtrace; completes in the call */
__CPROVER_ensures((CS_BL > 0 && !CS_REFUSED && CS_HAVE_PIPE && !OLD(CS_P->busy)) ==> (g_pipe_send_calls == OLD(g_pipe_send_calls) + 1 && g_pipe_send_pipe == CS_P->npipe && g_pipe_send_aio == &CS_P->aio_send && g_pipe_send_msg == OLD(CS_M) && CS_P->busy && !__CPROVER_was_freed(OLD(CS_M)) && OLD(CS_M)->m_header_len == CS_BL && g_fin_calls == OLD(g_fin_calls) + 1 && g_fin_last == aio && g_fin_last_rv == 0 && aio->a_msg == NULL && g_qa.n == OLD(g_qa.n)))
/* (c) the surveyor is gone: the response is discarded, reported as sent */
__CPROVER_ensures((CS_BL > 0 && !CS_REFUSED && !CS_HAVE_PIPE) ==> (__CPROVER_was_freed(OLD(CS_M)) && g_pipe_send_calls == OLD(g_pipe_send_calls) && g_fin_calls == OLD(g_fin_calls) + 1 && g_fin_last == aio && g_fin_last_rv == 0 && aio->a_msg == NULL))
/* (d) pipe busy: must wait -- started exactly once, queued behind the pipe with header = backtrace */
__CPROVER_ensures((CS_BL > 0 && CS_HAVE_PIPE && OLD(CS_P->busy)) ==> (g_start_calls == OLD(g_start_calls) + 1 && g_start_last == aio && g_pipe_send_calls == OLD(g_pipe_send_calls) && g_fin_calls == OLD(g_fin_calls) && aio->a_msg == OLD(CS_M) && !__CPROVER_was_freed(OLD(CS_M))))
__CPROVER_ensures((CS_BL > 0 && CS_HAVE_PIPE && OLD(CS_P->busy) && g_aio_start_ok) ==> (g_qa.n == OLD(g_qa.n) + 1 && g_last_app == (nni_aio *) arg && CS_C->saio == aio && CS_C->spipe == CS_P && OLD(CS_M)->m_header_len == CS_BL))
/* the capture is consumed whenever the response was accepted (a second send => (a)) */
__CPROVER_ensures((CS_BL > 0 && !CS_REFUSED) ==> (CS_C->btrace_len == 0 && CS_C->pipe_id == 0))
/* header = exactly the captured backtrace, body unchanged, whenever the message is kept by the library */
__CPROVER_ensures((CS_BL > 0 && !CS_REFUSED && CS_HAVE_PIPE && g_hk < CS_BL) ==> HDR(OLD(CS_M))[g_hk] == g_hb)
__CPROVER_ensures((CS_BL > 0 && !CS_REFUSED && CS_HAVE_PIPE) ==> OLD(CS_M)->m_body.ch_len == OLD(CS_M->m_body.ch_len))
__CPROVER_ensures((CS_BL > 0 && !CS_REFUSED && CS_HAVE_PIPE && g_k < OLD(CS_M->m_body.ch_len)) ==> OLD(CS_M)->m_body.ch_ptr[g_k] == g_b)
/* the pipe map is only read */
__CPROVER_ensures(g_sv.idm_present == OLD(g_sv.idm_present) && g_sv.idm_set_calls == OLD(g_sv.idm_set_calls) && g_sv.idm_remove_calls == OLD(g_sv.idm_remove_calls))
;

/* ================= resp0_ctx_recv (C07, C15) =================
 * A survey waiting on a pipe is handed over at once (no nni_aio_start): the
 * context captures its backtrace and pipe id, the application gets the body
 * with an empty header; otherwise the receive waits (one per context:
 * a second concurrent receive => NNG_ESTATE). */
#define CR_C ((resp0_ctx *) arg)
#define CR_S (((resp0_ctx *) arg)->sock)
#define CR_P ((resp0_pipe *) g_qb.head)
#define CR_M (((resp0_pipe *) g_qb.head)->aio_recv.a_msg)
#define CR_HL OLD(CR_M->m_header_len)
#ifdef CR_EMPTY
/* case A (own unit): no pipe holds a survey: the receive waits (start exactly once); refused => nothing queued */
static void resp0_ctx_recv(void *arg, nni_aio *aio)
__CPROVER_requires(__CPROVER_is_fresh(arg, sizeof(struct resp0_ctx)) && __CPROVER_is_fresh(CR_S, sizeof(struct resp0_sock)) && VP_NO_LOCK_HELD)
__CPROVER_requires(__CPROVER_is_fresh(aio, sizeof(nni_aio)))
__CPROVER_requires(g_qa_addr == &CR_S->recvq && g_qb_addr == &CR_S->recvpipes && RS_LISTS_PRE(sizeof(struct resp0_ctx), sizeof(struct resp0_pipe)) && g_qa.n < 8)
__CPROVER_requires(g_qb.n == 0)
/* state invariant: a context is on the receive queue iff it has a pending receive */
__CPROVER_requires(CR_C->raio == NULL ==> VP_AIO_NOT_QUEUED((nni_aio *) arg))
__CPROVER_requires(g_pollr_addr == &CR_S->readable && g_pollw_addr == &CR_S->writable)
__CPROVER_assigns(CR_C->raio, VP_PROTO_GHOST_LIST, VP_SYNC_GHOSTS)
__CPROVER_ensures(VP_NO_LOCK_HELD && VP_AIOQS_OK)
__CPROVER_ensures(g_start_calls == OLD(g_start_calls) + 1 && g_start_last == aio && g_pipe_recv_calls == OLD(g_pipe_recv_calls) && CR_C->btrace_len == OLD(CR_C->btrace_len) && CR_C->pipe_id == OLD(CR_C->pipe_id))
__CPROVER_ensures(!g_aio_start_ok ==> (g_fin_calls == OLD(g_fin_calls) && g_qa.n == OLD(g_qa.n) && CR_C->raio == OLD(CR_C->raio)))
/* one receive per context: a second concurrent one => NNG_ESTATE */
__CPROVER_ensures((g_aio_start_ok && OLD(CR_C->raio) != NULL) ==> (g_fin_calls == OLD(g_fin_calls) + 1 && g_fin_last == aio && g_fin_last_rv == NNG_ESTATE && g_qa.n == OLD(g_qa.n) && CR_C->raio == OLD(CR_C->raio)))
__CPROVER_ensures((g_aio_start_ok && OLD(CR_C->raio) == NULL) ==> (g_fin_calls == OLD(g_fin_calls) && g_qa.n == OLD(g_qa.n) + 1 && g_last_app == (nni_aio *) arg && CR_C->raio == aio))
;
#else
/* case B: a survey is waiting on the first receivable pipe: handed over in the call (no nni_aio_start) */
static void resp0_ctx_recv(void *arg, nni_aio *aio)
__CPROVER_requires(__CPROVER_is_fresh(arg, sizeof(struct resp0_ctx)) && __CPROVER_is_fresh(CR_S, sizeof(struct resp0_sock)) && VP_NO_LOCK_HELD)
__CPROVER_requires(__CPROVER_is_fresh(aio, sizeof(nni_aio)))
/* queue A = contexts blocked in receive, queue B = pipes holding a survey */
__CPROVER_requires(g_qa_addr == &CR_S->recvq && g_qb_addr == &CR_S->recvpipes && g_qb.n > 0 && RS_LISTS_PRE(sizeof(struct resp0_ctx), sizeof(struct resp0_pipe)))
__CPROVER_requires(MSG_PRE(CR_M) && CR_M->m_refcnt.v == 1 && HDR_GHOST_PRE(CR_M) && CH_GHOST_PRE(&CR_M->m_body))
__CPROVER_requires(g_pollr_addr == &CR_S->readable && g_pollw_addr == &CR_S->writable)
__CPROVER_assigns(aio->a_msg, aio->a_result, aio->a_count, CR_C->pipe_id, CR_C->btrace_len, __CPROVER_object_from(CR_C->btrace), VP_PROTO_GHOST_LIST, VP_SYNC_GHOSTS)
__CPROVER_assigns(CR_P->aio_recv.a_msg, CR_M->m_header_len)
__CPROVER_ensures(VP_NO_LOCK_HELD && VP_AIOQS_OK)
__CPROVER_ensures(g_start_calls == OLD(g_start_calls) && g_fin_calls == OLD(g_fin_calls) + 1 && g_fin_last == aio && g_fin_last_rv == 0 && g_fin_last_msg == OLD(CR_M) && aio->a_msg == OLD(CR_M) && g_fin_last_count == OLD(CR_M)->m_body.ch_len && OLD(CR_M)->m_header_len == 0)
__CPROVER_ensures(g_qb.n == OLD(g_qb.n) - 1 && OLD(CR_P)->aio_recv.a_msg == NULL && g_pipe_recv_calls == OLD(g_pipe_recv_calls) + 1 && g_pipe_recv_pipe == OLD(CR_P)->npipe && g_pipe_recv_aio == &OLD(CR_P)->aio_recv && g_qa.n == OLD(g_qa.n))
/* capture: exactly the survey's backtrace and the pipe it came from; body untouched */
__CPROVER_ensures(CR_C->btrace_len == CR_HL && CR_C->pipe_id == OLD(CR_P)->id)
__CPROVER_ensures(g_hk < CR_HL ==> RS_BT(CR_C)[g_hk] == g_hb)
__CPROVER_ensures(OLD(CR_M)->m_body.ch_len == OLD(CR_M->m_body.ch_len) && (g_k < OLD(CR_M->m_body.ch_len) ==> OLD(CR_M)->m_body.ch_ptr[g_k] == g_b))
/* C15: the receive descriptor is lowered exactly when no pipe holds a survey any more */
__CPROVER_ensures((OLD(g_qb.n) == 1) ==> !g_pollr)
__CPROVER_ensures((OLD(g_qb.n) > 1) ==> g_pollr == OLD(g_pollr))
;
#endif

/* ================= resp0_pipe_recv_cb (C11, C13, C07) =================
 * For EVERY body a peer can send and every ttl 1..15 (g_n = number of leading
 * non-end words, modules/xrespond/spec.h):
 *  - malformed (body exhausted before the end word) => disconnected, freed, never delivered;
 *  - no end word within ttl words                   => dropped, NOT disconnected, receive re-armed;
 *  (stated outcome-keyed, see modules/xrespond/spec.h: exactly one outcome + outcome ==> class)
 *  - well formed: the backtrace (n+1 words, <= 60 bytes) is split off the body;
 *      pipe already closed     => abandoned (freed);
 *      a context is waiting    => exactly the first waiting context gets the body (empty
 *                                 header) and captures backtrace + pipe id; next receive armed;
 *      nobody waiting          => the survey stays on the pipe (header = backtrace), the pipe
 *                                 becomes receivable, socket readable; NO new receive (back-pressure). */
#define RC_P ((resp0_pipe *) arg)
#define RC_S (((resp0_pipe *) arg)->psock)
#define RC_M (((resp0_pipe *) arg)->aio_recv.a_msg)
#define RC_TTL (RC_S->ttl.v)
#define RC_LEN0 OLD(RC_M->m_body.ch_len)
#define RC_CTX ((resp0_ctx *) g_qa.head)
#define RC_CTX0 ((resp0_ctx *) OLD(g_qa.head))
#ifdef RC_RECV_FAILED
static void resp0_pipe_recv_cb(void *arg)
__CPROVER_requires(__CPROVER_is_fresh(arg, sizeof(struct resp0_pipe)) && __CPROVER_is_fresh(RC_S, sizeof(struct resp0_sock)) && VP_NO_LOCK_HELD)
/* state invariant of respond.c: the message slot of aio_recv is emptied before every nni_pipe_recv, and a failed receive leaves it empty */
__CPROVER_requires(RC_P->aio_recv.a_result != 0 && RC_FAILED_MSG)
/* the same structural state invariants as in the main case (the code after the early return is not executed, but the tool still walks it) */
__CPROVER_requires(g_qa_addr == &RC_S->recvq && g_qb_addr == &RC_S->recvpipes && RS_LISTS_PRE(sizeof(struct resp0_ctx), sizeof(struct resp0_pipe)) && g_qb.n < 8)
__CPROVER_requires(g_qa.n > 0 ==> __CPROVER_is_fresh(RC_CTX->raio, sizeof(nni_aio)))
__CPROVER_requires(g_pollr_addr == &RC_S->readable && g_pollw_addr == &RC_S->writable)
__CPROVER_assigns(VP_PROTO_GHOST_LIST)
__CPROVER_ensures(VP_NO_LOCK_HELD)
__CPROVER_ensures(g_pipe_close_calls == OLD(g_pipe_close_calls) + 1 && g_pipe_close_last == RC_P->npipe && g_pipe_recv_calls == OLD(g_pipe_recv_calls) && g_fin_calls == OLD(g_fin_calls) && g_qa.n == OLD(g_qa.n) && g_qb.n == OLD(g_qb.n))
;
#else
/* outcomes (bookkeeping only) */
#define RC_X_DISC (g_pipe_close_calls == OLD(g_pipe_close_calls) + 1)
#define RC_X_DROP (g_pipe_recv_calls == OLD(g_pipe_recv_calls) + 1 && g_fin_calls == OLD(g_fin_calls))
#define RC_X_HELD (g_qb.n == OLD(g_qb.n) + 1)
#define RC_X_DELIV (g_fin_calls == OLD(g_fin_calls) + 1)
#define RC_X_ABANDON (!RC_X_DISC && !RC_X_DROP && !RC_X_HELD && !RC_X_DELIV)
#define RC_HL (OLD(RC_M)->m_header_len)
#define RC_BL (RC_CTX0->btrace_len)
static void resp0_pipe_recv_cb(void *arg)
__CPROVER_requires(__CPROVER_is_fresh(arg, sizeof(struct resp0_pipe)) && __CPROVER_is_fresh(RC_S, sizeof(struct resp0_sock)) && RS_TTL_OK(RC_S) && VP_NO_LOCK_HELD)
__CPROVER_requires(RC_P->aio_recv.a_result == 0 && SV_WIRE_MSG(RC_M) && CH_GHOST_PRE(&RC_M->m_body))
__CPROVER_requires(BT_BODY_GHOSTS(RC_M))
/* queue A = contexts blocked in receive (head: a context of its own with a pending receive aio), queue B = receivable pipes */
__CPROVER_requires(g_qa_addr == &RC_S->recvq && g_qb_addr == &RC_S->recvpipes && RS_LISTS_PRE(sizeof(struct resp0_ctx), sizeof(struct resp0_pipe)) && g_qb.n < 8)
__CPROVER_requires(g_qa.n > 0 ==> (__CPROVER_is_fresh(RC_CTX->raio, sizeof(nni_aio)) && g_raio == RC_CTX->raio))
__CPROVER_requires(VP_AIO_NOT_QUEUED((nni_aio *) arg))
__CPROVER_requires(g_pollr_addr == &RC_S->readable && g_pollw_addr == &RC_S->writable)
__CPROVER_assigns(RC_P->aio_recv.a_msg, VP_PROTO_GHOST_LIST, VP_SYNC_GHOSTS, g_free_calls)
__CPROVER_assigns(*RC_M; g_qa.n > 0: RC_CTX->raio, RC_CTX->btrace_len, RC_CTX->pipe_id, __CPROVER_object_from(RC_CTX->btrace), RC_CTX->raio->a_msg)
__CPROVER_frees(RC_M, RC_M->m_body.ch_buf)
__CPROVER_ensures(VP_NO_LOCK_HELD && VP_AIOQS_OK && g_start_calls == OLD(g_start_calls))
/* exactly one outcome, with its bookkeeping:
 *   disconnected (freed) | dropped (freed, NOT disconnected, receive re-armed) | abandoned (pipe closed: freed) |
 *   held on the pipe (nobody waiting: receivable, readable, NO new receive = back-pressure) | delivered to the FIRST waiting context */
__CPROVER_ensures(
    (RC_X_DISC && g_pipe_close_last == RC_P->npipe && __CPROVER_was_freed(OLD(RC_M)) && RC_P->aio_recv.a_msg == NULL && g_pipe_recv_calls == OLD(g_pipe_recv_calls) && g_fin_calls == OLD(g_fin_calls) && g_qa.n == OLD(g_qa.n) && g_qb.n == OLD(g_qb.n))
 || (g_pipe_close_calls == OLD(g_pipe_close_calls) && RC_X_DROP && g_pipe_recv_pipe == RC_P->npipe && g_pipe_recv_aio == &RC_P->aio_recv && __CPROVER_was_freed(OLD(RC_M)) && RC_P->aio_recv.a_msg == NULL && g_qa.n == OLD(g_qa.n) && g_qb.n == OLD(g_qb.n))
 || (g_pipe_close_calls == OLD(g_pipe_close_calls) && g_pipe_recv_calls == OLD(g_pipe_recv_calls) && g_fin_calls == OLD(g_fin_calls) && g_qa.n == OLD(g_qa.n) && g_qb.n == OLD(g_qb.n) && RC_P->closed && __CPROVER_was_freed(OLD(RC_M)) && RC_P->aio_recv.a_msg == NULL)
 || (g_pipe_close_calls == OLD(g_pipe_close_calls) && g_pipe_recv_calls == OLD(g_pipe_recv_calls) && g_fin_calls == OLD(g_fin_calls) && g_qa.n == OLD(g_qa.n) && RC_X_HELD && !RC_P->closed && OLD(g_qa.n) == 0 && g_last_app == (nni_aio *) arg && g_pollr && !__CPROVER_was_freed(OLD(RC_M)) && RC_P->aio_recv.a_msg == OLD(RC_M))
 || (g_pipe_close_calls == OLD(g_pipe_close_calls) && g_pipe_recv_calls == OLD(g_pipe_recv_calls) + 1 && g_pipe_recv_pipe == RC_P->npipe && g_pipe_recv_aio == &RC_P->aio_recv && RC_X_DELIV && g_qa.n == OLD(g_qa.n) - 1 && g_qb.n == OLD(g_qb.n) && !RC_P->closed && OLD(g_qa.n) > 0 && !__CPROVER_was_freed(OLD(RC_M)) && RC_P->aio_recv.a_msg == NULL))
/* disconnected ==> GARBAGE: fewer than ttl complete words and none of them is the end word */
__CPROVER_ensures(RC_X_DISC ==> (RC_LEN0 / 4 < (size_t) RC_TTL && BT_NO_END_BELOW(RC_LEN0 / 4)))
/* dropped ==> TOOMANY: the first ttl words exist and none is the end word */
__CPROVER_ensures((RC_X_DROP && !RC_X_DISC) ==> (RC_LEN0 / 4 >= (size_t) RC_TTL && BT_NO_END_BELOW(RC_TTL)))
/* held ==> ACCEPT: header = backtrace = words 0..n (n + 1 <= ttl words, <= 60 bytes), word n is the first with the high bit; body = rest */
__CPROVER_ensures(RC_X_HELD ==> (RC_HL >= 4 && RC_HL % 4 == 0 && RC_HL / 4 <= (size_t) RC_TTL && RC_HL <= RC_LEN0 && OLD(RC_M)->m_body.ch_len == RC_LEN0 - RC_HL && OLD(RC_M)->m_pipe == RC_P->id))
__CPROVER_ensures((RC_X_HELD && g_k < RC_HL) ==> HDR(OLD(RC_M))[g_k] == g_b)
__CPROVER_ensures(RC_X_HELD ==> (BT_NO_END_BELOW(RC_HL / 4 - 1) && (g_k == RC_HL - 4 ==> BT_HB(g_b))))
__CPROVER_ensures((RC_X_HELD && g_k >= RC_HL && g_k < RC_LEN0) ==> OLD(RC_M)->m_body.ch_ptr[g_k - RC_HL] == g_b)
/* delivered ==> ACCEPT: exactly the first waiting context completes, once, with the body (empty header); it captures backtrace + pipe id */
__CPROVER_ensures(RC_X_DELIV ==> (g_fin_last == g_raio && g_fin_last_rv == 0 && g_fin_last_msg == OLD(RC_M) && g_fin_last_count == OLD(RC_M)->m_body.ch_len && OLD(RC_M)->m_header_len == 0 && OLD(RC_M)->m_pipe == RC_P->id && RC_CTX0->raio == NULL && RC_CTX0->pipe_id == RC_P->id))
__CPROVER_ensures(RC_X_DELIV ==> (RC_BL >= 4 && RC_BL % 4 == 0 && RC_BL / 4 <= (size_t) RC_TTL && RC_BL <= RC_LEN0 && OLD(RC_M)->m_body.ch_len == RC_LEN0 - RC_BL))
__CPROVER_ensures((RC_X_DELIV && g_k < RC_BL) ==> RS_BT(RC_CTX0)[g_k] == g_b)
__CPROVER_ensures(RC_X_DELIV ==> (BT_NO_END_BELOW(RC_BL / 4 - 1) && (g_k == RC_BL - 4 ==> BT_HB(g_b))))
__CPROVER_ensures((RC_X_DELIV && g_k >= RC_BL && g_k < RC_LEN0) ==> OLD(RC_M)->m_body.ch_ptr[g_k - RC_BL] == g_b)
;
#endif

/* ================= socket entry points: the socket's own context (C15 descriptors) ================= */
#define SS_S ((resp0_sock *) arg)
#define SS_C (&((resp0_sock *) arg)->ctx)
static void resp0_sock_send(void *arg, nni_aio *aio)
__CPROVER_requires(__CPROVER_is_fresh(arg, sizeof(struct resp0_sock)) && __CPROVER_pointer_in_range_dfcc(SS_S, SS_C->sock, SS_S) && VP_NO_LOCK_HELD)
__CPROVER_requires(__CPROVER_is_fresh(aio, sizeof(nni_aio)) && MSG_PRE(CS_M) && CS_M->m_refcnt.v == 1)
__CPROVER_requires(SS_C->btrace_len <= RS_BTCAP && SS_C->saio == NULL)
__CPROVER_requires(g_hk < SS_C->btrace_len ==> g_hb == RS_BT(SS_C)[g_hk])
__CPROVER_requires(g_idm_addr == &SS_S->pipes && g_idm_key == (uint64_t) SS_C->pipe_id)
__CPROVER_requires(__CPROVER_is_fresh(g_sv.idm_val, sizeof(struct resp0_pipe)) && g_qa_addr == &CS_P->sendq)
__CPROVER_requires((g_qa.n == 0 || __CPROVER_is_fresh(g_qa.head, sizeof(struct resp0_ctx))) && VP_AIOQS_OK && g_qa.n < 8 && VP_AIO_NOT_QUEUED((nni_aio *) SS_C))
__CPROVER_requires(g_pollr_addr == &SS_S->readable && g_pollw_addr == &SS_S->writable)
__CPROVER_assigns(aio->a_msg, aio->a_result, aio->a_count, SS_C->pipe_id, SS_C->btrace_len, SS_C->saio, SS_C->spipe, VP_PROTO_GHOST_LIST, VP_SV_GHOST_LIST, VP_SYNC_GHOSTS, g_free_calls)
__CPROVER_assigns(*CS_M, CS_P->busy, CS_P->aio_send.a_msg)
__CPROVER_frees(CS_M, CS_M->m_body.ch_buf)
__CPROVER_ensures(VP_NO_LOCK_HELD && VP_AIOQS_OK)
/* C15 non-blocking rule on the socket entry point (KNOWN FINDING on the current tree, see resp0_ctx_send) */
__CPROVER_ensures((OLD(SS_C->btrace_len) == 0 || !CS_HAVE_PIPE || !OLD(CS_P->busy)) ==> g_start_calls == OLD(g_start_calls))
/* same state machine as a context ... */
__CPROVER_ensures((OLD(SS_C->btrace_len) == 0 && !CS_REFUSED) ==> (g_fin_calls == OLD(g_fin_calls) + 1 && g_fin_last_rv == NNG_ESTATE && aio->a_msg == OLD(CS_M) && g_pipe_send_calls == OLD(g_pipe_send_calls)))
__CPROVER_ensures((OLD(SS_C->btrace_len) > 0 && !CS_REFUSED && CS_HAVE_PIPE && !OLD(CS_P->busy)) ==> (g_pipe_send_calls == OLD(g_pipe_send_calls) + 1 && g_pipe_send_pipe == CS_P->npipe && g_pipe_send_msg == OLD(CS_M) && OLD(CS_M)->m_header_len == OLD(SS_C->btrace_len) && g_fin_calls == OLD(g_fin_calls) + 1 && g_fin_last_rv == 0 && SS_C->btrace_len == 0))
__CPROVER_ensures((OLD(SS_C->btrace_len) > 0 && !CS_REFUSED && CS_HAVE_PIPE && !OLD(CS_P->busy) && g_hk < OLD(SS_C->btrace_len)) ==> HDR(OLD(CS_M))[g_hk] == g_hb)
__CPROVER_ensures((OLD(SS_C->btrace_len) > 0 && !CS_REFUSED && !CS_HAVE_PIPE) ==> (__CPROVER_was_freed(OLD(CS_M)) && g_fin_calls == OLD(g_fin_calls) + 1 && g_fin_last_rv == 0 && SS_C->btrace_len == 0))
__CPROVER_ensures((OLD(SS_C->btrace_len) > 0 && CS_HAVE_PIPE && OLD(CS_P->busy)) ==> (g_start_calls == OLD(g_start_calls) + 1 && g_fin_calls == OLD(g_fin_calls) && aio->a_msg == OLD(CS_M) && g_qa.n == OLD(g_qa.n) + (g_aio_start_ok ? 1 : 0)))
__CPROVER_ensures(CS_REFUSED ==> (aio->a_msg == OLD(CS_M) && g_fin_calls == OLD(g_fin_calls) && g_pipe_send_calls == OLD(g_pipe_send_calls) && SS_C->btrace_len == OLD(SS_C->btrace_len)))
/* ... and (C15) once a response was accepted the send descriptor is lowered: only one response per survey */
__CPROVER_ensures((g_fin_calls > OLD(g_fin_calls) && g_fin_last_rv == 0) ==> !g_pollw)
;

/* ================= resp0_pipe_start ================= */
#define PS_P ((resp0_pipe *) arg)
#define PS_S (((resp0_pipe *) arg)->psock)
static int resp0_pipe_start(void *arg)
__CPROVER_requires(__CPROVER_is_fresh(arg, sizeof(struct resp0_pipe)) && __CPROVER_is_fresh(PS_S, sizeof(struct resp0_sock)) && VP_NO_LOCK_HELD)
__CPROVER_requires(g_idm_addr == &PS_S->pipes && g_idm_key == (uint64_t) PS_P->id)
__CPROVER_assigns(VP_PROTO_GHOST_LIST, VP_SV_GHOST_LIST, VP_SYNC_GHOSTS)
__CPROVER_ensures(VP_NO_LOCK_HELD)
__CPROVER_ensures(g_pipe_peer != NNI_PROTO_SURVEYOR_V0 ==> (RV == NNG_EPROTO && g_sv.idm_set_calls == OLD(g_sv.idm_set_calls) && g_pipe_recv_calls == OLD(g_pipe_recv_calls)))
__CPROVER_ensures((g_pipe_peer == NNI_PROTO_SURVEYOR_V0 && g_idm_set_rv != 0) ==> (RV == g_idm_set_rv && g_pipe_recv_calls == OLD(g_pipe_recv_calls)))
__CPROVER_ensures((g_pipe_peer == NNI_PROTO_SURVEYOR_V0 && g_idm_set_rv == 0) ==> (RV == 0 && g_sv.idm_present && g_sv.idm_val == arg && g_pipe_recv_calls == OLD(g_pipe_recv_calls) + 1 && g_pipe_recv_pipe == PS_P->npipe && g_pipe_recv_aio == &PS_P->aio_recv))
;
/* clang-format on */
#endif
