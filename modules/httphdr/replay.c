/* Native replay driver for the HTTP line parsers of src/supplemental/http/http_msg.c
 * (http_parse_header, http_req_parse_line, http_res_parse_line): rebuilds the line of a
 * CBMC counterexample (entry snapshot vp_in_l0..15 = the bytes of the line object,
 * vp_in_cap = HL_CAP, vp_in_code = the connection's status), runs the REAL function under
 * ASan/UBSan on a heap block of exactly strlen+1 bytes and evaluates the postconditions of
 * modules/httphdr/contracts.h in plain C.  The http_conn.c stores (replaced by their
 * ASSUMED contracts in the CBMC units) are recording stubs here; the answers the
 * environment may give (header store / target store: 0 or NNG_ENOMEM; URI canonifier:
 * accepted or refused) are all tried, each run judged by the same contract. */
#include "vp_native.h"
#include "core/nng_impl.h"
#include "supplemental/http/http_api.h"

static size_t      st_calls, ver_calls, meth_calls, uri_calls, add_calls, canon_calls;
static unsigned    st_code;
static int         conn_code; /* nng_http_status is a signed enum: any int may be in the structure */
static const char *st_reason, *ver_arg, *meth_arg, *uri_arg, *uri_query, *add_key, *add_val;
static int         ver_rv, add_rv, uri_rv, canon_rv;
static char        ver_seen[32], key_seen[64], val_seen[64], meth_seen[64], uri_seen[64], reason_seen[64];

#define VP_UNREACH(name)                                                          \
	do {                                                                          \
		printf("REPLAY-FAIL: %s reached (outside the replayed function)\n", name); \
		exit(1);                                                                  \
	} while (0)
static void
keep(char *dst, size_t n, const char *s)
{
	snprintf(dst, n, "%s", s ? s : "(null)");
}
static int
vers_known(const char *v)
{
	return (v == NULL || !strcmp(v, "HTTP/1.1") || !strcmp(v, "HTTP/2") || !strcmp(v, "HTTP/3") || !strcmp(v, "HTTP/1.0") || !strcmp(v, "HTTP/0.9"));
}
void         *nni_zalloc(size_t sz) { return (sz > 0 ? calloc(1, sz) : NULL); }
void          nni_free(void *p, size_t sz) { (void) sz; free(p); }
void          nni_strfree(char *s) { free(s); }
nng_err       nni_url_canonify_uri(char *s) { (void) strlen(s); canon_calls++; return (canon_rv); }
nni_http_req *nni_http_conn_req(nni_http_conn *c) { (void) c; VP_UNREACH("nni_http_conn_req"); }
nni_http_res *nni_http_conn_res(nni_http_conn *c) { (void) c; VP_UNREACH("nni_http_conn_res"); }
nng_err
nni_http_add_header(nng_http *c, const char *k, const char *v)
{
	(void) c;
	add_calls++;
	add_key = k, add_val = v;
	keep(key_seen, sizeof(key_seen), k);
	keep(val_seen, sizeof(val_seen), v);
	return (add_rv);
}
int
nni_http_set_version(nng_http *c, const char *v)
{
	(void) c;
	ver_calls++;
	ver_arg = v;
	keep(ver_seen, sizeof(ver_seen), v);
	ver_rv = vers_known(v) ? 0 : NNG_ENOTSUP;
	return (ver_rv);
}
void
nni_http_set_method(nng_http *c, const char *m)
{
	(void) c;
	meth_calls++;
	meth_arg = m;
	keep(meth_seen, sizeof(meth_seen), m);
}
void
nni_http_set_status(nng_http *c, nng_http_status s, const char *r)
{
	(void) c;
	st_calls++;
	st_code = (uint16_t) s, st_reason = r;
	conn_code = (int) s;
	keep(reason_seen, sizeof(reason_seen), r);
}
nng_http_status nni_http_get_status(nng_http *c) { (void) c; return ((nng_http_status) conn_code); }
nng_err
nni_http_set_uri(nng_http *c, const char *u, const char *q)
{
	(void) c;
	uri_calls++;
	uri_arg = u, uri_query = q;
	keep(uri_seen, sizeof(uri_seen), u);
	return (uri_rv);
}
void *nni_list_first(const nni_list *l) { (void) l; VP_UNREACH("nni_list_first"); }
void  nni_list_init_offset(nni_list *l, size_t o) { (void) l; (void) o; VP_UNREACH("nni_list_init_offset"); }
void  nni_list_node_remove(nni_list_node *n) { (void) n; VP_UNREACH("nni_list_node_remove"); }

#include "supplemental/http/http_msg.c" /* the real file, via -I/repo/src */
#include "modules/httphdr/snap.h"       /* VP_SNAP_NLB */

#define IS(name) (strcmp(fn, name) == 0)
#define IS_DIG(b) ((uint8_t) (b) >= '0' && (uint8_t) (b) <= '9')
#define IS_OWS(b) ((b) == ' ' || (b) == '\t')

static void
show(const char *tag, const uint8_t *b, size_t n)
{
	printf("%s\"", tag);
	for (size_t i = 0; i < n; i++) {
		if (b[i] >= 0x20 && b[i] < 0x7f && b[i] != '"' && b[i] != '\\')
			printf("%c", b[i]);
		else
			printf("\\x%02X", b[i]);
	}
	printf("\"");
}

static uint8_t orig[64];
static size_t  n0;

static void
reset_env(void)
{
	st_calls = ver_calls = meth_calls = uri_calls = add_calls = canon_calls = 0;
	st_code = 0, st_reason = ver_arg = meth_arg = uri_arg = uri_query = add_key = add_val = NULL;
	ver_rv = 0;
}

static size_t
first_at(size_t from, uint8_t ch)
{
	size_t i = from;
	while (i < n0 && orig[i] != ch)
		i++;
	return (i);
}

static void
run_res(void)
{
	size_t   s1 = first_at(0, ' '), s2 = s1 < n0 ? first_at(s1 + 1, ' ') : n0;
	uint8_t  d1 = s1 + 1 <= n0 ? orig[s1 + 1] : 0, d2 = s1 + 2 <= n0 ? orig[s1 + 2] : 0, d3 = s1 + 3 <= n0 ? orig[s1 + 3] : 0;
	int      well = s1 < n0 && s2 == s1 + 4 && s2 < n0 && IS_DIG(d1) && IS_DIG(d2) && IS_DIG(d3) && d1 != '0';
	unsigned code = (d1 - '0') * 100 + (d2 - '0') * 10 + (d3 - '0');
	char    *line = malloc(n0 + 1); /* exactly the string: a look-ahead past the terminator is reported */
	memcpy(line, orig, n0 + 1);
	reset_env();
	conn_code = 0;
	int rv    = http_res_parse_line(NULL, (uint8_t *) line);
	show("http_res_parse_line(", orig, n0);
	printf(") -> %d; status store called %zu times (code %u), version store called %zu times", rv, st_calls, st_code, ver_calls);
	if (ver_calls)
		printf(" with \"%s\"", ver_seen);
	printf("; contract: %s\n", well ? "status-line (HTTP-version SP 3DIGIT SP reason)" : "not a status-line, NNG_EPROTO and nothing stored");
	if (rv == 0)
		VP_EXPECT(well);
	if (well) {
		VP_EXPECT(st_calls == 1 && st_code == code && st_reason == line + s2 + 1);
		VP_EXPECT(ver_calls == 1 && ver_arg == line && rv == ver_rv);
		VP_EXPECT(line[s1] == 0 && line[s2] == 0);
		for (size_t k = 0; k <= n0; k++)
			if (k != s1 && k != s2)
				VP_EXPECT((uint8_t) line[k] == orig[k]);
	} else {
		VP_EXPECT(rv == NNG_EPROTO && st_calls == 0 && ver_calls == 0);
	}
	free(line);
}

static void
run_hdr(int arv)
{
	size_t c = first_at(0, ':'), v0 = n0, v1 = n0;
	if (c < n0) {
		v0 = c + 1;
		while (v0 < n0 && IS_OWS(orig[v0]))
			v0++;
		v1 = n0;
		while (v1 > v0 && IS_OWS(orig[v1 - 1]))
			v1--;
	}
	char *line = malloc(n0 + 1);
	memcpy(line, orig, n0 + 1);
	reset_env();
	add_rv = arv;
	int rv = http_parse_header(NULL, line);
	show("http_parse_header(", orig, n0);
	printf(") [header store answers %d] -> %d; header store called %zu times", arv, rv, add_calls);
	if (add_calls)
		printf(" with name \"%s\" value \"%s\"", key_seen, val_seen);
	printf("\n");
	if (c == n0) {
		VP_EXPECT(rv == NNG_EPROTO && add_calls == 0);
		VP_EXPECT(memcmp(line, orig, n0 + 1) == 0);
	}
	if (c == 0 && n0 > 0)
		VP_EXPECT(rv == NNG_EPROTO && add_calls == 0);
	if (0 < c && c < n0) {
		VP_EXPECT(add_calls == 1 && add_key == line && add_val == line + v0 && rv == arv);
		VP_EXPECT(line[c] == 0 && line[v1] == 0);
		for (size_t k = 0; k <= n0; k++)
			if (k != c && !(v1 <= k && k < n0))
				VP_EXPECT((uint8_t) line[k] == orig[k]);
		/* what the store saw: the name and the trimmed value */
		VP_EXPECT(strlen(key_seen) == c && memcmp(key_seen, orig, c) == 0);
		VP_EXPECT(strlen(val_seen) == v1 - v0 && memcmp(val_seen, orig + v0, v1 - v0) == 0);
	}
	free(line);
}

static void
run_req(int code0, int crv, int urv)
{
	size_t s1 = first_at(0, ' '), s2 = s1 < n0 ? first_at(s1 + 1, ' ') : n0;
	int    well = 0 < s1 && s1 + 1 < s2 && s2 < n0;
	char  *line = malloc(n0 + 1);
	memcpy(line, orig, n0 + 1);
	reset_env();
	conn_code = code0;
	canon_rv  = crv;
	uri_rv    = urv;
	int rv    = http_req_parse_line(NULL, line);
	show("http_req_parse_line(", orig, n0);
	printf(") [status before %d, canonifier answers %d, target store answers %d] -> %d; status store %zu (code %u), method store %zu, target store %zu, version store %zu\n",
	    code0, crv, urv, rv, st_calls, st_code, meth_calls, uri_calls, ver_calls);
#define NOSTORE (meth_calls == 0 && uri_calls == 0)
#define STATUS(c) (st_calls == 1 && st_code == (c) && st_reason == NULL)
	if (code0 >= 400) {
		VP_EXPECT(rv == 0 && st_calls == 0 && NOSTORE && ver_calls == 0 && conn_code == code0);
		VP_EXPECT(memcmp(line, orig, n0 + 1) == 0);
	} else if (!well) {
		VP_EXPECT(rv == 0 && STATUS(NNG_HTTP_STATUS_BAD_REQUEST) && NOSTORE);
	} else {
		VP_EXPECT(canon_calls == 1 && line[s1] == 0 && line[s2] == 0);
		if (crv != 0) {
			VP_EXPECT(rv == 0 && STATUS(NNG_HTTP_STATUS_BAD_REQUEST) && NOSTORE);
		} else if (!vers_known((const char *) orig + s2 + 1)) {
			VP_EXPECT(rv == 0 && STATUS(NNG_HTTP_STATUS_HTTP_VERSION_NOT_SUPP) && NOSTORE);
		} else {
			VP_EXPECT(st_calls == 0 && meth_calls == 1 && meth_arg == line);
			VP_EXPECT(uri_calls == 1 && uri_arg == line + s1 + 1 && uri_query == NULL && rv == urv);
			VP_EXPECT(ver_calls == 1 && ver_arg == line + s2 + 1);
		}
		for (size_t k = 0; k <= n0; k++)
			if (k < s1 || k > s2)
				VP_EXPECT((uint8_t) line[k] == orig[k]);
	}
	free(line);
}

int
main(int argc, char **argv)
{
	if (argc < 3) {
		fprintf(stderr, "usage: replay <inputs> <function>\n");
		return 2;
	}
	vp_load(argv[1]);
	const char *fn = argv[2];
	if (!vp_has("vp_in_l0")) {
		printf("REPLAY-RESULT: skipped (trace has no entry snapshot)\n");
		return 3;
	}
	size_t cap = vp_u64("vp_in_cap", 12);
	if (cap >= VP_SNAP_NLB)
		cap = VP_SNAP_NLB - 1;
	for (size_t i = 0; i <= cap; i++) {
		char k[24];
		snprintf(k, sizeof(k), "vp_in_l%zu", i);
		orig[i] = (uint8_t) vp_u64(k, 0);
	}
	for (n0 = 0; n0 <= cap && orig[n0] != 0; n0++)
		;
	if (n0 > cap) {
		printf("REPLAY-RESULT: skipped (precondition: a terminated string of at most %zu bytes)\n", cap);
		return 3;
	}
	if (IS("http_res_parse_line")) {
		run_res();
	} else if (IS("http_parse_header")) {
		run_hdr(0);
		run_hdr(NNG_ENOMEM);
	} else if (IS("http_req_parse_line")) {
		int code0 = (int) (int64_t) vp_u64("vp_in_code", 0);
		if (code0 < 0) {
			/* CBMC gives the enum nng_http_status a signed type, gcc an unsigned one: a "negative"
			 * status is below 400 for the one and above for the other.  No stored status has the
			 * top bit set; take the representative of the class the counterexample is in (< 400). */
			printf("note: status before = %d in the counterexample (signed enum): replayed as 0\n", code0);
			code0 = 0;
		}
		run_req(code0, 0, 0);
		run_req(code0, NNG_EINVAL, 0);
		run_req(code0, 0, NNG_ENOMEM);
	} else {
		printf("REPLAY-RESULT: skipped (no native driver for %s)\n", fn);
		return 3;
	}
	VP_DONE();
}
