/* Contracts (redeclarations after the definitions).  See spec.h for the
 * sources of the specification. */
#ifndef VP_HTTPHDR_CONTRACTS_H
#define VP_HTTPHDR_CONTRACTS_H
/* clang-format off */
#define RV  __CPROVER_return_value
#define OLD __CPROVER_old
#define LN  ((char *) line)
#ifdef HH_COVER
#define COVER(c) __CPROVER_ensures(!(c))
#else
#define COVER(c)
#endif

/* ======================================================================
 * ASSUMED contracts of http_conn.c / url.c functions, used ONLY to replace
 * calls inside the parser units (spec.json "assumes").  They record the
 * call in ghosts, so that the parser's postcondition can say what was
 * stored.  Separate units check the real functions where that was feasible
 * (set_version_real, hdr_* units).
 * ====================================================================== */
void nni_http_set_status(nng_http *conn, nng_http_status status, const char *reason)
__CPROVER_requires(conn != NULL)
__CPROVER_assigns(conn->code, conn->rsn, g_st_calls, g_st_code, g_st_reason)
__CPROVER_ensures(conn->code == status)
__CPROVER_ensures(g_st_calls == OLD(g_st_calls) + 1 && g_st_code == (uint16_t) status && g_st_reason == reason)
;

/* result: 0 exactly for the five known version strings (NULL means 1.1) */
#define SETVER_RV(vers) (((vers) == NULL || VERS_KNOWN(vers)) ? 0 : NNG_ENOTSUP)
int nni_http_set_version(nng_http *conn, const char *vers)
__CPROVER_requires(conn != NULL)
__CPROVER_assigns(conn->vers, g_ver_calls, g_ver_arg, g_ver_rv)
__CPROVER_ensures(RV == SETVER_RV(vers) && g_ver_rv == RV)
__CPROVER_ensures(g_ver_calls == OLD(g_ver_calls) + 1 && g_ver_arg == vers)
;

void nni_http_set_method(nng_http *conn, const char *method)
__CPROVER_requires(conn != NULL)
__CPROVER_assigns(g_meth_calls, g_meth_arg)
__CPROVER_ensures(g_meth_calls == OLD(g_meth_calls) + 1 && g_meth_arg == method)
;

nng_err nni_http_set_uri(nng_http *conn, const char *uri, const char *query)
__CPROVER_requires(conn != NULL && uri != NULL)
__CPROVER_assigns(conn->uri, g_uri_calls, g_uri_arg, g_uri_query, g_uri_rv)
__CPROVER_ensures(g_uri_calls == OLD(g_uri_calls) + 1 && g_uri_arg == uri && g_uri_query == query)
__CPROVER_ensures(RV == g_uri_rv && (g_uri_rv == 0 || g_uri_rv == NNG_ENOMEM))
;

/* the header store: may touch both entities' header storage and the Host
 * buffer, never the "parsed" flags; the result is recorded, the first
 * failure is sticky in g_hdr_err */
nng_err nni_http_add_header(nng_http *conn, const char *key, const char *val)
__CPROVER_requires(conn != NULL && key != NULL && val != NULL)
__CPROVER_assigns(conn->req.data, conn->res.data, conn->host, conn->host_header, g_add_calls, g_add_key, g_add_val, g_add_rv, g_hdr_err)
__CPROVER_ensures(conn->req.data.parsed == OLD(conn->req.data.parsed) && conn->res.data.parsed == OLD(conn->res.data.parsed))
__CPROVER_ensures(g_add_calls == OLD(g_add_calls) + 1 && g_add_key == key && g_add_val == val)
__CPROVER_ensures(RV == g_add_rv && (g_add_rv == 0 || g_add_rv == NNG_ENOMEM))
__CPROVER_ensures(g_hdr_err == (OLD(g_hdr_err) != 0 ? OLD(g_hdr_err) : g_add_rv))
;

/* ======================================================================
 * http_res_parse_line: status-line = HTTP-version SP 3DIGIT SP [reason]
 * (RFC 9112 section 4, RFC 9110 section 15).  Input: any C string of at most
 * HL_CAP bytes, every byte value, terminator = last byte of its object.
 *   accepted (0)  => the line has exactly that form (3 digits, 100..999);
 *   that form     => status and reason are handed to the status store
 *                    exactly (code = the three digits, reason = the text
 *                    after the second SP), version = text before the first
 *                    SP, result = result of the version store;
 *   anything else => NNG_EPROTO and nothing stored.
 * ====================================================================== */
#define RES_WELL (g_s1 < g_n && g_s2 == g_s1 + 4 && g_s2 < g_n && IS_DIG(g_d1) && IS_DIG(g_d2) && IS_DIG(g_d3) && g_d1 != '0')
#define RES_CODE ((g_d1 - '0') * 100 + (g_d2 - '0') * 10 + (g_d3 - '0'))
#define TWO_SP_PRE \
	__CPROVER_requires(STR_EXACT(line, g_n, HL_CAP, vp0)) \
	__CPROVER_requires(FIRST_AT(line, 0, g_n, g_s1, ' ', HL_CAP, vp1)) \
	__CPROVER_requires(g_s1 < g_n ==> FIRST_AT(line, g_s1 + 1, g_n, g_s2, ' ', HL_CAP, vp2)) \
	__CPROVER_requires(g_s1 == g_n ==> g_s2 == g_n) \
	__CPROVER_requires(g_s1 + 1 <= g_n ==> g_d1 == (uint8_t) LN[g_s1 + 1]) \
	__CPROVER_requires(g_s1 + 2 <= g_n ==> g_d2 == (uint8_t) LN[g_s1 + 2]) \
	__CPROVER_requires(g_s1 + 3 <= g_n ==> g_d3 == (uint8_t) LN[g_s1 + 3]) \
	__CPROVER_requires(g_k <= HL_CAP ==> g_b == (uint8_t) LN[g_k])

static nng_err http_res_parse_line(nng_http *conn, uint8_t *line)
__CPROVER_requires(__CPROVER_is_fresh(conn, sizeof(*conn)))
TWO_SP_PRE
__CPROVER_assigns(__CPROVER_object_whole(line), conn->code, conn->rsn, conn->vers)
__CPROVER_assigns(g_st_calls, g_st_code, g_st_reason, g_ver_calls, g_ver_arg, g_ver_rv)
/* RFC 9110: status-code = 3DIGIT */
__CPROVER_ensures(RV == 0 ==> RES_WELL)
__CPROVER_ensures(RES_WELL ==> (g_st_calls == OLD(g_st_calls) + 1 && g_st_code == RES_CODE && conn->code == RES_CODE && g_st_reason == LN + g_s2 + 1))
__CPROVER_ensures(RES_WELL ==> (g_ver_calls == OLD(g_ver_calls) + 1 && g_ver_arg == LN && RV == SETVER_RV(LN)))
__CPROVER_ensures(RES_WELL ==> (LN[g_s1] == 0 && LN[g_s2] == 0))
__CPROVER_ensures((RES_WELL && g_k <= HL_CAP && g_k != g_s1 && g_k != g_s2) ==> (uint8_t) LN[g_k] == g_b)
__CPROVER_ensures(!RES_WELL ==> (RV == NNG_EPROTO && g_st_calls == OLD(g_st_calls) && g_ver_calls == OLD(g_ver_calls) && conn->code == OLD(conn->code)))
COVER(RV == 0) COVER(RV == NNG_ENOTSUP) COVER(RV == NNG_EPROTO && g_s2 < g_n)
;

/* ======================================================================
 * http_parse_header: field-line = field-name ":" OWS field-value OWS
 * (RFC 9112 section 5), field-name non-empty.  Input: any C string of at most
 * HL_CAP bytes, every byte value.
 *   no ':'           => NNG_EPROTO, line untouched, nothing stored;
 *   ':' first byte   => (empty name) refused, nothing stored;
 *   otherwise        => the header store is called exactly once with
 *                       name = bytes before the first ':' and value = the
 *                       bytes after it without leading / trailing SP, HTAB
 *                       (name and value bytes unchanged), and its result
 *                       is the result.
 * Ghosts (defining equations in the precondition): g_c first ':', g_v0 first
 * non-OWS byte after it, g_v1 end of the trimmed value.
 * ====================================================================== */
static nng_err http_parse_header(nng_http *conn, void *line)
__CPROVER_requires(__CPROVER_is_fresh(conn, sizeof(*conn)))
__CPROVER_requires(STR_EXACT(line, g_n, HL_CAP, vp0))
__CPROVER_requires(FIRST_AT(line, 0, g_n, g_c, ':', HL_CAP, vp1))
__CPROVER_requires(g_c < g_n ==> (g_c < g_v0 && g_v0 <= g_n && !IS_OWS(LN[g_v0])))
__CPROVER_requires(g_c < g_n ==> __CPROVER_forall { size_t vp2; (vp2 < HL_CAP) ==> ((g_c < vp2 && vp2 < g_v0) ==> IS_OWS(LN[vp2])) })
__CPROVER_requires(g_c < g_n ==> (g_v0 <= g_v1 && g_v1 <= g_n && (g_v0 < g_n ==> (g_v0 < g_v1 && !IS_OWS(LN[g_v1 - 1])))))
__CPROVER_requires(g_c < g_n ==> __CPROVER_forall { size_t vp3; (vp3 < HL_CAP) ==> ((g_v1 <= vp3 && vp3 < g_n) ==> IS_OWS(LN[vp3])) })
__CPROVER_requires(g_k <= HL_CAP ==> g_b == (uint8_t) LN[g_k])
__CPROVER_assigns(__CPROVER_object_whole(line))
__CPROVER_assigns(conn->req.data, conn->res.data, conn->host, conn->host_header, g_add_calls, g_add_key, g_add_val, g_add_rv, g_hdr_err)
__CPROVER_ensures(g_c == g_n ==> (RV == NNG_EPROTO && g_add_calls == OLD(g_add_calls)))
__CPROVER_ensures((g_c == g_n && g_k <= HL_CAP) ==> (uint8_t) LN[g_k] == g_b)
/* field-name = token: never empty */
__CPROVER_ensures(g_c == 0 && g_n > 0 ==> (RV == NNG_EPROTO && g_add_calls == OLD(g_add_calls)))
__CPROVER_ensures((0 < g_c && g_c < g_n) ==> (g_add_calls == OLD(g_add_calls) + 1 && g_add_key == LN && g_add_val == LN + g_v0 && RV == g_add_rv))
__CPROVER_ensures((0 < g_c && g_c < g_n) ==> (LN[g_c] == 0 && LN[g_v1] == 0))
__CPROVER_ensures((0 < g_c && g_c < g_n && g_k <= HL_CAP && g_k != g_c && !(g_v1 <= g_k && g_k < g_n)) ==> (uint8_t) LN[g_k] == g_b)
__CPROVER_ensures(conn->req.data.parsed == OLD(conn->req.data.parsed) && conn->res.data.parsed == OLD(conn->res.data.parsed))
COVER(RV == 0 && g_v1 < g_n && g_v0 > g_c + 1) COVER(RV == NNG_ENOMEM) COVER(RV == 0 && g_v0 == g_n)
;

/* ======================================================================
 * http_req_parse_line: request-line = method SP request-target SP
 * HTTP-version (RFC 9112 section 3), each part non-empty.  A server answers an
 * invalid request-line with 400 and an unsupported version with 505; here
 * that means: the status store is called with that code, the result is 0 and
 * neither method nor target are stored.
 *   status already >= 400 => nothing is touched, result 0;
 *   not (1*method SP 1*target SP ...) => 400;
 *   target refused by the URI canonifier => 400;
 *   version not one nng knows (g_ver_rv = result of the version store, which
 *   is 0 exactly for the five known strings) => 505;
 *   otherwise method = bytes before the first SP, target = the (canonified)
 *   bytes between the first and second SP, handed over exactly; result =
 *   result of the target store (NNG_ENOMEM possible).
 * ====================================================================== */
#define REQ_WELL (0 < g_s1 && g_s1 + 1 < g_s2 && g_s2 < g_n)
#define REQ_NOSTORE (g_meth_calls == OLD(g_meth_calls) && g_uri_calls == OLD(g_uri_calls))
#define REQ_STATUS(c) (g_st_calls == OLD(g_st_calls) + 1 && g_st_code == (c) && g_st_reason == NULL)
static nng_err http_req_parse_line(nng_http *conn, void *line)
__CPROVER_requires(__CPROVER_is_fresh(conn, sizeof(*conn)))
TWO_SP_PRE
__CPROVER_assigns(__CPROVER_object_whole(line), conn->code, conn->rsn, conn->vers, conn->uri)
__CPROVER_assigns(g_st_calls, g_st_code, g_st_reason, g_ver_calls, g_ver_arg, g_ver_rv, g_meth_calls, g_meth_arg, g_uri_calls, g_uri_arg, g_uri_query, g_uri_rv, g_canon_calls, g_canon_rv)
__CPROVER_ensures(OLD(conn->code) >= 400 ==> (RV == 0 && g_st_calls == OLD(g_st_calls) && REQ_NOSTORE && g_ver_calls == OLD(g_ver_calls) && conn->code == OLD(conn->code)))
__CPROVER_ensures((OLD(conn->code) >= 400 && g_k <= HL_CAP) ==> (uint8_t) LN[g_k] == g_b)
/* malformed request-line: 400, nothing stored */
__CPROVER_ensures((OLD(conn->code) < 400 && !REQ_WELL) ==> (RV == 0 && REQ_STATUS(NNG_HTTP_STATUS_BAD_REQUEST) && REQ_NOSTORE))
/* well-formed: canonifier called once on the target */
__CPROVER_ensures((OLD(conn->code) < 400 && REQ_WELL) ==> (g_canon_calls == OLD(g_canon_calls) + 1 && LN[g_s1] == 0 && LN[g_s2] == 0))
__CPROVER_ensures((OLD(conn->code) < 400 && REQ_WELL && g_canon_rv != 0) ==> (RV == 0 && REQ_STATUS(NNG_HTTP_STATUS_BAD_REQUEST) && REQ_NOSTORE))
__CPROVER_ensures((OLD(conn->code) < 400 && REQ_WELL && g_canon_rv == 0 && g_ver_rv != 0) ==> (RV == 0 && REQ_STATUS(NNG_HTTP_STATUS_HTTP_VERSION_NOT_SUPP) && REQ_NOSTORE))
__CPROVER_ensures((OLD(conn->code) < 400 && REQ_WELL && g_canon_rv == 0 && g_ver_rv == 0) ==>
    (g_st_calls == OLD(g_st_calls) && g_meth_calls == OLD(g_meth_calls) + 1 && g_meth_arg == LN &&
     g_uri_calls == OLD(g_uri_calls) + 1 && g_uri_arg == LN + g_s1 + 1 && g_uri_query == NULL && RV == g_uri_rv &&
     g_ver_calls == OLD(g_ver_calls) + 1 && g_ver_arg == LN + g_s2 + 1))
/* method and version bytes are not rewritten */
__CPROVER_ensures((OLD(conn->code) < 400 && REQ_WELL && g_k <= HL_CAP && (g_k < g_s1 || g_k > g_s2)) ==> (uint8_t) LN[g_k] == g_b)
COVER(RV == NNG_ENOMEM) COVER(RV == 0 && g_uri_calls != OLD(g_uri_calls)) COVER(g_st_code == 505 && g_st_calls != OLD(g_st_calls))
;
/* clang-format on */
#endif
