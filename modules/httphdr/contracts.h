/* Contracts (redeclarations after the definitions).  See spec.h for the
 * sources of the specification. */
#ifndef VP_HTTPHDR_CONTRACTS_H
#define VP_HTTPHDR_CONTRACTS_H
/* clang-format off */
#define RV  __CPROVER_return_value
#define OLD __CPROVER_old
#define LN  ((char *) line)
#ifdef HH_COVER
#define COVER(c) __CPROVER_ensures(!(c))
#else
#define COVER(c)
#endif

/* ======================================================================
 * ASSUMED contracts of http_conn.c / url.c functions, used ONLY to replace
 * calls inside the parser units (spec.json "assumes").  They record the
 * call in ghosts, so that the parser's postcondition can say what was
 * stored.  Separate units check the real functions where that was feasible
 * (set_version_real, hdr_* units).
 * ====================================================================== */
void nni_http_set_status(nng_http *conn, nng_http_status status, const char *reason)
__CPROVER_requires(conn != NULL)
__CPROVER_assigns(conn->code, conn->rsn, g_st_calls, g_st_code, g_st_reason)
__CPROVER_ensures(conn->code == status)
__CPROVER_ensures(g_st_calls == OLD(g_st_calls) + 1 && g_st_code == (uint16_t) status && g_st_reason == reason)
;

/* result: 0 exactly for the five known version strings (NULL means 1.1) */
#define SETVER_RV(vers) (((vers) == NULL || VERS_KNOWN(vers)) ? 0 : NNG_ENOTSUP)
int nni_http_set_version(nng_http *conn, const char *vers)
__CPROVER_requires(conn != NULL)
__CPROVER_assigns(conn->vers, g_ver_calls, g_ver_arg)
__CPROVER_ensures(RV == SETVER_RV(vers))
__CPROVER_ensures(g_ver_calls == OLD(g_ver_calls) + 1 && g_ver_arg == vers)
;

void nni_http_set_method(nng_http *conn, const char *method)
__CPROVER_requires(conn != NULL)
__CPROVER_assigns(conn->meth, g_meth_calls, g_meth_arg)
__CPROVER_ensures(g_meth_calls == OLD(g_meth_calls) + 1 && g_meth_arg == method)
;

nng_err nni_http_set_uri(nng_http *conn, const char *uri, const char *query)
__CPROVER_requires(conn != NULL && uri != NULL)
__CPROVER_assigns(conn->uri, conn->ubuf, g_uri_calls, g_uri_arg, g_uri_query, g_uri_rv)
__CPROVER_ensures(g_uri_calls == OLD(g_uri_calls) + 1 && g_uri_arg == uri && g_uri_query == query)
__CPROVER_ensures(RV == g_uri_rv && (g_uri_rv == 0 || g_uri_rv == NNG_ENOMEM))
;

/* the header store: may touch both entities' header storage and the Host
 * buffer, never the "parsed" flags; the result is recorded, the first
 * failure is sticky in g_hdr_err */
nng_err nni_http_add_header(nng_http *conn, const char *key, const char *val)
__CPROVER_requires(conn != NULL && key != NULL && val != NULL)
__CPROVER_assigns(conn->req.data, conn->res.data, conn->host, conn->host_header, g_add_calls, g_add_key, g_add_val, g_add_rv, g_hdr_err)
__CPROVER_ensures(conn->req.data.parsed == OLD(conn->req.data.parsed) && conn->res.data.parsed == OLD(conn->res.data.parsed))
__CPROVER_ensures(g_add_calls == OLD(g_add_calls) + 1 && g_add_key == key && g_add_val == val)
__CPROVER_ensures(RV == g_add_rv && (g_add_rv == 0 || g_add_rv == NNG_ENOMEM))
__CPROVER_ensures(g_hdr_err == (OLD(g_hdr_err) != 0 ? OLD(g_hdr_err) : g_add_rv))
;

/* ======================================================================
 * http_res_parse_line: status-line = HTTP-version SP 3DIGIT SP [reason]
 * (RFC 9112 section 4, RFC 9110 section 15).  Input: any C string of at most
 * HL_CAP bytes, every byte value, terminator = last byte of its object.
 *   accepted (0)  => the line has exactly that form (3 digits, 100..999);
 *   that form     => status and reason are handed to the status store
 *                    exactly (code = the three digits, reason = the text
 *                    after the second SP), version = text before the first
 *                    SP, result = result of the version store;
 *   anything else => NNG_EPROTO and nothing stored.
 * ====================================================================== */
#define RES_WELL (g_s1 < g_n && g_s2 == g_s1 + 4 && g_s2 < g_n && IS_DIG(g_d1) && IS_DIG(g_d2) && IS_DIG(g_d3) && g_d1 != '0')
#define RES_CODE ((g_d1 - '0') * 100 + (g_d2 - '0') * 10 + (g_d3 - '0'))
#define TWO_SP_PRE \
	__CPROVER_requires(STR_EXACT(line, g_n, HL_CAP, vp0)) \
	__CPROVER_requires(FIRST_AT(line, 0, g_n, g_s1, ' ', HL_CAP, vp1)) \
	__CPROVER_requires(g_s1 < g_n ==> FIRST_AT(line, g_s1 + 1, g_n, g_s2, ' ', HL_CAP, vp2)) \
	__CPROVER_requires(g_s1 == g_n ==> g_s2 == g_n) \
	__CPROVER_requires(g_s1 + 1 <= g_n ==> g_d1 == (uint8_t) LN[g_s1 + 1]) \
	__CPROVER_requires(g_s1 + 2 <= g_n ==> g_d2 == (uint8_t) LN[g_s1 + 2]) \
	__CPROVER_requires(g_s1 + 3 <= g_n ==> g_d3 == (uint8_t) LN[g_s1 + 3]) \
	__CPROVER_requires(g_k <= g_n ==> g_b == (uint8_t) LN[g_k])

static nng_err http_res_parse_line(nng_http *conn, uint8_t *line)
__CPROVER_requires(__CPROVER_is_fresh(conn, sizeof(*conn)))
TWO_SP_PRE
__CPROVER_assigns(__CPROVER_object_whole(line), conn->code, conn->rsn, conn->vers)
__CPROVER_assigns(g_st_calls, g_st_code, g_st_reason, g_ver_calls, g_ver_arg)
/* RFC 9110: status-code = 3DIGIT */
__CPROVER_ensures(RV == 0 ==> RES_WELL)
__CPROVER_ensures(RES_WELL ==> (g_st_calls == OLD(g_st_calls) + 1 && g_st_code == RES_CODE && conn->code == RES_CODE && g_st_reason == LN + g_s2 + 1))
__CPROVER_ensures(RES_WELL ==> (g_ver_calls == OLD(g_ver_calls) + 1 && g_ver_arg == LN && RV == SETVER_RV(LN)))
__CPROVER_ensures(RES_WELL ==> (LN[g_s1] == 0 && LN[g_s2] == 0))
__CPROVER_ensures((RES_WELL && g_k <= g_n && g_k != g_s1 && g_k != g_s2) ==> (uint8_t) LN[g_k] == g_b)
__CPROVER_ensures(!RES_WELL ==> (RV == NNG_EPROTO && g_st_calls == OLD(g_st_calls) && g_ver_calls == OLD(g_ver_calls) && conn->code == OLD(conn->code)))
COVER(RV == 0) COVER(RV == NNG_ENOTSUP) COVER(RV == NNG_EPROTO && g_s2 < g_n)
;
/* clang-format on */
#endif
