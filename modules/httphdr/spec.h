/* Spec macros and module ghosts for the HTTP start-line / header-line parsers
 * of src/supplemental/http/http_msg.c and the header store of http_conn.c.
 * No nng code.
 *
 * Sources of the specification (NOT the code):
 *  - RFC 9112 section 3: request-line = method SP request-target SP
 *    HTTP-version, every part non-empty; section 4: status-line =
 *    HTTP-version SP status-code SP [reason-phrase]; RFC 9110 15:
 *    status-code = 3DIGIT.
 *  - RFC 9112 section 5: field-line = field-name ":" OWS field-value OWS,
 *    field-name = token (1*tchar, so never empty); RFC 9110 5.3: a
 *    recipient MAY combine field lines of one name, in order, with ", ".
 *    RFC 9110 5.1: field names are case-insensitive.
 *  - property C16: well-formed request lines / status lines are ENFORCED
 *    (error status or failed connection); decoding is independent of how
 *    the byte stream is cut; property C11: any byte values, no memory error.
 */
#ifndef VP_HTTPHDR_SPEC_H
#define VP_HTTPHDR_SPEC_H
#include <stdio.h>
#include <stdlib.h>
#include <ctype.h>

/* snprintf: CBMC has no body for it.  Calls go to vp_snprintf (env.h), an
 * exact model of the formats used on the verified paths ("%s", "%s%s",
 * "%s, %s"); any other format trips an assertion. */
int vp_snprintf(char *dst, size_t n, const char *fmt, ...);
#define snprintf vp_snprintf

#ifndef HL_CAP
#define HL_CAP 12 /* size cap of a line handed to a line parser (grade Pb) */
#endif

/* ---- ghosts ----------------------------------------------------------- */
size_t g_s1;  /* index of the first SP of the line (== strlen when none) */
size_t g_s2;  /* index of the first SP after g_s1 (== strlen when none) */
size_t g_c;   /* index of the first ':' of the line (== strlen when none) */
size_t g_v0;  /* index of the first byte after the ':' that is not SP/HTAB */
size_t g_v1;  /* one past the last byte of the trimmed field value */
uint8_t g_d1, g_d2, g_d3, g_d4; /* bytes after the first SP (pre-state) */

/* recorded by the ASSUMED contracts of the http_conn.c setters */
size_t      g_st_calls;  uint16_t g_st_code; const char *g_st_reason;
size_t      g_ver_calls; const char *g_ver_arg; int g_ver_rv;
size_t      g_meth_calls; const char *g_meth_arg;
size_t      g_uri_calls; const char *g_uri_arg; const char *g_uri_query;
size_t      g_add_calls; const char *g_add_key; const char *g_add_val;
int         g_add_rv;    /* result the header store will give */
int         g_uri_rv;    /* result nni_http_set_uri will give */
int         g_canon_rv;  /* result nni_url_canonify_uri will give */
size_t      g_canon_calls;
int         g_hdr_err;   /* first non-zero result of the header store */

/* ---- strings ----------------------------------------------------------- */
/* p is a C string of exactly len bytes (len <= cap) at the start of an
 * object of cap + 1 bytes; the bytes after the terminator are arbitrary */
#define STR_EXACT(p, len, cap, v)                                           \
	((len) <= (cap) && __CPROVER_is_fresh((p), (cap) + 1) &&            \
	    ((char *) (p))[(len)] == 0 &&                                   \
	    __CPROVER_forall { size_t v; (v < (cap)) ==> ((v < (len)) ==> ((char *) (p))[v] != 0) })
/* first occurrence of byte ch in p[from..len) is at idx (idx == len: none) */
#define FIRST_AT(p, from, len, idx, ch, cap, v)                             \
	((from) <= (idx) && (idx) <= (len) &&                               \
	    ((idx) < (len) ==> ((char *) (p))[(idx)] == (ch)) &&            \
	    __CPROVER_forall { size_t v; (v < (cap)) ==> (((from) <= v && v < (idx)) ==> ((char *) (p))[v] != (ch)) })

#define IS_DIG(b) ((uint8_t) (b) >= '0' && (uint8_t) (b) <= '9')
#define IS_OWS(b) ((b) == ' ' || (b) == '\t')

/* the five version strings of RFC 9110/9112 + HTTP/2, /3 that nng knows */
#define VEQ3(v, a) ((v)[0]=='H' && (v)[1]=='T' && (v)[2]=='T' && (v)[3]=='P' && (v)[4]=='/' && (v)[5]==(a) && (v)[6]==0)
#define VEQ5(v, a, b) ((v)[0]=='H' && (v)[1]=='T' && (v)[2]=='T' && (v)[3]=='P' && (v)[4]=='/' && (v)[5]==(a) && (v)[6]=='.' && (v)[7]==(b) && (v)[8]==0)
#define VERS_KNOWN(v) (VEQ5(v,'1','1') || VEQ3(v,'2') || VEQ3(v,'3') || VEQ5(v,'1','0') || VEQ5(v,'0','9'))
#define VERS_SAME(v, w) ((VEQ5(v,'1','1') && VEQ5(w,'1','1')) || (VEQ3(v,'2') && VEQ3(w,'2')) || (VEQ3(v,'3') && VEQ3(w,'3')) || (VEQ5(v,'1','0') && VEQ5(w,'1','0')) || (VEQ5(v,'0','9') && VEQ5(w,'0','9')))
#endif
