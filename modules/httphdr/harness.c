/* One entry per unit: arguments unconstrained, preconditions live in the
 * contracts. */
#define VP_HAVOC_GHOSTS()                                                   \
	do {                                                                \
		g_k = nondet_size_t(); g_j = nondet_size_t(); g_n = nondet_size_t(); \
		g_hk = nondet_size_t(); g_b = nondet_u8(); g_hb = nondet_u8(); \
		g_s1 = nondet_size_t(); g_s2 = nondet_size_t(); g_c = nondet_size_t(); \
		g_v0 = nondet_size_t(); g_v1 = nondet_size_t();                 \
		g_d1 = nondet_u8(); g_d2 = nondet_u8(); g_d3 = nondet_u8(); g_d4 = nondet_u8(); \
		g_st_calls = nondet_u16(); g_ver_calls = nondet_u16(); g_meth_calls = nondet_u16(); \
		g_uri_calls = nondet_u16(); g_add_calls = nondet_u16(); g_canon_calls = nondet_u16(); \
		g_st_code = nondet_u16(); g_st_reason = nondet_ptr(); g_ver_arg = nondet_ptr(); \
		g_meth_arg = nondet_ptr(); g_uri_arg = nondet_ptr(); g_uri_query = nondet_ptr(); \
		g_add_key = nondet_ptr(); g_add_val = nondet_ptr();             \
		g_add_rv = nondet_int(); g_uri_rv = nondet_int(); g_canon_rv = nondet_int(); \
		g_hdr_err = nondet_int();                                       \
		g_alloc_ok = nondet_u32(); g_free_calls = nondet_u32();         \
	} while (0)

void h_res_parse_line(void) { nng_http *conn; uint8_t *line; VP_HAVOC_GHOSTS(); http_res_parse_line(conn, line); VP_CANARY(); }
void h_parse_header(void) { nng_http *conn; void *line; VP_HAVOC_GHOSTS(); http_parse_header(conn, line); VP_CANARY(); }
void h_req_parse_line(void) { nng_http *conn; void *line; VP_HAVOC_GHOSTS(); http_req_parse_line(conn, line); VP_CANARY(); }
