/* One entry per unit: arguments unconstrained, preconditions live in the
 * contracts. */
#define VP_HAVOC_GHOSTS()                                                   \
	do {                                                                \
		g_k = nondet_size_t(); g_j = nondet_size_t(); g_n = nondet_size_t(); \
		g_hk = nondet_size_t(); g_b = nondet_u8(); g_hb = nondet_u8(); \
		g_s1 = nondet_size_t(); g_s2 = nondet_size_t(); g_c = nondet_size_t(); \
		g_v0 = nondet_size_t(); g_v1 = nondet_size_t();                 \
		g_d1 = nondet_u8(); g_d2 = nondet_u8(); g_d3 = nondet_u8(); g_d4 = nondet_u8(); \
		g_st_calls = nondet_u16(); g_ver_calls = nondet_u16(); g_meth_calls = nondet_u16(); \
		g_uri_calls = nondet_u16(); g_add_calls = nondet_u16(); g_canon_calls = nondet_u16(); \
		g_st_code = nondet_u16(); g_st_reason = nondet_ptr(); g_ver_arg = nondet_ptr(); \
		g_meth_arg = nondet_ptr(); g_uri_arg = nondet_ptr(); g_uri_query = nondet_ptr(); \
		g_add_key = nondet_ptr(); g_add_val = nondet_ptr();             \
		g_add_rv = nondet_int(); g_ver_rv = nondet_int(); g_uri_rv = nondet_int(); g_canon_rv = nondet_int(); \
		g_hdr_err = nondet_int();                                       \
		g_alloc_ok = nondet_u32(); g_free_calls = nondet_u32();         \
	} while (0)

void h_res_parse_line(void) { nng_http *conn; uint8_t *line; VP_HAVOC_GHOSTS(); http_res_parse_line(conn, line); VP_CANARY(); }
void h_parse_header(void) { nng_http *conn; void *line; VP_HAVOC_GHOSTS(); http_parse_header(conn, line); VP_CANARY(); }
void h_req_parse_line(void) { nng_http *conn; void *line; VP_HAVOC_GHOSTS(); http_req_parse_line(conn, line); VP_CANARY(); }

/* ---- lemma harnesses on the REAL nni_http_req_parse / nni_http_res_parse
 * (real http_scan_line, http_parse_header, http_*_parse_line; only the
 * http_conn.c stores are replaced by their assumed contracts).  Bounded:
 * buffers of at most RP_N bytes, every byte value, every n <= RP_N. */
#ifndef RP_N
#define RP_N 7
#endif
/* reference: does the consumed region orig[0..len) hold a field line (a line
 * after the start line, before the blank line) without ':' ? */
static bool
vp_ref_field_without_colon(const uint8_t *orig, size_t len, bool start_line_pending)
{
	size_t i     = 0;
	bool   first = start_line_pending;
	bool   bad   = false;
	while (i < len) {
		size_t j = i;
		while (j < len && orig[j] != '\n') {
			j++;
		}
		if (j >= len) {
			break; /* cannot happen: the consumed region ends with LF */
		}
		size_t e = j;
		if (e > i && orig[e - 1] == '\r') {
			e--;
		}
		if (e == i) {
			break; /* blank line ends the head */
		}
		if (!first) {
			bool colon = false;
			for (size_t k = i; k < e; k++) {
				if (orig[k] == ':') {
					colon = true;
				}
			}
			if (!colon) {
				bad = true;
			}
		}
		first = false;
		i     = j + 1;
	}
	return (bad);
}

static void
vp_parse_lemma(bool is_req)
{
	nng_http *conn = malloc(sizeof(*conn));
	uint8_t   buf[RP_N], orig[RP_N];
	size_t    n = nondet_size_t(), len = nondet_size_t();
	bool      parsed0 = nondet_bool();
	int       rv;
	__CPROVER_assume(conn != NULL);
	__CPROVER_assume(n <= RP_N);
	for (size_t i = 0; i < RP_N; i++) {
		buf[i]  = nondet_u8();
		orig[i] = buf[i];
	}
	VP_HAVOC_GHOSTS();
	g_hdr_err = 0;
	/* request variant: the start line (if still pending) is one that was already
	 * refused (status 400), so that http_req_parse_line returns at once: with a
	 * symbolic status the unit runs out of memory (12 GB) */
	conn->code            = is_req ? NNG_HTTP_STATUS_BAD_REQUEST : 0;
	conn->req.data.parsed = parsed0;
	conn->res.data.parsed = parsed0;
	rv = is_req ? nni_http_req_parse(conn, buf, n, &len) : nni_http_res_parse(conn, buf, n, &len);
	__CPROVER_assert(len <= n, "parse: consumed <= n");
	/* C16/C11: an incomplete line is not consumed and not touched */
	for (size_t i = 0; i < RP_N; i++) {
		if (i >= len && i < n) {
			__CPROVER_assert(buf[i] == orig[i], "parse: bytes not consumed are untouched");
			if (rv == NNG_EAGAIN) {
				__CPROVER_assert(orig[i] != '\n', "parse: EAGAIN only when no complete line is left");
			}
		}
	}
	__CPROVER_assert(len == 0 || orig[len - 1] == '\n', "parse: consumes whole lines only");
	/* C20: a failure of the header store is reported */
	__CPROVER_assert(g_hdr_err == 0 || rv != 0, "parse: header store failure is reported");
	/* C16: a field line without ':' is refused */
	__CPROVER_assert(rv != 0 || !vp_ref_field_without_colon(orig, len, !parsed0), "parse: accepted head has no field line without colon");
	/* the head is complete (result 0) only at a blank line */
	__CPROVER_assert(rv != 0 || (len >= 1 && (len == 1 || orig[len - 2] == '\n' || (len >= 2 && orig[len - 2] == '\r' && (len == 2 || orig[len - 3] == '\n')))), "parse: 0 only at the blank line");
	if (is_req) {
		__CPROVER_assert(rv == NNG_EAGAIN || !conn->req.data.parsed, "req parse: state reset unless more data is needed");
	}
}
void h_req_parse_lemma(void) { vp_parse_lemma(true); VP_CANARY(); }
void h_res_parse_lemma(void) { vp_parse_lemma(false); VP_CANARY(); }


/* ---- C16 "decode the same response/request however it is split across reads": the start line arrives in one
 * read (followed by up to RS_X arbitrary bytes of an incomplete next line), the rest in a second read.  The
 * first call must consume exactly the start line and ask for more; the second call, given the blank line that
 * ends the head, must complete -- i.e. the consumed start line is remembered, not parsed again.  Real
 * nni_http_res_parse / nni_http_req_parse, http_scan_line, http_*_parse_line; stores replaced by their assumed
 * contracts.  Bounded: one fixed well-formed start line, RS_X <= 4 trailing bytes (every value but LF). */
#ifndef RS_X
#define RS_X 4
#endif
static void
vp_parse_split(bool is_req)
{
	nng_http     *conn = malloc(sizeof(*conn));
	const char   *sl   = is_req ? "GET / HTTP/1.1\r\n" : "HTTP/1.1 200 OK\r\n";
	size_t        sll  = is_req ? 16 : 17;
	uint8_t       buf[17 + RS_X + 1];
	uint8_t       rest[2] = { '\r', '\n' };
	size_t        x = nondet_size_t(), len = nondet_size_t(), len2 = nondet_size_t();
	int           rv;
	__CPROVER_assume(conn != NULL);
	__CPROVER_assume(x <= RS_X);
	for (size_t i = 0; i < sizeof(buf); i++) {
		buf[i] = (i < sll) ? (uint8_t) sl[i] : nondet_u8();
		__CPROVER_assume(i < sll || buf[i] != '\n');
	}
	VP_HAVOC_GHOSTS();
	g_hdr_err             = 0;
	conn->code            = 0;
	conn->req.data.parsed = false;
	conn->res.data.parsed = false;
	rv = is_req ? nni_http_req_parse(conn, buf, sll + x, &len) : nni_http_res_parse(conn, buf, sll + x, &len);
	if (rv != NNG_ENOMEM && g_hdr_err == 0) { /* a refused store is C20's business (lemma units) */
		__CPROVER_assert(rv == NNG_EAGAIN || rv == NNG_EPROTO, "split: first read asks for more (or refuses the trailing bytes)");
		if (rv == NNG_EAGAIN) {
			__CPROVER_assert(len == sll, "split: exactly the start line is consumed");
			__CPROVER_assert(is_req ? conn->req.data.parsed : conn->res.data.parsed, "split: the consumed start line is remembered across reads");
			if (x == 0) {
				rv = is_req ? nni_http_req_parse(conn, rest, 2, &len2) : nni_http_res_parse(conn, rest, 2, &len2);
				__CPROVER_assert(rv == 0 && len2 == 2, "split: the blank line in the next read completes the head (start line not parsed again)");
			}
		}
	}
}
void h_req_parse_split(void) { vp_parse_split(true); VP_CANARY(); }
void h_res_parse_split(void) { vp_parse_split(false); VP_CANARY(); }

/* the ASSUMED result clause of nni_http_set_version (contracts.h SETVER_RV) checked
 * on the real function; run WITHOUT DFCC because DFCC havocs the function's
 * static table http_versions[] */
void h_set_version_real2(void)
{
	nng_http   *c = malloc(sizeof(*c));
	char        v[10];
	const char *old;
	int         rv;
	__CPROVER_assume(c != NULL);
	for (int i = 0; i < 9; i++) {
		v[i] = (char) nondet_u8();
	}
	v[9]    = 0;
	c->vers = nondet_ptr();
	old     = c->vers;
	rv      = nni_http_set_version(c, v);
	__CPROVER_assert(rv == SETVER_RV(v), "set_version: 0 exactly for the five known version strings");
	__CPROVER_assert(rv != 0 || VERS_SAME(c->vers, v), "set_version: stores the table entry equal to the argument");
	__CPROVER_assert(rv == 0 || c->vers == old, "set_version: refused => version unchanged");
	rv = nni_http_set_version(c, NULL);
	__CPROVER_assert(rv == 0 && VEQ5(c->vers, '1', '1'), "set_version: NULL means HTTP/1.1");
	VP_CANARY();
}
