/* Environment of the httphdr units (no nng code).
 *
 * libc: the CBMC library models of strchr / strtol trip DFCC's own
 * "local is assignable" checks (measured: strchr.assigns.1, strtol.assigns.*
 * FAIL on the first call whatever the unwinding bound), so the TU carries
 * plain C definitions of the few libc functions the verified code calls.
 * They are ASSUMED to be what libc does:
 *   strlen, strchr, strcmp: ISO C 7.24;
 *   atoi: ISO C 7.22.1.2 = (int) strtol(s, NULL, 10): optional white space,
 *         optional sign, decimal digits, stops at the first other byte
 *         (glibc; no overflow of long possible below 19 digits);
 *   tolower: C locale.
 */
#ifndef VP_HTTPHDR_ENV_H
#define VP_HTTPHDR_ENV_H
#include <stdarg.h>

size_t
strlen(const char *s)
{
	size_t i = 0;
	while (s[i] != 0) {
		i++;
	}
	return (i);
}

char *
strchr(const char *s, int c)
{
	size_t i = 0;
	for (;;) {
		if (s[i] == (char) c) {
			return ((char *) s + i);
		}
		if (s[i] == 0) {
			return (NULL);
		}
		i++;
	}
}

int
strcmp(const char *a, const char *b)
{
	size_t i = 0;
	while (a[i] != 0 && a[i] == b[i]) {
		i++;
	}
	return ((int) (unsigned char) a[i] - (int) (unsigned char) b[i]);
}

int
atoi(const char *s)
{
	size_t    i   = 0;
	bool      neg = false;
	long long v   = 0;
	while (s[i] == ' ' || (s[i] >= '\t' && s[i] <= '\r')) {
		i++;
	}
	if (s[i] == '+' || s[i] == '-') {
		neg = (s[i] == '-');
		i++;
	}
	while (s[i] >= '0' && s[i] <= '9') {
		__CPROVER_assert(v < 100000000000000000LL, "atoi model: below the saturation range of strtol");
		v = v * 10 + (s[i] - '0');
		i++;
	}
	return ((int) (neg ? -v : v));
}

#undef tolower
int
tolower(int c)
{
	return ((c >= 'A' && c <= 'Z') ? c + ('a' - 'A') : c);
}

/* snprintf: exact model (truncating, always terminated for n > 0, returns
 * the untruncated length) of the formats reached by the units. */
static size_t
vp_emit(char *dst, size_t n, size_t at, const char *s)
{
	size_t i = 0;
	while (s[i] != 0) {
		if (n > 0 && at + i < n - 1) {
			dst[at + i] = s[i];
		}
		i++;
	}
	return (at + i);
}

int
vp_snprintf(char *dst, size_t n, const char *fmt, ...)
{
	va_list     ap;
	const char *a, *b;
	size_t      l = 0;
	va_start(ap, fmt);
	if (fmt[0] == '%' && fmt[1] == 's' && fmt[2] == 0) {
		a = va_arg(ap, const char *);
		l = vp_emit(dst, n, 0, a);
	} else if (fmt[0] == '%' && fmt[1] == 's' && fmt[2] == '%' && fmt[3] == 's' && fmt[4] == 0) {
		a = va_arg(ap, const char *);
		b = va_arg(ap, const char *);
		l = vp_emit(dst, n, 0, a);
		l = vp_emit(dst, n, l, b);
	} else if (fmt[0] == '%' && fmt[1] == 's' && fmt[2] == ',' && fmt[3] == ' ' && fmt[4] == '%' && fmt[5] == 's' && fmt[6] == 0) {
		a = va_arg(ap, const char *);
		b = va_arg(ap, const char *);
		l = vp_emit(dst, n, 0, a);
		l = vp_emit(dst, n, l, ", ");
		l = vp_emit(dst, n, l, b);
	} else {
		__CPROVER_assert(0, "snprintf model: format not modelled");
	}
	va_end(ap);
	if (n > 0) {
		dst[(l < n - 1) ? l : n - 1] = 0;
	}
	return ((int) l);
}

/* nni_url_canonify_uri (src/core/url.c, under contract in modules/url):
 * ASSUMED: rewrites the string in place, never longer than before, still
 * terminated; result NNG_OK or NNG_EINVAL (recorded in g_canon_rv). */
nng_err
nni_url_canonify_uri(char *out)
{
	size_t l = strlen(out);
	size_t m = nondet_size_t();
	__CPROVER_assume(m <= l);
	g_canon_calls++;
	if (m < l) { out[m] = 0; }
	g_canon_rv = nondet_bool() ? NNG_OK : NNG_EINVAL;
	return (g_canon_rv);
}
#endif
