/* Entry snapshots for the native replay of the HTTP line parsers (macros only; read by
 * vp/replay.py from the CBMC trace).  The line is a C string in an object of HL_CAP + 1
 * bytes (precondition STR_EXACT), so all HL_CAP + 1 bytes are readable. */
#ifndef VP_HTTPHDR_SNAP_H
#define VP_HTTPHDR_SNAP_H
#define VP_HSNAP_BEGIN                                                             \
	_Pragma("CPROVER check push") _Pragma("CPROVER check disable \"pointer\"")   \
	_Pragma("CPROVER check disable \"bounds\"")                                  \
	_Pragma("CPROVER check disable \"pointer-primitive\"")                       \
	_Pragma("CPROVER check disable \"pointer-overflow\"")
#define VP_HSNAP_END _Pragma("CPROVER check pop")
#define VP_SNAP_LB(i) uint8_t vp_in_l##i = ((size_t) (i) <= (size_t) HL_CAP) ? ((const uint8_t *) line)[i] : (uint8_t) 0
#define VP_SNAP_LINE()                                                             \
	VP_HSNAP_BEGIN                                                                 \
	size_t vp_in_cap = (size_t) HL_CAP;                                            \
	VP_SNAP_LB(0); VP_SNAP_LB(1); VP_SNAP_LB(2); VP_SNAP_LB(3); VP_SNAP_LB(4); VP_SNAP_LB(5); VP_SNAP_LB(6); VP_SNAP_LB(7); \
	VP_SNAP_LB(8); VP_SNAP_LB(9); VP_SNAP_LB(10); VP_SNAP_LB(11); VP_SNAP_LB(12); VP_SNAP_LB(13); VP_SNAP_LB(14); VP_SNAP_LB(15); \
	VP_HSNAP_END
#define VP_SNAP_NLB 16
#endif
