/* native reproduction: nni_aio_iov_advance with a count larger than the vector
 * (aio.h: "if the count refers to more data than the iov can support, then the
 * result will be left over count") */
#include "/repo/src/core/aio.c"
#include <stdio.h>
#include <stdlib.h>
int
main(void)
{
	static char buf[16];
	nni_aio    *aio = calloc(1, sizeof(*aio));
	nni_iov     iov[2] = { { buf, 4 }, { buf + 4, 4 } };
	nni_aio_set_iov(aio, 2, iov);
	size_t left = nni_aio_iov_advance(aio, 10); /* vector describes 8 bytes */
	printf("left over = %zu (expected 2), a_nio = %u (expected 0)\n", left, aio->a_nio);
	return (left == 2 && aio->a_nio == 0 ? 0 : 1);
}
