/* Native replay driver for the scatter/gather helpers of src/core/aio.c:
 * rebuilds the io vector a CBMC counterexample describes (entry snapshot
 * `vp_in` = *aio, `vp_n0` = n, `vp_arg_*`, woven at function entry), runs the
 * REAL nni_aio_set_iov / nni_aio_iov_count / nni_aio_iov_advance /
 * nni_aio_iov_clamp_len of /repo/src/core/aio.c under ASan/UBSan and evaluates
 * the postconditions of modules/aioiov/contracts.h in plain C (same spec macros
 * IOV_TOTAL / IOV_PJ / IOV_DROP from spec.h, instantiated on a saved copy of the
 * pre-state instead of __CPROVER_old).
 *
 * The helpers never look through the buffer pointers, so entries too large to
 * allocate get a distinct fake address (base + length does not wrap). */
#include "vp_native.h"
#include "core/nng_impl.h"
#include "modules/aioiov/spec.h"

/* ---- everything else aio.c refers to: unreachable from the four helpers --- */
#define VP_UNREACH(name)                                                         \
	do {                                                                         \
		printf("REPLAY-FAIL: %s reached (outside the replayed helpers)\n", name); \
		exit(1);                                                                 \
	} while (0)
nni_time nni_clock(void) { VP_UNREACH("nni_clock"); }
void     nni_cv_fini(nni_cv *cv) { (void) cv; VP_UNREACH("nni_cv_fini"); }
void     nni_cv_init(nni_cv *cv, nni_mtx *m) { (void) cv; (void) m; VP_UNREACH("nni_cv_init"); }
int      nni_cv_until(nni_cv *cv, nni_time t) { (void) cv; (void) t; VP_UNREACH("nni_cv_until"); }
void     nni_cv_wait(nni_cv *cv) { (void) cv; VP_UNREACH("nni_cv_wait"); }
void     nni_cv_wake(nni_cv *cv) { (void) cv; VP_UNREACH("nni_cv_wake"); }
void     nni_list_append(nni_list *l, void *i) { (void) l; (void) i; VP_UNREACH("nni_list_append"); }
int      nni_list_empty(nni_list *l) { (void) l; VP_UNREACH("nni_list_empty"); }
void    *nni_list_first(const nni_list *l) { (void) l; VP_UNREACH("nni_list_first"); }
void     nni_list_init_offset(nni_list *l, size_t o) { (void) l; (void) o; VP_UNREACH("nni_list_init_offset"); }
void    *nni_list_next(const nni_list *l, void *i) { (void) l; (void) i; VP_UNREACH("nni_list_next"); }
int      nni_list_node_active(nni_list_node *n) { (void) n; VP_UNREACH("nni_list_node_active"); }
void     nni_list_node_remove(nni_list_node *n) { (void) n; VP_UNREACH("nni_list_node_remove"); }
void     nni_list_remove(nni_list *l, void *i) { (void) l; (void) i; VP_UNREACH("nni_list_remove"); }
size_t   nni_msg_len(const nni_msg *m) { (void) m; VP_UNREACH("nni_msg_len"); }
void     nni_mtx_fini(nni_mtx *m) { (void) m; VP_UNREACH("nni_mtx_fini"); }
void     nni_mtx_init(nni_mtx *m) { (void) m; VP_UNREACH("nni_mtx_init"); }
void     nni_mtx_lock(nni_mtx *m) { (void) m; VP_UNREACH("nni_mtx_lock"); }
void     nni_mtx_unlock(nni_mtx *m) { (void) m; VP_UNREACH("nni_mtx_unlock"); }
uint32_t nni_random(void) { VP_UNREACH("nni_random"); }
void     nni_reap(nni_reap_list *l, void *i) { (void) l; (void) i; VP_UNREACH("nni_reap"); }
bool     nni_task_busy(nni_task *t) { (void) t; VP_UNREACH("nni_task_busy"); }
void     nni_task_dispatch(nni_task *t) { (void) t; VP_UNREACH("nni_task_dispatch"); }
void     nni_task_exec(nni_task *t) { (void) t; VP_UNREACH("nni_task_exec"); }
void     nni_task_fini(nni_task *t) { (void) t; VP_UNREACH("nni_task_fini"); }
void     nni_task_init(nni_task *t, nni_taskq *q, nni_cb cb, void *a) { (void) t; (void) q; (void) cb; (void) a; VP_UNREACH("nni_task_init"); }
void     nni_task_prep(nni_task *t) { (void) t; VP_UNREACH("nni_task_prep"); }
void     nni_task_wait(nni_task *t) { (void) t; VP_UNREACH("nni_task_wait"); }
void     nni_thr_fini(nni_thr *t) { (void) t; VP_UNREACH("nni_thr_fini"); }
int      nni_thr_init(nni_thr *t, nni_thr_func f, void *a) { (void) t; (void) f; (void) a; VP_UNREACH("nni_thr_init"); }
void     nni_thr_run(nni_thr *t) { (void) t; VP_UNREACH("nni_thr_run"); }
void     nni_thr_set_name(nni_thr *t, const char *n) { (void) t; (void) n; VP_UNREACH("nni_thr_set_name"); }
void    *nni_alloc(size_t sz) { return (sz > 0 ? malloc(sz) : NULL); }
void    *nni_zalloc(size_t sz) { return (sz > 0 ? calloc(1, sz) : NULL); }
void     nni_free(void *p, size_t sz) { (void) sz; free(p); }
void     nni_panic(const char *fmt, ...) { printf("REPLAY-FAIL: nni_panic(\"%s\") reached: process would abort\n", fmt); printf("REPLAY-RESULT: reproduced (panic)\n"); exit(1); }

#include "core/aio.c" /* the real file, via -I/repo/src */

/* accessors of the spec macros: the saved pre-state `o` / the current state */
static nni_aio o; /* pre-state copy */
#define RL(a, i) (o.a_iov[i].iov_len)
#define RN(a) (o.a_nio)
#define ALLOC_MAX ((size_t) 1 << 16)

static void *owned[4 * VIOV_MAX];
static int   n_owned;
static void *own(void *p) { return (owned[n_owned++] = p); }
static void  disown_all(void) { for (int i = 0; i < n_owned; i++) free(owned[i]); n_owned = 0; }

/* a buffer position for an entry of `len` bytes: real memory when small */
static void *
mkbuf(size_t len, unsigned i, bool nonnull, uintptr_t fake0)
{
	if (len == 0) {
		return (nonnull ? (void *) (fake0 + 64 * (uintptr_t) i) : NULL);
	}
	if (len <= ALLOC_MAX) {
		return (own(malloc(len)));
	}
	return ((void *) (fake0 + 64 * (uintptr_t) i)); /* never dereferenced */
}

static void
show_vec(const char *tag, const nni_aio *a)
{
	printf("%s nio=%u [", tag, a->a_nio);
	for (unsigned i = 0; i < VIOV_MAX; i++) {
		if (i == a->a_nio)
			printf(" |");
		printf(" %zu%s", a->a_iov[i].iov_len, a->a_iov[i].iov_buf ? "" : "(nil)");
	}
	printf(" ]\n");
}

/* builds *aio from the vp_in snapshot; false: pre-state not usable */
static bool
build(nni_aio *aio, bool need_addr)
{
	memset(aio, 0, sizeof(*aio));
	if (!vp_has("vp_in.a_nio")) {
		printf("REPLAY-RESULT: skipped (trace has no entry snapshot vp_in)\n");
		return false;
	}
	aio->a_nio = (unsigned) vp_u64("vp_in.a_nio", 0);
	for (unsigned i = 0; i < VIOV_MAX; i++) {
		size_t len = (size_t) vp_fmt(0, "vp_in.a_iov[%u].iov_len", i);
		bool   nn  = vp_fmt(0, "vp_in.a_iov[%u].iov_buf", i) != 0;
		if (need_addr && len > SIZE_MAX - 0x100000) {
			printf("REPLAY-RESULT: skipped (entry %u: length %zu leaves no address for a buffer)\n", i, len);
			return false;
		}
		aio->a_iov[i].iov_len = len;
		/* a non-empty entry in use names a buffer (precondition IOV_ENT_PRE) */
		aio->a_iov[i].iov_buf = mkbuf(len, i, nn || len != 0, 0x10000);
	}
	return true;
}

static int
replay_count(void)
{
	nni_aio *aio = own(calloc(1, sizeof(*aio)));
	if (!build(aio, false)) /* nothing ever adds to a buffer position here */
		return 3;
	if (aio->a_nio > VIOV_MAX) {
		printf("REPLAY-RESULT: skipped (a_nio %u > %u: outside the precondition)\n", aio->a_nio, VIOV_MAX);
		return 3;
	}
	o = *aio;
	show_vec("vector:", aio);
	size_t rv = nni_aio_iov_count(aio);
	printf("nni_aio_iov_count -> %zu, the vector describes %zu bytes\n", rv, (size_t) IOV_TOTAL(RL, RN, aio));
	VP_EXPECT(rv == IOV_TOTAL(RL, RN, aio));
	VP_EXPECT(memcmp(aio, &o, sizeof(o)) == 0); /* assigns() */
	VP_DONE();
}

static int
replay_set(void)
{
	nni_aio *aio = own(calloc(1, sizeof(*aio)));
	unsigned nio = (unsigned) vp_u64("vp_arg_nio", 0);
	bool     alias = vp_u64("vp_arg_alias", 0) != 0;
	nni_iov *iov = NULL, want[VIOV_MAX];
	if (!build(aio, false))
		return 3;
	o = *aio;
	memset(want, 0, sizeof(want));
	if (alias) {
		iov = &aio->a_iov[0];
		memcpy(want, o.a_iov, sizeof(want));
	} else if (nio <= VIOV_MAX && nio != 0) {
		/* exact size: ASan sees a read past the caller's array */
		iov = own(malloc(nio * sizeof(nni_iov)));
		for (unsigned i = 0; i < nio; i++) {
			char kl[32], kb[32];
			snprintf(kl, sizeof(kl), "vp_arg_len%u", i);
			snprintf(kb, sizeof(kb), "vp_arg_buf%u", i);
			iov[i].iov_len = (size_t) vp_u64(kl, 0);
			iov[i].iov_buf = vp_u64(kb, 0) ? (void *) (uintptr_t) (0x7000000 + 64 * i) : NULL;
			want[i] = iov[i];
		}
	} else {
		iov = (nni_iov *) (uintptr_t) 0x10; /* anything at all: must not be read */
	}
	show_vec("aio before:", aio);
	nng_err rv = nni_aio_set_iov(aio, nio, iov);
	printf("nni_aio_set_iov(nio=%u%s) -> %d\n", nio, alias ? ", the aio's own vector" : "", rv);
	show_vec("aio after: ", aio);
	VP_EXPECT(rv == NNG_OK || rv == NNG_EINVAL);
	VP_EXPECT((rv == NNG_EINVAL) == (nio > VIOV_MAX));
	if (rv != NNG_OK) {
		VP_EXPECT(aio->a_nio == o.a_nio);
		for (unsigned j = 0; j < VIOV_MAX; j++)
			VP_EXPECT(aio->a_iov[j].iov_len == o.a_iov[j].iov_len && aio->a_iov[j].iov_buf == o.a_iov[j].iov_buf);
	} else {
		VP_EXPECT(aio->a_nio == nio);
		for (unsigned j = 0; j < VIOV_MAX; j++) {
			if (j < nio) {
				VP_EXPECT(aio->a_iov[j].iov_len == want[j].iov_len && aio->a_iov[j].iov_buf == want[j].iov_buf);
			} else {
				VP_EXPECT(aio->a_iov[j].iov_len == o.a_iov[j].iov_len && aio->a_iov[j].iov_buf == o.a_iov[j].iov_buf);
			}
		}
	}
	VP_DONE();
}

static int
replay_advance(void)
{
	nni_aio *aio = own(calloc(1, sizeof(*aio)));
	size_t   n = (size_t) vp_u64("vp_n0", vp_u64("vp_arg_n", 0));
	if (!build(aio, true))
		return 3;
	o = *aio;
	if (o.a_nio > VIOV_MAX) {
		printf("REPLAY-RESULT: skipped (a_nio %u > %u: outside the precondition)\n", o.a_nio, VIOV_MAX);
		return 3;
	}
	/* IOV_NOWRAP: the described byte sequence fits size_t */
	if (!(IOV_P1(RL, RN, aio) <= IOV_P2(RL, RN, aio) && IOV_P2(RL, RN, aio) <= IOV_P3(RL, RN, aio) &&
	        IOV_P3(RL, RN, aio) <= IOV_P4(RL, RN, aio) && IOV_P4(RL, RN, aio) <= IOV_P5(RL, RN, aio) &&
	        IOV_P5(RL, RN, aio) <= IOV_P6(RL, RN, aio) && IOV_P6(RL, RN, aio) <= IOV_P7(RL, RN, aio) &&
	        IOV_P7(RL, RN, aio) <= IOV_P8(RL, RN, aio))) {
		printf("REPLAY-RESULT: skipped (prefix sums wrap: outside the precondition)\n");
		return 3;
	}
	size_t   t0 = IOV_TOTAL(RL, RN, aio);
	unsigned d  = IOV_DROP(RL, RN, aio, n);
	show_vec("vector before:", aio);
	size_t rv = nni_aio_iov_advance(aio, n);
	printf("nni_aio_iov_advance(n=%zu) on %zu bytes -> left over %zu\n", n, t0, rv);
	show_vec("vector after: ", aio);
	VP_EXPECT(aio->a_nio <= VIOV_MAX && aio->a_nio <= o.a_nio);
	/* left-over count: what the vector could not supply */
	VP_EXPECT(rv == (n <= t0 ? (size_t) 0 : n - t0));
	/* entries used up completely are dropped from the front, in order */
	VP_EXPECT(aio->a_nio == o.a_nio - d);
	if (aio->a_nio <= VIOV_MAX && aio->a_nio <= o.a_nio) {
		unsigned gone = o.a_nio - aio->a_nio;
		/* the first survivor loses its consumed front part, strictly less than its length */
		if (aio->a_nio > 0 && d < VIOV_MAX) {
			size_t used = n - IOV_PJ(RL, RN, aio, d);
			VP_EXPECT(used < o.a_iov[d].iov_len || used == 0);
			VP_EXPECT(aio->a_iov[0].iov_len == o.a_iov[d].iov_len - used);
			VP_EXPECT((char *) aio->a_iov[0].iov_buf == (char *) o.a_iov[d].iov_buf + used);
		}
		/* later survivors move down unchanged, vacated slots are (NULL, 0), unused slots untouched */
		for (unsigned j = 1; j < VIOV_MAX; j++) {
			if (j < aio->a_nio && j + gone < VIOV_MAX) {
				VP_EXPECT(aio->a_iov[j].iov_len == o.a_iov[j + gone].iov_len && aio->a_iov[j].iov_buf == o.a_iov[j + gone].iov_buf);
			}
		}
		for (unsigned j = 0; j < VIOV_MAX; j++) {
			if (j >= aio->a_nio && j < o.a_nio) {
				VP_EXPECT(aio->a_iov[j].iov_len == 0 && aio->a_iov[j].iov_buf == NULL);
			} else if (j >= o.a_nio) {
				VP_EXPECT(aio->a_iov[j].iov_len == o.a_iov[j].iov_len && aio->a_iov[j].iov_buf == o.a_iov[j].iov_buf);
			}
		}
		/* what the next transfer sees: the byte count that is left */
		size_t left = nni_aio_iov_count(aio);
		printf("bytes still described: %zu (expected %zu)\n", left, n <= t0 ? t0 - n : (size_t) 0);
		VP_EXPECT(left == (n <= t0 ? t0 - n : (size_t) 0));
	}
	VP_DONE();
}

static int
replay_clamp(void)
{
	size_t len0 = (size_t) vp_u64("vp_in_len", 0), cnt0 = (size_t) vp_u64("vp_in_count", 0);
	size_t len = len0, cnt = cnt0;
	if (cnt0 > (size_t) INT_MAX) {
		printf("REPLAY-RESULT: skipped (count beyond INT_MAX: outside the precondition)\n");
		return 3;
	}
	bool rv = nni_aio_iov_clamp_len(&len, &cnt);
	printf("nni_aio_iov_clamp_len(len=%zu, count=%zu) -> %d, len=%zu count=%zu\n", len0, cnt0, (int) rv, len, cnt);
	VP_EXPECT(cnt <= (size_t) INT_MAX && cnt == cnt0 + len);
	VP_EXPECT(len == VP_MIN(len0, (size_t) INT_MAX - cnt0));
	VP_EXPECT(rv == (len0 > (size_t) INT_MAX - cnt0));
	VP_DONE();
}

int
main(int argc, char **argv)
{
	int rc;
	if (argc < 3) {
		fprintf(stderr, "usage: replay <inputs> <function>\n");
		return 2;
	}
	vp_load(argv[1]);
	atexit(disown_all); /* also on the skip paths: a leak report would count as a finding */
	const char *fn = argv[2];
	if (strcmp(fn, "nni_aio_iov_count") == 0)
		rc = replay_count();
	else if (strcmp(fn, "nni_aio_set_iov") == 0)
		rc = replay_set();
	else if (strcmp(fn, "nni_aio_iov_advance") == 0)
		rc = replay_advance();
	else if (strcmp(fn, "nni_aio_iov_clamp_len") == 0)
		rc = replay_clamp();
	else {
		printf("REPLAY-RESULT: skipped (no native driver for %s)\n", fn);
		return 3;
	}
	return rc;
}
