/* Environment of aio.c for the iov helpers.  The helpers call nothing: every
 * other function of aio.c (tasks, clock, expire queues, threads, reaper) is
 * compiled but unreachable from the units of this module, so its callees are
 * left without bodies (CBMC would report a call to one of them as a missing
 * body; none occurs).  NNI_ASSERT is compiled out (the tree is built with
 * NDEBUG, see vp/flags.txt); nni_panic is modelled for completeness. */
void
nni_panic(const char *fmt, ...)
{
	(void) fmt;
	__CPROVER_assert(0, "nni_panic reached (library aborts the process)");
	__CPROVER_assume(0);
}
