#define VP_HAVOC_GHOSTS() do { g_k = nondet_size_t(); g_j = nondet_size_t(); g_n = nondet_size_t(); g_p = nondet_ptr(); } while (0)

void h_set_iov(void)   { nni_aio *a; unsigned nio; const nni_iov *iov; VP_HAVOC_GHOSTS(); nni_aio_set_iov(a, nio, iov); VP_CANARY(); }
void h_iov_count(void) { nni_aio *a; VP_HAVOC_GHOSTS(); nni_aio_iov_count(a); VP_CANARY(); }
void h_iov_clamp_len(void) { size_t *l, *c; VP_HAVOC_GHOSTS(); nni_aio_iov_clamp_len(l, c); VP_CANARY(); }
void h_iov_advance(void) { nni_aio *a; size_t n; VP_HAVOC_GHOSTS(); nni_aio_iov_advance(a, n); VP_CANARY(); }

/* LEMMA (segmentation independence), on the real function: consuming a bytes
 * and then b bytes leaves exactly the vector that consuming a+b bytes at once
 * leaves, and the left-over counts add up -- for every vector with existing
 * buffers and all a, b (a+b a byte count, i.e. not wrapping size_t). */
#ifndef LEMMA_NB
#define LEMMA_NB NNI_AIO_MAX_IOV
#endif
static void
vp_mk_vec(nni_aio *x)
{
	/* arbitrary struct content; every non-empty entry in use gets a buffer of
	 * its length (an allocation that fails turns the entry into an empty one,
	 * so no assumption is needed and all-success is one of the paths) */
	for (unsigned i = 0; i < NNI_AIO_MAX_IOV; i++) {
		if (i < x->a_nio && x->a_iov[i].iov_len != 0) {
			x->a_iov[i].iov_buf = malloc(x->a_iov[i].iov_len);
			if (x->a_iov[i].iov_buf == NULL) {
				x->a_iov[i].iov_len = 0;
			}
		}
	}
}
void
h_lemma_split(void)
{
	nni_aio x, y; /* uninitialised = arbitrary */
	size_t  a, b, ra, rb, rab;
	if (x.a_nio > LEMMA_NB || b > SIZE_MAX - a) {
		return;
	}
	vp_mk_vec(&x);
	y   = x;
	ra  = nni_aio_iov_advance(&x, a);
	rb  = nni_aio_iov_advance(&x, b);
	rab = nni_aio_iov_advance(&y, a + b);
	__CPROVER_assert(x.a_nio == y.a_nio, "lemma: same number of entries left");
	for (unsigned i = 0; i < NNI_AIO_MAX_IOV; i++) {
		__CPROVER_assert(x.a_iov[i].iov_len == y.a_iov[i].iov_len, "lemma: same entry length");
		__CPROVER_assert(x.a_iov[i].iov_buf == y.a_iov[i].iov_buf, "lemma: same entry buffer position");
	}
	__CPROVER_assert(ra + rb == rab, "lemma: left-over counts add up");
	VP_CANARY();
}
