/* Contracts for the scatter/gather helpers of src/core/aio.c.
 *
 * Oracles (C01, "however the underlying byte stream is split"; aio.h doc
 * comments of the three functions):
 *   set_iov    refuses more than NNI_AIO_MAX_IOV entries (nothing changes),
 *              otherwise the aio holds exactly the caller's entries;
 *   iov_count  = number of bytes the vector describes;
 *   iov_advance(n) consumes exactly n bytes from the FRONT: afterwards the
 *              vector describes the same byte sequence without its first n
 *              bytes (byte k of the new sequence is byte k+n of the old one,
 *              same address), entries consumed completely are dropped in
 *              order, and the return value is the part of n the vector could
 *              not supply ("left over count", aio.h).
 */
#ifndef VP_AIOIOV_CONTRACTS_H
#define VP_AIOIOV_CONTRACTS_H
/* clang-format off */
#define RV __CPROVER_return_value
#define OLD(e) __CPROVER_old(e)
#define J7 (g_j & 7u) /* in-bounds form of the ghost entry index (claims are for g_j < 8) */

#define IOV_ENTRY_SAME(a) ((a)->a_iov[J7].iov_len == OLD((a)->a_iov[J7].iov_len) && (a)->a_iov[J7].iov_buf == OLD((a)->a_iov[J7].iov_buf))

nng_err nni_aio_set_iov(nni_aio *aio, unsigned nio, const nni_iov *iov)
__CPROVER_requires(__CPROVER_is_fresh(aio, sizeof(nni_aio)))
#ifdef VP_SETIOV_ALIAS
/* "resubmitting our own io vector, with just a smaller count" */
__CPROVER_requires(__CPROVER_pointer_in_range_dfcc(&aio->a_iov[0], iov, &aio->a_iov[0]))
#else
/* the caller's array exists whenever the count is acceptable; anything at all otherwise */
__CPROVER_requires(nio > VIOV_MAX || nio == 0 || __CPROVER_is_fresh(iov, nio * sizeof(nni_iov)))
#endif
/* ghost equation (not a restriction): (g_p, g_n) is the caller's entry number g_j */
__CPROVER_requires((nio <= VIOV_MAX && g_j < nio) ==> (g_p == iov[g_j].iov_buf && g_n == iov[g_j].iov_len))
__CPROVER_assigns(aio->a_nio, __CPROVER_object_upto(&aio->a_iov[0], sizeof(aio->a_iov)))
__CPROVER_ensures(RV == NNG_OK || RV == NNG_EINVAL)
__CPROVER_ensures((RV == NNG_EINVAL) == (nio > VIOV_MAX))
/* refused: nothing changes */
__CPROVER_ensures(RV != NNG_OK ==> (aio->a_nio == OLD(aio->a_nio) && (g_j < VIOV_MAX ==> IOV_ENTRY_SAME(aio))))
/* accepted: exactly the caller's entries, in order; slots beyond them untouched */
__CPROVER_ensures(RV == NNG_OK ==> aio->a_nio == nio)
__CPROVER_ensures((RV == NNG_OK && g_j < nio) ==> (aio->a_iov[J7].iov_len == g_n && aio->a_iov[J7].iov_buf == g_p))
__CPROVER_ensures((RV == NNG_OK && g_j >= nio && g_j < VIOV_MAX) ==> IOV_ENTRY_SAME(aio))
;

size_t nni_aio_iov_count(nni_aio *aio)
__CPROVER_requires(__CPROVER_is_fresh(aio, sizeof(nni_aio)) && aio->a_nio <= VIOV_MAX)
__CPROVER_assigns()
__CPROVER_ensures(RV == IOV_TOTAL(IOV_CL, IOV_CN, aio))
;

bool nni_aio_iov_clamp_len(size_t *len, size_t *count)
__CPROVER_requires(__CPROVER_is_fresh(len, sizeof(*len)) && __CPROVER_is_fresh(count, sizeof(*count)))
__CPROVER_requires(*count <= (size_t) INT_MAX)
__CPROVER_assigns(*len, *count)
/* the cumulative count never exceeds INT_MAX; the length is cut exactly when it would */
__CPROVER_ensures(*count <= (size_t) INT_MAX && *count == OLD(*count) + *len)
__CPROVER_ensures(*len == VP_MIN(OLD(*len), (size_t) INT_MAX - OLD(*count)))
__CPROVER_ensures(RV == (OLD(*len) > (size_t) INT_MAX - OLD(*count)))
;

#define ADV_T0   IOV_TOTAL(IOV_OL, IOV_ON, aio)          /* bytes described before */
#define ADV_D    IOV_DROP(IOV_OL, IOV_ON, aio, n)        /* entries used up completely */
size_t nni_aio_iov_advance(nni_aio *aio, size_t n)
__CPROVER_requires(IOV_PRE(aio))
__CPROVER_assigns(aio->a_nio, __CPROVER_object_upto(&aio->a_iov[0], sizeof(aio->a_iov)))
__CPROVER_ensures(aio->a_nio <= VIOV_MAX && aio->a_nio <= OLD(aio->a_nio))
#if !defined(ADV_PART) || ADV_PART == 1
/* left-over count: what the vector could not supply */
#ifdef ADV_MUT
__CPROVER_ensures(RV == (n <= ADV_T0 ? (size_t) 0 : n - ADV_T0 + 1))
#else
__CPROVER_ensures(RV == (n <= ADV_T0 ? (size_t) 0 : n - ADV_T0))
#endif
#endif
#if !defined(ADV_PART) || ADV_PART == 2
/* ENTRY VIEW: entries used up completely are dropped from the front, in order ... */
__CPROVER_ensures(aio->a_nio == OLD(aio->a_nio) - ADV_D)
#endif
#if defined(ADV_WITH_FIRST) || (defined(ADV_PART) && ADV_PART == 3)
/* ... the first survivor loses its consumed front part: strictly less than its length, so the
 * buffer position stays inside the buffer ... */
__CPROVER_ensures((aio->a_nio > 0 && g_n == ADV_D && g_n < VIOV_MAX) ==> (n - IOV_PJ(IOV_OL, IOV_ON, aio, g_n) < OLD(aio->a_iov[g_n & 7u].iov_len) || n == IOV_PJ(IOV_OL, IOV_ON, aio, g_n)))
__CPROVER_ensures((aio->a_nio > 0 && g_n == ADV_D && g_n < VIOV_MAX) ==> (aio->a_iov[0].iov_len == OLD(aio->a_iov[g_n & 7u].iov_len) - (n - IOV_PJ(IOV_OL, IOV_ON, aio, g_n)) && (n == IOV_PJ(IOV_OL, IOV_ON, aio, g_n) ? aio->a_iov[0].iov_buf == OLD(aio->a_iov[g_n & 7u].iov_buf) : (char *) aio->a_iov[0].iov_buf == (char *) OLD(aio->a_iov[g_n & 7u].iov_buf) + (n - IOV_PJ(IOV_OL, IOV_ON, aio, g_n)))))
#endif
#if !defined(ADV_PART) || ADV_PART == 4
/* ... later survivors move down unchanged, in order (g_n: instantiation hint, the old position of new entry g_j) ... */
__CPROVER_ensures((g_j >= 1 && g_j < aio->a_nio && g_n == g_j + (OLD(aio->a_nio) - aio->a_nio) && g_n < VIOV_MAX) ==> (aio->a_iov[J7].iov_len == OLD(aio->a_iov[g_n & 7u].iov_len) && aio->a_iov[J7].iov_buf == OLD(aio->a_iov[g_n & 7u].iov_buf)))
/* ... vacated slots are marked (NULL, 0), slots never in use are untouched */
__CPROVER_ensures((g_j >= aio->a_nio && g_j < OLD(aio->a_nio)) ==> (aio->a_iov[J7].iov_len == 0 && aio->a_iov[J7].iov_buf == NULL))
__CPROVER_ensures((g_j >= OLD(aio->a_nio) && g_j < VIOV_MAX) ==> IOV_ENTRY_SAME(aio))
#endif
;
#endif
