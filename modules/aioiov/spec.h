/* Spec macros for the scatter/gather helpers of src/core/aio.c (C01).
 *
 * An aio carries a vector of at most NNI_AIO_MAX_IOV (8, a constant of the
 * code) entries (buffer, length).  The vector DESCRIBES A BYTE SEQUENCE: the
 * concatenation of its first a_nio entries.  Spec functions, written as
 * macros unrolled over the 8 slots and parametrised by the accessors
 * (L = length of slot i, B = buffer of slot i, N = entry count) so that the
 * same text serves for the current state and for the pre-state
 * (__CPROVER_old may only wrap simple expressions):
 *
 *   IOV_Pj      sum of the lengths of the first j entries (prefix sum)
 *   IOV_TOTAL   number of bytes described                  (= IOV_P8)
 *   IOV_LOC(k)  address of the k-th byte of the sequence   (k < TOTAL)
 *   IOV_DROP(n) how many leading entries a consumer of n bytes uses up
 *               completely: the first j with n == Pj or n < P(j+1)
 */
#ifndef VP_AIOIOV_SPEC_H
#define VP_AIOIOV_SPEC_H

#define VIOV_MAX 8u

/* accessors: current state */
#define IOV_CL(a, i) ((a)->a_iov[i].iov_len)
#define IOV_CB(a, i) ((char *) (a)->a_iov[i].iov_buf)
#define IOV_CN(a) ((a)->a_nio)
/* accessors: pre-state of the function under contract */
#define IOV_OL(a, i) __CPROVER_old((a)->a_iov[i].iov_len)
#define IOV_OB(a, i) ((char *) __CPROVER_old((a)->a_iov[i].iov_buf))
#define IOV_ON(a) __CPROVER_old((a)->a_nio)

#define IOV_EL(L, N, a, i) ((i) < N(a) ? L(a, i) : (size_t) 0)
#define IOV_P1(L, N, a) (IOV_EL(L, N, a, 0))
#define IOV_P2(L, N, a) (IOV_P1(L, N, a) + IOV_EL(L, N, a, 1))
#define IOV_P3(L, N, a) (IOV_P2(L, N, a) + IOV_EL(L, N, a, 2))
#define IOV_P4(L, N, a) (IOV_P3(L, N, a) + IOV_EL(L, N, a, 3))
#define IOV_P5(L, N, a) (IOV_P4(L, N, a) + IOV_EL(L, N, a, 4))
#define IOV_P6(L, N, a) (IOV_P5(L, N, a) + IOV_EL(L, N, a, 5))
#define IOV_P7(L, N, a) (IOV_P6(L, N, a) + IOV_EL(L, N, a, 6))
#define IOV_P8(L, N, a) (IOV_P7(L, N, a) + IOV_EL(L, N, a, 7))
#define IOV_TOTAL(L, N, a) IOV_P8(L, N, a)

/* prefix sum of the first j entries, j symbolic (0..8) */
#define IOV_PJ(L, N, a, j)                                              \
	((j) == 0 ? (size_t) 0 : (j) == 1 ? IOV_P1(L, N, a) : (j) == 2 ? IOV_P2(L, N, a) : \
	 (j) == 3 ? IOV_P3(L, N, a) : (j) == 4 ? IOV_P4(L, N, a) : (j) == 5 ? IOV_P5(L, N, a) : \
	 (j) == 6 ? IOV_P6(L, N, a) : (j) == 7 ? IOV_P7(L, N, a) : IOV_P8(L, N, a))

/* address of byte k of the described sequence */
#define IOV_LOC(L, B, N, a, k)                                          \
	((k) < IOV_P1(L, N, a) ? B(a, 0) + (k) :                            \
	 (k) < IOV_P2(L, N, a) ? B(a, 1) + ((k) - IOV_P1(L, N, a)) :        \
	 (k) < IOV_P3(L, N, a) ? B(a, 2) + ((k) - IOV_P2(L, N, a)) :        \
	 (k) < IOV_P4(L, N, a) ? B(a, 3) + ((k) - IOV_P3(L, N, a)) :        \
	 (k) < IOV_P5(L, N, a) ? B(a, 4) + ((k) - IOV_P4(L, N, a)) :        \
	 (k) < IOV_P6(L, N, a) ? B(a, 5) + ((k) - IOV_P5(L, N, a)) :        \
	 (k) < IOV_P7(L, N, a) ? B(a, 6) + ((k) - IOV_P6(L, N, a)) :        \
	 (k) < IOV_P8(L, N, a) ? B(a, 7) + ((k) - IOV_P7(L, N, a)) : (char *) 0)

/* number of leading entries used up completely by a consumer of n bytes
 * (an entry whose last byte is byte n-1 is used up; an empty entry in front
 * of the first unconsumed byte is used up only if something was consumed
 * after it); everything, when n exceeds the total */
#define IOV_DROP(L, N, a, n)                                            \
	(((n) == 0 || (n) < IOV_P1(L, N, a)) ? 0u :                         \
	 ((n) == IOV_P1(L, N, a) || (n) < IOV_P2(L, N, a)) ? VP_MIN(1u, N(a)) : \
	 ((n) == IOV_P2(L, N, a) || (n) < IOV_P3(L, N, a)) ? VP_MIN(2u, N(a)) : \
	 ((n) == IOV_P3(L, N, a) || (n) < IOV_P4(L, N, a)) ? VP_MIN(3u, N(a)) : \
	 ((n) == IOV_P4(L, N, a) || (n) < IOV_P5(L, N, a)) ? VP_MIN(4u, N(a)) : \
	 ((n) == IOV_P5(L, N, a) || (n) < IOV_P6(L, N, a)) ? VP_MIN(5u, N(a)) : \
	 ((n) == IOV_P6(L, N, a) || (n) < IOV_P7(L, N, a)) ? VP_MIN(6u, N(a)) : \
	 ((n) == IOV_P7(L, N, a) || (n) < IOV_P8(L, N, a)) ? VP_MIN(7u, N(a)) : N(a))


/* the described byte sequence fits size_t: no prefix sum wraps, i.e. the
 * prefix sums are monotone */
#define IOV_NOWRAP(a)                                                   \
	(IOV_P1(IOV_CL, IOV_CN, a) <= IOV_P2(IOV_CL, IOV_CN, a) && IOV_P2(IOV_CL, IOV_CN, a) <= IOV_P3(IOV_CL, IOV_CN, a) && \
	    IOV_P3(IOV_CL, IOV_CN, a) <= IOV_P4(IOV_CL, IOV_CN, a) && IOV_P4(IOV_CL, IOV_CN, a) <= IOV_P5(IOV_CL, IOV_CN, a) && \
	    IOV_P5(IOV_CL, IOV_CN, a) <= IOV_P6(IOV_CL, IOV_CN, a) && IOV_P6(IOV_CL, IOV_CN, a) <= IOV_P7(IOV_CL, IOV_CN, a) && \
	    IOV_P7(IOV_CL, IOV_CN, a) <= IOV_P8(IOV_CL, IOV_CN, a))
#define IOV_SNOWRAP                                                     \
	(IOV_P1(IOV_SL, IOV_SN, aio) <= IOV_P2(IOV_SL, IOV_SN, aio) && IOV_P2(IOV_SL, IOV_SN, aio) <= IOV_P3(IOV_SL, IOV_SN, aio) && \
	    IOV_P3(IOV_SL, IOV_SN, aio) <= IOV_P4(IOV_SL, IOV_SN, aio) && IOV_P4(IOV_SL, IOV_SN, aio) <= IOV_P5(IOV_SL, IOV_SN, aio) && \
	    IOV_P5(IOV_SL, IOV_SN, aio) <= IOV_P6(IOV_SL, IOV_SN, aio) && IOV_P6(IOV_SL, IOV_SN, aio) <= IOV_P7(IOV_SL, IOV_SN, aio) && \
	    IOV_P7(IOV_SL, IOV_SN, aio) <= IOV_P8(IOV_SL, IOV_SN, aio))
/* every entry already dropped was used up completely: n0 is beyond it */
#define ADV_DROPPED_OK(j) ((j) >= ADV_GONE || (vp_n0 > IOV_PJ(IOV_SL, IOV_SN, aio, j) && vp_n0 >= IOV_PJ(IOV_SL, IOV_SN, aio, (j) + 1u)))

/* ---- loop invariants of nni_aio_iov_advance (woven) ---------------------
 * vp_in / vp_n0: snapshot of *aio and n taken by a ghost statement woven at
 * the function entry.  NNI_AIO_MAX_IOV is a constant, so "for every slot" is
 * written out over the 8 slots (VP_ALL8). */
#define VP_ALL8(F) (F(0u) && F(1u) && F(2u) && F(3u) && F(4u) && F(5u) && F(6u) && F(7u))
/* accessors: function-entry snapshot */
#define IOV_SL(a, i) (vp_in.a_iov[i].iov_len)
#define IOV_SB(a, i) ((char *) vp_in.a_iov[i].iov_buf)
#define IOV_SN(a) (vp_in.a_nio)
#define ADV_GONE (vp_in.a_nio - aio->a_nio) /* entries dropped so far */
#define ADV_CUR_IS_IN(j, k) (aio->a_iov[j].iov_len == vp_in.a_iov[(k) & 7u].iov_len && aio->a_iov[j].iov_buf == vp_in.a_iov[(k) & 7u].iov_buf)
#define ADV_CUR_IS_NIL(j) (aio->a_iov[j].iov_len == 0 && aio->a_iov[j].iov_buf == NULL)
/* outer loop head: slot j holds the entry that was ADV_GONE places further back, vacated slots are (NULL,0), unused slots untouched */
#define ADV_OUT_ENT(j)                                                  \
	((j) < aio->a_nio ? ADV_CUR_IS_IN(j, (j) + ADV_GONE)                \
	 : (j) < vp_in.a_nio ? ADV_CUR_IS_NIL(j) : ADV_CUR_IS_IN(j, j))
/* inner (shift) loop head: slots below i already moved down by one more place */
#define ADV_IN_ENT(j)                                                   \
	((j) < i ? ADV_CUR_IS_IN(j, (j) + ADV_GONE)                         \
	 : (j) <= aio->a_nio ? ADV_CUR_IS_IN(j, (j) + ADV_GONE - 1u)        \
	 : (j) < vp_in.a_nio ? ADV_CUR_IS_NIL(j) : ADV_CUR_IS_IN(j, j))

/* shape precondition: the aio exists, the count respects the array, every
 * non-empty entry in use names an existing buffer of that length */
#ifdef IOV_BUFFERS_OPAQUE
/* buffer positions are arbitrary pointer values (the function never looks
 * through them); that the bump stays inside the buffer is a postcondition */
#define IOV_ENT_PRE(a, i) (1)
#else
#define IOV_ENT_PRE(a, i)                                               \
	((i) >= (a)->a_nio || (a)->a_iov[i].iov_len == 0 ||                 \
	    __CPROVER_is_fresh((a)->a_iov[i].iov_buf, (a)->a_iov[i].iov_len))
#endif
#define IOV_PRE(a)                                                      \
	(__CPROVER_is_fresh((a), sizeof(nni_aio)) && (a)->a_nio <= VIOV_MAX && IOV_NOWRAP(a) && \
	    IOV_ENT_PRE(a, 0) && IOV_ENT_PRE(a, 1) && IOV_ENT_PRE(a, 2) &&  \
	    IOV_ENT_PRE(a, 3) && IOV_ENT_PRE(a, 4) && IOV_ENT_PRE(a, 5) &&  \
	    IOV_ENT_PRE(a, 6) && IOV_ENT_PRE(a, 7))

/* ---- entry snapshots for the native replay driver (modules/aioiov/replay.c; locals woven
 * at function entry, read by vp/replay.py from counterexample traces).  nni_aio_iov_advance
 * already has `vp_in` / `vp_n0` (used by its loop invariants); the same names are used for
 * the other helpers.  Plain copies, nothing is written. */
/* CBMC's per-dereference checks are switched off inside the snapshot statements, so that they
 * add no proof obligations (every read is guarded by the same conditions the code itself uses) */
#define VP_SNAP_BEGIN                                                                          \
	_Pragma("CPROVER check push") _Pragma("CPROVER check disable \"pointer\"")               \
	_Pragma("CPROVER check disable \"bounds\"") _Pragma("CPROVER check disable \"pointer-primitive\"") \
	_Pragma("CPROVER check disable \"pointer-overflow\"")
#define VP_SNAP_END _Pragma("CPROVER check pop")
#define VP_SNAP_AIO() VP_SNAP_BEGIN nni_aio vp_in = *aio; VP_SNAP_END
#define VP_SNAP_IOV_E(i)                                                                      \
	size_t vp_arg_len##i = (nio <= VIOV_MAX && (i) < nio) ? iov[i].iov_len : (size_t) 0;      \
	size_t vp_arg_buf##i = (nio <= VIOV_MAX && (i) < nio) ? (size_t) (iov[i].iov_buf != NULL) : (size_t) 0
#define VP_SNAP_SETIOV()                                                                      \
	VP_SNAP_BEGIN                                                                             \
	nni_aio  vp_in = *aio;                                                                    \
	unsigned vp_arg_nio = nio, vp_arg_alias = (iov == &aio->a_iov[0]);                        \
	VP_SNAP_IOV_E(0); VP_SNAP_IOV_E(1); VP_SNAP_IOV_E(2); VP_SNAP_IOV_E(3);                   \
	VP_SNAP_IOV_E(4); VP_SNAP_IOV_E(5); VP_SNAP_IOV_E(6); VP_SNAP_IOV_E(7);                   \
	VP_SNAP_END

#endif
