for p in ("xrep0", "xresp0", "xreq0", "xsurv0"):
    U(p + "_pipe_stop", p + "_pipe_stop", props=("C03",))
for p in ("xrep0", "xresp0", "xsurv0"):
    U(p + "_pipe_fini", p + "_pipe_fini", replace=["nni_msgq_fini"], props=("C03",))
    U(p + "_pipe_fini_noq", p + "_pipe_fini", replace=["nni_msgq_fini"], defines=["XP_NOQ 1"], props=("C03",),
      note="case split: the pipe never got its queue (pipe_init failed)")
    U(p + "_pipe_init", p + "_pipe_init", replace=["nni_msgq_init", "nni_msgq_fini"], props=("C03",))
U("xreq0_pipe_fini", "xreq0_pipe_fini", props=("C03",))
U("xreq0_pipe_init", "xreq0_pipe_init", props=("C03",))
for p in ("xrep0", "xresp0"):
    t = "C04" if p == "xrep0" else "C07"
    U(p + "_pipe_close", p + "_pipe_close", replace=["nni_msgq_close", "nni_id_remove"], props=("C03", t, "C13"))
    U(p + "_pipe_close_noq", p + "_pipe_close", replace=["nni_msgq_close", "nni_id_remove"], defines=["XP_NOQ 1"], props=("C03",),
      note="the state a failed pipe_init leaves (no queue): pipe_create runs pipe_close on it")
U("xsurv0_pipe_close", "xsurv0_pipe_close", replace=["nni_msgq_close"], props=("C03", "C07"))
U("xsurv0_pipe_close_noq", "xsurv0_pipe_close", replace=["nni_msgq_close"], defines=["XP_NOQ 1"], props=("C03",),
  note="the state a failed pipe_init leaves (no queue): pipe_create runs pipe_close on it")
U("xrep0_pipe_start", "xrep0_pipe_start", replace=["nni_id_set", "nni_msgq_aio_get"], props=("C04", "C03", "C13"))
for p in ("xrep0", "xresp0"):
    U(p + "_sock_init", p + "_sock_init", replace=["nni_id_map_init"], props=("C13",))
    U(p + "_sock_fini", p + "_sock_fini", replace=["nni_id_map_fini"], props=("C03",))
U("xsurv0_sock_init", "xsurv0_sock_init", props=("C13",))
U("xsurv0_sock_fini", "xsurv0_sock_fini", props=("C03",))
U("xreq0_sock_init", "xreq0_sock_init", props=("C13",))
for p in ("xrep0", "xresp0", "xsurv0"):
    U(p + "_sock_close", p + "_sock_close", props=("C03",))
    U(p + "_sock_open", p + "_sock_open", replace=["nni_msgq_aio_get"], props=("C13",))
U("xrep0_sock_set_maxttl", "xrep0_sock_set_maxttl", props=("C13",))
U("xresp0_sock_set_maxttl", "xresp0_sock_set_maxttl", props=("C13",))
U("xreq0_sock_set_max_ttl", "xreq0_sock_set_max_ttl", props=("C13",))
U("xsurv0_sock_set_max_ttl", "xsurv0_sock_set_max_ttl", props=("C13",))
U("xp_idhash_remove", "nni_id_remove", replace=["id_resize", "id_find"], props=("C03",),
  note="enforces the nni_id_remove contract text used by the pipe_close units (modules/idhash contract + 'RV == 0 ==> g_found < OLD(id_cap)') on the real idhash.c; loop invariant and ghost statement woven as in modules/idhash; id_find / id_resize replaced by their contracts (enforced by idhash_find / idhash_resize)",
  assumes=["probe loop closed by invariant without decreases clause: termination not claimed (as in modules/idhash)"])
units[-1]["entry"] = "h_xp_idhash_remove"
