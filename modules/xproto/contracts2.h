/* modules/xproto/contracts2.h -- pipe and socket life cycle, pipe start/close, NNG_OPT_MAXTTL.
 * Included by contracts.h (macros only; instantiated at the end of this file). */

/* ---- pipe_stop: every aio of the pipe is stopped exactly once, nothing else ---- */
#define XP_PIPE_TRACK(PT) XP_TRACK4(&XQ(PT)->aio_getq, &XQ(PT)->aio_send, &XQ(PT)->aio_recv, &XQ(PT)->aio_putq)
#define XP_PIPE_STOP(FN, PT)                                               \
static void FN(void *arg)                                                  \
__CPROVER_requires(__CPROVER_is_fresh(arg, sizeof(struct PT)) && XP_PIPE_TRACK(PT)) \
__CPROVER_assigns(g_xp.stop_n)                                             \
__CPROVER_ensures(XP_EACH_ONCE4(stop_n))                                   \
;

/* ---- pipe_fini (C03): every aio finalised exactly once; the per-pipe queue is released with
 * everything still queued in it, each message exactly once, oldest first (msgq contract);
 * a pipe whose queue was never created (init failed) releases nothing. ---- */
#define XP_PIPE_FINI_Q(FN, PT)                                             \
static void FN(void *arg)                                                  \
__CPROVER_requires(__CPROVER_is_fresh(arg, sizeof(struct PT)) && XP_PIPE_TRACK(PT) && VP_NO_LOCK_HELD) \
__CPROVER_requires(MQ_PRE(XQ(PT)->sendq) && MQ_GHOST_PRE(XQ(PT)->sendq))   \
__CPROVER_assigns(g_xp.fini_n, XQ(PT)->sendq->mq_get, XQ(PT)->sendq->mq_len, g_msg_freed, g_msg_freed_at_j, g_free_calls) \
__CPROVER_frees(XQ(PT)->sendq, XQ(PT)->sendq->mq_msgs)                     \
__CPROVER_ensures(XP_EACH_ONCE4(fini_n))                                   \
__CPROVER_ensures(g_msg_freed == OLD(g_msg_freed) + OLD(XQ(PT)->sendq->mq_len)) \
__CPROVER_ensures((g_k < OLD(XQ(PT)->sendq->mq_len) && g_j == OLD(g_msg_freed) + g_k) ==> g_msg_freed_at_j == g_p) \
__CPROVER_ensures(g_free_calls == OLD(g_free_calls) + 2 && __CPROVER_was_freed(OLD(XQ(PT)->sendq)) && __CPROVER_was_freed(OLD(XQ(PT)->sendq->mq_msgs))) \
;
#define XP_PIPE_FINI_NOQ(FN, PT)                                           \
static void FN(void *arg)                                                  \
__CPROVER_requires(__CPROVER_is_fresh(arg, sizeof(struct PT)) && XP_PIPE_TRACK(PT) && VP_NO_LOCK_HELD) \
__CPROVER_requires(XQ(PT)->sendq == NULL)                                  \
__CPROVER_assigns(g_xp.fini_n, g_msg_freed, g_msg_freed_at_j, g_free_calls) \
__CPROVER_ensures(XP_EACH_ONCE4(fini_n) && g_msg_freed == OLD(g_msg_freed) && g_free_calls == OLD(g_free_calls)) \
;
#define XP_PIPE_FINI_PLAIN(FN, PT)                                         \
static void FN(void *arg)                                                  \
__CPROVER_requires(__CPROVER_is_fresh(arg, sizeof(struct PT)) && XP_PIPE_TRACK(PT)) \
__CPROVER_assigns(g_xp.fini_n)                                             \
__CPROVER_ensures(XP_EACH_ONCE4(fini_n))                                   \
;

/* ---- pipe_init.  The pipe structure arrives zeroed (pipe_create: nni_zalloc).  Whatever the
 * result, the core then runs pipe_close, pipe_stop and pipe_fini on it when init fails
 * (pipe_create: nni_pipe_close + nni_pipe_rele -> pipe_reap -> pipe_destroy), so a failed init
 * must leave a pipe those three accept: back pointers set, aios initialised ONCE and NOT yet
 * finalised (pipe_fini will do it, exactly once: C03), no queue (sendq == NULL), nothing leaked. */
#define XP_INIT_CB(i, CB) (g_xp.init_n[i] == OLD(g_xp.init_n[i]) + 1 && g_xp.init_cb[i] == (CB) && g_xp.init_arg[i] == arg)
#define XP_PIPE_INIT_Q(FN, PT, NPF, SKF, DEPTH, CB_GETQ, CB_SEND, CB_RECV, CB_PUTQ) \
static int FN(void *arg, nni_pipe *pipe, void *s)                          \
__CPROVER_requires(__CPROVER_is_fresh(arg, sizeof(struct PT)) && XP_PIPE_TRACK(PT) && VP_NO_LOCK_HELD) \
__CPROVER_requires(XQ(PT)->sendq == NULL && XQ(PT)->NPF == NULL && XQ(PT)->SKF == NULL) \
__CPROVER_assigns(XQ(PT)->NPF, XQ(PT)->SKF, XQ(PT)->sendq, g_xp, g_alloc_ok, g_free_calls, g_msg_freed, g_msg_freed_at_j) \
__CPROVER_ensures(RV == 0 || RV == NNG_ENOMEM)                             \
__CPROVER_ensures(XP_INIT_CB(0, CB_GETQ) && XP_INIT_CB(1, CB_SEND) && XP_INIT_CB(2, CB_RECV) && XP_INIT_CB(3, CB_PUTQ) && g_xp.init_n[4] == OLD(g_xp.init_n[4]) && g_xp.init_n[5] == OLD(g_xp.init_n[5])) \
__CPROVER_ensures(XP_NONE(fini_n) && XP_NONE(stop_n) && XP_NONE(close_n))  \
__CPROVER_ensures(XQ(PT)->NPF == pipe && XQ(PT)->SKF == s && g_msg_freed == OLD(g_msg_freed)) \
__CPROVER_ensures(RV == 0 ==> (VP_HEAP_DELTA(2, 0) && __CPROVER_is_fresh(XQ(PT)->sendq, sizeof(struct nni_msgq)) && XQ(PT)->sendq->mq_cap == (DEPTH) && XQ(PT)->sendq->mq_len == 0 && !XQ(PT)->sendq->mq_closed && MQ_WF_SCALAR(XQ(PT)->sendq))) \
__CPROVER_ensures(RV != 0 ==> (XQ(PT)->sendq == NULL && g_alloc_ok - OLD(g_alloc_ok) == g_free_calls - OLD(g_free_calls))) \
;
#define XP_PIPE_INIT_PLAIN(FN, PT, NPF, SKF, CB_GETQ, CB_SEND, CB_RECV, CB_PUTQ) \
static int FN(void *arg, nni_pipe *pipe, void *s)                          \
__CPROVER_requires(__CPROVER_is_fresh(arg, sizeof(struct PT)) && XP_PIPE_TRACK(PT)) \
__CPROVER_assigns(XQ(PT)->NPF, XQ(PT)->SKF, g_xp)                          \
__CPROVER_ensures(RV == 0 && XQ(PT)->NPF == pipe && XQ(PT)->SKF == s)      \
__CPROVER_ensures(XP_INIT_CB(0, CB_GETQ) && XP_INIT_CB(1, CB_SEND) && XP_INIT_CB(2, CB_RECV) && XP_INIT_CB(3, CB_PUTQ) && g_xp.init_n[4] == OLD(g_xp.init_n[4]) && g_xp.init_n[5] == OLD(g_xp.init_n[5])) \
__CPROVER_ensures(XP_NONE(fini_n) && XP_NONE(stop_n) && XP_NONE(close_n))  \
;

/* ---- pipe_close (C03, C04/C07).  Every aio closed exactly once; the per-pipe queue is closed and
 * what was queued for this peer is released exactly once each (msgq contract: g_msg_freed advances by
 * the old length, the g_k-th oldest message is the g_k-th released), waiters are completed with
 * NNG_ECLOSED; the pipe's id -- and no other -- leaves the socket's id map (idhash contract: the
 * reported slot held exactly this key; one entry less; or the id was not there and the map is
 * untouched), so a later reply naming this id finds no pipe and is dropped.  The lock is released. */
#define XP_CLOSE_COMMON_REQ(PT, ST, SKF)                                   \
__CPROVER_requires(__CPROVER_is_fresh(arg, sizeof(struct PT)) && XP_PIPE_TRACK(PT) && VP_NO_LOCK_HELD) \
__CPROVER_requires(__CPROVER_is_fresh(XQ(PT)->SKF, sizeof(struct ST)))
#define XP_MQ_CLOSED_POST(mq)                                              \
	((mq)->mq_closed && (mq)->mq_len == 0 && MQ_WF_SCALAR(mq) && MQ_GEOM_SAME(mq) && \
	    g_msg_freed == OLD(g_msg_freed) + OLD((mq)->mq_len) &&             \
	    g_putq.n == 0 && g_getq.n == 0 && g_fin_calls == OLD(g_fin_calls) + OLD(g_putq.n) + OLD(g_getq.n) && \
	    ((OLD(g_putq.n) + OLD(g_getq.n) > 0) ==> g_fin_last_rv == NNG_ECLOSED) && g_fin_msg_calls == OLD(g_fin_msg_calls))
#define XP_IDM_REMOVED_POST(m, KEY)                                        \
	(IDM_RANGE_UNCHANGED(m) &&                                             \
	    (((m)->id_count == OLD((m)->id_count) - 1 && OLD((m)->id_count) >= 1 && IDM_SCALAR(m) && g_found < OLD((m)->id_cap) && \
	         ((g_k == g_found) ==> (g_k < OLD((m)->id_cap) && g_kk == (uint64_t) (KEY) && g_kv != NULL)) && \
	         (((void *) (m)->id_entries == g_ents) ==> ((m)->id_entries[g_found].val == NULL && (m)->id_entries[g_found].key == 0)) && \
	         (((void *) (m)->id_entries == g_ents && g_k < (m)->id_cap && g_k != g_found) ==> IDM_SLOT_KV_SAME(m))) || \
	        ((m)->id_count == OLD((m)->id_count) && g_found == IDM_NOTFOUND && (m)->id_cap == OLD((m)->id_cap) && (m)->id_load == OLD((m)->id_load) && \
	            ((g_k < (m)->id_cap) ==> IDM_SLOT_SAME(m)))))
#define XP_PIPE_CLOSE_IDM(FN, PT, ST, SKF, KEY)                            \
static void FN(void *arg)                                                  \
XP_CLOSE_COMMON_REQ(PT, ST, SKF)                                           \
__CPROVER_requires(MQ_PRE(XQ(PT)->sendq) && MQ_GHOST_PRE(XQ(PT)->sendq))   \
__CPROVER_requires(XP_IDM_PRE(&XQ(PT)->SKF->pipes))                        \
__CPROVER_assigns(g_xp.close_n, g_env.aio_close_calls, XP_MQ_CLOSE_TARGETS(XQ(PT)->sendq), XP_IDM_TARGETS(&XQ(PT)->SKF->pipes)) \
__CPROVER_assigns(XQ(PT)->SKF->pipes.id_cap != 0: __CPROVER_object_whole(XQ(PT)->SKF->pipes.id_entries)) \
__CPROVER_frees(XQ(PT)->SKF->pipes.id_entries)                             \
__CPROVER_ensures(VP_NO_LOCK_HELD && XP_EACH_ONCE4(close_n))               \
__CPROVER_ensures(XP_MQ_CLOSED_POST(XQ(PT)->sendq))                        \
__CPROVER_ensures((g_k < OLD(XQ(PT)->sendq->mq_len) && g_j == OLD(g_msg_freed) + g_k) ==> g_msg_freed_at_j == g_p) \
__CPROVER_ensures(XP_IDM_REMOVED_POST(&XQ(PT)->SKF->pipes, KEY))           \
;
/* the state a FAILED pipe_init leaves (see above): no queue.  pipe_close must accept it. */
#define XP_PIPE_CLOSE_IDM_NOQ(FN, PT, ST, SKF, KEY)                        \
static void FN(void *arg)                                                  \
XP_CLOSE_COMMON_REQ(PT, ST, SKF)                                           \
__CPROVER_requires(XQ(PT)->sendq == NULL)                                  \
__CPROVER_requires(XP_IDM_PRE(&XQ(PT)->SKF->pipes))                        \
__CPROVER_assigns(g_xp.close_n, g_env.aio_close_calls, VP_SYNC_GHOSTS, XP_IDM_TARGETS(&XQ(PT)->SKF->pipes)) \
__CPROVER_assigns(XQ(PT)->SKF->pipes.id_cap != 0: __CPROVER_object_whole(XQ(PT)->SKF->pipes.id_entries)) \
__CPROVER_frees(XQ(PT)->SKF->pipes.id_entries)                             \
__CPROVER_ensures(VP_NO_LOCK_HELD && XP_EACH_ONCE4(close_n))               \
__CPROVER_ensures(XP_IDM_REMOVED_POST(&XQ(PT)->SKF->pipes, KEY))           \
;
/* xsurvey keeps its pipes on a list instead of an id map */
#define XP_PIPE_CLOSE_LIST(FN, PT, ST, SKF)                                \
static void FN(void *arg)                                                  \
XP_CLOSE_COMMON_REQ(PT, ST, SKF)                                           \
__CPROVER_requires(MQ_PRE(XQ(PT)->sendq) && MQ_GHOST_PRE(XQ(PT)->sendq))   \
__CPROVER_requires(g_pl_addr == &XQ(PT)->SKF->pipes && (g_pl_active ==> g_pl_n >= 1)) \
__CPROVER_assigns(g_xp.close_n, g_env.aio_close_calls, XP_MQ_CLOSE_TARGETS(XQ(PT)->sendq), g_pl_active, g_pl_n, g_pl_removed) \
__CPROVER_ensures(VP_NO_LOCK_HELD && XP_EACH_ONCE4(close_n))               \
__CPROVER_ensures(XP_MQ_CLOSED_POST(XQ(PT)->sendq))                        \
__CPROVER_ensures((g_k < OLD(XQ(PT)->sendq->mq_len) && g_j == OLD(g_msg_freed) + g_k) ==> g_msg_freed_at_j == g_p) \
__CPROVER_ensures(!g_pl_active && (OLD(g_pl_active) ? (g_pl_n == OLD(g_pl_n) - 1 && g_pl_removed == arg) : (g_pl_n == OLD(g_pl_n) && g_pl_removed == OLD(g_pl_removed)))) \
;
#define XP_PIPE_CLOSE_LIST_NOQ(FN, PT, ST, SKF)                            \
static void FN(void *arg)                                                  \
XP_CLOSE_COMMON_REQ(PT, ST, SKF)                                           \
__CPROVER_requires(XQ(PT)->sendq == NULL)                                  \
__CPROVER_requires(g_pl_addr == &XQ(PT)->SKF->pipes && !g_pl_active)       \
__CPROVER_assigns(g_xp.close_n, g_env.aio_close_calls, VP_SYNC_GHOSTS, g_pl_active, g_pl_n, g_pl_removed) \
__CPROVER_ensures(VP_NO_LOCK_HELD && XP_EACH_ONCE4(close_n) && !g_pl_active && g_pl_n == OLD(g_pl_n)) \
;

/* ---- xrep0_pipe_start (C04): wrong peer protocol refused with nothing registered or armed; else the
 * pipe is registered under ITS id (idhash contract: slot g_slot holds (id, this pipe)); if that fails
 * for memory nothing is armed; else exactly one get from the pipe's queue and exactly one receive. ---- */
#define XS_P ((struct xrep0_pipe *) arg)
#define XS_S (((struct xrep0_pipe *) arg)->rep)
static int xrep0_pipe_start(void *arg)
__CPROVER_requires(__CPROVER_is_fresh(arg, sizeof(struct xrep0_pipe)) && __CPROVER_is_fresh(XS_S, sizeof(struct xrep0_sock)) && VP_NO_LOCK_HELD)
__CPROVER_requires(XP_IDM_PRE(&XS_S->pipes) && XS_S->pipes.id_count < IDM_MAXCOUNT)
__CPROVER_requires(XP_MQ_GET_PRE(XS_P->sendq, &XS_P->aio_getq))
__CPROVER_assigns(XP_IDM_TARGETS(&XS_S->pipes), XP_MQ_GET_TARGETS(XS_P->sendq), g_pipe_recv_calls, g_pipe_recv_pipe, g_pipe_recv_aio)
__CPROVER_assigns(XS_S->pipes.id_cap != 0: __CPROVER_object_whole(XS_S->pipes.id_entries))
__CPROVER_frees(XS_S->pipes.id_entries)
__CPROVER_ensures(VP_NO_LOCK_HELD && (RV == 0 || RV == NNG_EPROTO || RV == NNG_ENOMEM))
__CPROVER_ensures((RV == NNG_EPROTO) == (g_pipe_peer != 0x30))
__CPROVER_ensures(RV != 0 ==> (XS_S->pipes.id_count == OLD(XS_S->pipes.id_count) && XS_S->pipes.id_cap == OLD(XS_S->pipes.id_cap) && g_pipe_recv_calls == OLD(g_pipe_recv_calls) && g_start_calls == OLD(g_start_calls) && g_fin_calls == OLD(g_fin_calls) && g_getq.n == OLD(g_getq.n) && XS_P->sendq->mq_len == OLD(XS_P->sendq->mq_len)))
__CPROVER_ensures((RV != 0 && g_k < XS_S->pipes.id_cap) ==> IDM_SLOT_SAME(&XS_S->pipes))
__CPROVER_ensures(RV == 0 ==> (IDM_SCALAR(&XS_S->pipes) && g_slot < XS_S->pipes.id_cap && XS_S->pipes.id_entries[g_slot].key == (uint64_t) g_pipe_id && XS_S->pipes.id_entries[g_slot].val == arg && (XS_S->pipes.id_count == OLD(XS_S->pipes.id_count) || XS_S->pipes.id_count == OLD(XS_S->pipes.id_count) + 1)))
__CPROVER_ensures((RV == 0 && (void *) XS_S->pipes.id_entries == g_ents && g_k < XS_S->pipes.id_cap && g_k != g_slot) ==> IDM_SLOT_KV_SAME(&XS_S->pipes))
__CPROVER_ensures(RV == 0 ==> (g_pipe_recv_calls == OLD(g_pipe_recv_calls) + 1 && g_pipe_recv_pipe == XS_P->pipe && g_pipe_recv_aio == &XS_P->aio_recv && XP_MQ_GET_POST(XS_P->sendq)))
;

/* ---- socket life cycle ---- */
#define XP_SOCK_INIT_IDM(FN, ST, CB)                                       \
static void FN(void *arg, nni_sock *sock)                                  \
__CPROVER_requires(__CPROVER_is_fresh(arg, sizeof(struct ST)) && XP_TRACK1(&XQ(ST)->aio_getq)) \
__CPROVER_assigns(*XQ(ST), g_xp)                                           \
__CPROVER_ensures(XQ(ST)->ttl.v == 8 && XP_TTL_OK(XQ(ST)->ttl.v) && XQ(ST)->uwq == g_sock_sendq && XQ(ST)->urq == g_sock_recvq) \
__CPROVER_ensures(g_xp.init_n[0] == OLD(g_xp.init_n[0]) + 1 && g_xp.init_cb[0] == (CB) && g_xp.init_arg[0] == arg && g_xp.init_n[5] == OLD(g_xp.init_n[5])) \
__CPROVER_ensures(XP_NONE(fini_n) && XP_NONE(stop_n) && XP_NONE(close_n))  \
__CPROVER_ensures(XQ(ST)->pipes.id_cap == 0 && XQ(ST)->pipes.id_entries == NULL && XQ(ST)->pipes.id_count == 0 && IDM_SCALAR(&XQ(ST)->pipes) && XQ(ST)->pipes.id_min_val == 1 && XQ(ST)->pipes.id_max_val == 0xffffffffu && !XQ(ST)->pipes.id_static) \
;
#define XP_SOCK_FINI_IDM(FN, ST)                                           \
static void FN(void *arg)                                                  \
__CPROVER_requires(__CPROVER_is_fresh(arg, sizeof(struct ST)) && XP_TRACK1(&XQ(ST)->aio_getq) && VP_NO_LOCK_HELD) \
__CPROVER_requires(XP_IDM_PRE(&XQ(ST)->pipes))                             \
__CPROVER_assigns(g_xp.fini_n, XQ(ST)->pipes, g_free_calls, g_alloc_ok)    \
__CPROVER_frees(XQ(ST)->pipes.id_entries)                                  \
__CPROVER_ensures(XP_ONCE1(fini_n) && XQ(ST)->pipes.id_cap == 0 && XQ(ST)->pipes.id_entries == NULL) \
__CPROVER_ensures(VP_HEAP_DELTA(0, (OLD(XQ(ST)->pipes.id_cap) != 0 ? 1 : 0))) \
__CPROVER_ensures(OLD(XQ(ST)->pipes.id_cap) != 0 ==> __CPROVER_was_freed(OLD(XQ(ST)->pipes.id_entries))) \
;
#define XP_SOCK_CLOSE(FN, ST)                                              \
static void FN(void *arg)                                                  \
__CPROVER_requires(__CPROVER_is_fresh(arg, sizeof(struct ST)) && XP_TRACK1(&XQ(ST)->aio_getq)) \
__CPROVER_assigns(g_xp.close_n, g_env.aio_close_calls)                     \
__CPROVER_ensures(XP_ONCE1(close_n) && g_aio_close_calls == OLD(g_aio_close_calls) + 1) \
;
#define XP_SOCK_OPEN(FN, ST)                                               \
static void FN(void *arg)                                                  \
__CPROVER_requires(__CPROVER_is_fresh(arg, sizeof(struct ST)) && VP_NO_LOCK_HELD) \
__CPROVER_requires(XP_MQ_GET_PRE(XQ(ST)->uwq, &XQ(ST)->aio_getq))          \
__CPROVER_assigns(XP_MQ_GET_TARGETS(XQ(ST)->uwq))                          \
__CPROVER_ensures(VP_NO_LOCK_HELD && XP_MQ_GET_POST(XQ(ST)->uwq))          \
;
/* xsurvey / xreq sockets (no id map) */
static void xsurv0_sock_init(void *arg, nni_sock *nsock)
__CPROVER_requires(__CPROVER_is_fresh(arg, sizeof(struct xsurv0_sock)) && XP_TRACK1(&XQ(xsurv0_sock)->aio_getq))
__CPROVER_assigns(*XQ(xsurv0_sock), g_xp, g_pl_addr, g_pl_n, g_pl_init_calls)
__CPROVER_ensures(XQ(xsurv0_sock)->ttl.v == 8 && XQ(xsurv0_sock)->uwq == g_sock_sendq && XQ(xsurv0_sock)->urq == g_sock_recvq)
__CPROVER_ensures(g_xp.init_n[0] == OLD(g_xp.init_n[0]) + 1 && g_xp.init_cb[0] == xsurv0_sock_getq_cb && g_xp.init_arg[0] == arg && g_xp.init_n[5] == OLD(g_xp.init_n[5]))
__CPROVER_ensures(XP_NONE(fini_n) && XP_NONE(stop_n) && XP_NONE(close_n))
__CPROVER_ensures(g_pl_init_calls == OLD(g_pl_init_calls) + 1 && g_pl_addr == &XQ(xsurv0_sock)->pipes && g_pl_n == 0)
;
static void xsurv0_sock_fini(void *arg)
__CPROVER_requires(__CPROVER_is_fresh(arg, sizeof(struct xsurv0_sock)) && XP_TRACK1(&XQ(xsurv0_sock)->aio_getq) && VP_NO_LOCK_HELD)
__CPROVER_assigns(g_xp.fini_n)
__CPROVER_ensures(XP_ONCE1(fini_n))
;
static void xreq0_sock_init(void *arg, nni_sock *sock)
__CPROVER_requires(__CPROVER_is_fresh(arg, sizeof(struct xreq0_sock)))
__CPROVER_assigns(*XQ(xreq0_sock))
__CPROVER_ensures(XQ(xreq0_sock)->ttl.v == 8 && XQ(xreq0_sock)->uwq == g_sock_sendq && XQ(xreq0_sock)->urq == g_sock_recvq)
;

/* ---- NNG_OPT_MAXTTL (C13): accepted exactly for an int in 1..NNI_MAX_MAX_TTL (15); anything else
 * is refused and the limit in force is unchanged, so it always stays within 1..15. ---- */
#define XP_SET_TTL(FN, ST)                                                 \
static nng_err FN(void *arg, const void *buf, size_t sz, nni_opt_type t)   \
__CPROVER_requires(__CPROVER_is_fresh(arg, sizeof(struct ST)) && __CPROVER_is_fresh(buf, sizeof(int))) \
__CPROVER_assigns(XQ(ST)->ttl)                                             \
__CPROVER_ensures((RV == NNG_OK) == (t == NNI_TYPE_INT32 && *(const int *) buf >= 1 && *(const int *) buf <= 15)) \
__CPROVER_ensures(RV == NNG_OK ==> XQ(ST)->ttl.v == *(const int *) buf)    \
__CPROVER_ensures(RV != NNG_OK ==> (XQ(ST)->ttl.v == OLD(XQ(ST)->ttl.v) && RV == (t != NNI_TYPE_INT32 ? NNG_EBADTYPE : NNG_EINVAL))) \
__CPROVER_ensures(XP_TTL_OK(OLD(XQ(ST)->ttl.v)) ==> XP_TTL_OK(XQ(ST)->ttl.v)) \
;

/* ---------------- instantiation ---------------- */
XP_PIPE_STOP(xrep0_pipe_stop, xrep0_pipe)
XP_PIPE_STOP(xresp0_pipe_stop, xresp0_pipe)
XP_PIPE_STOP(xreq0_pipe_stop, xreq0_pipe)
XP_PIPE_STOP(xsurv0_pipe_stop, xsurv0_pipe)
#ifdef XP_NOQ
XP_PIPE_FINI_NOQ(xrep0_pipe_fini, xrep0_pipe)
XP_PIPE_FINI_NOQ(xresp0_pipe_fini, xresp0_pipe)
XP_PIPE_FINI_NOQ(xsurv0_pipe_fini, xsurv0_pipe)
XP_PIPE_CLOSE_IDM_NOQ(xrep0_pipe_close, xrep0_pipe, xrep0_sock, rep, g_pipe_id)
XP_PIPE_CLOSE_IDM_NOQ(xresp0_pipe_close, xresp0_pipe, xresp0_sock, psock, XQ(xresp0_pipe)->id)
XP_PIPE_CLOSE_LIST_NOQ(xsurv0_pipe_close, xsurv0_pipe, xsurv0_sock, psock)
#else
XP_PIPE_FINI_Q(xrep0_pipe_fini, xrep0_pipe)
XP_PIPE_FINI_Q(xresp0_pipe_fini, xresp0_pipe)
XP_PIPE_FINI_Q(xsurv0_pipe_fini, xsurv0_pipe)
XP_PIPE_CLOSE_IDM(xrep0_pipe_close, xrep0_pipe, xrep0_sock, rep, g_pipe_id)
XP_PIPE_CLOSE_IDM(xresp0_pipe_close, xresp0_pipe, xresp0_sock, psock, XQ(xresp0_pipe)->id)
XP_PIPE_CLOSE_LIST(xsurv0_pipe_close, xsurv0_pipe, xsurv0_sock, psock)
#endif
XP_PIPE_FINI_PLAIN(xreq0_pipe_fini, xreq0_pipe)
XP_PIPE_INIT_Q(xrep0_pipe_init, xrep0_pipe, pipe, rep, 64, xrep0_pipe_getq_cb, xrep0_pipe_send_cb, xrep0_pipe_recv_cb, xrep0_pipe_putq_cb)
XP_PIPE_INIT_Q(xresp0_pipe_init, xresp0_pipe, npipe, psock, 2, xresp0_getq_cb, xresp0_send_cb, xresp0_recv_cb, xresp0_putq_cb)
XP_PIPE_INIT_Q(xsurv0_pipe_init, xsurv0_pipe, npipe, psock, 16, xsurv0_getq_cb, xsurv0_send_cb, xsurv0_recv_cb, xsurv0_putq_cb)
XP_PIPE_INIT_PLAIN(xreq0_pipe_init, xreq0_pipe, pipe, req, xreq0_getq_cb, xreq0_send_cb, xreq0_recv_cb, xreq0_putq_cb)
XP_SOCK_INIT_IDM(xrep0_sock_init, xrep0_sock, xrep0_sock_getq_cb)
XP_SOCK_INIT_IDM(xresp0_sock_init, xresp0_sock, xresp0_sock_getq_cb)
XP_SOCK_FINI_IDM(xrep0_sock_fini, xrep0_sock)
XP_SOCK_FINI_IDM(xresp0_sock_fini, xresp0_sock)
XP_SOCK_CLOSE(xrep0_sock_close, xrep0_sock)
XP_SOCK_CLOSE(xresp0_sock_close, xresp0_sock)
XP_SOCK_CLOSE(xsurv0_sock_close, xsurv0_sock)
XP_SOCK_OPEN(xrep0_sock_open, xrep0_sock)
XP_SOCK_OPEN(xresp0_sock_open, xresp0_sock)
XP_SOCK_OPEN(xsurv0_sock_open, xsurv0_sock)
XP_SET_TTL(xrep0_sock_set_maxttl, xrep0_sock)
XP_SET_TTL(xresp0_sock_set_maxttl, xresp0_sock)
XP_SET_TTL(xreq0_sock_set_max_ttl, xreq0_sock)
XP_SET_TTL(xsurv0_sock_set_max_ttl, xsurv0_sock)
