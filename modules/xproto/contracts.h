/* Contracts for the raw-mode protocol files
 *   src/sp/protocol/reqrep0/xrep.c, src/sp/protocol/survey0/xrespond.c,
 *   src/sp/protocol/reqrep0/xreq.c, src/sp/protocol/survey0/xsurvey.c
 * (functions not already under contract in modules xrep, xrespond, xsurvey, reqy, surveyx).
 * The four files have the same shape; a contract is written once as a macro over the function
 * name, the structure tag and the field names, and instantiated per file.
 * Calls of nni_msgq_* and nni_id_* are REPLACED by the contracts of modules/msgqueue and
 * modules/idhash (enforced there). */
#ifndef VP_XPROTO_CONTRACTS_H
#define VP_XPROTO_CONTRACTS_H
/* clang-format off */
#define RV __CPROVER_return_value
#define OLD(e) __CPROVER_old(e)
#define VP_HEAP_GHOSTS g_free_calls, g_alloc_ok
#include "modules/msgqueue/contracts.h"
#include "modules/xproto/idhash_contracts_x.h"
/* nni_id_map_init / nni_id_map_fini (texts of modules/idhash/contracts.h, which cannot be included
 * whole: it also carries the Layer-2 machinery of that module) */
/* id_find: text of modules/idhash/contracts.h (enforced by idhash_find); used by unit xp_idhash_remove */
static size_t id_find(nni_id_map *m, uint64_t id)
__CPROVER_requires(IDM_WF_PRE(m))
__CPROVER_assigns()
__CPROVER_ensures(RV == IDM_NOTFOUND || (RV < m->id_cap && m->id_entries[RV].key == id && m->id_entries[RV].val != NULL))
__CPROVER_ensures(m->id_count == 0 ==> RV == IDM_NOTFOUND)
__CPROVER_ensures((m->id_count != 0 && m->id_entries[IDM_HOME(m, id)].key == id && m->id_entries[IDM_HOME(m, id)].val != NULL) ==> RV == IDM_HOME(m, id))
__CPROVER_ensures((m->id_count != 0 && m->id_entries[IDM_HOME(m, id)].val == NULL && m->id_entries[IDM_HOME(m, id)].skips == 0) ==> RV == IDM_NOTFOUND)
;
void nni_id_map_init(nni_id_map *m, uint64_t lo, uint64_t hi, bool randomize)
__CPROVER_requires(__CPROVER_is_fresh(m, sizeof(nni_id_map)))
__CPROVER_requires((hi == 0 ? 0xffffffffu : hi) > (lo == 0 ? 1 : lo))
__CPROVER_assigns(*m)
__CPROVER_ensures(m->id_cap == 0 && m->id_entries == NULL && IDM_SCALAR(m))
__CPROVER_ensures(m->id_min_val == (lo == 0 ? 1 : lo) && m->id_max_val == (hi == 0 ? 0xffffffffu : hi))
__CPROVER_ensures(IDM_RANGE_OK(m) && m->id_dyn_val == 0 && m->id_random == randomize)
__CPROVER_ensures(!m->id_static && !m->id_registered)
;
void nni_id_map_fini(nni_id_map *m)
__CPROVER_requires(IDM_WF_PRE(m))
__CPROVER_assigns(m->id_entries, m->id_cap, m->id_count, m->id_load, m->id_min_load, m->id_max_load, VP_HEAP_GHOSTS)
__CPROVER_frees(m->id_entries)
__CPROVER_ensures(m->id_cap == 0 && m->id_entries == NULL && IDM_SCALAR(m))
__CPROVER_ensures(VP_HEAP_DELTA(0, (OLD(m->id_cap) != 0 ? 1 : 0)))
__CPROVER_ensures(OLD(m->id_cap) != 0 ==> __CPROVER_was_freed(OLD(m->id_entries)))
;

#define XQ(T) ((struct T *) arg)

/* ================= per-pipe send side: sendq -> aio_getq -> aio_send -> pipe =================
 * C13/C03: the callback hands exactly the message it took from the per-pipe queue to that pipe's
 * send, and nothing else: same message object, not written (not in the assigns clause: header
 * words, body bytes and both lengths are as they were -- restated for the ghost bytes), not
 * freed; if the get failed (queue closed) the pipe is closed and nothing is sent. */
#define XP_GETQ_CB(FN, PT, NPF)                                            \
static void FN(void *arg)                                                  \
__CPROVER_requires(__CPROVER_is_fresh(arg, sizeof(struct PT)))             \
__CPROVER_requires(XQ(PT)->aio_getq.a_result == 0 ==> (MSG_PRE(XQ(PT)->aio_getq.a_msg) && CH_GHOST_PRE(&XQ(PT)->aio_getq.a_msg->m_body) && HDR_GHOST_PRE(XQ(PT)->aio_getq.a_msg) && g_xlen == XQ(PT)->aio_getq.a_msg->m_body.ch_len && g_xhlen == XQ(PT)->aio_getq.a_msg->m_header_len)) \
__CPROVER_assigns(XQ(PT)->aio_send.a_msg, XQ(PT)->aio_getq.a_msg, g_pipe_close_calls, g_pipe_close_last, g_pipe_send_calls, g_pipe_send_pipe, g_pipe_send_aio, g_pipe_send_msg) \
__CPROVER_ensures(XQ(PT)->aio_getq.a_result != 0 ==> (g_pipe_close_calls == OLD(g_pipe_close_calls) + 1 && g_pipe_close_last == XQ(PT)->NPF && g_pipe_send_calls == OLD(g_pipe_send_calls) && XQ(PT)->aio_send.a_msg == OLD(XQ(PT)->aio_send.a_msg) && XQ(PT)->aio_getq.a_msg == OLD(XQ(PT)->aio_getq.a_msg))) \
__CPROVER_ensures(XQ(PT)->aio_getq.a_result == 0 ==> (g_pipe_close_calls == OLD(g_pipe_close_calls) && g_pipe_send_calls == OLD(g_pipe_send_calls) + 1 && g_pipe_send_pipe == XQ(PT)->NPF && g_pipe_send_aio == &XQ(PT)->aio_send && g_pipe_send_msg == OLD(XQ(PT)->aio_getq.a_msg) && XQ(PT)->aio_send.a_msg == OLD(XQ(PT)->aio_getq.a_msg) && XQ(PT)->aio_getq.a_msg == NULL)) \
__CPROVER_ensures(XQ(PT)->aio_getq.a_result == 0 ==> (XQ(PT)->aio_send.a_msg->m_body.ch_len == g_xlen && XQ(PT)->aio_send.a_msg->m_header_len == g_xhlen && XQ(PT)->aio_send.a_msg->m_refcnt.v >= 1)) \
__CPROVER_ensures((XQ(PT)->aio_getq.a_result == 0 && g_k < g_xlen) ==> XQ(PT)->aio_send.a_msg->m_body.ch_ptr[g_k] == g_b) \
__CPROVER_ensures((XQ(PT)->aio_getq.a_result == 0 && g_hk < g_xhlen) ==> HDR(XQ(PT)->aio_send.a_msg)[g_hk] == g_hb) \
;

/* send completion.  failure => the message is released exactly once (struct + body buffer), the
 * slot is emptied and the pipe closed; nothing is requested from the queue.
 * success => the NEXT message is requested from THIS pipe's queue (msgq contract: delivered at once
 * if one is queued -- the oldest --, otherwise parked with exactly one nni_aio_start). */
#define XP_SEND_CB_FAILED(FN, PT, NPF, AIO)                                \
static void FN(void *arg)                                                  \
__CPROVER_requires(__CPROVER_is_fresh(arg, sizeof(struct PT)))             \
__CPROVER_requires(XQ(PT)->AIO.a_result != 0 && MSG_PRE(XQ(PT)->AIO.a_msg) && XQ(PT)->AIO.a_msg->m_refcnt.v < 1000) \
__CPROVER_assigns(XQ(PT)->AIO.a_msg, g_pipe_close_calls, g_pipe_close_last, g_free_calls) \
__CPROVER_assigns(*XQ(PT)->AIO.a_msg)                                      \
__CPROVER_frees(XQ(PT)->AIO.a_msg, XQ(PT)->AIO.a_msg->m_body.ch_buf)       \
/* released exactly once: the last reference frees structure and body buffer (two blocks); a shared message (survey \
 * broadcast clones) only loses this reference */                          \
__CPROVER_ensures(OLD(XQ(PT)->AIO.a_msg->m_refcnt.v) == 1 ==> (__CPROVER_was_freed(OLD(XQ(PT)->AIO.a_msg)) && __CPROVER_was_freed(OLD(XQ(PT)->AIO.a_msg->m_body.ch_buf)) && g_free_calls == OLD(g_free_calls) + 2)) \
__CPROVER_ensures(OLD(XQ(PT)->AIO.a_msg->m_refcnt.v) > 1 ==> (!__CPROVER_was_freed(OLD(XQ(PT)->AIO.a_msg)) && OLD(XQ(PT)->AIO.a_msg)->m_refcnt.v == OLD(XQ(PT)->AIO.a_msg->m_refcnt.v) - 1 && g_free_calls == OLD(g_free_calls))) \
__CPROVER_ensures(XQ(PT)->AIO.a_msg == NULL && g_pipe_close_calls == OLD(g_pipe_close_calls) + 1 && g_pipe_close_last == XQ(PT)->NPF) \
;
#define XP_SEND_CB_OK(FN, PT, NPF)                                         \
static void FN(void *arg)                                                  \
__CPROVER_requires(__CPROVER_is_fresh(arg, sizeof(struct PT)) && VP_NO_LOCK_HELD) \
__CPROVER_requires(XQ(PT)->aio_send.a_result == 0 && XP_MQ_GET_PRE(XQ(PT)->sendq, &XQ(PT)->aio_getq)) \
__CPROVER_assigns(XP_MQ_GET_TARGETS(XQ(PT)->sendq))                        \
__CPROVER_ensures(VP_NO_LOCK_HELD && XP_MQ_GET_POST(XQ(PT)->sendq))        \
;

/* put-to-socket completion (receive side).  failure => message released exactly once, pipe closed,
 * NO receive armed; success => exactly one receive armed on this pipe with this pipe's aio_recv. */
#define XP_PUTQ_CB_OK(FN, PT, NPF)                                         \
static void FN(void *arg)                                                  \
__CPROVER_requires(__CPROVER_is_fresh(arg, sizeof(struct PT)))             \
__CPROVER_requires(XQ(PT)->aio_putq.a_result == 0)                         \
__CPROVER_assigns(g_pipe_recv_calls, g_pipe_recv_pipe, g_pipe_recv_aio)    \
__CPROVER_ensures(g_pipe_recv_calls == OLD(g_pipe_recv_calls) + 1 && g_pipe_recv_pipe == XQ(PT)->NPF && g_pipe_recv_aio == &XQ(PT)->aio_recv) \
;

/* ================= socket entry points (C15) =================
 * raw send/receive ARE the msgq operations on the socket's upper queues.  The non-blocking rule is
 * carried by two clauses of the msgq contract (modules/msgqueue/contracts.h, nni_msgq_aio_put /
 * nni_msgq_aio_get): "can proceed now => done now, nni_aio_start not consulted" and "must wait =>
 * started exactly once; refused => not on the list, nothing queued". */
#define XP_SOCK_SEND(FN, ST)                                               \
static void FN(void *arg, nni_aio *aio)                                    \
__CPROVER_requires(__CPROVER_is_fresh(arg, sizeof(struct ST)) && __CPROVER_is_fresh(aio, sizeof(nni_aio)) && VP_NO_LOCK_HELD) \
__CPROVER_requires(XP_MQ_PUT_PRE(XQ(ST)->uwq, aio))                        \
__CPROVER_assigns(XP_MQ_PUT_TARGETS(XQ(ST)->uwq))                          \
__CPROVER_ensures(VP_NO_LOCK_HELD && XP_MQ_PUT_POST(XQ(ST)->uwq))          \
;
#define XP_SOCK_RECV(FN, ST)                                               \
static void FN(void *arg, nni_aio *aio)                                    \
__CPROVER_requires(__CPROVER_is_fresh(arg, sizeof(struct ST)) && __CPROVER_is_fresh(aio, sizeof(nni_aio)) && VP_NO_LOCK_HELD) \
__CPROVER_requires(XP_MQ_GET_PRE(XQ(ST)->urq, aio))                        \
__CPROVER_assigns(XP_MQ_GET_TARGETS(XQ(ST)->urq))                          \
__CPROVER_ensures(VP_NO_LOCK_HELD && XP_MQ_GET_POST(XQ(ST)->urq))          \
;

#include "modules/xproto/contracts2.h"

/* ---------------- instantiation (one function per unit, selected by XP_U_<unit>) ---------------- */
XP_GETQ_CB(xrep0_pipe_getq_cb, xrep0_pipe, pipe)
XP_GETQ_CB(xresp0_getq_cb, xresp0_pipe, npipe)
#ifdef XP_FAILED
XP_SEND_CB_FAILED(xrep0_pipe_send_cb, xrep0_pipe, pipe, aio_send)
XP_SEND_CB_FAILED(xresp0_send_cb, xresp0_pipe, npipe, aio_send)
XP_SEND_CB_FAILED(xrep0_pipe_putq_cb, xrep0_pipe, pipe, aio_putq)
XP_SEND_CB_FAILED(xresp0_putq_cb, xresp0_pipe, npipe, aio_putq)
#else
XP_SEND_CB_OK(xrep0_pipe_send_cb, xrep0_pipe, pipe)
XP_SEND_CB_OK(xresp0_send_cb, xresp0_pipe, npipe)
XP_PUTQ_CB_OK(xrep0_pipe_putq_cb, xrep0_pipe, pipe)
XP_PUTQ_CB_OK(xresp0_putq_cb, xresp0_pipe, npipe)
#endif
XP_SOCK_SEND(xrep0_sock_send, xrep0_sock)
XP_SOCK_SEND(xresp0_sock_send, xresp0_sock)
XP_SOCK_SEND(xreq0_sock_send, xreq0_sock)
XP_SOCK_SEND(xsurv0_sock_send, xsurv0_sock)
XP_SOCK_RECV(xrep0_sock_recv, xrep0_sock)
XP_SOCK_RECV(xresp0_sock_recv, xresp0_sock)
XP_SOCK_RECV(xreq0_sock_recv, xreq0_sock)
XP_SOCK_RECV(xsurv0_sock_recv, xsurv0_sock)
/* clang-format on */
#endif
