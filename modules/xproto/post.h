/* included AFTER the real sources */
#include "include/env_alloc.h"
#include "modules/xproto/env_sync_x.h"
#define VP_PROTO_STUBS 1
/* nni_aio_close of env_proto.h only counts; this module also records WHICH aio (env.h) */
#define nni_aio_close vp_proto_nni_aio_close
#include "include/env_proto.h"
#undef nni_aio_close
#include "modules/xproto/env.h"
