/* modules/xproto/ghost.h -- ghosts of the xproto TU (included BEFORE the real sources).
 *
 * 1. The contracts of modules/msgqueue and modules/idhash are used BY REPLACEMENT in this TU
 *    (--replace-call-with-contract).  Their texts name the ghost state of their own
 *    environment models; here those names are mapped onto the protocol environment of
 *    include/env_proto.h (one msgq is in scope per unit: its two wait lists are the ghost
 *    queues A/B, its pollables are W/R), and the few ghosts env_proto.h does not have are
 *    declared.  No code.
 * 2. aio life-cycle tracking (nni_aio_init/fini/stop/close) for up to five aios whose
 *    identities are tied by precondition equations (g_xp.a[i] == &p->aio_xxx).
 */
#ifndef VP_XPROTO_GHOST_H
#define VP_XPROTO_GHOST_H
/* msgqueue names -> env_proto ghosts */
#define g_putq g_qa
#define g_getq g_qb
#define g_putq_addr g_qa_addr
#define g_getq_addr g_qb_addr
#define g_sendable g_pollw
#define g_recvable g_pollr
#define g_sendable_addr g_pollw_addr
#define g_recvable_addr g_pollr_addr
nni_msg *g_head_msg;      /* message of the first blocked writer (msgqueue model) */
size_t   g_fin_msg_calls; /* completions that hand a message to a reader */
nni_msg *g_fin_msg_last;
nni_msg *g_fin_msg_at_j;  /* message handed over by completion number g_j */
size_t   g_reset_calls;
int      g_aio_where;

/* aio life cycle */
#define XP_NAIO 5
struct vp_xp_env {
	size_t init_n[XP_NAIO + 1]; /* [XP_NAIO] = operations on an aio that is not tracked */
	size_t fini_n[XP_NAIO + 1];
	size_t stop_n[XP_NAIO + 1];
	size_t close_n[XP_NAIO + 1];
	nni_cb init_cb[XP_NAIO + 1];
	void  *init_arg[XP_NAIO + 1];
} g_xp;
nni_aio  *g_xp_a[XP_NAIO];  /* identities (free ghosts tied by preconditions) */
nni_msgq *g_sock_sendq, *g_sock_recvq; /* answers of nni_sock_sendq / nni_sock_recvq */
#define XP_TRACK4(a0, a1, a2, a3) \
	(g_xp_a[0] == (a0) && g_xp_a[1] == (a1) && g_xp_a[2] == (a2) && g_xp_a[3] == (a3) && g_xp_a[4] == NULL)
#define XP_TRACK1(a0) \
	(g_xp_a[0] == (a0) && g_xp_a[1] == NULL && g_xp_a[2] == NULL && g_xp_a[3] == NULL && g_xp_a[4] == NULL)
/* "counter array c advanced by exactly one on each of the first n tracked aios, untouched elsewhere" */
#define XP_EACH_ONCE4(c) \
	(g_xp.c[0] == __CPROVER_old(g_xp.c[0]) + 1 && g_xp.c[1] == __CPROVER_old(g_xp.c[1]) + 1 && \
	    g_xp.c[2] == __CPROVER_old(g_xp.c[2]) + 1 && g_xp.c[3] == __CPROVER_old(g_xp.c[3]) + 1 && \
	    g_xp.c[4] == __CPROVER_old(g_xp.c[4]) && g_xp.c[5] == __CPROVER_old(g_xp.c[5]))
#define XP_ONCE1(c) \
	(g_xp.c[0] == __CPROVER_old(g_xp.c[0]) + 1 && g_xp.c[1] == __CPROVER_old(g_xp.c[1]) && \
	    g_xp.c[2] == __CPROVER_old(g_xp.c[2]) && g_xp.c[3] == __CPROVER_old(g_xp.c[3]) && \
	    g_xp.c[4] == __CPROVER_old(g_xp.c[4]) && g_xp.c[5] == __CPROVER_old(g_xp.c[5]))
#define XP_NONE(c) \
	(g_xp.c[0] == __CPROVER_old(g_xp.c[0]) && g_xp.c[1] == __CPROVER_old(g_xp.c[1]) && \
	    g_xp.c[2] == __CPROVER_old(g_xp.c[2]) && g_xp.c[3] == __CPROVER_old(g_xp.c[3]) && \
	    g_xp.c[4] == __CPROVER_old(g_xp.c[4]) && g_xp.c[5] == __CPROVER_old(g_xp.c[5]))
#define VP_HX1(i)                                                          \
	g_xp.init_n[i] = nondet_size_t(); g_xp.fini_n[i] = nondet_size_t();    \
	g_xp.stop_n[i] = nondet_size_t(); g_xp.close_n[i] = nondet_size_t();   \
	g_xp.init_cb[i] = NULL; g_xp.init_arg[i] = nondet_ptr();               \
	__CPROVER_assume(g_xp.init_n[i] < ((size_t) 1 << 40) && g_xp.fini_n[i] < ((size_t) 1 << 40) && \
	    g_xp.stop_n[i] < ((size_t) 1 << 40) && g_xp.close_n[i] < ((size_t) 1 << 40))
#define VP_HAVOC_XP()                                                      \
	do {                                                                   \
		VP_HX1(0); VP_HX1(1); VP_HX1(2); VP_HX1(3); VP_HX1(4); VP_HX1(5);  \
		g_xp_a[0] = nondet_ptr(); g_xp_a[1] = nondet_ptr(); g_xp_a[2] = nondet_ptr(); \
		g_xp_a[3] = nondet_ptr(); g_xp_a[4] = nondet_ptr();                \
		g_sock_sendq = nondet_ptr(); g_sock_recvq = nondet_ptr();          \
		g_head_msg = nondet_ptr(); g_fin_msg_calls = nondet_size_t(); g_fin_msg_last = nondet_ptr(); \
		g_fin_msg_at_j = nondet_ptr(); g_reset_calls = nondet_size_t(); g_aio_where = nondet_int(); \
		g_msg_freed = nondet_size_t(); g_msg_freed_at_j = nondet_ptr();    \
		g_xlen = nondet_size_t(); g_xhlen = nondet_size_t();               \
		g_pl_addr = nondet_ptr(); g_pl_active = nondet_bool(); g_pl_n = nondet_size_t(); g_pl_removed = nondet_ptr(); \
		g_pl_init_calls = nondet_size_t(); \
		g_found = nondet_size_t(); g_slot = nondet_size_t(); g_kk = nondet_u64(); g_kv = nondet_ptr(); \
		g_ks = nondet_u32(); g_ents = nondet_ptr();                        \
		__CPROVER_assume(g_fin_msg_calls < ((size_t) 1 << 40) && g_msg_freed < ((size_t) 1 << 40) && \
		    g_reset_calls < ((size_t) 1 << 40) && g_pl_n < 1000 && g_pl_init_calls < 1000); \
	} while (0)
size_t g_xlen, g_xhlen;   /* ghost equations: pre-state body / header length of the message in flight */
/* the one nni_list a raw protocol keeps (xsurvey: the socket's pipes): membership of THE pipe under
 * consideration is the free ghost g_pl_active */
nni_list *g_pl_addr;
bool      g_pl_active;
size_t    g_pl_n;
void     *g_pl_removed;
size_t    g_pl_init_calls;
#endif
