#define VP_HAVOC_GHOSTS()                         \
	do {                                      \
		g_k = nondet_size_t(); g_j = nondet_size_t(); g_b = nondet_u8(); g_n = nondet_size_t(); \
		g_hk = nondet_size_t(); g_u32 = nondet_u32(); g_hb = nondet_u8(); g_p = nondet_ptr(); \
		g_free_calls = nondet_size_t(); g_alloc_ok = nondet_size_t(); \
		__CPROVER_assume(g_free_calls < ((size_t) 1 << 40) && g_alloc_ok < ((size_t) 1 << 40)); \
		VP_HAVOC_PROTO(); VP_HAVOC_XP(); VP_HAVOC_SYNC();    \
	} while (0)
#define H_CB(fn) void h_##fn(void) { void *arg; VP_HAVOC_GHOSTS(); fn(arg); VP_CANARY(); }
#define H_AIO(fn) void h_##fn(void) { void *arg; nni_aio *aio; VP_HAVOC_GHOSTS(); fn(arg, aio); VP_CANARY(); }
H_CB(xrep0_pipe_getq_cb) H_CB(xresp0_getq_cb)
H_CB(xrep0_pipe_send_cb) H_CB(xresp0_send_cb)
H_CB(xrep0_pipe_putq_cb) H_CB(xresp0_putq_cb)
H_AIO(xrep0_sock_send) H_AIO(xresp0_sock_send) H_AIO(xreq0_sock_send) H_AIO(xsurv0_sock_send)
H_AIO(xrep0_sock_recv) H_AIO(xresp0_sock_recv) H_AIO(xreq0_sock_recv) H_AIO(xsurv0_sock_recv)
#include "modules/xproto/harness2.c"
