/* included BEFORE the real sources of the xproto TU */
#define VP_PROTO_GHOSTS 1
#include "include/env_proto.h"
#include "modules/message/spec.h"
#include "include/env_mem.h"
#include "modules/xproto/ghost.h"
#include "modules/msgqueue/spec.h"
#include "modules/idhash/spec.h"
#include "modules/xproto/spec.h"
