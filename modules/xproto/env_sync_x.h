/* modules/xproto/env_sync_x.h -- variant of include/env_sync.h (same ghost names and macros).
 * Difference: the identity of a tracked mutex matters only WHILE it is held; a slot whose mutex
 * is not held is reused by the next lock.  Needed here because a replaced msgq contract havocs
 * the lock ghosts (VP_SYNC_GHOSTS is in its assigns clause) and promises only "no lock held":
 * the stale identities left in the two slots must not count as "two other mutexes".
 * Checked as before: no self-deadlock, no unlock of a mutex that is not held, at most two
 * mutexes held at once (model limit), lock state on return via the contracts. */
#ifndef VP_ENV_SYNC_H
#define VP_ENV_SYNC_H
nni_mtx *g_mtx_a, *g_mtx_b;
bool     g_held_a, g_held_b;
size_t   g_lock_ops;

void nni_mtx_init(nni_mtx *m) { (void) m; }
void nni_mtx_fini(nni_mtx *m)
{
	__CPROVER_assert(!((m == g_mtx_a && g_held_a) || (m == g_mtx_b && g_held_b)), "mutex destroyed while held");
}
void
nni_mtx_lock(nni_mtx *m)
{
	g_lock_ops++;
	__CPROVER_assert(!((m == g_mtx_a && g_held_a) || (m == g_mtx_b && g_held_b)), "lock: mutex already held by this call chain (self-deadlock)");
	if (!g_held_a) {
		g_mtx_a  = m;
		g_held_a = true;
	} else {
		__CPROVER_assert(!g_held_b, "lock: more than two mutexes held at once (model limit)");
		g_mtx_b  = m;
		g_held_b = true;
	}
}
void
nni_mtx_unlock(nni_mtx *m)
{
	g_lock_ops++;
	if (m == g_mtx_a && g_held_a) {
		g_held_a = false;
	} else {
		__CPROVER_assert(m == g_mtx_b && g_held_b, "unlock of a mutex that is not held");
		g_held_b = false;
	}
}
#define VP_HAVOC_SYNC() do { g_mtx_a = NULL; g_mtx_b = NULL; g_held_a = false; g_held_b = false; g_lock_ops = 0; } while (0)
#define VP_SYNC_GHOSTS g_mtx_a, g_mtx_b, g_held_a, g_held_b, g_lock_ops
#define VP_NO_LOCK_HELD (!g_held_a && !g_held_b)
#endif
