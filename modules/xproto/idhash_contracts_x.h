/* modules/xproto/idhash_contracts_x.h -- COPY of modules/idhash/contracts_mut.h with ONE added postcondition of
 * nni_id_remove ("RV == 0 ==> g_found < OLD(m->id_cap)", marked below).  Everything else is byte-identical. */
/* clang-format off */

/* registry of statically declared maps: NNI_ASSERT(id_reg_num < NNI_MAX_STATIC_IDMAP)
 * in id_map_register is a caller obligation (at most 10 static maps per build) */
#define IDM_REG_PRE(m) (!(m)->id_static || (m)->id_registered || (id_reg_num >= 0 && id_reg_num < NNI_MAX_STATIC_IDMAP))
#define IDM_REG_TARGETS id_reg_num, __CPROVER_object_whole(id_reg_map)

/* the capacity id_resize chooses for `count` live ids: smallest power of two
 * that is >= 8 and >= 2*count */
#define IDM_IS_NEWCAP(cap, count) \
	(VP_POW2(cap) && (cap) >= 8 && (uint64_t) (cap) >= 2 * (uint64_t) (count) && ((cap) == 8 || (uint64_t) ((cap) / 2) < 2 * (uint64_t) (count)))

/* "same pointer as before", assumed by re-pointing p at the old target when the
 * contract replaces a call.  (VP_SAME_PTR = pointer_in_range_dfcc(old,p,old)
 * made CBMC exhaust 17 GB on reads of struct slots through p; measured.) */
#define IDM_SAME_PTR(p) __CPROVER_pointer_equals((p), OLD(p))
/* entries array as before (same object, still allocated, nothing allocated) */
#define IDM_ARRAY_KEPT(m) \
	((m)->id_cap == OLD((m)->id_cap) && VP_HEAP_DELTA(0, 0) && (OLD((m)->id_cap) == 0 || !__CPROVER_was_freed(OLD((m)->id_entries))) && IDM_SAME_PTR((m)->id_entries))
/* entries array replaced by a fresh one, the old one released (if there was one) */
#define IDM_ARRAY_NEW(m) \
	((m)->id_cap != OLD((m)->id_cap) && (m)->id_cap != 0 && \
	 g_alloc_ok == OLD(g_alloc_ok) + 1 && g_free_calls == OLD(g_free_calls) + (OLD((m)->id_cap) != 0 ? 1 : 0) && \
	 (OLD((m)->id_cap) == 0 || __CPROVER_was_freed(OLD((m)->id_entries))) && \
	 __CPROVER_is_fresh((m)->id_entries, (size_t) (m)->id_cap * IDM_ENT_SZ))

static void id_map_register(nni_id_map *m)
__CPROVER_requires(__CPROVER_is_fresh(m, sizeof(nni_id_map)))
__CPROVER_requires(m->id_registered || (id_reg_num >= 0 && id_reg_num < NNI_MAX_STATIC_IDMAP))
__CPROVER_assigns(m->id_registered, IDM_REG_TARGETS)
__CPROVER_ensures(m->id_registered)
__CPROVER_ensures(OLD(m->id_registered) ==> id_reg_num == OLD(id_reg_num))
__CPROVER_ensures(!OLD(m->id_registered) ==> (id_reg_num == OLD(id_reg_num) + 1 && id_reg_map[id_reg_num - 1] == m))
;

/* ------------------------------------------------------------ id_resize
 * Never writes the old array (not in the assigns clause): on failure and in
 * the "no resize" case the table content is untouched. */
static int id_resize(nni_id_map *m)
__CPROVER_requires(IDM_WF_PRE(m))
__CPROVER_requires(IDM_REG_PRE(m))
__CPROVER_assigns(*m, VP_HEAP_GHOSTS, IDM_REG_TARGETS)
__CPROVER_frees(m->id_entries)
__CPROVER_ensures(RV == 0 || RV == NNG_ENOMEM)
__CPROVER_ensures(IDM_RANGE_UNCHANGED(m) && m->id_dyn_val == OLD(m->id_dyn_val) && m->id_count == OLD(m->id_count))
/* allocation failure: the map is exactly as before */
__CPROVER_ensures(RV != 0 ==> (m->id_load == OLD(m->id_load) && m->id_min_load == OLD(m->id_min_load) && m->id_max_load == OLD(m->id_max_load) && IDM_ARRAY_KEPT(m)))
__CPROVER_ensures(RV != 0 ==> !(OLD(m->id_load) < OLD(m->id_max_load) && OLD(m->id_load) >= OLD(m->id_min_load)))
/* success: invariant; either nothing moved or a fresh table of the size that belongs to count */
__CPROVER_ensures(RV == 0 ==> IDM_SCALAR(m))
__CPROVER_ensures(RV == 0 ==> ((m->id_load == OLD(m->id_load) && IDM_ARRAY_KEPT(m)) || (IDM_ARRAY_NEW(m) && IDM_IS_NEWCAP(m->id_cap, m->id_count))))
/* load inside the thresholds: nothing happens at all */
__CPROVER_ensures((OLD(m->id_load) < OLD(m->id_max_load) && OLD(m->id_load) >= OLD(m->id_min_load)) ==> (RV == 0 && m->id_cap == OLD(m->id_cap)))
/* after success there is a table, and it is not too small for count: either the load is inside the thresholds or cap is the size chosen for count */
__CPROVER_ensures(RV == 0 ==> (m->id_cap != 0 && ((m->id_load < m->id_max_load && m->id_load >= m->id_min_load) || IDM_IS_NEWCAP(m->id_cap, m->id_count))))
;

/* ------------------------------------------------------------ nni_id_set
 * "hash items must be non-NULL" (idhash.h): caller obligation.
 * g_slot (woven before each return) is the slot that now holds (id,val). */
int nni_id_set(nni_id_map *m, uint64_t id, void *val)
__CPROVER_requires(IDM_WF_PRE(m))
__CPROVER_requires(IDM_GHOST_PRE(m))
__CPROVER_requires(IDM_REG_PRE(m))
__CPROVER_requires(val != NULL)
__CPROVER_requires(m->id_count < IDM_MAXCOUNT)
__CPROVER_assigns(m->id_cap != 0: __CPROVER_object_whole(m->id_entries); *m, VP_HEAP_GHOSTS, g_slot, IDM_REG_TARGETS)
__CPROVER_frees(m->id_entries)
__CPROVER_ensures(RV == 0 || RV == NNG_ENOMEM)
__CPROVER_ensures(IDM_RANGE_UNCHANGED(m) && m->id_dyn_val == OLD(m->id_dyn_val))
/* ENOMEM: the map is unchanged */
__CPROVER_ensures(RV != 0 ==> (m->id_count == OLD(m->id_count) && m->id_load == OLD(m->id_load) && m->id_min_load == OLD(m->id_min_load) && m->id_max_load == OLD(m->id_max_load) && IDM_ARRAY_KEPT(m)))
__CPROVER_ensures((RV != 0 && g_k < m->id_cap) ==> IDM_SLOT_SAME(m))
/* success */
__CPROVER_ensures(RV == 0 ==> (IDM_SCALAR(m) && m->id_cap != 0))
__CPROVER_ensures(RV == 0 ==> (m->id_count == OLD(m->id_count) || m->id_count == OLD(m->id_count) + 1))
__CPROVER_ensures(RV == 0 ==> (IDM_ARRAY_KEPT(m) || IDM_ARRAY_NEW(m)))
__CPROVER_ensures(RV == 0 ==> (g_slot < m->id_cap && m->id_entries[g_slot].key == id && m->id_entries[g_slot].val == val))
/* frame (table not reallocated): every other slot keeps its key and value */
__CPROVER_ensures((RV == 0 && (void *) m->id_entries == g_ents && g_k < m->id_cap && g_k != g_slot) ==> IDM_SLOT_KV_SAME(m))
/* an overwrite (count unchanged, table kept) changes nothing but the value */
__CPROVER_ensures((RV == 0 && (void *) m->id_entries == g_ents && m->id_count == OLD(m->id_count)) ==> m->id_load == OLD(m->id_load))
;

/* ------------------------------------------------------------ nni_id_remove
 * g_found (woven before each return) is the slot id_find reported. */
int nni_id_remove(nni_id_map *m, uint64_t id)
__CPROVER_requires(IDM_WF_PRE(m))
__CPROVER_requires(IDM_GHOST_PRE(m))
__CPROVER_requires(IDM_REG_PRE(m))
__CPROVER_assigns(m->id_cap != 0: __CPROVER_object_whole(m->id_entries); *m, VP_HEAP_GHOSTS, g_found, IDM_REG_TARGETS)
__CPROVER_frees(m->id_entries)
__CPROVER_ensures(RV == 0 || RV == NNG_ENOENT)
__CPROVER_ensures(IDM_RANGE_UNCHANGED(m) && m->id_dyn_val == OLD(m->id_dyn_val))
__CPROVER_ensures(OLD(m->id_count) == 0 ==> RV == NNG_ENOENT)
/* not there: the map is unchanged */
__CPROVER_ensures(RV != 0 ==> (g_found == IDM_NOTFOUND && m->id_count == OLD(m->id_count) && m->id_load == OLD(m->id_load) && m->id_min_load == OLD(m->id_min_load) && m->id_max_load == OLD(m->id_max_load) && IDM_ARRAY_KEPT(m)))
__CPROVER_ensures((RV != 0 && g_k < m->id_cap) ==> IDM_SLOT_SAME(m))
/* removed: one id less, invariant kept (also when the shrink could not allocate) */
__CPROVER_ensures(RV == 0 ==> (IDM_SCALAR(m) && m->id_cap != 0 && OLD(m->id_count) >= 1 && m->id_count == OLD(m->id_count) - 1))
__CPROVER_ensures(RV == 0 ==> (IDM_ARRAY_KEPT(m) || IDM_ARRAY_NEW(m)))
/* the reported slot held this id and is (table kept) empty now, nothing else lost its key or value */
/* xproto variant: the reported slot is a slot of the old table (needed when this contract REPLACES a call: the next
 * clause reads id_entries[g_found]); enforced by unit xp_idhash_remove of module xproto */
__CPROVER_ensures(RV == 0 ==> g_found < OLD(m->id_cap))
__CPROVER_ensures((RV == 0 && g_k == g_found) ==> (g_k < OLD(m->id_cap) && g_kk == id && g_kv != NULL))
__CPROVER_ensures((RV == 0 && (void *) m->id_entries == g_ents) ==> (m->id_entries[g_found].val == NULL && m->id_entries[g_found].key == 0))
__CPROVER_ensures((RV == 0 && (void *) m->id_entries == g_ents && g_k < m->id_cap && g_k != g_found) ==> IDM_SLOT_KV_SAME(m))
;

/* ------------------------------------------------------------ nni_id_alloc
 * C18: the issued id lies in [min,max]; the cursor stays in [min,max] and is
 * the successor (with wrap) of the issued id, so ids are issued in cyclic
 * order and not reissued before the range wraps; NNG_ENOMEM without any change
 * when max-min+1 ids are held.  (id_dyn_val == 0 means "not started yet".) */
#define IDM_SUCC(m, id) ((id) >= (m)->id_max_val ? (m)->id_min_val : (id) + 1)
int nni_id_alloc(nni_id_map *m, uint64_t *idp, void *val)
__CPROVER_requires(IDM_WF_PRE(m))
__CPROVER_requires(IDM_GHOST_PRE(m))
__CPROVER_requires(IDM_REG_PRE(m))
__CPROVER_requires(IDM_RANGE_OK(m) && IDM_CURSOR_OK(m))
__CPROVER_requires(__CPROVER_is_fresh(idp, sizeof(*idp)))
__CPROVER_requires(val != NULL)
__CPROVER_requires(m->id_count < IDM_MAXCOUNT)
__CPROVER_assigns(m->id_cap != 0: __CPROVER_object_whole(m->id_entries); *m, VP_HEAP_GHOSTS, g_slot, *idp, IDM_REG_TARGETS)
__CPROVER_frees(m->id_entries)
__CPROVER_ensures(RV == 0 || RV == NNG_ENOMEM)
__CPROVER_ensures(IDM_RANGE_UNCHANGED(m))
/* range exhausted: ENOMEM and nothing at all changes */
__CPROVER_ensures(OLD(m->id_count) > OLD(m->id_max_val) - OLD(m->id_min_val) ==> (RV == NNG_ENOMEM && m->id_dyn_val == OLD(m->id_dyn_val)))
/* any failure: no id handed out, table unchanged */
__CPROVER_ensures(RV != 0 ==> (*idp == OLD(*idp) && m->id_count == OLD(m->id_count) && m->id_load == OLD(m->id_load) && m->id_min_load == OLD(m->id_min_load) && m->id_max_load == OLD(m->id_max_load) && IDM_ARRAY_KEPT(m)))
__CPROVER_ensures((RV != 0 && g_k < m->id_cap) ==> IDM_SLOT_SAME(m))
/* the other cause of ENOMEM is an allocation that was refused */
/* once the exhaustion test is passed the cursor is a member of the range */
__CPROVER_ensures(OLD(m->id_count) <= OLD(m->id_max_val) - OLD(m->id_min_val) ==> IDM_CURSOR_IN(m))
/* success */
__CPROVER_ensures(RV == 0 ==> (*idp >= m->id_min_val && *idp <= m->id_max_val))
__CPROVER_ensures(RV == 0 ==> m->id_dyn_val == IDM_SUCC(m, *idp))
__CPROVER_ensures(RV == 0 ==> (IDM_SCALAR(m) && m->id_cap != 0))
__CPROVER_ensures(RV == 0 ==> (m->id_count == OLD(m->id_count) || m->id_count == OLD(m->id_count) + 1))
__CPROVER_ensures(RV == 0 ==> (IDM_ARRAY_KEPT(m) || IDM_ARRAY_NEW(m)))
__CPROVER_ensures(RV == 0 ==> (g_slot < m->id_cap && m->id_entries[g_slot].key == *idp && m->id_entries[g_slot].val == val))
__CPROVER_ensures((RV == 0 && (void *) m->id_entries == g_ents && g_k < m->id_cap && g_k != g_slot) ==> IDM_SLOT_KV_SAME(m))
;

/* ------------------------------------------------------------ nni_id_alloc32
 * NNI_ASSERT(id < 2^32): the map's range must fit 32 bits (caller obligation). */
int nni_id_alloc32(nni_id_map *m, uint32_t *idp, void *val)
__CPROVER_requires(IDM_WF_PRE(m))
__CPROVER_requires(IDM_GHOST_PRE(m))
__CPROVER_requires(IDM_REG_PRE(m))
__CPROVER_requires(IDM_RANGE_OK(m) && IDM_CURSOR_OK(m) && m->id_max_val <= 0xffffffffu)
__CPROVER_requires(__CPROVER_is_fresh(idp, sizeof(*idp)))
__CPROVER_requires(val != NULL)
__CPROVER_requires(m->id_count < IDM_MAXCOUNT)
__CPROVER_assigns(m->id_cap != 0: __CPROVER_object_whole(m->id_entries); *m, VP_HEAP_GHOSTS, g_slot, *idp, IDM_REG_TARGETS)
__CPROVER_frees(m->id_entries)
__CPROVER_ensures(RV == 0 || RV == NNG_ENOMEM)
__CPROVER_ensures(IDM_RANGE_UNCHANGED(m))
__CPROVER_ensures(OLD(m->id_count) > OLD(m->id_max_val) - OLD(m->id_min_val) ==> (RV == NNG_ENOMEM && m->id_dyn_val == OLD(m->id_dyn_val)))
/* any failure: no id handed out -- the caller's id field keeps its value */
__CPROVER_ensures(RV != 0 ==> (*idp == OLD(*idp) && m->id_count == OLD(m->id_count) && m->id_load == OLD(m->id_load) && IDM_ARRAY_KEPT(m)))
__CPROVER_ensures((RV != 0 && g_k < m->id_cap) ==> IDM_SLOT_SAME(m))
__CPROVER_ensures(OLD(m->id_count) <= OLD(m->id_max_val) - OLD(m->id_min_val) ==> IDM_CURSOR_IN(m))
__CPROVER_ensures(RV == 0 ==> (*idp >= m->id_min_val && *idp <= m->id_max_val))
__CPROVER_ensures(RV == 0 ==> m->id_dyn_val == IDM_SUCC(m, (uint64_t) *idp))
__CPROVER_ensures(RV == 0 ==> (IDM_SCALAR(m) && m->id_cap != 0))
__CPROVER_ensures(RV == 0 ==> (m->id_count == OLD(m->id_count) || m->id_count == OLD(m->id_count) + 1))
__CPROVER_ensures(RV == 0 ==> (IDM_ARRAY_KEPT(m) || IDM_ARRAY_NEW(m)))
__CPROVER_ensures(RV == 0 ==> (g_slot < m->id_cap && m->id_entries[g_slot].key == (uint64_t) *idp && m->id_entries[g_slot].val == val))
;
/* clang-format on */
