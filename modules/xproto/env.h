/* modules/xproto/env.h -- ASSUMED environment on top of include/env_proto.h (ghost state only):
 * nni_aio_init/fini/stop/close record which aio (one of up to five tracked identities, or
 * "another one") and, for init, the callback and its argument; nni_sock_sendq/recvq answer with
 * free ghost pointers.  nni_msgq_* and nni_id_* are NOT stubbed: their calls are replaced by the
 * contracts of modules/msgqueue and modules/idhash. */
#ifndef VP_XPROTO_ENV_H
#define VP_XPROTO_ENV_H
static int vp_xp_slot(nni_aio *aio)
{
	if (aio == g_xp_a[0]) return (0);
	if (aio == g_xp_a[1]) return (1);
	if (aio == g_xp_a[2]) return (2);
	if (aio == g_xp_a[3]) return (3);
	if (aio == g_xp_a[4]) return (4);
	return (XP_NAIO);
}
void nni_aio_init(nni_aio *aio, nni_cb cb, void *arg)
{
	int i = vp_xp_slot(aio);
	g_xp.init_n[i]++;
	g_xp.init_cb[i]  = cb;
	g_xp.init_arg[i] = arg;
}
void nni_aio_fini(nni_aio *aio) { g_xp.fini_n[vp_xp_slot(aio)]++; }
void nni_aio_stop(nni_aio *aio) { g_xp.stop_n[vp_xp_slot(aio)]++; }
void nni_aio_close(nni_aio *aio) { g_xp.close_n[vp_xp_slot(aio)]++; vp_proto_nni_aio_close(aio); }
nni_msgq *nni_sock_sendq(nni_sock *s) { (void) s; return (g_sock_sendq); }
nni_msgq *nni_sock_recvq(nni_sock *s) { (void) s; return (g_sock_recvq); }
/* the one plain nni_list of these files (xsurvey.c: the socket's pipes) */
int nni_list_active(nni_list *l, void *item)
{
	(void) item;
	__CPROVER_assert(l == g_pl_addr, "list: the socket's pipe list");
	return (g_pl_active);
}
void nni_list_remove(nni_list *l, void *item)
{
	__CPROVER_assert(l == g_pl_addr, "list: the socket's pipe list");
	__CPROVER_assert(g_pl_active && g_pl_n >= 1, "list remove: the item is a member");
	g_pl_active  = false;
	g_pl_n--;
	g_pl_removed = item;
}
void nni_list_init_offset(nni_list *l, size_t off)
{
	(void) off;
	g_pl_addr = l;
	g_pl_n    = 0;
	g_pl_init_calls++;
}
#endif
