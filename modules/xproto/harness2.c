/* life-cycle harnesses */
#define H_INIT(fn) void h_##fn(void) { void *arg; nni_pipe *pipe; void *s; VP_HAVOC_GHOSTS(); fn(arg, pipe, s); VP_CANARY(); }
#define H_SINIT(fn) void h_##fn(void) { void *arg; nni_sock *sock; VP_HAVOC_GHOSTS(); fn(arg, sock); VP_CANARY(); }
#define H_TTL(fn) void h_##fn(void) { void *arg; const void *buf; size_t sz; nni_opt_type t; VP_HAVOC_GHOSTS(); fn(arg, buf, sz, t); VP_CANARY(); }
H_CB(xrep0_pipe_stop) H_CB(xresp0_pipe_stop) H_CB(xreq0_pipe_stop) H_CB(xsurv0_pipe_stop)
H_CB(xrep0_pipe_fini) H_CB(xresp0_pipe_fini) H_CB(xreq0_pipe_fini) H_CB(xsurv0_pipe_fini)
H_CB(xrep0_pipe_close) H_CB(xresp0_pipe_close) H_CB(xsurv0_pipe_close)
H_CB(xrep0_pipe_start)
H_INIT(xrep0_pipe_init) H_INIT(xresp0_pipe_init) H_INIT(xreq0_pipe_init) H_INIT(xsurv0_pipe_init)
H_SINIT(xrep0_sock_init) H_SINIT(xresp0_sock_init) H_SINIT(xsurv0_sock_init) H_SINIT(xreq0_sock_init)
H_CB(xrep0_sock_fini) H_CB(xresp0_sock_fini) H_CB(xsurv0_sock_fini)
H_CB(xrep0_sock_close) H_CB(xresp0_sock_close) H_CB(xsurv0_sock_close)
H_CB(xrep0_sock_open) H_CB(xresp0_sock_open) H_CB(xsurv0_sock_open)
H_TTL(xrep0_sock_set_maxttl) H_TTL(xresp0_sock_set_maxttl) H_TTL(xreq0_sock_set_max_ttl) H_TTL(xsurv0_sock_set_max_ttl)
/* lemma unit: the strengthened nni_id_remove contract (idhash_contracts_x.h) on the real src/core/idhash.c */
void h_xp_idhash_remove(void) { nni_id_map *m; uint64_t id; VP_HAVOC_GHOSTS(); id_reg_num = nondet_int(); nni_id_remove(m, id); VP_CANARY(); }
