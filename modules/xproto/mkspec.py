#!/usr/bin/env python3
"""Generates modules/xproto/spec.json (units are regular; written once here)."""
import json, os
HERE = os.path.dirname(os.path.abspath(__file__))
FL = ["--slice-formula"]
units = []
def U(name, fn, replace=None, defines=None, props=("C03",), grade="P", note=None, timeout=300, **kw):
    u = {"name": name, "entry": "h_" + fn, "enforce": fn, "grade": grade, "props": list(props),
         "solver": "cadical", "cbmc_flags": FL, "timeout": timeout}
    if replace:
        u["replace"] = replace
        u["unwind"] = 60
        u["note_unwind"] = "no loop of the code is involved; --unwind 60 only covers the DFCC library loop over the (long) assigns clauses of the replaced contracts"
    if defines: u["defines"] = defines
    if note: u["note"] = note
    u.update(kw)
    units.append(u)

for fn in ("xrep0_pipe_getq_cb", "xresp0_getq_cb"):
    U(fn, fn, props=("C13", "C03", "C04" if fn.startswith("xrep") else "C07"))
for fn in ("xrep0_pipe_send_cb", "xresp0_send_cb"):
    U(fn, fn, replace=["nni_msgq_aio_get"], props=("C13", "C03"))
    U(fn + "_failed", fn, replace=["nni_msgq_aio_get"], defines=["XP_FAILED 1"], props=("C13", "C03"))
for fn in ("xrep0_pipe_putq_cb", "xresp0_putq_cb"):
    U(fn, fn, props=("C13", "C03"))
    U(fn + "_failed", fn, defines=["XP_FAILED 1"], props=("C13", "C03"))
for p in ("xrep0", "xresp0", "xreq0", "xsurv0"):
    U(p + "_sock_send", p + "_sock_send", replace=["nni_msgq_aio_put"], props=("C15", "C03"),
      note="C15 is carried by two clauses of the nni_msgq_aio_put contract (modules/msgqueue/contracts.h, enforced by unit msgq_aio_put): 'can proceed now => done now, timeout not consulted (g_start_calls unchanged, completed with 0)' and 'must wait => nni_aio_start exactly once; refused => not on the list, nothing queued'; restated as XP_MQ_PUT_POST")
    U(p + "_sock_recv", p + "_sock_recv", replace=["nni_msgq_aio_get"], props=("C15", "C03"),
      note="C15 is carried by the same two clauses of the nni_msgq_aio_get contract (enforced by unit msgq_aio_get), plus FIFO: what is handed over is the oldest queued message; restated as XP_MQ_GET_POST")
exec(open(os.path.join(HERE, "mkspec2.py")).read())
NOT_DECIDED = [
 "nothing was dropped for time-outs: every unit written is decided",
 "NOT under contract here (already covered elsewhere, not duplicated): xrep0_pipe_recv_cb, xrep0_sock_getq_cb (modules/xrep); xresp0_recv_cb, xresp0_sock_getq_cb, xresp0_pipe_start (modules/xrespond); xsurv0_recv_cb, xsurv0_pipe_start (modules/xsurvey); xreq0_pipe_start/close, xreq0_getq_cb/send_cb/putq_cb/recv_cb (modules/reqy); xsurv0_getq_cb/send_cb/putq_cb/sock_getq_cb (modules/surveyx)",
 "the header validation of a raw send (header length >= 4, first word selects the pipe, short header => message freed and the next one fetched) lives in x*_sock_getq_cb, not in x*_sock_send (which is nni_msgq_aio_put on the upper write queue): it is the contract of xrep0_sock_getq_cb / xresp0_sock_getq_cb in modules xrep / xrespond",
 "option getters (x*_sock_get_maxttl: nni_copyout_int), xreq0_sock_open/close/fini (empty bodies): no contract",
 "the msgq contracts do not say WHICH aio is parked or completed by nni_msgq_aio_put/aio_get (only counts and the message identity), so 'the parked reader is this pipe's aio_getq' is not derivable by replacement; the units state list lengths, start/completion counts and message identity only",
 "one message queue per unit: a function that touches two queues (x*_sock_getq_cb: upper write queue and a pipe's send queue) cannot be expressed with the single set of msgq ghosts; those functions stay with the ghost-record models of modules xrep / xrespond / surveyx",
 "interleavings (pipe_close racing with a callback of the same pipe) are not explored: every unit is one function as an atomic step"
]

for u in units:
    if u["name"].startswith(("xrep0_pipe_close", "xresp0_pipe_close", "xrep0_pipe_start", "xp_idhash_remove")):
        u["timeout"] = 600
spec = {
 "module": "xproto",
 "about": "raw-mode protocol files xrep.c, xrespond.c, xreq.c, xsurvey.c: per-pipe send/receive hand-offs, socket send/receive, pipe and socket life cycle, NNG_OPT_MAXTTL (functions not covered by modules xrep, xrespond, xsurvey, reqy, surveyx); msgq and idhash calls replaced by the contracts of modules msgqueue and idhash",
 "sources": [
  {"path": "src/core/message.c"},
  {"path": "src/core/msgqueue.c"},
  {"path": "src/core/idhash.c", "weave": {
     "loops": {"nni_id_remove": [{"assigns": "probe, m->id_load, __CPROVER_object_whole(m->id_entries)",
                                  "invariants": ["probe < m->id_cap && index < m->id_cap", "(g_k < m->id_cap) ==> IDM_SLOT_KV_SAME(m)"]}]},
     "before_return": {"nni_id_remove": "g_found = index;"}}},
  {"path": "src/core/options.c"},
  {"path": "src/sp/protocol/reqrep0/xrep.c"},
  {"path": "src/sp/protocol/survey0/xrespond.c"},
  {"path": "src/sp/protocol/reqrep0/xreq.c"},
  {"path": "src/sp/protocol/survey0/xsurvey.c"}
 ],
 "includes_before": ["modules/xproto/pre.h"],
 "includes_after": ["modules/xproto/post.h", "modules/xproto/contracts.h", "modules/xproto/harness.c"],
 "excluded_checks": [
  {"match": "pointer relation:", "why": "message.c deliberately compares possibly-NULL chunk pointers (see modules/message/spec.json)"},
  {"match": "check_replace_ensures_was_freed_preconditions", "why": "CBMC 6.11 DFCC library sanity check that fails for every __CPROVER_was_freed in a replaced contract (tool artifact, see modules/message/spec.json)"}
 ],
 "stubs": [
  "include/env_proto.h: nni_pipe_send/recv/close/id/peer (ghost records), nni_aio_result/get_msg/set_msg on the real aio fields, stats/log no-ops, nni_atomic_* sequential, nni_panic = assertion failure",
  "modules/xproto/env.h: nni_aio_init/fini/stop/close as ghost records (per tracked aio identity: how often, with which callback and argument); nni_sock_sendq/recvq answer with free ghost pointers; nni_list_active/remove/init_offset for the ONE pipe list of xsurvey.c (membership of the pipe under consideration is a free ghost)",
  "ASSUMED BY REPLACEMENT (enforced in their own modules): modules/msgqueue contracts of nni_msgq_aio_put, nni_msgq_aio_get, nni_msgq_close, nni_msgq_init, nni_msgq_fini; modules/idhash contracts of nni_id_set, nni_id_remove, nni_id_map_init, nni_id_map_fini.  The ghost names of those contracts are mapped onto env_proto ghosts in modules/xproto/ghost.h (wait lists A/B = the queue's writer/reader lists, pollables W/R = sendable/recvable); ONE message queue is in scope per unit",
  "modules/xproto/env_sync_x.h (variant of include/env_sync.h: a slot whose mutex is not held is reused; needed because the replaced msgq contracts havoc the lock ghosts): nni_mtx_* ghost lock discipline (interleavings NOT explored)",
  "modules/xproto/idhash_contracts_x.h: copy of modules/idhash/contracts_mut.h with ONE added postcondition of nni_id_remove (RV == 0 ==> g_found < OLD(id_cap)); that text is enforced on the real idhash.c by unit xp_idhash_remove of THIS module; the texts of id_find / id_resize / nni_id_set / nni_id_map_init / nni_id_map_fini are byte-identical to modules/idhash and enforced there (idhash_find, idhash_resize, idhash_set, idhash_init, idhash_fini)",
  "include/env_alloc.h: nni_alloc/nni_zalloc/nni_free (may fail; sized-free assertion)",
  "the real src/core/message.c (nni_msg_free) and src/core/options.c (nni_copyin_int) are compiled into the unit and executed; src/core/msgqueue.c and src/core/idhash.c are compiled in for their type definitions, every call into them is replaced by a contract"
 ],
 "mutations_checked": [
  "M1 xrep0_pipe_getq_cb leaves the message in aio_getq too: xrep0_pipe_getq_cb.postcondition.2",
  "M2 xresp0_send_cb does not free on failure: xresp0_send_cb.postcondition.1/.2 (unit xresp0_send_cb_failed)",
  "M3 xrep0_pipe_putq_cb re-arms with aio_putq: xrep0_pipe_putq_cb.postcondition.1",
  "M4 xrep0_pipe_close removes id+1: xrep0_pipe_close.postcondition.4",
  "M5 xresp0_pipe_close does not close the queue: xresp0_pipe_close.postcondition.2/.3",
  "M6 xsurv0_sock_send puts on urq: nni_msgq_aio_put.precondition.1, xsurv0_sock_send.postcondition.1",
  "M7 xreq0_sock_set_max_ttl accepts 0: xreq0_sock_set_max_ttl.postcondition.1/.4",
  "M8 xrep0_pipe_start arms although nni_id_set failed: xrep0_pipe_start.postcondition.5",
  "M9 xrep0_pipe_init gives aio_send the getq callback: xrep0_pipe_init.postcondition.2",
  "M10 xsurv0_pipe_close leaves the pipe on the list: xsurv0_pipe_close.postcondition.4",
  "M11 xrep0_pipe_send_cb parks aio_send instead of aio_getq: nni_msgq_aio_get.precondition.2",
  "M12 xresp0_pipe_fini does not release the queue: xresp0_pipe_fini.postcondition.2/.3",
  "M13 xrep0_pipe_getq_cb sends although the get failed: xrep0_pipe_getq_cb.postcondition.1",
  "revert of fix da56444 (src/sp/protocol at da56444~1): x*_pipe_init.postcondition.3 (aios finalised in init), xresp0/xsurv0_pipe_init.postcondition.4 (back pointers), x*_pipe_close_noq: nni_msgq_close.precondition.1"
 ],
 "units": units,
 "not_decided": NOT_DECIDED if "NOT_DECIDED" in globals() else []
}
json.dump(spec, open(os.path.join(HERE, "spec.json"), "w"), indent=1)
print(len(units), "units")
