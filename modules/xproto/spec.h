/* Spec macros of the xproto module (raw REQ/REP/SURVEYOR/RESPONDENT glue around the msgq and
 * idhash contracts).  No code. */
#ifndef VP_XPROTO_SPEC_H
#define VP_XPROTO_SPEC_H
#define XP_TTL_OK(t) ((t) >= 1 && (t) <= NNI_MAX_MAX_TTL)

/* id map embedded in a socket object (the outer is_fresh is the socket's): shape + scalar
 * invariant of modules/idhash (IDM_WF_PRE without the is_fresh of the map itself) */
#define XP_IDM_PRE(m)                                                      \
	((((m)->id_cap == 0 && (m)->id_entries == NULL) ||                     \
	     ((m)->id_cap != 0 && (m)->id_cap <= IDM_MAXCAP &&                 \
	         __CPROVER_is_fresh((m)->id_entries, (size_t) (m)->id_cap * IDM_ENT_SZ))) && \
	    IDM_SCALAR(m) && IDM_GHOST_PRE(m) && !(m)->id_static)
/* what a replaced nni_id_set / nni_id_remove may write */
#define XP_IDM_TARGETS(m) *(m), g_free_calls, g_alloc_ok, g_found, g_slot, id_reg_num, __CPROVER_object_whole(id_reg_map)

/* msgq: preconditions of the replaced nni_msgq_aio_put / nni_msgq_aio_get (modules/msgqueue/contracts.h) */
#define XP_MQ_AIO_FREE(aio) \
	(!(g_putq.n > 0 && ((aio) == g_putq.head || (aio) == g_putq.tail)) && !(g_getq.n > 0 && ((aio) == g_getq.head || (aio) == g_getq.tail)) && (aio) != NULL)
#define XP_MQ_PUT_PRE(mq, aio) \
	(MQ_PRE(mq) && MQ_GHOST_PRE(mq) && (mq)->mq_len <= (mq)->mq_cap && g_putq.n < 8 && XP_MQ_AIO_FREE(aio) && \
	    (g_putq.n == 0 || (g_getq.n == 0 && (mq)->mq_len >= (mq)->mq_cap)))
#define XP_MQ_GET_PRE(mq, aio) \
	(MQ_PRE(mq) && MQ_GHOST_PRE(mq) && g_getq.n < 8 && XP_MQ_AIO_FREE(aio) && \
	    (g_getq.n == 0 || ((mq)->mq_len == 0 && g_putq.n == 0)))
#define XP_MQ_PUT_TARGETS(mq) (mq)->mq_put, (mq)->mq_len, __CPROVER_object_whole((mq)->mq_msgs), MQ_ENV_GHOSTS
#define XP_MQ_GET_TARGETS(mq) (mq)->mq_get, (mq)->mq_len, MQ_ENV_GHOSTS
#define XP_MQ_CLOSE_TARGETS(mq) (mq)->mq_closed, (mq)->mq_get, (mq)->mq_len, g_msg_freed, g_msg_freed_at_j, MQ_ENV_GHOSTS

/* C15 / C02 clauses of the msgq contracts, restated for the protocol entry points */
#define XP_PUT_CAN(mq) (__CPROVER_old(g_putq.n) == 0 && (__CPROVER_old(g_getq.n) > 0 || __CPROVER_old((mq)->mq_len) < (mq)->mq_cap))
#define XP_GET_CAN(mq) (__CPROVER_old(g_getq.n) == 0 && (__CPROVER_old((mq)->mq_len) > 0 || __CPROVER_old(g_putq.n) > 0))
#define XP_MQ_GET_POST(mq)                                                 \
	(MQ_WF_SCALAR(mq) && MQ_GEOM_SAME(mq) && MQ_LISTS_OK && MQ_NOTIFY_OK(mq) && \
	    (XP_GET_CAN(mq) ==> (g_start_calls == __CPROVER_old(g_start_calls) && g_getq.n == 0 && g_fin_msg_calls == __CPROVER_old(g_fin_msg_calls) + 1)) && \
	    ((XP_GET_CAN(mq) && __CPROVER_old((mq)->mq_len) > 0 && g_k == 0 && g_j == __CPROVER_old(g_fin_msg_calls)) ==> (void *) g_fin_msg_at_j == g_p) && \
	    (!XP_GET_CAN(mq) ==> (g_start_calls == __CPROVER_old(g_start_calls) + 1 && g_fin_calls == __CPROVER_old(g_fin_calls) && (mq)->mq_len == __CPROVER_old((mq)->mq_len) && g_getq.n == __CPROVER_old(g_getq.n) + (g_aio_start_ok ? 1 : 0))))
#define XP_MQ_PUT_POST(mq)                                                 \
	(MQ_WF_SCALAR(mq) && MQ_GEOM_SAME(mq) && MQ_LISTS_OK && MQ_NOTIFY_OK(mq) && \
	    (XP_PUT_CAN(mq) ==> (g_start_calls == __CPROVER_old(g_start_calls) && g_putq.n == 0 && g_fin_calls > __CPROVER_old(g_fin_calls) && g_fin_last_rv == 0)) && \
	    (!XP_PUT_CAN(mq) ==> (g_start_calls == __CPROVER_old(g_start_calls) + 1 && g_fin_calls == __CPROVER_old(g_fin_calls) && (mq)->mq_len == __CPROVER_old((mq)->mq_len) && g_putq.n == __CPROVER_old(g_putq.n) + (g_aio_start_ok ? 1 : 0))) && \
	    (g_k < __CPROVER_old((mq)->mq_len) ==> (void *) MQ_VIEW(mq, g_k) == g_p))
#endif
