/* Spec macros for the REQ/REP backtrace (C13, C11, C04); shared by modules
 * xrep and rep.  No code.
 *
 * A request as it arrives from a peer has an empty header and a body
 *     w_0 w_1 ... w_n payload
 * of big-endian 32-bit words: w_0..w_{n-1} are peer ids added by devices on
 * the way (high bit clear), w_n is the request id (high bit set).
 *
 * The scan is described declaratively by ONE ghost number g_n, the index of
 * the first word position i in 0..14 at which the scan cannot continue --
 * either the body has no complete word i ("exhausted") or word i has the high
 * bit set ("end marker") -- or 15 if there is no such position.  For every
 * body exactly one value of g_n satisfies RR_SCAN_PRE, so requiring it does
 * not restrict the input (it defines the ghost).  15 = NNI_MAX_MAX_TTL, a
 * constant of the code, so the quantifier below has a constant bound.
 */
#ifndef VP_XREP_SPEC_H
#define VP_XREP_SPEC_H

/* a message as a transport delivers it: unshared, empty header, wire bytes in the body */
#define RR_WIRE_MSG(m)                                                     \
	(__CPROVER_is_fresh((m), sizeof(struct nng_msg)) &&                    \
	    (m)->m_header_len == 0 && (m)->m_refcnt.v == 1 &&                  \
	    CH_FULL_PRE(&(m)->m_body))

#define RR_WORD_MISSING(m, i) (4 * (size_t) (i) + 4 > (m)->m_body.ch_len)
#define RR_WORD_ENDS(m, i) (((m)->m_body.ch_ptr[4 * (size_t) (i)] & 0x80u) != 0)
#define RR_STOP(m, i) (RR_WORD_MISSING(m, i) || RR_WORD_ENDS(m, i))
#define RR_SCAN_PRE(m)                                                     \
	(g_n <= 15 &&                                                          \
	    __CPROVER_forall { size_t vi; (vi < 15) ==> ((vi < g_n) ==> !RR_STOP(m, vi)) } && \
	    (g_n < 15 ==> RR_STOP(m, g_n)))

/* classification of a request by the property statement (ttl = hop limit 1..15):
 *   ACCEPT   : the end marker is among the first ttl words: n+1 = g_n+1 words move
 *   GARBAGE  : the body is exhausted before an end marker, within the first ttl words
 *   TOOMANY  : the first ttl words exist and none ends the backtrace */
#define RR_ACCEPT(oldlen, ttl) ((int) g_n < (ttl) && 4 * g_n + 4 <= (oldlen))
#define RR_GARBAGE(oldlen, ttl) ((int) g_n < (ttl) && 4 * g_n + 4 > (oldlen))
#define RR_TOOMANY(ttl) ((int) g_n >= (ttl))
/* number of bytes that move from the body to the header when accepted */
#define RR_MOVED (4 * g_n + 4)

#define RR_TTL_OK(t) ((t) >= 1 && (t) <= NNI_MAX_MAX_TTL)
#endif
