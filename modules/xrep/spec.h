/* Spec macros for the REQ/REP backtrace (C13, C11, C04); shared by modules
 * xrep and rep.  No code.
 *
 * A request as it arrives from a peer has an empty header and a body
 *     w_0 w_1 ... w_n payload
 * of big-endian 32-bit words: w_0..w_{n-1} are peer ids added by devices on
 * the way (high bit clear), w_n is the request id (high bit set).
 *
 */
#ifndef VP_XREP_SPEC_H
#define VP_XREP_SPEC_H

/* a message as a transport delivers it: unshared, empty header, wire bytes in the body */
#define RR_WIRE_MSG(m)                                                     \
	(__CPROVER_is_fresh((m), sizeof(struct nng_msg)) &&                    \
	    (m)->m_header_len == 0 && (m)->m_refcnt.v == 1 &&                  \
	    CH_FULL_PRE(&(m)->m_body))

/* The three classes of the property statement, for a body of W = len/4
 * complete words and hop limit ttl (1..15):
 *   ACCEPT  : some word n < ttl has the high bit (request id) and no earlier one has
 *   GARBAGE : W < ttl and none of the W words has the high bit (body exhausted first)
 *   TOOMANY : W >= ttl and none of the first ttl words has the high bit
 * They are disjoint and exhaustive.  The contracts state, with the ghost
 * byte (g_k, g_b = old body byte at g_k, for EVERY g_k):
 *   exactly one of {delivered, disconnected, dropped} happens, and
 *   delivered    ==> ACCEPT  (with n+1 = number of moved words, read off the new header)
 *   disconnected ==> GARBAGE
 *   dropped      ==> TOOMANY
 * which is equivalent to class ==> outcome because the classes are disjoint
 * and exhaustive.  No quantifier, no code. */
#define RR_HB(b) (((b) & 0x80u) != 0)
/* "old body word g_k/4 (if g_k is a word start below word index lim) has no high bit" */
#define RR_NO_END_BELOW(lim) (((g_k & 3) == 0 && (g_k >> 2) < (size_t) (lim)) ==> !RR_HB(g_b))

#define RR_TTL_OK(t) ((t) >= 1 && (t) <= NNI_MAX_MAX_TTL)

/* ghost equations binding the pre-state geometry of the body (used by the woven loop invariant) */
#define RR_BODY_GHOSTS(m)                                                  \
	(g_len0 == (m)->m_body.ch_len && g_off0 == CH_OFF(&(m)->m_body) &&     \
	    g_cap0 == (m)->m_body.ch_cap && g_p == (void *) (m)->m_body.ch_buf)

/* loop invariant of the backtrace loop, i = number of words moved so far,
 * h0 = header bytes present before the first moved word */
#define RR_LOOP_INV(msg, i, h0)                                            \
	((msg)->m_header_len == (h0) + 4 * (size_t) (i) && (msg)->m_refcnt.v == 1 && \
	    (msg)->m_body.ch_cap == g_cap0 && (msg)->m_body.ch_buf == (uint8_t *) g_p && \
	    4 * (size_t) (i) <= g_len0 && (msg)->m_body.ch_len == g_len0 - 4 * (size_t) (i) && \
	    __CPROVER_same_object((msg)->m_body.ch_buf, (msg)->m_body.ch_ptr) && CH_FULL_SCALAR(&(msg)->m_body) && \
	    (((msg)->m_body.ch_len != 0) ==> CH_OFF(&(msg)->m_body) == g_off0 + 4 * (size_t) (i)) && \
	    RR_LOOP_INV_BYTES(msg, i, h0))
/* RR_TRACK selects how much of the ghost byte (g_k, g_b) the invariant carries:
 *   2 (default) everything; 1 body side only (enough for the class facts and the
 *   unchanged rest of the body); 0 nothing (control flow and scalar facts only).
 * A unit states only the postconditions its level supports; the levels are a
 * split of the POSTCONDITIONS over units, every unit still runs for all inputs. */
#ifndef RR_TRACK
#define RR_TRACK 2
#endif
#if RR_TRACK == 0
#define RR_LOOP_INV_BYTES(msg, i, h0) (1)
#elif RR_TRACK == 1
#define RR_LOOP_INV_BYTES(msg, i, h0)                                      \
	(((g_k >= 4 * (size_t) (i) && g_k < g_len0) ==> (msg)->m_body.ch_ptr[g_k - 4 * (size_t) (i)] == g_b) && \
	    RR_NO_END_BELOW(i))
#else
#define RR_LOOP_INV_BYTES(msg, i, h0)                                      \
	(((g_k < 4 * (size_t) (i)) ==> HDR(msg)[(h0) + g_k] == g_b) &&        \
	    ((g_k >= 4 * (size_t) (i) && g_k < g_len0) ==> (msg)->m_body.ch_ptr[g_k - 4 * (size_t) (i)] == g_b) && \
	    RR_NO_END_BELOW(i))
#endif
#endif
