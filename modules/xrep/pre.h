/* included BEFORE the real sources of the xrep TU */
#define VP_PROTO_GHOSTS 1
#include "include/env_proto.h"
#define VP_RR_GHOSTS 1
#include "modules/xrep/env.h"
#include "modules/message/spec.h"
#include "include/env_mem.h"
#include "modules/lmq/spec.h"
#include "modules/xrep/spec.h"
size_t g_len0, g_off0, g_cap0; /* ghosts: pre-state body geometry (RR_BODY_GHOSTS) */
