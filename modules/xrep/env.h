/* modules/xrep/env.h -- ASSUMED environment shared by the REQ/REP family
 * modules (xrep, rep, req, xreq), in addition to include/env_proto.h:
 *   - nni_msgq_aio_put/aio_get/tryput (upper queues of raw sockets) as ghost
 *     records; tryput answers with the environment value g_mq_tryput_rv
 *   - nni_id_map as a finite map with ONE tracked key (g_idm.key): the answer
 *     for that key is (g_idm.has ? g_idm.val : NULL).  Contracts tie the
 *     tracked key to the id the code is going to look up by a ghost equation,
 *     so the tracked key stands for EVERY key.  A lookup of any other key is
 *     a model limit and is asserted unreachable.
 * Two parts like env_proto.h: VP_RR_GHOSTS (before the sources) and
 * VP_RR_STUBS (after).  Ghost state only, no nng code.
 */
#if defined(VP_RR_GHOSTS) && !defined(VP_RR_GHOSTS_DONE)
#define VP_RR_GHOSTS_DONE
struct vp_rr_env {
	/* msgq */
	size_t    put_calls;
	nni_msgq *put_q;
	nni_aio  *put_aio;
	nni_msg  *put_msg;
	size_t    get_calls;
	nni_msgq *get_q;
	nni_aio  *get_aio;
	size_t    tryput_calls;
	nni_msgq *tryput_q;
	nni_msg  *tryput_msg;
	/* id map, one tracked key */
	bool     idm_has;
	void    *idm_val;
	size_t   idm_get_calls;
	size_t   idm_set_calls;     /* sets of the tracked key */
	size_t   idm_remove_calls;  /* removes of the tracked key that found it */
	size_t   idm_other_ops;     /* set/remove of untracked keys */
	size_t   idm_alloc_calls;
	/* sleep timer */
	size_t       sleep_calls;
	nni_aio     *sleep_aio;
	nni_duration sleep_ms;
	/* deferred completion list (nni_aio_completions_*) */
	size_t   comp_added;
	nni_aio *comp_last;
	int      comp_last_rv;
} g_rr;
nni_id_map *g_idm_addr;   /* the map that is modelled */
uint64_t    g_idm_key;    /* the tracked key (free ghost, tied by contracts) */
int         g_mq_tryput_rv; /* environment: result of the next nni_msgq_tryput */
bool        g_idm_alloc_ok; /* environment: does the next id allocation succeed */
uint32_t    g_idm_alloc_id; /* environment: the id it hands out */
bool        g_idm_set_ok;   /* environment: does nni_id_set find memory */
#define VP_RR_GHOST_LIST g_rr
#define VP_HAVOC_RR()                                                      \
	do {                                                                   \
		g_rr.put_calls = nondet_size_t(); g_rr.put_q = nondet_ptr(); g_rr.put_aio = nondet_ptr(); g_rr.put_msg = nondet_ptr(); \
		g_rr.get_calls = nondet_size_t(); g_rr.get_q = nondet_ptr(); g_rr.get_aio = nondet_ptr(); \
		g_rr.tryput_calls = nondet_size_t(); g_rr.tryput_q = nondet_ptr(); g_rr.tryput_msg = nondet_ptr(); \
		g_rr.idm_has = nondet_bool(); g_rr.idm_val = nondet_ptr(); g_rr.idm_get_calls = nondet_size_t(); \
		g_rr.idm_set_calls = nondet_size_t(); g_rr.idm_remove_calls = nondet_size_t(); g_rr.idm_other_ops = nondet_size_t(); \
		g_rr.idm_alloc_calls = nondet_size_t(); \
		g_rr.sleep_calls = nondet_size_t(); g_rr.sleep_aio = nondet_ptr(); g_rr.sleep_ms = nondet_int(); \
		g_rr.comp_added = nondet_size_t(); g_rr.comp_last = nondet_ptr(); g_rr.comp_last_rv = nondet_int(); \
		g_idm_addr = nondet_ptr(); g_idm_key = nondet_u64(); g_mq_tryput_rv = nondet_int(); \
		g_idm_alloc_ok = nondet_bool(); g_idm_alloc_id = nondet_u32(); g_idm_set_ok = nondet_bool(); \
		__CPROVER_assume(g_rr.put_calls < ((size_t) 1 << 40) && g_rr.get_calls < ((size_t) 1 << 40) && \
		    g_rr.tryput_calls < ((size_t) 1 << 40) && g_rr.idm_get_calls < ((size_t) 1 << 40) && \
		    g_rr.idm_set_calls < ((size_t) 1 << 40) && g_rr.idm_remove_calls < ((size_t) 1 << 40) && \
		    g_rr.idm_other_ops < ((size_t) 1 << 40) && g_rr.idm_alloc_calls < ((size_t) 1 << 40) && \
		    g_rr.sleep_calls < ((size_t) 1 << 40) && g_rr.comp_added < ((size_t) 1 << 40)); \
	} while (0)
#endif

#if defined(VP_RR_STUBS) && !defined(VP_RR_STUBS_DONE)
#define VP_RR_STUBS_DONE
/* ---- upper message queues of raw sockets ---- */
void nni_msgq_aio_put(nni_msgq *q, nni_aio *aio)
{
	g_rr.put_calls++;
	g_rr.put_q   = q;
	g_rr.put_aio = aio;
	g_rr.put_msg = aio->a_msg;
}
void nni_msgq_aio_get(nni_msgq *q, nni_aio *aio)
{
	g_rr.get_calls++;
	g_rr.get_q   = q;
	g_rr.get_aio = aio;
}
int nni_msgq_tryput(nni_msgq *q, nni_msg *m)
{
	g_rr.tryput_calls++;
	g_rr.tryput_q   = q;
	g_rr.tryput_msg = m;
	/* environment invariant: 0 (queue owns the message now), NNG_EAGAIN or NNG_ECLOSED */
	__CPROVER_assume(g_mq_tryput_rv == 0 || g_mq_tryput_rv == NNG_EAGAIN || g_mq_tryput_rv == NNG_ECLOSED);
	return (g_mq_tryput_rv);
}

/* ---- id map: finite map, one tracked key ---- */
void *nni_id_get(nni_id_map *m, uint64_t id)
{
	__CPROVER_assert(m == g_idm_addr, "id map: the modelled map");
	__CPROVER_assert(id == g_idm_key, "id map model limit: only the tracked key is looked up");
	g_rr.idm_get_calls++;
	return ((id == g_idm_key && g_rr.idm_has) ? g_rr.idm_val : NULL);
}
int nni_id_set(nni_id_map *m, uint64_t id, void *v)
{
	__CPROVER_assert(m == g_idm_addr, "id map: the modelled map");
	if (!g_idm_set_ok) {
		return (NNG_ENOMEM);
	}
	if (id == g_idm_key) {
		g_rr.idm_has = true;
		g_rr.idm_val = v;
		g_rr.idm_set_calls++;
	} else {
		g_rr.idm_other_ops++;
	}
	return (0);
}
int nni_id_remove(nni_id_map *m, uint64_t id)
{
	__CPROVER_assert(m == g_idm_addr, "id map: the modelled map");
	if (id == g_idm_key) {
		if (!g_rr.idm_has) {
			return (NNG_ENOENT);
		}
		g_rr.idm_has = false;
		g_rr.idm_val = NULL;
		g_rr.idm_remove_calls++;
		return (0);
	}
	g_rr.idm_other_ops++;
	return (nondet_bool() ? 0 : NNG_ENOENT);
}
/* allocation hands out an id of the map's range [0x80000000, 0xffffffff]
 * (nni_id_map_init in req0_sock_init) that is not in use (idhash contract, C18) */
int nni_id_alloc32(nni_id_map *m, uint32_t *idp, void *v)
{
	__CPROVER_assert(m == g_idm_addr, "id map: the modelled map");
	g_rr.idm_alloc_calls++;
	if (!g_idm_alloc_ok) {
		return (NNG_ENOMEM);
	}
	/* environment invariant: id in range, not currently mapped */
	__CPROVER_assume(g_idm_alloc_id >= 0x80000000u);
	__CPROVER_assume(!(g_rr.idm_has && (uint64_t) g_idm_alloc_id == g_idm_key));
	*idp = g_idm_alloc_id;
	if ((uint64_t) g_idm_alloc_id == g_idm_key) {
		g_rr.idm_has = true;
		g_rr.idm_val = v;
		g_rr.idm_set_calls++;
	} else {
		g_rr.idm_other_ops++;
	}
	return (0);
}
void nni_id_map_init(nni_id_map *m, uint64_t lo, uint64_t hi, bool randomize) { (void) m; (void) lo; (void) hi; (void) randomize; }
void nni_id_map_fini(nni_id_map *m) { (void) m; }

/* ---- timer and deferred completions ---- */
void nni_sleep_aio(nni_duration ms, nni_aio *aio)
{
	g_rr.sleep_calls++;
	g_rr.sleep_aio = aio;
	g_rr.sleep_ms  = ms;
}
void nni_aio_bump_count(nni_aio *aio, size_t n) { aio->a_count += n; }
void nni_aio_completions_init(nni_aio_completions *clp) { *clp = NULL; }
void nni_aio_completions_add(nni_aio_completions *clp, nni_aio *aio, nng_err rv, size_t count)
{
	(void) clp; (void) count;
	g_rr.comp_added++;
	g_rr.comp_last    = aio;
	g_rr.comp_last_rv = (int) rv;
}
void nni_aio_completions_run(nni_aio_completions *clp) { (void) clp; }
#endif
