/* Contracts for src/sp/protocol/reqrep0/xrep.c (raw REP; C13, C11, C04) */
#ifndef VP_XREP_CONTRACTS_H
#define VP_XREP_CONTRACTS_H
/* clang-format off */
#ifndef RV
#define RV __CPROVER_return_value
#endif
#ifndef OLD
#define OLD(e) __CPROVER_old(e)
#endif
#define XP ((xrep0_pipe *) arg)
#define XS (((xrep0_pipe *) arg)->rep)
#define XM (((xrep0_pipe *) arg)->aio_recv.a_msg)
#define XOLDLEN OLD(XM->m_body.ch_len)

/* ---- receive callback: backtrace push (C13), hostile bodies (C11) ----
 * For ALL body bytes and every ttl 1..15. */
#ifdef XR_RECV_FAILED
/* case A (own unit): the receive failed => the peer is disconnected, nothing else happens */
static void xrep0_pipe_recv_cb(void *arg)
__CPROVER_requires(__CPROVER_is_fresh(arg, sizeof(struct xrep0_pipe)))
__CPROVER_requires(__CPROVER_is_fresh(XS, sizeof(struct xrep0_sock)) && RR_TTL_OK(XS->ttl.v) && VP_NO_LOCK_HELD)
__CPROVER_requires(XP->aio_recv.a_result != 0)
__CPROVER_assigns(VP_PROTO_GHOST_LIST)
__CPROVER_ensures(VP_NO_LOCK_HELD)
__CPROVER_ensures(g_pipe_close_calls == OLD(g_pipe_close_calls) + 1 && g_pipe_close_last == XP->pipe && g_pipe_recv_calls == OLD(g_pipe_recv_calls) && g_fin_calls == OLD(g_fin_calls))
;
#else
#define X_DELIVERED (g_rr.put_calls == OLD(g_rr.put_calls) + 1)
#define X_DISCONN (g_pipe_close_calls == OLD(g_pipe_close_calls) + 1)
#define X_DROPPED (g_pipe_recv_calls == OLD(g_pipe_recv_calls) + 1)
#define X_HL (OLD(XM)->m_header_len)
static void xrep0_pipe_recv_cb(void *arg)
__CPROVER_requires(__CPROVER_is_fresh(arg, sizeof(struct xrep0_pipe)))
__CPROVER_requires(__CPROVER_is_fresh(XS, sizeof(struct xrep0_sock)) && RR_TTL_OK(XS->ttl.v) && VP_NO_LOCK_HELD)
__CPROVER_requires(XP->aio_recv.a_result == 0 && RR_WIRE_MSG(XM) && CH_GHOST_PRE(&XM->m_body) && RR_BODY_GHOSTS(XM))
__CPROVER_assigns(XP->aio_recv.a_msg, XP->aio_putq.a_msg, VP_PROTO_GHOST_LIST, VP_RR_GHOST_LIST, g_free_calls)
__CPROVER_assigns(*XM)
__CPROVER_frees(XM, XM->m_body.ch_buf)
__CPROVER_ensures(VP_NO_LOCK_HELD && XP->aio_recv.a_msg == NULL)
/* exactly one of: delivered (handed up once, kept) / disconnected (freed) / dropped (freed, receive re-armed) */
__CPROVER_ensures((X_DELIVERED && g_pipe_close_calls == OLD(g_pipe_close_calls) && g_pipe_recv_calls == OLD(g_pipe_recv_calls) && !__CPROVER_was_freed(OLD(XM)))
    || (g_rr.put_calls == OLD(g_rr.put_calls) && X_DISCONN && g_pipe_recv_calls == OLD(g_pipe_recv_calls) && __CPROVER_was_freed(OLD(XM)))
    || (g_rr.put_calls == OLD(g_rr.put_calls) && g_pipe_close_calls == OLD(g_pipe_close_calls) && X_DROPPED && __CPROVER_was_freed(OLD(XM))))
/* disconnected ==> GARBAGE: fewer than ttl complete words and none of them is a request id */
__CPROVER_ensures(X_DISCONN ==> (g_pipe_close_last == XP->pipe && (XOLDLEN >> 2) < (size_t) XS->ttl.v && RR_NO_END_BELOW((XOLDLEN >> 2))))
/* dropped ==> TOOMANY: the first ttl words exist and none is a request id; NOT disconnected, receive re-armed */
__CPROVER_ensures(X_DROPPED ==> (g_pipe_recv_pipe == XP->pipe && g_pipe_recv_aio == &XP->aio_recv && (XOLDLEN >> 2) >= (size_t) XS->ttl.v && RR_NO_END_BELOW(XS->ttl.v)))
/* delivered ==> ACCEPT: header = [pipe id][w_0..w_n] with n+1 <= ttl words moved, at most 64 bytes;
 * w_n is the first word with the high bit; body = the rest, unchanged; handed up to the socket's receive queue */
__CPROVER_ensures(X_DELIVERED ==> (X_HL >= 8 && (X_HL & 3) == 0 && X_HL <= MSG_HDRCAP && (X_HL >> 2) - 1 <= (size_t) XS->ttl.v
    && BE32(HDR(OLD(XM))) == g_pipe_id && OLD(XM)->m_pipe == g_pipe_id
    && X_HL - 4 <= XOLDLEN && OLD(XM)->m_body.ch_len == XOLDLEN - (X_HL - 4)
    && g_rr.put_q == XS->urq && g_rr.put_aio == &XP->aio_putq && g_rr.put_msg == OLD(XM) && XP->aio_putq.a_msg == OLD(XM)))
__CPROVER_ensures((X_DELIVERED && g_k < X_HL - 4) ==> HDR(OLD(XM))[4 + g_k] == g_b)
__CPROVER_ensures(X_DELIVERED ==> (RR_NO_END_BELOW((X_HL >> 2) - 2) && (g_k == X_HL - 8 ==> RR_HB(g_b))))
__CPROVER_ensures((X_DELIVERED && g_k >= X_HL - 4 && g_k < XOLDLEN) ==> OLD(XM)->m_body.ch_ptr[g_k - (X_HL - 4)] == g_b)
;
#endif

/* ---- send path: pop the first header word, it selects the pipe (C13, C04) ---- */
#define GS ((xrep0_sock *) arg)
#define GM (((xrep0_sock *) arg)->aio_getq.a_msg)
#define GPIPE ((xrep0_pipe *) g_rr.idm_val)
#ifdef XR_GETQ_FAILED
static void xrep0_sock_getq_cb(void *arg)
__CPROVER_requires(__CPROVER_is_fresh(arg, sizeof(struct xrep0_sock)) && VP_NO_LOCK_HELD)
__CPROVER_requires(GS->aio_getq.a_result != 0)
__CPROVER_assigns()
__CPROVER_ensures(VP_NO_LOCK_HELD)
;
#else
static void xrep0_sock_getq_cb(void *arg)
__CPROVER_requires(__CPROVER_is_fresh(arg, sizeof(struct xrep0_sock)) && VP_NO_LOCK_HELD)
__CPROVER_requires(GS->aio_getq.a_result == 0 && MSG_PRE(GM) && GM->m_refcnt.v == 1)
__CPROVER_requires(CH_GHOST_PRE(&GM->m_body) && HDR_GHOST_PRE(GM))
/* ghost equation: the tracked key of the pipe map is the first header word */
__CPROVER_requires(g_idm_addr == &GS->pipes && (GM->m_header_len >= 4 ==> g_idm_key == (uint64_t) BE32(HDR(GM))))
__CPROVER_requires(g_rr.idm_has ==> __CPROVER_is_fresh(g_rr.idm_val, sizeof(struct xrep0_pipe)))
__CPROVER_assigns(GS->aio_getq.a_msg, VP_RR_GHOST_LIST, VP_SYNC_GHOSTS, g_free_calls)
__CPROVER_assigns(*GM)
__CPROVER_frees(GM, GM->m_body.ch_buf)
__CPROVER_ensures(VP_NO_LOCK_HELD && GS->aio_getq.a_msg == NULL)
/* the next message is always asked for */
__CPROVER_ensures(g_rr.get_calls == OLD(g_rr.get_calls) + 1 && g_rr.get_q == GS->uwq && g_rr.get_aio == &GS->aio_getq)
/* short header or unknown pipe => dropped, handed to nobody */
__CPROVER_ensures((OLD(GM->m_header_len) < 4 || !OLD(g_rr.idm_has)) ==> (__CPROVER_was_freed(OLD(GM)) && g_rr.tryput_calls == OLD(g_rr.tryput_calls)))
/* known pipe: offered to exactly that pipe's queue; refused => dropped */
__CPROVER_ensures((OLD(GM->m_header_len) >= 4 && OLD(g_rr.idm_has)) ==> (g_rr.tryput_calls == OLD(g_rr.tryput_calls) + 1 && g_rr.tryput_q == GPIPE->sendq && g_rr.tryput_msg == OLD(GM) && (__CPROVER_was_freed(OLD(GM)) == (g_mq_tryput_rv != 0))))
/* accepted: exactly the first word is gone, the rest of the header and the body are unchanged */
__CPROVER_ensures((OLD(GM->m_header_len) >= 4 && OLD(g_rr.idm_has) && g_mq_tryput_rv == 0) ==> (OLD(GM)->m_header_len == OLD(GM->m_header_len) - 4 && OLD(GM)->m_body.ch_len == OLD(GM->m_body.ch_len)))
__CPROVER_ensures((OLD(GM->m_header_len) >= 4 && OLD(g_rr.idm_has) && g_mq_tryput_rv == 0 && g_hk >= 4 && g_hk < OLD(GM->m_header_len)) ==> HDR(OLD(GM))[g_hk - 4] == g_hb)
__CPROVER_ensures((OLD(GM->m_header_len) >= 4 && OLD(g_rr.idm_has) && g_mq_tryput_rv == 0 && g_k < OLD(GM->m_body.ch_len)) ==> OLD(GM)->m_body.ch_ptr[g_k] == g_b)
;
#endif
/* clang-format on */
#endif
