/* Spec macros for src/sp/protocol/survey0/survey.c (C07, C11, C15). No code. */
#ifndef VP_SURVEY_SPEC_H
#define VP_SURVEY_SPEC_H
/* survey ids: 32 bits with the high bit set (surv0_sock_init: nni_id_map_init(.., 0x80000000, 0xffffffff, true)) */
#define SV_IDMAP_RANGE(s) ((s)->surveys.id_min_val == 0x80000000u && (s)->surveys.id_max_val == 0xffffffffu)
/* a connected pipe as the send loop sees it */
#define SV_PIPE_PRE(p) (__CPROVER_is_fresh((p), sizeof(struct surv0_pipe)) && LMQ_INNER_PRE(&((struct surv0_pipe *) (p))->send_queue))
#endif
