/* Contracts for src/sp/protocol/survey0/survey.c (cooked SURVEYOR; C07, C11, C15) */
#ifndef VP_SURVEY_CONTRACTS_H
#define VP_SURVEY_CONTRACTS_H
/* clang-format off */
#define RV __CPROVER_return_value
#ifndef SV_MAXPIPES
#define SV_MAXPIPES 2
#endif
#ifndef SV_MAXWAIT
#define SV_MAXWAIT 3
#endif
#define OLD(e) __CPROVER_old(e)

/* ASSUMED here, proven in modules/lmq (against a counting nni_msg_free): every queued message is released exactly once */
void nni_lmq_flush(nni_lmq *lmq)
__CPROVER_requires(LMQ_WF_SCALAR(lmq))
__CPROVER_assigns(lmq->lmq_get, lmq->lmq_len, g_msg_freed)
__CPROVER_ensures(LMQ_WF_SCALAR(lmq) && lmq->lmq_len == 0 && g_msg_freed == OLD(g_msg_freed) + OLD(lmq->lmq_len))
;

/* ASSUMED here, proven in modules/message (nni_msg_unique, case refcount == 1): an unshared message is returned as is, no heap change.
 * The precondition refcount == 1 is CHECKED at the call (buffered responses are unshared). */
nni_msg *nni_msg_unique(nni_msg *m)
__CPROVER_requires(__CPROVER_is_fresh(m, sizeof(struct nng_msg)) && m->m_refcnt.v == 1)
__CPROVER_assigns()
__CPROVER_ensures(__CPROVER_pointer_in_range_dfcc(m, RV, m))
;

/* ================= surv0_ctx_abort: the end of a survey (C07) =================
 * every receive still pending on the context is completed with `err`, every
 * buffered response is released, the survey id leaves the id map. */
static void surv0_ctx_abort(surv0_ctx *ctx, int err)
__CPROVER_requires(__CPROVER_is_fresh(ctx, sizeof(struct surv0_ctx)) && __CPROVER_is_fresh(ctx->sock, sizeof(struct surv0_sock)))
__CPROVER_requires(LMQ_WF_SCALAR(&ctx->recv_lmq))
__CPROVER_requires(g_qa_addr == &ctx->recv_queue && g_qa.n <= SV_MAXWAIT && (g_qa.n < 2 || g_qa.tail == NULL || __CPROVER_is_fresh(g_qa.tail, sizeof(nni_aio))) && VP_AIOQS_PRE)
__CPROVER_requires(g_idm_addr == &ctx->sock->surveys && (ctx->survey_id != 0 ==> g_idm_key == (uint64_t) ctx->survey_id))
__CPROVER_requires(g_pollr_addr == &ctx->sock->readable && g_pollw_addr == &ctx->sock->writable)
/* only the environment fields it writes (so that a caller using this contract keeps the rest, e.g. the pipe list) */
__CPROVER_assigns(ctx->survey_id, ctx->recv_lmq.lmq_get, ctx->recv_lmq.lmq_len, g_msg_freed, g_env.fin_calls, g_env.fin_last, g_env.fin_last_rv, g_env.fin_last_count, g_env.fin_last_msg, g_env.qa, g_env.pollr, g_sv.idm_present, g_sv.idm_val, g_sv.idm_remove_calls, g_sv.idm_removed_last)
__CPROVER_ensures(VP_AIOQS_OK && g_qa.n == 0)
__CPROVER_ensures(g_fin_calls == OLD(g_fin_calls) + OLD(g_qa.n) && (OLD(g_qa.n) > 0 ==> g_fin_last_rv == err))
__CPROVER_ensures(ctx->recv_lmq.lmq_len == 0 && LMQ_WF_SCALAR(&ctx->recv_lmq) && g_msg_freed == OLD(g_msg_freed) + OLD(ctx->recv_lmq.lmq_len))
__CPROVER_ensures(ctx->survey_id == 0)
__CPROVER_ensures(OLD(ctx->survey_id) != 0 ==> (g_sv.idm_remove_calls == OLD(g_sv.idm_remove_calls) + 1 && g_sv.idm_removed_last == (uint64_t) OLD(ctx->survey_id) && !g_sv.idm_present))
__CPROVER_ensures(OLD(ctx->survey_id) == 0 ==> (g_sv.idm_remove_calls == OLD(g_sv.idm_remove_calls) && g_sv.idm_present == OLD(g_sv.idm_present)))
;

/* ================= surv0_ctx_send: a new survey (C07, C15) =================
 * the previous survey is aborted FIRST (receivers completed with NNG_ECANCELED,
 * buffer flushed, old id out of the map -- the id-map stub asserts that the old
 * id is gone when the new one is allocated), then a fresh id with the high bit
 * set is allocated, the deadline becomes now + survey time, the survey goes to
 * every pipe (idle: on the wire; busy: queued if there is room); the send
 * completes in the call and never waits (C15). */
#define SS_C ((surv0_ctx *) arg)
#define SS_S (((surv0_ctx *) arg)->sock)
#define SS_M (aio->a_msg)
#define SS_P1 ((surv0_pipe *) g_qb.head)
#define SS_P2 ((surv0_pipe *) g_qb.tail)
static void surv0_ctx_send(void *arg, nni_aio *aio)
__CPROVER_requires(__CPROVER_is_fresh(arg, sizeof(struct surv0_ctx)) && __CPROVER_is_fresh(SS_S, sizeof(struct surv0_sock)) && SV_IDMAP_RANGE(SS_S) && VP_NO_LOCK_HELD)
__CPROVER_requires(__CPROVER_is_fresh(aio, sizeof(nni_aio)) && MSG_PRE(SS_M) && SS_M->m_refcnt.v == 1 && CH_GHOST_PRE(&SS_M->m_body))
__CPROVER_requires(LMQ_WF_SCALAR(&SS_C->recv_lmq) && SS_C->survey_time.v >= -1 && g_now < ((nni_time) 1 << 62))
/* queue A = receives pending on this context, queue B = the socket's pipes (model limit: at most two) */
__CPROVER_requires(g_qa_addr == &SS_C->recv_queue && g_qb_addr == &SS_S->pipes && g_qb.n <= SV_MAXPIPES)
__CPROVER_requires((g_qa.n == 0 || __CPROVER_is_fresh(g_qa.head, sizeof(nni_aio))) && (g_qb.n == 0 || SV_PIPE_PRE(g_qb.head)) && (g_qb.n != 2 || SV_PIPE_PRE(g_qb.tail)) && g_qa.n <= SV_MAXWAIT && (g_qa.n < 2 || g_qa.tail == NULL || __CPROVER_is_fresh(g_qa.tail, sizeof(nni_aio))) && VP_AIOQS_OK && VP_AIO_NOT_QUEUED(aio))
/* id map model: the tracked key is this context's live survey id, if it has one (else nothing is tracked) */
__CPROVER_requires(g_idm_addr == &SS_S->surveys && (SS_C->survey_id != 0 ==> g_idm_key == (uint64_t) SS_C->survey_id) && (SS_C->survey_id == 0 ==> !g_sv.idm_present))
__CPROVER_requires(g_pollr_addr == &SS_S->readable && g_pollw_addr == &SS_S->writable)
__CPROVER_assigns(aio->a_msg, aio->a_result, aio->a_count, SS_C->survey_id, SS_C->expire, SS_C->recv_lmq.lmq_get, SS_C->recv_lmq.lmq_len, g_msg_freed, g_idm_key, VP_PROTO_GHOST_LIST, VP_SV_GHOST_LIST, VP_SYNC_GHOSTS, g_free_calls)
__CPROVER_assigns(*SS_M)
__CPROVER_assigns(g_qb.n > 0: SS_P1->busy, SS_P1->aio_send.a_msg, SS_P1->send_queue.lmq_put, SS_P1->send_queue.lmq_len, __CPROVER_object_whole(SS_P1->send_queue.lmq_msgs))
__CPROVER_assigns(g_qb.n == 2: SS_P2->busy, SS_P2->aio_send.a_msg, SS_P2->send_queue.lmq_put, SS_P2->send_queue.lmq_len, __CPROVER_object_whole(SS_P2->send_queue.lmq_msgs))
__CPROVER_frees(SS_M, SS_M->m_body.ch_buf)
__CPROVER_ensures(VP_NO_LOCK_HELD && VP_AIOQS_OK)
/* C15: a survey never waits */
__CPROVER_ensures(g_start_calls == OLD(g_start_calls))
/* the previous survey is over: pending receivers completed (NNG_ECANCELED), buffer flushed, old id removed */
__CPROVER_ensures(g_qa.n == 0 && g_fin_calls == OLD(g_fin_calls) + OLD(g_qa.n) + 1 && SS_C->recv_lmq.lmq_len == 0 && g_msg_freed == OLD(g_msg_freed) + OLD(SS_C->recv_lmq.lmq_len))
__CPROVER_ensures(OLD(SS_C->survey_id) != 0 ==> (g_sv.idm_remove_calls == OLD(g_sv.idm_remove_calls) + 1 && g_sv.idm_removed_last == (uint64_t) OLD(SS_C->survey_id)))
/* id allocation failed: reported, the message stays with the caller, no survey is live, nothing sent */
__CPROVER_ensures(g_idm_set_rv != 0 ==> (g_fin_last == aio && g_fin_last_rv == g_idm_set_rv && aio->a_msg == OLD(SS_M) && !__CPROVER_was_freed(OLD(SS_M)) && SS_C->survey_id == 0 && !g_sv.idm_present && g_pipe_send_calls == OLD(g_pipe_send_calls)))
/* success: new id (high bit set) owned by this context, deadline = now + survey time, header = [id], completes with the body length */
__CPROVER_ensures(g_idm_set_rv == 0 ==> (SS_C->survey_id == g_idm_fresh && (SS_C->survey_id & 0x80000000u) != 0 && g_sv.idm_present && g_sv.idm_val == arg && g_idm_key == (uint64_t) SS_C->survey_id && g_sv.idm_alloc_calls == OLD(g_sv.idm_alloc_calls) + 1))
/* deadline = now + survey time; an infinite survey time (NNG_DURATION_INFINITE, accepted by the option) never expires */
__CPROVER_ensures((g_idm_set_rv == 0 && SS_C->survey_time.v >= 0) ==> SS_C->expire == g_now + (nni_time) SS_C->survey_time.v)
__CPROVER_ensures((g_idm_set_rv == 0 && SS_C->survey_time.v < 0) ==> SS_C->expire == NNI_TIME_NEVER)
__CPROVER_ensures(g_idm_set_rv == 0 ==> (g_fin_last == aio && g_fin_last_rv == 0 && g_fin_last_count == OLD(SS_M->m_body.ch_len) && aio->a_msg == NULL))
/* no pipe took it (none connected, or all busy with full queues): released */
__CPROVER_ensures((g_idm_set_rv == 0 && g_qb.n == 0) ==> (__CPROVER_was_freed(OLD(SS_M)) && g_pipe_send_calls == OLD(g_pipe_send_calls)))
/* first pipe: idle => on the wire now with header [id] and the body unchanged; busy with room => queued; busy and full => skipped */
__CPROVER_ensures((g_idm_set_rv == 0 && g_qb.n > 0 && !OLD(SS_P1->busy)) ==> (SS_P1->busy && SS_P1->aio_send.a_msg == OLD(SS_M) && !__CPROVER_was_freed(OLD(SS_M)) && OLD(SS_M)->m_header_len == 4 && BE32(HDR(OLD(SS_M))) == SS_C->survey_id && OLD(SS_M)->m_body.ch_len == OLD(SS_M->m_body.ch_len)))
__CPROVER_ensures((g_idm_set_rv == 0 && g_qb.n > 0 && !OLD(SS_P1->busy) && g_k < OLD(SS_M->m_body.ch_len)) ==> OLD(SS_M)->m_body.ch_ptr[g_k] == g_b)
__CPROVER_ensures((g_idm_set_rv == 0 && g_qb.n > 0 && OLD(SS_P1->busy) && OLD(SS_P1->send_queue.lmq_len) < SS_P1->send_queue.lmq_cap) ==> (SS_P1->send_queue.lmq_len == OLD(SS_P1->send_queue.lmq_len) + 1 && LMQ_VIEW(&SS_P1->send_queue, SS_P1->send_queue.lmq_len - 1) == OLD(SS_M) && !__CPROVER_was_freed(OLD(SS_M))))
__CPROVER_ensures((g_idm_set_rv == 0 && g_qb.n > 0 && OLD(SS_P1->busy) && OLD(SS_P1->send_queue.lmq_len) >= SS_P1->send_queue.lmq_cap) ==> SS_P1->send_queue.lmq_len == OLD(SS_P1->send_queue.lmq_len))
/* number of transmissions started = number of idle pipes */
__CPROVER_ensures(g_idm_set_rv == 0 ==> g_pipe_send_calls == OLD(g_pipe_send_calls) + ((g_qb.n > 0 && !OLD(SS_P1->busy)) ? 1 : 0) + ((g_qb.n == 2 && !OLD(SS_P2->busy)) ? 1 : 0))
;

/* ================= surv0_ctx_recv (C07, C15) =================
 * NNG_ESTATE iff there is no live survey (no id, or the deadline has passed: now >= expire).
 * Otherwise the receive never outlives the survey: its deadline is clamped to the survey's. */
#define SR_C ((surv0_ctx *) arg)
#define SR_S (((surv0_ctx *) arg)->sock)
#define SR_Q (&((surv0_ctx *) arg)->recv_lmq)
#define SR_NOLIVE (SR_C->survey_id == 0 || g_now >= SR_C->expire)
/* the receive must not outlive the survey: an infinite/default timeout, or one that ends after the deadline, is clamped.
 * A ZERO timeout (non-blocking receive, C15) is NOT touched: it has to fail at once in nni_aio_start. */
#define SR_CLAMP (aio->a_timeout < 0 || (aio->a_timeout > 0 && (g_now + aio->a_timeout) > SR_C->expire))
static void surv0_ctx_recv(void *arg, nni_aio *aio)
__CPROVER_requires(__CPROVER_is_fresh(arg, sizeof(struct surv0_ctx)) && __CPROVER_is_fresh(SR_S, sizeof(struct surv0_sock)) && VP_NO_LOCK_HELD)
__CPROVER_requires(__CPROVER_is_fresh(aio, sizeof(nni_aio)) && !aio->a_use_expire && aio->a_timeout >= -2)
__CPROVER_requires(LMQ_INNER_PRE(SR_Q))
/* buffered responses come straight from a transport: unshared (state invariant, see surv0_pipe_recv_cb) */
__CPROVER_requires(SR_Q->lmq_len > 0 ==> (__CPROVER_is_fresh(LMQ_VIEW(SR_Q, 0), sizeof(struct nng_msg)) && LMQ_VIEW(SR_Q, 0)->m_refcnt.v == 1))
__CPROVER_requires(g_qa_addr == &SR_C->recv_queue && VP_AIOQS_PRE && g_qa.n < 8 && VP_AIO_NOT_QUEUED(aio))
__CPROVER_requires(g_pollr_addr == &SR_S->readable && g_pollw_addr == &SR_S->writable)
__CPROVER_assigns(aio->a_msg, aio->a_result, aio->a_count, aio->a_expire, aio->a_use_expire, SR_Q->lmq_get, SR_Q->lmq_len, VP_PROTO_GHOST_LIST, VP_SV_GHOST_LIST, VP_SYNC_GHOSTS)
__CPROVER_ensures(VP_NO_LOCK_HELD && VP_AIOQS_OK && LMQ_WF_SCALAR(SR_Q))
/* no live survey <=> NNG_ESTATE (at once, nothing else happens) */
__CPROVER_ensures(SR_NOLIVE ==> (g_fin_calls == OLD(g_fin_calls) + 1 && g_fin_last == aio && g_fin_last_rv == NNG_ESTATE && g_start_calls == OLD(g_start_calls) && g_qa.n == OLD(g_qa.n) && SR_Q->lmq_len == OLD(SR_Q->lmq_len) && g_sv.set_expire_calls == OLD(g_sv.set_expire_calls)))
__CPROVER_ensures(!SR_NOLIVE ==> !(g_fin_calls > OLD(g_fin_calls) && g_fin_last_rv == NNG_ESTATE))
/* live survey: the receive deadline is clamped to the survey deadline whenever the caller's is infinite/zero/later */
__CPROVER_ensures((!SR_NOLIVE && SR_CLAMP) ==> (g_sv.set_expire_calls == OLD(g_sv.set_expire_calls) + 1 && g_sv.set_expire_aio == aio && g_sv.set_expire_when == SR_C->expire && aio->a_use_expire && aio->a_expire == SR_C->expire))
__CPROVER_ensures((!SR_NOLIVE && !SR_CLAMP) ==> (g_sv.set_expire_calls == OLD(g_sv.set_expire_calls) && !aio->a_use_expire))
/* a response is buffered: handed over in the call (oldest first), never reaches nni_aio_start (C15) */
__CPROVER_ensures((!SR_NOLIVE && OLD(SR_Q->lmq_len) > 0) ==> (g_start_calls == OLD(g_start_calls) && g_fin_calls == OLD(g_fin_calls) + 1 && g_fin_last == aio && g_fin_last_rv == 0 && g_fin_last_msg == OLD(LMQ_VIEW(SR_Q, 0)) && aio->a_msg == OLD(LMQ_VIEW(SR_Q, 0)) && SR_Q->lmq_len == OLD(SR_Q->lmq_len) - 1 && g_qa.n == OLD(g_qa.n)))
/* nothing buffered: wait (start exactly once); refused => not queued */
__CPROVER_ensures((!SR_NOLIVE && OLD(SR_Q->lmq_len) == 0) ==> (g_start_calls == OLD(g_start_calls) + 1 && g_start_last == aio && g_fin_calls == OLD(g_fin_calls) && g_qa.n == OLD(g_qa.n) + (g_aio_start_ok ? 1 : 0) && (g_aio_start_ok ==> g_last_app == aio)))
;

/* ================= surv0_pipe_recv_cb (C07, C11) =================
 * a response is delivered only to the context its id maps to (the id map holds
 * exactly the live surveys, see surv0_ctx_abort / surv0_ctx_send); any other
 * response -- stale, foreign, malformed id -- is freed and NO context is touched;
 * a message shorter than the id disconnects the peer. */
#define PR_P ((surv0_pipe *) arg)
#define PR_S (((surv0_pipe *) arg)->sock)
#define PR_M (((surv0_pipe *) arg)->aio_recv.a_msg)
#define PR_C ((surv0_ctx *) g_sv.idm_val)
#define PR_LEN0 OLD(PR_M->m_body.ch_len)
#define PR_HIT (g_sv.idm_present && OLD(PR_C->recv_lmq.lmq_len) < PR_C->recv_lmq.lmq_cap)
#ifdef PR_RECV_FAILED
static void surv0_pipe_recv_cb(void *arg)
__CPROVER_requires(__CPROVER_is_fresh(arg, sizeof(struct surv0_pipe)) && __CPROVER_is_fresh(PR_S, sizeof(struct surv0_sock)) && VP_NO_LOCK_HELD)
__CPROVER_requires(PR_P->aio_recv.a_result != 0)
__CPROVER_assigns(VP_PROTO_GHOST_LIST)
__CPROVER_ensures(VP_NO_LOCK_HELD)
__CPROVER_ensures(g_pipe_close_calls == OLD(g_pipe_close_calls) + 1 && g_pipe_close_last == PR_P->pipe && g_pipe_recv_calls == OLD(g_pipe_recv_calls) && g_fin_calls == OLD(g_fin_calls))
;
#else
static void surv0_pipe_recv_cb(void *arg)
__CPROVER_requires(__CPROVER_is_fresh(arg, sizeof(struct surv0_pipe)) && __CPROVER_is_fresh(PR_S, sizeof(struct surv0_sock)) && VP_NO_LOCK_HELD)
__CPROVER_requires(PR_P->aio_recv.a_result == 0 && SV_WIRE_MSG(PR_M) && CH_GHOST_PRE(&PR_M->m_body))
/* ghost equations: g_u32 = the id the peer sent = the tracked key of the survey map */
__CPROVER_requires(PR_M->m_body.ch_len >= 4 ==> (g_u32 == BE32(PR_M->m_body.ch_ptr) && g_idm_key == (uint64_t) g_u32))
__CPROVER_requires(g_idm_addr == &PR_S->surveys)
/* the context the id would map to (always an object so that OLD() is defined; membership is g_sv.idm_present) */
__CPROVER_requires(__CPROVER_is_fresh(g_sv.idm_val, sizeof(struct surv0_ctx)) && LMQ_INNER_PRE(&PR_C->recv_lmq))
__CPROVER_requires(g_qa_addr == &PR_C->recv_queue && VP_AIOQS_PRE)
__CPROVER_requires(g_pollr_addr == &PR_S->readable && g_pollw_addr == &PR_S->writable)
__CPROVER_assigns(PR_P->aio_recv.a_msg, PR_C->recv_lmq.lmq_put, PR_C->recv_lmq.lmq_len, __CPROVER_object_whole(PR_C->recv_lmq.lmq_msgs), VP_PROTO_GHOST_LIST, VP_SV_GHOST_LIST, VP_SYNC_GHOSTS, g_free_calls)
__CPROVER_assigns(*PR_M; g_qa.n > 0: g_qa.head->a_msg)
__CPROVER_frees(PR_M, PR_M->m_body.ch_buf)
__CPROVER_ensures(VP_NO_LOCK_HELD && VP_AIOQS_OK && PR_P->aio_recv.a_msg == NULL && LMQ_WF_SCALAR(&PR_C->recv_lmq))
/* the survey map is only read */
__CPROVER_ensures(g_sv.idm_present == OLD(g_sv.idm_present) && g_sv.idm_set_calls == OLD(g_sv.idm_set_calls) && g_sv.idm_remove_calls == OLD(g_sv.idm_remove_calls) && g_sv.idm_alloc_calls == OLD(g_sv.idm_alloc_calls))
/* shorter than the id: malformed => disconnected, freed, no context touched */
__CPROVER_ensures(PR_LEN0 < 4 ==> (__CPROVER_was_freed(OLD(PR_M)) && g_pipe_close_calls == OLD(g_pipe_close_calls) + 1 && g_pipe_close_last == PR_P->pipe && g_pipe_recv_calls == OLD(g_pipe_recv_calls) && g_fin_calls == OLD(g_fin_calls) && g_qa.n == OLD(g_qa.n) && PR_C->recv_lmq.lmq_len == OLD(PR_C->recv_lmq.lmq_len)))
/* otherwise the pipe stays up and the next receive is armed */
__CPROVER_ensures(PR_LEN0 >= 4 ==> (g_pipe_close_calls == OLD(g_pipe_close_calls) && g_pipe_recv_calls == OLD(g_pipe_recv_calls) + 1 && g_pipe_recv_pipe == PR_P->pipe && g_pipe_recv_aio == &PR_P->aio_recv))
/* id of no live survey (stale / foreign / no high bit), or that context's buffer is full: freed, NO context touched */
__CPROVER_ensures((PR_LEN0 >= 4 && !PR_HIT) ==> (__CPROVER_was_freed(OLD(PR_M)) && g_fin_calls == OLD(g_fin_calls) && g_qa.n == OLD(g_qa.n) && PR_C->recv_lmq.lmq_len == OLD(PR_C->recv_lmq.lmq_len) && g_pollr == OLD(g_pollr)))
/* id of a live survey: exactly that context gets it -- its first waiting receive, or its buffer */
__CPROVER_ensures((PR_LEN0 >= 4 && PR_HIT) ==> (!__CPROVER_was_freed(OLD(PR_M)) && OLD(PR_M)->m_header_len == 4 && BE32(HDR(OLD(PR_M))) == g_u32 && OLD(PR_M)->m_body.ch_len == PR_LEN0 - 4 && OLD(PR_M)->m_pipe == g_pipe_id))
__CPROVER_ensures((PR_LEN0 >= 4 && PR_HIT && g_k >= 4 && g_k < PR_LEN0) ==> OLD(PR_M)->m_body.ch_ptr[g_k - 4] == g_b)
__CPROVER_ensures((PR_LEN0 >= 4 && PR_HIT && OLD(g_qa.n) > 0) ==> (g_fin_calls == OLD(g_fin_calls) + 1 && g_fin_last == OLD(g_qa.head) && g_fin_last_rv == 0 && g_fin_last_msg == OLD(PR_M) && g_qa.n == OLD(g_qa.n) - 1 && PR_C->recv_lmq.lmq_len == OLD(PR_C->recv_lmq.lmq_len)))
__CPROVER_ensures((PR_LEN0 >= 4 && PR_HIT && OLD(g_qa.n) == 0) ==> (g_fin_calls == OLD(g_fin_calls) && PR_C->recv_lmq.lmq_len == OLD(PR_C->recv_lmq.lmq_len) + 1 && LMQ_VIEW(&PR_C->recv_lmq, PR_C->recv_lmq.lmq_len - 1) == OLD(PR_M)))
;
#endif
/* clang-format on */
#endif
