#define VP_HAVOC_GHOSTS()                         \
	do {                                      \
		g_k = nondet_size_t(); g_j = nondet_size_t(); g_b = nondet_u8(); g_n = nondet_size_t(); \
		g_hk = nondet_size_t(); g_u32 = nondet_u32(); g_hb = nondet_u8(); \
		g_free_calls = nondet_size_t(); g_alloc_ok = nondet_size_t(); g_msg_freed = nondet_size_t(); \
		__CPROVER_assume(g_free_calls < ((size_t) 1 << 40) && g_alloc_ok < ((size_t) 1 << 40) && g_msg_freed < ((size_t) 1 << 40)); \
		VP_HAVOC_PROTO(); VP_HAVOC_SV(); VP_HAVOC_SYNC();    \
	} while (0)
void h_surv0_ctx_abort(void) { surv0_ctx *ctx; int err; VP_HAVOC_GHOSTS(); surv0_ctx_abort(ctx, err); VP_CANARY(); }
void h_surv0_ctx_send(void) { void *arg; nni_aio *aio; VP_HAVOC_GHOSTS(); surv0_ctx_send(arg, aio); VP_CANARY(); }
void h_surv0_ctx_recv(void) { void *arg; nni_aio *aio; VP_HAVOC_GHOSTS(); surv0_ctx_recv(arg, aio); VP_CANARY(); }
void h_surv0_pipe_recv_cb(void) { void *arg; VP_HAVOC_GHOSTS(); surv0_pipe_recv_cb(arg); VP_CANARY(); }
