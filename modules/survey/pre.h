/* included BEFORE the real sources of the survey TU */
#define VP_PROTO_GHOSTS 1
#include "include/env_proto.h"
#include "modules/message/spec.h"
#include "modules/lmq/spec.h"
#include "modules/xrespond/env.h"
#include "modules/xrespond/spec.h"
#include "modules/survey/spec.h"
