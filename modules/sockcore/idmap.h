/* Contracts of the idhash functions used by socket.c / pipe.c / dialer.c /
 * listener.c.  nni_id_alloc32 / nni_id_remove (and nni_id_set, id_resize,
 * id_map_register): the text of modules/idhash/contracts_mut.h, #included
 * unchanged -- proved there (units idhash_alloc32, idhash_remove), used here by
 * replacement.  nni_id_get: the text proved by unit idhash_get plus ONE ASSUMED
 * clause (marked) that states the callers' data-structure invariant. */
#ifndef VP_SOCKCORE_IDMAP_H
#define VP_SOCKCORE_IDMAP_H
/* clang-format off */
#define RV __CPROVER_return_value
#define OLD(e) __CPROVER_old(e)
#define VP_HEAP_GHOSTS g_free_calls, g_alloc_ok
#include "modules/idhash/contracts_mut.h"

void *nni_id_get(nni_id_map *m, uint64_t id)
__CPROVER_requires(IDM_WF_PRE(m))
__CPROVER_assigns(g_found)
/* ASSUMED (invariant of the callers, not a property of idhash): the value
 * stored under `id`, if any, is the object g_reg, which the contract of the
 * function under proof describes (a valid socket / context / pipe / endpoint).
 * (First, because the pointer predicate fixes the value of the result.) */
__CPROVER_ensures(RV == NULL || __CPROVER_pointer_equals(RV, g_reg))
/* the text proved by unit idhash_get */
__CPROVER_ensures(RV == NULL ==> g_found == IDM_NOTFOUND)
__CPROVER_ensures(RV != NULL ==> (g_found < m->id_cap && m->id_entries[g_found].key == id && m->id_entries[g_found].val == RV))
__CPROVER_ensures(m->id_count == 0 ==> RV == NULL)
;
/* clang-format on */
#endif
