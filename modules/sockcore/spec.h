/* Spec macros of the sockcore module (C18 identifier issuance, C03 hold /
 * release, C20 creation failure paths).  No code. */
#ifndef VP_SOCKCORE_SPEC_H
#define VP_SOCKCORE_SPEC_H
/* documented identifier range of sockets, contexts, dialers, listeners and
 * pipes: positive 31-bit */
#define SC_ID_OK(id) ((id) >= 1u && (id) <= 0x7fffffffu)
/* a process-wide static id map M (struct lvalue) in a well-formed state: the
 * representation invariant of modules/idhash (IDM_SCALAR + pointer shape), the
 * free ghost equations its contracts want, the registry bound, cursor in
 * range, below the implementation limit on live ids.  The RANGE
 * (id_min_val / id_max_val) is NOT a precondition: it is whatever the static
 * initialiser of the real file says. */
#define SC_MAP_SHAPE(M)                                                     \
	((((M).id_cap == 0 && (M).id_entries == NULL) ||                        \
	     ((M).id_cap != 0 && (M).id_cap <= IDM_MAXCAP &&                    \
	         __CPROVER_is_fresh((M).id_entries, (size_t) (M).id_cap * IDM_ENT_SZ))) && \
	    IDM_SCALAR(&(M)))
#define SC_MAP_PRE(M)                                                       \
	(SC_MAP_SHAPE(M) && IDM_GHOST_PRE(&(M)) && IDM_REG_PRE(&(M)) &&         \
	    IDM_CURSOR_OK(&(M)) && (M).id_count < IDM_MAXCOUNT)
/* frame of an operation that may insert into / remove from the static map M */
#define SC_MAP_TARGETS(M) (M), VP_HEAP_GHOSTS, g_slot, g_found, IDM_REG_TARGETS
/* the entry (id -> obj) sits in slot g_slot of M */
#define SC_MAP_HAS(M, id, obj) (g_slot < (M).id_cap && (M).id_entries[g_slot].key == (uint64_t) (id) && (M).id_entries[g_slot].val == (void *) (obj))
/* the map is untouched: same table, same scalars, ghost slot as before */
#define SC_MAP_SAME(M) (IDM_ARRAY_KEPT(&(M)) && (M).id_count == OLD((M).id_count) && (M).id_load == OLD((M).id_load) && ((g_k < (M).id_cap) ==> IDM_SLOT_SAME(&(M))))
#endif
