/* Spec macros of the sockcore module (C18 identifier issuance, C03 hold /
 * release, C20 creation failure paths).  No code. */
#ifndef VP_SOCKCORE_SPEC_H
#define VP_SOCKCORE_SPEC_H
/* documented identifier range of sockets, contexts, dialers, listeners and
 * pipes: positive 31-bit */
#define SC_ID_OK(id) ((id) >= 1u && (id) <= 0x7fffffffu)
/* the issuing range of a static id map: fixed by its static initialiser in the real file (lemma units id_ranges,
 * plain CBMC without DFCC -- DFCC havocs static objects at harness entry) and changed by nobody (only nni_id_map_init writes it) */
#define SC_RANGE(M) ((M).id_min_val == 1 && (M).id_max_val == 0x7fffffffu)
/* ghost groups of the id allocator / removal model */
#define G_IDA g_ida_calls, g_ida_map, g_ida_val, g_ida_issued
#define G_IDR g_idr_calls, g_idr_map, g_idr_id, g_idr_at_free
/* the last allocator call registered (issued id -> obj) in map M and the id is in the documented range */
#define SC_ISSUED(M, id, obj) (g_ida_calls == __CPROVER_old(g_ida_calls) + 1 && !g_ida_fail && g_ida_map == &(M) && g_ida_val == (void *) (obj) && (id) == g_ida_issued && SC_ID_OK(id))
/* exactly one removal, of `id` from M */
#define SC_REMOVED(M, id) (g_idr_calls == __CPROVER_old(g_idr_calls) + 1 && g_idr_map == &(M) && g_idr_id == (uint64_t) (id))
#endif
