/* Contracts of the sockcore module: identifier issuance (C18), find / hold /
 * release accounting (C03), creation failure paths (C20) of src/core/socket.c,
 * pipe.c, dialer.c, listener.c.  Sequential: interleavings are not explored. */
#ifndef VP_SOCKCORE_CONTRACTS_H
#define VP_SOCKCORE_CONTRACTS_H
/* clang-format off */
#define FRESH(p, T) __CPROVER_is_fresh(p, sizeof(T))
/* exact aliasing (pointer_equals keeps a CONSTANT offset; pointer_in_range_dfcc(t, p, t) gives a symbolic one and writes through p then update the whole enclosing struct: symex does not finish) */
#define ALIAS(target, ptr) __CPROVER_pointer_equals(ptr, target)
#define SOCKT struct nni_socket
#define RV __CPROVER_return_value
#define OLD(e) __CPROVER_old(e)
#define VP_HEAP_GHOSTS g_free_calls, g_alloc_ok
/* reachability probes: -DVP_COVER turns COVER clauses of the enforced function into negated ensures that must FAIL */
#ifdef VP_COVER
#define COVER(c) __CPROVER_ensures(!(c))
#else
#define COVER(c)
#endif
/* sizes of the private areas are below CBMC's object size limit */
#define SC_PRIV_MAX ((size_t) 1 << 40)
/* list node linked between two valid neighbours (one and the same node when it is the only member) */
/* list node of a member of `list`: each neighbour is the list head or another member's node (free selectors nh / ph) */
#define NODE_LINKED(list, n, nh, ph) (((nh) ? ALIAS(&(list).ll_head, (n).ln_next) : FRESH((n).ln_next, nni_list_node)) && ((ph) ? ALIAS(&(list).ll_head, (n).ln_prev) : FRESH((n).ln_prev, nni_list_node)))
#define NODE_UNLINKED_POST(n) (OLD((n).ln_prev)->ln_next == OLD((n).ln_next) && OLD((n).ln_next)->ln_prev == OLD((n).ln_prev))
/* tail of a list about to be appended to: the head itself (empty list) or the last member's node */
#define TAIL_PRE(list, sole) (((sole) ? ALIAS(&(list).ll_head, (list).ll_head.ln_prev) : FRESH((list).ll_head.ln_prev, nni_list_node)) && ALIAS(&(list).ll_head, (list).ll_head.ln_prev->ln_next))
/* item (node n) is the last member of list, behind the node that was the tail before */
#define APPENDED(list, n) ((list).ll_head.ln_prev == &(n) && (n).ln_next == &(list).ll_head && (n).ln_prev == OLD((list).ll_head.ln_prev) && OLD((list).ll_head.ln_prev)->ln_next == &(n))
/* ====================================================================== find
 * C10 handle clause / C03 / C18: the object registered under the id, iff it
 * exists and is not closed; exactly one hold on success, none on failure.
 * g_reg: the object the map holds under `id` (if any) -- see idmap.h. */
#define CTXR ((nni_ctx *) g_reg)
int nni_ctx_find(nni_ctx **cp, uint32_t id)
__CPROVER_requires(FRESH(cp, *cp) && VP_NO_LOCK_HELD)
__CPROVER_requires(g_reg == NULL || (FRESH(g_reg, nni_ctx) && FRESH(CTXR->c_sock, SOCKT)))
__CPROVER_requires(g_reg != NULL ==> (g_u32 == CTXR->c_ref && CTXR->c_ref < 0x7fffffffu))
__CPROVER_assigns(*cp, g_idg_calls, g_idg_map, g_idg_id, VP_SYNC_GHOSTS)
__CPROVER_assigns(g_reg != NULL: CTXR->c_ref)
__CPROVER_ensures(VP_NO_LOCK_HELD)
__CPROVER_ensures(RV == 0 || RV == NNG_ECLOSED)
/* success: exactly the registered object, open, on an open socket; one hold */
__CPROVER_ensures(RV == 0 ==> (g_reg != NULL && *cp == CTXR && g_idg_calls == OLD(g_idg_calls) + 1 && g_idg_map == &ctx_ids && g_idg_id == (uint64_t) id))
__CPROVER_ensures(RV == 0 ==> (!CTXR->c_closed && !CTXR->c_sock->s_closed && CTXR->c_ref == g_u32 + 1))
/* iff */
__CPROVER_ensures((g_reg != NULL && !CTXR->c_closed && !CTXR->c_sock->s_closed) ==> RV == 0)
/* failure: no hold, nothing handed out */
__CPROVER_ensures(RV != 0 ==> (*cp == OLD(*cp) && (g_reg != NULL ==> CTXR->c_ref == g_u32)))
COVER(RV == 0) COVER(RV != 0 && g_reg != NULL) COVER(g_reg == NULL)
;

#define SOCKR ((nni_sock *) g_reg)
int nni_sock_find(nni_sock **sockp, uint32_t id)
__CPROVER_requires(FRESH(sockp, *sockp) && VP_NO_LOCK_HELD)
__CPROVER_requires(g_reg == NULL || FRESH(g_reg, SOCKT))
__CPROVER_requires(g_reg != NULL ==> (g_u32 == SOCKR->s_ref && SOCKR->s_ref < 0x7fffffffu))
__CPROVER_assigns(*sockp, g_idg_calls, g_idg_map, g_idg_id, VP_SYNC_GHOSTS)
__CPROVER_assigns(g_reg != NULL: SOCKR->s_ref)
__CPROVER_ensures(VP_NO_LOCK_HELD)
__CPROVER_ensures(RV == 0 || RV == NNG_ECLOSED || RV == NNG_EBUSY)
__CPROVER_ensures(RV == 0 ==> (g_reg != NULL && *sockp == SOCKR && g_idg_calls == OLD(g_idg_calls) + 1 && g_idg_map == &sock_ids && g_idg_id == (uint64_t) id))
__CPROVER_ensures(RV == 0 ==> (!SOCKR->s_closed && !SOCKR->s_device && SOCKR->s_ref == g_u32 + 1))
__CPROVER_ensures((g_reg != NULL && !SOCKR->s_closed && !SOCKR->s_device) ==> RV == 0)
__CPROVER_ensures((g_reg == NULL || (g_reg != NULL && SOCKR->s_closed)) ==> RV == NNG_ECLOSED)
__CPROVER_ensures(RV != 0 ==> (*sockp == OLD(*sockp) && (g_reg != NULL ==> SOCKR->s_ref == g_u32)))
COVER(RV == 0) COVER(RV == NNG_EBUSY) COVER(g_reg == NULL)
;

/* ============================================================ hold / release */
void nni_sock_hold(nni_sock *s)
__CPROVER_requires(FRESH(s, SOCKT) && VP_NO_LOCK_HELD && s->s_ref < 0x7fffffffu)
__CPROVER_assigns(s->s_ref, VP_SYNC_GHOSTS)
__CPROVER_ensures(VP_NO_LOCK_HELD && s->s_ref == OLD(s->s_ref) + 1)
;
/* dropping a socket reference never releases the socket; the closer (who owns
 * one reference itself and waits on s_close_cv) is woken exactly when the
 * socket is closed and no reference but the closer's remains */
void nni_sock_rele(nni_sock *s)
__CPROVER_requires(FRESH(s, SOCKT) && VP_NO_LOCK_HELD && s->s_ref >= 1)
__CPROVER_assigns(s->s_ref, g_wake_calls, g_wake_cv, VP_SYNC_GHOSTS)
__CPROVER_ensures(VP_NO_LOCK_HELD && s->s_ref == OLD(s->s_ref) - 1 && g_free_calls == OLD(g_free_calls))
__CPROVER_ensures((s->s_closed && s->s_ref <= 1) ? (g_wake_calls == OLD(g_wake_calls) + 1 && g_wake_cv == &s->s_close_cv) : g_wake_calls == OLD(g_wake_calls))
;

/* context release: the count drops by exactly one; the context is destroyed
 * exactly when the last reference of a CLOSED context goes, never before:
 * its id leaves ctx_ids FIRST (before the block is released: no map entry
 * ever points at released memory), it leaves its socket's list, the socket's
 * closer is woken, the protocol's ctx_fini runs once before the block is
 * released exactly once with its recorded size */
/* BOUND (tool): the block is exactly a struct nni_ctx (protocol private area of size 0); a block of another size is a byte array for CBMC and the proof runs out of memory.  c_data is any pointer (only handed to ctx_fini). */
#define CTX_SHAPE(ctx) (__CPROVER_is_fresh(ctx, sizeof(nni_ctx)) && (ctx)->c_size == sizeof(nni_ctx) \
    && FRESH((ctx)->c_sock, SOCKT) && (ctx)->c_ops.ctx_fini == vp_ctx_fini \
    && (ctx)->c_sock->s_ctxs.ll_offset == offsetof(nni_ctx, c_node) && NODE_LINKED((ctx)->c_sock->s_ctxs, (ctx)->c_node, g_sole_a, g_sole_b))
#define CTX_DESTROY(ctx) (OLD((ctx)->c_ref) == 1 && OLD((ctx)->c_closed))
#define CTX_RELE_ASSIGNS(ctx) \
__CPROVER_assigns((ctx)->c_ref, (ctx)->c_node, (ctx)->c_node.ln_next->ln_prev, (ctx)->c_node.ln_prev->ln_next, ctx_ids.id_count, G_IDR, g_free_calls, g_wake_calls, g_wake_cv, g_cfini_calls, g_cfini_data, g_cfini_at_free, VP_SYNC_GHOSTS) \
__CPROVER_frees(ctx)
#define CTX_RELE_POST(ctx, destroy) \
__CPROVER_ensures(VP_NO_LOCK_HELD) \
/* not the last reference of a closed context: one reference less, nothing else */ \
__CPROVER_ensures(!(destroy) ==> (!__CPROVER_was_freed(ctx) && (ctx)->c_ref == OLD((ctx)->c_ref) - 1 && VP_HEAP_DELTA(0, 0) && g_idr_calls == OLD(g_idr_calls) && g_wake_calls == OLD(g_wake_calls) && g_cfini_calls == OLD(g_cfini_calls) \
    && (ctx)->c_node.ln_next == OLD((ctx)->c_node.ln_next) && (ctx)->c_node.ln_prev == OLD((ctx)->c_node.ln_prev))) \
/* destroyed: its id removed from ctx_ids, once, before anything was released */ \
__CPROVER_ensures((destroy) ==> (SC_REMOVED(ctx_ids, OLD((ctx)->c_id)) && g_idr_at_free == OLD(g_free_calls))) \
/* off the socket's list, closer woken */ \
__CPROVER_ensures((destroy) ==> (NODE_UNLINKED_POST((ctx)->c_node) && g_wake_calls == OLD(g_wake_calls) + 1 && g_wake_cv == &OLD((ctx)->c_sock)->s_close_cv)) \
/* protocol state finalised once (if there is any), BEFORE the block goes; the block is released exactly once, sized */ \
__CPROVER_ensures((destroy) ==> (OLD((ctx)->c_data) != NULL ? (g_cfini_calls == OLD(g_cfini_calls) + 1 && g_cfini_data == OLD((ctx)->c_data) && g_cfini_at_free == OLD(g_free_calls)) : g_cfini_calls == OLD(g_cfini_calls))) \
__CPROVER_ensures((destroy) ==> (__CPROVER_was_freed(ctx) && VP_HEAP_DELTA(0, 1)))

void nni_ctx_rele(nni_ctx *ctx)
__CPROVER_requires(CTX_SHAPE(ctx) && ctx->c_ref >= 1 && VP_NO_LOCK_HELD)
CTX_RELE_ASSIGNS(ctx)
CTX_RELE_POST(ctx, CTX_DESTROY(ctx))
COVER(CTX_DESTROY(ctx) && g_sole_a && g_sole_b) COVER(!CTX_DESTROY(ctx)) COVER(CTX_DESTROY(ctx) && !g_sole_a && OLD(ctx->c_data) == NULL)
;

/* closing a context: latches c_closed and drops the caller's reference; the
 * context is destroyed now iff that was the last reference, otherwise by the
 * nni_ctx_rele that drops the last one */
void nni_ctx_close(nni_ctx *ctx)
__CPROVER_requires(CTX_SHAPE(ctx) && ctx->c_ref >= 1 && VP_NO_LOCK_HELD)
CTX_RELE_ASSIGNS(ctx)
__CPROVER_assigns(ctx->c_closed)
CTX_RELE_POST(ctx, OLD(ctx->c_ref) == 1)
__CPROVER_ensures(OLD(ctx->c_ref) != 1 ==> ctx->c_closed)
COVER(OLD(ctx->c_ref) == 1) COVER(OLD(ctx->c_ref) == 2)
;

/* ================================================================ nni_ctx_open
 * C18: the context's id is the one the allocator issued from ctx_ids for
 * exactly this object, positive 31-bit (range fixed by the static initialiser).
 * C20 / C03: every failure releases what was built: an issued id is removed
 * again, the context is not on the socket's list, ctx_fini ran for every
 * ctx_init, the block was released, no lock is held. */
#define NEWCTX (*ctxp)
#define CTXSZ(sock) (NNI_ALIGN_UP(sizeof(nni_ctx)) + (sock)->s_ctx_ops.ctx_size)
#define CO_ISSUED (g_ida_calls == OLD(g_ida_calls) + 1 && !g_ida_fail)
/* the same contract text is checked in two runs that split on the socket's state (disjoint and exhaustive):
 * SC_CO_CLOSING: s_closing set (the path that has to take the new context apart again; real nni_ctx_close / nni_ctx_rele),
 * SC_CO_OPEN: s_closing clear (nni_ctx_close, never called on a feasible path there, replaced by its contract) */
#if defined(SC_CO_CLOSING)
#define CO_CASE(sock) ((sock)->s_closing)
#elif defined(SC_CO_OPEN)
#define CO_CASE(sock) (!(sock)->s_closing)
#else
#define CO_CASE(sock) 1
#endif
int nni_ctx_open(nni_ctx **ctxp, nni_sock *sock)
__CPROVER_requires(FRESH(ctxp, *ctxp) && FRESH(sock, SOCKT) && VP_NO_LOCK_HELD && SC_RANGE(ctx_ids))
__CPROVER_requires(CO_CASE(sock))
__CPROVER_requires((sock->s_ctx_ops.ctx_init == NULL || sock->s_ctx_ops.ctx_init == vp_ctx_init) && sock->s_ctx_ops.ctx_fini == vp_ctx_fini && sock->s_ctx_ops.ctx_size == 0)
/* g_sole_b: the socket has no context yet; g_sole_a: bound for the release step of the closing path */
__CPROVER_requires(sock->s_ctxs.ll_offset == offsetof(nni_ctx, c_node) && TAIL_PRE(sock->s_ctxs, g_sole_b) && g_sole_a)
__CPROVER_assigns(*ctxp, sock->s_ctxs.ll_head.ln_prev, sock->s_ctxs.ll_head.ln_prev->ln_next, ctx_ids.id_count, G_IDA, G_IDR, VP_HEAP_GHOSTS, g_wake_calls, g_wake_cv, g_cinit_calls, g_cinit_data, g_cinit_sdata, g_cfini_calls, g_cfini_data, g_cfini_at_free, VP_SYNC_GHOSTS)
__CPROVER_ensures(VP_NO_LOCK_HELD)
__CPROVER_ensures(RV == 0 || RV == NNG_ENOTSUP || RV == NNG_ENOMEM || RV == NNG_ECLOSED)
__CPROVER_ensures((RV == NNG_ENOTSUP) == (sock->s_ctx_ops.ctx_init == NULL))
__CPROVER_ensures(RV == 0 ==> (!sock->s_closed && !sock->s_closing))
/* success: a new block of the right size; id issued by the allocator for exactly this object, in range, still registered */
__CPROVER_ensures(RV == 0 ==> (__CPROVER_is_fresh(NEWCTX, CTXSZ(sock)) && NEWCTX->c_size == CTXSZ(sock) && SC_ISSUED(ctx_ids, NEWCTX->c_id, NEWCTX) && g_idr_calls == OLD(g_idr_calls)))
__CPROVER_ensures(RV == 0 ==> (NEWCTX->c_ref == 1 && !NEWCTX->c_closed && NEWCTX->c_sock == sock && NEWCTX->c_data == (void *) (NEWCTX + 1) && NEWCTX->c_ops.ctx_fini == vp_ctx_fini \
    && NEWCTX->c_rcvtimeo == sock->s_rcvtimeo && NEWCTX->c_sndtimeo == sock->s_sndtimeo))
__CPROVER_ensures(RV == 0 ==> (APPENDED(sock->s_ctxs, NEWCTX->c_node) && g_cinit_calls == OLD(g_cinit_calls) + 1 && g_cinit_data == NEWCTX->c_data && g_cinit_sdata == sock->s_data && g_cfini_calls == OLD(g_cfini_calls)))
__CPROVER_ensures(RV == 0 ==> VP_HEAP_DELTA(1, 0))
/* failure: nothing handed out, every block allocated was released */
__CPROVER_ensures(RV != 0 ==> (*ctxp == OLD(*ctxp) && g_alloc_ok - OLD(g_alloc_ok) == g_free_calls - OLD(g_free_calls) && g_alloc_ok <= OLD(g_alloc_ok) + 1))
/* an id that was issued is removed again (before the block is released); none is removed otherwise */
__CPROVER_ensures((RV != 0 && CO_ISSUED) ==> (SC_REMOVED(ctx_ids, g_ida_issued) && g_ida_map == &ctx_ids && g_idr_at_free == OLD(g_free_calls)))
__CPROVER_ensures((RV != 0 && !CO_ISSUED) ==> g_idr_calls == OLD(g_idr_calls))
/* protocol state: finalised iff initialised */
__CPROVER_ensures(RV != 0 ==> (g_cfini_calls - OLD(g_cfini_calls) == g_cinit_calls - OLD(g_cinit_calls)))
/* not left on the socket's list */
__CPROVER_ensures(RV != 0 ==> (sock->s_ctxs.ll_head.ln_prev == OLD(sock->s_ctxs.ll_head.ln_prev) && OLD(sock->s_ctxs.ll_head.ln_prev)->ln_next == &sock->s_ctxs.ll_head))
/* a refused allocation (block or id): NNG_ENOMEM, the protocol never saw the context */
__CPROVER_ensures((RV == NNG_ENOMEM || RV == NNG_ENOTSUP) ==> (g_cinit_calls == OLD(g_cinit_calls) && !CO_ISSUED))
__CPROVER_ensures((g_ida_calls != OLD(g_ida_calls) && g_ida_fail) ==> RV == NNG_ENOMEM)
COVER(RV == 0) COVER(RV == NNG_ENOMEM && g_alloc_ok != OLD(g_alloc_ok)) COVER(RV == NNG_ECLOSED && sock->s_closed) COVER(RV == NNG_ECLOSED && !sock->s_closed) COVER(RV == NNG_ENOMEM && g_alloc_ok == OLD(g_alloc_ok))
;

/* ================================================================ nni_sock_open
 * nni_sock_create is replaced by an ASSUMED contract (not enforced by any
 * unit, see not_decided): it hands out a freshly allocated, unregistered
 * (s_id == 0), unlinked socket with both message queues and the protocol
 * state initialised, or fails and leaves nothing behind. */
#define NS (*sp)
static int nni_sock_create(nni_sock **sp, const nni_proto *proto)
__CPROVER_requires(FRESH(sp, *sp))
__CPROVER_assigns(*sp, VP_HEAP_GHOSTS, g_mqinit_calls, g_sinit_calls, g_sinit_data, g_sinit_sock)
__CPROVER_ensures(RV == 0 ? (FRESH(NS, SOCKT) && NS->s_size == sizeof(SOCKT) && NS->s_id == 0 && NS->s_ref == 0 && !NS->s_closed && !NS->s_closing && NS->s_node.ln_next == NULL && NS->s_node.ln_prev == NULL \
        && NS->s_sock_ops.sock_open == vp_sock_open && NS->s_sock_ops.sock_fini == vp_sock_fini && NS->s_data != NULL && VP_HEAP_DELTA(1, 0) && g_mqinit_calls == OLD(g_mqinit_calls) + 2) \
    : (NS == OLD(NS) && VP_HEAP_DELTA(0, 0) && g_mqinit_calls == OLD(g_mqinit_calls)))
;
/* C18: the socket's id is the one the allocator issued from sock_ids for
 * exactly this socket, positive 31-bit (range fixed by the static initialiser);
 * the socket is on the global list and the protocol's sock_open ran once,
 * under the global lock.  C20 / C03: when the id cannot be allocated the
 * socket is destroyed -- protocol state finalised once, both queues released,
 * the block released once with its recorded size -- and is neither
 * registered, nor listed, nor handed out; no lock is held on return. */
#define NSK (*sockp)
int nni_sock_open(nni_sock **sockp, const nni_proto *proto)
__CPROVER_requires(FRESH(sockp, *sockp) && VP_NO_LOCK_HELD && TAIL_PRE(sock_list, g_sole_a) && SC_RANGE(sock_ids) && sock_list.ll_offset == offsetof(nni_sock, s_node))
__CPROVER_assigns(*sockp, sock_list.ll_head.ln_prev, sock_list.ll_head.ln_prev->ln_next, sock_ids.id_count, G_IDA, VP_HEAP_GHOSTS, g_mqinit_calls, g_mqfini_calls, g_sinit_calls, g_sinit_data, g_sinit_sock, \
    g_sfini_calls, g_sfini_data, g_sopen_calls, g_sopen_data, g_sopen_locked, VP_SYNC_GHOSTS)
__CPROVER_ensures(VP_NO_LOCK_HELD)
__CPROVER_ensures(RV == 0 ==> (SC_ISSUED(sock_ids, NSK->s_id, NSK) && APPENDED(sock_list, NSK->s_node) && g_sopen_calls == OLD(g_sopen_calls) + 1 && g_sopen_data == NSK->s_data && g_sopen_locked \
    && VP_HEAP_DELTA(1, 0) && g_sfini_calls == OLD(g_sfini_calls) && g_mqfini_calls == OLD(g_mqfini_calls) && !NSK->s_closed && NSK->s_ref == 0))
/* failure: nothing handed out, registered or listed; everything built was released */
__CPROVER_ensures(RV != 0 ==> (*sockp == OLD(*sockp) && sock_list.ll_head.ln_prev == OLD(sock_list.ll_head.ln_prev) && g_sopen_calls == OLD(g_sopen_calls) \
    && g_alloc_ok - OLD(g_alloc_ok) == g_free_calls - OLD(g_free_calls) && g_mqfini_calls - OLD(g_mqfini_calls) == g_mqinit_calls - OLD(g_mqinit_calls)))
__CPROVER_ensures((RV != 0 && g_ida_calls != OLD(g_ida_calls)) ==> (RV == NNG_ENOMEM && g_ida_fail && g_sfini_calls == OLD(g_sfini_calls) + 1 && g_free_calls == OLD(g_free_calls) + 1))
__CPROVER_ensures((g_ida_calls != OLD(g_ida_calls) && g_ida_fail) ==> RV == NNG_ENOMEM)
COVER(RV == 0) COVER(RV == NNG_ENOMEM && g_ida_calls != OLD(g_ida_calls)) COVER(RV != 0 && g_ida_calls == OLD(g_ida_calls))
;
/* clang-format on */
#endif
