/* Contracts of the sockcore module: identifier issuance (C18), find / hold /
 * release accounting (C03), creation failure paths (C20) of src/core/socket.c,
 * pipe.c, dialer.c, listener.c.  Sequential: interleavings are not explored. */
#ifndef VP_SOCKCORE_CONTRACTS_H
#define VP_SOCKCORE_CONTRACTS_H
/* clang-format off */
#define FRESH(p, T) __CPROVER_is_fresh(p, sizeof(T))
/* exact aliasing (pointer_equals keeps a CONSTANT offset; pointer_in_range_dfcc(t, p, t) gives a symbolic one and writes through p then update the whole enclosing struct: symex does not finish) */
#define ALIAS(target, ptr) __CPROVER_pointer_equals(ptr, target)
#define SOCKT struct nni_socket
#define NOTFOUND IDM_NOTFOUND
/* reachability probes: -DVP_COVER turns COVER clauses of the enforced function into negated ensures that must FAIL */
#ifdef VP_COVER
#define COVER(c) __CPROVER_ensures(!(c))
#else
#define COVER(c)
#endif
/* sizes of the private areas are below CBMC's object size limit */
#define SC_PRIV_MAX ((size_t) 1 << 40)
/* list node linked between two valid neighbours (one and the same node when it is the only member) */
/* list node of a member of `list`: each neighbour is the list head or another member's node (free selectors nh / ph) */
#define NODE_LINKED(list, n, nh, ph) (((nh) ? ALIAS(&(list).ll_head, (n).ln_next) : FRESH((n).ln_next, nni_list_node)) && ((ph) ? ALIAS(&(list).ll_head, (n).ln_prev) : FRESH((n).ln_prev, nni_list_node)))
#define NODE_UNLINKED_POST(n) (OLD((n).ln_prev)->ln_next == OLD((n).ln_next) && OLD((n).ln_next)->ln_prev == OLD((n).ln_prev))
/* tail of a list about to be appended to: the head itself (empty list) or the last member's node */
#define TAIL_PRE(list, sole) (((sole) ? ALIAS(&(list).ll_head, (list).ll_head.ln_prev) : FRESH((list).ll_head.ln_prev, nni_list_node)) && ALIAS(&(list).ll_head, (list).ll_head.ln_prev->ln_next))
/* item (node n) is the last member of list, behind the node that was the tail before */
#define APPENDED(list, n) ((list).ll_head.ln_prev == &(n) && (n).ln_next == &(list).ll_head && (n).ln_prev == OLD((list).ll_head.ln_prev) && OLD((list).ll_head.ln_prev)->ln_next == &(n))
/* heap accounting around operations on a static id map M whose table may be
 * replaced (grown / shrunk) by nni_id_alloc32 / nni_id_remove: a replacement
 * allocates one block and releases the old table if there was one */
#define SC_SWAPPED(M) ((M).id_cap != OLD((M).id_cap))
#define SC_HEAP(M, a, f) (g_alloc_ok == OLD(g_alloc_ok) + (a) + (SC_SWAPPED(M) ? 1 : 0) && g_free_calls == OLD(g_free_calls) + (f) + ((SC_SWAPPED(M) && OLD((M).id_cap) != 0) ? 1 : 0))
/* net number of live blocks grew only by the map's first table (any number of table replacements) */
#define SC_HEAP_NET0(M) ((g_alloc_ok - OLD(g_alloc_ok)) - (g_free_calls - OLD(g_free_calls)) == (((M).id_cap != 0 && OLD((M).id_cap) == 0) ? 1 : 0))

/* ====================================================================== find
 * C10 handle clause / C03 / C18: the object registered under the id, iff it
 * exists and is not closed; exactly one hold on success, none on failure.
 * g_reg: the object the map holds under `id` (if any) -- see idmap.h. */
#define CTXR ((nni_ctx *) g_reg)
int nni_ctx_find(nni_ctx **cp, uint32_t id)
__CPROVER_requires(FRESH(cp, *cp) && SC_MAP_SHAPE(ctx_ids) && VP_NO_LOCK_HELD)
__CPROVER_requires(g_reg == NULL || (FRESH(g_reg, nni_ctx) && FRESH(CTXR->c_sock, SOCKT)))
__CPROVER_requires(g_reg != NULL ==> (g_u32 == CTXR->c_ref && CTXR->c_ref < 0x7fffffffu))
__CPROVER_assigns(*cp, g_found, VP_SYNC_GHOSTS)
__CPROVER_assigns(g_reg != NULL: CTXR->c_ref)
__CPROVER_ensures(VP_NO_LOCK_HELD)
__CPROVER_ensures(RV == 0 || RV == NNG_ECLOSED)
/* success: exactly the registered object, open, on an open socket; one hold */
__CPROVER_ensures(RV == 0 ==> (g_found != NOTFOUND && *cp == CTXR && ctx_ids.id_entries[g_found].key == id && ctx_ids.id_entries[g_found].val == (void *) *cp))
__CPROVER_ensures(RV == 0 ==> (!CTXR->c_closed && !CTXR->c_sock->s_closed && CTXR->c_ref == g_u32 + 1))
/* iff */
__CPROVER_ensures((g_found != NOTFOUND && !CTXR->c_closed && !CTXR->c_sock->s_closed) ==> RV == 0)
/* failure: no hold, nothing handed out */
__CPROVER_ensures(RV != 0 ==> (*cp == OLD(*cp) && (g_reg != NULL ==> CTXR->c_ref == g_u32)))
COVER(RV == 0) COVER(RV != 0 && g_found != NOTFOUND) COVER(g_found == NOTFOUND)
;

#define SOCKR ((nni_sock *) g_reg)
int nni_sock_find(nni_sock **sockp, uint32_t id)
__CPROVER_requires(FRESH(sockp, *sockp) && SC_MAP_SHAPE(sock_ids) && VP_NO_LOCK_HELD)
__CPROVER_requires(g_reg == NULL || FRESH(g_reg, SOCKT))
__CPROVER_requires(g_reg != NULL ==> (g_u32 == SOCKR->s_ref && SOCKR->s_ref < 0x7fffffffu))
__CPROVER_assigns(*sockp, g_found, VP_SYNC_GHOSTS)
__CPROVER_assigns(g_reg != NULL: SOCKR->s_ref)
__CPROVER_ensures(VP_NO_LOCK_HELD)
__CPROVER_ensures(RV == 0 || RV == NNG_ECLOSED || RV == NNG_EBUSY)
__CPROVER_ensures(RV == 0 ==> (g_found != NOTFOUND && *sockp == SOCKR && sock_ids.id_entries[g_found].key == id && sock_ids.id_entries[g_found].val == (void *) *sockp))
__CPROVER_ensures(RV == 0 ==> (!SOCKR->s_closed && !SOCKR->s_device && SOCKR->s_ref == g_u32 + 1))
__CPROVER_ensures((g_found != NOTFOUND && !SOCKR->s_closed && !SOCKR->s_device) ==> RV == 0)
__CPROVER_ensures((g_found == NOTFOUND || (g_found != NOTFOUND && SOCKR->s_closed)) ==> RV == NNG_ECLOSED)
__CPROVER_ensures(RV != 0 ==> (*sockp == OLD(*sockp) && (g_reg != NULL ==> SOCKR->s_ref == g_u32)))
COVER(RV == 0) COVER(RV == NNG_EBUSY) COVER(g_found == NOTFOUND)
;

/* ============================================================ hold / release */
void nni_sock_hold(nni_sock *s)
__CPROVER_requires(FRESH(s, SOCKT) && VP_NO_LOCK_HELD && s->s_ref < 0x7fffffffu)
__CPROVER_assigns(s->s_ref, VP_SYNC_GHOSTS)
__CPROVER_ensures(VP_NO_LOCK_HELD && s->s_ref == OLD(s->s_ref) + 1)
;
/* dropping a socket reference never releases the socket; the closer (who owns
 * one reference itself and waits on s_close_cv) is woken exactly when the
 * socket is closed and no reference but the closer's remains */
void nni_sock_rele(nni_sock *s)
__CPROVER_requires(FRESH(s, SOCKT) && VP_NO_LOCK_HELD && s->s_ref >= 1)
__CPROVER_assigns(s->s_ref, g_wake_calls, g_wake_cv, VP_SYNC_GHOSTS)
__CPROVER_ensures(VP_NO_LOCK_HELD && s->s_ref == OLD(s->s_ref) - 1 && g_free_calls == OLD(g_free_calls))
__CPROVER_ensures((s->s_closed && s->s_ref <= 1) ? (g_wake_calls == OLD(g_wake_calls) + 1 && g_wake_cv == &s->s_close_cv) : g_wake_calls == OLD(g_wake_calls))
;

/* context release: the count drops by exactly one; the context is destroyed
 * exactly when the last reference of a CLOSED context goes, never before:
 * its id leaves the map first, it leaves its socket's list, the socket's
 * closer is woken, the protocol's ctx_fini runs once before the block is
 * released once with its recorded size */
#define CTX_SHAPE(ctx) (g_priv < SC_PRIV_MAX && __CPROVER_is_fresh(ctx, sizeof(nni_ctx) + g_priv) && (ctx)->c_size == sizeof(nni_ctx) + g_priv \
    && FRESH((ctx)->c_sock, SOCKT) && (ctx)->c_ops.ctx_fini == vp_ctx_fini && ((ctx)->c_data == NULL || ALIAS((void *) ((ctx) + 1), (ctx)->c_data)) \
    && (ctx)->c_sock->s_ctxs.ll_offset == offsetof(nni_ctx, c_node) && NODE_LINKED((ctx)->c_sock->s_ctxs, (ctx)->c_node, g_sole_a, g_sole_b))
#define CTX_DESTROY(ctx) (OLD((ctx)->c_ref) == 1 && OLD((ctx)->c_closed))
#define CTX_RELE_ASSIGNS(ctx) \
__CPROVER_assigns((ctx)->c_ref, (ctx)->c_node, (ctx)->c_node.ln_next->ln_prev, (ctx)->c_node.ln_prev->ln_next, SC_MAP_TARGETS(ctx_ids), g_wake_calls, g_wake_cv, g_cfini_calls, g_cfini_data, g_cfini_at_free, VP_SYNC_GHOSTS) \
__CPROVER_assigns(ctx_ids.id_cap != 0: __CPROVER_object_whole(ctx_ids.id_entries)) \
__CPROVER_frees(ctx, ctx_ids.id_entries)
#define CTX_RELE_POST(ctx, destroy) \
__CPROVER_ensures(VP_NO_LOCK_HELD) \
/* not the last reference of a closed context: one reference less, nothing else */ \
__CPROVER_ensures(!(destroy) ==> ((ctx)->c_ref == OLD((ctx)->c_ref) - 1 && VP_HEAP_DELTA(0, 0) && SC_MAP_SAME(ctx_ids) && g_wake_calls == OLD(g_wake_calls) && g_cfini_calls == OLD(g_cfini_calls) \
    && !__CPROVER_was_freed(ctx) && (ctx)->c_node.ln_next == OLD((ctx)->c_node.ln_next))) \
/* destroyed: the id was looked up for removal; when found its slot is empty and the map has one entry less */ \
__CPROVER_ensures((destroy) ==> (ctx_ids.id_count == OLD(ctx_ids.id_count) - (g_found != NOTFOUND ? 1 : 0))) \
__CPROVER_ensures(((destroy) && g_found != NOTFOUND && g_k == g_found) ==> g_kk == OLD((ctx)->c_id)) \
__CPROVER_ensures(((destroy) && g_found != NOTFOUND && (void *) ctx_ids.id_entries == g_ents) ==> (ctx_ids.id_entries[g_found].val == NULL && ctx_ids.id_entries[g_found].key == 0)) \
/* off the socket's list, closer woken */ \
__CPROVER_ensures((destroy) ==> (NODE_UNLINKED_POST((ctx)->c_node) && g_wake_calls == OLD(g_wake_calls) + 1 && g_wake_cv == &OLD((ctx)->c_sock)->s_close_cv)) \
/* protocol state finalised once (if there is any), BEFORE the block goes; the block is released exactly once, sized */ \
__CPROVER_ensures((destroy) ==> (OLD((ctx)->c_data) != NULL ? (g_cfini_calls == OLD(g_cfini_calls) + 1 && g_cfini_data == OLD((ctx)->c_data) && g_cfini_at_free < g_free_calls) : g_cfini_calls == OLD(g_cfini_calls))) \
__CPROVER_ensures((destroy) ==> (__CPROVER_was_freed(ctx) && SC_HEAP(ctx_ids, 0, 1)))

void nni_ctx_rele(nni_ctx *ctx)
__CPROVER_requires(CTX_SHAPE(ctx) && ctx->c_ref >= 1 && SC_MAP_PRE(ctx_ids) && VP_NO_LOCK_HELD)
CTX_RELE_ASSIGNS(ctx)
CTX_RELE_POST(ctx, CTX_DESTROY(ctx))
COVER(CTX_DESTROY(ctx) && g_found != NOTFOUND) COVER(!CTX_DESTROY(ctx)) COVER(CTX_DESTROY(ctx) && SC_SWAPPED(ctx_ids))
;

/* closing a context: latches c_closed and drops the caller's reference; the
 * context is destroyed now iff that was the last reference, otherwise by the
 * nni_ctx_rele that drops the last one */
void nni_ctx_close(nni_ctx *ctx)
__CPROVER_requires(CTX_SHAPE(ctx) && ctx->c_ref >= 1 && SC_MAP_PRE(ctx_ids) && VP_NO_LOCK_HELD)
CTX_RELE_ASSIGNS(ctx)
__CPROVER_assigns(ctx->c_closed)
CTX_RELE_POST(ctx, OLD(ctx->c_ref) == 1)
__CPROVER_ensures(OLD(ctx->c_ref) != 1 ==> ctx->c_closed)
COVER(OLD(ctx->c_ref) == 1) COVER(OLD(ctx->c_ref) == 2)
;

/* ================================================================ nni_ctx_open
 * C18: the context's id is the one the allocator issued, registered in
 * ctx_ids under exactly that id for exactly this object, positive 31-bit.
 * C20 / C03: every failure releases what was built: no map entry, not on the
 * socket's list, ctx_fini for every ctx_init, the block released, no lock held. */
#define NEWCTX (*ctxp)
#define CTXSZ(sock) (NNI_ALIGN_UP(sizeof(nni_ctx)) + (sock)->s_ctx_ops.ctx_size)
int nni_ctx_open(nni_ctx **ctxp, nni_sock *sock)
__CPROVER_requires(FRESH(ctxp, *ctxp) && FRESH(sock, SOCKT) && SC_MAP_PRE(ctx_ids) && VP_NO_LOCK_HELD)
__CPROVER_requires((sock->s_ctx_ops.ctx_init == NULL || sock->s_ctx_ops.ctx_init == vp_ctx_init) && sock->s_ctx_ops.ctx_fini == vp_ctx_fini && sock->s_ctx_ops.ctx_size < SC_PRIV_MAX)
/* g_sole_b: the socket has no context yet; g_priv, g_sole_a: bound for the release step of the closing path */
__CPROVER_requires(sock->s_ctxs.ll_offset == offsetof(nni_ctx, c_node) && TAIL_PRE(sock->s_ctxs, g_sole_b) && g_sole_a && g_priv == sock->s_ctx_ops.ctx_size)
__CPROVER_assigns(*ctxp, sock->s_ctxs.ll_head.ln_prev, sock->s_ctxs.ll_head.ln_prev->ln_next, SC_MAP_TARGETS(ctx_ids), g_wake_calls, g_wake_cv, g_cinit_calls, g_cinit_data, g_cinit_sdata, g_cfini_calls, g_cfini_data, g_cfini_at_free, VP_SYNC_GHOSTS)
__CPROVER_assigns(ctx_ids.id_cap != 0: __CPROVER_object_whole(ctx_ids.id_entries))
__CPROVER_frees(ctx_ids.id_entries)
__CPROVER_ensures(VP_NO_LOCK_HELD)
__CPROVER_ensures(RV == 0 || RV == NNG_ENOTSUP || RV == NNG_ENOMEM || RV == NNG_ECLOSED)
__CPROVER_ensures((RV == NNG_ENOTSUP) == (sock->s_ctx_ops.ctx_init == NULL))
__CPROVER_ensures(RV == 0 ==> (!sock->s_closed && !sock->s_closing))
/* success: a new block of the right size; id issued by the allocator, registered for exactly this object, in range */
__CPROVER_ensures(RV == 0 ==> (__CPROVER_is_fresh(NEWCTX, CTXSZ(sock)) && NEWCTX->c_size == CTXSZ(sock) && SC_MAP_HAS(ctx_ids, NEWCTX->c_id, NEWCTX) && SC_ID_OK(NEWCTX->c_id)))
__CPROVER_ensures(RV == 0 ==> (NEWCTX->c_ref == 1 && !NEWCTX->c_closed && NEWCTX->c_sock == sock && NEWCTX->c_data == (void *) (NEWCTX + 1) && NEWCTX->c_ops.ctx_fini == vp_ctx_fini \
    && NEWCTX->c_rcvtimeo == sock->s_rcvtimeo && NEWCTX->c_sndtimeo == sock->s_sndtimeo))
__CPROVER_ensures(RV == 0 ==> (APPENDED(sock->s_ctxs, NEWCTX->c_node) && g_cinit_calls == OLD(g_cinit_calls) + 1 && g_cinit_data == NEWCTX->c_data && g_cinit_sdata == sock->s_data && g_cfini_calls == OLD(g_cfini_calls)))
__CPROVER_ensures(RV == 0 ==> (SC_HEAP(ctx_ids, 1, 0) && ctx_ids.id_count >= OLD(ctx_ids.id_count)))
/* failure: nothing handed out, nothing left behind */
__CPROVER_ensures(RV != 0 ==> (*ctxp == OLD(*ctxp) && SC_HEAP_NET0(ctx_ids) && ctx_ids.id_count == OLD(ctx_ids.id_count)))
__CPROVER_ensures(RV != 0 ==> (g_cfini_calls - OLD(g_cfini_calls) == g_cinit_calls - OLD(g_cinit_calls)))
__CPROVER_ensures(RV != 0 ==> (sock->s_ctxs.ll_head.ln_prev == OLD(sock->s_ctxs.ll_head.ln_prev) && OLD(sock->s_ctxs.ll_head.ln_prev)->ln_next == &sock->s_ctxs.ll_head))
/* a refused allocation (block or id) leaves the map exactly as it was */
__CPROVER_ensures((RV == NNG_ENOMEM || RV == NNG_ENOTSUP) ==> (IDM_ARRAY_KEPT(&ctx_ids) && g_cinit_calls == OLD(g_cinit_calls)))
COVER(RV == 0) COVER(RV == NNG_ENOMEM && g_alloc_ok != OLD(g_alloc_ok)) COVER(RV == NNG_ECLOSED && sock->s_closed) COVER(RV == NNG_ECLOSED && !sock->s_closed)
;

/* clang-format on */
#endif
