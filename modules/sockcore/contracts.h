/* Contracts of the sockcore module: identifier issuance (C18), find / hold /
 * release accounting (C03), creation failure paths (C20) of src/core/socket.c,
 * pipe.c, dialer.c, listener.c.  Sequential: interleavings are not explored. */
#ifndef VP_SOCKCORE_CONTRACTS_H
#define VP_SOCKCORE_CONTRACTS_H
/* clang-format off */
#define FRESH(p, T) __CPROVER_is_fresh(p, sizeof(T))
/* exact aliasing (pointer_equals keeps a CONSTANT offset; pointer_in_range_dfcc(t, p, t) gives a symbolic one and writes through p then update the whole enclosing struct: symex does not finish) */
#define ALIAS(target, ptr) __CPROVER_pointer_equals(ptr, target)
#define SOCKT struct nni_socket
#define NOTFOUND IDM_NOTFOUND
/* reachability probes: -DVP_COVER turns COVER clauses of the enforced function into negated ensures that must FAIL */
#ifdef VP_COVER
#define COVER(c) __CPROVER_ensures(!(c))
#else
#define COVER(c)
#endif
/* sizes of the private areas are below CBMC's object size limit */
#define SC_PRIV_MAX ((size_t) 1 << 40)
/* list node linked between two valid neighbours (one and the same node when it is the only member) */
/* list node of a member of `list`: each neighbour is the list head or another member's node (free selectors nh / ph) */
#define NODE_LINKED(list, n, nh, ph) (((nh) ? ALIAS(&(list).ll_head, (n).ln_next) : FRESH((n).ln_next, nni_list_node)) && ((ph) ? ALIAS(&(list).ll_head, (n).ln_prev) : FRESH((n).ln_prev, nni_list_node)))
#define NODE_UNLINKED_POST(n) (OLD((n).ln_prev)->ln_next == OLD((n).ln_next) && OLD((n).ln_next)->ln_prev == OLD((n).ln_prev))
/* tail of a list about to be appended to: the head itself (empty list) or the last member's node */
#define TAIL_PRE(list, sole) (((sole) ? ALIAS(&(list).ll_head, (list).ll_head.ln_prev) : FRESH((list).ll_head.ln_prev, nni_list_node)) && ALIAS(&(list).ll_head, (list).ll_head.ln_prev->ln_next))
/* item (node n) is the last member of list, behind the node that was the tail before */
#define APPENDED(list, n) ((list).ll_head.ln_prev == &(n) && (n).ln_next == &(list).ll_head && (n).ln_prev == OLD((list).ll_head.ln_prev) && OLD((list).ll_head.ln_prev)->ln_next == &(n))
/* heap accounting around operations on a static id map M whose table may be
 * replaced (grown / shrunk) by nni_id_alloc32 / nni_id_remove: a replacement
 * allocates one block and releases the old table if there was one */
#define SC_SWAPPED(M) ((M).id_cap != OLD((M).id_cap))
#define SC_HEAP(M, a, f) (g_alloc_ok == OLD(g_alloc_ok) + (a) + (SC_SWAPPED(M) ? 1 : 0) && g_free_calls == OLD(g_free_calls) + (f) + ((SC_SWAPPED(M) && OLD((M).id_cap) != 0) ? 1 : 0))
/* net number of live blocks grew only by the map's first table (any number of table replacements) */
#define SC_HEAP_NET0(M) ((g_alloc_ok - OLD(g_alloc_ok)) - (g_free_calls - OLD(g_free_calls)) == (((M).id_cap != 0 && OLD((M).id_cap) == 0) ? 1 : 0))

/* ====================================================================== find
 * C10 handle clause / C03 / C18: the object registered under the id, iff it
 * exists and is not closed; exactly one hold on success, none on failure.
 * g_reg: the object the map holds under `id` (if any) -- see idmap.h. */
#define CTXR ((nni_ctx *) g_reg)
int nni_ctx_find(nni_ctx **cp, uint32_t id)
__CPROVER_requires(FRESH(cp, *cp) && SC_MAP_SHAPE(ctx_ids) && VP_NO_LOCK_HELD)
__CPROVER_requires(g_reg == NULL || (FRESH(g_reg, nni_ctx) && FRESH(CTXR->c_sock, SOCKT)))
__CPROVER_requires(g_reg != NULL ==> (g_u32 == CTXR->c_ref && CTXR->c_ref < 0x7fffffffu))
__CPROVER_assigns(*cp, g_found, VP_SYNC_GHOSTS)
__CPROVER_assigns(g_reg != NULL: CTXR->c_ref)
__CPROVER_ensures(VP_NO_LOCK_HELD)
__CPROVER_ensures(RV == 0 || RV == NNG_ECLOSED)
/* success: exactly the registered object, open, on an open socket; one hold */
__CPROVER_ensures(RV == 0 ==> (g_found != NOTFOUND && *cp == CTXR && ctx_ids.id_entries[g_found].key == id && ctx_ids.id_entries[g_found].val == (void *) *cp))
__CPROVER_ensures(RV == 0 ==> (!CTXR->c_closed && !CTXR->c_sock->s_closed && CTXR->c_ref == g_u32 + 1))
/* iff */
__CPROVER_ensures((g_found != NOTFOUND && !CTXR->c_closed && !CTXR->c_sock->s_closed) ==> RV == 0)
/* failure: no hold, nothing handed out */
__CPROVER_ensures(RV != 0 ==> (*cp == OLD(*cp) && (g_reg != NULL ==> CTXR->c_ref == g_u32)))
COVER(RV == 0) COVER(RV != 0 && g_found != NOTFOUND) COVER(g_found == NOTFOUND)
;

#define SOCKR ((nni_sock *) g_reg)
int nni_sock_find(nni_sock **sockp, uint32_t id)
__CPROVER_requires(FRESH(sockp, *sockp) && SC_MAP_SHAPE(sock_ids) && VP_NO_LOCK_HELD)
__CPROVER_requires(g_reg == NULL || FRESH(g_reg, SOCKT))
__CPROVER_requires(g_reg != NULL ==> (g_u32 == SOCKR->s_ref && SOCKR->s_ref < 0x7fffffffu))
__CPROVER_assigns(*sockp, g_found, VP_SYNC_GHOSTS)
__CPROVER_assigns(g_reg != NULL: SOCKR->s_ref)
__CPROVER_ensures(VP_NO_LOCK_HELD)
__CPROVER_ensures(RV == 0 || RV == NNG_ECLOSED || RV == NNG_EBUSY)
__CPROVER_ensures(RV == 0 ==> (g_found != NOTFOUND && *sockp == SOCKR && sock_ids.id_entries[g_found].key == id && sock_ids.id_entries[g_found].val == (void *) *sockp))
__CPROVER_ensures(RV == 0 ==> (!SOCKR->s_closed && !SOCKR->s_device && SOCKR->s_ref == g_u32 + 1))
__CPROVER_ensures((g_found != NOTFOUND && !SOCKR->s_closed && !SOCKR->s_device) ==> RV == 0)
__CPROVER_ensures((g_found == NOTFOUND || (g_found != NOTFOUND && SOCKR->s_closed)) ==> RV == NNG_ECLOSED)
__CPROVER_ensures(RV != 0 ==> (*sockp == OLD(*sockp) && (g_reg != NULL ==> SOCKR->s_ref == g_u32)))
COVER(RV == 0) COVER(RV == NNG_EBUSY) COVER(g_found == NOTFOUND)
;

/* pipes: a closed pipe stays findable until the reaper has removed its id
 * (pipe_reap, modules/endpoint): applications read properties of a closed pipe
 * in the REM_POST callback */
#define PIPER ((nni_pipe *) g_reg)
#define PREF(p) SC_AINT((p)->p_refcnt.rc_cnt)
nng_err nni_pipe_find(nni_pipe **pp, uint32_t id)
__CPROVER_requires(FRESH(pp, *pp) && SC_MAP_SHAPE(pipes) && VP_NO_LOCK_HELD)
__CPROVER_requires(g_reg == NULL || FRESH(g_reg, nni_pipe))
__CPROVER_requires(g_reg != NULL ==> ((int) g_u32 == PREF(PIPER) && PREF(PIPER) >= 1 && PREF(PIPER) < 0x7fffffff))
__CPROVER_assigns(*pp, g_found, VP_SYNC_GHOSTS)
__CPROVER_assigns(g_reg != NULL: PIPER->p_refcnt.rc_cnt)
__CPROVER_ensures(VP_NO_LOCK_HELD)
__CPROVER_ensures(RV == NNG_OK || RV == NNG_ENOENT)
__CPROVER_ensures((RV == NNG_OK) == (g_found != NOTFOUND))
__CPROVER_ensures(RV == NNG_OK ==> (*pp == PIPER && pipes.id_entries[g_found].key == id && pipes.id_entries[g_found].val == (void *) *pp && PREF(PIPER) == (int) g_u32 + 1))
__CPROVER_ensures(RV != NNG_OK ==> (*pp == OLD(*pp) && (g_reg != NULL ==> PREF(PIPER) == (int) g_u32)))
COVER(RV == NNG_OK) COVER(RV == NNG_ENOENT)
;

/* dialers / listeners: a closed endpoint has left the map (nni_dialer_close removes the id under the same lock) */
#define DIALR ((nni_dialer *) g_reg)
int nni_dialer_find(nni_dialer **dp, uint32_t id)
__CPROVER_requires(FRESH(dp, *dp) && SC_MAP_SHAPE(dialers) && VP_NO_LOCK_HELD)
__CPROVER_requires(g_reg == NULL || FRESH(g_reg, nni_dialer))
__CPROVER_requires(g_reg != NULL ==> ((int) g_u32 == DIALR->d_ref && DIALR->d_ref >= 1 && DIALR->d_ref < 0x7fffffff))
__CPROVER_assigns(*dp, g_found, VP_SYNC_GHOSTS)
__CPROVER_assigns(g_reg != NULL: DIALR->d_ref)
__CPROVER_ensures(VP_NO_LOCK_HELD)
__CPROVER_ensures(RV == 0 || RV == NNG_ENOENT)
__CPROVER_ensures((RV == 0) == (g_found != NOTFOUND))
__CPROVER_ensures(RV == 0 ==> (*dp == DIALR && dialers.id_entries[g_found].key == id && dialers.id_entries[g_found].val == (void *) *dp && DIALR->d_ref == (int) g_u32 + 1))
__CPROVER_ensures(RV != 0 ==> (*dp == OLD(*dp) && (g_reg != NULL ==> DIALR->d_ref == (int) g_u32)))
COVER(RV == 0) COVER(RV == NNG_ENOENT)
;
#define LISTR ((nni_listener *) g_reg)
int nni_listener_find(nni_listener **lp, uint32_t id)
__CPROVER_requires(FRESH(lp, *lp) && SC_MAP_SHAPE(listeners) && VP_NO_LOCK_HELD)
__CPROVER_requires(g_reg == NULL || FRESH(g_reg, nni_listener))
__CPROVER_requires(g_reg != NULL ==> ((int) g_u32 == LISTR->l_ref && LISTR->l_ref >= 1 && LISTR->l_ref < 0x7fffffff))
__CPROVER_assigns(*lp, g_found, VP_SYNC_GHOSTS)
__CPROVER_assigns(g_reg != NULL: LISTR->l_ref)
__CPROVER_ensures(VP_NO_LOCK_HELD)
__CPROVER_ensures(RV == 0 || RV == NNG_ENOENT)
__CPROVER_ensures((RV == 0) == (g_found != NOTFOUND))
__CPROVER_ensures(RV == 0 ==> (*lp == LISTR && listeners.id_entries[g_found].key == id && listeners.id_entries[g_found].val == (void *) *lp && LISTR->l_ref == (int) g_u32 + 1))
__CPROVER_ensures(RV != 0 ==> (*lp == OLD(*lp) && (g_reg != NULL ==> LISTR->l_ref == (int) g_u32)))
COVER(RV == 0) COVER(RV == NNG_ENOENT)
;

/* ============================================================ hold / release */
void nni_sock_hold(nni_sock *s)
__CPROVER_requires(FRESH(s, SOCKT) && VP_NO_LOCK_HELD && s->s_ref < 0x7fffffffu)
__CPROVER_assigns(s->s_ref, VP_SYNC_GHOSTS)
__CPROVER_ensures(VP_NO_LOCK_HELD && s->s_ref == OLD(s->s_ref) + 1)
;
/* dropping a socket reference never releases the socket; the closer (who owns
 * one reference itself and waits on s_close_cv) is woken exactly when the
 * socket is closed and no reference but the closer's remains */
void nni_sock_rele(nni_sock *s)
__CPROVER_requires(FRESH(s, SOCKT) && VP_NO_LOCK_HELD && s->s_ref >= 1)
__CPROVER_assigns(s->s_ref, g_wake_calls, g_wake_cv, VP_SYNC_GHOSTS)
__CPROVER_ensures(VP_NO_LOCK_HELD && s->s_ref == OLD(s->s_ref) - 1 && g_free_calls == OLD(g_free_calls))
__CPROVER_ensures((s->s_closed && s->s_ref <= 1) ? (g_wake_calls == OLD(g_wake_calls) + 1 && g_wake_cv == &s->s_close_cv) : g_wake_calls == OLD(g_wake_calls))
;

/* context release: the count drops by exactly one; the context is destroyed
 * exactly when the last reference of a CLOSED context goes, never before:
 * its id leaves the map first, it leaves its socket's list, the socket's
 * closer is woken, the protocol's ctx_fini runs once before the block is
 * released once with its recorded size */
#define CTX_SHAPE(ctx) (g_priv < SC_PRIV_MAX && __CPROVER_is_fresh(ctx, sizeof(nni_ctx) + g_priv) && (ctx)->c_size == sizeof(nni_ctx) + g_priv \
    && FRESH((ctx)->c_sock, SOCKT) && (ctx)->c_ops.ctx_fini == vp_ctx_fini && ((ctx)->c_data == NULL || ALIAS((void *) ((ctx) + 1), (ctx)->c_data)) \
    && (ctx)->c_sock->s_ctxs.ll_offset == offsetof(nni_ctx, c_node) && NODE_LINKED((ctx)->c_sock->s_ctxs, (ctx)->c_node, g_sole_a, g_sole_b))
#define CTX_DESTROY(ctx) (OLD((ctx)->c_ref) == 1 && OLD((ctx)->c_closed))
#define CTX_RELE_ASSIGNS(ctx) \
__CPROVER_assigns((ctx)->c_ref, (ctx)->c_node, (ctx)->c_node.ln_next->ln_prev, (ctx)->c_node.ln_prev->ln_next, SC_MAP_TARGETS(ctx_ids), g_wake_calls, g_wake_cv, g_cfini_calls, g_cfini_data, g_cfini_at_free, VP_SYNC_GHOSTS) \
__CPROVER_assigns(ctx_ids.id_cap != 0: __CPROVER_object_whole(ctx_ids.id_entries)) \
__CPROVER_frees(ctx, ctx_ids.id_entries)
#define CTX_RELE_POST(ctx, destroy) \
__CPROVER_ensures(VP_NO_LOCK_HELD) \
/* not the last reference of a closed context: one reference less, nothing else */ \
__CPROVER_ensures(!(destroy) ==> ((ctx)->c_ref == OLD((ctx)->c_ref) - 1 && VP_HEAP_DELTA(0, 0) && SC_MAP_SAME(ctx_ids) && g_wake_calls == OLD(g_wake_calls) && g_cfini_calls == OLD(g_cfini_calls) \
    && !__CPROVER_was_freed(ctx) && (ctx)->c_node.ln_next == OLD((ctx)->c_node.ln_next))) \
/* destroyed: the id was looked up for removal; when found its slot is empty and the map has one entry less */ \
__CPROVER_ensures((destroy) ==> (ctx_ids.id_count == OLD(ctx_ids.id_count) - (g_found != NOTFOUND ? 1 : 0))) \
__CPROVER_ensures(((destroy) && g_found != NOTFOUND && g_k == g_found) ==> g_kk == OLD((ctx)->c_id)) \
__CPROVER_ensures(((destroy) && g_found != NOTFOUND && (void *) ctx_ids.id_entries == g_ents) ==> (ctx_ids.id_entries[g_found].val == NULL && ctx_ids.id_entries[g_found].key == 0)) \
/* off the socket's list, closer woken */ \
__CPROVER_ensures((destroy) ==> (NODE_UNLINKED_POST((ctx)->c_node) && g_wake_calls == OLD(g_wake_calls) + 1 && g_wake_cv == &OLD((ctx)->c_sock)->s_close_cv)) \
/* protocol state finalised once (if there is any), BEFORE the block goes; the block is released exactly once, sized */ \
__CPROVER_ensures((destroy) ==> (OLD((ctx)->c_data) != NULL ? (g_cfini_calls == OLD(g_cfini_calls) + 1 && g_cfini_data == OLD((ctx)->c_data) && g_cfini_at_free < g_free_calls) : g_cfini_calls == OLD(g_cfini_calls))) \
__CPROVER_ensures((destroy) ==> (__CPROVER_was_freed(ctx) && SC_HEAP(ctx_ids, 0, 1)))

void nni_ctx_rele(nni_ctx *ctx)
__CPROVER_requires(CTX_SHAPE(ctx) && ctx->c_ref >= 1 && SC_MAP_PRE(ctx_ids) && VP_NO_LOCK_HELD)
CTX_RELE_ASSIGNS(ctx)
CTX_RELE_POST(ctx, CTX_DESTROY(ctx))
COVER(CTX_DESTROY(ctx) && g_found != NOTFOUND) COVER(!CTX_DESTROY(ctx)) COVER(CTX_DESTROY(ctx) && SC_SWAPPED(ctx_ids))
;

/* closing a context: latches c_closed and drops the caller's reference; the
 * context is destroyed now iff that was the last reference, otherwise by the
 * nni_ctx_rele that drops the last one */
void nni_ctx_close(nni_ctx *ctx)
__CPROVER_requires(CTX_SHAPE(ctx) && ctx->c_ref >= 1 && SC_MAP_PRE(ctx_ids) && VP_NO_LOCK_HELD)
CTX_RELE_ASSIGNS(ctx)
__CPROVER_assigns(ctx->c_closed)
CTX_RELE_POST(ctx, OLD(ctx->c_ref) == 1)
__CPROVER_ensures(OLD(ctx->c_ref) != 1 ==> ctx->c_closed)
COVER(OLD(ctx->c_ref) == 1) COVER(OLD(ctx->c_ref) == 2)
;

/* ================================================================ nni_ctx_open
 * C18: the context's id is the one the allocator issued, registered in
 * ctx_ids under exactly that id for exactly this object, positive 31-bit.
 * C20 / C03: every failure releases what was built: no map entry, not on the
 * socket's list, ctx_fini for every ctx_init, the block released, no lock held. */
#define NEWCTX (*ctxp)
#define CTXSZ(sock) (NNI_ALIGN_UP(sizeof(nni_ctx)) + (sock)->s_ctx_ops.ctx_size)
int nni_ctx_open(nni_ctx **ctxp, nni_sock *sock)
__CPROVER_requires(FRESH(ctxp, *ctxp) && FRESH(sock, SOCKT) && SC_MAP_PRE(ctx_ids) && VP_NO_LOCK_HELD)
__CPROVER_requires((sock->s_ctx_ops.ctx_init == NULL || sock->s_ctx_ops.ctx_init == vp_ctx_init) && sock->s_ctx_ops.ctx_fini == vp_ctx_fini && sock->s_ctx_ops.ctx_size < SC_PRIV_MAX)
/* g_sole_b: the socket has no context yet; g_priv, g_sole_a: bound for the release step of the closing path */
__CPROVER_requires(sock->s_ctxs.ll_offset == offsetof(nni_ctx, c_node) && TAIL_PRE(sock->s_ctxs, g_sole_b) && g_sole_a && g_priv == sock->s_ctx_ops.ctx_size)
__CPROVER_assigns(*ctxp, sock->s_ctxs.ll_head.ln_prev, sock->s_ctxs.ll_head.ln_prev->ln_next, SC_MAP_TARGETS(ctx_ids), g_wake_calls, g_wake_cv, g_cinit_calls, g_cinit_data, g_cinit_sdata, g_cfini_calls, g_cfini_data, g_cfini_at_free, VP_SYNC_GHOSTS)
__CPROVER_assigns(ctx_ids.id_cap != 0: __CPROVER_object_whole(ctx_ids.id_entries))
__CPROVER_frees(ctx_ids.id_entries)
__CPROVER_ensures(VP_NO_LOCK_HELD)
__CPROVER_ensures(RV == 0 || RV == NNG_ENOTSUP || RV == NNG_ENOMEM || RV == NNG_ECLOSED)
__CPROVER_ensures((RV == NNG_ENOTSUP) == (sock->s_ctx_ops.ctx_init == NULL))
__CPROVER_ensures(RV == 0 ==> (!sock->s_closed && !sock->s_closing))
/* success: a new block of the right size; id issued by the allocator, registered for exactly this object, in range */
__CPROVER_ensures(RV == 0 ==> (__CPROVER_is_fresh(NEWCTX, CTXSZ(sock)) && NEWCTX->c_size == CTXSZ(sock) && SC_MAP_HAS(ctx_ids, NEWCTX->c_id, NEWCTX) && SC_ID_OK(NEWCTX->c_id)))
__CPROVER_ensures(RV == 0 ==> (NEWCTX->c_ref == 1 && !NEWCTX->c_closed && NEWCTX->c_sock == sock && NEWCTX->c_data == (void *) (NEWCTX + 1) && NEWCTX->c_ops.ctx_fini == vp_ctx_fini \
    && NEWCTX->c_rcvtimeo == sock->s_rcvtimeo && NEWCTX->c_sndtimeo == sock->s_sndtimeo))
__CPROVER_ensures(RV == 0 ==> (APPENDED(sock->s_ctxs, NEWCTX->c_node) && g_cinit_calls == OLD(g_cinit_calls) + 1 && g_cinit_data == NEWCTX->c_data && g_cinit_sdata == sock->s_data && g_cfini_calls == OLD(g_cfini_calls)))
__CPROVER_ensures(RV == 0 ==> (SC_HEAP(ctx_ids, 1, 0) && ctx_ids.id_count >= OLD(ctx_ids.id_count)))
/* failure: nothing handed out, nothing left behind */
__CPROVER_ensures(RV != 0 ==> (*ctxp == OLD(*ctxp) && SC_HEAP_NET0(ctx_ids) && ctx_ids.id_count == OLD(ctx_ids.id_count)))
__CPROVER_ensures(RV != 0 ==> (g_cfini_calls - OLD(g_cfini_calls) == g_cinit_calls - OLD(g_cinit_calls)))
__CPROVER_ensures(RV != 0 ==> (sock->s_ctxs.ll_head.ln_prev == OLD(sock->s_ctxs.ll_head.ln_prev) && OLD(sock->s_ctxs.ll_head.ln_prev)->ln_next == &sock->s_ctxs.ll_head))
/* a refused allocation (block or id) leaves the map exactly as it was */
__CPROVER_ensures((RV == NNG_ENOMEM || RV == NNG_ENOTSUP) ==> (IDM_ARRAY_KEPT(&ctx_ids) && g_cinit_calls == OLD(g_cinit_calls)))
COVER(RV == 0) COVER(RV == NNG_ENOMEM && g_alloc_ok != OLD(g_alloc_ok)) COVER(RV == NNG_ECLOSED && sock->s_closed) COVER(RV == NNG_ECLOSED && !sock->s_closed)
;

/* ================================================================ pipe_create
 * C18: the pipe's id is the one the allocator issued from `pipes` (range
 * 1..0x7fffffff fixed by the static initialiser), registered for exactly this
 * pipe.  C20 / C03: when the block cannot be allocated nothing happened; any
 * later failure (id, transport p_init, protocol pipe_init) closes the pipe and
 * hands it to the reaper exactly once, with exactly the reaper's reference
 * left -- pipe_reap (modules/endpoint) then removes the id (if one was issued:
 * p_id != 0), takes the pipe off the lists and drops that reference, which
 * runs pipe_destroy (unit pipe_rele).  Until then the registered pipe is a
 * live object: no map entry points at released memory. */
#define PSZ(sock) (NNI_ALIGN_UP(sizeof(nni_pipe)) + NNI_ALIGN_UP((sock)->s_pipe_ops.pipe_size) + NNI_ALIGN_UP(g_tsize))
#define NP (*pp)
#define CP ((nni_pipe *) g_tinit_pipe)
#define PC_CREATED (g_tinit_calls == OLD(g_tinit_calls) + 1)
static int pipe_create(nni_pipe **pp, nni_sock *sock, nni_sp_tran *tran, nni_dialer *d, nni_listener *l)
__CPROVER_requires(FRESH(pp, *pp) && FRESH(sock, SOCKT) && FRESH(tran, nni_sp_tran) && FRESH(tran->tran_pipe, nni_sp_pipe_ops) && SC_MAP_PRE(pipes) && VP_NO_LOCK_HELD)
__CPROVER_requires(tran->tran_pipe->p_size == vp_tran_pipe_size && tran->tran_pipe->p_init == vp_tran_pipe_init && sock->s_pipe_ops.pipe_init == vp_proto_pipe_init \
    && sock->s_pipe_ops.pipe_size < SC_PRIV_MAX && g_tsize < SC_PRIV_MAX)
/* exactly one of dialer / listener (the callers nni_pipe_alloc_dialer / _listener) */
__CPROVER_requires(g_sole_c ? (l == NULL && FRESH(d, nni_dialer)) : (d == NULL && FRESH(l, nni_listener)))
__CPROVER_requires(sock->s_pipes.ll_offset == offsetof(nni_pipe, p_sock_node) && TAIL_PRE(sock->s_pipes, g_sole_a))
__CPROVER_requires(d != NULL ==> (d->d_pipes.ll_offset == offsetof(nni_pipe, p_ep_node) && TAIL_PRE(d->d_pipes, g_sole_b)))
__CPROVER_requires(l != NULL ==> (l->l_pipes.ll_offset == offsetof(nni_pipe, p_ep_node) && TAIL_PRE(l->l_pipes, g_sole_b)))
__CPROVER_assigns(*pp, sock->s_pipes.ll_head.ln_prev, sock->s_pipes.ll_head.ln_prev->ln_next, SC_MAP_TARGETS(pipes), VP_SYNC_GHOSTS)
__CPROVER_assigns(g_tinit_calls, g_tinit_data, g_tinit_pipe, g_pinit_calls, g_pinit_data, g_pinit_pipe, g_pinit_sdata, g_reap_calls, g_reap_list, g_reap_item)
__CPROVER_assigns(d != NULL: d->d_pipes.ll_head.ln_prev, d->d_pipes.ll_head.ln_prev->ln_next)
__CPROVER_assigns(l != NULL: l->l_pipes.ll_head.ln_prev, l->l_pipes.ll_head.ln_prev->ln_next)
__CPROVER_assigns(pipes.id_cap != 0: __CPROVER_object_whole(pipes.id_entries))
__CPROVER_frees(pipes.id_entries)
__CPROVER_ensures(VP_NO_LOCK_HELD)
/* the block could not be allocated: NNG_ENOMEM, nothing happened */
__CPROVER_ensures(!PC_CREATED ==> (RV == NNG_ENOMEM && *pp == OLD(*pp) && g_tinit_calls == OLD(g_tinit_calls) && g_pinit_calls == OLD(g_pinit_calls) && g_reap_calls == OLD(g_reap_calls) \
    && VP_HEAP_DELTA(0, 0) && SC_MAP_SAME(pipes) && sock->s_pipes.ll_head.ln_prev == OLD(sock->s_pipes.ll_head.ln_prev)))
/* otherwise a pipe CP exists: sized block, both initialisers ran once on their areas inside the block, linked to socket and endpoint */
__CPROVER_ensures(PC_CREATED ==> (CP->p_size == PSZ(sock) && __CPROVER_OBJECT_SIZE(CP) == PSZ(sock) && __CPROVER_POINTER_OFFSET(CP) == 0 && SC_HEAP(pipes, 1, 0)))
__CPROVER_ensures(PC_CREATED ==> (g_pinit_calls == OLD(g_pinit_calls) + 1 && g_pinit_pipe == CP && g_pinit_sdata == sock->s_data \
    && g_pinit_data == (void *) ((uint8_t *) CP + NNI_ALIGN_UP(sizeof(nni_pipe))) && g_tinit_data == (void *) ((uint8_t *) g_pinit_data + NNI_ALIGN_UP(sock->s_pipe_ops.pipe_size)) \
    && CP->p_proto_data == g_pinit_data && CP->p_tran_data == g_tinit_data))
__CPROVER_ensures(PC_CREATED ==> (CP->p_sock == sock && CP->p_dialer == d && CP->p_listener == l && CP->p_last_event == NNG_PIPE_EV_NONE \
    && CP->p_refcnt.rc_fini == pipe_destroy && CP->p_refcnt.rc_data == (void *) CP && APPENDED(sock->s_pipes, CP->p_sock_node)))
__CPROVER_ensures((PC_CREATED && d != NULL) ==> APPENDED(d->d_pipes, CP->p_ep_node))
__CPROVER_ensures((PC_CREATED && l != NULL) ==> APPENDED(l->l_pipes, CP->p_ep_node))
/* the id: none (0, map untouched) when the allocator refused, otherwise the issued one, registered for exactly this pipe, in range */
__CPROVER_ensures((PC_CREATED && CP->p_id == 0) ==> (RV == NNG_ENOMEM && IDM_ARRAY_KEPT(&pipes) && pipes.id_count == OLD(pipes.id_count)))
__CPROVER_ensures((PC_CREATED && CP->p_id != 0) ==> (SC_MAP_HAS(pipes, CP->p_id, CP) && SC_ID_OK(CP->p_id)))
/* success iff all three steps succeeded: handed out open, with the caller's and the socket's reference */
__CPROVER_ensures(RV == 0 ==> (PC_CREATED && *pp == CP && CP->p_id != 0 && g_tinit_rv == 0 && g_pinit_rv == 0 && PREF(CP) == 2 && !SC_FLAG(CP->p_closed) && g_reap_calls == OLD(g_reap_calls)))
__CPROVER_ensures((PC_CREATED && CP->p_id != 0 && g_tinit_rv == 0 && g_pinit_rv == 0) ==> RV == 0)
/* failure after creation: first error reported; closed, handed to the reaper exactly once, only the reaper's reference left; nothing handed out */
__CPROVER_ensures((PC_CREATED && RV != 0) ==> (*pp == OLD(*pp) && SC_FLAG(CP->p_closed) && PREF(CP) == 1 && g_reap_calls == OLD(g_reap_calls) + 1 && g_reap_item == (void *) CP && g_reap_list == &pipe_reap_list))
__CPROVER_ensures((PC_CREATED && RV != 0 && CP->p_id != 0) ==> RV == (g_tinit_rv != 0 ? g_tinit_rv : g_pinit_rv))
COVER(RV == 0) COVER(!PC_CREATED) COVER(PC_CREATED && CP->p_id == 0) COVER(PC_CREATED && RV != 0 && CP->p_id != 0 && g_tinit_rv == 0) COVER(RV == 0 && SC_SWAPPED(pipes)) COVER(RV == 0 && l != NULL)
;

/* ====================================================== pipe hold / release */
void nni_pipe_hold(nni_pipe *p)
__CPROVER_requires(FRESH(p, nni_pipe) && PREF(p) >= 1 && PREF(p) < 0x7fffffff)
__CPROVER_assigns(p->p_refcnt.rc_cnt)
__CPROVER_ensures(PREF(p) == OLD(PREF(p)) + 1)
;
/* the count drops by one; the pipe is destroyed exactly when the last
 * reference goes: protocol pipe_fini, then transport p_fini, each once, on
 * their areas, before the block is released once with its recorded size */
#define PIPE_SHAPE(p) (g_priv < SC_PRIV_MAX && __CPROVER_is_fresh(p, sizeof(nni_pipe) + g_priv) && (p)->p_size == sizeof(nni_pipe) + g_priv \
    && (p)->p_refcnt.rc_fini == pipe_destroy && ALIAS((void *) (p), (p)->p_refcnt.rc_data) && (p)->p_proto_ops.pipe_fini == vp_proto_pipe_fini && (p)->p_tran_ops.p_fini == vp_tran_pipe_fini)
void nni_pipe_rele(nni_pipe *p)
__CPROVER_requires(PIPE_SHAPE(p) && PREF(p) >= 1)
__CPROVER_assigns(p->p_refcnt.rc_cnt, g_pfini_calls, g_pfini_data, g_pfini_at_free, g_tfini_calls, g_tfini_data, g_tfini_at_free, g_free_calls)
__CPROVER_frees(p)
__CPROVER_ensures(OLD(PREF(p)) != 1 ==> (PREF(p) == OLD(PREF(p)) - 1 && !__CPROVER_was_freed(p) && VP_HEAP_DELTA(0, 0) && g_pfini_calls == OLD(g_pfini_calls) && g_tfini_calls == OLD(g_tfini_calls)))
__CPROVER_ensures(OLD(PREF(p)) == 1 ==> (__CPROVER_was_freed(p) && VP_HEAP_DELTA(0, 1) && g_pfini_calls == OLD(g_pfini_calls) + 1 && g_pfini_data == OLD(p->p_proto_data) && g_pfini_at_free == OLD(g_free_calls) \
    && g_tfini_calls == OLD(g_tfini_calls) + 1 && g_tfini_data == OLD(p->p_tran_data) && g_tfini_at_free == OLD(g_free_calls)))
COVER(OLD(PREF(p)) == 1) COVER(OLD(PREF(p)) == 2)
;

/* ============================================================ thin wrappers */
uint32_t nni_pipe_id(nni_pipe *p)
__CPROVER_requires(FRESH(p, nni_pipe)) __CPROVER_assigns() __CPROVER_ensures(RV == p->p_id)
;
bool nni_pipe_is_closed(nni_pipe *p)
__CPROVER_requires(FRESH(p, nni_pipe)) __CPROVER_assigns() __CPROVER_ensures(RV == SC_FLAG(p->p_closed))
;
void nni_pipe_send(nni_pipe *p, nni_aio *aio)
__CPROVER_requires(FRESH(p, nni_pipe) && p->p_tran_ops.p_send == vp_tran_pipe_send)
__CPROVER_assigns(g_tsend_calls, g_tsend_data, g_tsend_aio)
__CPROVER_ensures(g_tsend_calls == OLD(g_tsend_calls) + 1 && g_tsend_data == p->p_tran_data && g_tsend_aio == aio)
;
void nni_pipe_recv(nni_pipe *p, nni_aio *aio)
__CPROVER_requires(FRESH(p, nni_pipe) && p->p_tran_ops.p_recv == vp_tran_pipe_recv)
__CPROVER_assigns(g_trecv_calls, g_trecv_data, g_trecv_aio)
__CPROVER_ensures(g_trecv_calls == OLD(g_trecv_calls) + 1 && g_trecv_data == p->p_tran_data && g_trecv_aio == aio)
;
uint16_t nni_pipe_peer(nni_pipe *p)
__CPROVER_requires(FRESH(p, nni_pipe) && p->p_tran_ops.p_peer == vp_tran_pipe_peer)
__CPROVER_assigns(g_tpeer_calls, g_tpeer_data)
__CPROVER_ensures(RV == g_tpeer && g_tpeer_calls == OLD(g_tpeer_calls) + 1 && g_tpeer_data == p->p_tran_data)
;

/* =============================================== dialer / listener hold, rele
 * a hold is refused once the endpoint is closed; the count moves by exactly
 * one; the endpoint goes to the reaper exactly when the last reference of a
 * CLOSED endpoint is dropped (dialer_reap / listener_reap destroy it) */
int nni_dialer_hold(nni_dialer *d)
__CPROVER_requires(FRESH(d, nni_dialer) && VP_NO_LOCK_HELD && d->d_ref >= 0 && d->d_ref < 0x7fffffff)
__CPROVER_assigns(d->d_ref, VP_SYNC_GHOSTS)
__CPROVER_ensures(VP_NO_LOCK_HELD)
__CPROVER_ensures(d->d_closed ? (RV == NNG_ECLOSED && d->d_ref == OLD(d->d_ref)) : (RV == 0 && d->d_ref == OLD(d->d_ref) + 1))
;
void nni_dialer_rele(nni_dialer *d)
__CPROVER_requires(FRESH(d, nni_dialer) && VP_NO_LOCK_HELD && d->d_ref >= 1)
__CPROVER_assigns(d->d_ref, g_reap_calls, g_reap_list, g_reap_item, VP_SYNC_GHOSTS)
__CPROVER_ensures(VP_NO_LOCK_HELD && d->d_ref == OLD(d->d_ref) - 1 && g_free_calls == OLD(g_free_calls))
__CPROVER_ensures((d->d_ref == 0 && d->d_closed) ? (g_reap_calls == OLD(g_reap_calls) + 1 && g_reap_item == (void *) d && g_reap_list == &dialer_reap_list) : g_reap_calls == OLD(g_reap_calls))
;
int nni_listener_hold(nni_listener *l)
__CPROVER_requires(FRESH(l, nni_listener) && VP_NO_LOCK_HELD && l->l_ref >= 0 && l->l_ref < 0x7fffffff)
__CPROVER_assigns(l->l_ref, VP_SYNC_GHOSTS)
__CPROVER_ensures(VP_NO_LOCK_HELD)
__CPROVER_ensures(l->l_closed ? (RV == NNG_ECLOSED && l->l_ref == OLD(l->l_ref)) : (RV == 0 && l->l_ref == OLD(l->l_ref) + 1))
;
void nni_listener_rele(nni_listener *l)
__CPROVER_requires(FRESH(l, nni_listener) && VP_NO_LOCK_HELD && l->l_ref >= 1)
__CPROVER_assigns(l->l_ref, g_reap_calls, g_reap_list, g_reap_item, VP_SYNC_GHOSTS)
__CPROVER_ensures(VP_NO_LOCK_HELD && l->l_ref == OLD(l->l_ref) - 1 && g_free_calls == OLD(g_free_calls))
__CPROVER_ensures((l->l_ref == 0 && l->l_closed) ? (g_reap_calls == OLD(g_reap_calls) + 1 && g_reap_item == (void *) l && g_reap_list == &listener_reap_list) : g_reap_calls == OLD(g_reap_calls))
;
/* clang-format on */
#endif
