/* Environment of the sockcore module (ASSUMED models; ghost accounting only). */
#ifndef VP_SOCKCORE_ENV_H
#define VP_SOCKCORE_ENV_H

/* ---- atomics: sequential model, one plain value each ---- */
#define SC_FLAG(f) (*(bool *) &(f))
#define SC_AINT(a) (*(int *) &(a))
bool nni_atomic_flag_test_and_set(nni_atomic_flag *f) { bool o = SC_FLAG(*f); SC_FLAG(*f) = true; return (o); }
void nni_atomic_flag_reset(nni_atomic_flag *f) { SC_FLAG(*f) = false; }
void nni_atomic_init_bool(nni_atomic_bool *b) { SC_FLAG(*b) = false; }
void nni_atomic_set_bool(nni_atomic_bool *b, bool v) { SC_FLAG(*b) = v; }
bool nni_atomic_get_bool(nni_atomic_bool *b) { return (SC_FLAG(*b)); }
bool nni_atomic_swap_bool(nni_atomic_bool *b, bool v) { bool o = SC_FLAG(*b); SC_FLAG(*b) = v; return (o); }
void nni_atomic_init(nni_atomic_int *a) { SC_AINT(*a) = 0; }
void nni_atomic_set(nni_atomic_int *a, int v) { SC_AINT(*a) = v; }
int  nni_atomic_get(nni_atomic_int *a) { return (SC_AINT(*a)); }
void nni_atomic_inc(nni_atomic_int *a) { SC_AINT(*a) = (int) ((unsigned) SC_AINT(*a) + 1u); }
int  nni_atomic_dec_nv(nni_atomic_int *a) { SC_AINT(*a) = (int) ((unsigned) SC_AINT(*a) - 1u); return (SC_AINT(*a)); }

/* ---- id map: ASSUMED model of nni_id_get / nni_id_alloc32 / nni_id_remove (src/core/idhash.c is NOT in
 * this translation unit).  It states the clauses of the contracts proved in
 * modules/idhash that the callers rely on: idhash_alloc32 -- a refusal stores no id
 * ("any failure: no id handed out": *idp keeps its value) and changes nothing; a success
 * issues an id inside [id_min_val, id_max_val] of THIS map (the bounds are read from the real
 * map object, i.e. from the static initialiser in the real file) and registers exactly
 * (id -> val); idhash_remove -- NNG_ENOENT iff absent.  Which id inside the range is issued is
 * arbitrary here (uniqueness among live ids / cyclic order: modules/idhash). ---- */
/* lookup: answers with g_reg, the object the caller's contract describes as
 * "registered under this id" (NULL: none) -- idhash_get: the result is a value
 * stored under exactly this key, NULL iff there is none; that stored values are
 * valid objects of the map's type is the callers' invariant */
void *
nni_id_get(nni_id_map *m, uint64_t id)
{
	g_idg_calls++;
	g_idg_map = m;
	g_idg_id  = id;
	return (g_reg);
}
int
nni_id_alloc32(nni_id_map *m, uint32_t *idp, void *val)
{
	g_ida_calls++;
	g_ida_map = m;
	g_ida_val = val;
	__CPROVER_assert(val != NULL, "id map values must be non-NULL (idhash.h)");
	__CPROVER_assert(m->id_min_val >= 1 && m->id_min_val <= m->id_max_val && m->id_max_val <= 0xffffffffu, "nni_id_alloc32: the map's range fits 32 bits (NNI_ASSERT of the real function)");
	if (g_ida_fail) {
		return (NNG_ENOMEM);
	}
	g_ida_issued = (uint32_t) (m->id_min_val + ((uint64_t) g_ida_raw % (m->id_max_val - m->id_min_val + 1)));
	*idp         = g_ida_issued;
	m->id_count++;
	return (0);
}
int
nni_id_remove(nni_id_map *m, uint64_t id)
{
	g_idr_calls++;
	g_idr_map     = m;
	g_idr_id      = id;
	g_idr_at_free = g_free_calls;
	if (!g_idr_found) {
		return (NNG_ENOENT);
	}
	m->id_count--;
	return (0);
}

/* ---- condition variables, reaper ---- */
void nni_cv_init(nni_cv *cv, nni_mtx *m) { (void) cv; (void) m; }
void nni_cv_fini(nni_cv *cv) { (void) cv; }
void nni_cv_wake(nni_cv *cv) { g_wake_calls++; g_wake_cv = cv; }
void
nni_reap(nni_reap_list *rl, void *item)
{
	g_reap_calls++;
	g_reap_list = rl;
	g_reap_item = item;
}

/* ---- statistics and logging: no effect on the modelled state ---- */
void nni_stat_init(nni_stat_item *s, const nni_stat_info *i) { (void) s; (void) i; }
void nni_stat_add(nni_stat_item *p, nni_stat_item *s) { (void) p; (void) s; }
void nni_stat_inc(nni_stat_item *s, uint64_t n) { (void) s; (void) n; }
void nni_stat_dec(nni_stat_item *s, uint64_t n) { (void) s; (void) n; }
void nni_stat_set_id(nni_stat_item *s, int id) { (void) s; (void) id; }
void nni_stat_set_string(nni_stat_item *s, const char *str) { (void) s; (void) str; }
void nni_stat_register(nni_stat_item *s) { (void) s; }
void nni_stat_unregister(nni_stat_item *s) { (void) s; }

/* ---- aio framework: init counted (real functions under contract in modules/aiocore) ---- */
void nni_aio_init(nni_aio *aio, nni_cb cb, void *arg) { (void) aio; (void) cb; (void) arg; g_aioinit_calls++; }

/* ---- the socket's message queues: only counted (real functions under contract in modules/msgqueue) ---- */
void nni_msgq_fini(nni_msgq *mq) { (void) mq; g_mqfini_calls++; }

/* ---- protocol context ops ---- */
static void
vp_ctx_init(void *data, void *sdata)
{
	g_cinit_calls++;
	g_cinit_data  = data;
	g_cinit_sdata = sdata;
}
static void
vp_ctx_fini(void *data)
{
	g_cfini_calls++;
	g_cfini_data    = data;
	g_cfini_at_free = g_free_calls;
}
void (*vp_ctx_init_ref)(void *, void *) = vp_ctx_init;
void (*vp_ctx_fini_ref)(void *)         = vp_ctx_fini;

/* ---- protocol socket ops ---- */
static void vp_sock_init(void *data, nni_sock *s) { g_sinit_calls++; g_sinit_data = data; g_sinit_sock = s; }
static void vp_sock_fini(void *data) { g_sfini_calls++; g_sfini_data = data; }
static void
vp_sock_open(void *data)
{
	g_sopen_calls++;
	g_sopen_data   = data;
	g_sopen_locked = (g_held_a != g_held_b);
}
static void vp_sock_close(void *data) { (void) data; }
void (*vp_sock_init_ref)(void *, nni_sock *) = vp_sock_init;
void (*vp_sock_fini_ref)(void *)             = vp_sock_fini;
void (*vp_sock_open_ref)(void *)             = vp_sock_open;
void (*vp_sock_close_ref)(void *)            = vp_sock_close;

/* ---- protocol / transport pipe ops ---- */
static size_t vp_tran_pipe_size(void) { return (g_tsize); }
static int
vp_tran_pipe_init(void *data, nni_pipe *p)
{
	g_tinit_calls++;
	g_tinit_data = data;
	g_tinit_pipe = p;
	return (g_tinit_rv);
}
static int
vp_proto_pipe_init(void *data, nni_pipe *p, void *sdata)
{
	g_pinit_calls++;
	g_pinit_data  = data;
	g_pinit_pipe  = p;
	g_pinit_sdata = sdata;
	return (g_pinit_rv);
}
static void vp_tran_pipe_fini(void *data) { g_tfini_calls++; g_tfini_data = data; g_tfini_at_free = g_free_calls; }
static void vp_proto_pipe_fini(void *data) { g_pfini_calls++; g_pfini_data = data; g_pfini_at_free = g_free_calls; }
static void vp_tran_pipe_send(void *data, nni_aio *aio) { g_tsend_calls++; g_tsend_data = data; g_tsend_aio = aio; }
static void vp_tran_pipe_recv(void *data, nni_aio *aio) { g_trecv_calls++; g_trecv_data = data; g_trecv_aio = aio; }
static uint16_t vp_tran_pipe_peer(void *data) { g_tpeer_calls++; g_tpeer_data = data; return (g_tpeer); }
size_t (*vp_tran_pipe_size_ref)(void)                  = vp_tran_pipe_size;
int (*vp_tran_pipe_init_ref)(void *, nni_pipe *)       = vp_tran_pipe_init;
int (*vp_proto_pipe_init_ref)(void *, nni_pipe *, void *) = vp_proto_pipe_init;
void (*vp_tran_pipe_fini_ref)(void *)                  = vp_tran_pipe_fini;
void (*vp_proto_pipe_fini_ref)(void *)                 = vp_proto_pipe_fini;
void (*vp_tran_pipe_send_ref)(void *, nni_aio *)       = vp_tran_pipe_send;
void (*vp_tran_pipe_recv_ref)(void *, nni_aio *)       = vp_tran_pipe_recv;
uint16_t (*vp_tran_pipe_peer_ref)(void *)              = vp_tran_pipe_peer;

/* ---- transport endpoint ops ---- */
static nng_err
vp_d_init(void *data, nng_url *url, nni_dialer *d)
{
	g_einit_calls++;
	g_einit_data = data;
	g_einit_url  = url;
	g_einit_ep   = d;
	return ((nng_err) g_einit_rv);
}
static nng_err
vp_l_init(void *data, nng_url *url, nni_listener *l)
{
	g_einit_calls++;
	g_einit_data = data;
	g_einit_url  = url;
	g_einit_ep   = l;
	return ((nng_err) g_einit_rv);
}
nng_err (*vp_d_init_ref)(void *, nng_url *, nni_dialer *)   = vp_d_init;
nng_err (*vp_l_init_ref)(void *, nng_url *, nni_listener *) = vp_l_init;
#endif
