#ifndef SC_HAVOC_MORE_MAPS
#define SC_HAVOC_MORE_MAPS() do { } while (0)
#endif
#define VP_CNT(x) do { x = nondet_size_t(); __CPROVER_assume(x < ((size_t) 1 << 40)); } while (0)
#define SC_HAVOC_MAP(M) do { (M).id_cap = nondet_u32(); (M).id_count = nondet_u32(); (M).id_load = nondet_u32(); (M).id_min_load = nondet_u32(); \
		(M).id_max_load = nondet_u32(); (M).id_registered = nondet_bool(); (M).id_dyn_val = nondet_u64(); /* id_entries: NULL (static initialiser); the contracts make it NULL or a fresh table */ } while (0)
/* the RANGE fields (id_min_val, id_max_val) and id_static / id_random of the five static maps keep the values of their initialisers in the real files */
#define VP_HAVOC_GHOSTS()                                                      \
	do {                                                                       \
		SC_HAVOC_MAP(sock_ids); SC_HAVOC_MAP(ctx_ids); SC_HAVOC_MORE_MAPS(); \
		g_k = nondet_size_t(); g_j = nondet_size_t(); \
		VP_CNT(g_idg_calls); g_idg_map = nondet_ptr(); g_idg_id = nondet_u64(); g_u32 = nondet_u32(); g_u64 = nondet_u64(); g_reg = nondet_ptr(); \
		VP_CNT(g_alloc_ok); VP_CNT(g_free_calls); VP_CNT(g_ida_calls); g_ida_map = nondet_ptr(); g_ida_val = nondet_ptr(); g_ida_issued = nondet_u32(); g_ida_fail = nondet_bool(); g_ida_raw = nondet_u32(); \
		VP_CNT(g_idr_calls); g_idr_map = nondet_ptr(); g_idr_id = nondet_u64(); VP_CNT(g_idr_at_free); g_idr_found = nondet_bool();                              \
		VP_CNT(g_wake_calls); g_wake_cv = nondet_ptr(); VP_CNT(g_reap_calls); g_reap_list = nondet_ptr(); g_reap_item = nondet_ptr(); \
		VP_CNT(g_cinit_calls); g_cinit_data = nondet_ptr(); g_cinit_sdata = nondet_ptr(); VP_CNT(g_cfini_calls); g_cfini_data = nondet_ptr(); VP_CNT(g_cfini_at_free); \
		VP_CNT(g_sinit_calls); g_sinit_data = nondet_ptr(); g_sinit_sock = nondet_ptr(); VP_CNT(g_sfini_calls); g_sfini_data = nondet_ptr(); \
		VP_CNT(g_sopen_calls); g_sopen_data = nondet_ptr(); g_sopen_locked = nondet_bool(); \
		g_tsize = nondet_size_t(); VP_CNT(g_tinit_calls); g_tinit_data = nondet_ptr(); g_tinit_pipe = nondet_ptr(); g_tinit_rv = nondet_int(); \
		VP_CNT(g_pinit_calls); g_pinit_data = nondet_ptr(); g_pinit_pipe = nondet_ptr(); g_pinit_sdata = nondet_ptr(); g_pinit_rv = nondet_int(); \
		VP_CNT(g_tfini_calls); g_tfini_data = nondet_ptr(); VP_CNT(g_tfini_at_free); VP_CNT(g_pfini_calls); g_pfini_data = nondet_ptr(); VP_CNT(g_pfini_at_free); \
		VP_CNT(g_tsend_calls); g_tsend_data = nondet_ptr(); g_tsend_aio = nondet_ptr(); VP_CNT(g_trecv_calls); g_trecv_data = nondet_ptr(); g_trecv_aio = nondet_ptr(); \
		g_tpeer = nondet_u16(); g_tpeer_data = nondet_ptr(); VP_CNT(g_tpeer_calls); \
		VP_CNT(g_einit_calls); g_einit_data = nondet_ptr(); g_einit_url = nondet_ptr(); g_einit_ep = nondet_ptr(); g_einit_rv = nondet_int(); \
		VP_CNT(g_aioinit_calls); VP_CNT(g_mqinit_calls); VP_CNT(g_mqfini_calls); g_mq_rv = nondet_int(); g_mq_fail1 = nondet_bool(); g_mq_fail2 = nondet_bool(); \
		VP_CNT(g_opt_calls); VP_CNT(g_setopt_calls);                           \
		g_sole_a = nondet_bool(); g_sole_b = nondet_bool(); g_sole_c = nondet_bool(); g_priv = nondet_size_t(); \
		VP_HAVOC_SYNC();                                                       \
	} while (0)
void h_ctx_find(void) { nni_ctx **cp; uint32_t id; VP_HAVOC_GHOSTS(); nni_ctx_find(cp, id); VP_CANARY(); }
void h_sock_find(void) { nni_sock **sp; uint32_t id; VP_HAVOC_GHOSTS(); nni_sock_find(sp, id); VP_CANARY(); }
void h_sock_hold(void) { nni_sock *s; VP_HAVOC_GHOSTS(); nni_sock_hold(s); VP_CANARY(); }
void h_sock_rele(void) { nni_sock *s; VP_HAVOC_GHOSTS(); nni_sock_rele(s); VP_CANARY(); }
void h_ctx_rele(void) { nni_ctx *c; VP_HAVOC_GHOSTS(); nni_ctx_rele(c); VP_CANARY(); }
void h_ctx_close(void) { nni_ctx *c; VP_HAVOC_GHOSTS(); nni_ctx_close(c); VP_CANARY(); }
void h_ctx_open(void) { nni_ctx **cp; nni_sock *s; VP_HAVOC_GHOSTS(); nni_ctx_open(cp, s); VP_CANARY(); }
void h_sock_open(void) { nni_sock **sp; const nni_proto *pr; VP_HAVOC_GHOSTS(); nni_sock_open(sp, pr); VP_CANARY(); }
/* lemma harness (no function under contract): the static initialisers of the id maps of socket.c fix the documented range 1..0x7fffffff */
void h_id_ranges(void) {
	__CPROVER_assert(sock_ids.id_min_val == 1 && sock_ids.id_max_val == 0x7fffffff && sock_ids.id_static, "sock_ids: range 1..0x7fffffff");
	__CPROVER_assert(ctx_ids.id_min_val == 1 && ctx_ids.id_max_val == 0x7fffffff && ctx_ids.id_static, "ctx_ids: range 1..0x7fffffff");
	VP_CANARY();
}
