/* Ghost state of the sockcore module (identifier issuance, find / hold /
 * release accounting, creation failure paths of src/core/socket.c, pipe.c,
 * dialer.c, listener.c).  No code of nng. */
#ifndef VP_SOCKCORE_GHOST_H
#define VP_SOCKCORE_GHOST_H
#include "core/nng_impl.h"
/* ---- condition variables / reaper ---- */
size_t         g_wake_calls;   /* nni_cv_wake */
nni_cv        *g_wake_cv;
size_t         g_reap_calls;   /* nni_reap */
nni_reap_list *g_reap_list;
void          *g_reap_item;
/* ---- protocol context ops (model functions) ---- */
size_t g_cinit_calls; void *g_cinit_data; void *g_cinit_sdata; /* ctx_init */
size_t g_cfini_calls; void *g_cfini_data;                      /* ctx_fini */
size_t g_cfini_at_free;      /* value of g_free_calls when ctx_fini ran */
/* ---- protocol socket ops ---- */
size_t g_sinit_calls; void *g_sinit_data; nni_sock *g_sinit_sock; /* sock_init */
size_t g_sfini_calls; void *g_sfini_data;                         /* sock_fini */
size_t g_sopen_calls; void *g_sopen_data;                         /* sock_open */
bool   g_sopen_locked;    /* sock_open ran under exactly one lock */
/* ---- protocol / transport pipe ops ---- */
size_t g_tsize;               /* answer of tran_pipe->p_size() */
size_t g_tinit_calls; void *g_tinit_data; nni_pipe *g_tinit_pipe; int g_tinit_rv; /* p_init */
size_t g_pinit_calls; void *g_pinit_data; nni_pipe *g_pinit_pipe; void *g_pinit_sdata; int g_pinit_rv; /* pipe_init */
size_t g_tfini_calls; void *g_tfini_data; size_t g_tfini_at_free; /* p_fini */
size_t g_pfini_calls; void *g_pfini_data; size_t g_pfini_at_free; /* pipe_fini */
size_t g_tsend_calls; void *g_tsend_data; nni_aio *g_tsend_aio;
size_t g_trecv_calls; void *g_trecv_data; nni_aio *g_trecv_aio;
uint16_t g_tpeer;  void *g_tpeer_data; size_t g_tpeer_calls;
/* ---- transport endpoint ops ---- */
size_t g_einit_calls; void *g_einit_data; void *g_einit_url; void *g_einit_ep; int g_einit_rv; /* d_init / l_init */
/* ---- aio framework ---- */
size_t g_aioinit_calls;
/* ---- message queues of the socket (nni_msgq_init / fini) ---- */
size_t g_mqinit_calls, g_mqfini_calls;
int    g_mq_rv;            /* answer of a failing nni_msgq_init */
bool   g_mq_fail1, g_mq_fail2; /* which of the two inits fails */
/* ---- option plumbing (nni_sock_getopt / nni_dialer_setopt ... models) ---- */
int    g_opt_rv[8];        /* arbitrary answers */
size_t g_opt_calls;
size_t g_setopt_calls;
/* ---- the object the caller's invariant says is registered under the id
 *      being looked up (nni_id_get model in env.h) ---- */
void  *g_reg;
size_t      g_idg_calls;   /* calls of nni_id_get */
nni_id_map *g_idg_map;
uint64_t    g_idg_id;
/* ---- id allocator / id removal model (nni_id_alloc32, nni_id_remove: see env.h) ---- */
size_t      g_ida_calls;   /* calls of nni_id_alloc32 */
nni_id_map *g_ida_map;     /* map of the last call */
void       *g_ida_val;     /* object registered by the last call */
uint32_t    g_ida_issued;  /* id issued by the last successful call */
bool        g_ida_fail;    /* input: the allocator refuses (NNG_ENOMEM: table growth failed or range exhausted) */
uint32_t    g_ida_raw;     /* input: picks the issued id inside the map's range */
size_t      g_idr_calls;   /* calls of nni_id_remove */
nni_id_map *g_idr_map;
uint64_t    g_idr_id;
size_t      g_idr_at_free; /* value of g_free_calls when the id was removed */
bool        g_idr_found;   /* input: the id was present */
/* ---- shape selectors (free ghosts) ---- */
bool   g_sole_a, g_sole_b, g_sole_c;
size_t g_priv;             /* size of the protocol / transport private area */
#endif
