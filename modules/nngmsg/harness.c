#define VP_HAVOC_GHOSTS()                         \
	do {                                      \
		g_k = nondet_size_t(); g_j = nondet_size_t(); g_b = nondet_u8(); \
		g_hk = nondet_size_t(); g_hb = nondet_u8(); g_u64 = nondet_u64(); \
		g_free_calls = nondet_size_t(); g_alloc_ok = nondet_size_t(); \
		__CPROVER_assume(g_free_calls < ((size_t) 1 << 40) && g_alloc_ok < ((size_t) 1 << 40)); \
	} while (0)
void h_nng_msg_append_u16(void) { nng_msg *m; uint16_t v; VP_HAVOC_GHOSTS(); nng_msg_append_u16(m, v); VP_CANARY(); }
void h_nng_msg_insert_u16(void) { nng_msg *m; uint16_t v; VP_HAVOC_GHOSTS(); nng_msg_insert_u16(m, v); VP_CANARY(); }
void h_nng_msg_header_append_u16(void) { nng_msg *m; uint16_t v; VP_HAVOC_GHOSTS(); nng_msg_header_append_u16(m, v); VP_CANARY(); }
void h_nng_msg_header_insert_u16(void) { nng_msg *m; uint16_t v; VP_HAVOC_GHOSTS(); nng_msg_header_insert_u16(m, v); VP_CANARY(); }
void h_nng_msg_chop_u16(void) { nng_msg *m; uint16_t *vp; VP_HAVOC_GHOSTS(); nng_msg_chop_u16(m, vp); VP_CANARY(); }
void h_nng_msg_trim_u16(void) { nng_msg *m; uint16_t *vp; VP_HAVOC_GHOSTS(); nng_msg_trim_u16(m, vp); VP_CANARY(); }
void h_nng_msg_header_chop_u16(void) { nng_msg *m; uint16_t *vp; VP_HAVOC_GHOSTS(); nng_msg_header_chop_u16(m, vp); VP_CANARY(); }
void h_nng_msg_header_trim_u16(void) { nng_msg *m; uint16_t *vp; VP_HAVOC_GHOSTS(); nng_msg_header_trim_u16(m, vp); VP_CANARY(); }
void h_nng_msg_append_u32(void) { nng_msg *m; uint32_t v; VP_HAVOC_GHOSTS(); nng_msg_append_u32(m, v); VP_CANARY(); }
void h_nng_msg_insert_u32(void) { nng_msg *m; uint32_t v; VP_HAVOC_GHOSTS(); nng_msg_insert_u32(m, v); VP_CANARY(); }
void h_nng_msg_header_append_u32(void) { nng_msg *m; uint32_t v; VP_HAVOC_GHOSTS(); nng_msg_header_append_u32(m, v); VP_CANARY(); }
void h_nng_msg_header_insert_u32(void) { nng_msg *m; uint32_t v; VP_HAVOC_GHOSTS(); nng_msg_header_insert_u32(m, v); VP_CANARY(); }
void h_nng_msg_chop_u32(void) { nng_msg *m; uint32_t *vp; VP_HAVOC_GHOSTS(); nng_msg_chop_u32(m, vp); VP_CANARY(); }
void h_nng_msg_trim_u32(void) { nng_msg *m; uint32_t *vp; VP_HAVOC_GHOSTS(); nng_msg_trim_u32(m, vp); VP_CANARY(); }
void h_nng_msg_header_chop_u32(void) { nng_msg *m; uint32_t *vp; VP_HAVOC_GHOSTS(); nng_msg_header_chop_u32(m, vp); VP_CANARY(); }
void h_nng_msg_header_trim_u32(void) { nng_msg *m; uint32_t *vp; VP_HAVOC_GHOSTS(); nng_msg_header_trim_u32(m, vp); VP_CANARY(); }
void h_nng_msg_append_u64(void) { nng_msg *m; uint64_t v; VP_HAVOC_GHOSTS(); nng_msg_append_u64(m, v); VP_CANARY(); }
void h_nng_msg_insert_u64(void) { nng_msg *m; uint64_t v; VP_HAVOC_GHOSTS(); nng_msg_insert_u64(m, v); VP_CANARY(); }
void h_nng_msg_header_append_u64(void) { nng_msg *m; uint64_t v; VP_HAVOC_GHOSTS(); nng_msg_header_append_u64(m, v); VP_CANARY(); }
void h_nng_msg_header_insert_u64(void) { nng_msg *m; uint64_t v; VP_HAVOC_GHOSTS(); nng_msg_header_insert_u64(m, v); VP_CANARY(); }
void h_nng_msg_chop_u64(void) { nng_msg *m; uint64_t *vp; VP_HAVOC_GHOSTS(); nng_msg_chop_u64(m, vp); VP_CANARY(); }
void h_nng_msg_trim_u64(void) { nng_msg *m; uint64_t *vp; VP_HAVOC_GHOSTS(); nng_msg_trim_u64(m, vp); VP_CANARY(); }
void h_nng_msg_header_chop_u64(void) { nng_msg *m; uint64_t *vp; VP_HAVOC_GHOSTS(); nng_msg_header_chop_u64(m, vp); VP_CANARY(); }
void h_nng_msg_header_trim_u64(void) { nng_msg *m; uint64_t *vp; VP_HAVOC_GHOSTS(); nng_msg_header_trim_u64(m, vp); VP_CANARY(); }
