/* Spec macros for src/sp/protocol/pipeline0/push.c (C06, C15, C03).  No code.
 * The object skeleton (socket, ready-pipe list of up to three real pipes, the pipe under
 * contract, the send buffer ring) is BUILT by the harness and named by ghosts (env.h). */
#ifndef VP_PUSH_SPEC_H
#define VP_PUSH_SPEC_H
/* BOUNDS (grade B): at most 3 pipes on the ready list s->pl (real nni_list of real nodes);
 * the send buffer s->wq is the inline two-slot ring (lmq_alloc == 0: depth 0..2, the
 * state after push0_sock_init) or a heap ring of PUSH_QSLOTS slots (depth 0..4);
 * ring position and occupancy symbolic. */
#define PUSH_QSLOTS 4
#define PUSH_WQ (&g_s->wq)
#define PUSH_LMQ_PRE(q) (((q)->lmq_alloc == 0 || (q)->lmq_alloc == PUSH_QSLOTS) && LMQ_WF_SCALAR(q))
#define PUSH_WQ_FULL (PUSH_WQ->lmq_len >= PUSH_WQ->lmq_cap)
/* the ready list is exactly [a, b, c][0..n) */
#define PUSH_PL_IS(n, a, b, c) VP_LIST3_IS(&g_s->pl.ll_head, (n), &(a)->node, &(b)->node, &(c)->node)
#define PUSH_PL_EMPTY (g_s->pl.ll_head.ln_next == &g_s->pl.ll_head)
#define PUSH_NODE_IDLE(p) ((p)->node.ln_next == NULL && (p)->node.ln_prev == NULL)
/* C15: the send descriptor is raised exactly when a non-blocking send would be accepted
 * (a pipe is ready or the buffer has room) */
#define PUSH_WPOLL_INV (g_pollw == (!PUSH_PL_EMPTY || !PUSH_WQ_FULL))
/* stable state of the three-way hand-off: a pipe is parked on the ready list only when
 * nothing waits to be sent; a sender waits only when the buffer is full */
#define PUSH_STABLE                                                        \
	((PUSH_PL_EMPTY || (PUSH_WQ->lmq_len == 0 && g_qa.n == 0)) &&          \
	    (g_qa.n == 0 || PUSH_WQ_FULL))
/* conservation counter: messages the socket is responsible for (buffered + blocked senders)
 * plus messages handed to transport pipes so far */
/* push0_sock_close: bound on the number of blocked senders (loop unwound) */
#define PUSH_MAXWAIT 3
/* push0_set_send_buf_len: bound on the number of blocked senders (admission loop unwound) */
#ifndef PUSH_SB_MAXWAIT
#define PUSH_SB_MAXWAIT 2
#endif
/* push0_set_send_buf_len: the buffered messages are real unshared messages built by the harness */
#define PUSH_NSLOTS (PUSH_WQ->lmq_alloc == 0 ? (size_t) 2 : (size_t) PUSH_QSLOTS)
#define PUSH_SLOT(i) (PUSH_WQ->lmq_msgs[(i)])
#define PUSH_SLOT_MSG_PRE(i) ((i) >= PUSH_NSLOTS || (PUSH_SLOT(i)->m_refcnt.v == 1 && (PUSH_SLOT(i)->m_body.ch_cap == 0 || PUSH_SLOT(i)->m_body.ch_buf != NULL)))
#define PUSH_HELD (PUSH_WQ->lmq_len + g_qa.n + g_pipe_send_calls)
#endif
