/* included AFTER the real sources */
#include "include/env_alloc.h"
#include "include/env_sync.h"
/* env_proto.h's two list functions become the ghost-queue halves of the dispatchers
 * (modules/sub/lists_post.h): the aio wait list s->aq goes to the ghost queue, the
 * ready-pipe list s->pl runs the real src/core/list.c on real nodes */
#define nni_list_first vp_aioq_first
#define nni_list_empty vp_aioq_empty
#define nni_aio_list_remove vp_proto_aio_list_remove
#define VP_PROTO_STUBS 1
#include "include/env_proto.h"
#undef nni_list_first
#undef nni_list_empty
#undef nni_aio_list_remove
void nni_aio_list_remove(nni_aio *aio); /* modules/push/env.h */
#include "modules/sub/lists_post.h"
#include "modules/push/env.h"
