/* Contracts for src/sp/protocol/pipeline0/push.c (PUSH v0; C06, C15, C03).
 * The object skeleton (socket, ready-pipe list of up to three real pipes, the pipe under
 * contract, the send-buffer ring) is BUILT by the harness and named by ghosts (env.h):
 * g_s, g_np (PRE-state length of s->pl), g_pp0..g_pp2 (its members in order), g_px (a pipe
 * that is not on the list).  Blocked senders s->aq = ghost queue g_qa (env_proto.h). */
#ifndef VP_PUSH_CONTRACTS_H
#define VP_PUSH_CONTRACTS_H
/* clang-format off */
#define RV __CPROVER_return_value
#define OLD(e) __CPROVER_old(e)
#define WQ PUSH_WQ
/* reachability probes (only with -DPUSH_COVER, never in a registered unit): each must FAIL, showing that the case is not excluded by the preconditions */
#ifdef PUSH_COVER
#define COVER(c) __CPROVER_ensures(!(c))
#else
#define COVER(c)
#endif
/* skeleton facts (established by the harness, restated so that every contract is self-contained) */
#define PUSH_SOCK_PRE (VP_NO_LOCK_HELD && g_np <= 3 && PUSH_LMQ_PRE(WQ) && PUSH_PL_IS(g_np, g_pp0, g_pp1, g_pp2) && g_qb.n == 0 && PUSH_NODE_IDLE(g_px))
/* ghost equations (free ghosts, no restriction): pre-state values of the C15 relation, the stable-state
 * relation and the conservation counter */
#define PUSH_GHOST_EQ (g_wpoll0 == PUSH_WPOLL_INV && g_stable0 == PUSH_STABLE && g_held0 == PUSH_HELD)
/* ghost equations naming the first blocked sender's message and its length */
#define PUSH_WAITER_PRE (g_qa.n == 0 || (__CPROVER_is_fresh(g_qa.head->a_msg, sizeof(struct nng_msg)) && g_p2 == (void *) g_qa.head->a_msg && g_n == g_qa.head->a_msg->m_body.ch_len))
#define PUSH_WQ_ASSIGNS \
__CPROVER_assigns(WQ->lmq_get, WQ->lmq_put, WQ->lmq_len) \
__CPROVER_assigns(WQ->lmq_alloc == 0: WQ->lmq_buf[0], WQ->lmq_buf[1]) \
__CPROVER_assigns(WQ->lmq_alloc != 0: __CPROVER_object_whole(WQ->lmq_msgs))
#define PUSH_PL_ASSIGNS __CPROVER_assigns(g_s->pl.ll_head, g_pp0->node, g_pp1->node, g_pp2->node, g_px->node)
#define WQ_GEOM_SAME (WQ->lmq_cap == OLD(WQ->lmq_cap) && WQ->lmq_alloc == OLD(WQ->lmq_alloc) && WQ->lmq_mask == OLD(WQ->lmq_mask) && WQ->lmq_msgs == OLD(WQ->lmq_msgs))
/* buffer untouched: same length, same messages in the same order */
#define WQ_SAME (WQ->lmq_len == OLD(WQ->lmq_len) && (g_j >= WQ->lmq_len || LMQ_VIEW(WQ, g_j) == OLD(LMQ_VIEW(WQ, g_j))))
/* oldest message taken out: the rest keeps its order */
#define WQ_SHIFTED(newlen) (WQ->lmq_len == (newlen) && (g_j + 1 >= OLD(WQ->lmq_len) || g_j >= LMQ_MAXALLOC || LMQ_VIEW(WQ, g_j) == OLD(LMQ_VIEW(WQ, g_j + 1))))
#define PL_SAME (PUSH_PL_IS(g_np, g_pp0, g_pp1, g_pp2) && PUSH_NODE_IDLE(g_px))
/* preserved relations: C15 descriptor <=> a non-blocking send would be accepted; stable hand-off state */
#define PUSH_KEEPS_INV ((g_wpoll0 ==> PUSH_WPOLL_INV) && (g_stable0 ==> PUSH_STABLE))

/* =====================================================================
 * push0_sock_send (C06 three-way hand-off + back-pressure, C15 non-blocking rule, C03 ownership)
 * ===================================================================== */
#define SS_M (aio->a_msg)
static void push0_sock_send(void *arg, nni_aio *aio)
__CPROVER_requires(arg == g_s)
__CPROVER_requires(__CPROVER_is_fresh(aio, sizeof(nni_aio)) && VP_AIOQS_PRE && VP_AIO_NOT_QUEUED(aio) && g_qa.n < 8)
__CPROVER_requires(__CPROVER_is_fresh(SS_M, sizeof(struct nng_msg)))
__CPROVER_requires(PUSH_SOCK_PRE)
__CPROVER_requires(PUSH_GHOST_EQ)
__CPROVER_assigns(aio->a_msg, aio->a_result, aio->a_count, g_pp0->aio_send.a_msg, VP_PROTO_GHOST_LIST, VP_SYNC_GHOSTS)
PUSH_WQ_ASSIGNS PUSH_PL_ASSIGNS
__CPROVER_ensures(VP_NO_LOCK_HELD && VP_AIOQS_OK && LMQ_WF_SCALAR(WQ) && WQ_GEOM_SAME)
/* never discarded, never duplicated: afterwards the message is in exactly ONE place
 * (handed to one pipe / buffered / still the caller's), and nobody is disconnected */
__CPROVER_ensures(g_pipe_close_calls == OLD(g_pipe_close_calls) && g_fin_calls <= OLD(g_fin_calls) + 1 && g_pipe_send_calls <= OLD(g_pipe_send_calls) + 1)
/* a pipe is ready: handed to exactly that pipe (the FIRST of the ready list), once, on its own send aio;
 * the pipe leaves the ready list, the others keep their order; completed with success in the call, the
 * timeout is not consulted; buffer and waiters untouched */
__CPROVER_ensures(g_np > 0 ==> (g_pipe_send_calls == OLD(g_pipe_send_calls) + 1 && g_pipe_send_pipe == g_pp0->pipe && g_pipe_send_aio == &g_pp0->aio_send && g_pipe_send_msg == OLD(SS_M) && g_pp0->aio_send.a_msg == OLD(SS_M)))
__CPROVER_ensures(g_np > 0 ==> (PUSH_NODE_IDLE(g_pp0) && PUSH_PL_IS(g_np - 1, g_pp1, g_pp2, g_pp2) && PUSH_NODE_IDLE(g_px)))
__CPROVER_ensures(g_np > 0 ==> (g_fin_calls == OLD(g_fin_calls) + 1 && g_fin_last == aio && g_fin_last_rv == 0 && g_fin_last_count == OLD(SS_M->m_body.ch_len) && g_fin_last_msg == NULL && aio->a_msg == NULL && g_start_calls == OLD(g_start_calls) && WQ_SAME && g_qa.n == OLD(g_qa.n)))
/* no pipe ready, room in the buffer: queued at the TAIL (send order kept); completed with success in the call */
__CPROVER_ensures((g_np == 0 && OLD(WQ->lmq_len) < WQ->lmq_cap) ==> (g_pipe_send_calls == OLD(g_pipe_send_calls) && WQ->lmq_len == OLD(WQ->lmq_len) + 1 && LMQ_VIEW(WQ, WQ->lmq_len - 1) == OLD(SS_M) && (g_j >= OLD(WQ->lmq_len) || LMQ_VIEW(WQ, g_j) == OLD(LMQ_VIEW(WQ, g_j)))))
__CPROVER_ensures((g_np == 0 && OLD(WQ->lmq_len) < WQ->lmq_cap) ==> (g_fin_calls == OLD(g_fin_calls) + 1 && g_fin_last == aio && g_fin_last_rv == 0 && g_fin_last_count == OLD(SS_M->m_body.ch_len) && g_fin_last_msg == NULL && aio->a_msg == NULL && g_start_calls == OLD(g_start_calls) && g_qa.n == OLD(g_qa.n) && PL_SAME))
/* no pipe ready and buffer full: back-pressure - the sender must wait: started exactly once; when the start is
 * refused (non-blocking: NNG_EAGAIN / NNG_ETIMEDOUT, stopped aio) the message is STILL the caller's and nothing is queued */
__CPROVER_ensures((g_np == 0 && OLD(WQ->lmq_len) >= WQ->lmq_cap) ==> (g_start_calls == OLD(g_start_calls) + 1 && g_start_last == aio && g_fin_calls == OLD(g_fin_calls) && g_pipe_send_calls == OLD(g_pipe_send_calls) && WQ_SAME && aio->a_msg == OLD(SS_M) && PL_SAME))
__CPROVER_ensures((g_np == 0 && OLD(WQ->lmq_len) >= WQ->lmq_cap) ==> (g_qa.n == OLD(g_qa.n) + (g_aio_start_ok ? 1 : 0) && (g_aio_start_ok ==> (g_last_app == aio && (g_qa.n == 1 ? g_qa.head == aio : g_qa.tail == aio)))))
/* conservation: accepted => the socket holds (or has handed on) exactly one more message */
__CPROVER_ensures(PUSH_HELD == g_held0 + ((g_np > 0 || OLD(WQ->lmq_len) < WQ->lmq_cap || g_aio_start_ok) ? 1 : 0))
/* C15 + stable state preserved */
__CPROVER_ensures(PUSH_KEEPS_INV)
COVER(g_np == 3 && g_wpoll0 && g_stable0) COVER(g_np == 1 && g_wpoll0 && g_stable0 && WQ->lmq_cap == 0) COVER(g_np == 0 && OLD(WQ->lmq_len) < WQ->lmq_cap && g_wpoll0 && g_stable0 && WQ->lmq_len == WQ->lmq_cap && WQ->lmq_alloc == 0)
COVER(g_np == 0 && OLD(WQ->lmq_len) == 2 && WQ->lmq_cap == 4 && g_wpoll0 && g_stable0) COVER(g_np == 0 && OLD(WQ->lmq_len) >= WQ->lmq_cap && g_aio_start_ok && OLD(g_qa.n) == 0 && g_wpoll0 && g_stable0) COVER(g_np == 0 && WQ->lmq_cap == 3 && OLD(WQ->lmq_len) >= WQ->lmq_cap && g_aio_start_ok && OLD(g_qa.n) == 5 && g_wpoll0 && g_stable0) COVER(g_np == 0 && OLD(WQ->lmq_len) >= WQ->lmq_cap && !g_aio_start_ok && g_wpoll0 && g_stable0)
;

/* =====================================================================
 * push0_pipe_ready (a pipe can take a message: first the OLDEST buffered message, else the FIRST blocked
 * sender's, else the pipe joins the ready list at the tail; a blocked sender whose message moves on is completed)
 * ===================================================================== */
#define PR_OPEN (!g_px->closed)
#define PR_L0 OLD(WQ->lmq_len)
#define PR_A0 OLD(g_qa.n)
#define PR_SENT_ON_PX (g_pipe_send_calls == OLD(g_pipe_send_calls) + 1 && g_pipe_send_pipe == g_px->pipe && g_pipe_send_aio == &g_px->aio_send)
#define PR_WAITER_DONE (g_fin_calls == OLD(g_fin_calls) + 1 && g_fin_last == OLD(g_qa.head) && g_fin_last_rv == 0 && g_fin_last_count == g_n && g_fin_last_msg == NULL && g_qa.n == PR_A0 - 1)
#define PUSH_PIPE_READY_CONTRACT(P) \
__CPROVER_requires((P) == g_px && g_px->push == g_s && g_np <= 2) \
__CPROVER_requires(VP_AIOQS_PRE) \
__CPROVER_requires(PUSH_WAITER_PRE) \
__CPROVER_requires(PUSH_SOCK_PRE) \
__CPROVER_requires(PUSH_GHOST_EQ) \
__CPROVER_assigns(g_px->aio_send.a_msg, VP_PROTO_GHOST_LIST, VP_SYNC_GHOSTS) \
__CPROVER_assigns(g_qa.n > 0: g_qa.head->a_msg) \
PUSH_WQ_ASSIGNS PUSH_PL_ASSIGNS \
__CPROVER_ensures(VP_NO_LOCK_HELD && VP_AIOQS_OK && LMQ_WF_SCALAR(WQ) && WQ_GEOM_SAME) \
__CPROVER_ensures(g_pipe_close_calls == OLD(g_pipe_close_calls) && g_start_calls == OLD(g_start_calls) && g_pipe_recv_calls == OLD(g_pipe_recv_calls)) \
/* buffered messages go first: the OLDEST one goes to this pipe, once; the rest keeps its order */ \
__CPROVER_ensures((PR_OPEN && PR_L0 > 0) ==> (PR_SENT_ON_PX && g_pipe_send_msg == OLD(LMQ_VIEW(WQ, 0)) && g_px->aio_send.a_msg == OLD(LMQ_VIEW(WQ, 0)) && PL_SAME)) \
/* ... and the FIRST blocked sender's message takes the freed slot at the TAIL; that sender completes with success, its aio no longer owns the message */ \
__CPROVER_ensures((PR_OPEN && PR_L0 > 0 && PR_A0 > 0) ==> (WQ_SHIFTED(PR_L0) && LMQ_VIEW(WQ, WQ->lmq_len - 1) == (nni_msg *) g_p2 && PR_WAITER_DONE && OLD(g_qa.head)->a_msg == NULL)) \
__CPROVER_ensures((PR_OPEN && PR_L0 > 0 && PR_A0 == 0) ==> (WQ_SHIFTED(PR_L0 - 1) && g_fin_calls == OLD(g_fin_calls) && g_qa.n == 0)) \
/* nothing buffered but a sender is blocked (unbuffered hand-off): its message goes straight to this pipe */ \
__CPROVER_ensures((PR_OPEN && PR_L0 == 0 && PR_A0 > 0) ==> (PR_SENT_ON_PX && g_pipe_send_msg == (nni_msg *) g_p2 && g_px->aio_send.a_msg == (nni_msg *) g_p2 && PR_WAITER_DONE && OLD(g_qa.head)->a_msg == NULL && WQ->lmq_len == 0 && PL_SAME)) \
/* nothing to send: the pipe joins the ready list at the TAIL; nothing is sent, nobody completes */ \
__CPROVER_ensures((PR_OPEN && PR_L0 == 0 && PR_A0 == 0) ==> (g_pipe_send_calls == OLD(g_pipe_send_calls) && g_fin_calls == OLD(g_fin_calls) && WQ->lmq_len == 0 && g_qa.n == 0 && g_px->aio_send.a_msg == OLD(g_px->aio_send.a_msg))) \
__CPROVER_ensures((PR_OPEN && PR_L0 == 0 && PR_A0 == 0) ==> (g_np == 0 ? PUSH_PL_IS(1, g_px, g_px, g_px) : (g_np == 1 ? PUSH_PL_IS(2, g_pp0, g_px, g_px) : PUSH_PL_IS(3, g_pp0, g_pp1, g_px)))) \
/* conservation: buffer + blocked senders + handed to pipes neither loses nor duplicates a message */ \
__CPROVER_ensures(PUSH_HELD == g_held0) \
__CPROVER_ensures(PUSH_KEEPS_INV) \
/* C15 wake-up: after the call the socket is writable iff a pipe is ready or the buffer has room, whenever that held before */ \
__CPROVER_ensures((g_wpoll0 && PR_OPEN && PR_L0 == 0 && PR_A0 == 0) ==> g_pollw) \
/* a CLOSED pipe (its last send completed just before it was closed; it is about to be freed) takes no message and \
 * never gets on the ready list: nothing at all happens */ \
__CPROVER_ensures(!PR_OPEN ==> (g_pipe_send_calls == OLD(g_pipe_send_calls) && g_fin_calls == OLD(g_fin_calls) && g_qa.n == PR_A0 && WQ_SAME && PL_SAME && g_pollw == OLD(g_pollw) && g_px->aio_send.a_msg == OLD(g_px->aio_send.a_msg))) \
COVER(!PR_OPEN && PR_L0 == 1 && PR_A0 == 1 && g_np == 0) COVER(PR_OPEN && PR_L0 == 4 && PR_A0 == 3 && g_wpoll0 && g_stable0) COVER(PR_L0 == 2 && PR_A0 == 0 && g_wpoll0 && g_stable0 && WQ->lmq_alloc == 0) COVER(PR_L0 == 0 && PR_A0 == 1 && g_wpoll0 && g_stable0) COVER(PR_L0 == 0 && PR_A0 == 0 && g_np == 2 && g_wpoll0 && g_stable0) COVER(PR_L0 == 0 && PR_A0 == 0 && g_np == 0 && g_wpoll0 && g_stable0 && WQ->lmq_cap == 0)

#ifndef PUSH_READY_LIGHT
static void push0_pipe_ready(push0_pipe *p)
PUSH_PIPE_READY_CONTRACT(p)
;
#else
/* ASSUMED inside push0_pipe_start / push0_send_cb (counts the call only); the real body is verified by unit push0_pipe_ready */
static void push0_pipe_ready(push0_pipe *p)
__CPROVER_assigns(g_ready_calls, g_ready_last)
__CPROVER_ensures(g_ready_calls == OLD(g_ready_calls) + 1 && g_ready_last == p)
;
#endif

/* =====================================================================
 * push0_send_cb: transport finished a send.  Failure: the unsent message is released exactly once and the
 * peer disconnected (connection went down: C06 allows the loss).  Success: the pipe is ready again.
 * ===================================================================== */
#define SC_P ((push0_pipe *) arg)
#define SC_M (SC_P->aio_send.a_msg)
#ifdef PUSH_SEND_FAILED
static void push0_send_cb(void *arg)
__CPROVER_requires(arg == g_px && g_px->push == g_s && SC_P->aio_send.a_result != 0)
__CPROVER_requires(SC_M == NULL || (__CPROVER_is_fresh(SC_M, sizeof(struct nng_msg)) && SC_M->m_refcnt.v == 1 && CH_FULL_PRE(&SC_M->m_body)))
__CPROVER_requires(PUSH_SOCK_PRE)
__CPROVER_assigns(SC_P->aio_send.a_msg, VP_PROTO_GHOST_LIST, g_free_calls, g_ready_calls, g_ready_last)
__CPROVER_assigns(SC_M != NULL: *SC_M)
__CPROVER_frees(SC_M != NULL: SC_M, SC_M->m_body.ch_buf)
__CPROVER_ensures(VP_NO_LOCK_HELD && SC_P->aio_send.a_msg == NULL)
__CPROVER_ensures(g_pipe_close_calls == OLD(g_pipe_close_calls) + 1 && g_pipe_close_last == SC_P->pipe && g_ready_calls == OLD(g_ready_calls) && g_pipe_send_calls == OLD(g_pipe_send_calls) && g_fin_calls == OLD(g_fin_calls))
/* C03: released exactly once: the message block and its body buffer */
__CPROVER_ensures(OLD(SC_M) != NULL ==> (__CPROVER_was_freed(OLD(SC_M)) && g_free_calls == OLD(g_free_calls) + 2))
__CPROVER_ensures(OLD(SC_M) == NULL ==> g_free_calls == OLD(g_free_calls))
/* the ready list and the buffer are not touched */
__CPROVER_ensures(PL_SAME && WQ_SAME)
;
#else
static void push0_send_cb(void *arg)
__CPROVER_requires(arg == g_px && g_px->push == g_s && SC_P->aio_send.a_result == 0)
__CPROVER_assigns(g_ready_calls, g_ready_last)
/* success: nothing is released, nobody disconnected: exactly one push0_pipe_ready(p) */
__CPROVER_ensures(g_ready_calls == OLD(g_ready_calls) + 1 && g_ready_last == SC_P)
;
#endif

/* =====================================================================
 * push0_pipe_start: a wrong peer protocol is refused; else the (disconnect-detecting) receive is armed once and
 * the pipe becomes ready exactly once
 * ===================================================================== */
static int push0_pipe_start(void *arg)
__CPROVER_requires(arg == g_px && g_px->push == g_s)
__CPROVER_assigns(VP_PROTO_GHOST_LIST, g_ready_calls, g_ready_last)
__CPROVER_ensures(g_pipe_peer != NNI_PROTO_PULL_V0 ==> (RV == NNG_EPROTO && g_pipe_recv_calls == OLD(g_pipe_recv_calls) && g_ready_calls == OLD(g_ready_calls)))
__CPROVER_ensures(g_pipe_peer == NNI_PROTO_PULL_V0 ==> (RV == 0 && g_pipe_recv_calls == OLD(g_pipe_recv_calls) + 1 && g_pipe_recv_pipe == g_px->pipe && g_pipe_recv_aio == &g_px->aio_recv && g_ready_calls == OLD(g_ready_calls) + 1 && g_ready_last == g_px))
__CPROVER_ensures(g_pipe_send_calls == OLD(g_pipe_send_calls) && g_pipe_close_calls == OLD(g_pipe_close_calls) && g_fin_calls == OLD(g_fin_calls))
;

/* =====================================================================
 * push0_recv_cb: PUSH never receives; data from the peer is released (once) and the receive re-armed; an error
 * disconnects the peer
 * ===================================================================== */
#define RC_P ((push0_pipe *) arg)
#define RC_M (RC_P->aio_recv.a_msg)
#ifdef PUSH_RECV_FAILED
static void push0_recv_cb(void *arg)
__CPROVER_requires(arg == g_px && RC_P->aio_recv.a_result != 0)
__CPROVER_assigns(VP_PROTO_GHOST_LIST)
__CPROVER_ensures(g_pipe_close_calls == OLD(g_pipe_close_calls) + 1 && g_pipe_close_last == RC_P->pipe && g_pipe_recv_calls == OLD(g_pipe_recv_calls) && g_fin_calls == OLD(g_fin_calls) && g_pipe_send_calls == OLD(g_pipe_send_calls))
;
#else
static void push0_recv_cb(void *arg)
__CPROVER_requires(arg == g_px && RC_P->aio_recv.a_result == 0)
__CPROVER_requires(__CPROVER_is_fresh(RC_M, sizeof(struct nng_msg)) && RC_M->m_refcnt.v == 1 && CH_FULL_PRE(&RC_M->m_body))
__CPROVER_assigns(RC_P->aio_recv.a_msg, *RC_M, VP_PROTO_GHOST_LIST, g_free_calls)
__CPROVER_frees(RC_M, RC_M->m_body.ch_buf)
__CPROVER_ensures(__CPROVER_was_freed(OLD(RC_M)) && g_free_calls == OLD(g_free_calls) + 2 && RC_P->aio_recv.a_msg == NULL)
__CPROVER_ensures(g_pipe_recv_calls == OLD(g_pipe_recv_calls) + 1 && g_pipe_recv_pipe == RC_P->pipe && g_pipe_recv_aio == &RC_P->aio_recv && g_pipe_close_calls == OLD(g_pipe_close_calls) && g_fin_calls == OLD(g_fin_calls) && g_pipe_send_calls == OLD(g_pipe_send_calls))
;
#endif

/* =====================================================================
 * push0_pipe_close: the pipe leaves the ready list (if it is on it), the others keep their order; buffered
 * messages and blocked senders stay (they go to the next ready pipe); C15 relation kept
 * ===================================================================== */
#define PC_SEL (g_ci == 0 ? g_pp0 : (g_ci == 1 ? g_pp1 : (g_ci == 2 ? g_pp2 : g_px)))
static void push0_pipe_close(void *arg)
__CPROVER_requires(g_ci <= 3 && arg == PC_SEL && g_pp0->push == g_s && g_pp1->push == g_s && g_pp2->push == g_s && g_px->push == g_s)
__CPROVER_requires(VP_AIOQS_PRE)
__CPROVER_requires(PUSH_SOCK_PRE)
__CPROVER_requires(PUSH_GHOST_EQ)
__CPROVER_assigns(g_pp0->closed, g_pp1->closed, g_pp2->closed, g_px->closed, VP_PROTO_GHOST_LIST, VP_SYNC_GHOSTS)
PUSH_PL_ASSIGNS
__CPROVER_ensures(VP_NO_LOCK_HELD && VP_AIOQS_OK && g_aio_close_calls == OLD(g_aio_close_calls) + 2)
/* the pipe is marked closed (push0_pipe_ready ignores it from now on), no other pipe is */
__CPROVER_ensures(((push0_pipe *) arg)->closed)
__CPROVER_ensures(g_ci != 0 ==> g_pp0->closed == OLD(g_pp0->closed))
__CPROVER_ensures(g_ci != 1 ==> g_pp1->closed == OLD(g_pp1->closed))
__CPROVER_ensures(g_ci != 2 ==> g_pp2->closed == OLD(g_pp2->closed))
__CPROVER_ensures(g_ci != 3 ==> g_px->closed == OLD(g_px->closed))
__CPROVER_ensures((g_ci >= g_np) ==> PL_SAME)
__CPROVER_ensures((g_ci == 0 && g_np > 0) ==> (PUSH_PL_IS(g_np - 1, g_pp1, g_pp2, g_pp2) && PUSH_NODE_IDLE(g_pp0)))
__CPROVER_ensures((g_ci == 1 && g_np > 1) ==> (PUSH_PL_IS(g_np - 1, g_pp0, g_pp2, g_pp2) && PUSH_NODE_IDLE(g_pp1)))
__CPROVER_ensures((g_ci == 2 && g_np > 2) ==> (PUSH_PL_IS(g_np - 1, g_pp0, g_pp1, g_pp1) && PUSH_NODE_IDLE(g_pp2)))
/* nothing is sent, completed, dropped or moved */
__CPROVER_ensures(WQ_SAME && g_qa.n == OLD(g_qa.n) && g_fin_calls == OLD(g_fin_calls) && g_pipe_send_calls == OLD(g_pipe_send_calls) && g_pipe_close_calls == OLD(g_pipe_close_calls))
__CPROVER_ensures(PUSH_KEEPS_INV)
;

/* =====================================================================
 * push0_cancel (timeout / abort / stop of a blocked send): C06 "fails ... leaving the message with the caller"
 * ===================================================================== */
static void push0_cancel(nni_aio *aio, void *arg, nng_err rv)
__CPROVER_requires(arg == g_s && aio == g_ca && g_qa.n <= 8 && VP_AIOQS_OK)
/* ghost-queue model: the aio is the first waiter, the last appended waiter, or not queued at all */
__CPROVER_requires(g_which == 0 ? (g_qa.n >= 1 && g_qa.head == aio) : (g_which == 1 ? (g_qa.n >= 2 && g_qa.tail == aio && g_qa.head != aio) : (g_which == 2 && !g_aio_active && !(g_qa.n > 0 && (g_qa.head == aio || g_qa.tail == aio)))))
__CPROVER_requires(PUSH_SOCK_PRE)
__CPROVER_requires(PUSH_GHOST_EQ)
__CPROVER_assigns(VP_PROTO_GHOST_LIST, VP_SYNC_GHOSTS)
__CPROVER_ensures(VP_NO_LOCK_HELD && VP_AIOQS_OK)
/* still waiting: taken off the wait list and completed ONCE with the given error; the message is still attached
 * to the aio (the caller's); buffer, ready list, pipes untouched */
__CPROVER_ensures(g_which != 2 ==> (g_qa.n == OLD(g_qa.n) - 1 && g_fin_calls == OLD(g_fin_calls) + 1 && g_fin_last == aio && g_fin_last_rv == (int) rv && g_fin_last_msg == OLD(aio->a_msg) && aio->a_msg == OLD(aio->a_msg)))
/* not waiting any more (already handed on / completed): nothing happens - single winner */
__CPROVER_ensures(g_which == 2 ==> (g_qa.n == OLD(g_qa.n) && g_fin_calls == OLD(g_fin_calls)))
__CPROVER_ensures(WQ_SAME && PL_SAME && g_pipe_send_calls == OLD(g_pipe_send_calls) && g_pipe_close_calls == OLD(g_pipe_close_calls) && g_pollw == OLD(g_pollw))
__CPROVER_ensures(PUSH_KEEPS_INV)
;

/* =====================================================================
 * push0_sock_close: every blocked sender fails with NNG_ECLOSED, message left with the caller
 * ===================================================================== */
static void push0_sock_close(void *arg)
__CPROVER_requires(arg == g_s)
__CPROVER_requires(VP_AIOQS_PRE && g_qa.n <= PUSH_MAXWAIT)
__CPROVER_requires(g_qa.n == 0 || g_p2 == (void *) g_qa.head->a_msg)
__CPROVER_requires(PUSH_SOCK_PRE)
__CPROVER_assigns(VP_PROTO_GHOST_LIST, VP_SYNC_GHOSTS)
__CPROVER_ensures(VP_NO_LOCK_HELD && VP_AIOQS_OK && g_qa.n == 0)
__CPROVER_ensures(g_fin_calls == OLD(g_fin_calls) + OLD(g_qa.n) && (OLD(g_qa.n) > 0 ==> g_fin_last_rv == NNG_ECLOSED))
__CPROVER_ensures(OLD(g_qa.n) > 0 ==> OLD(g_qa.head)->a_msg == (nni_msg *) g_p2)
__CPROVER_ensures(WQ_SAME && PL_SAME && g_pipe_send_calls == OLD(g_pipe_send_calls) && g_pipe_close_calls == OLD(g_pipe_close_calls))
;

/* =====================================================================
 * push0_sock_init: the initial state - unbuffered (depth 0 = always "full"), no ready pipe, so nothing can be
 * accepted yet: the base case of PUSH_STABLE / PUSH_WPOLL_INV (the descriptor starts lowered: nni_pollable_init)
 * ===================================================================== */
#define SI_S ((push0_sock *) arg)
static void push0_sock_init(void *arg, nni_sock *sock)
__CPROVER_requires(__CPROVER_is_fresh(arg, sizeof(push0_sock)) && VP_NO_LOCK_HELD)
/* model artefact: the list dispatcher (modules/sub/lists_post.h) recognises aio wait lists by their member offset */
__CPROVER_requires(SI_S->pl.ll_offset != VP_AIO_OFF)
__CPROVER_assigns(*SI_S)
__CPROVER_ensures(VP_NO_LOCK_HELD && LMQ_WF_SCALAR(&SI_S->wq) && SI_S->wq.lmq_cap == 0 && SI_S->wq.lmq_len == 0 && SI_S->wq.lmq_alloc == 0 && SI_S->wq.lmq_msgs == &SI_S->wq.lmq_buf[0])
__CPROVER_ensures(SI_S->pl.ll_offset == offsetof(push0_pipe, node) && SI_S->pl.ll_head.ln_next == &SI_S->pl.ll_head && SI_S->pl.ll_head.ln_prev == &SI_S->pl.ll_head)
;

/* =====================================================================
 * push0_sock_recv: PUSH cannot receive
 * ===================================================================== */
static void push0_sock_recv(void *arg, nni_aio *aio)
__CPROVER_requires(__CPROVER_is_fresh(aio, sizeof(nni_aio)))
__CPROVER_assigns(VP_PROTO_GHOST_LIST)
__CPROVER_ensures(g_fin_calls == OLD(g_fin_calls) + 1 && g_fin_last == aio && g_fin_last_rv == NNG_ENOTSUP && g_start_calls == OLD(g_start_calls))
;

/* =====================================================================
 * Second contract for nni_lmq_resize: the text of modules/lmq/contracts.h (verified there by unit lmq_resize)
 * plus ONE clause needed when the contract replaces the call (a replaced contract with a frees clause may
 * deallocate nondeterministically): on failure the ring array is still allocated.  Verified against the real
 * function by unit lmq_resize_keeps_ring of THIS module (loop invariants = those of modules/lmq).
 * ===================================================================== */
int vp_push_lmq_resize(nni_lmq *lmq, size_t cap)
__CPROVER_requires(LMQ_SHAPE_PRE(lmq) && LMQ_WF_SCALAR(lmq))
__CPROVER_requires(cap <= LMQ_MAXALLOC)
__CPROVER_assigns(*lmq, g_msg_freed, g_msg_freed_at_j, g_free_calls, g_alloc_ok)
__CPROVER_frees(lmq->lmq_alloc > 0: lmq->lmq_msgs)
/* ADDED here (first, so that it is assumed before the clauses that read the old array): a failed resize keeps the ring array (the frees clause is not exercised) */
__CPROVER_ensures((__CPROVER_return_value != 0 && __CPROVER_old(lmq->lmq_alloc) > 0) ==> !__CPROVER_was_freed(__CPROVER_old(lmq->lmq_msgs)))
__CPROVER_ensures(__CPROVER_return_value == 0 || __CPROVER_return_value == NNG_ENOMEM)
__CPROVER_ensures(LMQ_WF_SCALAR(lmq))
__CPROVER_ensures(__CPROVER_return_value == 0 ==> __CPROVER_is_fresh(lmq->lmq_msgs, lmq->lmq_alloc * sizeof(nng_msg *)))
/* failure: nothing changed, nothing released */
__CPROVER_ensures(__CPROVER_return_value != 0 ==> (LMQ_UNCHANGED_GEOM(lmq) && lmq->lmq_len == __CPROVER_old(lmq->lmq_len) && lmq->lmq_get == __CPROVER_old(lmq->lmq_get) && lmq->lmq_put == __CPROVER_old(lmq->lmq_put) && g_msg_freed == __CPROVER_old(g_msg_freed)))
__CPROVER_ensures((__CPROVER_return_value != 0 && g_k < lmq->lmq_len) ==> LMQ_VIEW(lmq, g_k) == __CPROVER_old(LMQ_VIEW(lmq, g_k)))
/* success: new depth, the oldest min(len,cap) survive in order ... */
__CPROVER_ensures(__CPROVER_return_value == 0 ==> (lmq->lmq_cap == cap && lmq->lmq_alloc >= 2 && lmq->lmq_alloc >= cap))
__CPROVER_ensures(__CPROVER_return_value == 0 ==> lmq->lmq_len == VP_MIN(__CPROVER_old(lmq->lmq_len), cap))
__CPROVER_ensures((__CPROVER_return_value == 0 && g_k < lmq->lmq_len) ==> LMQ_VIEW(lmq, g_k) == __CPROVER_old(LMQ_VIEW(lmq, g_k)))
/* ... and only what no longer fits is discarded, whole, once each, from the tail end */
__CPROVER_ensures(__CPROVER_return_value == 0 ==> g_msg_freed == __CPROVER_old(g_msg_freed) + (__CPROVER_old(lmq->lmq_len) - lmq->lmq_len))
__CPROVER_ensures((__CPROVER_return_value == 0 && g_j >= __CPROVER_old(g_msg_freed) && g_j < g_msg_freed) ==> g_msg_freed_at_j == __CPROVER_old(LMQ_VIEW(lmq, cap + (g_j - g_msg_freed))))
/* failure allocates nothing; success allocates exactly the new array */
__CPROVER_ensures(g_alloc_ok == __CPROVER_old(g_alloc_ok) + (__CPROVER_return_value == 0 ? 1 : 0))
__CPROVER_ensures(__CPROVER_return_value != 0 ==> g_free_calls == __CPROVER_old(g_free_calls))
/* old heap array released exactly when there was one */
__CPROVER_ensures(__CPROVER_return_value == 0 ==> (g_free_calls == __CPROVER_old(g_free_calls) + (__CPROVER_old(lmq->lmq_alloc) > 0 ? 1 : 0)))
;

/* =====================================================================
 * push0_set_send_buf_len (NNG_OPT_SENDBUF, 0..8192; real nni_copyin_int of src/core/options.c): new depth;
 * blocked senders are admitted into new room, oldest first, behind what is already buffered (send order kept,
 * nobody overtakes them).  nni_lmq_resize is REPLACED by the contract vp_push_lmq_resize above:
 * the messages a shrink discards are counted by that contract's ghost g_msg_freed.
 * ===================================================================== */
#define SB_VAL (*(const int *) buf)
#define SB_OKARG (t == NNI_TYPE_INT32 && SB_VAL >= 0 && SB_VAL <= 8192)
#define SB_OK (SB_OKARG && RV == 0)
#define SB_L1 VP_MIN(OLD(WQ->lmq_len), WQ->lmq_cap)          /* buffered messages that survive */
#define SB_K VP_MIN(OLD(g_qa.n), WQ->lmq_cap - SB_L1)         /* blocked senders admitted */
static nng_err push0_set_send_buf_len(void *arg, const void *buf, size_t sz, nni_type t)
__CPROVER_requires(arg == g_s)
__CPROVER_requires(t == NNI_TYPE_INT32 ==> __CPROVER_is_fresh(buf, sizeof(int)))
__CPROVER_requires(VP_AIOQS_PRE && g_qa.n <= PUSH_SB_MAXWAIT)
__CPROVER_requires(PUSH_WAITER_PRE)
__CPROVER_requires(PUSH_SOCK_PRE)
__CPROVER_requires(PUSH_GHOST_EQ)
__CPROVER_requires(g_k < WQ->lmq_len ==> g_p == (void *) LMQ_VIEW(WQ, g_k))
__CPROVER_assigns(*WQ, VP_PROTO_GHOST_LIST, VP_SYNC_GHOSTS, g_free_calls, g_alloc_ok, g_msg_freed, g_msg_freed_at_j)
__CPROVER_assigns(g_qa.n > 0: g_qa.head->a_msg)
__CPROVER_assigns(WQ->lmq_alloc != 0: __CPROVER_object_whole(WQ->lmq_msgs))
__CPROVER_frees(WQ->lmq_alloc != 0: WQ->lmq_msgs)
__CPROVER_ensures(VP_NO_LOCK_HELD && VP_AIOQS_OK && LMQ_WF_SCALAR(WQ) && PL_SAME)
__CPROVER_ensures(t != NNI_TYPE_INT32 ==> RV == NNG_EBADTYPE)
__CPROVER_ensures((t == NNI_TYPE_INT32 && !SB_OKARG) ==> RV == NNG_EINVAL)
__CPROVER_ensures(SB_OKARG ==> (RV == NNG_OK || RV == NNG_ENOMEM))
/* refused value: nothing at all happens */
__CPROVER_ensures(!SB_OKARG ==> (VP_HEAP_DELTA(0, 0) && g_msg_freed == OLD(g_msg_freed) && WQ->lmq_cap == OLD(WQ->lmq_cap) && WQ->lmq_len == OLD(WQ->lmq_len) && g_qa.n == OLD(g_qa.n) && g_fin_calls == OLD(g_fin_calls) && g_pollw == OLD(g_pollw)))
/* no memory: depth, content and order unchanged, nothing released */
__CPROVER_ensures((SB_OKARG && RV != 0) ==> (WQ->lmq_cap == OLD(WQ->lmq_cap) && VP_HEAP_DELTA(0, 0) && g_msg_freed == OLD(g_msg_freed)))
/* accepted: new depth */
__CPROVER_ensures(SB_OK ==> WQ->lmq_cap == (size_t) SB_VAL)
/* the oldest min(len, depth) buffered messages survive in order ... */
__CPROVER_ensures((SB_OKARG && g_k < SB_L1) ==> LMQ_VIEW(WQ, g_k) == (nni_msg *) g_p)
/* ... and blocked senders fill the room behind them, oldest first: each admitted sender completes with success and no longer owns its message */
__CPROVER_ensures(SB_OKARG ==> (WQ->lmq_len == SB_L1 + SB_K && g_qa.n == OLD(g_qa.n) - SB_K && g_fin_calls == OLD(g_fin_calls) + SB_K))
__CPROVER_ensures((SB_OKARG && SB_K > 0) ==> (LMQ_VIEW(WQ, SB_L1) == (nni_msg *) g_p2 && OLD(g_qa.head)->a_msg == NULL && g_fin_last_rv == 0 && g_fin_last_msg == NULL && (SB_K == 1 ==> (g_fin_last == OLD(g_qa.head) && g_fin_last_count == g_n))))
/* afterwards a sender is blocked only while the buffer is full (no missed wake-up, nobody can overtake a blocked sender) */
__CPROVER_ensures(SB_OKARG ==> (g_qa.n == 0 || PUSH_WQ_FULL))
__CPROVER_ensures(g_stable0 ==> PUSH_STABLE)
/* nothing is sent, nobody disconnected, timeouts not consulted */
__CPROVER_ensures(g_pipe_send_calls == OLD(g_pipe_send_calls) && g_pipe_close_calls == OLD(g_pipe_close_calls) && g_start_calls == OLD(g_start_calls))
/* conservation as long as the buffered messages fit the new depth */
__CPROVER_ensures(OLD(WQ->lmq_len) <= WQ->lmq_cap ==> (PUSH_HELD == g_held0 && g_msg_freed == OLD(g_msg_freed)))
/* C15 relation kept in every case (grown: raised; shrunk to full with no ready pipe: cleared) */
__CPROVER_ensures(g_wpoll0 ==> PUSH_WPOLL_INV)
#ifdef PUSH_SB_NOLOSS
/* C06 "none lost ... for all send-buffer depths and resizes": an accepted (buffered) message is never discarded */
__CPROVER_ensures(WQ->lmq_len >= OLD(WQ->lmq_len) && g_msg_freed == OLD(g_msg_freed))
#endif
COVER(SB_OK && SB_K == 2 && SB_L1 == 1) COVER(SB_OK && SB_K == 1 && OLD(g_qa.n) == 2 && OLD(WQ->lmq_alloc) == 0) COVER(SB_OK && OLD(WQ->lmq_len) == 4 && WQ->lmq_cap == 2) COVER(SB_OKARG && RV != 0 && OLD(g_qa.n) == 2 && g_stable0) COVER(SB_OK && WQ->lmq_cap == 8192) COVER(SB_OK && WQ->lmq_cap == 0 && OLD(WQ->lmq_len) == 1 && g_np == 2)
;
/* clang-format on */
#endif
