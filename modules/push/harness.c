#define VP_HAVOC_GHOSTS()                         \
	do {                                      \
		g_k = nondet_size_t(); g_j = nondet_size_t(); g_b = nondet_u8(); g_n = nondet_size_t(); \
		g_hk = nondet_size_t(); g_u32 = nondet_u32(); g_hb = nondet_u8(); g_p = nondet_ptr(); g_p2 = nondet_ptr(); \
		g_free_calls = nondet_size_t(); g_alloc_ok = nondet_size_t(); g_ready_calls = nondet_size_t(); \
		__CPROVER_assume(g_free_calls < ((size_t) 1 << 40) && g_alloc_ok < ((size_t) 1 << 40) && g_ready_calls < ((size_t) 1 << 40)); \
		g_ready_last = NULL; g_ci = nondet_size_t(); g_which = nondet_int(); \
		g_wpoll0 = nondet_bool(); g_stable0 = nondet_bool(); g_held0 = nondet_size_t(); \
		g_msg_freed = nondet_size_t(); g_msg_freed_at_j = nondet_ptr(); __CPROVER_assume(g_msg_freed < ((size_t) 1 << 40)); \
		VP_HAVOC_PROTO(); VP_HAVOC_SYNC();    \
		/* "last seen" pointer records start as NULL (only ever compared); queue heads are made real by \
		 * VP_AIOQS_PRE; an unknown tail is NULL (see VP_AIOQ_OK) */ \
		g_pipe_close_last = NULL; g_pipe_recv_pipe = NULL; g_pipe_recv_aio = NULL; g_pipe_send_pipe = NULL; \
		g_pipe_send_aio = NULL; g_pipe_send_msg = NULL; g_fin_last = NULL; g_fin_last_msg = NULL; g_start_last = NULL; \
		g_qa.head = NULL; g_qa.tail = NULL; g_qb.head = NULL; g_qb.tail = NULL; g_last_app = NULL; \
		g_qa_addr = NULL; g_qb_addr = NULL; g_pollr_addr = NULL; g_pollw_addr = NULL; \
	} while (0)
/* typed allocation of an object that always exists, contents nondeterministic */
#define VP_NEW(T) ((T *) __CPROVER_allocate(sizeof(T), 0))
static nni_msg *vp_mk_msg(void)
{
	nni_msg *m = VP_NEW(struct nng_msg);
	/* body: no buffer, or a heap buffer of exactly ch_cap bytes (what nni_chunk_free releases) */
	m->m_body.ch_buf = NULL;
	if (m->m_body.ch_cap != 0) {
		__CPROVER_assume(m->m_body.ch_cap <= ((size_t) 1 << 32));
		m->m_body.ch_buf = __CPROVER_allocate(m->m_body.ch_cap, 0);
	}
	return (m);
}
/* the send buffer: the inline two-slot ring of nni_lmq_init, or a heap ring of PUSH_QSLOTS slots;
 * slot contents: arbitrary pointers (never dereferenced), or real messages for the resize unit */
static void vp_mk_wq(nni_lmq *q)
{
	if (nondet_bool()) {
		q->lmq_alloc = 0;
		q->lmq_msgs  = &q->lmq_buf[0];
	} else {
		q->lmq_alloc = PUSH_QSLOTS;
		q->lmq_msgs  = (nng_msg **) __CPROVER_allocate(PUSH_QSLOTS * sizeof(nng_msg *), 0);
	}
#ifdef PUSH_SLOT_MSGS
	q->lmq_msgs[0] = vp_mk_msg(); q->lmq_msgs[1] = vp_mk_msg();
	if (q->lmq_alloc != 0) {
		q->lmq_msgs[2] = vp_mk_msg(); q->lmq_msgs[3] = vp_mk_msg();
	}
#endif
}
static push0_pipe *vp_mk_pipe(bool on)
{
	push0_pipe *p   = VP_NEW(push0_pipe);
	p->push         = g_s;
	p->pipe         = (nni_pipe *) VP_NEW(uint32_t); /* transport pipe handle: opaque, one distinct object per pipe */
	p->node.ln_next = NULL;
	p->node.ln_prev = NULL;
	if (on) {
		real_list_append(&g_s->pl, p);
	}
	return (p);
}
static void vp_mk_push(size_t np)
{
	__CPROVER_assume(np <= 3);
	g_np = np;
	g_s  = VP_NEW(push0_sock);
	real_list_init_offset(&g_s->pl, offsetof(push0_pipe, node));
	g_s->aq.ll_offset = VP_AIO_OFF; /* nni_aio_list_init */
	vp_mk_wq(&g_s->wq);
	g_pp0 = vp_mk_pipe(np > 0);
	g_pp1 = vp_mk_pipe(np > 1);
	g_pp2 = vp_mk_pipe(np > 2);
	g_px  = vp_mk_pipe(false);
	g_qa_addr    = &g_s->aq;
	g_pollw_addr = &g_s->writable;
}
void h_push0_sock_send(void) { nni_aio *aio; VP_HAVOC_GHOSTS(); vp_mk_push(nondet_size_t()); push0_sock_send(g_s, aio); VP_CANARY(); }
void h_push0_pipe_ready(void) { VP_HAVOC_GHOSTS(); vp_mk_push(nondet_size_t()); push0_pipe_ready(g_px); VP_CANARY(); }
void h_push0_send_cb(void) { VP_HAVOC_GHOSTS(); vp_mk_push(nondet_size_t()); push0_send_cb(g_px); VP_CANARY(); }
void h_push0_pipe_start(void) { VP_HAVOC_GHOSTS(); vp_mk_push(nondet_size_t()); (void) push0_pipe_start(g_px); VP_CANARY(); }
void h_push0_recv_cb(void) { VP_HAVOC_GHOSTS(); vp_mk_push(nondet_size_t()); push0_recv_cb(g_px); VP_CANARY(); }
void h_push0_pipe_close(void)
{
	VP_HAVOC_GHOSTS(); vp_mk_push(nondet_size_t());
	push0_pipe_close(g_ci == 0 ? g_pp0 : (g_ci == 1 ? g_pp1 : (g_ci == 2 ? g_pp2 : g_px)));
	VP_CANARY();
}
void h_push0_cancel(void)
{
	nng_err rv;
	VP_HAVOC_GHOSTS(); vp_mk_push(nondet_size_t());
	/* the wait list: members are real aio objects built here; the cancelled aio is the first waiter,
	 * the last appended one, or not on the list */
	g_ca      = VP_NEW(nni_aio);
	g_qa.head = nondet_bool() ? g_ca : VP_NEW(nni_aio);
	g_qa.tail = nondet_bool() ? NULL : (nondet_bool() ? g_ca : (nondet_bool() ? g_qa.head : VP_NEW(nni_aio)));
	g_last_app = nondet_bool() ? g_qa.tail : NULL;
	if (g_qa.n == 0) { g_qa.head = NULL; g_qa.tail = NULL; }
	push0_cancel(g_ca, g_s, rv);
	VP_CANARY();
}
void h_push0_sock_close(void) { VP_HAVOC_GHOSTS(); vp_mk_push(nondet_size_t()); push0_sock_close(g_s); VP_CANARY(); }
void h_push0_sock_recv(void) { nni_aio *aio; VP_HAVOC_GHOSTS(); vp_mk_push(nondet_size_t()); push0_sock_recv(g_s, aio); VP_CANARY(); }
void h_push0_set_send_buf_len(void) { const void *buf; size_t sz; nni_type t; VP_HAVOC_GHOSTS(); vp_mk_push(nondet_size_t()); (void) push0_set_send_buf_len(g_s, buf, sz, t); VP_CANARY(); }
void h_lmq_resize(void) { nni_lmq *lmq; size_t cap; VP_HAVOC_GHOSTS(); (void) nni_lmq_resize(lmq, cap); VP_CANARY(); }
/* keeps the body-less second contract's symbol in the binary (never called) */
void vp_push_refs(void) { (void) vp_push_lmq_resize(NULL, 0); }
void h_push0_sock_init(void) { void *arg; nni_sock *sock; VP_HAVOC_GHOSTS(); push0_sock_init(arg, sock); VP_CANARY(); }
