/* modules/push/env.h -- ghost names of the harness-built skeleton + the option copy-in stub
 * (ASSUMED environment, ghost accounting only). */
#ifndef VP_PUSH_ENV_H
#define VP_PUSH_ENV_H
push0_sock *g_s;                  /* the socket */
size_t      g_np;                 /* PRE-state number of pipes on the ready list s->pl: 0..3 */
push0_pipe *g_pp0, *g_pp1, *g_pp2; /* those pipes, in list order (objects exist even when not listed) */
push0_pipe *g_px;                 /* a pipe of the socket that is NOT on the ready list (busy / starting) */
size_t      g_ci;                 /* push0_pipe_close: which pipe closes (0..2 = g_pp<i>, 3 = g_px) */
int         g_which;              /* push0_cancel: 0 = aio is the first waiter, 1 = the last appended one, 2 = not queued */
bool        g_wpoll0, g_stable0;  /* ghost equations: PRE-state values of PUSH_WPOLL_INV / PUSH_STABLE */
size_t      g_held0;              /* ghost equation: PRE-state value of PUSH_HELD */
size_t      g_ready_calls;        /* calls of push0_pipe_ready where it is replaced by its counting contract */
push0_pipe *g_ready_last;
nni_aio    *g_ca;                 /* push0_cancel: the aio being cancelled (harness-built) */
/* blocked senders: ASSUMED environment invariant - every aio on the wait list s->aq carries the message it wants
 * to send (nni_sock_send rejects an aio without one).  env_proto.h materialises an unknown next member of a ghost
 * queue as a new aio object with unconstrained content; this wrapper gives such a member a message object. */
void nni_aio_list_remove(nni_aio *aio)
{
	nni_aio *h0 = g_qa.head, *t0 = g_qa.tail;
	vp_proto_aio_list_remove(aio);
	if (g_qa.n > 0 && g_qa.head != h0 && g_qa.head != t0) {
		g_qa.head->a_msg = malloc(sizeof(struct nng_msg));
		__CPROVER_assume(g_qa.head->a_msg != NULL);
	}
}
#endif
