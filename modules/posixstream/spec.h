/* Spec macros for the POSIX stream connections (posix_tcpconn.c, posix_ipcconn.c, posix_sockfd.c).
 *
 * Stream contract (docs/ref/api/stream.md, "Sending and Receiving Data"): an operation completes as
 * soon as at least one byte has been transferred or an error occurred; the count reported is the
 * number of bytes the kernel transferred; bytes come from / go to the caller's vector in order.
 *
 * What must be offered to the kernel for an aio `a` (entries 0..a_nio-1 of a_iov): its non-empty
 * entries, in order, same buffer position, same length -- except that the cumulative length is cut
 * at INT_MAX, because the result of the call is received in an int (a byte PREFIX of the described
 * sequence is offered; the count reported is then < requested and the caller resubmits the rest). */
#ifndef VP_POSIXSTREAM_SPEC_H
#define VP_POSIXSTREAM_SPEC_H
#include <limits.h>
#include "modules/aioiov/spec.h"

#define VIOV_LENMAX (SIZE_MAX >> 3) /* buffers fit the address space: 8 lengths never wrap size_t */

/* well-formed aio: the entry count respects the array (nni_aio_set_iov, unit aioiov/aio_set_iov) */
#define VP_WF_E(a, j) ((j) >= (a)->a_nio || (a)->a_iov[j].iov_len <= VIOV_LENMAX)
/* VP_NIO_CAP: bounded units restrict the vectors of the aios at the head of a queue to at most
 * that many entries (any of them may be empty); default = the whole array */
#ifndef VP_NIO_CAP
#define VP_NIO_CAP NNI_AIO_MAX_IOV
#endif
#define VP_AIO_WF(a)                                                                        \
	((a)->a_nio <= VP_NIO_CAP && VP_WF_E(a, 0) && VP_WF_E(a, 1) && VP_WF_E(a, 2) &&    \
	    VP_WF_E(a, 3) && VP_WF_E(a, 4) && VP_WF_E(a, 5) && VP_WF_E(a, 6) && VP_WF_E(a, 7))

/* ---- loop invariants (woven) --------------------------------------------- */
#define LE(e) __CPROVER_loop_entry(e)
#define VP_D(e) ((e) - LE(e)) /* growth of a counter since loop entry */
/* ghost written by the transfer loops */
/* what a removal of the head rewrites in the stand-in aio */
#define VP_LATER_T(a) (a)->a_count
#define VP_XFER_GHOSTS g_sys
#define VP_Q_TARGETS(q) (q).s, (q).first->a_count, VP_LATER_T((q).later)
/* the last completion belongs to the last call that returned n >= 0: same aio; n > 0: success with
 * the bytes transferred added to its count; n == 0: a write reports 0 more bytes, a read reports
 * that the peer shut the connection down */
#define VP_FIN_IS_OK_CALL                                                                     \
	(g_fin_last == g_sys.ok_head && g_fin_last == g_pop_last &&                               \
	    ((g_sys.ok_ret > 0 || g_sys.ok_kind == VP_SYS_WRITE)                                  \
	            ? (g_fin_last_rv == 0 && g_fin_last_count == g_sys.ok_count0 + (size_t) g_sys.ok_ret) \
	            : (g_fin_last_rv == (int) NNG_ECONNSHUT && g_fin_last_count == 0)))
/* g_sys is one assigns target: the fields these loops never write keep their values */
#define VP_SYS_REST_SAME (VP_D(g_start_calls) == 0 && VP_D(g_arm_calls) == 0 && VP_D(g_pfd_close_calls) == 0 && VP_D(g_pfd_stop_calls) == 0 && VP_D(g_dialcb_calls) == 0 && \
	g_start_aio == LE(g_start_aio) && g_start_fn == LE(g_start_fn) && g_start_arg == LE(g_start_arg) && g_arm_events == LE(g_arm_events) && g_arm_pfd == LE(g_arm_pfd))
/* direction of the transfer loop that serves queue q */
#define VP_KIND_OF(q) (&(q) == &g_wq ? VP_SYS_WRITE : VP_SYS_READ)
#define VP_XFER_INV(q)                                                                        \
	(VP_SYS_REST_SAME && (q).s.n <= LE((q).s.n) && VP_D(g_pops) == LE((q).s.n) - (q).s.n && VP_D(g_fin_calls) == VP_D(g_pops) && \
	    VP_D(g_sys.n_ok) == VP_D(g_pops) && VP_D(g_sys.n_again) == 0 && VP_D(g_sys.n_err) == 0 && \
	    VP_D(g_sys.calls) == VP_D(g_sys.n_ok) + VP_D(g_sys.n_intr) &&                            \
	    (VP_D(g_pops) == 0 ? ((q).s.orig == LE((q).s.orig)) : !(q).s.orig) &&                        \
	    (VP_D(g_fin_calls) > 0 ==> (VP_FIN_IS_OK_CALL && g_sys.ok_kind == VP_KIND_OF(q))) &&   \
	    ((VP_D(g_pops) == 1 && LE((q).s.orig) && LE((q).s.n) > 0) ==> (g_pop_last == (q).first && g_sys.ok_head == (q).first && g_sys.ok_count0 == vp_c0)) &&  \
	    ((q).s.n == 0 || ((q).s.orig ? (VP_AIO_WF((q).first) && (q).first->a_count == vp_c0) : VP_AIO_WF((q).later))))
/* error / close loops: every removal is followed by the completion of that aio with the code */
#define VP_DRAIN_INV(code)                                                                    \
	(VP_SYS_REST_SAME && g_rq.s.n <= LE(g_rq.s.n) && g_wq.s.n <= LE(g_wq.s.n) &&                                  \
	    VP_D(g_pops) == (LE(g_rq.s.n) - g_rq.s.n) + (LE(g_wq.s.n) - g_wq.s.n) &&               \
	    VP_D(g_fin_calls) == VP_D(g_pops) && VP_D(g_sys.calls) == 0 &&                         \
	    (VP_D(g_pops) > 0 ==> (g_fin_last == g_pop_last && g_fin_last_rv == (int) (code) && g_fin_last_count == 0)))
#define VP_DRAIN_ASSIGNS aio, g_sys, g_rq.s, g_wq.s, VP_LATER_T(g_rq.later), VP_LATER_T(g_wq.later)
/* function-entry snapshot (woven ghost statement): byte count of the head aio */
#define VP_PSNAP_BEGIN                                                                          \
	_Pragma("CPROVER check push") _Pragma("CPROVER check disable \"pointer\"")               \
	_Pragma("CPROVER check disable \"pointer-primitive\"")
#define VP_PSNAP_END _Pragma("CPROVER check pop")
#define VP_SNAP_HEAD(q) VP_PSNAP_BEGIN size_t vp_c0 = g_q_objects ? (q).first->a_count : 0; VP_PSNAP_END
#endif
