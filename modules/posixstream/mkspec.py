#!/usr/bin/env python3
"""Generates modules/posixstream/spec.json (the three source files get the same weave and the
same unit list, instantiated by prefix).  Usage: python3 modules/posixstream/mkspec.py"""
import json, os

HERE = os.path.dirname(os.path.abspath(__file__))
S = {"tcp": ("src/platform/posix/posix_tcpconn.c", "TCP"),
     "ipc": ("src/platform/posix/posix_ipcconn.c", "IPC"),
     "sfd": ("src/platform/posix/posix_sockfd.c", "SFD")}
CAPS = [2, 3]          # registered bounds on the entries in use of a head aio's vector
XFER_TIMEOUT = 900


def xfer_loop(q):
    return [{"assigns": "aio, VP_XFER_GHOSTS, VP_Q_TARGETS(%s)" % q, "invariants": ["VP_XFER_INV(%s)" % q]}, None]


def drain(code):
    return [{"assigns": "VP_DRAIN_ASSIGNS", "invariants": ["VP_DRAIN_INV(%s)" % code],
             "decreases": "g_rq.s.n + g_wq.s.n"}]


def src(path, pfx):
    return {"path": path, "weave": {
        "loops": {pfx + "_dowrite": xfer_loop("g_wq"), pfx + "_doread": xfer_loop("g_rq"),
                  pfx + "_error": drain("err"), pfx + "_close": drain("NNG_ECLOSED")},
        "entry": {pfx + "_dowrite": "VP_SNAP_HEAD(g_wq);", pfx + "_doread": "VP_SNAP_HEAD(g_rq);"}}}


def units(pfx, M, which, caps):
    d = ["VP_M_%s 1" % M]
    out = []

    def u(name, fn, props, grade="P", replace=None, unwindset=None, defines=None, **kw):
        x = {"name": pfx + "_" + name, "entry": "h_%s_%s" % (pfx, fn), "enforce": pfx + "_" + fn,
             "defines": d + (defines or []), "grade": grade, "props": props, "timeout": 120}
        if replace:
            x["replace"] = [pfx + "_" + r for r in replace]
        if unwindset:
            x["unwindset"] = unwindset
        x.update(kw)
        out.append(x)

    if "xfer" in which:
        for cap in caps:
            for fn in ("dowrite", "doread"):
                u("%s_n%d" % (fn, cap), fn, ["C01", "C02", "C03", "C11"], grade="B",
                  defines=["VP_NIO_CAP %d" % cap],
                  unwindset=["%s_%s.0:%d" % (pfx, fn, cap + 1), "vp_syscall.0:%d" % (cap + 1), "vp_syscall.1:%d" % (cap + 1)],
                  bound="the aio at the head of the queue (the one found on entry and every later one) has a vector of at most %d entries in use of the NNI_AIO_MAX_IOV = 8 possible; any of them may be empty, in any position; all lengths, all buffer positions, any number of queued aios, any number of loop iterations (loop closed by the woven invariant); the inner loop that builds the iovec array is unwound to %d with an unwinding assertion" % (cap, cap + 1),
                  timeout=XFER_TIMEOUT, cbmc_flags=["--slice-formula"])
    if "xfer_full" in which:
        for fn in ("dowrite", "doread"):
            u(fn, fn, ["C01", "C02", "C03", "C11"], grade="P",
              unwindset=["%s_%s.0:9" % (pfx, fn), "vp_syscall.0:9", "vp_syscall.1:9"],
              timeout=XFER_TIMEOUT, cbmc_flags=["--slice-formula"])
    if "drain" in which:
        u("error", "error", ["C02", "C11"])
        u("close", "close", ["C02"])
        u("cancel", "cancel", ["C02"])
    if "submit" in which:
        u("send", "send", ["C01", "C02"], replace=["dowrite"], unwindset=["nni_aio_reset.0:5"], timeout=600, cbmc_flags=["--slice-formula"])
        u("recv", "recv", ["C01", "C02", "C11"], replace=["doread"], unwindset=["nni_aio_reset.0:5"], timeout=600, cbmc_flags=["--slice-formula"])
    if "cb" in which:
        u("cb", "cb", ["C02", "C11"], replace=["doread", "dowrite", "error"], timeout=600, cbmc_flags=["--slice-formula"])
    return out


def main():
    cfg = json.load(open(os.path.join(HERE, "mkspec.cfg.json")))
    mods = ["tcp", "ipc", "sfd"]
    sp = {"module": "posixstream",
          "about": "src/platform/posix/posix_tcpconn.c, posix_ipcconn.c, posix_sockfd.c: the byte-stream layer under the SP transports (partial reads/writes, completion, cancel, close); the real src/core/aio.c is compiled in for the aio accessors",
          "sources": [src(S[m][0], m) for m in mods],
          "includes_before": ["modules/posixstream/spec.h", "modules/posixstream/ghost.h"],
          "includes_after": ["include/env_sync.h", "modules/posixstream/env.h", "modules/posixstream/contracts.h", "modules/posixstream/harness.c"],
          "stubs": cfg["stubs"],
          "units": sum([units(m, S[m][1], cfg["register"].get(m, []), cfg.get("caps", {}).get(m, CAPS)) for m in mods], []),
          "not_decided": cfg["not_decided"],
          "notes": cfg.get("notes", [])}
    json.dump(sp, open(os.path.join(HERE, "spec.json"), "w"), indent=1)
    print([x["name"] for x in sp["units"]])


main()
