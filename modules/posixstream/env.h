/* Environment of the POSIX stream connections (ASSUMED models; ghost state in ghost.h).
 *
 *  - the transfer system calls (sendmsg / writev / readv): every call returns an ARBITRARY
 *    result -- any n in [0, bytes offered], or -1 with an arbitrary errno (EINTR, EAGAIN /
 *    EWOULDBLOCK and every other positive value) -- and records what was offered to the
 *    kernel (base + length per entry, in order), for which descriptor, and which aio was at
 *    the head of the queue of that direction at that moment.  Each call also CHECKS (named
 *    obligations "syscall: ...") that what is offered is exactly the vector of that head aio;
 *  - the two aio wait queues: count + head (see ghost.h);
 *  - completions, nni_aio_start, the poller (nni_posix_pfd_*): recorded. */
#ifndef VP_POSIXSTREAM_ENV_H
#define VP_POSIXSTREAM_ENV_H

void
nni_panic(const char *fmt, ...)
{
	(void) fmt;
	__CPROVER_assert(0, "nni_panic reached (library aborts the process)");
	__CPROVER_assume(0);
}

int *
__errno_location(void)
{
	return (&g_errno);
}

int
nni_plat_errno(int errnum)
{
	g_plat_calls++;
	__CPROVER_assert(errnum > 0, "nni_plat_errno: called with the errno of a failed call");
	return (VP_PLAT(errnum));
}

/* ---- queues ------------------------------------------------------------ */
static vp_q *
vp_q_of(const nni_list *l)
{
	__CPROVER_assert(l == g_rq_addr || l == g_wq_addr, "list: readq or writeq of the connection under test");
	return (l == g_rq_addr ? &g_rq : &g_wq);
}
/* the head leaves: whoever is behind it (if anyone) is the stand-in aio `later`: an arbitrary
 * well-formed vector (fixed by the precondition, the same for every later head -- each loop
 * iteration is verified for every such vector) whose byte count is arbitrary at every
 * loop head (it is a target of the loop's assigns clause) */
static void
vp_q_pop(vp_q *q, nni_aio *aio)
{
	q->s.n--;
	q->s.orig = false;
	g_pops++;
	g_pop_last = aio;
}
void *
nni_list_first(const nni_list *l)
{
	vp_q *q = vp_q_of(l);
	return (VP_QHEAD(*q));
}
int
nni_list_empty(nni_list *l)
{
	return (vp_q_of(l)->s.n == 0);
}
void
nni_aio_list_append(nni_list *l, nni_aio *aio)
{
	vp_q *q = vp_q_of(l);
	__CPROVER_assert(aio != NULL, "aio_list_append: aio is not NULL");
	__CPROVER_assert(!(g_rq.s.n > 0 && VP_QHEAD(g_rq) == aio) && !(g_wq.s.n > 0 && VP_QHEAD(g_wq) == aio) && !(g_cx_member && g_cx_aio == aio),
	    "aio_list_append: the aio is not on a queue already");
	if (q->s.n == 0) {
		q->first  = aio;
		q->s.orig = true;
	}
	q->s.n++;
}
int
nni_aio_list_active(nni_aio *aio)
{
	return ((g_rq.s.n > 0 && VP_QHEAD(g_rq) == aio) || (g_wq.s.n > 0 && VP_QHEAD(g_wq) == aio) || (g_cx_member && g_cx_aio == aio));
}
void
nni_aio_list_remove(nni_aio *aio)
{
	__CPROVER_assert(aio != NULL, "aio_list_remove: aio is not NULL");
	if (g_rq.s.n > 0 && VP_QHEAD(g_rq) == aio) {
		vp_q_pop(&g_rq, aio);
	} else if (g_wq.s.n > 0 && VP_QHEAD(g_wq) == aio) {
		vp_q_pop(&g_wq, aio);
	} else if (g_cx_member && g_cx_aio == aio) {
		/* cancel: a member behind the head leaves; the head stays */
		(g_cx_wq ? &g_wq : &g_rq)->s.n--;
		g_cx_member = false;
		g_pops++;
		g_pop_last = aio;
	}
	/* an aio that is on no list: no effect (nni_list_node_remove) */
}

/* ---- completions ------------------------------------------------------- */
static void
vp_fin(nni_aio *aio, nng_err rv, size_t count)
{
	__CPROVER_assert(aio != NULL, "completion of a NULL aio");
	g_fin_calls++;
	g_fin_last       = aio;
	g_fin_last_rv    = (int) rv;
	g_fin_last_count = count;
}
void nni_aio_finish(nni_aio *aio, nng_err rv, size_t count) { vp_fin(aio, rv, count); }
void nni_aio_finish_sync(nni_aio *aio, nng_err rv, size_t count) { vp_fin(aio, rv, count); }
void nni_aio_finish_error(nni_aio *aio, nng_err rv) { vp_fin(aio, rv, 0); }

bool
nni_aio_start(nni_aio *aio, nni_aio_cancel_fn fn, void *arg)
{
	g_start_calls++;
	g_start_aio = aio;
	g_start_fn  = (void *) fn;
	g_start_arg = arg;
	return (g_start_ok);
}

/* ---- poller -------------------------------------------------------------- */
int nni_posix_pfd_fd(nni_posix_pfd *pfd) { (void) pfd; return (g_pfd_fd); }
int
nni_posix_pfd_arm(nni_posix_pfd *pfd, unsigned events)
{
	g_arm_calls++;
	g_arm_pfd    = pfd;
	g_arm_events = events;
	return (nondet_int());
}
void nni_posix_pfd_close(nni_posix_pfd *pfd) { (void) pfd; g_pfd_close_calls++; }
void nni_posix_pfd_stop(nni_posix_pfd *pfd) { (void) pfd; g_pfd_stop_calls++; }
void nni_posix_tcp_dial_cb(void *arg, unsigned events) { (void) arg; (void) events; g_dialcb_calls++; }
void nni_posix_ipc_dialer_cb(void *arg, unsigned events) { (void) arg; (void) events; g_dialcb_calls++; }

/* ---- transfer system calls -------------------------------------------- */
static ssize_t
vp_syscall(int kind, int fd, int flags, const struct iovec *v, size_t nv)
{
	vp_q    *q    = (kind == VP_SYS_WRITE) ? &g_wq : &g_rq;
	nni_aio *head = VP_QHEAD(*q);
	size_t   total = 0;

	g_sys.calls++;
	g_sys.kind  = kind;
	g_sys.fd    = fd;
	g_sys.flags = flags;
	g_sys.niov  = nv;
	g_sys.head  = head;
	__CPROVER_assert(head != NULL, "syscall: only while an aio is waiting in that direction");
	__CPROVER_assert(nv <= NNI_AIO_MAX_IOV, "syscall: at most NNI_AIO_MAX_IOV entries offered");
	for (unsigned i = 0; i < VP_NIO_CAP; i++) {
		if (i < nv && nv <= NNI_AIO_MAX_IOV) {
			g_sys.v[i] = v[i];
			total += v[i].iov_len;
		}
	}
	g_sys.total = total;
	__CPROVER_assert(fd == g_pfd_fd, "syscall: on the descriptor of this connection");
	/* reference: the non-empty entries of the head aio, in order, cut at INT_MAX bytes in all */
	{
		size_t   cum  = 0;
		unsigned rank = 0;
		bool     same = true;
		__CPROVER_assert(head->a_nio <= VP_NIO_CAP, "syscall: head aio vector within the bound of this unit");
		for (unsigned j = 0; j < VP_NIO_CAP; j++) {
			if (j < head->a_nio && head->a_iov[j].iov_len > 0 && cum <= (size_t) INT_MAX) {
				size_t want = VP_MIN(head->a_iov[j].iov_len, (size_t) INT_MAX - cum);
				same = same && rank < nv && g_sys.v[rank & 7u].iov_base == head->a_iov[j].iov_buf && g_sys.v[rank & 7u].iov_len == want;
				rank++;
			}
			if (j < head->a_nio) {
				cum += head->a_iov[j].iov_len;
			}
		}
		__CPROVER_assert(nv == rank, "syscall: number of entries offered == non-empty entries of the head aio (up to the INT_MAX cut)");
		__CPROVER_assert(same, "syscall: entries offered are the non-empty entries of the head aio, same position and length, in order");
	}
	__CPROVER_assert(total <= (size_t) INT_MAX, "syscall: bytes offered fit the int that receives the result");

	ssize_t r = nondet_ssize_t();
	if (r >= 0 && (size_t) r <= total) {
		g_sys.n_ok++;
		if (r == 0) {
			g_sys.n_zero++;
		}
		g_sys.ret       = r;
		g_sys.ok_head   = head;
		g_sys.ok_count0 = head->a_count;
		g_sys.ok_ret    = r;
		g_sys.ok_kind   = kind;
		return (r);
	}
	int e = nondet_int();
	if (e <= 0 || e > 4095) { /* errno values are small positive numbers */
		e = ECONNRESET;
	}
	if (e == EINTR) {
		g_sys.n_intr++;
	} else if (e == EAGAIN || e == EWOULDBLOCK) {
		g_sys.n_again++;
	} else {
		g_sys.n_err++;
	}
	g_sys.ret = -1;
	g_sys.err = e;
	g_errno   = e;
	return (-1);
}
ssize_t sendmsg(int fd, const struct msghdr *hdr, int flags)
{
	__CPROVER_assert(flags == MSG_NOSIGNAL, "sendmsg: MSG_NOSIGNAL (a closed peer must not raise SIGPIPE)");
	__CPROVER_assert(hdr->msg_name == NULL && hdr->msg_control == NULL && hdr->msg_controllen == 0, "sendmsg: plain stream data");
	return (vp_syscall(VP_SYS_WRITE, fd, flags, hdr->msg_iov, hdr->msg_iovlen));
}
ssize_t writev(int fd, const struct iovec *v, int nv) { __CPROVER_assert(nv >= 0, "writev: count"); return (vp_syscall(VP_SYS_WRITE, fd, 0, v, (size_t) nv)); }
ssize_t readv(int fd, const struct iovec *v, int nv) { __CPROVER_assert(nv >= 0, "readv: count"); return (vp_syscall(VP_SYS_READ, fd, 0, v, (size_t) nv)); }
#endif
