#define VP_SZ(v) do { v = nondet_size_t(); __CPROVER_assume(v < ((size_t) 1 << 40)); } while (0)
ssize_t nondet_ssize_t(void);
#define VP_HAVOC_Q(q) do { VP_SZ((q).s.n); (q).s.orig = nondet_bool(); (q).first = nondet_ptr(); (q).later = nondet_ptr(); } while (0)
#define VP_HAVOC_GHOSTS()                                                                     \
	do {                                                                                      \
		g_k = nondet_size_t(); g_j = nondet_size_t(); g_n = nondet_size_t();                  \
		VP_HAVOC_Q(g_rq); VP_HAVOC_Q(g_wq); g_rq_addr = nondet_ptr(); g_wq_addr = nondet_ptr(); \
		g_q_objects = nondet_bool();                \
		g_cx_member = nondet_bool(); g_cx_wq = nondet_bool(); g_cx_aio = nondet_ptr();        \
		g_start_ok = nondet_bool();                                                            \
		vp_sys s0; g_sys = s0;                                                                \
		VP_SZ(g_sys.calls); VP_SZ(g_sys.n_ok); VP_SZ(g_sys.n_zero); VP_SZ(g_sys.n_intr); VP_SZ(g_sys.n_again); VP_SZ(g_sys.n_err); VP_SZ(g_pops); VP_SZ(g_fin_calls); VP_SZ(g_plat_calls); VP_SZ(g_start_calls); \
		g_pfd_fd = nondet_int(); VP_SZ(g_arm_calls); VP_SZ(g_pfd_close_calls); VP_SZ(g_pfd_stop_calls); VP_SZ(g_dialcb_calls); \
		VP_HAVOC_SYNC();                                                                      \
	} while (0)

#ifdef VP_M_TCP
void h_tcp_dowrite(void) { nni_tcp_conn *c; VP_HAVOC_GHOSTS(); tcp_dowrite(c); VP_CANARY(); }
void h_tcp_doread(void)  { nni_tcp_conn *c; VP_HAVOC_GHOSTS(); tcp_doread(c); VP_CANARY(); }
void h_tcp_error(void)   { void *c; int err; VP_HAVOC_GHOSTS(); tcp_error(c, err); VP_CANARY(); }
void h_tcp_close(void)   { void *c; VP_HAVOC_GHOSTS(); tcp_close(c); VP_CANARY(); }
void h_tcp_cancel(void)  { void *c; nni_aio *a; nng_err rv; VP_HAVOC_GHOSTS(); tcp_cancel(a, c, rv); VP_CANARY(); }
void h_tcp_send(void)    { void *c; nni_aio *a; VP_HAVOC_GHOSTS(); tcp_send(c, a); VP_CANARY(); }
void h_tcp_recv(void)    { void *c; nni_aio *a; VP_HAVOC_GHOSTS(); tcp_recv(c, a); VP_CANARY(); }
void h_tcp_cb(void)      { void *c; unsigned ev; VP_HAVOC_GHOSTS(); tcp_cb(c, ev); VP_CANARY(); }
#endif
#ifdef VP_M_IPC
void h_ipc_dowrite(void) { ipc_conn *c; VP_HAVOC_GHOSTS(); ipc_dowrite(c); VP_CANARY(); }
void h_ipc_doread(void)  { ipc_conn *c; VP_HAVOC_GHOSTS(); ipc_doread(c); VP_CANARY(); }
void h_ipc_error(void)   { void *c; int err; VP_HAVOC_GHOSTS(); ipc_error(c, err); VP_CANARY(); }
void h_ipc_close(void)   { void *c; VP_HAVOC_GHOSTS(); ipc_close(c); VP_CANARY(); }
void h_ipc_cancel(void)  { void *c; nni_aio *a; nng_err rv; VP_HAVOC_GHOSTS(); ipc_cancel(a, c, rv); VP_CANARY(); }
void h_ipc_send(void)    { void *c; nni_aio *a; VP_HAVOC_GHOSTS(); ipc_send(c, a); VP_CANARY(); }
void h_ipc_recv(void)    { void *c; nni_aio *a; VP_HAVOC_GHOSTS(); ipc_recv(c, a); VP_CANARY(); }
void h_ipc_cb(void)      { void *c; unsigned ev; VP_HAVOC_GHOSTS(); ipc_cb(c, ev); VP_CANARY(); }
#endif
#ifdef VP_M_SFD
void h_sfd_dowrite(void) { nni_sfd_conn *c; VP_HAVOC_GHOSTS(); sfd_dowrite(c); VP_CANARY(); }
void h_sfd_doread(void)  { nni_sfd_conn *c; VP_HAVOC_GHOSTS(); sfd_doread(c); VP_CANARY(); }
void h_sfd_error(void)   { void *c; int err; VP_HAVOC_GHOSTS(); sfd_error(c, err); VP_CANARY(); }
void h_sfd_close(void)   { void *c; VP_HAVOC_GHOSTS(); sfd_close(c); VP_CANARY(); }
void h_sfd_cancel(void)  { void *c; nni_aio *a; nng_err rv; VP_HAVOC_GHOSTS(); sfd_cancel(a, c, rv); VP_CANARY(); }
void h_sfd_send(void)    { void *c; nni_aio *a; VP_HAVOC_GHOSTS(); sfd_send(c, a); VP_CANARY(); }
void h_sfd_recv(void)    { void *c; nni_aio *a; VP_HAVOC_GHOSTS(); sfd_recv(c, a); VP_CANARY(); }
void h_sfd_cb(void)      { void *c; unsigned ev; VP_HAVOC_GHOSTS(); sfd_cb(c, ev); VP_CANARY(); }
#endif
