/* Contracts for the POSIX stream connections.  The same contract text (macros below) is
 * instantiated for posix_tcpconn.c (tcp_*), posix_ipcconn.c (ipc_*) and posix_sockfd.c (sfd_*).
 * Postconditions come from C01 / C02 / C11 and the stream contract (docs/ref/api/stream.md);
 * frames ("nothing else changes") are the assigns clauses. */
#ifndef VP_POSIXSTREAM_CONTRACTS_H
#define VP_POSIXSTREAM_CONTRACTS_H
/* clang-format off */
#define RV __CPROVER_return_value
#define OLD(e) __CPROVER_old(e)
#define DLT(e) ((e) - OLD(e)) /* growth of a ghost counter during the call */

/* a queue with members has a head (an aio, not NULL) */
#define VP_ENV_PRE(c) (g_rq_addr == &(c)->readq && g_wq_addr == &(c)->writeq && g_rq.first != NULL && g_wq.first != NULL)
/* queue heads are real aio objects with well-formed vectors */
#define VP_Q_OBJ_PRE(q) (__CPROVER_is_fresh((q).first, sizeof(nni_aio)) && __CPROVER_is_fresh((q).later, sizeof(nni_aio)) && VP_AIO_WF((q).first) && VP_AIO_WF((q).later))
#define VP_NO_SYSCALL (DLT(g_sys.calls) == 0)
#define VP_NO_FIN (DLT(g_fin_calls) == 0 && DLT(g_pops) == 0)
/* every aio that left a queue was completed, once, and nobody else was */
#define VP_EXACTLY_ONCE (DLT(g_fin_calls) == DLT(g_pops) && (DLT(g_pops) > 0 ==> g_fin_last == g_pop_last))

/* ---- the transfer loops ---------------------------------------------------
 * q: the queue of that direction, ACTIVE(c): the function may touch the descriptor */
#define VP_XFER_CONTRACT(fn, T, q, oq, ACTIVE)                                                         \
static void fn(T *c)                                                                                \
__CPROVER_requires(__CPROVER_is_fresh(c, sizeof(*c)) && VP_ENV_PRE(c) && g_q_objects && !g_cx_member) \
__CPROVER_requires(VP_Q_OBJ_PRE(q) && ((q).s.n > 0 || !(q).s.orig))                                     \
/* an aio waits in at most one queue: whoever heads the other queue is somebody else */             \
__CPROVER_requires((oq).s.n == 0 || (VP_QHEAD(oq) != (q).first && VP_QHEAD(oq) != (q).later))       \
__CPROVER_assigns(ACTIVE(c) && (q).s.n > 0: VP_XFER_GHOSTS, VP_Q_TARGETS(q))                          \
/* the records of nni_aio_start and of the poller (fields of the same ghost object) are not touched */ \
__CPROVER_ensures(DLT(g_start_calls) == 0 && DLT(g_arm_calls) == 0 && DLT(g_pfd_close_calls) == 0 && DLT(g_pfd_stop_calls) == 0 && DLT(g_dialcb_calls) == 0) \
__CPROVER_ensures(g_start_aio == OLD(g_start_aio) && g_start_fn == OLD(g_start_fn) && g_start_arg == OLD(g_start_arg) && g_arm_events == OLD(g_arm_events) && g_arm_pfd == OLD(g_arm_pfd)) \
/* closed connection (or no descriptor): nothing is touched */                                     \
__CPROVER_ensures(!ACTIVE(c) ==> (VP_NO_SYSCALL && VP_NO_FIN && (q).s.n == OLD((q).s.n)))               \
/* C02: whoever left the queue was completed exactly once; nobody was dropped or completed twice */ \
__CPROVER_ensures(VP_EXACTLY_ONCE && DLT(g_pops) == OLD((q).s.n) - (q).s.n && (q).s.n <= OLD((q).s.n))      \
/* every result n >= 0 completes exactly one aio (the head at that call, see invariant), every   \
 * hard error exactly one; EINTR and EAGAIN complete nobody */                                     \
__CPROVER_ensures(DLT(g_pops) == DLT(g_sys.n_ok) + DLT(g_sys.n_err))                                \
__CPROVER_ensures(DLT(g_sys.calls) == DLT(g_sys.n_ok) + DLT(g_sys.n_intr) + DLT(g_sys.n_again) + DLT(g_sys.n_err)) \
/* the loop stops only when nobody waits any more, or on EAGAIN, or on a hard error -- and those \
 * two are then the LAST call (EINTR is retried, n >= 0 goes on to the next aio) */                \
__CPROVER_ensures(DLT(g_sys.n_again) <= 1 && DLT(g_sys.n_err) <= 1 && DLT(g_sys.n_again) + DLT(g_sys.n_err) <= 1 && DLT(g_sys.n_ok) <= OLD((q).s.n)) \
__CPROVER_ensures(ACTIVE(c) ==> ((q).s.n == 0 || DLT(g_sys.n_again) + DLT(g_sys.n_err) == 1))         \
__CPROVER_ensures(DLT(g_sys.n_again) == 1 ==> (g_sys.ret == -1 && (g_sys.err == EAGAIN || g_sys.err == EWOULDBLOCK) && (q).s.n > 0)) \
/* hard error: the head aio at that call, and only it, gets the mapped error, count 0 */           \
__CPROVER_ensures(DLT(g_sys.n_err) == 1 ==> (g_sys.ret == -1 && g_fin_last == g_sys.head && g_fin_last == g_pop_last && g_fin_last_rv == VP_PLAT(g_sys.err) && g_fin_last_count == 0)) \
/* otherwise the last completion belongs to the last call that returned n >= 0 */                  \
__CPROVER_ensures((DLT(g_sys.n_err) == 0 && DLT(g_pops) > 0) ==> (VP_FIN_IS_OK_CALL && g_sys.ok_kind == VP_KIND_OF(q))) \
/* the head that was there on entry: first to be served; while it waits nothing of it changes */   \
__CPROVER_ensures((OLD((q).s.n) > 0 && OLD((q).s.orig)) ==> ((q).s.orig == (DLT(g_pops) == 0)))           \
__CPROVER_ensures((OLD((q).s.n) > 0 && OLD((q).s.orig) && (q).s.orig) ==> (q).first->a_count == OLD((q).first->a_count)) \
__CPROVER_ensures((OLD((q).s.n) > 0 && OLD((q).s.orig) && !(q).s.orig && DLT(g_pops) == 1) ==> g_pop_last == (q).first) \
__CPROVER_ensures((OLD((q).s.n) > 0 && OLD((q).s.orig) && DLT(g_pops) == 1 && DLT(g_sys.n_err) == 0) ==> (g_sys.ok_head == (q).first && g_sys.ok_count0 == OLD((q).first->a_count))) \
;


/* ---- error / close: every queued aio is completed exactly once with that code ------------- */
#define VP_ALL_DONE(code) (g_rq.s.n == 0 && g_wq.s.n == 0 && DLT(g_pops) == OLD(g_rq.s.n) + OLD(g_wq.s.n) && VP_EXACTLY_ONCE && (DLT(g_pops) > 0 ==> (g_fin_last_rv == (int) (code) && g_fin_last_count == 0)))
#define VP_ERROR_CONTRACT(fn, T)                                                                    \
static void fn(void *arg, int err)                                                                  \
__CPROVER_requires(__CPROVER_is_fresh(arg, sizeof(T)) && VP_ENV_PRE((T *) arg) && g_q_objects && !g_cx_member && VP_NO_LOCK_HELD) \
__CPROVER_requires(__CPROVER_is_fresh(g_rq.later, sizeof(nni_aio)) && __CPROVER_is_fresh(g_wq.later, sizeof(nni_aio))) \
__CPROVER_assigns(g_sys, g_rq.s, g_wq.s, VP_SYNC_GHOSTS, VP_LATER_T(g_rq.later), VP_LATER_T(g_wq.later)) \
__CPROVER_ensures(VP_ALL_DONE(err) && VP_NO_SYSCALL && VP_NO_LOCK_HELD && DLT(g_pfd_close_calls) == 1) \
__CPROVER_ensures(DLT(g_start_calls) == 0 && DLT(g_arm_calls) == 0 && DLT(g_dialcb_calls) == 0) \
;
#define VP_CLOSE_CONTRACT(fn, T)                                                                    \
static void fn(void *arg)                                                                           \
__CPROVER_requires(__CPROVER_is_fresh(arg, sizeof(T)) && VP_ENV_PRE((T *) arg) && g_q_objects && !g_cx_member && VP_NO_LOCK_HELD) \
__CPROVER_requires(__CPROVER_is_fresh(g_rq.later, sizeof(nni_aio)) && __CPROVER_is_fresh(g_wq.later, sizeof(nni_aio))) \
__CPROVER_assigns(((T *) arg)->closed, g_sys, g_rq.s, g_wq.s, VP_SYNC_GHOSTS, VP_LATER_T(g_rq.later), VP_LATER_T(g_wq.later)) \
__CPROVER_ensures(((T *) arg)->closed && VP_NO_SYSCALL && VP_NO_LOCK_HELD)                           \
/* first close: everybody waiting is told NNG_ECLOSED, once; the descriptor is shut down */         \
__CPROVER_ensures(!OLD(((T *) arg)->closed) ==> (VP_ALL_DONE(NNG_ECLOSED) && DLT(g_pfd_close_calls) == 1)) \
/* closing again changes nothing */                                                                 \
__CPROVER_ensures(OLD(((T *) arg)->closed) ==> (VP_NO_FIN && g_rq.s.n == OLD(g_rq.s.n) && g_wq.s.n == OLD(g_wq.s.n) && DLT(g_pfd_close_calls) == 0)) \
;

/* ---- cancel (C02): completes the aio with rv exactly once iff it is still queued here ------- */
#define VP_IS_RHEAD(aio) (g_rq.s.n > 0 && VP_QHEAD(g_rq) == (aio))
#define VP_IS_WHEAD(aio) (g_wq.s.n > 0 && VP_QHEAD(g_wq) == (aio))
#define VP_IS_BEHIND(aio) (g_cx_member && g_cx_aio == (aio))
/* the same in the pre-state (first / later / g_cx_aio / g_cx_wq are never written by cancel) */
#define VP_O_RHEAD(aio) (OLD(g_rq.s.n) > 0 && (OLD(g_rq.s.orig) ? g_rq.first : g_rq.later) == (aio))
#define VP_O_WHEAD(aio) (OLD(g_wq.s.n) > 0 && (OLD(g_wq.s.orig) ? g_wq.first : g_wq.later) == (aio))
#define VP_O_BEHIND(aio) (OLD(g_cx_member) && g_cx_aio == (aio))
#define VP_CANCEL_CONTRACT(fn, T)                                                                   \
static void fn(nni_aio *aio, void *arg, nng_err rv)                                                 \
__CPROVER_requires(__CPROVER_is_fresh(arg, sizeof(T)) && VP_ENV_PRE((T *) arg) && !g_q_objects && VP_NO_LOCK_HELD && aio != NULL) \
/* an aio waits in at most one place; a member behind the head implies a head */                    \
__CPROVER_requires(!(VP_IS_RHEAD(aio) && VP_IS_WHEAD(aio)) && (VP_IS_BEHIND(aio) ==> (!VP_IS_RHEAD(aio) && !VP_IS_WHEAD(aio) && (g_cx_wq ? g_wq.s.n : g_rq.s.n) >= 2))) \
__CPROVER_assigns(g_sys, g_rq.s, g_wq.s, g_cx_member, VP_SYNC_GHOSTS)                               \
__CPROVER_ensures(VP_NO_LOCK_HELD && VP_NO_SYSCALL && VP_EXACTLY_ONCE)                               \
/* still queued: removed and completed with rv, once; everybody else stays where he is */           \
__CPROVER_ensures((VP_O_RHEAD(aio) || VP_O_WHEAD(aio) || VP_O_BEHIND(aio)) ==> (DLT(g_fin_calls) == 1 && g_fin_last == aio && g_fin_last_rv == (int) rv && g_fin_last_count == 0 && g_pop_last == aio && !VP_IS_BEHIND(aio))) \
__CPROVER_ensures(g_rq.s.n == OLD(g_rq.s.n) - ((VP_O_RHEAD(aio) || (VP_O_BEHIND(aio) && !g_cx_wq)) ? 1u : 0u)) \
__CPROVER_ensures(g_wq.s.n == OLD(g_wq.s.n) - ((VP_O_WHEAD(aio) || (VP_O_BEHIND(aio) && g_cx_wq)) ? 1u : 0u)) \
/* already completed (on no queue): nothing happens -- the operation keeps the result it has */     \
__CPROVER_ensures(!(VP_O_RHEAD(aio) || VP_O_WHEAD(aio) || VP_O_BEHIND(aio)) ==> (VP_NO_FIN && g_cx_member == OLD(g_cx_member))) \
;

/* ---- send / recv ------------------------------------------------------------------------ */
#define VP_ARMED(c, ev) (DLT(g_arm_calls) == 1 && g_arm_pfd == &(c)->pfd && g_arm_events == (ev))
#define VP_SUBMIT_CONTRACT(fn, T, q, oq, ACTIVE, POLLEV, CANCELFN, KIND)                            \
static void fn(void *arg, nni_aio *aio)                                                             \
__CPROVER_requires(__CPROVER_is_fresh(arg, sizeof(T)) && VP_ENV_PRE((T *) arg) && g_q_objects && !g_cx_member && VP_NO_LOCK_HELD) \
__CPROVER_requires(__CPROVER_is_fresh(aio, sizeof(nni_aio)) && VP_AIO_WF(aio) && VP_Q_OBJ_PRE(q) && ((q).s.n > 0 || !(q).s.orig)) \
/* an aio waits in at most one queue: whoever heads the other queue is somebody else */             \
__CPROVER_requires((oq).s.n == 0 || (VP_QHEAD(oq) != aio && VP_QHEAD(oq) != (q).first && VP_QHEAD(oq) != (q).later)) \
__CPROVER_assigns(g_sys, (q).s, (q).first, __CPROVER_object_whole(aio), VP_LATER_T((q).later), VP_SYNC_GHOSTS) \
/* the caller's vector is not touched */ \
__CPROVER_ensures(aio->a_nio == OLD(aio->a_nio) && aio->a_iov[g_j & 7u].iov_buf == OLD(aio->a_iov[g_j & 7u].iov_buf) && aio->a_iov[g_j & 7u].iov_len == OLD(aio->a_iov[g_j & 7u].iov_len)) \
__CPROVER_ensures(VP_NO_LOCK_HELD && (oq).s.n == OLD((oq).s.n))                                      \
/* handed to the aio layer exactly once, with this connection's cancel function */                   \
__CPROVER_ensures(DLT(g_start_calls) == 1 && g_start_aio == aio && g_start_fn == (void *) CANCELFN && g_start_arg == arg) \
/* refused by the aio layer (stopped, aborted, timed out): not queued, not touched, not completed here */ \
__CPROVER_ensures(!g_start_ok ==> (VP_NO_SYSCALL && VP_NO_FIN && (q).s.n == OLD((q).s.n) && DLT(g_arm_calls) == 0)) \
/* C02: closed connection: refused with NNG_ECLOSED, never queued, the descriptor is not used */     \
__CPROVER_ensures((g_start_ok && ((T *) arg)->closed) ==> (VP_NO_SYSCALL && DLT(g_pops) == 0 && DLT(g_fin_calls) == 1 && g_fin_last == aio && g_fin_last_rv == (int) NNG_ECLOSED && (q).s.n == OLD((q).s.n) && DLT(g_arm_calls) == 0)) \
/* somebody is in front: appended behind him, the transfer loop is not run */                        \
__CPROVER_ensures((g_start_ok && !((T *) arg)->closed && OLD((q).s.n) > 0) ==> (VP_NO_SYSCALL && VP_NO_FIN && (q).s.n == OLD((q).s.n) + 1 && (q).s.orig == OLD((q).s.orig) && DLT(g_arm_calls) == 0)) \
/* first in line: the transfer is tried at once; C01/C02: either it completes -- exactly once,      \
 * count = bytes the kernel transferred (the count starts at 0: nni_aio_reset), read of 0 =         \
 * NNG_ECONNSHUT, hard error = mapped errno -- or it waits, untouched, with the poller armed */      \
__CPROVER_ensures((g_start_ok && ACTIVE((T *) arg) && OLD((q).s.n) == 0) ==> (DLT(g_sys.n_ok) + DLT(g_sys.n_again) + DLT(g_sys.n_err) == 1 && DLT(g_pops) == DLT(g_fin_calls) && DLT(g_sys.calls) == DLT(g_sys.n_intr) + 1)) \
__CPROVER_ensures((g_start_ok && ACTIVE((T *) arg) && OLD((q).s.n) == 0 && DLT(g_sys.n_ok) == 1) ==> ((q).s.n == 0 && DLT(g_fin_calls) == 1 && g_fin_last == aio && g_sys.ok_head == aio && DLT(g_arm_calls) == 0 && \
      ((g_sys.ok_ret > 0 || KIND == VP_SYS_WRITE) ? (g_fin_last_rv == 0 && g_fin_last_count == (size_t) g_sys.ok_ret) : (g_fin_last_rv == (int) NNG_ECONNSHUT && g_fin_last_count == 0)))) \
__CPROVER_ensures((g_start_ok && ACTIVE((T *) arg) && OLD((q).s.n) == 0 && DLT(g_sys.n_err) == 1) ==> ((q).s.n == 0 && DLT(g_fin_calls) == 1 && g_fin_last == aio && g_fin_last_rv == VP_PLAT(g_sys.err) && g_fin_last_count == 0 && DLT(g_arm_calls) == 0)) \
__CPROVER_ensures((g_start_ok && ACTIVE((T *) arg) && OLD((q).s.n) == 0 && DLT(g_sys.n_again) == 1) ==> ((q).s.n == 1 && (q).s.orig && (q).first == aio && DLT(g_fin_calls) == 0 && aio->a_count == 0 && VP_ARMED((T *) arg, POLLEV))) \
;

/* ---- poller callback -------------------------------------------------------------------- */
#define VP_BADEV (NNI_POLL_HUP | NNI_POLL_ERR | NNI_POLL_INVAL)
#define VP_WANT_EV ((g_wq.s.n > 0 ? NNI_POLL_OUT : 0u) | (g_rq.s.n > 0 ? NNI_POLL_IN : 0u))
#define VP_CB_CONTRACT(fn, T, DIALING)                                                              \
static void fn(void *arg, unsigned events)                                                          \
__CPROVER_requires(__CPROVER_is_fresh(arg, sizeof(T)) && VP_ENV_PRE((T *) arg) && g_q_objects && !g_cx_member && VP_NO_LOCK_HELD) \
__CPROVER_requires(VP_Q_OBJ_PRE(g_rq) && VP_Q_OBJ_PRE(g_wq) && (g_rq.s.n > 0 || !g_rq.s.orig) && (g_wq.s.n > 0 || !g_wq.s.orig)) \
__CPROVER_assigns(g_sys, g_rq.s, g_wq.s, g_rq.first->a_count, g_wq.first->a_count, VP_LATER_T(g_rq.later), VP_LATER_T(g_wq.later), VP_SYNC_GHOSTS) \
__CPROVER_ensures(VP_NO_LOCK_HELD && VP_EXACTLY_ONCE)                                                \
/* a connection still being established: the event belongs to the dialer */                         \
__CPROVER_ensures(DIALING((T *) arg) ==> (DLT(g_dialcb_calls) == 1 && VP_NO_SYSCALL && VP_NO_FIN && DLT(g_arm_calls) == 0)) \
/* C02/C11: hang-up or error: every queued aio of THIS connection completes once with NNG_ECONNSHUT */ \
__CPROVER_ensures((!DIALING((T *) arg) && (events & VP_BADEV) != 0) ==> (VP_ALL_DONE(NNG_ECONNSHUT) && VP_NO_SYSCALL && DLT(g_pfd_close_calls) == 1 && DLT(g_arm_calls) == 0)) \
/* readable / writable: only the directions reported are served */                                  \
__CPROVER_ensures((!DIALING((T *) arg) && (events & VP_BADEV) == 0) ==> (DLT(g_dialcb_calls) == 0 && DLT(g_pfd_close_calls) == 0 && DLT(g_pops) == (OLD(g_rq.s.n) - g_rq.s.n) + (OLD(g_wq.s.n) - g_wq.s.n))) \
__CPROVER_ensures((!DIALING((T *) arg) && (events & VP_BADEV) == 0 && (events & NNI_POLL_IN) == 0) ==> g_rq.s.n == OLD(g_rq.s.n)) \
__CPROVER_ensures((!DIALING((T *) arg) && (events & VP_BADEV) == 0 && (events & NNI_POLL_OUT) == 0) ==> g_wq.s.n == OLD(g_wq.s.n)) \
/* whoever is left waiting (EAGAIN, or a direction not reported) is not forgotten: the poller is     \
 * armed again for exactly the directions that have a waiter */                                     \
__CPROVER_ensures((!DIALING((T *) arg) && (events & VP_BADEV) == 0 && !((T *) arg)->closed && VP_WANT_EV != 0) ==> VP_ARMED((T *) arg, VP_WANT_EV)) \
__CPROVER_ensures((!DIALING((T *) arg) && (events & VP_BADEV) == 0 && (((T *) arg)->closed || VP_WANT_EV == 0)) ==> DLT(g_arm_calls) == 0) \
;
#define VP_TCP_DIALING(c) ((c)->dial_aio != NULL)
#define VP_SFD_DIALING(c) (0)

#define VP_TCP_ACTIVE(c) (!(c)->closed)
#define VP_IPC_ACTIVE(c) (!(c)->closed && g_pfd_fd >= 0)
#ifdef VP_M_TCP
VP_XFER_CONTRACT(tcp_dowrite, nni_tcp_conn, g_wq, g_rq, VP_TCP_ACTIVE)
VP_XFER_CONTRACT(tcp_doread, nni_tcp_conn, g_rq, g_wq, VP_TCP_ACTIVE)
VP_ERROR_CONTRACT(tcp_error, nni_tcp_conn)
VP_CLOSE_CONTRACT(tcp_close, nni_tcp_conn)
VP_CANCEL_CONTRACT(tcp_cancel, nni_tcp_conn)
VP_SUBMIT_CONTRACT(tcp_send, nni_tcp_conn, g_wq, g_rq, VP_TCP_ACTIVE, NNI_POLL_OUT, tcp_cancel, VP_SYS_WRITE)
VP_SUBMIT_CONTRACT(tcp_recv, nni_tcp_conn, g_rq, g_wq, VP_TCP_ACTIVE, NNI_POLL_IN, tcp_cancel, VP_SYS_READ)
VP_CB_CONTRACT(tcp_cb, nni_tcp_conn, VP_TCP_DIALING)
#endif
#ifdef VP_M_IPC
/* posix_ipcconn.c: same functions; the transfer loops additionally do nothing when the poller
 * reports no descriptor (fd < 0) */
VP_XFER_CONTRACT(ipc_dowrite, ipc_conn, g_wq, g_rq, VP_IPC_ACTIVE)
VP_XFER_CONTRACT(ipc_doread, ipc_conn, g_rq, g_wq, VP_IPC_ACTIVE)
VP_ERROR_CONTRACT(ipc_error, ipc_conn)
VP_CLOSE_CONTRACT(ipc_close, ipc_conn)
VP_CANCEL_CONTRACT(ipc_cancel, ipc_conn)
VP_SUBMIT_CONTRACT(ipc_send, ipc_conn, g_wq, g_rq, VP_IPC_ACTIVE, NNI_POLL_OUT, ipc_cancel, VP_SYS_WRITE)
VP_SUBMIT_CONTRACT(ipc_recv, ipc_conn, g_rq, g_wq, VP_IPC_ACTIVE, NNI_POLL_IN, ipc_cancel, VP_SYS_READ)
VP_CB_CONTRACT(ipc_cb, ipc_conn, VP_TCP_DIALING)
#endif
#ifdef VP_M_SFD
/* posix_sockfd.c: the descriptor is the field c->fd (bound to the ghost descriptor by the
 * precondition); no dialing state; send/recv rely on nng_stream_send/recv for nni_aio_reset */
VP_XFER_CONTRACT(sfd_dowrite, nni_sfd_conn, g_wq, g_rq, VP_TCP_ACTIVE)
VP_XFER_CONTRACT(sfd_doread, nni_sfd_conn, g_rq, g_wq, VP_TCP_ACTIVE)
VP_ERROR_CONTRACT(sfd_error, nni_sfd_conn)
VP_CLOSE_CONTRACT(sfd_close, nni_sfd_conn)
VP_CANCEL_CONTRACT(sfd_cancel, nni_sfd_conn)
#endif
#endif
