/* Ghost state of the posixstream environment; declared before the real
 * posix_*conn.c files so that woven loop invariants can name it.
 *
 * The REAL src/core/aio.c is compiled in: nni_aio_get_iov, nni_aio_bump_count,
 * nni_aio_count, nni_aio_iov_clamp_len and nni_aio_reset are the real code.
 * The functions of aio.c that need the aio run-time (task dispatch, expire
 * queue, intrusive lists, nni_aio_start) are renamed away while aio.c is
 * compiled and are provided as ghost stubs by env.h. */
#ifndef VP_POSIXSTREAM_GHOST_H
#define VP_POSIXSTREAM_GHOST_H
#include "core/nng_impl.h"
#include <errno.h>
#include <sys/socket.h>
#include <sys/uio.h>
#include "platform/posix/posix_aio.h"

#define nni_aio_finish        vp_rt_nni_aio_finish
#define nni_aio_finish_error  vp_rt_nni_aio_finish_error
#define nni_aio_finish_sync   vp_rt_nni_aio_finish_sync
#define nni_aio_finish_msg    vp_rt_nni_aio_finish_msg
#define nni_aio_list_init     vp_rt_nni_aio_list_init
#define nni_aio_list_append   vp_rt_nni_aio_list_append
#define nni_aio_list_remove   vp_rt_nni_aio_list_remove
#define nni_aio_list_active   vp_rt_nni_aio_list_active
#define nni_aio_start         vp_rt_nni_aio_start
#include "core/aio.c"
#undef nni_aio_finish
#undef nni_aio_finish_error
#undef nni_aio_finish_sync
#undef nni_aio_finish_msg
#undef nni_aio_list_init
#undef nni_aio_list_append
#undef nni_aio_list_remove
#undef nni_aio_list_active
#undef nni_aio_start

/* ---- the two wait queues of a connection (readq, writeq) -----------------
 * count + the aio at the head.  `first` is the head the queue had when the
 * function under contract was entered (or the aio appended to an empty queue);
 * `later` is ONE stand-in object for every aio that becomes head afterwards:
 * whenever the head leaves the queue its vector and byte count are replaced by
 * arbitrary well-formed values (= "some other aio").  The two pointers are
 * never written while a loop runs, so loop contracts keep them valid. */
typedef struct {
	struct {
		size_t n;    /* members */
		bool   orig; /* the head is still `first` */
	} s;
	nni_aio *first;
	nni_aio *later;
} vp_q;
vp_q      g_rq, g_wq;
nni_list *g_rq_addr, *g_wq_addr;
bool      g_q_objects; /* first/later are real aio objects (units that look inside the head) */
#define VP_QHEAD(q) ((q).s.n == 0 ? (nni_aio *) NULL : (q).s.orig ? (q).first : (q).later)

/* removals from the queues */
/* (g_pops, g_pop_last: fields of g_sys, below) */
/* cancel: the aio under test as a member that is NOT the head of its queue */
bool     g_cx_member; /* it is on queue g_cx_wq ? writeq : readq, behind the head */
bool     g_cx_wq;
nni_aio *g_cx_aio;

/* ---- completions --------------------------------------------------------- */
/* (g_fin_calls, g_fin_last, g_fin_last_rv, g_fin_last_count: fields of g_sys, below) */

/* ---- nni_aio_start -------------------------------------------------------- */
bool     g_start_ok; /* answer (chosen by the harness: arbitrary) */
/* (g_start_calls, g_start_aio, g_start_fn, g_start_arg: fields of g_sys, below) */

/* ---- system calls --------------------------------------------------------- */
#define VP_SYS_WRITE 1
#define VP_SYS_READ 2
typedef struct {
	size_t calls;   /* all transfer system calls */
	size_t n_ok;    /* ... that returned n >= 0 */
	size_t n_zero;  /* ... that returned 0 */
	size_t n_intr;  /* ... that failed with EINTR */
	size_t n_again; /* ... that failed with EAGAIN / EWOULDBLOCK */
	size_t n_err;   /* ... that failed with any other errno */
	/* the last call */
	int      kind;
	int      fd;
	int      flags;
	size_t   niov;
	struct iovec v[NNI_AIO_MAX_IOV]; /* what was offered to the kernel, in order */
	size_t   total;
	nni_aio *head;  /* head of the queue of that direction at the time of the call */
	ssize_t  ret;
	int      err;
	/* the last call that returned n >= 0 */
	nni_aio *ok_head;
	size_t   ok_count0; /* a_count of that aio at the time of the call */
	ssize_t  ok_ret;
	int      ok_kind;
	/* errno, removals from the queues, completions: kept in the same object so that the
	 * transfer loops have ONE ghost assigns target */
	int      err_no;
	size_t   plat_calls;
	size_t   pops;
	nni_aio *pop_last;
	size_t   fin_calls;
	nni_aio *fin_last;
	int      fin_last_rv;
	size_t   fin_last_count;
	/* nni_aio_start, poller */
	size_t   start_calls;
	nni_aio *start_aio;
	void    *start_fn, *start_arg;
	size_t   arm_calls, pfd_close_calls, pfd_stop_calls, dialcb_calls;
	unsigned arm_events;
	nni_posix_pfd *arm_pfd;
} vp_sys;
#define g_start_calls g_sys.start_calls
#define g_start_aio g_sys.start_aio
#define g_start_fn g_sys.start_fn
#define g_start_arg g_sys.start_arg
#define g_arm_calls g_sys.arm_calls
#define g_arm_events g_sys.arm_events
#define g_arm_pfd g_sys.arm_pfd
#define g_pfd_close_calls g_sys.pfd_close_calls
#define g_pfd_stop_calls g_sys.pfd_stop_calls
#define g_dialcb_calls g_sys.dialcb_calls
vp_sys g_sys;
#define g_errno g_sys.err_no
#define g_plat_calls g_sys.plat_calls
#define g_pops g_sys.pops
#define g_pop_last g_sys.pop_last
#define g_fin_calls g_sys.fin_calls
#define g_fin_last g_sys.fin_last
#define g_fin_last_rv g_sys.fin_last_rv
#define g_fin_last_count g_sys.fin_last_count
/* errno mapping (nni_plat_errno): ASSUMED injective and never 0 for a failed call; modelled as NNG_ESYSERR + errno */
#define VP_PLAT(e) ((int) ((unsigned) NNG_ESYSERR + (unsigned) (e)))

/* ---- poller ----------------------------------------------------------------- */
int            g_pfd_fd; /* descriptor of the connection (arbitrary, may be negative = already closed) */
/* (g_arm_calls, g_arm_events, g_arm_pfd, g_pfd_close_calls, g_pfd_stop_calls, g_dialcb_calls: fields of g_sys) */
#endif
