/* Spec macros and module ghosts for src/core/idhash.c (no code of nng).
 *
 * The map is an open-addressed table of id_cap slots (a power of two, 0 before
 * the first insertion).  A slot is LIVE iff val != NULL.  The probe sequence of
 * a key starts at its home slot key & (cap-1) and continues j -> (5j+1)&(cap-1).
 *
 * Layer 1 (structural) invariant IDM_WF: pointer shape + scalar consistency.
 * Layer 2 (probe chains, finite-map behaviour) lives in l2.h and is only used
 * with a small constant capacity.
 */
#ifndef VP_IDHASH_SPEC_H
#define VP_IDHASH_SPEC_H

/* ---- module ghosts (never written by nng code; woven ghost statements only) */
size_t   g_found;   /* nni_id_get / nni_id_remove: the slot id_find reported      */
size_t   g_slot;    /* nni_id_set: the slot that holds (id,val) on success        */
uint64_t g_kk;      /* ghost equation: key   of slot g_k in the pre-state         */
void    *g_kv;      /* ghost equation: val   of slot g_k in the pre-state         */
uint32_t g_ks;      /* ghost equation: skips of slot g_k in the pre-state         */
void    *g_ents;    /* ghost equation: the entries pointer of the pre-state       */
size_t   g_regs;    /* number of id_map_register calls (stub accounting)          */

#define IDM_NOTFOUND ((size_t) -1)
#define IDM_ENT_SZ (sizeof(struct nni_id_entry))

/* Implementation limits made explicit (see spec.json "assumes"): the uint32
 * arithmetic of id_resize (count * 2, new_cap * 2 / 3) is exact only while
 * the table has at most 2^30 slots, i.e. at most 2^29 live ids. */
#ifdef IDM_MAXCAP_OVERRIDE
/* only for the extra trace run that looks for a SMALL counterexample after an
 * obligation has failed (spec.json replay_defines); the deciding run has the
 * real limits */
#define IDM_MAXCAP ((uint32_t) IDM_MAXCAP_OVERRIDE)
#define IDM_MAXCOUNT ((uint32_t) IDM_MAXCAP_OVERRIDE / 2)
#else
#define IDM_MAXCAP ((uint32_t) 1 << 30)
#define IDM_MAXCOUNT ((uint32_t) 1 << 29)
#endif

/* load thresholds that belong to a capacity (constants 8, 1/8, 2/3, 5 are the
 * documented tuning of the table) */
#define IDM_MINL(cap) ((cap) > 8 ? (cap) / 8 : 0)
#define IDM_MAXL(cap) ((cap) > 8 ? (uint32_t) ((uint64_t) (cap) * 2 / 3) : 5)

#define IDM_MASK(m) ((size_t) ((m)->id_cap - 1))
#define IDM_HOME(m, id) ((size_t) ((id) & ((m)->id_cap - 1)))
#define IDM_NEXT(m, j) ((((j) * 5) + 1) & IDM_MASK(m))

/* scalar part of the representation invariant */
#define IDM_SCALAR(m)                                                        \
	(((m)->id_cap == 0)                                                  \
	        ? ((m)->id_count == 0 && (m)->id_load == 0 &&                \
	              (m)->id_min_load == 0 && (m)->id_max_load == 0)        \
	        : (VP_POW2((m)->id_cap) && (m)->id_cap >= 8 &&               \
	              (m)->id_cap <= IDM_MAXCAP &&                           \
	              (m)->id_count <= IDM_MAXCOUNT &&                       \
	              (m)->id_min_load == IDM_MINL((m)->id_cap) &&           \
	              (m)->id_max_load == IDM_MAXL((m)->id_cap)))

/* pointer shape, precondition form */
#define IDM_SHAPE_PRE(m)                                                     \
	(__CPROVER_is_fresh((m), sizeof(nni_id_map)) &&                      \
	    (((m)->id_cap == 0 && (m)->id_entries == NULL) ||                \
	        ((m)->id_cap != 0 && (m)->id_cap <= IDM_MAXCAP &&            \
	            __CPROVER_is_fresh((m)->id_entries,                      \
	                (size_t) (m)->id_cap * IDM_ENT_SZ))))

#define IDM_WF_PRE(m) (IDM_SHAPE_PRE(m) && IDM_SCALAR(m))

/* the issuing range [min,max] of nni_id_alloc (lo is forced to >= 1 by init) */
#define IDM_RANGE_OK(m) ((m)->id_min_val >= 1 && (m)->id_min_val <= (m)->id_max_val)
#define IDM_CURSOR_OK(m)                                                     \
	((m)->id_dyn_val == 0 ||                                             \
	    ((m)->id_dyn_val >= (m)->id_min_val && (m)->id_dyn_val <= (m)->id_max_val))

#define IDM_CURSOR_IN(m)                                                     \
	((m)->id_dyn_val >= (m)->id_min_val && (m)->id_dyn_val <= (m)->id_max_val)

/* ghost equations on the free ghosts g_k / g_kk / g_kv / g_ks / g_ents */
#define IDM_GHOST_PRE(m)                                                     \
	(((g_k < (m)->id_cap) ==>                                            \
	     (g_kk == (m)->id_entries[g_k].key &&                            \
	         g_kv == (m)->id_entries[g_k].val &&                         \
	         g_ks == (m)->id_entries[g_k].skips)) &&                     \
	    g_ents == (void *) (m)->id_entries)

/* slot g_k still has the key/val it had in the pre-state */
#define IDM_SLOT_KV_SAME(m)                                                  \
	((m)->id_entries[g_k].key == g_kk && (m)->id_entries[g_k].val == g_kv)
#define IDM_SLOT_SAME(m)                                                     \
	(IDM_SLOT_KV_SAME(m) && (m)->id_entries[g_k].skips == g_ks)

/* every scalar field as before */
#define IDM_SCALARS_UNCHANGED(m)                                             \
	((m)->id_cap == __CPROVER_old((m)->id_cap) &&                        \
	    (m)->id_count == __CPROVER_old((m)->id_count) &&                 \
	    (m)->id_load == __CPROVER_old((m)->id_load) &&                   \
	    (m)->id_min_load == __CPROVER_old((m)->id_min_load) &&           \
	    (m)->id_max_load == __CPROVER_old((m)->id_max_load) &&           \
	    (m)->id_static == __CPROVER_old((m)->id_static) &&               \
	    (m)->id_random == __CPROVER_old((m)->id_random) &&               \
	    (m)->id_min_val == __CPROVER_old((m)->id_min_val) &&             \
	    (m)->id_max_val == __CPROVER_old((m)->id_max_val) &&             \
	    (m)->id_dyn_val == __CPROVER_old((m)->id_dyn_val))

#define IDM_RANGE_UNCHANGED(m)                                               \
	((m)->id_static == __CPROVER_old((m)->id_static) &&                  \
	    (m)->id_random == __CPROVER_old((m)->id_random) &&               \
	    (m)->id_min_val == __CPROVER_old((m)->id_min_val) &&             \
	    (m)->id_max_val == __CPROVER_old((m)->id_max_val))

/* pre-state snapshot (locals woven at function entry, read by vp/replay.py) */
#define VP_SNAP_IDM(m)                                                       \
	uint64_t vp_in_min = (m)->id_min_val, vp_in_max = (m)->id_max_val,   \
	         vp_in_dyn = (m)->id_dyn_val, vp_in_count = (m)->id_count,   \
	         vp_in_cap = (m)->id_cap, vp_in_random = (m)->id_random

/* full pre-state snapshot for the native replay driver (modules/idhash/replay.c): every
 * scalar of the map and the first 16 slots (key, val != NULL, skips), plain locals woven at
 * function entry.  CBMC's per-dereference checks are switched off inside the snapshot so
 * that it adds no proof obligations (slot reads are guarded by i < id_cap). */
#define VP_SNAP_BEGIN                                                              \
	_Pragma("CPROVER check push") _Pragma("CPROVER check disable \"pointer\"")   \
	_Pragma("CPROVER check disable \"bounds\"")                                  \
	_Pragma("CPROVER check disable \"pointer-primitive\"")                       \
	_Pragma("CPROVER check disable \"pointer-overflow\"")
#define VP_SNAP_END _Pragma("CPROVER check pop")
#define VP_SNAP_IDM_SLOT(m, i)                                                                  \
	uint64_t vp_in_k##i = ((uint32_t) (i) < (m)->id_cap) ? (m)->id_entries[i].key : (uint64_t) 0; \
	uint64_t vp_in_v##i = ((uint32_t) (i) < (m)->id_cap) ? (uint64_t) ((m)->id_entries[i].val != NULL) : (uint64_t) 0; \
	uint64_t vp_in_s##i = ((uint32_t) (i) < (m)->id_cap) ? (uint64_t) (m)->id_entries[i].skips : (uint64_t) 0
#define VP_SNAP_IDM_FULL(m)                                                          \
	VP_SNAP_BEGIN                                                                    \
	VP_SNAP_IDM(m);                                                                  \
	uint64_t vp_in_load = (m)->id_load, vp_in_minload = (m)->id_min_load,            \
	         vp_in_maxload = (m)->id_max_load, vp_in_static = (m)->id_static;        \
	VP_SNAP_IDM_SLOT(m, 0); VP_SNAP_IDM_SLOT(m, 1); VP_SNAP_IDM_SLOT(m, 2); VP_SNAP_IDM_SLOT(m, 3); \
	VP_SNAP_IDM_SLOT(m, 4); VP_SNAP_IDM_SLOT(m, 5); VP_SNAP_IDM_SLOT(m, 6); VP_SNAP_IDM_SLOT(m, 7); \
	VP_SNAP_IDM_SLOT(m, 8); VP_SNAP_IDM_SLOT(m, 9); VP_SNAP_IDM_SLOT(m, 10); VP_SNAP_IDM_SLOT(m, 11); \
	VP_SNAP_IDM_SLOT(m, 12); VP_SNAP_IDM_SLOT(m, 13); VP_SNAP_IDM_SLOT(m, 14); VP_SNAP_IDM_SLOT(m, 15); \
	VP_SNAP_END

#endif
