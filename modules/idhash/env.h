/* Environment of idhash.c.
 * ASSUMED: the registry mutex is a no-op (single thread of control; callers of
 * the map hold their own lock, interleavings are not explored); nni_random
 * returns an arbitrary uint32. */
void nni_mtx_lock(nni_mtx *mtx) { (void) mtx; }
void nni_mtx_unlock(nni_mtx *mtx) { (void) mtx; }
uint32_t
nni_random(void)
{
	return (nondet_u32());
}
