/* Native replay driver for idhash: rebuilds a concrete pre-state from the
 * snapshot of a CBMC counterexample (vp_in_* locals woven at function entry),
 * runs the REAL nni_id_alloc / nni_id_alloc32 of /repo/src/core/idhash.c under
 * ASan/UBSan and evaluates the C18 postconditions in plain C.
 *
 * The contracts replace id_find/nni_id_set, so a counterexample does not fix
 * the table content; the driver realises "the next ids after the cursor are in
 * use" (the situation every alloc counterexample needs) with the real
 * nni_id_set, and "the inner allocation fails" with a failing allocator or an
 * exhausted range. */
#include "vp_native.h"
#include "core/nng_impl.h"
static int vp_fail_alloc;
void *nni_alloc(size_t sz) { return ((sz > 0 && !vp_fail_alloc) ? malloc(sz) : NULL); }
void *nni_zalloc(size_t sz) { return ((sz > 0 && !vp_fail_alloc) ? calloc(1, sz) : NULL); }
void  nni_free(void *p, size_t sz) { (void) sz; free(p); }
uint32_t nni_random(void) { return (12345u); }
void nni_mtx_lock(nni_mtx *m) { (void) m; }
void nni_mtx_unlock(nni_mtx *m) { (void) m; }
void nni_panic(const char *fmt, ...) { (void) fmt; abort(); }
#include "core/idhash.c" /* the real file, via -I/repo/src */

#define IN_RANGE(m, id) ((id) >= (m)->id_min_val && (id) <= (m)->id_max_val)

int
main(int argc, char **argv)
{
	nni_id_map  m;
	static int  obj;
	const char *fn = argc > 2 ? argv[2] : "nni_id_alloc";
	if (argc < 2) {
		fprintf(stderr, "usage: replay <inputs> <fn>\n");
		return 2;
	}
	vp_load(argv[1]);
	uint64_t min = vp_u64("vp_in_min", 1), max = vp_u64("vp_in_max", 0xffffffffu);
	uint64_t dyn = vp_u64("vp_in_dyn", 0);
	uint64_t cnt = vp_u64("vp_in_count", 0);
	if (!(min >= 1 && min <= max) || !(dyn == 0 || (dyn >= min && dyn <= max))) {
		printf("REPLAY-RESULT: skipped (pre-state outside the contract's precondition)\n");
		return 3;
	}
	nni_id_map_init(&m, 1, 2, vp_u64("vp_in_random", 0) != 0);
	m.id_min_val = min;
	m.id_max_val = max;
	/* occupy up to 4 ids in cyclic order starting at the cursor (never the whole range
	 * unless the counterexample says the range is exhausted) */
	uint64_t range_m1 = max - min; /* range size - 1 */
	int      exhausted = cnt > range_m1;
	uint64_t fill = exhausted ? range_m1 + 1 : (cnt < 4 ? cnt : 4);
	if (fill > 4096) {
		printf("REPLAY-RESULT: skipped (range of %llu ids too large to exhaust natively)\n", (unsigned long long) fill);
		return 3;
	}
	if (!exhausted && fill > range_m1) {
		fill = range_m1;
	}
	uint64_t k = (dyn == 0) ? min : dyn;
	for (uint64_t i = 0; i < fill; i++) {
		if (nni_id_set(&m, k, &obj) != 0) {
			return 3;
		}
		k = (k >= max) ? min : k + 1;
	}
	m.id_dyn_val = dyn;
	uint32_t count0 = nni_id_count(&m);

	if (strcmp(fn, "nni_id_alloc") == 0) {
		uint64_t id = 0xdeadbeefcafef00dull;
		bool     was_used;
		int      rv = nni_id_alloc(&m, &id, &obj);
		printf("nni_id_alloc on {min=%llu max=%llu cursor=%llu, %u ids in use from the cursor on} -> rv=%d id=%llu cursor'=%llu\n",
		    (unsigned long long) min, (unsigned long long) max, (unsigned long long) dyn, count0, rv,
		    (unsigned long long) id, (unsigned long long) m.id_dyn_val);
		VP_EXPECT(rv == 0 || rv == NNG_ENOMEM);
		VP_EXPECT((count0 > range_m1) ? (rv == NNG_ENOMEM) : (rv == 0));
		if (rv == 0) {
			VP_EXPECT(IN_RANGE(&m, id));                       /* C18: within the range */
			VP_EXPECT(nni_id_count(&m) == count0 + 1);          /* C18: was not in use   */
			VP_EXPECT(nni_id_get(&m, id) == &obj);
			VP_EXPECT(m.id_dyn_val == (id >= max ? min : id + 1)); /* cursor = successor */
		} else {
			VP_EXPECT(id == 0xdeadbeefcafef00dull);
		}
		VP_EXPECT(exhausted || IN_RANGE(&m, m.id_dyn_val));
		(void) was_used;
	} else if (strcmp(fn, "nni_id_alloc32") == 0) {
		uint32_t id0 = (uint32_t) vp_u64("vp_in_idp", 77), id = id0;
		if (max > 0xffffffffu) {
			printf("REPLAY-RESULT: skipped (range does not fit 32 bits)\n");
			return 3;
		}
		if (!exhausted) {
			vp_fail_alloc = 1; /* the inner nni_id_set cannot allocate */
			if (m.id_cap != 0) {
				/* make sure the next insertion has to grow the table */
				m.id_load = m.id_max_load;
				m.id_count = m.id_cap;
			}
		}
		int rv = nni_id_alloc32(&m, &id, &obj);
		vp_fail_alloc = 0;
		printf("nni_id_alloc32 on {min=%llu max=%llu, %u ids held, %s} with *idp=%u -> rv=%d *idp=%u\n",
		    (unsigned long long) min, (unsigned long long) max, count0,
		    exhausted ? "range exhausted" : "allocator refuses", id0, rv, id);
		VP_EXPECT(rv == 0 || rv == NNG_ENOMEM);
		if (rv != 0) {
			VP_EXPECT(id == id0); /* no id handed out on failure */
		} else {
			VP_EXPECT(IN_RANGE(&m, (uint64_t) id));
		}
	} else {
		printf("REPLAY-RESULT: skipped (no replay for %s)\n", fn);
		return 3;
	}
	VP_DONE();
}
