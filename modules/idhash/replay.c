/* Native replay driver for idhash: rebuilds a concrete pre-state from the
 * snapshot of a CBMC counterexample (vp_in_* locals woven at function entry),
 * runs the REAL nni_id_alloc / nni_id_alloc32 of /repo/src/core/idhash.c under
 * ASan/UBSan and evaluates the C18 postconditions in plain C.
 *
 * The contracts replace id_find/nni_id_set, so a counterexample does not fix
 * the table content; the driver realises "the next ids after the cursor are in
 * use" (the situation every alloc counterexample needs) with the real
 * nni_id_set, and "the inner allocation fails" with a failing allocator or an
 * exhausted range.
 *
 * nni_id_set / nni_id_remove / nni_id_get / id_resize: the snapshot holds the
 * whole table (scalars + first 16 slots), so the driver rebuilds exactly the
 * pre-state of the counterexample (replay_table, below). */
#include "vp_native.h"
#include "core/nng_impl.h"
static int vp_fail_alloc;
static long vp_n_alloc, vp_n_free, vp_n_refused;
static void *
vp_env_alloc(size_t sz, int zero)
{
	if (sz == 0)
		return (NULL);
	if (vp_fail_alloc) {
		vp_n_refused++;
		return (NULL);
	}
	vp_n_alloc++;
	return (zero ? calloc(1, sz) : malloc(sz));
}
void *nni_alloc(size_t sz) { return (vp_env_alloc(sz, 0)); }
void *nni_zalloc(size_t sz) { return (vp_env_alloc(sz, 1)); }
void  nni_free(void *p, size_t sz) { (void) sz; if (p != NULL) vp_n_free++; free(p); }
uint32_t nni_random(void) { return (12345u); }
void nni_mtx_lock(nni_mtx *m) { (void) m; }
void nni_mtx_unlock(nni_mtx *m) { (void) m; }
void nni_panic(const char *fmt, ...) { (void) fmt; abort(); }
#include "core/idhash.c" /* the real file, via -I/repo/src */

#define IN_RANGE(m, id) ((id) >= (m)->id_min_val && (id) <= (m)->id_max_val)


#include <unistd.h>
#include <signal.h>
#include "modules/idhash/spec.h"

/* ===================================================================== table replay
 * Pre-state = the vp_in_* snapshot of VP_SNAP_IDM_FULL (spec.h). */
#define T_MAXCAP 16u
#define VAL(i) ((void *) (uintptr_t) (0x1000 + 16 * (uintptr_t) (i))) /* value of the slot that is live in the pre-state */
#define NEWVAL ((void *) (uintptr_t) 0xABC0)

typedef struct {
	uint32_t cap, count, load, minl, maxl;
	uint64_t key[T_MAXCAP];
	uint32_t skips[T_MAXCAP];
	bool     live[T_MAXCAP];
	unsigned nlive;
	bool     consistent; /* the real representation invariant holds (a table the API can produce) */
} pre_t;
static pre_t P;

static uint64_t
slotv(const char *fmt, unsigned i)
{
	return vp_fmt(0, fmt, i);
}

/* steps from slot h to slot j on the probe cycle x -> 5x+1 */
static unsigned
dist(uint32_t cap, size_t h, size_t j)
{
	unsigned d = 0;
	while (h != j && d <= cap) {
		h = ((h * 5) + 1) & (cap - 1);
		d++;
	}
	return d;
}

/* The Layer-1 contracts only assume the STRUCTURAL invariant, and id_find / id_resize are replaced
 * by their contracts in some units, so a counterexample table may be one the API can never produce
 * (more live slots than `count`, duplicate keys, arbitrary skip counters): the real code need not
 * even terminate on it.  normalise() derives the nearest table the API CAN produce: same capacity,
 * same count, `count` of the counterexample's live (key, slot) pairs with pairwise distinct keys --
 * chosen so that the load counter makes the same resize decision as the counterexample, keeps the
 * slot of the operated key when there is one, and is as close as possible to the counterexample's
 * load -- with the skip counters and the load recomputed from those entries. */
static unsigned n_best[T_MAXCAP], n_cur[T_MAXCAP], n_nbest;
static long     n_bestscore;
static void
norm_search(unsigned from, unsigned n, uint32_t load, bool has_id, uint64_t id, bool want_thr)
{
	if (n == P.count) {
		bool thr   = (load < P.maxl && load >= P.minl);
		long score = (thr == want_thr ? 1000000 : 0) + (has_id ? 100000 : 0) - labs((long) load - (long) P.load);
		if (n_nbest == (unsigned) -1 || score > n_bestscore) {
			n_bestscore = score;
			n_nbest     = n;
			memcpy(n_best, n_cur, sizeof(n_cur));
		}
		return;
	}
	for (unsigned i = from; i < P.cap; i++) {
		bool dup = !P.live[i];
		for (unsigned j = 0; j < n && !dup; j++)
			dup = P.key[n_cur[j]] == P.key[i];
		if (dup)
			continue;
		n_cur[n] = i;
		norm_search(i + 1, n + 1, load + 1 + dist(P.cap, (size_t) (P.key[i] & (P.cap - 1)), i), has_id || P.key[i] == id, id, want_thr);
	}
}
static void
normalise(void)
{
	if (P.cap == 0)
		return;
	n_nbest = (unsigned) -1;
	norm_search(0, 0, 0, false, vp_u64("vp_arg_id", 0), (P.load < P.maxl && P.load >= P.minl));
	if (n_nbest == (unsigned) -1)
		return; /* fewer than `count` distinct live keys: left as it is */
	bool     keep[T_MAXCAP] = { false };
	uint32_t load = 0;
	for (unsigned j = 0; j < n_nbest; j++)
		keep[n_best[j]] = true;
	printf("counterexample table: cap=%u count=%u load=%u, %u live slots -- not a table the API can produce;\n"
	       "replaying the nearest one that is (%u of its live entries, skips/load recomputed):\n",
	    P.cap, P.count, P.load, P.nlive, P.count);
	for (unsigned i = 0; i < P.cap; i++) {
		P.skips[i] = 0;
		if (!keep[i]) {
			P.live[i] = false;
			P.key[i]  = 0;
		}
	}
	for (unsigned i = 0; i < P.cap; i++) {
		if (!P.live[i])
			continue;
		size_t h = (size_t) (P.key[i] & (P.cap - 1));
		load += 1 + dist(P.cap, h, i);
		for (size_t j = h; j != i; j = ((j * 5) + 1) & (P.cap - 1))
			P.skips[j]++;
	}
	P.load       = load;
	P.nlive      = P.count;
	P.consistent = true;
}

static bool
load_pre(void)
{
	memset(&P, 0, sizeof(P));
	if (!vp_has("vp_in_load")) {
		printf("REPLAY-RESULT: skipped (trace has no full table snapshot)\n");
		return false;
	}
	P.cap   = (uint32_t) vp_u64("vp_in_cap", 0);
	P.count = (uint32_t) vp_u64("vp_in_count", 0);
	P.load  = (uint32_t) vp_u64("vp_in_load", 0);
	P.minl  = (uint32_t) vp_u64("vp_in_minload", 0);
	P.maxl  = (uint32_t) vp_u64("vp_in_maxload", 0);
	if (P.cap > T_MAXCAP) {
		printf("REPLAY-RESULT: skipped (capacity %u: only the first %u slots are in the snapshot)\n", P.cap, T_MAXCAP);
		return false;
	}
	/* IDM_SCALAR: the scalar part of the precondition */
	bool scalar = (P.cap == 0) ? (P.count == 0 && P.load == 0 && P.minl == 0 && P.maxl == 0)
	                           : (VP_POW2(P.cap) && P.cap >= 8 && P.minl == IDM_MINL(P.cap) && P.maxl == IDM_MAXL(P.cap));
	if (!scalar) {
		printf("REPLAY-RESULT: skipped (pre-state outside the contract's precondition IDM_SCALAR)\n");
		return false;
	}
	for (unsigned i = 0; i < P.cap; i++) {
		P.key[i]   = slotv("vp_in_k%u", i);
		P.live[i]  = slotv("vp_in_v%u", i) != 0;
		P.skips[i] = (uint32_t) slotv("vp_in_s%u", i);
		P.nlive += P.live[i];
	}
	/* the real invariant (l2.h, written for any capacity): count = live slots, live keys distinct,
	 * skips[j] = number of live keys whose probe path crosses j, load = sum of path lengths */
	P.consistent = (P.nlive == P.count);
	uint32_t cross[T_MAXCAP] = { 0 }, load = 0;
	for (unsigned i = 0; i < P.cap; i++) {
		if (!P.live[i])
			continue;
		size_t   h = (size_t) (P.key[i] & (P.cap - 1));
		unsigned d = dist(P.cap, h, i);
		load += 1 + d;
		for (size_t j = h; j != i; j = ((j * 5) + 1) & (P.cap - 1))
			cross[j]++;
		for (unsigned j = i + 1; j < P.cap; j++)
			if (P.live[j] && P.key[j] == P.key[i])
				P.consistent = false;
	}
	for (unsigned j = 0; j < P.cap; j++)
		if (cross[j] != P.skips[j])
			P.consistent = false;
	if (load != P.load)
		P.consistent = false;
	if (!P.consistent)
		normalise();
	return true;
}

static void
build_map(nni_id_map *m)
{
	memset(m, 0, sizeof(*m));
	m->id_cap      = P.cap;
	m->id_count    = P.count;
	m->id_load     = P.load;
	m->id_min_load = P.minl;
	m->id_max_load = P.maxl;
	m->id_min_val  = vp_u64("vp_in_min", 1);
	m->id_max_val  = vp_u64("vp_in_max", 0xffffffffu);
	m->id_dyn_val  = vp_u64("vp_in_dyn", 0);
	m->id_random   = vp_u64("vp_in_random", 0) != 0;
	m->id_static   = false; /* registry of static maps not replayed */
	m->id_entries  = P.cap ? calloc(P.cap, sizeof(nni_id_entry)) : NULL; /* exact size: ASan sees a stale index */
	for (unsigned i = 0; i < P.cap; i++) {
		m->id_entries[i].key   = P.key[i];
		m->id_entries[i].skips = P.skips[i];
		m->id_entries[i].val   = P.live[i] ? VAL(i) : NULL;
	}
}

static void
show_pre(void)
{
	printf("table: cap=%u count=%u load=%u (thresholds %u..%u) %s\n", P.cap, P.count, P.load, P.minl, P.maxl,
	    P.consistent ? "[satisfies the real probe-chain invariant]" : "[structurally valid only: not a table the API produces]");
	for (unsigned i = 0; i < P.cap; i++)
		if (P.live[i] || P.skips[i] || P.key[i])
			printf("  slot %2u: key=%llu %s skips=%u\n", i, (unsigned long long) P.key[i], P.live[i] ? "live" : "dead", P.skips[i]);
}

/* hang guard: on a table that satisfies the real invariant a hang IS the defect */
static const char *vp_running = "";
static uint64_t    vp_running_id;
void
__asan_on_error(void) /* hook called by ASan before it prints its report */
{
	printf("REPLAY-FAIL: memory error inside %s (key %llu) on the table above\n", vp_running, (unsigned long long) vp_running_id);
	fflush(stdout);
}
static void
on_alarm(int sig)
{
	(void) sig;
	if (P.consistent) {
		printf("REPLAY-FAIL: %s does not terminate (10 s) on a well-formed table\nREPLAY-RESULT: reproduced (hang)\n", vp_running);
		_exit(1);
	}
	printf("REPLAY-RESULT: skipped (%s did not finish on a table the API cannot produce)\n", vp_running);
	_exit(3);
}

#define SCALAR_NOW(m) \
	(((m)->id_cap == 0) ? ((m)->id_count == 0 && (m)->id_load == 0 && (m)->id_min_load == 0 && (m)->id_max_load == 0) \
	                    : (VP_POW2((m)->id_cap) && (m)->id_cap >= 8 && (m)->id_min_load == IDM_MINL((m)->id_cap) && (m)->id_max_load == IDM_MAXL((m)->id_cap)))
#define IS_NEWCAP(cap, count) \
	(VP_POW2(cap) && (cap) >= 8 && (uint64_t) (cap) >= 2 * (uint64_t) (count) && ((cap) == 8 || (uint64_t) ((cap) / 2) < 2 * (uint64_t) (count)))
#define RANGE_SAME(m) ((m)->id_min_val == vp_u64("vp_in_min", 1) && (m)->id_max_val == vp_u64("vp_in_max", 0xffffffffu) && (m)->id_random == (vp_u64("vp_in_random", 0) != 0) && !(m)->id_static)

/* entries array as before: same block, nothing allocated or released, (for failure paths) content identical */
static bool
kept(const nni_id_map *m, const nni_id_entry *e0)
{
	return (m->id_cap == P.cap && m->id_entries == e0 && vp_n_alloc == 0 && vp_n_free == 0);
}
static bool
fresh(const nni_id_map *m)
{
	return (m->id_cap != P.cap && m->id_cap != 0 && vp_n_alloc == 1 && vp_n_free == (P.cap != 0 ? 1 : 0));
}
static bool
slots_same(const nni_id_map *m, bool with_skips)
{
	for (unsigned i = 0; i < P.cap; i++) {
		if (m->id_entries[i].key != P.key[i] || m->id_entries[i].val != (P.live[i] ? VAL(i) : NULL))
			return false;
		if (with_skips && m->id_entries[i].skips != P.skips[i])
			return false;
	}
	return true;
}
/* finite-map view (C18): every key that was live still maps to its value (except `but`) */
static void
others_kept(nni_id_map *m, uint64_t but)
{
	for (unsigned i = 0; i < P.cap; i++) {
		if (P.live[i] && P.key[i] != but) {
			void *v = nni_id_get(m, P.key[i]);
			if (v != VAL(i))
				printf("  key %llu: value before %p, nni_id_get now %p\n", (unsigned long long) P.key[i], VAL(i), v);
			VP_EXPECT(v == VAL(i));
		}
	}
}
/* termination of the real code on a structurally-valid-only table: enough empty slots */
static bool
can_run(bool inserts)
{
	uint32_t nc = 8;
	while (nc < P.count * 2 && nc < (1u << 30))
		nc *= 2;
	bool resize = !(P.load < P.maxl && P.load >= P.minl) && nc != P.cap;
	uint32_t capa = resize ? nc : P.cap;
	if (P.consistent)
		return true;
	if (P.nlive + (inserts ? 1 : 0) > capa || P.nlive > nc) {
		printf("  (not run: %u live slots do not fit the capacity %u chosen for count=%u)\n", P.nlive, capa, P.count);
		return false;
	}
	return true;
}

static void
one_resize(int refuse)
{
	nni_id_map m;
	build_map(&m);
	nni_id_entry *e0 = m.id_entries;
	vp_n_alloc = vp_n_free = vp_n_refused = 0;
	vp_fail_alloc = refuse;
	vp_running    = "id_resize";
	int rv        = id_resize(&m);
	vp_fail_alloc = 0;
	bool in_thr = (P.load < P.maxl && P.load >= P.minl);
	printf("id_resize (allocator %s) -> %d; now cap=%u count=%u load=%u thresholds %u..%u\n", refuse ? "refuses" : "ok", rv,
	    m.id_cap, m.id_count, m.id_load, m.id_min_load, m.id_max_load);
	VP_EXPECT(rv == 0 || rv == NNG_ENOMEM);
	VP_EXPECT(RANGE_SAME(&m) && m.id_dyn_val == vp_u64("vp_in_dyn", 0) && m.id_count == P.count);
	if (rv != 0) {
		/* allocation failure: the map is exactly as before */
		VP_EXPECT(m.id_load == P.load && m.id_min_load == P.minl && m.id_max_load == P.maxl);
		VP_EXPECT(kept(&m, e0) && slots_same(&m, true));
		VP_EXPECT(!in_thr && vp_n_refused > 0);
	} else {
		VP_EXPECT(SCALAR_NOW(&m));
		VP_EXPECT((m.id_load == P.load && kept(&m, e0) && slots_same(&m, true)) || (fresh(&m) && IS_NEWCAP(m.id_cap, m.id_count)));
		VP_EXPECT(m.id_cap != 0 && ((m.id_load < m.id_max_load && m.id_load >= m.id_min_load) || IS_NEWCAP(m.id_cap, m.id_count)));
		if (P.consistent)
			others_kept(&m, UINT64_MAX);
	}
	if (in_thr)
		VP_EXPECT(rv == 0 && m.id_cap == P.cap);
	if (rv != 0 && P.consistent && m.id_cap == P.cap && m.id_cap != 0) {
		/* what a user sees next (C20: a failed grow leaves a usable table): fill it up */
		uint64_t k = 1000;
		int      n = 0;
		vp_running = "nni_id_set after the failed resize";
		while (m.id_count < m.id_cap && n < 64) {
			vp_fail_alloc = 1;
			int r2        = nni_id_set(&m, k++, NEWVAL);
			vp_fail_alloc = 0;
			n++;
			if (r2 != 0)
				break;
		}
	}
	free(m.id_entries);
}

static void
one_set(uint64_t id, int refuse, bool is_cex)
{
	nni_id_map m;
	build_map(&m);
	nni_id_entry *e0 = m.id_entries;
	int           was = -1;
	for (unsigned i = 0; i < P.cap; i++)
		if (P.live[i] && P.key[i] == id && was < 0)
			was = (int) i;
	vp_n_alloc = vp_n_free = vp_n_refused = 0;
	vp_fail_alloc = refuse;
	vp_running    = "nni_id_set";
	vp_running_id = id;
	int rv        = nni_id_set(&m, id, NEWVAL);
	vp_fail_alloc = 0;
	int before    = vp_fail_count;
	VP_EXPECT(rv == 0 || rv == NNG_ENOMEM);
	VP_EXPECT(RANGE_SAME(&m) && m.id_dyn_val == vp_u64("vp_in_dyn", 0));
	if (rv != 0) {
		VP_EXPECT(m.id_count == P.count && m.id_load == P.load && m.id_min_load == P.minl && m.id_max_load == P.maxl);
		VP_EXPECT(kept(&m, e0) && slots_same(&m, true));
		VP_EXPECT(vp_n_refused > 0);
	} else {
		VP_EXPECT(SCALAR_NOW(&m) && m.id_cap != 0);
		VP_EXPECT(m.id_count == P.count || m.id_count == P.count + 1);
		VP_EXPECT(kept(&m, e0) || fresh(&m));
		/* some slot holds (id, val) */
		int at = -1;
		for (unsigned i = 0; i < m.id_cap; i++)
			if (m.id_entries[i].key == id && m.id_entries[i].val == NEWVAL)
				at = (int) i;
		VP_EXPECT(at >= 0);
		if (kept(&m, e0)) {
			/* frame: every other slot keeps its key and value; an overwrite changes nothing but the value */
			for (unsigned i = 0; i < P.cap; i++)
				if ((int) i != at)
					VP_EXPECT(m.id_entries[i].key == P.key[i] && m.id_entries[i].val == (P.live[i] ? VAL(i) : NULL));
			if (m.id_count == P.count)
				VP_EXPECT(m.id_load == P.load);
		}
		if (P.consistent) {
			/* finite map (C18): the id now maps to val, nothing else changed, count tells the truth */
			VP_EXPECT(nni_id_get(&m, id) == NEWVAL);
			VP_EXPECT(m.id_count == P.count + (was < 0 ? 1 : 0));
			others_kept(&m, id);
		}
	}
	if (is_cex || vp_fail_count != before)
		printf("nni_id_set(id=%llu%s, allocator %s) -> %d; now cap=%u count=%u load=%u%s\n", (unsigned long long) id,
		    was >= 0 ? " [present]" : " [absent]", refuse ? "refuses" : "ok", rv, m.id_cap, m.id_count, m.id_load,
		    is_cex ? "   [counterexample argument]" : "   [same table, other key]");
	free(m.id_entries);
}

static void
one_remove(uint64_t id, int refuse, bool is_cex)
{
	nni_id_map m;
	build_map(&m);
	nni_id_entry *e0 = m.id_entries;
	int           was = -1;
	for (unsigned i = 0; i < P.cap; i++)
		if (P.live[i] && P.key[i] == id && was < 0)
			was = (int) i;
	vp_n_alloc = vp_n_free = vp_n_refused = 0;
	vp_fail_alloc = refuse;
	vp_running    = "nni_id_remove";
	vp_running_id = id;
	int rv        = nni_id_remove(&m, id);
	vp_fail_alloc = 0;
	int before    = vp_fail_count;
	VP_EXPECT(rv == 0 || rv == NNG_ENOENT);
	VP_EXPECT(RANGE_SAME(&m) && m.id_dyn_val == vp_u64("vp_in_dyn", 0));
	if (P.count == 0)
		VP_EXPECT(rv == NNG_ENOENT);
	if (rv != 0) {
		VP_EXPECT(m.id_count == P.count && m.id_load == P.load && m.id_min_load == P.minl && m.id_max_load == P.maxl);
		VP_EXPECT(kept(&m, e0) && slots_same(&m, true));
		if (P.consistent)
			VP_EXPECT(was < 0);
	} else {
		VP_EXPECT(SCALAR_NOW(&m) && m.id_cap != 0 && P.count >= 1 && m.id_count == P.count - 1);
		VP_EXPECT(kept(&m, e0) || fresh(&m));
		VP_EXPECT(was >= 0); /* the reported slot held this id with a value */
		if (kept(&m, e0)) {
			/* exactly one slot that held the id is empty now, nothing else lost its key or value */
			int changed = 0, good = 0;
			for (unsigned i = 0; i < P.cap; i++) {
				bool same = m.id_entries[i].key == P.key[i] && m.id_entries[i].val == (P.live[i] ? VAL(i) : NULL);
				if (!same) {
					changed++;
					good += (P.live[i] && P.key[i] == id && m.id_entries[i].val == NULL && m.id_entries[i].key == 0);
				}
			}
			VP_EXPECT(changed == 1 && good == 1);
		}
		if (P.consistent) {
			VP_EXPECT(nni_id_get(&m, id) == NULL);
			others_kept(&m, id);
		}
	}
	if (is_cex || vp_fail_count != before)
		printf("nni_id_remove(id=%llu%s, allocator %s) -> %d; now cap=%u count=%u load=%u%s\n", (unsigned long long) id,
		    was >= 0 ? " [present]" : " [absent]", refuse ? "refuses" : "ok", rv, m.id_cap, m.id_count, m.id_load,
		    is_cex ? "   [counterexample argument]" : "   [same table, other key]");
	free(m.id_entries);
}

static void
one_get(uint64_t id, bool is_cex)
{
	nni_id_map m;
	build_map(&m);
	nni_id_entry *e0 = m.id_entries;
	vp_n_alloc = vp_n_free = 0;
	vp_running = "nni_id_get";
	void *rv   = nni_id_get(&m, id);
	int before = vp_fail_count, at = -1, was = -1;
	for (unsigned i = 0; i < P.cap; i++) {
		if (rv != NULL && P.key[i] == id && P.live[i] && VAL(i) == rv)
			at = (int) i;
		if (P.live[i] && P.key[i] == id && was < 0)
			was = (int) i;
	}
	VP_EXPECT(rv == NULL || at >= 0);
	if (P.count == 0)
		VP_EXPECT(rv == NULL);
	VP_EXPECT(kept(&m, e0) && slots_same(&m, true) && m.id_count == P.count && m.id_load == P.load);
	if (P.consistent)
		VP_EXPECT(rv == (was >= 0 ? VAL(was) : NULL)); /* finite map: the value stored under the id */
	if (is_cex || vp_fail_count != before)
		printf("nni_id_get(id=%llu%s) -> %p%s\n", (unsigned long long) id, was >= 0 ? " [present]" : " [absent]", rv,
		    is_cex ? "   [counterexample argument]" : "   [same table, other key]");
	free(m.id_entries);
}

static int
replay_table(const char *fn)
{
	if (!load_pre())
		return 3;
	show_pre();
	signal(SIGALRM, on_alarm);
	alarm(10);
	uint64_t id = vp_u64("vp_arg_id", 1);
	/* candidate keys: the counterexample's, then every live key of the same table and one absent key
	 * (id_find / id_resize are replaced by their contracts in the CBMC run, so the trace fixes the
	 * table but not always the key that shows the defect natively; every key is a legal argument) */
	uint64_t cand[T_MAXCAP + 3];
	unsigned nc = 0;
	cand[nc++]  = id;
	for (unsigned i = 0; i < P.cap; i++)
		if (P.live[i] && P.key[i] != id)
			cand[nc++] = P.key[i];
	uint64_t absent = 0x5151;
	for (unsigned i = 0; i < P.cap; i++)
		if (P.live[i] && P.key[i] == absent)
			absent += 0x10000, i = (unsigned) -1;
	if (absent != id)
		cand[nc++] = absent;
	if (strcmp(fn, "id_resize") == 0) {
		if (!can_run(false)) {
			printf("REPLAY-RESULT: skipped (the real code need not terminate on this table)\n");
			return 3;
		}
		one_resize(0);
		one_resize(1);
	} else if (strcmp(fn, "nni_id_set") == 0) {
		if (P.count >= IDM_MAXCOUNT || !can_run(true)) {
			printf("REPLAY-RESULT: skipped (pre-state outside what the real code can be run on)\n");
			return 3;
		}
		for (unsigned c = 0; c < nc; c++) {
			one_set(cand[c], 0, c == 0);
			one_set(cand[c], 1, c == 0);
		}
	} else if (strcmp(fn, "nni_id_remove") == 0) {
		if (!can_run(false)) {
			printf("REPLAY-RESULT: skipped (the real code need not terminate on this table)\n");
			return 3;
		}
		for (unsigned c = 0; c < nc; c++) {
			one_remove(cand[c], 0, c == 0);
			one_remove(cand[c], 1, c == 0);
		}
	} else {
		for (unsigned c = 0; c < nc; c++)
			one_get(cand[c], c == 0);
	}
	alarm(0);
	VP_DONE();
}

int
main(int argc, char **argv)
{
	nni_id_map  m;
	static int  obj;
	const char *fn = argc > 2 ? argv[2] : "nni_id_alloc";
	if (argc < 2) {
		fprintf(stderr, "usage: replay <inputs> <fn>\n");
		return 2;
	}
	vp_load(argv[1]);
	if (strcmp(fn, "nni_id_set") == 0 || strcmp(fn, "nni_id_remove") == 0 || strcmp(fn, "nni_id_get") == 0 || strcmp(fn, "id_resize") == 0)
		return replay_table(fn);
	uint64_t min = vp_u64("vp_in_min", 1), max = vp_u64("vp_in_max", 0xffffffffu);
	uint64_t dyn = vp_u64("vp_in_dyn", 0);
	uint64_t cnt = vp_u64("vp_in_count", 0);
	if (!(min >= 1 && min <= max) || !(dyn == 0 || (dyn >= min && dyn <= max))) {
		printf("REPLAY-RESULT: skipped (pre-state outside the contract's precondition)\n");
		return 3;
	}
	nni_id_map_init(&m, 1, 2, vp_u64("vp_in_random", 0) != 0);
	m.id_min_val = min;
	m.id_max_val = max;
	/* occupy up to 4 ids in cyclic order starting at the cursor (never the whole range
	 * unless the counterexample says the range is exhausted) */
	uint64_t range_m1 = max - min; /* range size - 1 */
	int      exhausted = cnt > range_m1;
	uint64_t fill = exhausted ? range_m1 + 1 : (cnt < 4 ? cnt : 4);
	if (fill > 4096) {
		printf("REPLAY-RESULT: skipped (range of %llu ids too large to exhaust natively)\n", (unsigned long long) fill);
		return 3;
	}
	if (!exhausted && fill > range_m1) {
		fill = range_m1;
	}
	uint64_t k = (dyn == 0) ? min : dyn;
	for (uint64_t i = 0; i < fill; i++) {
		if (nni_id_set(&m, k, &obj) != 0) {
			return 3;
		}
		k = (k >= max) ? min : k + 1;
	}
	m.id_dyn_val = dyn;
	uint32_t count0 = nni_id_count(&m);

	if (strcmp(fn, "nni_id_alloc") == 0) {
		uint64_t id = 0xdeadbeefcafef00dull;
		bool     was_used;
		int      rv = nni_id_alloc(&m, &id, &obj);
		printf("nni_id_alloc on {min=%llu max=%llu cursor=%llu, %u ids in use from the cursor on} -> rv=%d id=%llu cursor'=%llu\n",
		    (unsigned long long) min, (unsigned long long) max, (unsigned long long) dyn, count0, rv,
		    (unsigned long long) id, (unsigned long long) m.id_dyn_val);
		VP_EXPECT(rv == 0 || rv == NNG_ENOMEM);
		VP_EXPECT((count0 > range_m1) ? (rv == NNG_ENOMEM) : (rv == 0));
		if (rv == 0) {
			VP_EXPECT(IN_RANGE(&m, id));                       /* C18: within the range */
			VP_EXPECT(nni_id_count(&m) == count0 + 1);          /* C18: was not in use   */
			VP_EXPECT(nni_id_get(&m, id) == &obj);
			VP_EXPECT(m.id_dyn_val == (id >= max ? min : id + 1)); /* cursor = successor */
		} else {
			VP_EXPECT(id == 0xdeadbeefcafef00dull);
		}
		VP_EXPECT(exhausted || IN_RANGE(&m, m.id_dyn_val));
		(void) was_used;
	} else if (strcmp(fn, "nni_id_alloc32") == 0) {
		uint32_t id0 = (uint32_t) vp_u64("vp_in_idp", 77), id = id0;
		if (max > 0xffffffffu) {
			printf("REPLAY-RESULT: skipped (range does not fit 32 bits)\n");
			return 3;
		}
		if (!exhausted) {
			vp_fail_alloc = 1; /* the inner nni_id_set cannot allocate */
			if (m.id_cap != 0) {
				/* make sure the next insertion has to grow the table */
				m.id_load = m.id_max_load;
				m.id_count = m.id_cap;
			}
		}
		int rv = nni_id_alloc32(&m, &id, &obj);
		vp_fail_alloc = 0;
		printf("nni_id_alloc32 on {min=%llu max=%llu, %u ids held, %s} with *idp=%u -> rv=%d *idp=%u\n",
		    (unsigned long long) min, (unsigned long long) max, count0,
		    exhausted ? "range exhausted" : "allocator refuses", id0, rv, id);
		VP_EXPECT(rv == 0 || rv == NNG_ENOMEM);
		if (rv != 0) {
			VP_EXPECT(id == id0); /* no id handed out on failure */
		} else {
			VP_EXPECT(IN_RANGE(&m, (uint64_t) id));
		}
	} else {
		printf("REPLAY-RESULT: skipped (no replay for %s)\n", fn);
		return 3;
	}
	VP_DONE();
}
