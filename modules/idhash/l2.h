/* Layer 2: finite-map behaviour at table capacity 8 (the initial and smallest
 * capacity of the real table).  Contract-only symbols l2_*; the REAL functions
 * are checked against them (--enforce-contract nni_id_xxx/l2_xxx8), loops
 * unwound to the capacity with unwinding assertions (=> termination).
 *
 * Representation invariant L2_INV8 (probe chains, exact):
 *   rank R8(x) of a slot on the probe cycle 0,1,6,7,4,5,2,3 (lemma unit
 *   idhash_l2_cycle8: R8(NEXT(x)) == R8(x)+1 mod 8), D8(h,j) = steps from h to j;
 *   a live key sitting in slot i with home h CROSSES slot j iff D8(h,j) < D8(h,i);
 *   skips[j]  == number of live keys crossing j          (what id_find relies on)
 *   id_load   == sum over live keys of 1 + D8(home, slot)
 *   id_count  == number of live slots;  live keys pairwise distinct.
 * Abstract value: L2_LOOKUP(m,k) = val of the live slot holding k, else NULL.
 */
#ifndef VP_IDHASH_L2_H
#define VP_IDHASH_L2_H
/* clang-format off */
#define L2_R8(x) ((((x) ^ (((x) & 2u) << 1)) & 7u))
#define L2_D8(h, j) ((L2_R8((unsigned) (j)) - L2_R8((unsigned) (h))) & 7u)

/* The invariant and the abstraction function are written as loop code over the
 * 8 slots (constant bounds, unwound by symex): the same predicate as one closed
 * expression made CBMC's symbolic execution take > 110 s per evaluation. */
static bool
l2_inv8(const nni_id_map *m)
{
	const struct nni_id_entry *e = m->id_entries;
	uint8_t  cnt = 0, load = 0; /* at most 8 and 64: no wrap */
	uint8_t  cross[8] = { 0, 0, 0, 0, 0, 0, 0, 0 };
	bool     ok = true;
	if (m->id_cap != 8 || m->id_min_load != 0 || m->id_max_load != 5) {
		return (false);
	}
	for (unsigned i = 0; i < 8; i++) {
		if (e[i].val != NULL) {
			unsigned h = (unsigned) (e[i].key & 7);
			unsigned d = L2_D8(h, i);
			cnt++;
			load = (uint8_t) (load + 1 + d);
			for (unsigned j = 0; j < 8; j++) {
				if (L2_D8(h, j) < d) {
					cross[j]++; /* the key in slot i crosses slot j */
				}
				if (j > i && e[j].val != NULL && e[j].key == e[i].key) {
					ok = false; /* live keys are pairwise distinct */
				}
			}
		}
	}
	for (unsigned j = 0; j < 8; j++) {
		if (e[j].skips != cross[j]) {
			ok = false;
		}
	}
	return (ok && m->id_count == cnt && m->id_load == load);
}

static size_t
l2_slotof8(const nni_id_map *m, uint64_t k)
{
	for (unsigned i = 0; i < 8; i++) {
		if (m->id_entries[i].val != NULL && m->id_entries[i].key == k) {
			return (i);
		}
	}
	return (IDM_NOTFOUND);
}

static void *
l2_lookup8(const nni_id_map *m, uint64_t k)
{
	for (unsigned i = 0; i < 8; i++) {
		if (m->id_entries[i].val != NULL && m->id_entries[i].key == k) {
			return (m->id_entries[i].val);
		}
	}
	return (NULL);
}
#define L2_INV8_BODY(m) l2_inv8(m)
#define L2_LOOKUP(m, k) l2_lookup8((m), (k))
#define L2_SLOTOF(m, k) l2_slotof8((m), (k))
#ifndef L2_SHAPE8
#define L2_SHAPE8(m) (__CPROVER_is_fresh((m), sizeof(nni_id_map)) && __CPROVER_is_fresh((m)->id_entries, 8 * IDM_ENT_SZ))
#endif

#ifdef VP_L2_GROW_ATTEMPT /* not decided, see spec.json not_decided: kept as a record of what was tried */
/* ---- capacity 16 (only for the growth step 8 -> 16) */
static const uint8_t l2_r16[16] = { 0, 1, 6, 15, 12, 13, 2, 11, 8, 9, 14, 7, 4, 5, 10, 3 }; /* rank on the cycle 0,1,6,15,12,13,2,11,8,9,14,7,4,5,10,3 */
#define L2_D16(h, j) ((unsigned) (l2_r16[(j)] - l2_r16[(h)]) & 15u)
static bool
l2_inv16(const nni_id_map *m)
{
	const struct nni_id_entry *e = m->id_entries;
	uint8_t  cnt = 0, load = 0;
	uint8_t  cross[16] = { 0, 0, 0, 0, 0, 0, 0, 0, 0, 0, 0, 0, 0, 0, 0, 0 };
	bool     ok = true;
	if (m->id_cap != 16 || m->id_min_load != 2 || m->id_max_load != 10) {
		return (false);
	}
	for (unsigned i = 0; i < 16; i++) {
		if (e[i].val != NULL) {
			unsigned h = (unsigned) (e[i].key & 15);
			unsigned d = L2_D16(h, i);
			cnt++;
			load = (uint8_t) (load + 1 + d);
			for (unsigned j = 0; j < 16; j++) {
				if (L2_D16(h, j) < d) {
					cross[j]++;
				}
				if (j > i && e[j].val != NULL && e[j].key == e[i].key) {
					ok = false;
				}
			}
		}
	}
	for (unsigned j = 0; j < 16; j++) {
		if (e[j].skips != cross[j]) {
			ok = false;
		}
	}
	return (ok && m->id_count == cnt && m->id_load == load);
}
static void *
l2_lookup16(const nni_id_map *m, uint64_t k)
{
	for (unsigned i = 0; i < 16; i++) {
		if (m->id_entries[i].val != NULL && m->id_entries[i].key == k) {
			return (m->id_entries[i].val);
		}
	}
	return (NULL);
}

#endif /* VP_L2_GROW_ATTEMPT */

/* ghost equations: g_kv is what the (arbitrary) key g_kk maps to before the call,
 * g_j is the slot of the operated key before the call */
#define L2_GHOST_PRE(m, id) (g_kv == L2_LOOKUP(m, g_kk) && g_j == L2_SLOTOF(m, id))
#define L2_OTHERS_SAME(m, id) ((g_kk != (id)) ==> L2_LOOKUP(m, g_kk) == g_kv)
/* the table is not reallocated, nothing allocated or released */
#define L2_SAME_TABLE(m) (IDM_SAME_PTR((m)->id_entries) && VP_HEAP_DELTA(0, 0))

/* id_resize at capacity 8 with at most 4 live ids does nothing at all (checked on
 * the real function by unit idhash_l2_resize8; used in place of the call by the
 * other Layer 2 units so that no second table has to be modelled) */
int l2_resize8(nni_id_map *m)
__CPROVER_requires(__CPROVER_is_fresh(m, sizeof(nni_id_map)))
__CPROVER_requires(m->id_cap == 8 && m->id_min_load == 0 && m->id_max_load == 5 && m->id_count <= 4 && !m->id_static)
__CPROVER_assigns()
__CPROVER_ensures(RV == 0)
;

/* Exhaustive case split on the home slot of the operated key: a unit built with
 * -DL2_H=h proves the contract for the keys with (id & 7) == h; the eight units
 * h = 0..7 together cover every key.  (One unit for all homes did not finish.) */
#ifdef L2_H
#define L2_CASE_SPLIT(id) __CPROVER_requires(((id) & 7) == L2_H)
#else
#define L2_CASE_SPLIT(id)
#endif

#ifdef VP_L2_GROW_ATTEMPT
/* growth step: id_resize on a full capacity-8 table (5 live ids) builds a
 * capacity-16 table with the invariant and the SAME mapping; ENOMEM: unchanged */
int l2_grow8(nni_id_map *m)
__CPROVER_requires(L2_SHAPE8(m))
__CPROVER_requires(L2_INV8_BODY(m))
__CPROVER_requires(m->id_count == 5 && !m->id_static && g_kv == L2_LOOKUP(m, g_kk))
__CPROVER_assigns(*m, VP_HEAP_GHOSTS)
__CPROVER_frees(m->id_entries)
__CPROVER_ensures(RV == 0 || RV == NNG_ENOMEM)
__CPROVER_ensures(IDM_RANGE_UNCHANGED(m) && m->id_dyn_val == OLD(m->id_dyn_val) && m->id_count == 5)
__CPROVER_ensures(RV != 0 ==> (VP_HEAP_DELTA(0, 0) && !__CPROVER_was_freed(OLD(m->id_entries)) && IDM_SAME_PTR(m->id_entries)))
__CPROVER_ensures(RV != 0 ==> (L2_INV8_BODY(m) && L2_LOOKUP(m, g_kk) == g_kv))
__CPROVER_ensures(RV == 0 ==> (VP_HEAP_DELTA(1, 1) && __CPROVER_was_freed(OLD(m->id_entries)) && __CPROVER_is_fresh(m->id_entries, 16 * IDM_ENT_SZ)))
__CPROVER_ensures(RV == 0 ==> l2_inv16(m))
__CPROVER_ensures(RV == 0 ==> l2_lookup16(m, g_kk) == g_kv)
;
#endif /* VP_L2_GROW_ATTEMPT */

/* find is COMPLETE: it reports the slot of the key iff some live slot holds it */
size_t l2_find8(nni_id_map *m, uint64_t id)
__CPROVER_requires(L2_SHAPE8(m))
__CPROVER_requires(L2_INV8_BODY(m))
__CPROVER_assigns()
__CPROVER_ensures(RV == L2_SLOTOF(m, id))
;

/* get = lookup */
void *l2_get8(nni_id_map *m, uint64_t id)
__CPROVER_requires(L2_SHAPE8(m))
__CPROVER_requires(L2_INV8_BODY(m))
__CPROVER_assigns(g_found)
__CPROVER_ensures(RV == L2_LOOKUP(m, id))
;

/* set = map update (at most 4 live ids before: the table stays at capacity 8) */
int l2_set8(nni_id_map *m, uint64_t id, void *val)
__CPROVER_requires(L2_SHAPE8(m))
__CPROVER_requires(L2_INV8_BODY(m))
__CPROVER_requires(L2_GHOST_PRE(m, id))
__CPROVER_requires(m->id_count <= 4 && !m->id_static && val != NULL)
L2_CASE_SPLIT(id)
__CPROVER_assigns(*m, __CPROVER_object_whole(m->id_entries), g_slot)
__CPROVER_ensures(RV == 0)
__CPROVER_ensures(IDM_RANGE_UNCHANGED(m) && m->id_dyn_val == OLD(m->id_dyn_val))
__CPROVER_ensures(L2_SAME_TABLE(m))
__CPROVER_ensures(L2_INV8_BODY(m))
__CPROVER_ensures(L2_LOOKUP(m, id) == val)
__CPROVER_ensures(L2_OTHERS_SAME(m, id))
__CPROVER_ensures(m->id_count == OLD(m->id_count) + (g_j == IDM_NOTFOUND ? 1 : 0))
;

/* first insertion into an empty map (capacity 0 -> 8): establishes the invariant */
int l2_set_first(nni_id_map *m, uint64_t id, void *val)
__CPROVER_requires(__CPROVER_is_fresh(m, sizeof(nni_id_map)))
__CPROVER_requires(m->id_cap == 0 && m->id_entries == NULL && IDM_SCALAR(m) && !m->id_static && val != NULL)
__CPROVER_assigns(*m, VP_HEAP_GHOSTS, g_slot)
__CPROVER_ensures(RV == 0 || RV == NNG_ENOMEM)
__CPROVER_ensures(IDM_RANGE_UNCHANGED(m) && m->id_dyn_val == OLD(m->id_dyn_val))
__CPROVER_ensures(RV != 0 ==> (m->id_cap == 0 && m->id_entries == NULL && IDM_SCALAR(m) && VP_HEAP_DELTA(0, 0)))
__CPROVER_ensures(RV == 0 ==> (VP_HEAP_DELTA(1, 0) && __CPROVER_is_fresh(m->id_entries, 8 * IDM_ENT_SZ)))
__CPROVER_ensures(RV == 0 ==> L2_INV8_BODY(m))
__CPROVER_ensures(RV == 0 ==> (m->id_count == 1 && L2_LOOKUP(m, id) == val))
__CPROVER_ensures((RV == 0 && g_kk != id) ==> L2_LOOKUP(m, g_kk) == NULL)
;

/* remove = map delete (at most 5 live ids: the table stays at capacity 8) */
int l2_remove8(nni_id_map *m, uint64_t id)
__CPROVER_requires(L2_SHAPE8(m))
__CPROVER_requires(L2_INV8_BODY(m))
__CPROVER_requires(L2_GHOST_PRE(m, id))
__CPROVER_requires(m->id_count <= 5 && !m->id_static)
L2_CASE_SPLIT(id)
__CPROVER_assigns(*m, __CPROVER_object_whole(m->id_entries), g_found)
__CPROVER_ensures(RV == (g_j == IDM_NOTFOUND ? NNG_ENOENT : 0))
__CPROVER_ensures(IDM_RANGE_UNCHANGED(m) && m->id_dyn_val == OLD(m->id_dyn_val))
__CPROVER_ensures(L2_SAME_TABLE(m))
__CPROVER_ensures(L2_INV8_BODY(m))
__CPROVER_ensures(L2_LOOKUP(m, id) == NULL)
__CPROVER_ensures(L2_OTHERS_SAME(m, id))
__CPROVER_ensures(m->id_count == OLD(m->id_count) - (g_j == IDM_NOTFOUND ? 0 : 1))
;

/* alloc = fresh key: the issued id was NOT in the map (unique among live objects) */
int l2_alloc8(nni_id_map *m, uint64_t *idp, void *val)
__CPROVER_requires(L2_SHAPE8(m))
__CPROVER_requires(L2_INV8_BODY(m))
__CPROVER_requires(g_kv == L2_LOOKUP(m, g_kk) && g_j == IDM_NOTFOUND)
__CPROVER_requires(m->id_count <= 4 && !m->id_static && val != NULL)
__CPROVER_requires(IDM_RANGE_OK(m) && IDM_CURSOR_OK(m))
__CPROVER_requires(__CPROVER_is_fresh(idp, sizeof(*idp)))
__CPROVER_assigns(*m, __CPROVER_object_whole(m->id_entries), g_slot, *idp)
__CPROVER_ensures(L2_SAME_TABLE(m))
__CPROVER_ensures(L2_INV8_BODY(m))
__CPROVER_ensures((RV == NNG_ENOMEM) == (OLD(m->id_count) > m->id_max_val - m->id_min_val))
__CPROVER_ensures(RV == 0 || RV == NNG_ENOMEM)
__CPROVER_ensures(RV == 0 ==> (*idp >= m->id_min_val && *idp <= m->id_max_val))
/* uniqueness: the arbitrary key g_kk, if it was in use, is not the one issued ... */
__CPROVER_ensures((RV == 0 && g_kv != NULL) ==> *idp != g_kk)
/* ... and every mapping is kept, the new id maps to val */
__CPROVER_ensures(RV == 0 ==> L2_LOOKUP(m, *idp) == val)
__CPROVER_ensures((RV != 0 || g_kk != *idp) ==> L2_LOOKUP(m, g_kk) == g_kv)
__CPROVER_ensures(m->id_count == OLD(m->id_count) + (RV == 0 ? 1 : 0))
;
/* clang-format on */
#endif
