/* Contracts for src/core/idhash.c (redeclarations after the definitions).
 * Layer 1: structural contracts, for every table (symbolic capacity).
 * Postconditions are taken from property C18 (ids in range, unique among live
 * objects, not reissued before the range wraps; finite map) -- not from the
 * code.  What Layer 1 cannot express (probe-chain reachability) is in l2.h.
 */
#ifndef VP_IDHASH_CONTRACTS_H
#define VP_IDHASH_CONTRACTS_H
/* clang-format off */
#define RV __CPROVER_return_value
#define OLD(e) __CPROVER_old(e)
#define VP_HEAP_GHOSTS g_free_calls, g_alloc_ok

/* ------------------------------------------------------------ id_find
 * never writes; result is "not found" or a LIVE slot holding exactly this key;
 * an empty map has nothing; a key sitting in its home slot is always found. */
static size_t id_find(nni_id_map *m, uint64_t id)
__CPROVER_requires(IDM_WF_PRE(m))
__CPROVER_assigns()
__CPROVER_ensures(RV == IDM_NOTFOUND || (RV < m->id_cap && m->id_entries[RV].key == id && m->id_entries[RV].val != NULL))
__CPROVER_ensures(m->id_count == 0 ==> RV == IDM_NOTFOUND)
__CPROVER_ensures((m->id_count != 0 && m->id_entries[IDM_HOME(m, id)].key == id && m->id_entries[IDM_HOME(m, id)].val != NULL) ==> RV == IDM_HOME(m, id))
/* a dead home slot that no probe path crosses ends the search at once */
__CPROVER_ensures((m->id_count != 0 && m->id_entries[IDM_HOME(m, id)].val == NULL && m->id_entries[IDM_HOME(m, id)].skips == 0) ==> RV == IDM_NOTFOUND)
;

/* ------------------------------------------------------------ nni_id_get
 * g_found (woven before each return) is the witness slot. */
void *nni_id_get(nni_id_map *m, uint64_t id)
__CPROVER_requires(IDM_WF_PRE(m))
__CPROVER_assigns(g_found)
__CPROVER_ensures(RV == NULL ==> g_found == IDM_NOTFOUND)
__CPROVER_ensures(RV != NULL ==> (g_found < m->id_cap && m->id_entries[g_found].key == id && m->id_entries[g_found].val == RV))
__CPROVER_ensures(m->id_count == 0 ==> RV == NULL)
;

uint32_t nni_id_count(const nni_id_map *m)
__CPROVER_requires(__CPROVER_is_fresh(m, sizeof(nni_id_map)))
__CPROVER_assigns()
__CPROVER_ensures(RV == m->id_count)
;

/* ------------------------------------------------------------ nni_id_map_init
 * NNI_ASSERT(hi > lo) in the code: caller obligation after defaulting. */
void nni_id_map_init(nni_id_map *m, uint64_t lo, uint64_t hi, bool randomize)
__CPROVER_requires(__CPROVER_is_fresh(m, sizeof(nni_id_map)))
__CPROVER_requires((hi == 0 ? 0xffffffffu : hi) > (lo == 0 ? 1 : lo))
__CPROVER_assigns(*m)
__CPROVER_ensures(m->id_cap == 0 && m->id_entries == NULL && IDM_SCALAR(m))
__CPROVER_ensures(m->id_min_val == (lo == 0 ? 1 : lo) && m->id_max_val == (hi == 0 ? 0xffffffffu : hi))
__CPROVER_ensures(IDM_RANGE_OK(m) && m->id_dyn_val == 0 && m->id_random == randomize)
__CPROVER_ensures(!m->id_static && !m->id_registered)
;

/* ------------------------------------------------------------ nni_id_map_fini */
void nni_id_map_fini(nni_id_map *m)
__CPROVER_requires(IDM_WF_PRE(m))
__CPROVER_assigns(m->id_entries, m->id_cap, m->id_count, m->id_load, m->id_min_load, m->id_max_load, VP_HEAP_GHOSTS)
__CPROVER_frees(m->id_entries)
__CPROVER_ensures(m->id_cap == 0 && m->id_entries == NULL && IDM_SCALAR(m))
__CPROVER_ensures(VP_HEAP_DELTA(0, (OLD(m->id_cap) != 0 ? 1 : 0)))
__CPROVER_ensures(OLD(m->id_cap) != 0 ==> __CPROVER_was_freed(OLD(m->id_entries)))
;

/* ------------------------------------------------------------ nni_id_visit
 * cursor strictly increases on success; the reported pair is that of the first
 * live slot at or after the cursor; false exactly when there is none. */
bool nni_id_visit(nni_id_map *m, uint64_t *keyp, void **valp, uint32_t *cursor)
__CPROVER_requires(IDM_WF_PRE(m))
__CPROVER_requires(__CPROVER_is_fresh(cursor, sizeof(*cursor)))
__CPROVER_requires(keyp == NULL || __CPROVER_is_fresh(keyp, sizeof(*keyp)))
__CPROVER_requires(valp == NULL || __CPROVER_is_fresh(valp, sizeof(*valp)))
__CPROVER_assigns(*cursor; keyp != NULL: *keyp; valp != NULL: *valp)
__CPROVER_ensures(RV ==> (*cursor > OLD(*cursor) && *cursor <= m->id_cap && m->id_entries[*cursor - 1].val != NULL))
__CPROVER_ensures((RV && keyp != NULL) ==> *keyp == m->id_entries[*cursor - 1].key)
__CPROVER_ensures((RV && valp != NULL) ==> *valp == m->id_entries[*cursor - 1].val)
/* nothing live was skipped */
__CPROVER_ensures((RV && g_k >= OLD(*cursor) && g_k < (size_t) *cursor - 1) ==> m->id_entries[g_k].val == NULL)
/* false: cursor does not move backwards, and no live slot at or after it */
__CPROVER_ensures(!RV ==> (*cursor >= OLD(*cursor) && *cursor >= m->id_cap && (OLD(*cursor) >= m->id_cap ==> *cursor == OLD(*cursor))))
__CPROVER_ensures((!RV && g_k >= OLD(*cursor) && g_k < m->id_cap) ==> m->id_entries[g_k].val == NULL)
;

#include "contracts_mut.h"
#include "l2.h"
/* clang-format on */
#endif
