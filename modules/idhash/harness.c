/* One entry per function under contract: arguments unconstrained, the
 * precondition (assumed by the DFCC wrapper) is the only restriction. */
uint64_t nondet_u64(void);
#define VP_HAVOC_GHOSTS()                         \
	do {                                      \
		g_k     = nondet_size_t();        \
		g_j     = nondet_size_t();        \
		g_found = nondet_size_t();        \
		g_slot  = nondet_size_t();        \
		g_kk    = nondet_u64();           \
		g_kv    = nondet_ptr();           \
		g_ks    = nondet_u32();           \
		g_ents  = nondet_ptr();           \
		g_regs  = nondet_size_t();        \
		g_free_calls = nondet_size_t();   \
		g_alloc_ok = nondet_size_t();     \
		__CPROVER_assume(g_alloc_ok < ((size_t) 1 << 40)); \
		__CPROVER_assume(g_free_calls < ((size_t) 1 << 40)); \
		__CPROVER_assume(g_regs < ((size_t) 1 << 40)); \
	} while (0)

void h_find(void)  { nni_id_map *m; uint64_t id; VP_HAVOC_GHOSTS(); id_find(m, id); VP_CANARY(); }
void h_get(void)   { nni_id_map *m; uint64_t id; VP_HAVOC_GHOSTS(); nni_id_get(m, id); VP_CANARY(); }
void h_count(void) { nni_id_map *m; VP_HAVOC_GHOSTS(); nni_id_count(m); VP_CANARY(); }
void h_init(void)  { nni_id_map *m; uint64_t lo, hi; bool r; VP_HAVOC_GHOSTS(); nni_id_map_init(m, lo, hi, r); VP_CANARY(); }
void h_fini(void)  { nni_id_map *m; VP_HAVOC_GHOSTS(); nni_id_map_fini(m); VP_CANARY(); }
void h_visit(void) { nni_id_map *m; uint64_t *kp; void **vp; uint32_t *c; VP_HAVOC_GHOSTS(); nni_id_visit(m, kp, vp, c); VP_CANARY(); }
void h_register(void) { nni_id_map *m; VP_HAVOC_GHOSTS(); id_reg_num = nondet_int(); id_map_register(m); VP_CANARY(); }
void h_resize(void) { nni_id_map *m; VP_HAVOC_GHOSTS(); id_reg_num = nondet_int(); id_resize(m); VP_CANARY(); }
void h_set(void)    { nni_id_map *m; uint64_t id; void *v; VP_HAVOC_GHOSTS(); id_reg_num = nondet_int(); nni_id_set(m, id, v); VP_CANARY(); }
void h_remove(void) { nni_id_map *m; uint64_t id; VP_HAVOC_GHOSTS(); id_reg_num = nondet_int(); nni_id_remove(m, id); VP_CANARY(); }
void h_alloc(void)  { nni_id_map *m; uint64_t *idp; void *v; VP_HAVOC_GHOSTS(); id_reg_num = nondet_int(); nni_id_alloc(m, idp, v); VP_CANARY(); }
void h_alloc32(void) { nni_id_map *m; uint32_t *idp; void *v; VP_HAVOC_GHOSTS(); id_reg_num = nondet_int(); nni_id_alloc32(m, idp, v); VP_CANARY(); }
/* Layer 2 (capacity 8) */
void h_l2_find8(void)   { nni_id_map *m; uint64_t id; VP_HAVOC_GHOSTS(); id_find(m, id); VP_CANARY(); }
void h_l2_get8(void)    { nni_id_map *m; uint64_t id; VP_HAVOC_GHOSTS(); nni_id_get(m, id); VP_CANARY(); }
void h_l2_set8(void)    { nni_id_map *m; uint64_t id; void *v; VP_HAVOC_GHOSTS(); id_reg_num = nondet_int(); nni_id_set(m, id, v); VP_CANARY(); }
void h_l2_remove8(void) { nni_id_map *m; uint64_t id; VP_HAVOC_GHOSTS(); id_reg_num = nondet_int(); nni_id_remove(m, id); VP_CANARY(); }
void h_l2_alloc8(void)  { nni_id_map *m; uint64_t *idp; void *v; VP_HAVOC_GHOSTS(); id_reg_num = nondet_int(); nni_id_alloc(m, idp, v); VP_CANARY(); }
/* keeps the contract-only symbols of l2.h in the symbol table (never called) */
void h_l2_resize8(void) { nni_id_map *m; VP_HAVOC_GHOSTS(); id_reg_num = nondet_int(); id_resize(m); VP_CANARY(); }
void h_l2_set_first(void) { nni_id_map *m; uint64_t id; void *v; VP_HAVOC_GHOSTS(); id_reg_num = nondet_int(); nni_id_set(m, id, v); VP_CANARY(); }
void vp_l2_refs(void) { l2_set_first(NULL, 0, NULL); l2_resize8(NULL); l2_find8(NULL, 0); l2_get8(NULL, 0); l2_set8(NULL, 0, NULL); l2_remove8(NULL, 0); l2_alloc8(NULL, NULL, NULL); }

/* Lemma (no function under contract): for every capacity 2^k, k = 1..30, the
 * probe map NEXT(j) = (5j+1) & (cap-1) satisfies NEXT^(cap/2)(j) == j + cap/2
 * (mod cap) for ALL j.  Hence NEXT^cap = identity and no orbit has a length
 * dividing cap/2: every orbit has length exactly cap -- the probe sequence is a
 * single cycle through all slots.  (a,c) is NEXT^(2^(k-1)) written as the
 * affine map j -> a*j + c (mod 2^32), obtained by repeated squaring with
 * concrete constants; each doubling step is checked for all j. */
void
h_cycle_lemma(void)
{
	uint32_t j = nondet_u32();
	uint32_t a = 5, c = 1; /* NEXT itself: ID_NEXT(m, j) == (j * 5 + 1) & (cap - 1) */
	for (unsigned k = 1; k <= 30; k++) {
		uint32_t mask = ((uint32_t) 1 << k) - 1, half = (uint32_t) 1 << (k - 1);
		uint32_t a2 = a * a, c2 = a * c + c;
		__CPROVER_assert(((a * j + c) & mask) == ((j + half) & mask), "probe cycle: NEXT^(cap/2)(j) == j + cap/2 (mod cap)");
		__CPROVER_assert(a * (a * j + c) + c == a2 * j + c2, "probe cycle: doubling step (affine composition) for all j");
		a = a2;
		c = c2;
	}
	VP_CANARY();
}
