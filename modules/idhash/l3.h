/* Layer 3 (added later; everything is under VP_L3 so that the translation units
 * of the older units are unchanged): finite-map behaviour ACROSS the capacity
 * changes, and the allocation-failure clause stated on the abstract map.
 *
 *  idhash_l3_lowbits    lemma on the real ID_INDEX / ID_NEXT macros: the probe
 *                       sequence of a key depends only on key & (cap-1)
 *  idhash_l3_set8_nomem nni_id_set on ANY capacity-8 table with the exact
 *                       probe-chain invariant: a failed call (allocation refused
 *                       when the table has to grow) leaves the abstract map
 *                       unchanged for EVERY key, and the invariant intact
 *  idhash_l3_seq<N>     from nni_id_map_init, N symbolic operations (set /
 *                       remove, keys in a window base+{0..15}, symbolic base,
 *                       symbolic values, every allocation may fail) compared step
 *                       by step with a reference association list kept by the
 *                       harness: get for an ARBITRARY ghost key, count, result codes
 */
#ifdef VP_L3
/* clang-format off */

/* failed set: the abstract map is unchanged (clause "a failed operation leaves the map as it was") */
int l3_set8_nomem(nni_id_map *m, uint64_t id, void *val)
__CPROVER_requires(L2_SHAPE8(m))
__CPROVER_requires(L2_INV8_BODY(m))
__CPROVER_requires(g_kv == L2_LOOKUP(m, g_kk))
__CPROVER_requires(IDM_GHOST_PRE(m))
__CPROVER_requires(!m->id_static && val != NULL)
__CPROVER_assigns(m->id_cap != 0: __CPROVER_object_whole(m->id_entries); *m, VP_HEAP_GHOSTS, g_slot, IDM_REG_TARGETS)
__CPROVER_frees(m->id_entries)
__CPROVER_ensures(RV == 0 || RV == NNG_ENOMEM)
/* failure happens only when the table had to grow (load at the threshold and 5 or more live ids) ... */
__CPROVER_ensures(RV != 0 ==> (OLD(m->id_load) >= 5 && OLD(m->id_count) >= 5))
/* ... nothing was allocated or released, the table is the same object ... */
__CPROVER_ensures(RV != 0 ==> (VP_HEAP_DELTA(0, 0) && IDM_SAME_PTR(m->id_entries) && !__CPROVER_was_freed(OLD(m->id_entries))))
/* ... it still satisfies the probe-chain invariant, and EVERY key maps to what it mapped to */
__CPROVER_ensures(RV != 0 ==> L2_INV8_BODY(m))
__CPROVER_ensures(RV != 0 ==> L2_LOOKUP(m, g_kk) == g_kv)
__CPROVER_ensures(RV != 0 ==> m->id_count == OLD(m->id_count))
;
/* clang-format on */

void h_l3_set8_nomem(void) { nni_id_map *m; uint64_t id; void *v; VP_HAVOC_GHOSTS(); id_reg_num = nondet_int(); nni_id_set(m, id, v); VP_CANARY(); }
void vp_l3_refs(void) { l3_set8_nomem(NULL, 0, NULL); }

/* ---- lemma: only the low bits of a key matter for its probe sequence ---------- */
void
h_l3_lowbits(void)
{
	nni_id_map  mm;
	nni_id_map *m = &mm;
	uint64_t    a = nondet_u64(), b = nondet_u64();
	size_t      j = nondet_size_t(), j2 = nondet_size_t();
	unsigned    k = nondet_unsigned();
	if (k < 3 || k > 30) {
		k = 3;
	}
	m->id_cap = (uint32_t) 1 << k; /* every capacity the table can have: 8 .. 2^30 */
	/* home slot: in range, and a function of id & (cap-1) only */
	__CPROVER_assert(ID_INDEX(m, a) < m->id_cap, "home slot in range");
	__CPROVER_assert(ID_INDEX(m, a) == (a & (uint64_t) (m->id_cap - 1)), "home slot is the low bits of the key");
	if (((a ^ b) & (uint64_t) (m->id_cap - 1)) == 0) {
		__CPROVER_assert(ID_INDEX(m, a) == ID_INDEX(m, b), "keys with equal low bits share the home slot");
	}
	/* probe step: in range, and a function of j & (cap-1) only; so the whole probe
	 * sequence home, NEXT(home), NEXT(NEXT(home)), ... is determined by the low bits */
	__CPROVER_assert(ID_NEXT(m, j) < m->id_cap, "probe step in range");
	if (((j ^ j2) & (size_t) (m->id_cap - 1)) == 0) {
		__CPROVER_assert(ID_NEXT(m, j) == ID_NEXT(m, j2), "probe step depends on the slot only");
	}
	__CPROVER_assert(ID_NEXT(m, j) == ((5 * (j & (size_t) (m->id_cap - 1)) + 1) & (size_t) (m->id_cap - 1)), "probe step is 5j+1 modulo the capacity");
	/* adding a multiple of the capacity to a key does not move it */
	__CPROVER_assert(ID_INDEX(m, a + ((uint64_t) m->id_cap) * b) == ID_INDEX(m, a), "key + c*cap has the same home slot");
	VP_CANARY();
}

/* ---- bounded sequences from nni_id_map_init against a reference map ----------- */
#ifndef L3_N
#define L3_N 4
#endif
#ifndef L3_WIN
#define L3_WIN 16
#endif
void
h_l3_seq(void)
{
	nni_id_map  mm;
	nni_id_map *m = &mm;
	uint64_t    rk[L3_N]; /* reference association list: live pairs rk[i] -> rv[i], i < rn */
	void       *rv[L3_N];
	unsigned    rn   = 0;
	uint64_t    base = nondet_u64();
	uint64_t    gk   = nondet_u64(); /* the ghost key: ANY 64-bit key */
	VP_HAVOC_GHOSTS();
	id_reg_num = 0;
	nni_id_map_init(m, 0, 0, nondet_bool());
#ifdef L3_TABLE_FIRST
	/* Let the table come into being first (capacity 0 -> 8) with one set that is
	 * taken out again; if that first allocation is refused the scenario ends here
	 * (that outcome is the subject of idhash_l2_set_first).  Keeps ONE table object
	 * for the steps that follow, which is what makes the run affordable. */
	{
		uint64_t k0 = base + (nondet_u64() & (L3_WIN - 1));
		if (nni_id_set(m, k0, (void *) (uintptr_t) 1) != 0) {
			__CPROVER_assert(nni_id_get(m, gk) == NULL && nni_id_count(m) == 0, "failed first set: map still empty");
			return;
		}
		__CPROVER_assert(nni_id_get(m, k0) == (void *) (uintptr_t) 1, "first set: get returns the value");
		__CPROVER_assert(nni_id_remove(m, k0) == 0, "remove of the only key succeeds");
		__CPROVER_assert(nni_id_get(m, gk) == NULL && nni_id_count(m) == 0, "map empty again");
	}
#endif
	for (unsigned step = 0; step < L3_N; step++) {
		uint64_t key = base + (nondet_u64() & (L3_WIN - 1));
		bool     doset = nondet_bool();
		unsigned at  = L3_N; /* index of key in the reference, L3_N when absent */
		int      rc;
#ifdef L3_SETS_FIRST
		if (step < L3_SETS_FIRST) {
			doset = true;
		}
#endif
		for (unsigned i = 0; i < L3_N; i++) {
			if (i < rn && rk[i] == key) {
				at = i;
			}
		}
		if (doset) {
			void *val = (void *) (uintptr_t) (nondet_u32() | 1u); /* any non-NULL value */
			rc        = nni_id_set(m, key, val);
			__CPROVER_assert(rc == 0 || rc == NNG_ENOMEM, "set: 0 or NNG_ENOMEM");
			if (rc == 0) {
				if (at == L3_N) {
					at = rn++;
				}
				rk[at] = key;
				rv[at] = val;
			} /* failure: the reference is NOT changed -- the map must not have changed either */
		} else {
			rc = nni_id_remove(m, key);
			__CPROVER_assert(rc == (at == L3_N ? NNG_ENOENT : 0), "remove: NNG_ENOENT iff the key was absent");
			if (at != L3_N) {
				rn--;
				rk[at] = rk[rn];
				rv[at] = rv[rn];
			}
		}
		/* compare with the reference: the ghost key, the operated key, the count */
		{
			void *want = NULL, *wantk = NULL;
			for (unsigned i = 0; i < L3_N; i++) {
				if (i < rn && rk[i] == gk) {
					want = rv[i];
				}
				if (i < rn && rk[i] == key) {
					wantk = rv[i];
				}
			}
			__CPROVER_assert(nni_id_get(m, gk) == want, "get(ghost key) agrees with the reference map");
			__CPROVER_assert(nni_id_get(m, key) == wantk, "get(operated key) agrees with the reference map");
			__CPROVER_assert(nni_id_count(m) == rn, "count agrees with the reference map");
		}
	}
	VP_CANARY();
}
#endif /* VP_L3 */
