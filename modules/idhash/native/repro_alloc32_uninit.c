/* real idhash.c compiled directly; only the platform functions are stubbed */
#include "core/nng_impl.h"
#include <stdio.h>
#include <stdlib.h>
void *nni_zalloc(size_t n) { return calloc(1, n); }
void *nni_alloc(size_t n) { return malloc(n); }
void  nni_free(void *p, size_t n) { (void) n; free(p); }
uint32_t nni_random(void) { return 4; }
void nni_mtx_lock(nni_mtx *m) { (void) m; }
void nni_mtx_unlock(nni_mtx *m) { (void) m; }
void nni_panic(const char *f, ...) { (void) f; abort(); }
#include "core/idhash.c"
int main(void)
{
	nni_id_map m;
	uint32_t   a = 0, b = 0, c = 77;
	int        x, rv;
	nni_id_map_init(&m, 1, 2, false);
	rv = nni_id_alloc32(&m, &a, &x); printf("alloc32 rv=%d id=%u\n", rv, a);
	rv = nni_id_alloc32(&m, &b, &x); printf("alloc32 rv=%d id=%u\n", rv, b);
	/* range exhausted: must fail and must not hand out anything */
	rv = nni_id_alloc32(&m, &c, &x);
	printf("alloc32 rv=%d, caller's id field was 77, now %u %s\n", rv, c, c != 77 ? "<-- clobbered on failure" : "");
	/* what pipe_create()/pipe_destroy(), dialer/listener teardown do after a failed alloc32 */
	if (rv != 0 && c != 0) {
		nni_id_remove(&m, c);
	}
	printf("live object with id %u still registered: %s\n", b, nni_id_get(&m, b) ? "yes" : "NO <-- another object's id was removed");
	return 0;
}
