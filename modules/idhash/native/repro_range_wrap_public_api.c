#include <nng/nng.h>
#include <stdio.h>
#include <stdint.h>
#include <inttypes.h>
int main(void)
{
	nng_id_map *map;
	uint64_t    id;
	int         x, rv;
	uint64_t    lo = UINT64_MAX - 1, hi = UINT64_MAX;
	nng_init(NULL);
	rv = nng_id_map_alloc(&map, lo, hi, 0);
	printf("map_alloc rv=%d range=[%" PRIu64 ",%" PRIu64 "]\n", rv, lo, hi);
	rv = nng_id_alloc(map, &id, &x); printf("alloc rv=%d id=%" PRIu64 "\n", rv, id); /* MAX-1 */
	rv = nng_id_alloc(map, &id, &x); printf("alloc rv=%d id=%" PRIu64 "\n", rv, id); /* MAX   */
	rv = nng_id_remove(map, lo);     printf("remove(MAX-1) rv=%d\n", rv);
	rv = nng_id_alloc(map, &id, &x); printf("alloc rv=%d id=%" PRIu64 "\n", rv, id); /* MAX-1 again, cursor -> MAX */
	rv = nng_id_remove(map, lo);     printf("remove(MAX-1) rv=%d\n", rv);
	/* cursor is at MAX, MAX is in use, MAX-1 is free: the only correct answer is MAX-1 */
	rv = nng_id_alloc(map, &id, &x); printf("alloc rv=%d id=%" PRIu64 "  %s\n", rv, id, (rv == 0 && (id < lo || id > hi)) ? "<-- OUT OF RANGE" : "");
	rv = nng_id_alloc(map, &id, &x); printf("alloc rv=%d id=%" PRIu64 "  %s\n", rv, id, (rv == 0 && (id < lo || id > hi)) ? "<-- OUT OF RANGE" : "");
	return 0;
}
