/* ===================================================================== */
/* ===== src/sp/protocol/survey0/survey.c (cooked SURVEYOR) ===== */
/* ===================================================================== */
/* ASSUMED here, proven in modules/lmq (against a counting nni_msg_free): every queued message reference is
 * released exactly once (same text as in modules/survey/contracts.h) */
void nni_lmq_flush(nni_lmq *lmq)
__CPROVER_requires(LMQ_WF_SCALAR(lmq))
__CPROVER_assigns(lmq->lmq_get, lmq->lmq_len, g_msg_freed)
__CPROVER_ensures(LMQ_WF_SCALAR(lmq) && lmq->lmq_len == 0 && g_msg_freed == OLD(g_msg_freed) + OLD(lmq->lmq_len))
;

#define SVS ((surv0_sock *) g_sock)
#define SV_SOCK_PRE (OBJ_OK(g_sock, struct surv0_sock) && SVS->ctx.sock == SVS && XPOLL_PRE(SVS))
/* C15 state invariant of the surveyor socket: the receive descriptor is raised iff a response is buffered on
 * the socket's own context (required and ensured by every unit below that takes the socket) */
#define SV_RD_INV (g_pollr == (SVS->ctx.recv_lmq.lmq_len > 0))
#define SV_NO_PIPE_OPS (g_pipe_send_calls == OLD(g_pipe_send_calls) && g_pipe_recv_calls == OLD(g_pipe_recv_calls) && g_pipe_close_calls == OLD(g_pipe_close_calls) && g_start_calls == OLD(g_start_calls))
#define SP ((surv0_pipe *) arg)
#define SP_Q (&SP->send_queue)
#define SP_AM (SP->aio_send.a_msg)
#define SP1 ((surv0_pipe *) g_p1)
#define SP2 ((surv0_pipe *) g_p2)
#define SV_POFF offsetof(surv0_pipe, node)
#define SPIPE_PRE (OBJ_OK(arg, struct surv0_pipe) && SV_SOCK_PRE && DISTINCT(arg, g_sock) && SP->sock == SVS)

/* ---- surv0_pipe_send_cb (C07, C03): the transport finished sending a survey on this pipe.
 * Failure: this pipe's reference of the (shared) survey is dropped exactly once, the peer disconnected.
 * Success: the OLDEST queued survey of this pipe goes on the wire exactly once (per-respondent FIFO, the
 * rest keeps its order); nothing queued: the pipe becomes idle; a closed pipe sends nothing. ---- */
#ifdef SV_FAILED
static void surv0_pipe_send_cb(void *arg)
__CPROVER_requires(OBJ_OK(arg, struct surv0_pipe) && VP_NO_LOCK_HELD && SP->aio_send.a_result != 0)
__CPROVER_requires(SP_AM == NULL || MSG_HELD(SP_AM))
__CPROVER_assigns(SP->aio_send.a_msg, VP_PROTO_GHOST_LIST, g_free_calls)
__CPROVER_assigns(SP_AM != NULL: *SP_AM)
__CPROVER_frees(SP_AM != NULL: SP_AM, SP_AM->m_body.ch_buf)
__CPROVER_ensures(VP_NO_LOCK_HELD && SP->aio_send.a_msg == NULL && g_fin_calls == OLD(g_fin_calls))
__CPROVER_ensures(g_pipe_close_calls == OLD(g_pipe_close_calls) + 1 && g_pipe_close_last == SP->pipe && g_pipe_send_calls == OLD(g_pipe_send_calls) && g_pipe_recv_calls == OLD(g_pipe_recv_calls))
__CPROVER_ensures(OLD(SP_AM) != NULL ==> MSG_DROPPED_ONE(OLD(SP_AM), OLD(SP_AM->m_refcnt.v)))
__CPROVER_ensures(OLD(SP_AM) == NULL ==> g_free_calls == OLD(g_free_calls))
__CPROVER_ensures(g_pollr == OLD(g_pollr) && g_pollw == OLD(g_pollw))
;
#else
static void surv0_pipe_send_cb(void *arg)
__CPROVER_requires(SPIPE_PRE && VP_NO_LOCK_HELD && SP->aio_send.a_result == 0)
/* state invariant: a send completion arrives only while the pipe is busy */
__CPROVER_requires(LMQ_BUILT(SP_Q) && SP->busy)
/* ghost equation: g_p = the queued survey number g_k */
__CPROVER_requires((g_k < SP_Q->lmq_len) ==> g_p == (void *) LMQ_VIEW(SP_Q, g_k))
__CPROVER_assigns(SP->busy, SP->aio_send.a_msg, SP_Q->lmq_get, SP_Q->lmq_len, VP_PROTO_GHOST_LIST, VP_SYNC_GHOSTS)
__CPROVER_ensures(VP_NO_LOCK_HELD && LMQ_WF_SCALAR(SP_Q) && g_pipe_close_calls == OLD(g_pipe_close_calls) && g_pipe_recv_calls == OLD(g_pipe_recv_calls) && g_fin_calls == OLD(g_fin_calls) && g_start_calls == OLD(g_start_calls))
__CPROVER_ensures(g_pollr == OLD(g_pollr) && g_pollw == OLD(g_pollw))
/* closed pipe: nothing is sent, nothing changes (surv0_pipe_close has flushed the queue) */
__CPROVER_ensures(SP->closed ==> (g_pipe_send_calls == OLD(g_pipe_send_calls) && SP->aio_send.a_msg == OLD(SP_AM) && SP_Q->lmq_len == OLD(SP_Q->lmq_len) && SP_Q->lmq_get == OLD(SP_Q->lmq_get) && SP->busy))
/* a survey is queued: exactly the oldest one goes out, once, on THIS pipe; the pipe stays busy */
__CPROVER_ensures((!SP->closed && OLD(SP_Q->lmq_len) > 0) ==> (g_pipe_send_calls == OLD(g_pipe_send_calls) + 1 && g_pipe_send_pipe == SP->pipe && g_pipe_send_aio == &SP->aio_send
    && g_pipe_send_msg == OLD(LMQ_VIEW(SP_Q, 0)) && SP->aio_send.a_msg == OLD(LMQ_VIEW(SP_Q, 0)) && SP_Q->lmq_len == OLD(SP_Q->lmq_len) - 1 && SP->busy))
/* the others keep their order: number g_k is now number g_k - 1 */
__CPROVER_ensures((!SP->closed && g_k >= 1 && g_k < OLD(SP_Q->lmq_len)) ==> (void *) LMQ_VIEW(SP_Q, g_k - 1) == g_p)
/* nothing queued: idle, so the next survey goes out directly (surv0_ctx_send) */
__CPROVER_ensures((!SP->closed && OLD(SP_Q->lmq_len) == 0) ==> (!SP->busy && g_pipe_send_calls == OLD(g_pipe_send_calls) && SP->aio_send.a_msg == OLD(SP_AM) && SP_Q->lmq_len == 0))
;
#endif

/* pipe list shapes -DSV_PL: 0 list empty, pipe idle; 1 the pipe alone; 2 the pipe, then P1; 3 P1, then the pipe; 4 P1 alone, pipe idle;
 * 5 P1, P2, pipe idle (pipe_start only) */
#ifndef SV_PL
#define SV_PL 0
#endif
#define SV_P1_OK (OBJ_OK(g_p1, struct surv0_pipe) && DISTINCT(g_p1, g_sock) && DISTINCT(g_p1, arg))
#define SV_P2_OK (OBJ_OK(g_p2, struct surv0_pipe) && DISTINCT(g_p2, g_sock) && DISTINCT(g_p2, arg) && DISTINCT(g_p2, g_p1))
#if SV_PL == 0
#define SPL_PRE (LIST_IS_EMPTY(&SVS->pipes) && NODE_IDLE(&SP->node))
#define SPL_REMOVED (LIST_IS_EMPTY(&SVS->pipes))
#define SPL_APPENDED (LIST_IS_ONE(&SVS->pipes, &SP->node))
#elif SV_PL == 1
#define SPL_PRE (LIST_IS_ONE(&SVS->pipes, &SP->node))
#define SPL_REMOVED (LIST_IS_EMPTY(&SVS->pipes))
#elif SV_PL == 2
#define SPL_PRE (SV_P1_OK && LIST_IS_TWO(&SVS->pipes, &SP->node, &SP1->node))
#define SPL_REMOVED (LIST_IS_ONE(&SVS->pipes, &SP1->node))
#elif SV_PL == 3
#define SPL_PRE (SV_P1_OK && LIST_IS_TWO(&SVS->pipes, &SP1->node, &SP->node))
#define SPL_REMOVED (LIST_IS_ONE(&SVS->pipes, &SP1->node))
#elif SV_PL == 4
#define SPL_PRE (SV_P1_OK && LIST_IS_ONE(&SVS->pipes, &SP1->node) && NODE_IDLE(&SP->node))
#define SPL_REMOVED (LIST_IS_ONE(&SVS->pipes, &SP1->node))
#define SPL_APPENDED (LIST_IS_TWO(&SVS->pipes, &SP1->node, &SP->node))
#else
#define SPL_PRE (SV_P1_OK && SV_P2_OK && LIST_IS_TWO(&SVS->pipes, &SP1->node, &SP2->node) && NODE_IDLE(&SP->node))
#define SPL_REMOVED (LIST_IS_TWO(&SVS->pipes, &SP1->node, &SP2->node))
#define SPL_APPENDED (LIST_IS_THREE(&SVS->pipes, &SP1->node, &SP2->node, &SP->node))
#endif

/* ---- surv0_pipe_close (C03, C07): the pipe stops being a survey target (leaves the socket's pipe list, the
 * other pipes keep their order), every survey reference still queued for it is released exactly once, both
 * pipe aios are closed; nothing is sent or completed; the descriptors do not move ---- */
static void surv0_pipe_close(void *arg)
__CPROVER_requires(SPIPE_PRE && VP_NO_LOCK_HELD && LMQ_BUILT(SP_Q) && SVS->pipes.ll_offset == SV_POFF)
__CPROVER_requires(SPL_PRE)
__CPROVER_assigns(SP->closed, SP->node, SVS->pipes.ll_head, SP_Q->lmq_get, SP_Q->lmq_len, g_msg_freed, VP_PROTO_GHOST_LIST, VP_REPX_GHOST_LIST, VP_SYNC_GHOSTS)
__CPROVER_assigns(SV_PL >= 2: SP1->node)
__CPROVER_ensures(VP_NO_LOCK_HELD && SP->closed && SV_NO_PIPE_OPS && g_fin_calls == OLD(g_fin_calls) && g_pollr == OLD(g_pollr) && g_pollw == OLD(g_pollw))
__CPROVER_ensures(g_aio_close_calls == OLD(g_aio_close_calls) + 2 && g_x.aio_close_a == &SP->aio_send && g_x.aio_close_b == &SP->aio_recv)
__CPROVER_ensures(SP_Q->lmq_len == 0 && LMQ_WF_SCALAR(SP_Q) && g_msg_freed == OLD(g_msg_freed) + OLD(SP_Q->lmq_len))
__CPROVER_ensures(NODE_IDLE(&SP->node) && SPL_REMOVED)
;

/* ---- surv0_pipe_start (C07, C11): a peer that is not a RESPONDENT is refused and never becomes a survey
 * target; otherwise the pipe is appended LAST to the socket's pipe list (it gets every later survey,
 * surv0_ctx_send) and its first receive is armed exactly once ---- */
#if SV_PL == 0 || SV_PL >= 4
static int surv0_pipe_start(void *arg)
__CPROVER_requires(SPIPE_PRE && VP_NO_LOCK_HELD && SVS->pipes.ll_offset == SV_POFF)
__CPROVER_requires(SPL_PRE)
__CPROVER_assigns(SP->node, SVS->pipes.ll_head, VP_PROTO_GHOST_LIST, VP_SYNC_GHOSTS)
__CPROVER_assigns(SV_PL == 4: SP1->node; SV_PL == 5: SP2->node)
__CPROVER_ensures(VP_NO_LOCK_HELD && g_pipe_send_calls == OLD(g_pipe_send_calls) && g_pipe_close_calls == OLD(g_pipe_close_calls) && g_fin_calls == OLD(g_fin_calls) && g_pollr == OLD(g_pollr) && g_pollw == OLD(g_pollw))
__CPROVER_ensures(g_pipe_peer != 0x63 ==> (RV == NNG_EPROTO && SPL_REMOVED && NODE_IDLE(&SP->node) && g_pipe_recv_calls == OLD(g_pipe_recv_calls)))
__CPROVER_ensures(g_pipe_peer == 0x63 ==> (RV == 0 && SPL_APPENDED && g_pipe_recv_calls == OLD(g_pipe_recv_calls) + 1 && g_pipe_recv_pipe == SP->pipe && g_pipe_recv_aio == &SP->aio_recv))
;
#endif

/* ===== context units.  -DSV_OWN=1: the context is the socket's own (&sock->ctx), 0: a separate one.
 * -DSV_RQ=0|1|2: receives pending on the context (A1 first, A2 second), harness-built aio objects. ===== */
#ifndef SV_OWN
#define SV_OWN 0
#endif
#ifndef SV_RQ
#define SV_RQ 0
#endif
#define SV_AOFF offsetof(nni_aio, a_prov_node)
#define SVC(c) ((surv0_ctx *) (c))
#if SV_OWN == 1
#define SCTX_PRE(c) (SV_SOCK_PRE && (void *) (c) == (void *) &SVS->ctx)
#else
#define SCTX_PRE(c) (SV_SOCK_PRE && OBJ_OK((c), struct surv0_ctx) && DISTINCT((c), g_sock) && SVC(c)->sock == SVS)
#endif
#define SV_A1_OK(c) (OBJ_OK(g_a1, struct nng_aio) && DISTINCT(g_a1, g_sock) && DISTINCT(g_a1, (c)))
#define SV_A2_OK(c) (OBJ_OK(g_a2, struct nng_aio) && DISTINCT(g_a2, g_sock) && DISTINCT(g_a2, (c)) && DISTINCT(g_a2, g_a1))
#define SRQ(c) (&SVC(c)->recv_queue)
#if SV_RQ == 0
#define SRQ_PRE(c) (SRQ(c)->ll_offset == SV_AOFF && LIST_IS_EMPTY(SRQ(c)))
#elif SV_RQ == 1
#define SRQ_PRE(c) (SRQ(c)->ll_offset == SV_AOFF && SV_A1_OK(c) && LIST_IS_ONE(SRQ(c), &A1->a_prov_node))
#else
#define SRQ_PRE(c) (SRQ(c)->ll_offset == SV_AOFF && SV_A1_OK(c) && SV_A2_OK(c) && LIST_IS_TWO(SRQ(c), &A1->a_prov_node, &A2->a_prov_node))
#endif
/* id map model: the tracked key is this context's live survey id, if it has one */
#define SV_IDM_PRE(c) (g_idm_addr == &SVS->surveys && (SVC(c)->survey_id != 0 ==> g_idm_key == (uint64_t) SVC(c)->survey_id))
/* the survey is over: its id has left the map (so surv0_pipe_recv_cb discards every later response to it:
 * unit surv0_pipe_recv_cb of module survey, "id of no live survey ==> freed, NO context touched") */
#define SV_SURVEY_OVER(c) (SVC(c)->survey_id == 0 \
    && (OLD(SVC(c)->survey_id) != 0 ==> (g_sv.idm_remove_calls == OLD(g_sv.idm_remove_calls) + 1 && g_sv.idm_removed_last == (uint64_t) OLD(SVC(c)->survey_id) && !g_sv.idm_present)) \
    && (OLD(SVC(c)->survey_id) == 0 ==> (g_sv.idm_remove_calls == OLD(g_sv.idm_remove_calls) && g_sv.idm_present == OLD(g_sv.idm_present))))
/* surv0_ctx_abort and its callers: every receive still pending on the context completes exactly once with
 * the code, nothing else completes; every buffered response is released exactly once; the survey is over;
 * C15: the own context's buffer is empty now, so the receive descriptor is lowered (another context's abort
 * does not move it). */
#define SVA_CLAUSES(c, err, LOCKPRE, LOCKPOST, SYNC)                                                       \
	__CPROVER_requires(SCTX_PRE(c) && LOCKPRE)                                                             \
	__CPROVER_requires(SRQ_PRE(c) && LMQ_WF_SCALAR(&SVC(c)->recv_lmq) && SV_IDM_PRE(c) && SV_RD_INV)          \
	__CPROVER_assigns(SVC(c)->survey_id, SVC(c)->recv_lmq.lmq_get, SVC(c)->recv_lmq.lmq_len, g_msg_freed, SRQ(c)->ll_head, VP_PROTO_GHOST_LIST, VP_SV_GHOST_LIST, VP_REPX_GHOST_LIST SYNC) \
	__CPROVER_assigns(SV_RQ >= 1: A1->a_prov_node; SV_RQ == 2: A2->a_prov_node)                              \
	__CPROVER_ensures(LOCKPOST && SV_NO_PIPE_OPS && g_pollw == OLD(g_pollw))                               \
	__CPROVER_ensures(LIST_IS_EMPTY(SRQ(c)) && g_fin_calls == OLD(g_fin_calls) + SV_RQ)                      \
	__CPROVER_ensures(SVA_A1_POST(err))                                                                    \
	__CPROVER_ensures(SVA_A2_POST(err))                                                                    \
	__CPROVER_ensures(WA_NONE_IF(!(SV_RQ >= 1 && g_wa == g_a1) && !(SV_RQ == 2 && g_wa == g_a2)))           \
	__CPROVER_ensures(SVC(c)->recv_lmq.lmq_len == 0 && LMQ_WF_SCALAR(&SVC(c)->recv_lmq) && g_msg_freed == OLD(g_msg_freed) + OLD(SVC(c)->recv_lmq.lmq_len)) \
	__CPROVER_ensures(SV_SURVEY_OVER(c))                                                                   \
	__CPROVER_ensures(SV_OWN ? !g_pollr : (g_pollr == OLD(g_pollr)))                                       \
	__CPROVER_ensures(SV_RD_INV)
#define SV_COMMA_SYNC , VP_SYNC_GHOSTS
#if SV_RQ >= 1
#define SVA_A1_POST(err) (WA_ONCE(A1, (err), 0, OLD(A1->a_msg)) && A1->a_msg == OLD(A1->a_msg) && NODE_IDLE(&A1->a_prov_node))
#else
#define SVA_A1_POST(err) (1)
#endif
#if SV_RQ == 2
#define SVA_A2_POST(err) (WA_ONCE(A2, (err), 0, OLD(A2->a_msg)) && A2->a_msg == OLD(A2->a_msg) && NODE_IDLE(&A2->a_prov_node))
#else
#define SVA_A2_POST(err) (1)
#endif
static void surv0_ctx_abort(surv0_ctx *ctx, int err)
SVA_CLAUSES(ctx, err, 1, 1, )
;
/* ---- surv0_ctx_close (C03, C07): pending receives fail with NNG_ECLOSED, each exactly once ---- */
static void surv0_ctx_close(surv0_ctx *ctx)
SVA_CLAUSES(ctx, NNG_ECLOSED, VP_NO_LOCK_HELD, VP_NO_LOCK_HELD, SV_COMMA_SYNC)
;
/* ---- surv0_sock_close: closes the socket's own context (arg = the socket) ---- */
#if SV_OWN == 1
static void surv0_sock_close(void *arg)
__CPROVER_requires(arg == g_sock)
SVA_CLAUSES(&((surv0_sock *) arg)->ctx, NNG_ECLOSED, VP_NO_LOCK_HELD, VP_NO_LOCK_HELD, SV_COMMA_SYNC)
;
#endif
/* ---- surv0_ctx_fini (C03): as close; additionally the response buffer's slot array is returned to the
 * allocator exactly once, with its allocation size (sized-free assertion of the nni_free stub) ---- */
#define SVF_Q (&SVC(arg)->recv_lmq)
static void surv0_ctx_fini(void *arg)
__CPROVER_requires(LMQ_BUILT(SVF_Q))
SVA_CLAUSES(arg, NNG_ECLOSED, VP_NO_LOCK_HELD, VP_NO_LOCK_HELD, SV_COMMA_SYNC)
__CPROVER_assigns(g_free_calls)
__CPROVER_frees(SVF_Q->lmq_alloc > 0: SVF_Q->lmq_msgs)
__CPROVER_ensures(g_free_calls == OLD(g_free_calls) + (OLD(SVF_Q->lmq_alloc) > 0 ? 1 : 0))
__CPROVER_ensures(OLD(SVF_Q->lmq_alloc) > 0 ==> __CPROVER_was_freed(OLD(SVF_Q->lmq_msgs)))
;

/* ---- surv0_ctx_cancel (C07, C03): the aio layer withdraws a pending receive -- its deadline (clamped to the
 * survey deadline by surv0_ctx_recv, module survey) passed: rv = NNG_ETIMEDOUT; or abort / stop.
 * Exactly that receive completes, exactly once, with exactly that code; the other pending receives keep
 * their order and are not completed; the survey is over (id out of the map: later responses are
 * discarded, a later receive fails with NNG_ESTATE since survey_id == 0).  If the aio is not pending on
 * this context any more (already completed by a response): no completion (single winner).
 * -DSV_CQ: 0 not pending, nobody else; 1 alone; 2 first, A2 behind; 3 A2 first, it behind; 4 not pending, A2 pending ---- */
#ifndef SV_CQ
#define SV_CQ 0
#endif
#if SV_CQ == 0
#define SCQ_PRE(c) (SV_A1_OK(c) && NODE_IDLE(&A1->a_prov_node) && LIST_IS_EMPTY(SRQ(c)))
#define SCQ_POST(c) (NODE_IDLE(&A1->a_prov_node) && LIST_IS_EMPTY(SRQ(c)))
#define SCQ_ON 0
#elif SV_CQ == 1
#define SCQ_PRE(c) (SV_A1_OK(c) && LIST_IS_ONE(SRQ(c), &A1->a_prov_node))
#define SCQ_POST(c) (NODE_IDLE(&A1->a_prov_node) && LIST_IS_EMPTY(SRQ(c)))
#define SCQ_ON 1
#elif SV_CQ == 2
#define SCQ_PRE(c) (SV_A1_OK(c) && SV_A2_OK(c) && LIST_IS_TWO(SRQ(c), &A1->a_prov_node, &A2->a_prov_node))
#define SCQ_POST(c) (NODE_IDLE(&A1->a_prov_node) && LIST_IS_ONE(SRQ(c), &A2->a_prov_node))
#define SCQ_ON 1
#elif SV_CQ == 3
#define SCQ_PRE(c) (SV_A1_OK(c) && SV_A2_OK(c) && LIST_IS_TWO(SRQ(c), &A2->a_prov_node, &A1->a_prov_node))
#define SCQ_POST(c) (NODE_IDLE(&A1->a_prov_node) && LIST_IS_ONE(SRQ(c), &A2->a_prov_node))
#define SCQ_ON 1
#else
#define SCQ_PRE(c) (SV_A1_OK(c) && SV_A2_OK(c) && NODE_IDLE(&A1->a_prov_node) && LIST_IS_ONE(SRQ(c), &A2->a_prov_node))
#define SCQ_POST(c) (NODE_IDLE(&A1->a_prov_node) && LIST_IS_ONE(SRQ(c), &A2->a_prov_node))
#define SCQ_ON 0
#endif
static void surv0_ctx_cancel(nni_aio *aio, void *arg, nng_err rv)
__CPROVER_requires(SCTX_PRE(arg) && VP_NO_LOCK_HELD && aio == A1)
__CPROVER_requires(SRQ(arg)->ll_offset == SV_AOFF && SCQ_PRE(arg) && SV_IDM_PRE(arg) && SV_RD_INV)
__CPROVER_assigns(SVC(arg)->survey_id, SRQ(arg)->ll_head, A1->a_prov_node, VP_PROTO_GHOST_LIST, VP_SV_GHOST_LIST, VP_REPX_GHOST_LIST, VP_SYNC_GHOSTS)
__CPROVER_assigns(SV_CQ >= 2: A2->a_prov_node)
__CPROVER_ensures(VP_NO_LOCK_HELD && SV_NO_PIPE_OPS && SCQ_POST(arg))
#if SCQ_ON
__CPROVER_ensures(g_fin_calls == OLD(g_fin_calls) + 1 && g_fin_last == aio && g_fin_last_rv == (int) rv && WA_ONCE(aio, rv, 0, OLD(aio->a_msg)) && WA_NONE_IF(g_wa != g_a1))
#else
__CPROVER_ensures(g_fin_calls == OLD(g_fin_calls) && WA_NONE_IF(1))
#endif
__CPROVER_ensures(SV_SURVEY_OVER(arg))
/* C15: nothing is buffered or unbuffered here, the descriptors do not move */
__CPROVER_ensures(g_pollr == OLD(g_pollr) && g_pollw == OLD(g_pollw) && SV_RD_INV)
;

/* ===== the receive paths on the socket's own context (C15: descriptor consistency; C07 as in module survey,
 * here on the real intrusive lists).  -DSV_OWN, -DSV_RQ (0 | 1 receives already pending) as above. ===== */
/* ASSUMED here, proven in modules/message (nni_msg_unique, case refcount == 1): an unshared message is returned as is.
 * The precondition refcount == 1 is CHECKED at the call (buffered responses come straight from a transport). */
nni_msg *nni_msg_unique(nni_msg *m)
__CPROVER_requires(__CPROVER_is_fresh(m, sizeof(struct nng_msg)) && m->m_refcnt.v == 1)
__CPROVER_assigns()
__CPROVER_ensures(__CPROVER_pointer_in_range_dfcc(m, RV, m))
;
#define SR_C SVC(arg)
#define SR_Q (&SVC(arg)->recv_lmq)
#define SR_NOLIVE (SR_C->survey_id == 0 || g_now >= SR_C->expire)
#define SR_CLAMP (aio->a_timeout < 0 || (aio->a_timeout > 0 && (g_now + aio->a_timeout) > SR_C->expire))
#if SV_RQ == 0
#define SRQ_SAME(c) (LIST_IS_EMPTY(SRQ(c)))
#define SRQ_PLUS(c, n) (LIST_IS_ONE(SRQ(c), (n)))
#elif SV_RQ == 1
#define SRQ_SAME(c) (LIST_IS_ONE(SRQ(c), &A1->a_prov_node))
#define SRQ_PLUS(c, n) (LIST_IS_TWO(SRQ(c), &A1->a_prov_node, (n)))
#define SRQ_MINUS(c) (LIST_IS_EMPTY(SRQ(c)) && NODE_IDLE(&A1->a_prov_node))
#else
#define SRQ_SAME(c) (LIST_IS_TWO(SRQ(c), &A1->a_prov_node, &A2->a_prov_node))
#define SRQ_PLUS(c, n) (LIST_IS_THREE(SRQ(c), &A1->a_prov_node, &A2->a_prov_node, (n)))
#define SRQ_MINUS(c) (LIST_IS_ONE(SRQ(c), &A2->a_prov_node) && NODE_IDLE(&A1->a_prov_node))
#endif
static void surv0_ctx_recv(void *arg, nni_aio *aio)
__CPROVER_requires(SCTX_PRE(arg) && VP_NO_LOCK_HELD)
__CPROVER_requires(__CPROVER_is_fresh(aio, sizeof(nni_aio)) && !aio->a_use_expire && aio->a_timeout >= -2 && NODE_IDLE(&aio->a_prov_node))
__CPROVER_requires(LMQ_BUILT(SR_Q) && DISTINCT(SR_Q->lmq_msgs, g_sock))
/* buffered responses come straight from a transport: unshared (state invariant, see surv0_pipe_recv_cb) */
__CPROVER_requires(SR_Q->lmq_len > 0 ==> (__CPROVER_is_fresh(LMQ_VIEW(SR_Q, 0), sizeof(struct nng_msg)) && LMQ_VIEW(SR_Q, 0)->m_refcnt.v == 1))
__CPROVER_requires(SRQ_PRE(arg) && SV_RD_INV)
__CPROVER_assigns(aio->a_msg, aio->a_result, aio->a_count, aio->a_expire, aio->a_use_expire, aio->a_prov_node, SRQ(arg)->ll_head, SR_Q->lmq_get, SR_Q->lmq_len, VP_PROTO_GHOST_LIST, VP_SV_GHOST_LIST, VP_REPX_GHOST_LIST, VP_SYNC_GHOSTS)
__CPROVER_assigns(SV_RQ == 1: A1->a_prov_node; SV_RQ == 2: A2->a_prov_node)
__CPROVER_ensures(VP_NO_LOCK_HELD && LMQ_WF_SCALAR(SR_Q) && g_pollw == OLD(g_pollw) && g_pipe_send_calls == OLD(g_pipe_send_calls) && g_pipe_recv_calls == OLD(g_pipe_recv_calls) && g_pipe_close_calls == OLD(g_pipe_close_calls))
/* C07: no live survey <=> NNG_ESTATE (at once, nothing else happens) */
__CPROVER_ensures(SR_NOLIVE ==> (g_fin_calls == OLD(g_fin_calls) + 1 && g_fin_last == aio && g_fin_last_rv == NNG_ESTATE && WA_ONCE(aio, NNG_ESTATE, 0, OLD(aio->a_msg)) && g_start_calls == OLD(g_start_calls) && SRQ_SAME(arg) && SR_Q->lmq_len == OLD(SR_Q->lmq_len) && g_sv.set_expire_calls == OLD(g_sv.set_expire_calls) && g_pollr == OLD(g_pollr)))
__CPROVER_ensures(!SR_NOLIVE ==> !(g_fin_calls > OLD(g_fin_calls) && g_fin_last_rv == NNG_ESTATE))
/* C07: the receive never outlives the survey: clamped to the survey deadline (a zero timeout is left alone, C15) */
__CPROVER_ensures((!SR_NOLIVE && SR_CLAMP) ==> (g_sv.set_expire_calls == OLD(g_sv.set_expire_calls) + 1 && g_sv.set_expire_aio == aio && g_sv.set_expire_when == SR_C->expire && aio->a_use_expire && aio->a_expire == SR_C->expire))
__CPROVER_ensures((!SR_NOLIVE && !SR_CLAMP) ==> (g_sv.set_expire_calls == OLD(g_sv.set_expire_calls) && !aio->a_use_expire))
/* C15: a response is buffered: handed over in the call (oldest first), nni_aio_start is not consulted */
__CPROVER_ensures((!SR_NOLIVE && OLD(SR_Q->lmq_len) > 0) ==> (g_start_calls == OLD(g_start_calls) && g_fin_calls == OLD(g_fin_calls) + 1 && g_fin_last == aio && g_fin_last_rv == 0 && g_fin_last_msg == OLD(LMQ_VIEW(SR_Q, 0)) && aio->a_msg == OLD(LMQ_VIEW(SR_Q, 0)) && SR_Q->lmq_len == OLD(SR_Q->lmq_len) - 1 && SRQ_SAME(arg) && NODE_IDLE(&aio->a_prov_node)))
/* nothing buffered: wait (start exactly once); refused => not queued; accepted => queued LAST */
__CPROVER_ensures((!SR_NOLIVE && OLD(SR_Q->lmq_len) == 0) ==> (g_start_calls == OLD(g_start_calls) + 1 && g_start_last == aio && g_fin_calls == OLD(g_fin_calls) && SR_Q->lmq_len == 0))
__CPROVER_ensures((!SR_NOLIVE && OLD(SR_Q->lmq_len) == 0 && g_aio_start_ok) ==> SRQ_PLUS(arg, &aio->a_prov_node))
__CPROVER_ensures((!SR_NOLIVE && OLD(SR_Q->lmq_len) == 0 && !g_aio_start_ok) ==> (SRQ_SAME(arg) && NODE_IDLE(&aio->a_prov_node)))
__CPROVER_ensures(WA_NONE_IF(g_wa != (void *) aio))
/* C15: the receive descriptor of the socket is lowered exactly when its own context's buffer runs empty */
#if SV_OWN == 1
__CPROVER_ensures((!SR_NOLIVE && OLD(SR_Q->lmq_len) == 1) ? !g_pollr : (g_pollr == OLD(g_pollr)))
#else
__CPROVER_ensures(g_pollr == OLD(g_pollr))
#endif
__CPROVER_ensures(SV_RD_INV)
;
#if SV_OWN == 1
/* the socket entry point is the own context's receive */
static void surv0_sock_recv(void *arg, nni_aio *aio)
__CPROVER_requires(arg == g_sock && SV_SOCK_PRE && VP_NO_LOCK_HELD)
__CPROVER_requires(__CPROVER_is_fresh(aio, sizeof(nni_aio)) && !aio->a_use_expire && aio->a_timeout >= -2 && NODE_IDLE(&aio->a_prov_node))
__CPROVER_requires(LMQ_BUILT(&SVS->ctx.recv_lmq) && SVS->ctx.recv_lmq.lmq_len > 0 && __CPROVER_is_fresh(LMQ_VIEW(&SVS->ctx.recv_lmq, 0), sizeof(struct nng_msg)) && LMQ_VIEW(&SVS->ctx.recv_lmq, 0)->m_refcnt.v == 1)
__CPROVER_requires(SRQ_PRE(&SVS->ctx) && SV_RD_INV && SVS->ctx.survey_id != 0 && g_now < SVS->ctx.expire)
__CPROVER_assigns(aio->a_msg, aio->a_result, aio->a_count, aio->a_expire, aio->a_use_expire, aio->a_prov_node, SVS->ctx.recv_queue.ll_head, SVS->ctx.recv_lmq.lmq_get, SVS->ctx.recv_lmq.lmq_len, VP_PROTO_GHOST_LIST, VP_SV_GHOST_LIST, VP_REPX_GHOST_LIST, VP_SYNC_GHOSTS)
__CPROVER_assigns(SV_RQ == 1: A1->a_prov_node)
/* C15 on the socket: the descriptor polls readable (invariant: a response is buffered) and the survey is live:
 * the receive completes in the call with the oldest response, never reaches nni_aio_start (so it cannot
 * return NNG_EAGAIN); the descriptor is lowered iff that was the last buffered response */
__CPROVER_ensures(VP_NO_LOCK_HELD && g_start_calls == OLD(g_start_calls) && WA_ONCE(aio, 0, 0, OLD(LMQ_VIEW(&SVS->ctx.recv_lmq, 0))) && aio->a_msg == OLD(LMQ_VIEW(&SVS->ctx.recv_lmq, 0)))
__CPROVER_ensures(g_pollr == (OLD(SVS->ctx.recv_lmq.lmq_len) > 1) && SV_RD_INV)
;
#endif

/* ---- surv0_pipe_recv_cb, the id maps to the context g_sv.idm_val (-DSV_OWN=1: the socket's own):
 * C07 as in module survey; C15: a response BUFFERED on the socket's own context raises the receive
 * descriptor, a response handed to a waiting receive or discarded does not move it ---- */
#define PR_M (SP->aio_recv.a_msg)
#define PR_C SVC(g_sv.idm_val)
#define PR_LEN0 OLD(PR_M->m_body.ch_len)
#define PR_HIT (g_sv.idm_present && OLD(PR_C->recv_lmq.lmq_len) < PR_C->recv_lmq.lmq_cap)
static void surv0_pipe_recv_cb(void *arg)
__CPROVER_requires(SPIPE_PRE && VP_NO_LOCK_HELD && SCTX_PRE(g_sv.idm_val) && DISTINCT(arg, g_sv.idm_val))
__CPROVER_requires(SP->aio_recv.a_result == 0 && SV_WIRE_MSG(PR_M) && CH_GHOST_PRE(&PR_M->m_body))
__CPROVER_requires(PR_M->m_body.ch_len >= 4 ==> (g_u32 == BE32(PR_M->m_body.ch_ptr) && g_idm_key == (uint64_t) g_u32))
__CPROVER_requires(g_idm_addr == &SVS->surveys)
__CPROVER_requires(LMQ_BUILT(&PR_C->recv_lmq) && DISTINCT(PR_C->recv_lmq.lmq_msgs, g_sock) && DISTINCT(PR_C->recv_lmq.lmq_msgs, arg) && SRQ_PRE(g_sv.idm_val) && SV_RD_INV)
/* state invariant of a context: a receive waits only while nothing is buffered */
__CPROVER_requires(SV_RQ > 0 ==> PR_C->recv_lmq.lmq_len == 0)
__CPROVER_assigns(SP->aio_recv.a_msg, PR_C->recv_lmq.lmq_put, PR_C->recv_lmq.lmq_len, __CPROVER_object_whole(PR_C->recv_lmq.lmq_msgs), SRQ(g_sv.idm_val)->ll_head, VP_PROTO_GHOST_LIST, VP_SV_GHOST_LIST, VP_REPX_GHOST_LIST, VP_SYNC_GHOSTS, g_free_calls)
__CPROVER_assigns(*PR_M; SV_RQ >= 1: A1->a_msg, A1->a_prov_node; SV_RQ == 2: A2->a_prov_node)
__CPROVER_frees(PR_M, PR_M->m_body.ch_buf)
__CPROVER_ensures(VP_NO_LOCK_HELD && SP->aio_recv.a_msg == NULL && LMQ_WF_SCALAR(&PR_C->recv_lmq) && g_pollw == OLD(g_pollw) && g_start_calls == OLD(g_start_calls))
__CPROVER_ensures(g_sv.idm_present == OLD(g_sv.idm_present) && g_sv.idm_set_calls == OLD(g_sv.idm_set_calls) && g_sv.idm_remove_calls == OLD(g_sv.idm_remove_calls) && g_sv.idm_alloc_calls == OLD(g_sv.idm_alloc_calls))
/* shorter than the id: malformed => disconnected, freed, no context touched */
__CPROVER_ensures(PR_LEN0 < 4 ==> (__CPROVER_was_freed(OLD(PR_M)) && g_pipe_close_calls == OLD(g_pipe_close_calls) + 1 && g_pipe_close_last == SP->pipe && g_pipe_recv_calls == OLD(g_pipe_recv_calls) && g_fin_calls == OLD(g_fin_calls) && SRQ_SAME(g_sv.idm_val) && PR_C->recv_lmq.lmq_len == OLD(PR_C->recv_lmq.lmq_len) && g_pollr == OLD(g_pollr)))
__CPROVER_ensures(PR_LEN0 >= 4 ==> (g_pipe_close_calls == OLD(g_pipe_close_calls) && g_pipe_recv_calls == OLD(g_pipe_recv_calls) + 1 && g_pipe_recv_pipe == SP->pipe && g_pipe_recv_aio == &SP->aio_recv))
/* id of no live survey (stale / foreign / malformed), or that context's buffer is full: freed, NO context touched, descriptor unmoved */
__CPROVER_ensures((PR_LEN0 >= 4 && !PR_HIT) ==> (__CPROVER_was_freed(OLD(PR_M)) && g_fin_calls == OLD(g_fin_calls) && WA_NONE_IF(1) && SRQ_SAME(g_sv.idm_val) && PR_C->recv_lmq.lmq_len == OLD(PR_C->recv_lmq.lmq_len) && g_pollr == OLD(g_pollr)))
/* id of a live survey: exactly that context gets it -- its FIRST waiting receive, or its buffer */
__CPROVER_ensures((PR_LEN0 >= 4 && PR_HIT) ==> (!__CPROVER_was_freed(OLD(PR_M)) && OLD(PR_M)->m_header_len == 4 && BE32(HDR(OLD(PR_M))) == g_u32 && OLD(PR_M)->m_body.ch_len == PR_LEN0 - 4 && OLD(PR_M)->m_pipe == g_pipe_id))
__CPROVER_ensures((PR_LEN0 >= 4 && PR_HIT && g_k >= 4 && g_k < PR_LEN0) ==> OLD(PR_M)->m_body.ch_ptr[g_k - 4] == g_b)
#if SV_RQ >= 1
__CPROVER_ensures((PR_LEN0 >= 4 && PR_HIT) ==> (g_fin_calls == OLD(g_fin_calls) + 1 && g_fin_last == A1 && WA_ONCE(A1, 0, 0, OLD(PR_M)) && A1->a_msg == OLD(PR_M) && WA_NONE_IF(g_wa != g_a1) && SRQ_MINUS(g_sv.idm_val) && PR_C->recv_lmq.lmq_len == 0 && g_pollr == OLD(g_pollr)))
#else
__CPROVER_ensures((PR_LEN0 >= 4 && PR_HIT) ==> (g_fin_calls == OLD(g_fin_calls) && WA_NONE_IF(1) && SRQ_SAME(g_sv.idm_val) && PR_C->recv_lmq.lmq_len == OLD(PR_C->recv_lmq.lmq_len) + 1 && LMQ_VIEW(&PR_C->recv_lmq, PR_C->recv_lmq.lmq_len - 1) == OLD(PR_M)))
#if SV_OWN == 1
__CPROVER_ensures((PR_LEN0 >= 4 && PR_HIT) ==> g_pollr)
#else
__CPROVER_ensures((PR_LEN0 >= 4 && PR_HIT) ==> (g_pollr == OLD(g_pollr)))
#endif
#endif
__CPROVER_ensures(SV_RD_INV)
;
