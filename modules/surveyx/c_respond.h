/* ===================================================================== */
/* ===== src/sp/protocol/survey0/respond.c (cooked RESPONDENT) ===== */
/* ===================================================================== */
/* The close / cancel / send-completion paths of respond.c have the same shape as those of rep.c; the
 * contract texts below are those of modules/repx (pipe_send_cb, pipe_close, cancel functions, ctx close,
 * pipe_fini) with the types renamed, taken from the properties C07 / C15 / C03 -- not from the code. */
#ifndef RS_C1M
#define RS_C1M 0
#endif
#define RSOCK ((resp0_sock *) g_sock)
#define RCTX ((resp0_ctx *) arg)
#define RC1 ((resp0_ctx *) g_c1)
#define RC2 ((resp0_ctx *) g_c2)
#define RP1 ((resp0_pipe *) g_p1)
#define RP2 ((resp0_pipe *) g_p2)
#define R_OFF_RQ offsetof(resp0_ctx, rqnode)
#define R_OFF_SQ offsetof(resp0_ctx, sqnode)
#define R_OFF_RP offsetof(resp0_pipe, rnode)
#if RS_C1M == 1
#define RS_C1_PRE(s) (g_c1_master && g_c1 == (void *) &(s)->ctx)
#define RS_CTX_PRE (OBJ_OK(g_sock, struct resp0_sock) && arg == (void *) &RSOCK->ctx && RCTX->sock == RSOCK)
#else
#define RS_C1_PRE(s) (!g_c1_master && OBJ_OK(g_c1, struct resp0_ctx) && DISTINCT(g_c1, (s)))
#define RS_CTX_PRE (OBJ_OK(g_sock, struct resp0_sock) && OBJ_OK(arg, struct resp0_ctx) && DISTINCT(arg, g_sock) && RCTX->sock == RSOCK)
#endif
/* Shapes (constant per unit, built by the harness, restated here as plain conditions):
 *   -DXQ_SQ=0|1|2  contexts queued on the pipe's send queue (pipe units): RC1 first, RC2 second;
 *                  -DRS_C1M=1: RC1 is the socket's own context
 *   -DXQ_RP=0..4   s->recvpipes (resp0_pipe_close): 0 empty, pipe idle; 1 the pipe alone; 2 the pipe, then RP1;
 *                  3 RP1, then the pipe; 4 RP1 alone, pipe idle
 *   -DXQ_CS=0..3   where the context under contract sits on its pipe's send queue (context units):
 *                  0 no send pending; 1 alone; 2 first, RC1 behind it; 3 RC1 first, the context behind it
 *   -DXQ_CR=0..3   the same for s->recvq with RC2 as the other context
 * Waiting aios of queued contexts are objects built by the harness (g_a1, g_a2); messages are is_fresh. */
#ifndef XQ_SQ
#define XQ_SQ 0
#endif
#ifndef XQ_RP
#define XQ_RP 0
#endif
#ifndef XQ_CS
#define XQ_CS 0
#endif
#ifndef XQ_CR
#define XQ_CR 0
#endif
#define RXP ((resp0_pipe *) arg)
#define RXS (RXP->psock)
#define XPIPE_PRE (OBJ_OK(arg, struct resp0_pipe) && OBJ_OK(RXS, struct resp0_sock) && DISTINCT(arg, RXS) && (void *) RXS == g_sock && RXS->ctx.sock == RXS && RXP->id != 0)
/* a context waiting on this pipe's send queue: its send aio holds the response (backtrace already in the header) */
#define XQCTX_PRE(c, a) ((c)->saio == (nni_aio *) (a) && OBJ_OK((a), struct nng_aio) && (c)->spipe == RXP && MSG_PRE(((nni_aio *) (a))->a_msg) && ((nni_aio *) (a))->a_msg->m_refcnt.v == 1)
#if XQ_SQ == 0
#define XSENDQ_PRE (RXP->sendq.ll_offset == R_OFF_SQ && LIST_IS_EMPTY(&RXP->sendq))
#elif XQ_SQ == 1
#define XSENDQ_PRE (RXP->sendq.ll_offset == R_OFF_SQ && RS_C1_PRE(RXS) && DISTINCT(g_c1, arg) && LIST_IS_ONE(&RXP->sendq, &RC1->sqnode) && XQCTX_PRE(RC1, g_a1))
#else
#define XSENDQ_PRE (RXP->sendq.ll_offset == R_OFF_SQ && RS_C1_PRE(RXS) && DISTINCT(g_c1, arg) && OBJ_OK(g_c2, struct resp0_ctx) && DISTINCT(g_c2, RXS) && DISTINCT(g_c2, g_c1) && DISTINCT(g_c2, arg) \
    && DISTINCT(g_a1, g_a2) && LIST_IS_TWO(&RXP->sendq, &RC1->sqnode, &RC2->sqnode) && XQCTX_PRE(RC1, g_a1) && XQCTX_PRE(RC2, g_a2))
#endif
#define XM1 (A1->a_msg)
#define XM2 (A2->a_msg)

/* ---- resp0_pipe_send_cb (C07, C02, C03, C15): the transport finished sending a response on this pipe.
 * Failure: the unsent response is released exactly once and the peer disconnected.  Success: the FIRST queued
 * response of this pipe goes on the wire, exactly once, its context's send completes exactly once with
 * success and the context is free for its next survey; nothing queued: the pipe becomes idle and the
 * socket writable iff the socket's own context holds a survey of this pipe. */
#define XAM (RXP->aio_send.a_msg)
#ifdef XQ_SEND_FAILED
static void resp0_pipe_send_cb(void *arg)
__CPROVER_requires(XPIPE_PRE && VP_NO_LOCK_HELD && RXP->aio_send.a_result != 0)
__CPROVER_requires(XAM == NULL || (__CPROVER_is_fresh(XAM, sizeof(struct nng_msg)) && XAM->m_refcnt.v == 1 && XAM->m_header_len <= MSG_HDRCAP && CH_FULL_PRE(&XAM->m_body)))
__CPROVER_assigns(RXP->aio_send.a_msg, VP_PROTO_GHOST_LIST, VP_REPX_GHOST_LIST, g_free_calls)
__CPROVER_assigns(XAM != NULL: *XAM)
__CPROVER_frees(XAM != NULL: XAM, XAM->m_body.ch_buf)
__CPROVER_ensures(VP_NO_LOCK_HELD && RXP->aio_send.a_msg == NULL)
/* the peer is disconnected once; nothing is sent, nobody completed, the queue is left to resp0_pipe_close */
__CPROVER_ensures(g_pipe_close_calls == OLD(g_pipe_close_calls) + 1 && g_pipe_close_last == RXP->npipe && g_pipe_send_calls == OLD(g_pipe_send_calls) && g_fin_calls == OLD(g_fin_calls) && WA_NONE_IF(1))
/* C03: released exactly once: the message block and its body buffer */
__CPROVER_ensures(OLD(XAM) != NULL ==> (__CPROVER_was_freed(OLD(XAM)) && g_free_calls == OLD(g_free_calls) + 2))
__CPROVER_ensures(OLD(XAM) == NULL ==> g_free_calls == OLD(g_free_calls))
__CPROVER_ensures(g_pollr == OLD(g_pollr) && g_pollw == OLD(g_pollw))
;
#else
static void resp0_pipe_send_cb(void *arg)
__CPROVER_requires(XPIPE_PRE && VP_NO_LOCK_HELD && RXP->aio_send.a_result == 0)
__CPROVER_requires(XSENDQ_PRE && XPOLL_PRE(RXS))
#if XQ_SQ >= 1
__CPROVER_requires(HDR_GHOST_PRE(XM1) && CH_GHOST_PRE(&XM1->m_body))
#endif
__CPROVER_assigns(RXP->busy, RXP->aio_send.a_msg, RXP->sendq.ll_head, VP_PROTO_GHOST_LIST, VP_REPX_GHOST_LIST, VP_SYNC_GHOSTS)
#if XQ_SQ >= 1
__CPROVER_assigns(RC1->saio, RC1->spipe, RC1->sqnode, A1->a_msg)
#endif
#if XQ_SQ == 2
__CPROVER_assigns(RC2->sqnode)
#endif
__CPROVER_ensures(VP_NO_LOCK_HELD)
__CPROVER_ensures(g_pipe_close_calls == OLD(g_pipe_close_calls) && g_pipe_recv_calls == OLD(g_pipe_recv_calls) && g_start_calls == OLD(g_start_calls) && g_pollr == OLD(g_pollr))
#if XQ_SQ == 0
/* nothing queued: the pipe is idle; nothing sent, nobody completed */
__CPROVER_ensures(!RXP->busy && g_pipe_send_calls == OLD(g_pipe_send_calls) && g_fin_calls == OLD(g_fin_calls) && WA_NONE_IF(1) && LIST_IS_EMPTY(&RXP->sendq))
/* C15: the socket's own context holds a survey of this pipe: its response can go out at once now */
__CPROVER_ensures((RXP->id == RXS->ctx.pipe_id) ? g_pollw : (g_pollw == OLD(g_pollw)))
#else
/* the FIRST queued response goes on the wire of THIS pipe, exactly once; the pipe stays busy */
__CPROVER_ensures(RXP->busy && g_pipe_send_calls == OLD(g_pipe_send_calls) + 1 && g_pipe_send_pipe == RXP->npipe && g_pipe_send_aio == &RXP->aio_send && g_pipe_send_msg == OLD(XM1) && RXP->aio_send.a_msg == OLD(XM1))
/* its context's send completes exactly once, with success and the body length; the message has left the aio (owner: the pipe) */
__CPROVER_ensures(g_fin_calls == OLD(g_fin_calls) + 1 && g_fin_last == A1 && g_fin_last_rv == 0 && g_fin_last_count == OLD(XM1->m_body.ch_len) && g_fin_last_msg == NULL && A1->a_msg == NULL)
__CPROVER_ensures(WA_ONCE(A1, 0, OLD(XM1->m_body.ch_len), NULL) && WA_NONE_IF(g_wa != g_a1))
/* the context is off the queue and may send again after its next receive */
__CPROVER_ensures(RC1->saio == NULL && RC1->spipe == NULL && NODE_IDLE(&RC1->sqnode) && g_pollw == OLD(g_pollw))
/* C13: what goes on the wire is the queued message as it was: header (the backtrace) and body, byte for byte */
__CPROVER_ensures(g_pipe_send_msg->m_header_len == OLD(XM1->m_header_len) && g_pipe_send_msg->m_body.ch_len == OLD(XM1->m_body.ch_len))
__CPROVER_ensures((g_hk < OLD(XM1->m_header_len)) ==> HDR(g_pipe_send_msg)[g_hk] == g_hb)
__CPROVER_ensures((g_k < OLD(XM1->m_body.ch_len)) ==> g_pipe_send_msg->m_body.ch_ptr[g_k] == g_b)
#if XQ_SQ == 1
__CPROVER_ensures(LIST_IS_EMPTY(&RXP->sendq))
#else
/* queue order: the second one is now first, still waiting with its message */
__CPROVER_ensures(LIST_IS_ONE(&RXP->sendq, &RC2->sqnode) && RC2->saio == A2 && RC2->spipe == RXP && A2->a_msg == OLD(XM2))
#endif
#endif
;
#endif

/* ---- resp0_pipe_close (C07, C02, C03, C15): every response queued for the closing pipe is reported as sent
 * (exactly once each) and its message released exactly once; the pipe is no longer a response target: its id
 * leaves the pipe map, so a context that captured a survey of this pipe gets its response discarded by
 * resp0_ctx_send (units resp0_ctx_send_*_gone of module respond), never sent to another pipe; a survey the pipe
 * still held is no longer receivable and the poll flags mirror the new state. */
#if XQ_RP == 0
#define XRECVP_PRE (RXS->recvpipes.ll_offset == R_OFF_RP && LIST_IS_EMPTY(&RXS->recvpipes) && NODE_IDLE(&RXP->rnode))
#define XRECVP_POST (LIST_IS_EMPTY(&RXS->recvpipes))
#elif XQ_RP == 1
#define XRECVP_PRE (RXS->recvpipes.ll_offset == R_OFF_RP && LIST_IS_ONE(&RXS->recvpipes, &RXP->rnode))
#define XRECVP_POST (LIST_IS_EMPTY(&RXS->recvpipes))
#elif XQ_RP == 2
#define XRECVP_PRE (RXS->recvpipes.ll_offset == R_OFF_RP && OBJ_OK(g_p1, struct resp0_pipe) && DISTINCT(g_p1, RXS) && DISTINCT(g_p1, arg) && LIST_IS_TWO(&RXS->recvpipes, &RXP->rnode, &RP1->rnode))
#define XRECVP_POST (LIST_IS_ONE(&RXS->recvpipes, &RP1->rnode))
#elif XQ_RP == 3
#define XRECVP_PRE (RXS->recvpipes.ll_offset == R_OFF_RP && OBJ_OK(g_p1, struct resp0_pipe) && DISTINCT(g_p1, RXS) && DISTINCT(g_p1, arg) && LIST_IS_TWO(&RXS->recvpipes, &RP1->rnode, &RXP->rnode))
#define XRECVP_POST (LIST_IS_ONE(&RXS->recvpipes, &RP1->rnode))
#else
#define XRECVP_PRE (RXS->recvpipes.ll_offset == R_OFF_RP && OBJ_OK(g_p1, struct resp0_pipe) && DISTINCT(g_p1, RXS) && DISTINCT(g_p1, arg) && LIST_IS_ONE(&RXS->recvpipes, &RP1->rnode) && NODE_IDLE(&RXP->rnode))
#define XRECVP_POST (LIST_IS_ONE(&RXS->recvpipes, &RP1->rnode))
#endif
static void resp0_pipe_close(void *arg)
__CPROVER_requires(XPIPE_PRE && VP_NO_LOCK_HELD)
__CPROVER_requires(XSENDQ_PRE && XRECVP_PRE && XPOLL_PRE(RXS))
/* state invariant (C15): the socket polls readable iff some pipe holds an accepted survey */
__CPROVER_requires(g_pollr == (XQ_RP != 0))
/* the tracked key of the pipe map is this pipe's id */
__CPROVER_requires(g_idm_addr == &RXS->pipes && g_idm_key == (uint64_t) RXP->id)
__CPROVER_assigns(RXP->closed, RXP->rnode, RXS->recvpipes.ll_head, RXP->sendq.ll_head, VP_PROTO_GHOST_LIST, VP_REPX_GHOST_LIST, VP_SV_GHOST_LIST, VP_SYNC_GHOSTS, g_free_calls)
#if XQ_RP >= 2
__CPROVER_assigns(RP1->rnode)
#endif
#if XQ_SQ >= 1
__CPROVER_assigns(RC1->saio, RC1->sqnode, A1->a_msg, *XM1)
__CPROVER_frees(XM1, XM1->m_body.ch_buf)
#endif
#if XQ_SQ == 2
__CPROVER_assigns(RC2->saio, RC2->sqnode, A2->a_msg, *XM2)
__CPROVER_frees(XM2, XM2->m_body.ch_buf)
#endif
__CPROVER_ensures(VP_NO_LOCK_HELD && RXP->closed)
/* both pipe aios are closed; nothing is sent, received or disconnected from here */
__CPROVER_ensures(g_aio_close_calls == OLD(g_aio_close_calls) + 2 && g_x.aio_close_a == &RXP->aio_send && g_x.aio_close_b == &RXP->aio_recv)
__CPROVER_ensures(g_pipe_send_calls == OLD(g_pipe_send_calls) && g_pipe_recv_calls == OLD(g_pipe_recv_calls) && g_pipe_close_calls == OLD(g_pipe_close_calls) && g_start_calls == OLD(g_start_calls))
/* C07: no longer a response target */
__CPROVER_ensures(!g_sv.idm_present && g_sv.idm_set_calls == OLD(g_sv.idm_set_calls))
/* no longer receivable; a survey it still held stays with the pipe (released by resp0_pipe_fini) */
__CPROVER_ensures(NODE_IDLE(&RXP->rnode) && XRECVP_POST && RXP->aio_recv.a_msg == OLD(RXP->aio_recv.a_msg))
/* C15: readable iff another pipe still holds a survey */
__CPROVER_ensures(g_pollr == (XQ_RP >= 2))
/* C15: the socket's own context holds a survey of this pipe: its response will be accepted (and discarded) */
__CPROVER_ensures((RXP->id == RXS->ctx.pipe_id) ? g_pollw : (g_pollw == OLD(g_pollw)))
/* C02/C03: every queued response: completed exactly once as sent, message released exactly once, context free again */
__CPROVER_ensures(LIST_IS_EMPTY(&RXP->sendq) && g_fin_calls == OLD(g_fin_calls) + XQ_SQ && g_free_calls == OLD(g_free_calls) + 2 * XQ_SQ)
#if XQ_SQ == 0
__CPROVER_ensures(WA_NONE_IF(1))
#endif
#if XQ_SQ >= 1
__CPROVER_ensures(WA_ONCE(A1, 0, OLD(XM1->m_body.ch_len), NULL) && A1->a_msg == NULL && __CPROVER_was_freed(OLD(XM1)) && RC1->saio == NULL && NODE_IDLE(&RC1->sqnode))
#endif
#if XQ_SQ == 1
__CPROVER_ensures(WA_NONE_IF(g_wa != g_a1) && g_fin_last == A1)
#endif
#if XQ_SQ == 2
__CPROVER_ensures(WA_ONCE(A2, 0, OLD(XM2->m_body.ch_len), NULL) && A2->a_msg == NULL && __CPROVER_was_freed(OLD(XM2)) && RC2->saio == NULL && NODE_IDLE(&RC2->sqnode))
__CPROVER_ensures(WA_NONE_IF(g_wa != g_a1 && g_wa != g_a2) && g_fin_last == A2)
#endif
;

/* ===== context units: the context under contract is `arg` (RS_CTX_PRE, see above) ===== */
/* the pipe the context is queued on (RP1) and the other context on that queue (RC1) */
#define XCS_PIPE (OBJ_OK(g_p1, struct resp0_pipe) && DISTINCT(g_p1, g_sock) && DISTINCT(g_p1, arg) && RP1->sendq.ll_offset == R_OFF_SQ && RP1->psock == RSOCK)
#define XCS_OTHER (OBJ_OK(g_c1, struct resp0_ctx) && DISTINCT(g_c1, g_sock) && DISTINCT(g_c1, arg) && DISTINCT(g_c1, g_p1))
#define XCS_AIO (OBJ_OK(g_a1, struct nng_aio) && RCTX->saio == A1 && RCTX->spipe == RP1 && MSG_PRE(XM1) && XM1->m_refcnt.v == 1)
#if XQ_CS == 0
#define XCS_PRE (RCTX->saio == NULL && NODE_IDLE(&RCTX->sqnode))
#define XCS_POST (RCTX->saio == NULL && NODE_IDLE(&RCTX->sqnode))
#elif XQ_CS == 1
#define XCS_PRE (XCS_PIPE && XCS_AIO && LIST_IS_ONE(&RP1->sendq, &RCTX->sqnode))
#define XCS_POST (RCTX->saio == NULL && NODE_IDLE(&RCTX->sqnode) && LIST_IS_EMPTY(&RP1->sendq))
#elif XQ_CS == 2
#define XCS_PRE (XCS_PIPE && XCS_OTHER && XCS_AIO && LIST_IS_TWO(&RP1->sendq, &RCTX->sqnode, &RC1->sqnode))
#define XCS_POST (RCTX->saio == NULL && NODE_IDLE(&RCTX->sqnode) && LIST_IS_ONE(&RP1->sendq, &RC1->sqnode))
#else
#define XCS_PRE (XCS_PIPE && XCS_OTHER && XCS_AIO && LIST_IS_TWO(&RP1->sendq, &RC1->sqnode, &RCTX->sqnode))
#define XCS_POST (RCTX->saio == NULL && NODE_IDLE(&RCTX->sqnode) && LIST_IS_ONE(&RP1->sendq, &RC1->sqnode))
#endif
#define XCR_OTHER (OBJ_OK(g_c2, struct resp0_ctx) && DISTINCT(g_c2, g_sock) && DISTINCT(g_c2, arg))
#define XCR_AIO (OBJ_OK(g_a2, struct nng_aio) && RCTX->raio == A2 && DISTINCT(g_a2, g_a1))
#if XQ_CR == 0
#define XCR_PRE (RCTX->raio == NULL && NODE_IDLE(&RCTX->rqnode) && RSOCK->recvq.ll_offset == R_OFF_RQ && LIST_IS_EMPTY(&RSOCK->recvq))
#define XCR_POST (RCTX->raio == NULL && NODE_IDLE(&RCTX->rqnode) && LIST_IS_EMPTY(&RSOCK->recvq))
#elif XQ_CR == 1
#define XCR_PRE (RSOCK->recvq.ll_offset == R_OFF_RQ && XCR_AIO && LIST_IS_ONE(&RSOCK->recvq, &RCTX->rqnode))
#define XCR_POST (RCTX->raio == NULL && NODE_IDLE(&RCTX->rqnode) && LIST_IS_EMPTY(&RSOCK->recvq))
#elif XQ_CR == 2
#define XCR_PRE (RSOCK->recvq.ll_offset == R_OFF_RQ && XCR_OTHER && XCR_AIO && LIST_IS_TWO(&RSOCK->recvq, &RCTX->rqnode, &RC2->rqnode))
#define XCR_POST (RCTX->raio == NULL && NODE_IDLE(&RCTX->rqnode) && LIST_IS_ONE(&RSOCK->recvq, &RC2->rqnode))
#else
#define XCR_PRE (RSOCK->recvq.ll_offset == R_OFF_RQ && XCR_OTHER && XCR_AIO && LIST_IS_TWO(&RSOCK->recvq, &RC2->rqnode, &RCTX->rqnode))
#define XCR_POST (RCTX->raio == NULL && NODE_IDLE(&RCTX->rqnode) && LIST_IS_ONE(&RSOCK->recvq, &RC2->rqnode))
#endif
#define X_NO_PIPE_OPS (g_pipe_send_calls == OLD(g_pipe_send_calls) && g_pipe_recv_calls == OLD(g_pipe_recv_calls) && g_pipe_close_calls == OLD(g_pipe_close_calls) && g_start_calls == OLD(g_start_calls) && g_pollr == OLD(g_pollr) && g_pollw == OLD(g_pollw))

/* ---- resp0_ctx_cancel_send (C02, C03, C07): a queued response is withdrawn (timeout / abort / stop): exactly
 * that aio completes, once, with the given error; the context leaves the send queue of its pipe, the other
 * waiters keep their order; the message goes back to the caller (still attached, header cleared, body
 * untouched).  If the aio is not the context's pending send (already handed to the pipe or completed),
 * nothing happens: single winner. */
#ifdef XQ_CANCEL_OTHER
static void resp0_ctx_cancel_send(nni_aio *aio, void *arg, nng_err rv)
__CPROVER_requires(RS_CTX_PRE && VP_NO_LOCK_HELD && RCTX->saio != aio)
__CPROVER_assigns(VP_PROTO_GHOST_LIST, VP_REPX_GHOST_LIST, VP_SYNC_GHOSTS)
__CPROVER_ensures(VP_NO_LOCK_HELD && g_fin_calls == OLD(g_fin_calls) && WA_NONE_IF(1) && X_NO_PIPE_OPS)
;
#else
static void resp0_ctx_cancel_send(nni_aio *aio, void *arg, nng_err rv)
__CPROVER_requires(RS_CTX_PRE && VP_NO_LOCK_HELD && aio == A1)
__CPROVER_requires(XCS_PRE)
__CPROVER_requires(HDR_GHOST_PRE(XM1) && CH_GHOST_PRE(&XM1->m_body))
__CPROVER_assigns(RCTX->saio, RCTX->sqnode, RP1->sendq.ll_head, XM1->m_header_len, VP_PROTO_GHOST_LIST, VP_REPX_GHOST_LIST, VP_SYNC_GHOSTS)
#if XQ_CS >= 2
__CPROVER_assigns(RC1->sqnode)
#endif
__CPROVER_ensures(VP_NO_LOCK_HELD && XCS_POST && X_NO_PIPE_OPS)
/* exactly this aio, exactly once, with the given error; the message is still attached: it is the caller's again */
__CPROVER_ensures(g_fin_calls == OLD(g_fin_calls) + 1 && g_fin_last == aio && g_fin_last_rv == (int) rv && g_fin_last_msg == OLD(XM1) && aio->a_msg == OLD(XM1))
__CPROVER_ensures(WA_ONCE(aio, rv, 0, OLD(XM1)) && WA_NONE_IF(g_wa != g_a1))
/* the caller gets its message back without the routing header, body byte for byte */
__CPROVER_ensures(aio->a_msg->m_header_len == 0 && aio->a_msg->m_body.ch_len == OLD(XM1->m_body.ch_len))
__CPROVER_ensures((g_k < OLD(XM1->m_body.ch_len)) ==> aio->a_msg->m_body.ch_ptr[g_k] == g_b)
/* the pipe itself is not touched, the response state stays consumed (a retry needs a new survey) */
__CPROVER_ensures(RP1->busy == OLD(RP1->busy) && RCTX->btrace_len == OLD(RCTX->btrace_len) && RCTX->pipe_id == OLD(RCTX->pipe_id))
;
#endif

/* ---- resp0_cancel_recv (C02): a waiting receive is withdrawn: exactly that aio completes, once, with the
 * given error, the context leaves s->recvq, the other waiters keep their order; otherwise nothing happens */
#ifdef XQ_CANCEL_OTHER
static void resp0_cancel_recv(nni_aio *aio, void *arg, nng_err rv)
__CPROVER_requires(RS_CTX_PRE && VP_NO_LOCK_HELD && RCTX->raio != aio)
__CPROVER_assigns(VP_PROTO_GHOST_LIST, VP_REPX_GHOST_LIST, VP_SYNC_GHOSTS)
__CPROVER_ensures(VP_NO_LOCK_HELD && g_fin_calls == OLD(g_fin_calls) && WA_NONE_IF(1) && X_NO_PIPE_OPS)
;
#else
static void resp0_cancel_recv(nni_aio *aio, void *arg, nng_err rv)
__CPROVER_requires(RS_CTX_PRE && VP_NO_LOCK_HELD && aio == A2)
__CPROVER_requires(XCR_PRE)
__CPROVER_assigns(RCTX->raio, RCTX->rqnode, RSOCK->recvq.ll_head, VP_PROTO_GHOST_LIST, VP_REPX_GHOST_LIST, VP_SYNC_GHOSTS)
#if XQ_CR >= 2
__CPROVER_assigns(RC2->rqnode)
#endif
__CPROVER_ensures(VP_NO_LOCK_HELD && XCR_POST && X_NO_PIPE_OPS)
__CPROVER_ensures(g_fin_calls == OLD(g_fin_calls) + 1 && g_fin_last == aio && g_fin_last_rv == (int) rv && aio->a_msg == OLD(aio->a_msg))
__CPROVER_ensures(WA_ONCE(aio, rv, 0, OLD(aio->a_msg)) && WA_NONE_IF(g_wa != g_a2))
/* the captured response state of the context is not touched */
__CPROVER_ensures(RCTX->btrace_len == OLD(RCTX->btrace_len) && RCTX->pipe_id == OLD(RCTX->pipe_id))
;
#endif

/* ---- resp0_ctx_close / resp0_ctx_fini / resp0_sock_close (C02, C03): a pending send and a pending receive of
 * the context each complete exactly once with NNG_ECLOSED and leave their queues (other waiters keep their
 * order); the unsent response stays attached to its aio (the caller's).  Nothing else completes. */
#if XQ_CS == 0
#define XCL_SEND_REQ (1)
#define XCL_SEND_POST (1)
#else
#define XCL_SEND_REQ (HDR_GHOST_PRE(XM1))
#define XCL_SEND_POST (WA_ONCE(A1, NNG_ECLOSED, 0, OLD(XM1)) && A1->a_msg == OLD(XM1) && A1->a_msg->m_header_len == OLD(XM1->m_header_len) && A1->a_msg->m_body.ch_len == OLD(XM1->m_body.ch_len) && RCTX->spipe == NULL)
#endif
#if XQ_CR == 0
#define XCL_RECV_POST (1)
#else
#define XCL_RECV_POST (WA_ONCE(A2, NNG_ECLOSED, 0, OLD(A2->a_msg)))
#endif
#define XCL_NFIN ((XQ_CS != 0) + (XQ_CR != 0))
#define XCL_CLAUSES                                                                                            \
	__CPROVER_requires(RS_CTX_PRE && VP_NO_LOCK_HELD)                                                         \
	__CPROVER_requires(XCS_PRE)                                                                                \
	__CPROVER_requires(XCR_PRE)                                                                                \
	__CPROVER_requires(XCL_SEND_REQ)                                                                           \
	__CPROVER_assigns(RCTX->saio, RCTX->spipe, RCTX->sqnode, RCTX->raio, RCTX->rqnode, RSOCK->recvq.ll_head, VP_PROTO_GHOST_LIST, VP_REPX_GHOST_LIST, VP_SYNC_GHOSTS) \
	__CPROVER_assigns(XQ_CS >= 1: RP1->sendq.ll_head)                                                           \
	__CPROVER_assigns(XQ_CS >= 2: RC1->sqnode)                                                                  \
	__CPROVER_assigns(XQ_CR >= 2: RC2->rqnode)                                                                  \
	__CPROVER_ensures(VP_NO_LOCK_HELD && XCS_POST && XCR_POST && X_NO_PIPE_OPS)                                \
	__CPROVER_ensures(g_fin_calls == OLD(g_fin_calls) + XCL_NFIN)                                              \
	__CPROVER_ensures(XCL_SEND_POST && XCL_RECV_POST && WA_NONE_IF(!(XQ_CS != 0 && g_wa == g_a1) && !(XQ_CR != 0 && g_wa == g_a2))) \
	__CPROVER_ensures(RCTX->btrace_len == OLD(RCTX->btrace_len) && RCTX->pipe_id == OLD(RCTX->pipe_id))
static void resp0_ctx_close(void *arg)
XCL_CLAUSES
;
static void resp0_ctx_fini(void *arg)
XCL_CLAUSES
;
/* the socket's close entry closes the socket's own context (arg = the socket) */
#ifdef XQ_SOCK_CLOSE
#undef RCTX
#define RCTX (&((resp0_sock *) arg)->ctx)
#undef RS_CTX_PRE
#define RS_CTX_PRE (OBJ_OK(g_sock, struct resp0_sock) && arg == g_sock && RCTX->sock == RSOCK)
static void resp0_sock_close(void *arg)
XCL_CLAUSES
;
#endif

/* ---- resp0_pipe_fini (C03): a survey the pipe still held (accepted, never received) is released exactly once ---- */
#define XRM (RXP->aio_recv.a_msg)
static void resp0_pipe_fini(void *arg)
__CPROVER_requires(OBJ_OK(arg, struct resp0_pipe))
__CPROVER_requires(XRM == NULL || (__CPROVER_is_fresh(XRM, sizeof(struct nng_msg)) && XRM->m_refcnt.v == 1 && XRM->m_header_len <= MSG_HDRCAP && CH_FULL_PRE(&XRM->m_body)))
__CPROVER_assigns(RXP->aio_recv.a_msg, VP_REPX_GHOST_LIST, g_free_calls)
__CPROVER_assigns(XRM != NULL: *XRM)
__CPROVER_frees(XRM != NULL: XRM, XRM->m_body.ch_buf)
__CPROVER_ensures(RXP->aio_recv.a_msg == NULL)
__CPROVER_ensures(OLD(XRM) != NULL ==> (__CPROVER_was_freed(OLD(XRM)) && g_free_calls == OLD(g_free_calls) + 2))
__CPROVER_ensures(OLD(XRM) == NULL ==> g_free_calls == OLD(g_free_calls))
__CPROVER_ensures(g_x.aio_fini_calls == OLD(g_x.aio_fini_calls) + 2 && g_x.aio_fini_a == &RXP->aio_send && g_x.aio_fini_b == &RXP->aio_recv)
;


/* ===================================================================== */
/* ===== resp0_ctx_send / resp0_ctx_recv on the real lists: the send descriptor (C15) ===== */
/* State invariant W_INV(p), required and ensured: while pipe p is registered and busy and the socket's own
 * context holds a survey of p (s->ctx.pipe_id == p->id), the send descriptor is NOT raised -- the socket's
 * response would have to queue behind the pipe (a non-blocking send would return NNG_EAGAIN).  The raising
 * side (pipe idle again / pipe gone) is stated by resp0_pipe_send_cb_sq0 and resp0_pipe_close_* above.
 * NOT restated here: the non-blocking rule of resp0_ctx_send itself (nni_aio_start consulted before the
 * state is looked at) -- KNOWN FINDING KF1 of module respond, pinned by an existing test.
 * -DRS_HAS=0|1: a pipe is registered under the captured pipe id; -DRS_SQ=0|1: another context (RC2) is
 * already queued on that pipe. */
#ifndef RS_HAS
#define RS_HAS 0
#endif
#ifndef RS_SQ
#define RS_SQ 0
#endif
#define CSP ((resp0_pipe *) g_sv.idm_val)
#define CSM (aio->a_msg)
#define CS_BL OLD(RCTX->btrace_len)
#define CS_BT(c) ((uint8_t *) (c)->btrace)
#define CS_REFUSED (g_start_calls > OLD(g_start_calls) && !g_aio_start_ok)
#define CS_W_INV ((CSP->busy && RSOCK->ctx.pipe_id == CSP->id) ==> !g_pollw)
#if RS_SQ == 0
#define CS_SQ_PRE (LIST_IS_EMPTY(&CSP->sendq))
#define CS_SQ_PLUS (LIST_IS_ONE(&CSP->sendq, &RCTX->sqnode))
#else
#define CS_SQ_PRE (OBJ_OK(g_c2, struct resp0_ctx) && DISTINCT(g_c2, g_sock) && DISTINCT(g_c2, arg) && DISTINCT(g_c2, g_sv.idm_val) && LIST_IS_ONE(&CSP->sendq, &RC2->sqnode))
#define CS_SQ_PLUS (LIST_IS_TWO(&CSP->sendq, &RC2->sqnode, &RCTX->sqnode))
#endif
#ifdef RS_REJECT
/* ---- out-of-order use (C07, C03; /repo commit dc2bc3a): a response of THIS context is still queued behind a busy
 * pipe (ctx->saio != NULL, the context linked on that pipe's send queue: -DXQ_CS=1 alone, 2 first of two, 3 second
 * of two) and the application -- after another receive -- sends again.  The new send is refused: its aio completes
 * exactly once with NNG_ESTATE, the message stays attached (the caller's, not freed, body untouched), nothing is
 * sent, the aio layer is not consulted, and the queued response, its place in the pipe's queue, the captured
 * backtrace length and pipe id are exactly as before. ---- */
#if XQ_CS == 1
#define XCS_SAME (LIST_IS_ONE(&RP1->sendq, &RCTX->sqnode))
#elif XQ_CS == 2
#define XCS_SAME (LIST_IS_TWO(&RP1->sendq, &RCTX->sqnode, &RC1->sqnode))
#else
#define XCS_SAME (LIST_IS_TWO(&RP1->sendq, &RC1->sqnode, &RCTX->sqnode))
#endif
static void resp0_ctx_send(void *arg, nni_aio *aio)
__CPROVER_requires(RS_CTX_PRE && VP_NO_LOCK_HELD && XPOLL_PRE(RSOCK))
__CPROVER_requires(__CPROVER_is_fresh(aio, sizeof(nni_aio)) && MSG_PRE(CSM) && CSM->m_refcnt.v == 1 && CH_GHOST_PRE(&CSM->m_body))
__CPROVER_requires(XCS_PRE)
/* state invariant: a response is queued only behind a busy pipe; the backtrace fits the header */
__CPROVER_requires(RP1->busy && RCTX->btrace_len <= MSG_HDRCAP && g_idm_addr == &RSOCK->pipes && g_idm_key == (uint64_t) RCTX->pipe_id)
__CPROVER_assigns(aio->a_result, aio->a_count, CSM->m_header_len, VP_PROTO_GHOST_LIST, VP_REPX_GHOST_LIST, VP_SYNC_GHOSTS)
__CPROVER_ensures(VP_NO_LOCK_HELD && g_pollr == OLD(g_pollr))
/* refused: exactly one completion, of this aio, with NNG_ESTATE; the message is still attached and the caller's */
__CPROVER_ensures(g_fin_calls == OLD(g_fin_calls) + 1 && g_fin_last == aio && g_fin_last_rv == NNG_ESTATE && WA_ONCE(aio, NNG_ESTATE, 0, OLD(CSM)) && WA_NONE_IF(g_wa != (void *) aio) && aio->a_msg == OLD(CSM))
__CPROVER_ensures(aio->a_msg->m_refcnt.v == 1 && aio->a_msg->m_body.ch_len == OLD(CSM->m_body.ch_len) && ((g_k < OLD(CSM->m_body.ch_len)) ==> aio->a_msg->m_body.ch_ptr[g_k] == g_b))
/* nothing is sent, the aio layer is not consulted, no pipe is touched */
__CPROVER_ensures(g_pipe_send_calls == OLD(g_pipe_send_calls) && g_start_calls == OLD(g_start_calls) && g_pipe_close_calls == OLD(g_pipe_close_calls) && g_pipe_recv_calls == OLD(g_pipe_recv_calls) && RP1->busy)
/* the queued response is not disturbed: same aio, same pipe, same place in the queue, same message */
__CPROVER_ensures(RCTX->saio == A1 && RCTX->spipe == RP1 && XCS_SAME && A1->a_msg == OLD(XM1) && A1->a_msg->m_header_len == OLD(XM1->m_header_len))
/* the capture of the survey received in between is not consumed */
__CPROVER_ensures(RCTX->btrace_len == OLD(RCTX->btrace_len) && RCTX->pipe_id == OLD(RCTX->pipe_id))
#if RS_C1M == 0 || defined(RS_REJECT_W)
__CPROVER_ensures(g_pollw == OLD(g_pollw))
#endif
;
#else
static void resp0_ctx_send(void *arg, nni_aio *aio)
__CPROVER_requires(RS_CTX_PRE && VP_NO_LOCK_HELD && XPOLL_PRE(RSOCK))
__CPROVER_requires(__CPROVER_is_fresh(aio, sizeof(nni_aio)) && MSG_PRE(CSM) && CSM->m_refcnt.v == 1 && CH_GHOST_PRE(&CSM->m_body))
__CPROVER_requires(RCTX->btrace_len <= MSG_HDRCAP && RCTX->saio == NULL && NODE_IDLE(&RCTX->sqnode))
__CPROVER_requires((g_hk < RCTX->btrace_len) ==> g_hb == CS_BT(RCTX)[g_hk])
__CPROVER_requires(g_idm_addr == &RSOCK->pipes && g_idm_key == (uint64_t) RCTX->pipe_id)
#if RS_HAS == 0
__CPROVER_requires(!g_sv.idm_present)
#else
/* map invariant: the pipe registered under an id has that id (resp0_pipe_start), ids are not 0 */
__CPROVER_requires(g_sv.idm_present && OBJ_OK(g_sv.idm_val, struct resp0_pipe) && DISTINCT(g_sv.idm_val, g_sock) && DISTINCT(g_sv.idm_val, arg) && CSP->sendq.ll_offset == R_OFF_SQ && (uint64_t) CSP->id == g_idm_key && CSP->id != 0)
__CPROVER_requires(CS_SQ_PRE)
__CPROVER_requires(CS_W_INV)
#endif
__CPROVER_assigns(aio->a_msg, aio->a_result, aio->a_count, RCTX->pipe_id, RCTX->btrace_len, RCTX->saio, RCTX->spipe, RCTX->sqnode, VP_PROTO_GHOST_LIST, VP_SV_GHOST_LIST, VP_REPX_GHOST_LIST, VP_SYNC_GHOSTS, g_free_calls)
__CPROVER_assigns(*CSM)
#if RS_HAS == 1
__CPROVER_assigns(CSP->busy, CSP->aio_send.a_msg, CSP->sendq.ll_head)
#if RS_SQ == 1
__CPROVER_assigns(RC2->sqnode)
#endif
#endif
__CPROVER_frees(CSM, CSM->m_body.ch_buf)
__CPROVER_ensures(VP_NO_LOCK_HELD && g_start_calls <= OLD(g_start_calls) + 1 && g_pollr == OLD(g_pollr) && WA_NONE_IF(g_wa != (void *) aio))
/* refused by the aio layer: the message stays with the caller, nothing sent / queued / completed here, the survey stays answerable */
__CPROVER_ensures(CS_REFUSED ==> (aio->a_msg == OLD(CSM) && !__CPROVER_was_freed(OLD(CSM)) && g_fin_calls == OLD(g_fin_calls) && g_pipe_send_calls == OLD(g_pipe_send_calls) && RCTX->saio == NULL && NODE_IDLE(&RCTX->sqnode) && RCTX->btrace_len == CS_BL && RCTX->pipe_id == OLD(RCTX->pipe_id)))
/* C07 (a) no survey pending: NNG_ESTATE, message stays with the caller, nothing sent */
__CPROVER_ensures((CS_BL == 0 && !CS_REFUSED) ==> (WA_ONCE(aio, NNG_ESTATE, 0, OLD(CSM)) && g_fin_last == aio && aio->a_msg == OLD(CSM) && !__CPROVER_was_freed(OLD(CSM)) && g_pipe_send_calls == OLD(g_pipe_send_calls) && RCTX->saio == NULL && NODE_IDLE(&RCTX->sqnode)))
/* the capture is consumed whenever the response was accepted (a second send => (a)) */
__CPROVER_ensures((CS_BL > 0 && !CS_REFUSED) ==> (RCTX->btrace_len == 0 && RCTX->pipe_id == 0))
#if RS_HAS == 0
/* C07 (c) the surveyor is gone: the response is discarded, reported as sent, never sent to another pipe */
__CPROVER_ensures((CS_BL > 0 && !CS_REFUSED) ==> (__CPROVER_was_freed(OLD(CSM)) && g_pipe_send_calls == OLD(g_pipe_send_calls) && WA_ONCE(aio, 0, OLD(CSM->m_body.ch_len), NULL) && g_fin_last == aio && aio->a_msg == NULL && RCTX->saio == NULL))
#else
/* C07 (b) surveyor's pipe idle: on the wire now, to exactly the captured pipe, header = exactly the captured backtrace, body unchanged */
__CPROVER_ensures((CS_BL > 0 && !CS_REFUSED && !OLD(CSP->busy)) ==> (g_pipe_send_calls == OLD(g_pipe_send_calls) + 1 && g_pipe_send_pipe == CSP->npipe && g_pipe_send_aio == &CSP->aio_send && g_pipe_send_msg == OLD(CSM) && CSP->busy
    && !__CPROVER_was_freed(OLD(CSM)) && OLD(CSM)->m_header_len == CS_BL && OLD(CSM)->m_body.ch_len == OLD(CSM->m_body.ch_len) && WA_ONCE(aio, 0, OLD(CSM->m_body.ch_len), NULL) && g_fin_last == aio && aio->a_msg == NULL && RCTX->saio == NULL && NODE_IDLE(&RCTX->sqnode) && CS_SQ_PRE))
__CPROVER_ensures((CS_BL > 0 && !CS_REFUSED && !OLD(CSP->busy) && g_hk < CS_BL) ==> HDR(OLD(CSM))[g_hk] == g_hb)
__CPROVER_ensures((CS_BL > 0 && !CS_REFUSED && !OLD(CSP->busy) && g_k < OLD(CSM->m_body.ch_len)) ==> OLD(CSM)->m_body.ch_ptr[g_k] == g_b)
/* C07 (d) pipe busy: waits LAST behind the responses already queued on that pipe, header = backtrace, message still attached */
__CPROVER_ensures((CS_BL > 0 && !CS_REFUSED && OLD(CSP->busy)) ==> (g_pipe_send_calls == OLD(g_pipe_send_calls) && g_fin_calls == OLD(g_fin_calls) && aio->a_msg == OLD(CSM) && !__CPROVER_was_freed(OLD(CSM)) && OLD(CSM)->m_header_len == CS_BL
    && RCTX->saio == aio && RCTX->spipe == CSP && CS_SQ_PLUS && CSP->busy))
__CPROVER_ensures((CS_BL > 0 && !CS_REFUSED && OLD(CSP->busy) && g_hk < CS_BL) ==> HDR(OLD(CSM))[g_hk] == g_hb)
/* C15: the invariant is kept: a response of ANY context that makes the pipe busy takes away the socket's "can send"
 * indication when the socket's own context holds a survey of that same pipe */
__CPROVER_ensures(CS_W_INV)
#endif
#if RS_C1M == 1
/* C15: the socket's own context: once the response was accepted (or rejected for good) the descriptor is lowered: one response per survey */
__CPROVER_ensures(!CS_REFUSED ==> !g_pollw)
#endif
/* the pipe map is only read */
__CPROVER_ensures(g_sv.idm_present == OLD(g_sv.idm_present) && g_sv.idm_set_calls == OLD(g_sv.idm_set_calls) && g_sv.idm_remove_calls == OLD(g_sv.idm_remove_calls))
;
#endif /* RS_REJECT */

/* ---- resp0_ctx_recv, a pipe holds a survey (-DRS_RP=1|2 pipes on s->recvpipes, nobody waits): handed over in
 * the call (C15: nni_aio_start not consulted), backtrace + pipe id captured (C07), readable iff another pipe
 * still holds a survey; and, for the socket's own context, the send descriptor mirrors whether the response
 * can go out at once: raised iff the surveyor's pipe is idle ---- */
#ifndef RS_RP
#define RS_RP 1
#endif
#define RCV_M (RP1->aio_recv.a_msg)
#if RS_RP == 1
#define RCV_PIPES (RSOCK->recvpipes.ll_offset == R_OFF_RP && OBJ_OK(g_p1, struct resp0_pipe) && DISTINCT(g_p1, g_sock) && DISTINCT(g_p1, arg) && LIST_IS_ONE(&RSOCK->recvpipes, &RP1->rnode))
#else
#define RCV_PIPES (RSOCK->recvpipes.ll_offset == R_OFF_RP && OBJ_OK(g_p1, struct resp0_pipe) && DISTINCT(g_p1, g_sock) && DISTINCT(g_p1, arg) && OBJ_OK(g_p2, struct resp0_pipe) && DISTINCT(g_p2, g_sock) && DISTINCT(g_p2, arg) && DISTINCT(g_p2, g_p1) && LIST_IS_TWO(&RSOCK->recvpipes, &RP1->rnode, &RP2->rnode))
#endif
static void resp0_ctx_recv(void *arg, nni_aio *aio)
__CPROVER_requires(RS_CTX_PRE && VP_NO_LOCK_HELD && XPOLL_PRE(RSOCK))
__CPROVER_requires(__CPROVER_is_fresh(aio, sizeof(nni_aio)))
__CPROVER_requires(RCTX->raio == NULL && NODE_IDLE(&RCTX->rqnode) && RSOCK->recvq.ll_offset == R_OFF_RQ && LIST_IS_EMPTY(&RSOCK->recvq))
__CPROVER_requires(RCV_PIPES && RP1->id != 0)
/* the first pipe holds an accepted survey: header = backtrace (at most 64 bytes), see resp0_pipe_recv_cb (module respond) */
__CPROVER_requires(MSG_PRE(RCV_M) && RCV_M->m_refcnt.v == 1 && CH_GHOST_PRE(&RCV_M->m_body) && HDR_GHOST_PRE(RCV_M))
/* C15 state invariant: readable iff some pipe holds a survey */
__CPROVER_requires(g_pollr)
__CPROVER_assigns(aio->a_msg, aio->a_result, aio->a_count, RCTX->btrace_len, RCTX->btrace, RCTX->pipe_id, RSOCK->recvpipes.ll_head, RP1->rnode, RP1->aio_recv.a_msg, RCV_M->m_header_len, VP_PROTO_GHOST_LIST, VP_REPX_GHOST_LIST, VP_SYNC_GHOSTS)
#if RS_RP == 2
__CPROVER_assigns(RP2->rnode)
#endif
__CPROVER_ensures(VP_NO_LOCK_HELD)
__CPROVER_ensures(g_start_calls == OLD(g_start_calls) && WA_ONCE(aio, 0, OLD(RCV_M->m_body.ch_len), OLD(RCV_M)) && WA_NONE_IF(g_wa != (void *) aio) && g_fin_last == aio && aio->a_msg == OLD(RCV_M) && RCTX->raio == NULL)
/* the context captures exactly the backtrace of THAT survey and the id of the pipe it came from */
__CPROVER_ensures(RCTX->btrace_len == OLD(RCV_M->m_header_len) && RCTX->pipe_id == RP1->id)
__CPROVER_ensures((g_hk < OLD(RCV_M->m_header_len)) ==> CS_BT(RCTX)[g_hk] == g_hb)
/* the application gets the body unchanged and no header */
__CPROVER_ensures(aio->a_msg->m_header_len == 0 && aio->a_msg->m_body.ch_len == OLD(RCV_M->m_body.ch_len))
__CPROVER_ensures((g_k < OLD(RCV_M->m_body.ch_len)) ==> aio->a_msg->m_body.ch_ptr[g_k] == g_b)
/* that pipe is armed for its next survey and leaves the holding list; readable iff another pipe still holds one */
__CPROVER_ensures(RP1->aio_recv.a_msg == NULL && g_pipe_recv_calls == OLD(g_pipe_recv_calls) + 1 && g_pipe_recv_pipe == RP1->npipe && g_pipe_recv_aio == &RP1->aio_recv && NODE_IDLE(&RP1->rnode))
#if RS_RP == 1
__CPROVER_ensures(LIST_IS_EMPTY(&RSOCK->recvpipes) && !g_pollr)
#else
__CPROVER_ensures(LIST_IS_ONE(&RSOCK->recvpipes, &RP2->rnode) && g_pollr)
#endif
#if RS_C1M == 1
/* C15: the socket now holds a survey of RP1: "can send" iff that pipe is idle (no missed wake-up, no busy loop) */
__CPROVER_ensures(RP1->busy ? !g_pollw : g_pollw)
#else
__CPROVER_ensures(g_pollw == OLD(g_pollw))
#endif
;
