/* modules/surveyx/env.h -- ASSUMED environment of module surveyx in addition to include/env_proto.h,
 * modules/xrespond/env.h (msgq records, id map with one tracked key, aio timeout accessors) and
 * modules/repx/env.h (per-aio completion counter, aio init/fini/stop/close records).  Ghost state only.
 *   - nni_msgq_tryput with ONE ANSWER PER CALL (up to 4 calls): the broadcast of a raw surveyor offers the
 *     survey to every pipe's send queue; each queue answers on its own (0 = the queue owns that reference
 *     now, NNG_EAGAIN = full, NNG_ECLOSED), and every call is recorded (queue, message).
 *   - nni_msgq_fini as a counted record.
 */
#if defined(VP_SX_GHOSTS) && !defined(VP_SX_GHOSTS_DONE)
#define VP_SX_GHOSTS_DONE
struct vp_sx_env {
	size_t    tp_calls;   /* tryput calls in this run */
	nni_msgq *tp_q[4];    /* queue of call i */
	nni_msg  *tp_msg[4];  /* message of call i */
	size_t    tp_accepted; /* calls answered 0 */
	size_t    mq_fini_calls;
} g_sx;
int g_tp_rv[4]; /* environment: the answer of tryput call i */
#define VP_SX_GHOST_LIST g_sx
#define VP_HAVOC_SX()                                                      \
	do {                                                                   \
		g_sx.tp_calls = 0; g_sx.tp_accepted = 0; g_sx.mq_fini_calls = nondet_size_t(); \
		g_sx.tp_q[0] = nondet_ptr(); g_sx.tp_q[1] = nondet_ptr(); g_sx.tp_q[2] = nondet_ptr(); g_sx.tp_q[3] = nondet_ptr(); \
		g_sx.tp_msg[0] = nondet_ptr(); g_sx.tp_msg[1] = nondet_ptr(); g_sx.tp_msg[2] = nondet_ptr(); g_sx.tp_msg[3] = nondet_ptr(); \
		g_tp_rv[0] = nondet_int(); g_tp_rv[1] = nondet_int(); g_tp_rv[2] = nondet_int(); g_tp_rv[3] = nondet_int(); \
		__CPROVER_assume(g_sx.mq_fini_calls < ((size_t) 1 << 40)); \
	} while (0)
#define TP_OK(i) (g_tp_rv[i] == 0)
#endif

#if defined(VP_SX_STUBS) && !defined(VP_SX_STUBS_DONE)
#define VP_SX_STUBS_DONE
int nni_msgq_tryput(nni_msgq *mq, nni_msg *msg)
{
	size_t i = g_sx.tp_calls;
	__CPROVER_assert(i < 4, "tryput model limit: at most 4 calls per run");
	/* environment invariant: the answer is 0 (queue owns the message now), NNG_EAGAIN (full) or NNG_ECLOSED */
	__CPROVER_assume(g_tp_rv[i] == 0 || g_tp_rv[i] == NNG_EAGAIN || g_tp_rv[i] == NNG_ECLOSED);
	g_sx.tp_q[i]   = mq;
	g_sx.tp_msg[i] = msg;
	g_sx.tp_calls  = i + 1;
	if (g_tp_rv[i] == 0) {
		g_sx.tp_accepted++;
	}
	return (g_tp_rv[i]);
}
void nni_msgq_fini(nni_msgq *mq) { (void) mq; g_sx.mq_fini_calls++; }
#endif
