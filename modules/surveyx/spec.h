/* Spec macros of module surveyx.  No code.
 * Intrusive lists are the REAL ones (src/core/list.c).  Socket, pipes, contexts, waiting aios and the lists
 * are allocated and linked by the harness with plain C (contents nondeterministic) -- see modules/repx/spec.h
 * for why (pointer_in_range_dfcc on list links gives symbolic offsets and cbmc runs out of memory); every
 * contract restates the shape as plain conditions (LIST_IS_*, rw_ok, distinct objects), so the harness
 * adds no assumption the contract does not state.  The number of list members is a CONSTANT per unit
 * (case split selected by -D..., DESIGN section 9): such units are grade B, the case list is the bound. */
#ifndef VP_SURVEYX_SPEC_H
#define VP_SURVEYX_SPEC_H
#define L_HEAD(l) (&(l)->ll_head)
#define NODE_IDLE(n) ((n)->ln_next == NULL && (n)->ln_prev == NULL)
#define LIST_IS_EMPTY(l) ((l)->ll_head.ln_next == L_HEAD(l) && (l)->ll_head.ln_prev == L_HEAD(l))
#define LIST_IS_ONE(l, n1)                                                 \
	((l)->ll_head.ln_next == (n1) && (l)->ll_head.ln_prev == (n1) &&       \
	    (n1)->ln_next == L_HEAD(l) && (n1)->ln_prev == L_HEAD(l))
#define LIST_IS_TWO(l, n1, n2)                                             \
	((l)->ll_head.ln_next == (n1) && (n1)->ln_next == (n2) && (n2)->ln_next == L_HEAD(l) && \
	    (l)->ll_head.ln_prev == (n2) && (n2)->ln_prev == (n1) && (n1)->ln_prev == L_HEAD(l))
#define LIST_IS_THREE(l, n1, n2, n3)                                       \
	((l)->ll_head.ln_next == (n1) && (n1)->ln_next == (n2) && (n2)->ln_next == (n3) && (n3)->ln_next == L_HEAD(l) && \
	    (l)->ll_head.ln_prev == (n3) && (n3)->ln_prev == (n2) && (n2)->ln_prev == (n1) && (n1)->ln_prev == L_HEAD(l))
#define OBJ_OK(p, T) ((p) != NULL && __CPROVER_rw_ok((T *) (p), sizeof(T)) && __CPROVER_POINTER_OFFSET(p) == 0)
#define DISTINCT(a, b) (!__CPROVER_same_object((a), (b)))
/* a message queue (lmq) embedded in a harness-built object: inline two-slot buffer or a heap array */
#define LMQ_BUILT(q)                                                       \
	(LMQ_WF_SCALAR(q) && (((q)->lmq_alloc == 0) ? ((q)->lmq_msgs == &(q)->lmq_buf[0]) \
	    : ((q)->lmq_msgs != NULL && __CPROVER_rw_ok((q)->lmq_msgs, (q)->lmq_alloc * sizeof(nng_msg *)) && \
	          __CPROVER_POINTER_OFFSET((q)->lmq_msgs) == 0 && !__CPROVER_same_object((q)->lmq_msgs, (q)))))
#endif
