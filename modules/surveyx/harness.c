#define VP_HAVOC_GHOSTS()                         \
	do {                                      \
		g_k = nondet_size_t(); g_j = nondet_size_t(); g_b = nondet_u8(); g_n = nondet_size_t(); \
		g_hk = nondet_size_t(); g_u32 = nondet_u32(); g_hb = nondet_u8(); g_p = nondet_ptr(); \
		g_sock = nondet_ptr(); g_c1 = nondet_ptr(); g_c2 = nondet_ptr(); g_p1 = nondet_ptr(); g_p2 = nondet_ptr(); g_p3 = nondet_ptr(); \
		g_a1 = nondet_ptr(); g_a2 = nondet_ptr(); g_c1_master = nondet_bool(); \
		g_free_calls = nondet_size_t(); g_alloc_ok = nondet_size_t(); g_msg_freed = nondet_size_t(); \
		__CPROVER_assume(g_free_calls < ((size_t) 1 << 40) && g_alloc_ok < ((size_t) 1 << 40) && g_msg_freed < ((size_t) 1 << 40)); \
		VP_HAVOC_PROTO(); VP_HAVOC_SV(); VP_HAVOC_SYNC(); VP_HAVOC_REPX(); VP_HAVOC_SX(); \
	} while (0)
/* ---- harness-built state: objects with nondeterministic contents, lists linked with plain C ---- */
static void vp_list_init(nni_list *l, size_t off) { l->ll_offset = off; l->ll_head.ln_next = &l->ll_head; l->ll_head.ln_prev = &l->ll_head; }
static void vp_list_add(nni_list *l, nni_list_node *n)
{
	n->ln_prev = l->ll_head.ln_prev; n->ln_next = &l->ll_head;
	n->ln_prev->ln_next = n; l->ll_head.ln_prev = n;
}
static void vp_node_idle(nni_list_node *n) { n->ln_next = NULL; n->ln_prev = NULL; }
#define VP_NEW(T, v) T *v = malloc(sizeof(T)); __CPROVER_assume(v != NULL)
/* an lmq embedded in a harness-built object: give it its slot array (inline or heap) */
static void vp_mk_lmq(nni_lmq *q)
{
	if (q->lmq_alloc == 0) {
		q->lmq_msgs = q->lmq_buf;
	} else {
		__CPROVER_assume(q->lmq_alloc <= LMQ_MAXALLOC);
		q->lmq_msgs = malloc(q->lmq_alloc * sizeof(nng_msg *));
		__CPROVER_assume(q->lmq_msgs != NULL);
	}
}

/* ===================== xsurvey.c ===================== */
void h_xsurv0_getq_cb(void) { void *arg; VP_HAVOC_GHOSTS(); xsurv0_getq_cb(arg); VP_CANARY(); }
void h_xsurv0_send_cb(void) { void *arg; VP_HAVOC_GHOSTS(); xsurv0_send_cb(arg); VP_CANARY(); }
void h_xsurv0_putq_cb(void) { void *arg; VP_HAVOC_GHOSTS(); xsurv0_putq_cb(arg); VP_CANARY(); }
#ifndef XV_NP
#define XV_NP 0
#endif
void h_xsurv0_sock_getq_cb(void)
{
	VP_HAVOC_GHOSTS();
	VP_NEW(xsurv0_sock, s); g_sock = s;
	vp_list_init(&s->pipes, offsetof(xsurv0_pipe, node));
#if XV_NP >= 1
	VP_NEW(xsurv0_pipe, p1); p1->psock = s; g_p1 = p1; vp_list_add(&s->pipes, &p1->node);
#endif
#if XV_NP >= 2
	VP_NEW(xsurv0_pipe, p2); p2->psock = s; g_p2 = p2; vp_list_add(&s->pipes, &p2->node);
#endif
#if XV_NP >= 3
	VP_NEW(xsurv0_pipe, p3); p3->psock = s; g_p3 = p3; vp_list_add(&s->pipes, &p3->node);
#endif
	xsurv0_sock_getq_cb(s);
	VP_CANARY();
}
#include "modules/surveyx/h_survey.c"
#include "modules/surveyx/h_respond.c"
