/* included AFTER the real sources.  The real src/core/list.c is part of this TU (contexts, pipes and
 * waiting aios sit on real intrusive lists); the two aio-wait-list stubs of env_proto.h that share names
 * with it are renamed away.  The completion stubs of env_proto.h are renamed too: modules/repx/env.h wraps
 * them with a per-aio completion counter.  nni_msgq_tryput of modules/xrespond/env.h is renamed away:
 * modules/surveyx/env.h answers every call of a broadcast separately. */
#include "include/env_alloc.h"
#include "include/env_sync.h"
#define nni_list_first vp_unused_aioq_first
#define nni_list_empty vp_unused_aioq_empty
#define nni_aio_close vp_base_aio_close
#define nni_aio_finish vp_base_aio_finish
#define nni_aio_finish_sync vp_base_aio_finish_sync
#define nni_aio_finish_error vp_base_aio_finish_error
#define nni_aio_finish_msg vp_base_aio_finish_msg
#define VP_PROTO_STUBS 1
#include "include/env_proto.h"
#undef nni_list_first
#undef nni_list_empty
#undef nni_aio_close
#undef nni_aio_finish
#undef nni_aio_finish_sync
#undef nni_aio_finish_error
#undef nni_aio_finish_msg
#define nni_msgq_tryput vp_unused_tryput
#define VP_SV_STUBS 1
#include "modules/xrespond/env.h"
#undef nni_msgq_tryput
#define VP_REPX_STUBS 1
#include "modules/repx/env.h"
#define VP_SX_STUBS 1
#include "modules/surveyx/env.h"
