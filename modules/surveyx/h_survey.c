/* ===================== survey.c ===================== */
#ifndef SV_PL
#define SV_PL 0
#endif
#ifndef SV_OWN
#define SV_OWN 0
#endif
#ifndef SV_RQ
#define SV_RQ 0
#endif
#ifndef SV_CQ
#define SV_CQ 0
#endif
#define VP_MK_SV_SOCK() VP_NEW(surv0_sock, s); g_sock = s; s->ctx.sock = s; vp_list_init(&s->pipes, offsetof(surv0_pipe, node))
#define VP_MK_SV_PIPE() VP_MK_SV_SOCK(); VP_NEW(surv0_pipe, p); p->sock = s; vp_mk_lmq(&p->send_queue); vp_node_idle(&p->node)
#if SV_OWN == 1
#define VP_MK_SV_CTX() VP_MK_SV_SOCK(); surv0_ctx *ctx = &s->ctx; vp_list_init(&ctx->recv_queue, offsetof(nni_aio, a_prov_node))
#else
#define VP_MK_SV_CTX() VP_MK_SV_SOCK(); VP_NEW(surv0_ctx, ctx); ctx->sock = s; vp_list_init(&ctx->recv_queue, offsetof(nni_aio, a_prov_node))
#endif
static void vp_sv_pipes(surv0_sock *s, surv0_pipe *p)
{
#if SV_PL >= 2
	VP_NEW(surv0_pipe, p1); p1->sock = s; g_p1 = p1;
#endif
#if SV_PL == 5
	VP_NEW(surv0_pipe, p2); p2->sock = s; g_p2 = p2;
#endif
#if SV_PL == 1
	vp_list_add(&s->pipes, &p->node);
#elif SV_PL == 2
	vp_list_add(&s->pipes, &p->node); vp_list_add(&s->pipes, &p1->node);
#elif SV_PL == 3
	vp_list_add(&s->pipes, &p1->node); vp_list_add(&s->pipes, &p->node);
#elif SV_PL == 4
	vp_list_add(&s->pipes, &p1->node);
#elif SV_PL == 5
	vp_list_add(&s->pipes, &p1->node); vp_list_add(&s->pipes, &p2->node);
#endif
	(void) s; (void) p;
}
static void vp_sv_recvq(surv0_ctx *ctx)
{
#if SV_RQ >= 1
	VP_NEW(nni_aio, a1); g_a1 = a1; vp_list_add(&ctx->recv_queue, &a1->a_prov_node);
#endif
#if SV_RQ == 2
	VP_NEW(nni_aio, a2); g_a2 = a2; vp_list_add(&ctx->recv_queue, &a2->a_prov_node);
#endif
	(void) ctx;
}
void h_surv0_pipe_send_cb(void) { VP_HAVOC_GHOSTS(); VP_MK_SV_PIPE(); surv0_pipe_send_cb(p); VP_CANARY(); }
void h_surv0_pipe_close(void) { VP_HAVOC_GHOSTS(); VP_MK_SV_PIPE(); vp_sv_pipes(s, p); surv0_pipe_close(p); VP_CANARY(); }
#if SV_PL == 0 || SV_PL >= 4
void h_surv0_pipe_start(void) { VP_HAVOC_GHOSTS(); VP_MK_SV_PIPE(); vp_sv_pipes(s, p); (void) surv0_pipe_start(p); VP_CANARY(); }
#endif
void h_surv0_ctx_abort(void) { int err; VP_HAVOC_GHOSTS(); VP_MK_SV_CTX(); vp_sv_recvq(ctx); surv0_ctx_abort(ctx, err); VP_CANARY(); }
void h_surv0_ctx_close(void) { VP_HAVOC_GHOSTS(); VP_MK_SV_CTX(); vp_sv_recvq(ctx); surv0_ctx_close(ctx); VP_CANARY(); }
void h_surv0_ctx_fini(void) { VP_HAVOC_GHOSTS(); VP_MK_SV_CTX(); vp_sv_recvq(ctx); vp_mk_lmq(&ctx->recv_lmq); surv0_ctx_fini(ctx); VP_CANARY(); }
#if SV_OWN == 1
void h_surv0_sock_close(void) { VP_HAVOC_GHOSTS(); VP_MK_SV_CTX(); vp_sv_recvq(ctx); surv0_sock_close(s); VP_CANARY(); }
#endif
void h_surv0_ctx_cancel(void)
{
	nng_err rv;
	VP_HAVOC_GHOSTS(); VP_MK_SV_CTX();
	VP_NEW(nni_aio, a1); g_a1 = a1; vp_node_idle(&a1->a_prov_node);
#if SV_CQ >= 2
	VP_NEW(nni_aio, a2); g_a2 = a2;
#endif
#if SV_CQ == 1
	vp_list_add(&ctx->recv_queue, &a1->a_prov_node);
#elif SV_CQ == 2
	vp_list_add(&ctx->recv_queue, &a1->a_prov_node); vp_list_add(&ctx->recv_queue, &a2->a_prov_node);
#elif SV_CQ == 3
	vp_list_add(&ctx->recv_queue, &a2->a_prov_node); vp_list_add(&ctx->recv_queue, &a1->a_prov_node);
#elif SV_CQ == 4
	vp_list_add(&ctx->recv_queue, &a2->a_prov_node);
#endif
	surv0_ctx_cancel(a1, ctx, rv);
	VP_CANARY();
}
void h_surv0_ctx_recv(void) { nni_aio *aio; VP_HAVOC_GHOSTS(); VP_MK_SV_CTX(); vp_sv_recvq(ctx); vp_mk_lmq(&ctx->recv_lmq); surv0_ctx_recv(ctx, aio); VP_CANARY(); }
#if SV_OWN == 1
void h_surv0_sock_recv(void) { nni_aio *aio; VP_HAVOC_GHOSTS(); VP_MK_SV_CTX(); vp_sv_recvq(ctx); vp_mk_lmq(&ctx->recv_lmq); surv0_sock_recv(s, aio); VP_CANARY(); }
#endif
void h_surv0_pipe_recv_cb(void)
{
	VP_HAVOC_GHOSTS(); VP_MK_SV_CTX(); vp_sv_recvq(ctx); vp_mk_lmq(&ctx->recv_lmq);
	VP_NEW(surv0_pipe, p); p->sock = s; g_sv.idm_val = ctx;
	surv0_pipe_recv_cb(p);
	VP_CANARY();
}
