/* ===================================================================== */
/* ===== src/sp/protocol/survey0/xsurvey.c (raw SURVEYOR) ===== */
/* ===================================================================== */
#define XP ((xsurv0_pipe *) arg)
#define XS_ (XP->psock)
#define XPIPE_FRESH (__CPROVER_is_fresh(arg, sizeof(struct xsurv0_pipe)) && VP_NO_LOCK_HELD)
#define X_QUIET_PIPE (g_pipe_send_calls == OLD(g_pipe_send_calls) && g_pipe_recv_calls == OLD(g_pipe_recv_calls) && g_pipe_close_calls == OLD(g_pipe_close_calls))
#define X_QUIET_MQ (g_sv.mq_get_calls == OLD(g_sv.mq_get_calls) && g_sv.mq_put_calls == OLD(g_sv.mq_put_calls))

/* ---- xsurv0_getq_cb (C03): a survey taken from the pipe's send queue goes on the wire of THIS pipe exactly
 * once, as it is (ownership moves from aio_getq to aio_send); a failed get (queue closed) disconnects ---- */
#define XG_M (XP->aio_getq.a_msg)
static void xsurv0_getq_cb(void *arg)
__CPROVER_requires(XPIPE_FRESH)
__CPROVER_assigns(XP->aio_getq.a_msg, XP->aio_send.a_msg, VP_PROTO_GHOST_LIST)
__CPROVER_ensures(VP_NO_LOCK_HELD && g_pipe_recv_calls == OLD(g_pipe_recv_calls) && g_fin_calls == OLD(g_fin_calls))
__CPROVER_ensures(XP->aio_getq.a_result != 0 ==> (g_pipe_close_calls == OLD(g_pipe_close_calls) + 1 && g_pipe_close_last == XP->npipe && g_pipe_send_calls == OLD(g_pipe_send_calls)
    && XP->aio_getq.a_msg == OLD(XG_M) && XP->aio_send.a_msg == OLD(XP->aio_send.a_msg)))
__CPROVER_ensures(XP->aio_getq.a_result == 0 ==> (g_pipe_close_calls == OLD(g_pipe_close_calls) && g_pipe_send_calls == OLD(g_pipe_send_calls) + 1 && g_pipe_send_pipe == XP->npipe
    && g_pipe_send_aio == &XP->aio_send && g_pipe_send_msg == OLD(XG_M) && XP->aio_send.a_msg == OLD(XG_M) && XP->aio_getq.a_msg == NULL))
;

/* ---- xsurv0_send_cb (C03): transmission finished: the next survey is asked for from the pipe's queue, once;
 * transmission failed: the unsent survey (possibly shared with other pipes) loses exactly this pipe's
 * reference and the peer is disconnected ---- */
#define XSD_M (XP->aio_send.a_msg)
#ifdef XV_FAILED
static void xsurv0_send_cb(void *arg)
__CPROVER_requires(XPIPE_FRESH && XP->aio_send.a_result != 0)
__CPROVER_requires(XSD_M == NULL || MSG_HELD(XSD_M))
__CPROVER_assigns(XP->aio_send.a_msg, VP_PROTO_GHOST_LIST, g_free_calls)
__CPROVER_assigns(XSD_M != NULL: *XSD_M)
__CPROVER_frees(XSD_M != NULL: XSD_M, XSD_M->m_body.ch_buf)
__CPROVER_ensures(VP_NO_LOCK_HELD && XP->aio_send.a_msg == NULL && X_QUIET_MQ)
__CPROVER_ensures(g_pipe_close_calls == OLD(g_pipe_close_calls) + 1 && g_pipe_close_last == XP->npipe && g_pipe_send_calls == OLD(g_pipe_send_calls) && g_pipe_recv_calls == OLD(g_pipe_recv_calls))
__CPROVER_ensures(OLD(XSD_M) != NULL ==> MSG_DROPPED_ONE(OLD(XSD_M), OLD(XSD_M->m_refcnt.v)))
__CPROVER_ensures(OLD(XSD_M) == NULL ==> g_free_calls == OLD(g_free_calls))
;
#else
static void xsurv0_send_cb(void *arg)
__CPROVER_requires(XPIPE_FRESH && XP->aio_send.a_result == 0)
__CPROVER_assigns(VP_PROTO_GHOST_LIST, VP_SV_GHOST_LIST)
__CPROVER_ensures(VP_NO_LOCK_HELD && X_QUIET_PIPE && g_sv.mq_put_calls == OLD(g_sv.mq_put_calls))
__CPROVER_ensures(g_sv.mq_get_calls == OLD(g_sv.mq_get_calls) + 1 && g_sv.mq_get_q == XP->sendq && g_sv.mq_get_aio == &XP->aio_getq)
;
#endif

/* ---- xsurv0_putq_cb (C03): the response was taken by the socket's receive queue: the next receive is armed,
 * once; the put failed (queue closed): the response is released exactly once and the peer disconnected ---- */
#define XPQ_M (XP->aio_putq.a_msg)
#ifdef XV_FAILED
static void xsurv0_putq_cb(void *arg)
__CPROVER_requires(XPIPE_FRESH && XP->aio_putq.a_result != 0)
__CPROVER_requires(XPQ_M == NULL || MSG_HELD(XPQ_M))
__CPROVER_assigns(XP->aio_putq.a_msg, VP_PROTO_GHOST_LIST, g_free_calls)
__CPROVER_assigns(XPQ_M != NULL: *XPQ_M)
__CPROVER_frees(XPQ_M != NULL: XPQ_M, XPQ_M->m_body.ch_buf)
__CPROVER_ensures(VP_NO_LOCK_HELD && XP->aio_putq.a_msg == NULL && X_QUIET_MQ)
__CPROVER_ensures(g_pipe_close_calls == OLD(g_pipe_close_calls) + 1 && g_pipe_close_last == XP->npipe && g_pipe_send_calls == OLD(g_pipe_send_calls) && g_pipe_recv_calls == OLD(g_pipe_recv_calls))
__CPROVER_ensures(OLD(XPQ_M) != NULL ==> MSG_DROPPED_ONE(OLD(XPQ_M), OLD(XPQ_M->m_refcnt.v)))
__CPROVER_ensures(OLD(XPQ_M) == NULL ==> g_free_calls == OLD(g_free_calls))
;
#else
static void xsurv0_putq_cb(void *arg)
__CPROVER_requires(XPIPE_FRESH && XP->aio_putq.a_result == 0)
__CPROVER_assigns(VP_PROTO_GHOST_LIST)
__CPROVER_ensures(VP_NO_LOCK_HELD && g_pipe_send_calls == OLD(g_pipe_send_calls) && g_pipe_close_calls == OLD(g_pipe_close_calls))
__CPROVER_ensures(g_pipe_recv_calls == OLD(g_pipe_recv_calls) + 1 && g_pipe_recv_pipe == XP->npipe && g_pipe_recv_aio == &XP->aio_recv)
;
#endif

/* ---- xsurv0_sock_getq_cb (C03, raw survey broadcast): a survey taken from the socket's send queue is offered
 * to the send queue of EVERY connected pipe, exactly once each and in list order, as the same (shared)
 * message; every queue that takes it holds one reference, a queue that refuses (full / closed) holds none;
 * the socket's own reference is dropped, so the message is released exactly when no queue took it and lives
 * on with exactly one reference per accepting queue otherwise; the next survey is asked for exactly once.
 * -DXV_NP=0..3: number of connected pipes (constant case split). ---- */
#ifndef XV_NP
#define XV_NP 0
#endif
#define XQ_S ((xsurv0_sock *) arg)
#define XQ_M (XQ_S->aio_getq.a_msg)
#define XQP1 ((xsurv0_pipe *) g_p1)
#define XQP2 ((xsurv0_pipe *) g_p2)
#define XQP3 ((xsurv0_pipe *) g_p3)
#define XQ_OFF offsetof(xsurv0_pipe, node)
#define XQ_SOCK_PRE (OBJ_OK(arg, struct xsurv0_sock) && XQ_S->pipes.ll_offset == XQ_OFF)
#define XQ_PIPE_OK(p) (OBJ_OK((p), struct xsurv0_pipe) && DISTINCT((p), arg))
#if XV_NP == 0
#define XQ_PIPES_PRE (LIST_IS_EMPTY(&XQ_S->pipes))
#elif XV_NP == 1
#define XQ_PIPES_PRE (XQ_PIPE_OK(g_p1) && LIST_IS_ONE(&XQ_S->pipes, &XQP1->node))
#elif XV_NP == 2
#define XQ_PIPES_PRE (XQ_PIPE_OK(g_p1) && XQ_PIPE_OK(g_p2) && DISTINCT(g_p1, g_p2) && LIST_IS_TWO(&XQ_S->pipes, &XQP1->node, &XQP2->node))
#else
#define XQ_PIPES_PRE (XQ_PIPE_OK(g_p1) && XQ_PIPE_OK(g_p2) && XQ_PIPE_OK(g_p3) && DISTINCT(g_p1, g_p2) && DISTINCT(g_p1, g_p3) && DISTINCT(g_p2, g_p3) && LIST_IS_THREE(&XQ_S->pipes, &XQP1->node, &XQP2->node, &XQP3->node))
#endif
#define XQ_ACC ((size_t) ((XV_NP >= 1 && TP_OK(0)) ? 1 : 0) + (size_t) ((XV_NP >= 2 && TP_OK(1)) ? 1 : 0) + (size_t) ((XV_NP >= 3 && TP_OK(2)) ? 1 : 0))
#ifdef XV_FAILED
static void xsurv0_sock_getq_cb(void *arg)
__CPROVER_requires(XQ_SOCK_PRE && VP_NO_LOCK_HELD && XQ_S->aio_getq.a_result != 0 && XQ_PIPES_PRE)
__CPROVER_assigns()
__CPROVER_ensures(VP_NO_LOCK_HELD)
;
#else
static void xsurv0_sock_getq_cb(void *arg)
__CPROVER_requires(XQ_SOCK_PRE && VP_NO_LOCK_HELD && XQ_S->aio_getq.a_result == 0 && XQ_PIPES_PRE)
__CPROVER_requires(MSG_HELD(XQ_M) && g_sx.tp_calls == 0 && g_sx.tp_accepted == 0)
__CPROVER_assigns(XQ_S->aio_getq.a_msg, VP_PROTO_GHOST_LIST, VP_SV_GHOST_LIST, VP_SX_GHOST_LIST, VP_SYNC_GHOSTS, g_free_calls)
__CPROVER_assigns(*XQ_M)
__CPROVER_frees(XQ_M, XQ_M->m_body.ch_buf)
__CPROVER_ensures(VP_NO_LOCK_HELD && XQ_S->aio_getq.a_msg == NULL && X_QUIET_PIPE && g_fin_calls == OLD(g_fin_calls))
/* one offer per pipe, in list order, each to that pipe's own queue, each the same message */
__CPROVER_ensures(g_sx.tp_calls == XV_NP && g_sx.tp_accepted == XQ_ACC)
#if XV_NP >= 1
__CPROVER_ensures(g_sx.tp_q[0] == XQP1->sendq && g_sx.tp_msg[0] == OLD(XQ_M))
#endif
#if XV_NP >= 2
__CPROVER_ensures(g_sx.tp_q[1] == XQP2->sendq && g_sx.tp_msg[1] == OLD(XQ_M))
#endif
#if XV_NP >= 3
__CPROVER_ensures(g_sx.tp_q[2] == XQP3->sendq && g_sx.tp_msg[2] == OLD(XQ_M))
#endif
/* the pipe list itself is only read */
__CPROVER_ensures(XQ_PIPES_PRE)
/* ownership: one reference per accepting queue; the socket's own one is gone */
__CPROVER_ensures((XQ_ACC == 0 && OLD(XQ_M->m_refcnt.v) == 1) ==> (__CPROVER_was_freed(OLD(XQ_M)) && g_free_calls == OLD(g_free_calls) + 2))
__CPROVER_ensures(!(XQ_ACC == 0 && OLD(XQ_M->m_refcnt.v) == 1) ==> (!__CPROVER_was_freed(OLD(XQ_M)) && g_free_calls == OLD(g_free_calls) && OLD(XQ_M)->m_refcnt.v == OLD(XQ_M->m_refcnt.v) - 1 + (int) XQ_ACC))
/* the survey itself is not modified: header and body lengths */
__CPROVER_ensures(!(XQ_ACC == 0 && OLD(XQ_M->m_refcnt.v) == 1) ==> (OLD(XQ_M)->m_header_len == OLD(XQ_M->m_header_len) && OLD(XQ_M)->m_body.ch_len == OLD(XQ_M->m_body.ch_len)))
/* the next survey is asked for exactly once, from the socket's send queue */
__CPROVER_ensures(g_sv.mq_get_calls == OLD(g_sv.mq_get_calls) + 1 && g_sv.mq_get_q == XQ_S->uwq && g_sv.mq_get_aio == &XQ_S->aio_getq && g_sv.mq_put_calls == OLD(g_sv.mq_put_calls))
;
#endif
