/* included BEFORE the real sources of the surveyx TU (survey.c, respond.c, xsurvey.c: the functions the
 * modules survey / respond / xsurvey do not cover) */
#define VP_PROTO_GHOSTS 1
#include "include/env_proto.h"
#include "modules/message/spec.h"
#include "modules/repx/mem64.h"
#include "modules/lmq/spec.h"
#include "modules/xrespond/env.h"
#include "modules/xrespond/spec.h"
#include "modules/surveyx/spec.h"
/* ghosts naming the members of the (bounded, harness-built) intrusive lists, see spec.h */
void *g_sock;             /* the socket */
void *g_c1, *g_c2;        /* first / second context on a context queue (respond) */
void *g_p1, *g_p2, *g_p3; /* other pipes on a pipe list */
void *g_a1, *g_a2;        /* harness-built aio objects (waiting operations) */
bool  g_c1_master;        /* the first context is the socket's own context */
#define VP_REPX_GHOSTS 1
#include "modules/repx/env.h"
#define VP_SX_GHOSTS 1
#include "modules/surveyx/env.h"
