/* Contracts of module surveyx: the functions of survey.c / respond.c / xsurvey.c that the modules
 * survey / respond / xsurvey leave out (C07, C15, C03). */
#ifndef VP_SURVEYX_CONTRACTS_H
#define VP_SURVEYX_CONTRACTS_H
/* clang-format off */
#define RV __CPROVER_return_value
#define OLD(e) __CPROVER_old(e)
#define A1 ((nni_aio *) g_a1)
#define A2 ((nni_aio *) g_a2)
#define XPOLL_PRE(s) (g_pollr_addr == &(s)->readable && g_pollw_addr == &(s)->writable)
/* a message some holder owns one reference of (surveys are shared between pipes: refcount >= 1) */
#define MSG_HELD(m) (__CPROVER_is_fresh((m), sizeof(struct nng_msg)) && (m)->m_header_len <= MSG_HDRCAP && (m)->m_refcnt.v >= 1 && (m)->m_refcnt.v < (1 << 30) && CH_FULL_PRE(&(m)->m_body))
/* "one reference of m is dropped": the last one releases structure + body buffer (2 blocks), otherwise only the count moves */
#define MSG_DROPPED_ONE(m0, r0) (((r0) == 1) ? (__CPROVER_was_freed(m0) && g_free_calls == OLD(g_free_calls) + 2) : (g_free_calls == OLD(g_free_calls) && (m0)->m_refcnt.v == (r0) - 1))

#include "modules/surveyx/c_xsurvey.h"
#include "modules/surveyx/c_survey.h"
#include "modules/surveyx/c_respond.h"
/* clang-format on */
#endif
