#ifndef RS_C1M
#define RS_C1M 0
#endif
#ifndef XQ_SQ
#define XQ_SQ 0
#endif
#ifndef XQ_RP
#define XQ_RP 0
#endif
#ifndef XQ_CS
#define XQ_CS 0
#endif
#ifndef XQ_CR
#define XQ_CR 0
#endif
/* socket + the context under contract (the socket's own one or a separate object) */
#if RS_C1M == 1
#define VP_MK_CTX() VP_NEW(resp0_sock, s); s->ctx.sock = s; g_sock = s; resp0_ctx *ctx = &s->ctx
#else
#define VP_MK_CTX() VP_NEW(resp0_sock, s); g_sock = s; VP_NEW(resp0_ctx, ctx); ctx->sock = s
#endif
/* ===================== respond.c ===================== */
#define VP_MK_PIPE()                                                                   \
	VP_NEW(resp0_pipe, p); VP_NEW(resp0_sock, s); p->psock = s; s->ctx.sock = s; g_sock = s; \
	__CPROVER_assume(p->id != 0); vp_list_init(&p->sendq, offsetof(resp0_ctx, sqnode))
/* XQ_SQ contexts wait on the pipe's send queue, each with its waiting send aio (a real object) */
static void vp_mk_sendq(resp0_pipe *p, resp0_sock *s)
{
#if XQ_SQ >= 1
#if defined(RS_C1M) && RS_C1M == 1
	resp0_ctx *c1 = &s->ctx; g_c1_master = true;
#else
	VP_NEW(resp0_ctx, c1); c1->sock = s; g_c1_master = false;
#endif
	VP_NEW(nni_aio, a1); g_a1 = a1; g_c1 = c1; c1->saio = a1; c1->spipe = p; vp_list_add(&p->sendq, &c1->sqnode);
#endif
#if XQ_SQ == 2
	VP_NEW(resp0_ctx, c2); c2->sock = s; VP_NEW(nni_aio, a2); g_a2 = a2; g_c2 = c2; c2->saio = a2; c2->spipe = p; vp_list_add(&p->sendq, &c2->sqnode);
#endif
	(void) p; (void) s;
}
void h_resp0_pipe_send_cb(void)
{
	VP_HAVOC_GHOSTS();
	VP_MK_PIPE();
	vp_mk_sendq(p, s);
	resp0_pipe_send_cb(p);
	VP_CANARY();
}
void h_resp0_pipe_close(void)
{
	VP_HAVOC_GHOSTS();
	VP_MK_PIPE();
	vp_mk_sendq(p, s);
	vp_list_init(&s->recvpipes, offsetof(resp0_pipe, rnode));
	p->rnode.ln_next = NULL; p->rnode.ln_prev = NULL;
#if XQ_RP >= 2
	VP_NEW(resp0_pipe, p1); p1->psock = s; g_p1 = p1;
#endif
#if XQ_RP == 1
	vp_list_add(&s->recvpipes, &p->rnode);
#elif XQ_RP == 2
	vp_list_add(&s->recvpipes, &p->rnode); vp_list_add(&s->recvpipes, &p1->rnode);
#elif XQ_RP == 3
	vp_list_add(&s->recvpipes, &p1->rnode); vp_list_add(&s->recvpipes, &p->rnode);
#elif XQ_RP == 4
	vp_list_add(&s->recvpipes, &p1->rnode);
#endif
	resp0_pipe_close(p);
	VP_CANARY();
}
/* the context under contract with its pending send (XQ_CS) and pending receive (XQ_CR) */
static void vp_mk_ctx_queues(resp0_sock *s, resp0_ctx *ctx)
{
	vp_list_init(&s->recvq, offsetof(resp0_ctx, rqnode));
	ctx->sqnode.ln_next = NULL; ctx->sqnode.ln_prev = NULL;
	ctx->rqnode.ln_next = NULL; ctx->rqnode.ln_prev = NULL;
#if XQ_CS == 0
	ctx->saio = NULL;
#else
	VP_NEW(resp0_pipe, tp); tp->psock = s; g_p1 = tp; vp_list_init(&tp->sendq, offsetof(resp0_ctx, sqnode));
	VP_NEW(nni_aio, a1); g_a1 = a1; ctx->saio = a1; ctx->spipe = tp;
#if XQ_CS >= 2
	VP_NEW(resp0_ctx, c1); c1->sock = s; g_c1 = c1;
#endif
#if XQ_CS == 1
	vp_list_add(&tp->sendq, &ctx->sqnode);
#elif XQ_CS == 2
	vp_list_add(&tp->sendq, &ctx->sqnode); vp_list_add(&tp->sendq, &c1->sqnode);
#else
	vp_list_add(&tp->sendq, &c1->sqnode); vp_list_add(&tp->sendq, &ctx->sqnode);
#endif
#endif
#if XQ_CR == 0
	ctx->raio = NULL;
#else
	VP_NEW(nni_aio, a2); g_a2 = a2; ctx->raio = a2;
#if XQ_CR >= 2
	VP_NEW(resp0_ctx, c2); c2->sock = s; g_c2 = c2;
#endif
#if XQ_CR == 1
	vp_list_add(&s->recvq, &ctx->rqnode);
#elif XQ_CR == 2
	vp_list_add(&s->recvq, &ctx->rqnode); vp_list_add(&s->recvq, &c2->rqnode);
#else
	vp_list_add(&s->recvq, &c2->rqnode); vp_list_add(&s->recvq, &ctx->rqnode);
#endif
#endif
}
void h_resp0_ctx_cancel_send(void)
{
	nng_err rv;
	VP_HAVOC_GHOSTS();
	VP_MK_CTX();
#ifdef XQ_CANCEL_OTHER
	VP_NEW(nni_aio, other);
	resp0_ctx_cancel_send(other, ctx, rv);
#else
	vp_mk_ctx_queues(s, ctx);
	resp0_ctx_cancel_send((nni_aio *) g_a1, ctx, rv);
#endif
	VP_CANARY();
}
void h_resp0_cancel_recv(void)
{
	nng_err rv;
	VP_HAVOC_GHOSTS();
	VP_MK_CTX();
#ifdef XQ_CANCEL_OTHER
	VP_NEW(nni_aio, other);
	resp0_cancel_recv(other, ctx, rv);
#else
	vp_mk_ctx_queues(s, ctx);
	resp0_cancel_recv((nni_aio *) g_a2, ctx, rv);
#endif
	VP_CANARY();
}
void h_resp0_ctx_close(void) { VP_HAVOC_GHOSTS(); VP_MK_CTX(); vp_mk_ctx_queues(s, ctx); resp0_ctx_close(ctx); VP_CANARY(); }
void h_resp0_ctx_fini(void) { VP_HAVOC_GHOSTS(); VP_MK_CTX(); vp_mk_ctx_queues(s, ctx); resp0_ctx_fini(ctx); VP_CANARY(); }
#ifdef XQ_SOCK_CLOSE
void h_resp0_sock_close(void) { VP_HAVOC_GHOSTS(); VP_MK_CTX(); vp_mk_ctx_queues(s, ctx); resp0_sock_close(s); VP_CANARY(); }
#endif
void h_resp0_pipe_fini(void) { VP_HAVOC_GHOSTS(); VP_NEW(resp0_pipe, p); resp0_pipe_fini(p); VP_CANARY(); }
#ifndef RS_HAS
#define RS_HAS 0
#endif
#ifndef RS_SQ
#define RS_SQ 0
#endif
#ifndef RS_RP
#define RS_RP 1
#endif
void h_resp0_ctx_send(void)
{
	nni_aio *aio;
	VP_HAVOC_GHOSTS();
	VP_MK_CTX();
	vp_node_idle(&ctx->sqnode);
#if RS_HAS == 1
	VP_NEW(resp0_pipe, tp); tp->psock = s; g_sv.idm_val = tp; g_sv.idm_present = true;
	vp_list_init(&tp->sendq, offsetof(resp0_ctx, sqnode));
#if RS_SQ == 1
	VP_NEW(resp0_ctx, c2); c2->sock = s; g_c2 = c2; vp_list_add(&tp->sendq, &c2->sqnode);
#endif
#endif
	resp0_ctx_send(ctx, aio);
	VP_CANARY();
}
void h_resp0_ctx_recv(void)
{
	nni_aio *aio;
	VP_HAVOC_GHOSTS();
	VP_MK_CTX();
	vp_list_init(&s->recvq, offsetof(resp0_ctx, rqnode));
	vp_list_init(&s->recvpipes, offsetof(resp0_pipe, rnode));
	vp_node_idle(&ctx->rqnode);
	VP_NEW(resp0_pipe, p1); p1->psock = s; g_p1 = p1; vp_list_add(&s->recvpipes, &p1->rnode);
#if RS_RP == 2
	VP_NEW(resp0_pipe, p2); p2->psock = s; g_p2 = p2; vp_list_add(&s->recvpipes, &p2->rnode);
#endif
	resp0_ctx_recv(ctx, aio);
	VP_CANARY();
}
#ifdef RS_REJECT
void h_resp0_ctx_send_reject(void) { nni_aio *aio; VP_HAVOC_GHOSTS(); VP_MK_CTX(); vp_mk_ctx_queues(s, ctx); resp0_ctx_send(ctx, aio); VP_CANARY(); }
#endif
