/* Spec macros for src/sp/transport/udp/udp.c (no code).
 *
 * Oracle: the SP-over-UDP mapping implemented by nng (experimental transport,
 * docs/ref/tran/udp.md): every datagram starts with an 8 byte header
 *     ver(1)=1  opcode(1)  type(2, LE)  param0(2, LE)  param1(2, LE)
 * opcode 0 DATA (param0 = payload length), 1 CREQ, 2 CACK (param0 = recvmax,
 * param1 = refresh s), 3 DISC (param0 = reason).  Everything else is dropped.
 * Property statements C11, C01, C03/C20 (see contracts.h).
 */
#ifndef VP_UDPFRAME_SPEC_H
#define VP_UDPFRAME_SPEC_H

#define UF_HDRSZ ((size_t) 8)
#define UF_TXQ NNG_UDP_TXQUEUE_LEN /* 32 unless a unit says otherwise (then grade B) */
#define UF_RXQ 16 /* NNG_UDP_RXQUEUE_LEN: constant of the code */
/* refresh interval of a pipe in ms: the timeout is refresh * 5 in int32 arithmetic */
#define UF_REFRESH_MAX ((nng_duration) (INT32_MAX / 5))

/* ---- transmit ring: representation invariant ----------------------------- */
#define UF_TXR_SCALAR(ep)                                                     \
	((ep)->tx_ring.size == UF_TXQ && (ep)->tx_ring.head < UF_TXQ &&           \
	    (ep)->tx_ring.tail < UF_TXQ && (ep)->tx_ring.count <= UF_TXQ &&       \
	    (((ep)->tx_ring.tail + (ep)->tx_ring.count) % UF_TXQ) == (ep)->tx_ring.head)
#define UF_TXR_PRE(ep)                                                        \
	(__CPROVER_is_fresh((ep)->tx_ring.descs, UF_TXQ * sizeof(udp_txdesc)) &&  \
	    UF_TXR_SCALAR(ep))
#define UF_TXR_SAME_GEOM(ep)                                                  \
	((ep)->tx_ring.size == UF_TXQ)
/* descriptor k positions behind the tail (k-th oldest queued datagram) */
#define UF_TXD(ep, k) ((ep)->tx_ring.descs[((ep)->tx_ring.tail + (k)) % UF_TXQ])
/* the slot the next queued datagram goes to */
#define UF_TXHEAD(ep) ((ep)->tx_ring.descs[(ep)->tx_ring.head])

/* ---- receive buffer ------------------------------------------------------- */
/* ep->rx_payload is a message whose body is the payload area; while a receive
 * is armed ep->rx_msg points UF_HDRSZ bytes in front of the body, inside the
 * same buffer (udp_start_rx), so header + payload arrive in one piece. */
#define UF_RXM(ep) (&(ep)->rx_payload->m_body)
#define UF_RXBUF_PRE(ep) (MSG_PRE((ep)->rx_payload))
#define UF_RXHDR_PRE(ep)                                                      \
	(CH_OFF(UF_RXM(ep)) >= UF_HDRSZ &&                                        \
	    __CPROVER_pointer_in_range_dfcc(UF_RXM(ep)->ch_buf,                   \
	        (uint8_t *) (ep)->rx_msg, UF_RXM(ep)->ch_buf + UF_RXM(ep)->ch_cap) && \
	    (size_t) __CPROVER_POINTER_OFFSET((ep)->rx_msg) + UF_HDRSZ == CH_OFF(UF_RXM(ep)))
#define UF_RXHDR_POST(ep)                                                     \
	(CH_OFF(UF_RXM(ep)) >= UF_HDRSZ &&                                        \
	    __CPROVER_same_object((ep)->rx_msg, UF_RXM(ep)->ch_ptr) &&            \
	    (size_t) __CPROVER_POINTER_OFFSET((ep)->rx_msg) + UF_HDRSZ == CH_OFF(UF_RXM(ep)))

/* ---- a pipe ---------------------------------------------------------------- */
#define UF_PIPE_SCALAR(p)                                                     \
	((p)->refresh > 0 && (p)->refresh <= UF_REFRESH_MAX)
/* receive ring of a pipe: the real nni_lmq, capacity 16 in a 16-slot array (or the
 * documented fallback: capacity 2 in the inline buffer, when its allocation failed at
 * pipe creation); udp_pipe_init is its only initialiser and it is never resized */
#define UF_RXMQ_PRE(p)                                                        \
	(((p)->rx_mq.lmq_alloc == 0 || (p)->rx_mq.lmq_alloc == UF_RXQ) &&         \
	    LMQ_INNER_PRE(&(p)->rx_mq) && (p)->rx_mq.lmq_cap >= 1 &&              \
	    (p)->rx_mq.lmq_cap <= UF_RXQ)
#define UF_RXMQ_OK(p)                                                         \
	(LMQ_WF_SCALAR(&(p)->rx_mq) && (p)->rx_mq.lmq_cap >= 1 &&                 \
	    (p)->rx_mq.lmq_cap <= UF_RXQ)

/* aio wait queue well-formedness (count / first two members) */
#define UF_Q_OK(q) ((((q).n == 0) == ((q).head == NULL)) && (((q).n >= 2) == ((q).next != NULL)) && ((q).n < 2 || (q).next != (q).head))

#endif
