/* included BEFORE the real sources of the udpframe TU (message.c, lmq.c, udp.c):
 * spec macros of the message and lmq modules, the udpframe spec macros and the
 * ghost state of the ASSUMED environment (no nng code). */
#ifndef VP_UDPFRAME_PRE_H
#define VP_UDPFRAME_PRE_H
#include "core/nng_impl.h"
#include "modules/message/spec.h"
#include "modules/lmq/spec.h"
#include "modules/udpframe/spec.h"

/* ---- wait queues of user aios: count + the first two members ------------- */
typedef struct {
	size_t   n;
	nni_aio *head;
	nni_aio *next; /* the one behind the head (n >= 2) */
} vp_aioq;
vp_aioq   g_rxq;   /* p->rx_aios of the pipe under test            */
vp_aioq   g_connq; /* ep->connaios (accept / connect waiting)       */
nni_list *g_rxq_addr, *g_connq_addr;

/* ---- ep->connpipes: count + membership/position of the pipe under test --- */
typedef struct {
	size_t n;
	bool   has_p;
	bool   p_first;
} vp_pipeq;
vp_pipeq  g_cpq;
nni_list *g_cpq_addr;
void     *g_the_pipe;    /* the transport pipe under test */
bool      g_node_active; /* its list node is linked (== g_cpq.has_p) */

/* ---- the peer map ep->pipes, abstract view ------------------------------- */
/* g_peer: THE pipe of the map whose peer address equals the address of the
 * datagram being processed (NULL: unknown peer).  udp_find_pipe's contract
 * returns it; the slot model below (map units) defines it. */
void *g_peer;
/* slot model of nni_id_map used by the map-level units: at most UF_MAPK
 * entries with arbitrary 64-bit keys (a finite map; key order irrelevant) */
#define UF_MAPK 2
struct vp_slot {
	uint64_t key;
	void    *val;     /* NULL: free slot */
	bool     addr_eq; /* val's peer address equals the datagram address */
} g_map[UF_MAPK];
nni_id_map *g_map_addr;
bool        g_idset_ok;    /* answer of the next nni_id_set that needs memory */
size_t      g_idset_calls, g_idrm_calls;
uint64_t    g_rx_hash;     /* nng_sockaddr_hash of the datagram address */

/* ---- completions ---------------------------------------------------------- */
size_t   g_fin_calls;
nni_aio *g_fin_last;
int      g_fin_last_rv;
size_t   g_fin_last_count;
/* deferred completions (ep->complq, run after the lock is dropped) */
size_t   g_cq_n;          /* entries on the list */
nni_aio *g_cq_last;
int      g_cq_last_rv;
size_t   g_cq_last_count;
nni_msg *g_cq_last_msg;   /* message attached to that aio when it was added */
size_t   g_cq_run_calls, g_cq_run_n;
bool     g_cq_run_locked; /* completions were run while a lock was held */
size_t   g_start_calls;
bool     g_aio_start_ok;
bool     g_aio_active;

/* ---- udp layer ------------------------------------------------------------- */
size_t   g_udp_recv_calls, g_udp_send_calls;
nni_aio *g_udp_last_aio;
nng_udp *g_udp_last;

/* ---- pipe layer, timers, clock -------------------------------------------- */
size_t    g_pipe_close_calls, g_pipe_rele_calls, g_bump_err_calls;
nni_pipe *g_pipe_close_last;
size_t    g_abort_calls, g_sleep_calls;
nni_aio  *g_sleep_last;
nni_time  g_now;
size_t    g_palloc_calls; /* nni_pipe_alloc_listener calls */
void     *g_palloc_last;  /* transport pipe it produced (NULL: failed) */
#endif
