/* Environment of udp.c (ASSUMED models; ghost state in pre.h).  The message
 * layer (message.c) and the per-pipe receive ring (lmq.c) are the REAL code.
 *
 *  - udp layer: nng_udp_recv/send only record the request; the completion
 *    (result, byte count, the bytes of the datagram) is the symbolic pre-state
 *    of the callback;
 *  - user aio wait queues: ghost count + the first two members;
 *  - ep->connpipes: ghost count + membership/position of the pipe under test;
 *  - ep->pipes (nni_id_map, under contract in module idhash): a finite map of
 *    at most UF_MAPK (2) entries with arbitrary 64-bit keys;
 *  - completions (immediate and deferred), pipe close/release, timers: recorded.
 */
#ifndef VP_UDPFRAME_ENV_H
#define VP_UDPFRAME_ENV_H

/* ---- misc ------------------------------------------------------------------ */
int  nni_atomic_get(nni_atomic_int *v) { return (v->v); }
void nni_atomic_set(nni_atomic_int *v, int i) { v->v = i; }
void nni_atomic_init(nni_atomic_int *v) { v->v = 0; }
void nni_atomic_inc(nni_atomic_int *v) { v->v++; }
int  nni_atomic_dec_nv(nni_atomic_int *v) { v->v--; return (v->v); }
void nni_stat_inc(nni_stat_item *s, uint64_t n) { (void) s; (void) n; }
void nng_log_warn(const char *id, const char *fmt, ...) { (void) id; (void) fmt; }
void nng_log_info(const char *id, const char *fmt, ...) { (void) id; (void) fmt; }
void nng_log_debug(const char *id, const char *fmt, ...) { (void) id; (void) fmt; }
const char *nng_str_sockaddr(const nng_sockaddr *sa, char *buf, size_t bufsz) { (void) sa; (void) bufsz; return (buf); }
nni_time nni_clock(void) { return (g_now); }
void
nni_panic(const char *fmt, ...)
{
	(void) fmt;
	__CPROVER_assert(0, "nni_panic reached (library aborts the process)");
	__CPROVER_assume(0);
}
/* public wrappers of src/nng.c (one-line forwards there as well) */
int    nng_msg_alloc(nng_msg **mp, size_t sz) { return (nni_msg_alloc(mp, sz)); }
size_t nng_msg_len(const nng_msg *m) { return (nni_msg_len(m)); }
int    nng_msg_chop(nng_msg *m, size_t sz) { return (nni_msg_chop(m, sz)); }

/* ---- aio accessors on the real structure ------------------------------------ */
nng_err  nni_aio_result(nni_aio *aio) { return (aio->a_result); }
size_t   nni_aio_count(nni_aio *aio) { return (aio->a_count); }
size_t   nng_aio_count(nng_aio *aio) { return (aio->a_count); }
nni_msg *nni_aio_get_msg(nni_aio *aio) { return (aio->a_msg); }
void     nni_aio_set_msg(nni_aio *aio, nni_msg *m) { aio->a_msg = m; }
void     nni_aio_reset(nni_aio *aio) { aio->a_result = NNG_OK; aio->a_count = 0; }
void     nni_aio_set_input(nni_aio *aio, unsigned i, void *v) { __CPROVER_assert(i < 4, "aio input index"); aio->a_inputs[i] = v; }
void     nni_aio_set_output(nni_aio *aio, unsigned i, void *v) { __CPROVER_assert(i < 4, "aio output index"); aio->a_outputs[i] = v; }
void     nni_aio_set_timeout(nni_aio *aio, nni_duration t) { aio->a_timeout = t; }
nng_err
nni_aio_set_iov(nni_aio *aio, unsigned nio, const nni_iov *iov)
{
	if (nio > NNI_NUM_ELEMENTS((aio->a_iov))) {
		return (NNG_EINVAL);
	}
	/* the copy loop of aio.c, written out for the 8 slots (NNI_AIO_MAX_IOV) */
	if (iov != &aio->a_iov[0]) {
		if (nio > 0) aio->a_iov[0] = iov[0];
		if (nio > 1) aio->a_iov[1] = iov[1];
		if (nio > 2) aio->a_iov[2] = iov[2];
		if (nio > 3) aio->a_iov[3] = iov[3];
		if (nio > 4) aio->a_iov[4] = iov[4];
		if (nio > 5) aio->a_iov[5] = iov[5];
		if (nio > 6) aio->a_iov[6] = iov[6];
		if (nio > 7) aio->a_iov[7] = iov[7];
	}
	aio->a_nio = nio;
	return (NNG_OK);
}
bool
nni_aio_start(nni_aio *aio, nni_aio_cancel_fn fn, void *arg)
{
	(void) aio; (void) fn; (void) arg;
	g_start_calls++;
	return (g_aio_start_ok);
}
void nni_aio_abort(nni_aio *aio, nng_err rv) { (void) aio; (void) rv; g_abort_calls++; }
void nni_sleep_aio(nni_duration d, nni_aio *aio) { (void) d; g_sleep_calls++; g_sleep_last = aio; }

/* ---- completions ------------------------------------------------------------ */
static void
vp_fin(nni_aio *aio, nng_err rv, size_t count)
{
	__CPROVER_assert(aio != NULL, "completion of a NULL aio");
	g_fin_calls++;
	g_fin_last       = aio;
	g_fin_last_rv    = (int) rv;
	g_fin_last_count = count;
}
void nni_aio_finish(nni_aio *aio, nng_err rv, size_t count) { vp_fin(aio, rv, count); }
void nni_aio_finish_error(nni_aio *aio, nng_err rv) { vp_fin(aio, rv, 0); }
void nni_aio_finish_msg(nni_aio *aio, nni_msg *m) { __CPROVER_assert(m != NULL, "finish_msg: message is not NULL"); aio->a_msg = m; vp_fin(aio, NNG_OK, nni_msg_len(m)); }
void nni_aio_completions_init(nni_aio_completions *clp) { *clp = NULL; }
void
nni_aio_completions_add(nni_aio_completions *clp, nni_aio *aio, nng_err rv, size_t count)
{
	__CPROVER_assert(aio != NULL, "deferred completion of a NULL aio");
	*clp = aio;
	g_cq_n++;
	g_cq_last       = aio;
	g_cq_last_rv    = (int) rv;
	g_cq_last_count = count;
	g_cq_last_msg   = aio->a_msg;
}
void
nni_aio_completions_run(nni_aio_completions *clp)
{
	/* the list run is the one the deferred completions were added to */
	__CPROVER_assert(g_cq_n == 0 ? *clp == NULL : *clp == (void *) g_cq_last, "completions_run: the accumulated list");
	g_cq_run_calls++;
	g_cq_run_n += g_cq_n;
	g_cq_n = 0;
	if (g_held_a || g_held_b) {
		g_cq_run_locked = true;
	}
}

/* ---- lists -------------------------------------------------------------------- */
static void
vp_aioq_pop(vp_aioq *q)
{
	q->n--;
	q->head = q->next;
	if (q->n >= 2) {
		nni_aio *x = nondet_ptr();
		__CPROVER_assume(x != NULL && x != q->head);
		q->next = x;
	} else {
		q->next = NULL;
	}
}
udp_pipe *g_other_pipe; /* the pipe in front of ours on connpipes, once looked at */
void *
nni_list_first(const nni_list *l)
{
	if (l == g_rxq_addr) {
		return (g_rxq.n ? g_rxq.head : NULL);
	}
	if (l == g_connq_addr) {
		return (g_connq.n ? g_connq.head : NULL);
	}
	__CPROVER_assert(l == g_cpq_addr, "list_first: a list of this model");
	if (g_cpq.n == 0) {
		return (NULL);
	}
	if (g_cpq.has_p && g_cpq.p_first) {
		return (g_the_pipe);
	}
	if (g_other_pipe == NULL) {
		g_other_pipe = malloc(sizeof(udp_pipe));
		__CPROVER_assume(g_other_pipe != NULL);
	}
	return (g_other_pipe);
}
void
nni_aio_list_remove(nni_aio *aio)
{
	__CPROVER_assert(aio != NULL, "aio_list_remove: aio is not NULL");
	if (g_rxq.n > 0 && aio == g_rxq.head) {
		vp_aioq_pop(&g_rxq);
	} else {
		__CPROVER_assert(g_connq.n > 0 && aio == g_connq.head, "aio_list_remove: aio is the head of a wait queue");
		vp_aioq_pop(&g_connq);
	}
}
static void
vp_aioq_push(vp_aioq *q, nni_aio *aio)
{
	__CPROVER_assert(aio != NULL && !(g_rxq.n > 0 && (aio == g_rxq.head || aio == g_rxq.next)) && !(g_connq.n > 0 && (aio == g_connq.head || aio == g_connq.next)), "append: aio is not already on a wait queue");
	if (q->n == 0) {
		q->head = aio;
	} else if (q->n == 1) {
		q->next = aio;
	}
	q->n++;
}
void
nni_list_append(nni_list *l, void *item)
{
	if (l == g_rxq_addr) {
		vp_aioq_push(&g_rxq, item);
		return;
	}
	__CPROVER_assert(l == g_cpq_addr && item == g_the_pipe, "list_append: the pipe under test onto connpipes");
	__CPROVER_assert(!g_cpq.has_p && !g_node_active, "list_append: the pipe is not already linked");
	g_cpq.has_p   = true;
	g_cpq.p_first = (g_cpq.n == 0);
	g_cpq.n++;
	g_node_active = true;
}
void
nni_aio_list_append(nni_list *l, nni_aio *aio)
{
	__CPROVER_assert(l == g_connq_addr || l == g_rxq_addr, "aio_list_append: a wait queue of this model");
	vp_aioq_push(l == g_connq_addr ? &g_connq : &g_rxq, aio);
}
void
nni_list_remove(nni_list *l, void *item)
{
	__CPROVER_assert(l == g_cpq_addr, "list_remove: connpipes");
	if (item == g_the_pipe) {
		__CPROVER_assert(g_cpq.has_p && g_cpq.n > 0, "list remove: the pipe is on that list");
		g_cpq.has_p   = false;
		g_cpq.p_first = false;
		g_cpq.n--;
		g_node_active = false;
	} else {
		__CPROVER_assert(g_cpq.n > (g_cpq.has_p ? 1 : 0) && item == g_other_pipe && !g_cpq.p_first, "list remove: the other pipe is the first of that list");
		g_cpq.n--;
		g_other_pipe  = NULL;
		g_cpq.p_first = g_cpq.has_p && (g_cpq.n == 1 || nondet_bool());
	}
}
void
nni_list_node_remove(nni_list_node *node)
{
	__CPROVER_assert(node == &((udp_pipe *) g_the_pipe)->node, "list_node_remove: node of the pipe under test");
	if (g_node_active) {
		__CPROVER_assert(g_cpq.has_p && g_cpq.n > 0, "list_node_remove: linked pipe is on connpipes");
		g_cpq.has_p   = false;
		g_cpq.p_first = false;
		g_cpq.n--;
		g_node_active = false;
	}
}
int
nni_list_node_active(nni_list_node *node)
{
	__CPROVER_assert(node == &((udp_pipe *) g_the_pipe)->node, "list_node_active: node of the pipe under test");
	return (g_node_active);
}
int
nni_aio_list_active(nni_aio *aio)
{
	if ((g_rxq.n > 0 && (aio == g_rxq.head || aio == g_rxq.next)) || (g_connq.n > 0 && (aio == g_connq.head || aio == g_connq.next))) {
		return (1);
	}
	return (g_aio_active);
}
void nni_aio_list_init(nni_list *l) { (void) l; }
void nni_list_init_offset(nni_list *l, size_t off) { (void) l; (void) off; }

/* ---- udp layer ------------------------------------------------------------------ */
void nng_udp_recv(nng_udp *u, nng_aio *aio) { g_udp_recv_calls++; g_udp_last = u; g_udp_last_aio = aio; }
void nng_udp_send(nng_udp *u, nng_aio *aio) { g_udp_send_calls++; g_udp_last = u; g_udp_last_aio = aio; }

/* ---- pipe layer ------------------------------------------------------------------ */
void nni_pipe_close(nni_pipe *p) { g_pipe_close_calls++; g_pipe_close_last = p; }
void nni_pipe_rele(nni_pipe *p) { (void) p; g_pipe_rele_calls++; }
void nni_pipe_bump_error(nni_pipe *p, int rv) { (void) p; (void) rv; g_bump_err_calls++; }
int
nni_pipe_alloc_listener(void **datap, nni_listener *l)
{
	/* core/pipe.c pipe_create: zeroed block, transport p_init run on it, two
	 * references (one for the caller); fails cleanly with NNG_ENOMEM */
	(void) l;
	g_palloc_calls++;
	udp_pipe *p = calloc(1, sizeof(*p));
	if (p == NULL) {
		g_palloc_last = NULL;
		return (NNG_ENOMEM);
	}
	nni_pipe *np = nondet_ptr();
	__CPROVER_assume(np != NULL);
	(void) udp_pipe_init(p, np);
	*datap        = p;
	g_palloc_last = p;
	g_the_pipe    = p;
	g_node_active = false;
	g_rxq_addr    = &p->rx_aios;
	g_rxq.n       = 0;
	g_rxq.head    = NULL;
	g_rxq.next    = NULL;
	return (0);
}

/* ---- peer map (finite map, at most UF_MAPK (2) entries) ------------------------------ */
uint64_t nng_sockaddr_hash(const nng_sockaddr *sa) { (void) sa; return (g_rx_hash); }
#define VP_SLOT_IS(i, a) (g_map[i].val != NULL && (a) == &((udp_pipe *) g_map[i].val)->peer_addr)
bool
nng_sockaddr_equal(const nng_sockaddr *a, const nng_sockaddr *b)
{
	(void) b;
	if (VP_SLOT_IS(0, a)) return (g_map[0].addr_eq);
	if (VP_SLOT_IS(1, a)) return (g_map[1].addr_eq);
	__CPROVER_assert(0, "sockaddr_equal: first argument is the peer address of a pipe in the map");
	return (false);
}
#define VP_SLOT_KEY(i, id) (g_map[i].val != NULL && g_map[i].key == (id))
void *
nni_id_get(nni_id_map *m, uint64_t id)
{
	__CPROVER_assert(m == g_map_addr, "id_get: the peer map");
	if (VP_SLOT_KEY(0, id)) return (g_map[0].val);
	if (VP_SLOT_KEY(1, id)) return (g_map[1].val);
	return (NULL);
}
int
nni_id_set(nni_id_map *m, uint64_t id, void *val)
{
	__CPROVER_assert(m == g_map_addr && val != NULL, "id_set: the peer map, non-NULL value");
	g_idset_calls++;
	if (VP_SLOT_KEY(0, id)) { g_map[0].val = val; return (0); }
	if (VP_SLOT_KEY(1, id)) { g_map[1].val = val; return (0); }
	if (!g_idset_ok) {
		return (NNG_ENOMEM); /* table growth failed: nothing changed (idhash contract) */
	}
	int i = (g_map[0].val == NULL) ? 0 : (g_map[1].val == NULL) ? 1 : -1;
	__CPROVER_assert(i >= 0, "id_set: model limit UF_MAPK entries (precondition keeps one slot free)");
	if (i < 0) {
		return (NNG_ENOMEM);
	}
	g_map[i].key     = id;
	g_map[i].val     = val;
	g_map[i].addr_eq = true; /* stored under the datagram address */
	return (0);
}
int
nni_id_remove(nni_id_map *m, uint64_t id)
{
	__CPROVER_assert(m == g_map_addr, "id_remove: the peer map");
	g_idrm_calls++;
	if (VP_SLOT_KEY(0, id)) { g_map[0].val = NULL; return (0); }
	if (VP_SLOT_KEY(1, id)) { g_map[1].val = NULL; return (0); }
	return (NNG_ENOENT);
}
#endif
