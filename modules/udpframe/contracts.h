/* Contracts for src/sp/transport/udp/udp.c.
 * Top-level postconditions are taken from C11 / C01 / C03 / C20 (see the text
 * in front of each group), not from the code.  "Nothing else changes" is
 * carried by the assigns clauses. */
#ifndef VP_UDPFRAME_CONTRACTS_H
#define VP_UDPFRAME_CONTRACTS_H
/* clang-format off */
#define UF_HEAP_GHOSTS g_free_calls, g_alloc_ok
#define UF_FIN_GHOSTS g_fin_calls, g_fin_last, g_fin_last_rv, g_fin_last_count
#define UF_CQ_GHOSTS g_cq_n, g_cq_last, g_cq_last_rv, g_cq_last_count, g_cq_last_msg
#define UF_SEND_GHOSTS g_udp_send_calls, g_udp_last, g_udp_last_aio
#define UF_RECV_GHOSTS g_udp_recv_calls, g_udp_last, g_udp_last_aio
#define UF_IOV_OF(a) (a).a_nio, __CPROVER_object_upto(&(a).a_iov[0], sizeof((a).a_iov))
/* same datagram destination (family, port, IPv4 / IPv6 address byte g_i, scope); padding of the union is not compared */
#define UF_SA_SAME(d, s_, gi) ((d).s_family == (s_)->s_family && (d).s_in6.sa_port == (s_)->s_in6.sa_port && (d).s_in.sa_addr == (s_)->s_in.sa_addr && (d).s_in6.sa_scope == (s_)->s_in6.sa_scope && ((gi) >= 16 || (d).s_in6.sa_addr[(gi) & 15] == (s_)->s_in6.sa_addr[(gi) & 15]))
#define UF_MSG_OR_NULL(m) ((m) == NULL || MSG_PRE(m))
#define UF_EP_PRE(ep) (__CPROVER_is_fresh((ep), sizeof(udp_ep)) && UF_TXR_PRE(ep))

/* =========================================================== transmit ring
 * C01 (send side): the datagram handed to the UDP layer is the 8 byte header
 * exactly as queued, then the message header, then the message body, with
 * exact lengths.  C03: a payload is released exactly once -- when its
 * transmission completes, or at once when the ring is full / the endpoint
 * not started (then nothing else changes: a full ring drops the whole
 * datagram, it never overwrites a queued one). */
#define TX_SEND(ep) ((ep)->tx_ring.count != 0 && (ep)->started && !(ep)->tx_busy && !(ep)->stopped)
#define O_TX_SEND (OLD(ep->tx_ring.count) != 0 && ep->started && !OLD(ep->tx_busy) && !ep->stopped)
#define TX_TAIL(ep) ((ep)->tx_ring.descs[(ep)->tx_ring.tail])
#define TX_SENT(ep) (g_udp_send_calls == OLD(g_udp_send_calls) + 1 && g_udp_last == (ep)->udp && g_udp_last_aio == &(ep)->tx_aio)
#define TX_NOT_SENT (g_udp_send_calls == OLD(g_udp_send_calls))

static void udp_start_tx(udp_ep *ep)
__CPROVER_requires(UF_EP_PRE(ep))
__CPROVER_requires(!TX_SEND(ep) || UF_MSG_OR_NULL(TX_TAIL(ep).payload))
__CPROVER_assigns(TX_SEND(ep): ep->tx_busy, UF_IOV_OF(ep->tx_aio), ep->tx_aio.a_inputs[0], ep->tx_aio.a_timeout, UF_SEND_GHOSTS)
/* idle ring, not started, stopped or a transmission in flight: nothing happens (conditional assigns) */
__CPROVER_ensures(!O_TX_SEND ==> TX_NOT_SENT)
/* otherwise exactly the OLDEST queued datagram is submitted; the ring is not advanced until it completes */
__CPROVER_ensures(O_TX_SEND ==> (ep->tx_busy && TX_SENT(ep) && ep->tx_aio.a_inputs[0] == (void *) &TX_TAIL(ep).sa))
__CPROVER_ensures(O_TX_SEND ==> (ep->tx_aio.a_iov[0].iov_buf == (void *) &TX_TAIL(ep).header && ep->tx_aio.a_iov[0].iov_len == UF_HDRSZ))
__CPROVER_ensures((O_TX_SEND && TX_TAIL(ep).payload == NULL) ==> ep->tx_aio.a_nio == 1)
#define TXM (TX_TAIL(ep).payload)
__CPROVER_ensures((O_TX_SEND && TXM != NULL) ==> ep->tx_aio.a_nio == 1u + (TXM->m_header_len > 0 ? 1u : 0u) + (TXM->m_body.ch_len > 0 ? 1u : 0u))
__CPROVER_ensures((O_TX_SEND && TXM != NULL && TXM->m_header_len > 0) ==> (ep->tx_aio.a_iov[1].iov_buf == (void *) TXM->m_header_buf && ep->tx_aio.a_iov[1].iov_len == TXM->m_header_len))
__CPROVER_ensures((O_TX_SEND && TXM != NULL && TXM->m_body.ch_len > 0) ==> (ep->tx_aio.a_iov[ep->tx_aio.a_nio - 1].iov_buf == (void *) TXM->m_body.ch_ptr && ep->tx_aio.a_iov[ep->tx_aio.a_nio - 1].iov_len == TXM->m_body.ch_len))
;

#define QT_DROP(ep) ((ep)->tx_ring.count == UF_TXQ || !(ep)->started)
#define O_QT_DROP (OLD(ep->tx_ring.count) == UF_TXQ || !ep->started)
#define QT_OHEAD OLD(ep->tx_ring.head)
#define QT_D (ep->tx_ring.descs[QT_OHEAD])
static void udp_queue_tx(udp_ep *ep, const nng_sockaddr *sa, udp_sp_msg *msg, nni_msg *payload)
__CPROVER_requires(UF_EP_PRE(ep))
__CPROVER_requires(__CPROVER_r_ok(sa, sizeof(nng_sockaddr)) && __CPROVER_r_ok(msg, sizeof(udp_sp_msg)))
__CPROVER_requires(UF_MSG_OR_NULL(payload))
/* a queued payload that may be submitted now is a live message */
__CPROVER_requires((ep->tx_ring.count == 0 || ep->tx_ring.count == UF_TXQ) || UF_MSG_OR_NULL(TX_TAIL(ep).payload))
/* ghost ties: reference count of the payload; descriptor g_j of the pre-state */
__CPROVER_requires(payload != NULL ==> g_u32 == (uint32_t) payload->m_refcnt.v)
/* frame: of the ring only the descriptor at the head may be written -- a queued one is never overwritten */
__CPROVER_assigns(ep->tx_ring.head, ep->tx_ring.count, ep->tx_busy, ep->tx_ring.descs[ep->tx_ring.head], UF_IOV_OF(ep->tx_aio), ep->tx_aio.a_inputs[0], ep->tx_aio.a_timeout, UF_SEND_GHOSTS)
__CPROVER_assigns(payload != NULL: payload->m_refcnt, payload->m_body, UF_HEAP_GHOSTS)
__CPROVER_frees(payload != NULL: payload, payload->m_body.ch_buf)
__CPROVER_ensures(UF_TXR_SCALAR(ep) && ep->tx_ring.tail == OLD(ep->tx_ring.tail))
/* full ring or endpoint not started: the WHOLE datagram is dropped -- ring untouched, payload released exactly once, nothing sent */
__CPROVER_ensures(O_QT_DROP ==> (ep->tx_ring.count == OLD(ep->tx_ring.count) && ep->tx_ring.head == QT_OHEAD && TX_NOT_SENT && ep->tx_busy == OLD(ep->tx_busy)))
__CPROVER_ensures(O_QT_DROP ==> (payload == NULL || g_free_calls == OLD(g_free_calls) + (g_u32 == 1 ? 2 : 0)))
/* otherwise: appended at the head, header fields / destination / payload exactly as given, nothing released */
__CPROVER_ensures(!O_QT_DROP ==> (ep->tx_ring.count == OLD(ep->tx_ring.count) + 1 && ep->tx_ring.head == (QT_OHEAD + 1) % UF_TXQ && (payload == NULL || g_free_calls == OLD(g_free_calls))))
__CPROVER_ensures(!O_QT_DROP ==> (QT_D.header.us_ver == msg->us_ver && QT_D.header.us_op_code == msg->us_op_code && QT_D.header.us_type == msg->us_type && QT_D.header.us_params[0] == msg->us_params[0] && QT_D.header.us_params[1] == msg->us_params[1]))
__CPROVER_ensures(!O_QT_DROP ==> (QT_D.payload == payload && QT_D.submitted))
__CPROVER_ensures(!O_QT_DROP ==> UF_SA_SAME(QT_D.sa, sa, g_k))
/* ... and the transmitter is kicked exactly when it was idle */
__CPROVER_ensures(!O_QT_DROP ==> ((!OLD(ep->tx_busy) && !ep->stopped) ? (TX_SENT(ep) && ep->tx_busy && ep->tx_aio.a_inputs[0] == (void *) &TX_TAIL(ep).sa) : (TX_NOT_SENT && ep->tx_busy == OLD(ep->tx_busy))))
;

#define FT_OTAIL OLD(ep->tx_ring.tail)
static void udp_finish_tx(udp_ep *ep)
__CPROVER_requires(UF_EP_PRE(ep))
/* a transmit completion exists only for a submitted head-of-line datagram (NNI_ASSERT in the code) */
__CPROVER_requires(ep->tx_ring.count > 0 && ep->tx_busy)
__CPROVER_requires(UF_MSG_OR_NULL(TX_TAIL(ep).payload))
__CPROVER_requires(ep->tx_ring.count < 2 || UF_MSG_OR_NULL(UF_TXD(ep, 1).payload))
__CPROVER_requires(TX_TAIL(ep).payload != NULL ==> g_u32 == (uint32_t) TX_TAIL(ep).payload->m_refcnt.v)
__CPROVER_assigns(ep->tx_ring.tail, ep->tx_ring.count, ep->tx_busy, TX_TAIL(ep).payload, TX_TAIL(ep).submitted, UF_IOV_OF(ep->tx_aio), ep->tx_aio.a_inputs[0], ep->tx_aio.a_timeout, UF_SEND_GHOSTS, UF_HEAP_GHOSTS)
__CPROVER_assigns(TX_TAIL(ep).payload != NULL: TX_TAIL(ep).payload->m_refcnt, TX_TAIL(ep).payload->m_body)
__CPROVER_frees(TX_TAIL(ep).payload != NULL: TX_TAIL(ep).payload, TX_TAIL(ep).payload->m_body.ch_buf)
__CPROVER_ensures(UF_TXR_SCALAR(ep) && ep->tx_ring.head == OLD(ep->tx_ring.head))
/* the completed datagram leaves the ring; its payload is released exactly once and detached */
__CPROVER_ensures(ep->tx_ring.count == OLD(ep->tx_ring.count) - 1 && ep->tx_ring.tail == (FT_OTAIL + 1) % UF_TXQ)
__CPROVER_ensures(ep->tx_ring.descs[FT_OTAIL].payload == NULL && !ep->tx_ring.descs[FT_OTAIL].submitted)
__CPROVER_requires(g_p == (void *) TX_TAIL(ep).payload)
__CPROVER_ensures(g_free_calls == OLD(g_free_calls) + ((g_p != NULL && g_u32 == 1) ? 2 : 0))
/* the next queued datagram (if any) is submitted */
__CPROVER_ensures((ep->tx_ring.count > 0 && ep->started && !ep->stopped) ? (TX_SENT(ep) && ep->tx_busy && ep->tx_aio.a_inputs[0] == (void *) &TX_TAIL(ep).sa) : (TX_NOT_SENT && !ep->tx_busy))
;

/* =========================================================== disconnect
 * C11: "only the offending connection is dropped": a DISC for exactly that
 * peer address is queued (or dropped whole when the ring is full), that pipe
 * is marked closed once, each of ITS waiting receivers gets NNG_ECLOSED once,
 * the pipe is handed to nni_pipe_close once.  Nothing else changes. */
#define UF_TXQ_PRE(ep) (UF_EP_PRE(ep) && ((ep)->tx_ring.count == 0 || (ep)->tx_ring.count == UF_TXQ || UF_MSG_OR_NULL(TX_TAIL(ep).payload)))
#define UF_TXQ_FRAME(ep) (ep)->tx_ring.head, (ep)->tx_ring.count, (ep)->tx_busy, __CPROVER_object_whole((ep)->tx_ring.descs), UF_IOV_OF((ep)->tx_aio), (ep)->tx_aio.a_inputs[0], (ep)->tx_aio.a_timeout, UF_SEND_GHOSTS
#define UF_QUEUED_HDR(ep, op, ty, p0, p1) (QT_D.header.us_ver == 1 && QT_D.header.us_op_code == (op) && QT_D.header.us_type == (ty) && QT_D.header.us_params[0] == (p0) && QT_D.header.us_params[1] == (p1) && QT_D.payload == NULL && QT_D.submitted)
#define UF_TX_QUEUED_ONE(ep) (ep->tx_ring.count == OLD(ep->tx_ring.count) + 1 && ep->tx_ring.head == (QT_OHEAD + 1) % UF_TXQ)
#define UF_TX_UNCHANGED(ep) (ep->tx_ring.count == OLD(ep->tx_ring.count) && ep->tx_ring.head == QT_OHEAD && TX_NOT_SENT && ep->tx_busy == OLD(ep->tx_busy))

static void udp_send_disc_full(udp_ep *ep, const nng_sockaddr *sa, udp_disc_reason reason)
__CPROVER_requires(UF_TXQ_PRE(ep) && __CPROVER_r_ok(sa, sizeof(nng_sockaddr)))
__CPROVER_assigns(UF_TXQ_FRAME(ep))
__CPROVER_ensures(UF_TXR_SCALAR(ep) && ep->tx_ring.tail == OLD(ep->tx_ring.tail))
__CPROVER_ensures(O_QT_DROP ==> UF_TX_UNCHANGED(ep))
__CPROVER_ensures(!O_QT_DROP ==> (UF_TX_QUEUED_ONE(ep) && UF_QUEUED_HDR(ep, OPCODE_DISC, ep->proto, (uint16_t) reason, 0)))
__CPROVER_ensures(!O_QT_DROP ==> UF_SA_SAME(QT_D.sa, sa, g_k))
;

#define UF_PIPE_LISTS(p) (g_rxq_addr == &(p)->rx_aios && UF_Q_OK(g_rxq))
static void udp_send_disc(udp_ep *ep, udp_pipe *p, udp_disc_reason reason)
__CPROVER_requires(UF_TXQ_PRE(ep) && __CPROVER_is_fresh(p, sizeof(udp_pipe)) && UF_PIPE_LISTS(p))
__CPROVER_assigns(!p->closed: p->closed, g_rxq, UF_FIN_GHOSTS, g_pipe_close_calls, g_pipe_close_last, UF_TXQ_FRAME(ep))
__CPROVER_ensures(UF_TXR_SCALAR(ep) && ep->tx_ring.tail == OLD(ep->tx_ring.tail))
/* already closed: nothing at all (conditional assigns) -- a peer is told once */
__CPROVER_ensures(OLD(p->closed) ==> (UF_TX_UNCHANGED(ep) && g_pipe_close_calls == OLD(g_pipe_close_calls)))
__CPROVER_ensures(!OLD(p->closed) ==> (p->closed && g_rxq.n == 0 && g_fin_calls == OLD(g_fin_calls) + OLD(g_rxq.n) && (OLD(g_rxq.n) > 0 ==> g_fin_last_rv == NNG_ECLOSED)))
__CPROVER_ensures(!OLD(p->closed) ==> (g_pipe_close_calls == OLD(g_pipe_close_calls) + 1 && g_pipe_close_last == p->npipe))
__CPROVER_ensures((!OLD(p->closed) && O_QT_DROP) ==> UF_TX_UNCHANGED(ep))
__CPROVER_ensures((!OLD(p->closed) && !O_QT_DROP) ==> (UF_TX_QUEUED_ONE(ep) && UF_QUEUED_HDR(ep, OPCODE_DISC, ep->proto, (uint16_t) reason, 0)))
__CPROVER_ensures((!OLD(p->closed) && !O_QT_DROP) ==> UF_SA_SAME(QT_D.sa, &p->peer_addr, g_k))
;

#define MS(i) (g_map[i])
#define MP(i) ((udp_pipe *) g_map[i].val)
#define M_LIVE(i) (MS(i).val != NULL)
#define M_OCC(x) ((M_LIVE(0) && MS(0).key == (x)) || (M_LIVE(1) && MS(1).key == (x)))
#define UF_IDMAX (UINT64_MAX - 8) /* model bound: no wrap of the probe sequence */
#define M_REACH(i) (!M_LIVE(i) || (MP(i)->id != 0 && MP(i)->id <= UF_IDMAX && MS(i).key >= MP(i)->id && MS(i).key - MP(i)->id < UF_MAPK && \
	(MS(i).key - MP(i)->id < 1 || M_OCC(MP(i)->id))))
#define M_REACH_ALL (M_REACH(0) && M_REACH(1))
#define M_DISTINCT (!(M_LIVE(0) && M_LIVE(1) && (MS(0).key == MS(1).key || MS(0).val == MS(1).val)))
#define M_SHAPE_PRE (((!M_LIVE(0)) || __CPROVER_is_fresh(MS(0).val, sizeof(udp_pipe))) && ((!M_LIVE(1)) || __CPROVER_is_fresh(MS(1).val, sizeof(udp_pipe))))
/* g_peer is the one stored pipe whose address equals the datagram's; such a pipe was stored under the datagram's hash */
#define M_PEER1(i) (!(M_LIVE(i) && MS(i).addr_eq) || (MS(i).val == g_peer && MP(i)->id == g_rx_hash))
#define M_PEER_DEF (M_PEER1(0) && M_PEER1(1) && (g_peer == NULL || (M_LIVE(0) && MS(0).addr_eq) || (M_LIVE(1) && MS(1).addr_eq)))
#define UF_MAP_PRE(ep) (g_map_addr == &(ep)->pipes && M_SHAPE_PRE && M_DISTINCT && M_REACH_ALL)
#define M_HOLDS(p) ((M_LIVE(0) && MS(0).val == (void *) (p)) || (M_LIVE(1) && MS(1).val == (void *) (p)))
#define M_COUNT ((M_LIVE(0) ? 1u : 0u) + (M_LIVE(1) ? 1u : 0u))



/* =========================================================== peer lookup
 * g_peer is THE pipe of the peer map whose address equals the datagram's
 * (NULL: unknown peer).  The lookup never invents a pipe. */
static udp_pipe *udp_find_pipe(udp_ep *ep, const nng_sockaddr *peer_addr)
__CPROVER_requires(__CPROVER_is_fresh(ep, sizeof(udp_ep)))
#ifdef UF_MAP_UNITS
/* enforced against the finite-map model under its invariants */
__CPROVER_requires(UF_MAP_PRE(ep) && M_PEER_DEF && g_rx_hash <= UF_IDMAX)
#endif
__CPROVER_assigns()
/* found exactly when the peer is known (needs the probe-chain invariant of the map, see the map units) */
__CPROVER_ensures((g_peer == NULL) == (__CPROVER_return_value == NULL))
__CPROVER_ensures(__CPROVER_return_value == NULL || __CPROVER_pointer_in_range_dfcc((udp_pipe *) g_peer, __CPROVER_return_value, (udp_pipe *) g_peer))
;

/* =========================================================== receive buffer
 * C11: the endpoint re-arms its receive on every path; the armed vector lies
 * inside the receive buffer (header slot directly in front of the payload
 * area) and the payload capacity is not reduced. */
static void udp_start_rx(udp_ep *ep)
__CPROVER_requires(__CPROVER_is_fresh(ep, sizeof(udp_ep)) && UF_RXBUF_PRE(ep))
__CPROVER_assigns(!ep->closed: ep->rx_payload->m_body, __CPROVER_object_whole(ep->rx_payload->m_body.ch_buf), ep->rx_msg, UF_IOV_OF(ep->rx_aio), ep->rx_aio.a_inputs[0], UF_RECV_GHOSTS, UF_HEAP_GHOSTS)
__CPROVER_frees(ep->rx_payload->m_body.ch_buf)
__CPROVER_ensures(ep->closed ==> g_udp_recv_calls == OLD(g_udp_recv_calls))
__CPROVER_ensures(!ep->closed ==> (g_udp_recv_calls == OLD(g_udp_recv_calls) + 1 && g_udp_last == ep->udp && g_udp_last_aio == &ep->rx_aio && ep->rx_aio.a_inputs[0] == (void *) &ep->rx_sa))
/* one vector: [header slot | payload area], inside the buffer */
__CPROVER_ensures(!ep->closed ==> (ep->rx_aio.a_nio == 1 && ep->rx_aio.a_iov[0].iov_buf == (void *) ep->rx_msg && CH_FULL_SCALAR(UF_RXM(ep))))
__CPROVER_ensures(!ep->closed ==> (__CPROVER_same_object(ep->rx_msg, UF_RXM(ep)->ch_buf) && (size_t) __CPROVER_POINTER_OFFSET(ep->rx_msg) + ep->rx_aio.a_iov[0].iov_len <= UF_RXM(ep)->ch_cap))
/* the payload area keeps its size and sits 8 bytes behind the header slot -- unless making room for the header slot
 * needed memory and did not get it (no headroom, no slack: only after a zero-copy hand-off with a power-of-two rcvmax);
 * then the vector is the payload area itself (8 bytes less payload; reported as a finding, memory safe) */
#define SRX_ROOM (OLD(CH_OFF(&ep->rx_payload->m_body)) >= UF_HDRSZ || OLD(ep->rx_payload->m_body.ch_len) + 16 <= OLD(ep->rx_payload->m_body.ch_cap) || g_alloc_ok != OLD(g_alloc_ok))
__CPROVER_ensures((!ep->closed && SRX_ROOM) ==> (UF_RXM(ep)->ch_len == OLD(ep->rx_payload->m_body.ch_len) && ep->rx_aio.a_iov[0].iov_len == UF_HDRSZ + UF_RXM(ep)->ch_len))
__CPROVER_ensures((!ep->closed && SRX_ROOM && UF_RXM(ep)->ch_len > 0) ==> (size_t) __CPROVER_POINTER_OFFSET(ep->rx_msg) + UF_HDRSZ == CH_OFF(UF_RXM(ep)))
__CPROVER_ensures(!ep->closed ==> ep->rx_aio.a_iov[0].iov_len == UF_RXM(ep)->ch_len + ((UF_RXM(ep)->ch_len == 0) ? (size_t) 0 : (CH_OFF(UF_RXM(ep)) - (size_t) __CPROVER_POINTER_OFFSET(ep->rx_msg))) || UF_RXM(ep)->ch_len == 0)
;

/* =========================================================== DATA datagram
 * C11: unknown peer -> nothing changes; length field larger than what arrived
 * or than the pipe's rcvmax -> not delivered, that peer (only) gets a DISC;
 * the receive ring never holds more than its capacity, a full ring drops one
 * WHOLE message (the oldest, released exactly once), never a partial one.
 * C01: a delivered message has exactly `length` body bytes, byte k of it is
 * byte k of the datagram payload, no header.
 * C03/C20: out of memory -> that datagram is dropped, nothing leaks, the
 * receive buffer keeps its capacity. */
#define RD_P ((udp_pipe *) g_peer)
#define RD_Q (&RD_P->rx_mq)
#define RD_L ((size_t) g_u32) /* the length field (ghost tie in requires) */
#define UF_PEER_PRE(e_)                                                       \
	(g_peer == NULL ||                                                        \
	    (__CPROVER_is_fresh(g_peer, sizeof(udp_pipe)) && UF_PIPE_SCALAR(RD_P) && UF_RXMQ_PRE(RD_P) && \
	        __CPROVER_pointer_in_range_dfcc((e_), RD_P->ep, (e_)) && UF_PIPE_LISTS(RD_P) && \
	        (g_rxq.n == 0 || (RD_Q->lmq_len == 0 && __CPROVER_is_fresh(g_rxq.head, sizeof(nni_aio)))) && \
	        (RD_Q->lmq_len < RD_Q->lmq_cap || (MSG_PRE(LMQ_VIEW(RD_Q, 0)) && LMQ_VIEW(RD_Q, 0)->m_refcnt.v == 1))))
#define RD_BAD (RD_L > len || RD_L > RD_P->rcvmax)
#define RD_OLEN OLD(((udp_pipe *) g_peer)->rx_mq.lmq_len)
#define RD_FULL (RD_OLEN >= RD_Q->lmq_cap)
#define RD_DQ (g_cq_n - OLD(g_cq_n))
#define RD_DELIVERED (RD_Q->lmq_len + RD_DQ == RD_OLEN - (RD_FULL ? 1 : 0) + 1)
#define RD_NOT_DELIVERED (RD_Q->lmq_len + RD_DQ == RD_OLEN - (RD_FULL ? 1 : 0))
#define RD_M (OLD(g_rxq.n) == 0 ? LMQ_VIEW(RD_Q, RD_Q->lmq_len - 1) : OLD(g_rxq.head)->a_msg)
static void udp_recv_data(udp_ep *ep, udp_sp_msg *dreq, size_t len, const nng_sockaddr *sa)
__CPROVER_requires(UF_TXQ_PRE(ep) && UF_RXBUF_PRE(ep) && UF_RXHDR_PRE(ep) && ep->rx_payload->m_refcnt.v == 1)
__CPROVER_requires(__CPROVER_pointer_in_range_dfcc((uint8_t *) ep->rx_msg, (uint8_t *) dreq, (uint8_t *) ep->rx_msg))
__CPROVER_requires(__CPROVER_pointer_in_range_dfcc(&ep->rx_sa, sa, &ep->rx_sa))
__CPROVER_requires(len <= UF_RXM(ep)->ch_len && UF_PEER_PRE(ep))
__CPROVER_requires(g_u32 == dreq->us_length && CH_GHOST_PRE(UF_RXM(ep)))
__CPROVER_requires(g_p2 == (void *) ep->rx_payload)
/* case split (unit defines RD_CASE): disjoint and exhaustive preconditions, same contract text */
#ifdef RD_CASE
#define RD_PRE_BAD (dreq->us_length > len || dreq->us_length > RD_P->rcvmax)
#define RD_PRE_COPY (dreq->us_length <= ep->copymax)
#define RD_PRE_FULL (RD_Q->lmq_len >= RD_Q->lmq_cap)
#if RD_CASE == 0
__CPROVER_requires(g_peer == NULL)
#elif RD_CASE == 1
__CPROVER_requires(g_peer != NULL && RD_PRE_BAD)
#elif RD_CASE == 2
__CPROVER_requires(g_peer != NULL && !RD_PRE_BAD && RD_PRE_COPY && !RD_PRE_FULL)
#elif RD_CASE == 3
__CPROVER_requires(g_peer != NULL && !RD_PRE_BAD && RD_PRE_COPY && RD_PRE_FULL)
#elif RD_CASE == 4
__CPROVER_requires(g_peer != NULL && !RD_PRE_BAD && !RD_PRE_COPY && !RD_PRE_FULL)
#elif RD_CASE == 5
__CPROVER_requires(g_peer != NULL && !RD_PRE_BAD && !RD_PRE_COPY && RD_PRE_FULL)
#endif
#endif
__CPROVER_assigns(g_peer != NULL: RD_P->expire, RD_P->next_wake, RD_P->closed, RD_P->rx_mq.lmq_get, RD_P->rx_mq.lmq_put, RD_P->rx_mq.lmq_len, __CPROVER_object_whole(RD_P->rx_mq.lmq_msgs),
    ep->next_wake, ep->rx_payload, g_abort_calls, g_bump_err_calls, g_rxq, UF_FIN_GHOSTS, UF_CQ_GHOSTS, g_pipe_close_calls, g_pipe_close_last, UF_TXQ_FRAME(ep), UF_HEAP_GHOSTS)
__CPROVER_assigns(g_peer != NULL: *ep->rx_payload, __CPROVER_object_whole(ep->rx_payload->m_body.ch_buf))
__CPROVER_assigns(g_peer != NULL && g_rxq.n > 0: g_rxq.head->a_msg)
__CPROVER_assigns(g_peer != NULL && RD_Q->lmq_len >= RD_Q->lmq_cap: *LMQ_VIEW(RD_Q, 0))
__CPROVER_frees(ep->rx_payload->m_body.ch_buf)
__CPROVER_frees(g_peer != NULL && RD_Q->lmq_len >= RD_Q->lmq_cap: LMQ_VIEW(RD_Q, 0), LMQ_VIEW(RD_Q, 0)->m_body.ch_buf)
/* (unknown peer: nothing is assignable at all) */
/* the receive ring stays well formed and within its capacity on every path */
__CPROVER_ensures(g_peer != NULL ==> (UF_RXMQ_OK(RD_P) && LMQ_UNCHANGED_GEOM(RD_Q)))
/* bad length: not delivered, ring and buffer untouched, that peer gets DISC(MSGSIZE) once */
__CPROVER_ensures((g_peer != NULL && RD_BAD) ==> (RD_Q->lmq_len == RD_OLEN && RD_Q->lmq_put == OLD(((udp_pipe *) g_peer)->rx_mq.lmq_put) && RD_Q->lmq_get == OLD(((udp_pipe *) g_peer)->rx_mq.lmq_get) && g_cq_n == OLD(g_cq_n) && VP_HEAP_DELTA(0, 0) && RD_P->closed))
__CPROVER_ensures((g_peer != NULL && RD_BAD) ==> (ep->rx_payload == (nni_msg *) g_p2 && UF_RXM(ep)->ch_len == OLD(ep->rx_payload->m_body.ch_len)))
__CPROVER_ensures((g_peer != NULL && RD_BAD && !OLD(((udp_pipe *) g_peer)->closed) && !O_QT_DROP) ==> (UF_TX_QUEUED_ONE(ep) && UF_QUEUED_HDR(ep, OPCODE_DISC, ep->proto, DISC_MSGSIZE, 0)))
__CPROVER_ensures((g_peer != NULL && RD_BAD && !OLD(((udp_pipe *) g_peer)->closed) && !O_QT_DROP) ==> UF_SA_SAME(QT_D.sa, &RD_P->peer_addr, g_j))
/* good length: keep-alive refreshed, nobody disconnected, nothing transmitted */
__CPROVER_ensures((g_peer != NULL && !RD_BAD) ==> (RD_P->expire == g_now + (nni_time) (RD_P->refresh * 5) && RD_P->next_wake == g_now + (nni_time) RD_P->refresh && RD_P->closed == OLD(((udp_pipe *) g_peer)->closed) && UF_TX_UNCHANGED(ep) && g_pipe_close_calls == OLD(g_pipe_close_calls) && g_fin_calls == OLD(g_fin_calls)))
/* ... delivered completely or not at all; a full ring gives up exactly one whole (the oldest) message */
__CPROVER_ensures((g_peer != NULL && !RD_BAD) ==> (RD_DELIVERED || RD_NOT_DELIVERED))
/* ... nothing leaks: net heap growth is exactly the delivered message minus the dropped one */
__CPROVER_ensures((g_peer != NULL && !RD_BAD) ==> ((g_alloc_ok - OLD(g_alloc_ok)) + (RD_FULL ? 2 : 0) == (g_free_calls - OLD(g_free_calls)) + (RD_DELIVERED ? 2 : 0)))
/* ... the receive buffer is a live message again with its capacity for the next datagram */
__CPROVER_ensures((g_peer != NULL && !RD_BAD) ==> (CH_FULL_SCALAR(UF_RXM(ep)) && UF_RXM(ep)->ch_len >= VP_MIN(OLD(ep->rx_payload->m_body.ch_len), (size_t) ep->rcvmax)))
/* ... delivered: exactly `length` bytes, no header, byte for byte the datagram payload; to the first waiting receiver or to the end of the ring */
__CPROVER_ensures((g_peer != NULL && !RD_BAD && RD_DELIVERED) ==> (RD_M->m_body.ch_len == RD_L && RD_M->m_header_len == 0 && (g_k < RD_L ==> RD_M->m_body.ch_ptr[g_k] == g_b)))
__CPROVER_ensures((g_peer != NULL && !RD_BAD && RD_DELIVERED && OLD(g_rxq.n) > 0) ==> (RD_Q->lmq_len == 0 && g_cq_n == OLD(g_cq_n) + 1 && g_cq_last == OLD(g_rxq.head) && g_cq_last_rv == 0 && g_cq_last_msg == RD_M && g_rxq.n == OLD(g_rxq.n) - 1))
__CPROVER_ensures((g_peer != NULL && !RD_BAD && OLD(g_rxq.n) == 0) ==> (g_cq_n == OLD(g_cq_n) && RD_Q->lmq_len <= RD_Q->lmq_cap))
/* ... queued messages keep their order (FIFO): not full -> same positions; full -> shifted by the one dropped */
__CPROVER_ensures((g_peer != NULL && !RD_BAD && !RD_FULL && OLD(g_rxq.n) == 0 && g_j < RD_OLEN) ==> LMQ_VIEW(RD_Q, g_j) == OLD(LMQ_VIEW(&((udp_pipe *) g_peer)->rx_mq, g_j)))
__CPROVER_ensures((g_peer != NULL && !RD_BAD && RD_FULL && g_j + 1 < RD_OLEN && g_j < UF_RXQ) ==> LMQ_VIEW(RD_Q, g_j) == OLD(LMQ_VIEW(&((udp_pipe *) g_peer)->rx_mq, g_j + 1)))
;

/* =========================================================== other datagram kinds (frames used by udp_rx_cb) */
#define UF_HANDLER_FRAME(ep) g_peer != NULL: RD_P->expire, RD_P->next_wake, RD_P->closed, RD_P->refresh, RD_P->peer, RD_P->sndmax, RD_P->state, g_rxq; \
    ep->next_wake, g_abort_calls, UF_FIN_GHOSTS, g_pipe_close_calls, g_pipe_close_last, UF_TXQ_FRAME(ep)

/* DISC: only the sender's own pipe is closed; nothing is transmitted, nothing delivered */
static void udp_recv_disc(udp_ep *ep, udp_sp_msg *disc, const nng_sockaddr *sa)
__CPROVER_requires(__CPROVER_is_fresh(ep, sizeof(udp_ep)) && __CPROVER_r_ok(disc, sizeof(udp_sp_msg)) && __CPROVER_r_ok(sa, sizeof(nng_sockaddr)))
__CPROVER_requires(g_peer == NULL || (__CPROVER_is_fresh(g_peer, sizeof(udp_pipe)) && UF_PIPE_LISTS(RD_P)))
__CPROVER_assigns(g_peer != NULL: RD_P->closed, g_rxq, UF_FIN_GHOSTS, g_pipe_close_calls, g_pipe_close_last)
__CPROVER_ensures(g_peer != NULL ==> (RD_P->closed && g_rxq.n == 0 && g_fin_calls == OLD(g_fin_calls) + OLD(g_rxq.n) && (OLD(g_rxq.n) > 0 ==> g_fin_last_rv == NNG_ECLOSED) && g_pipe_close_calls == OLD(g_pipe_close_calls) + 1 && g_pipe_close_last == RD_P->npipe))
;

/* CREQ / CACK: frames only (connection management; the enforcing units are listed in spec.json) */
static void udp_recv_creq(udp_ep *ep, udp_sp_msg *creq, nng_sockaddr *sa)
__CPROVER_requires(UF_TXQ_PRE(ep) && __CPROVER_r_ok(creq, sizeof(udp_sp_msg)) && __CPROVER_r_ok(sa, sizeof(nng_sockaddr)))
__CPROVER_assigns(ep->next_wake, ep->peer_count, g_abort_calls, UF_FIN_GHOSTS, g_pipe_close_calls, g_pipe_close_last, UF_TXQ_FRAME(ep), UF_HEAP_GHOSTS, g_palloc_calls, g_palloc_last, g_the_pipe, g_node_active, g_rxq_addr, g_rxq, g_connq, g_cpq, g_other_pipe, g_idset_calls, g_map_addr)
__CPROVER_assigns(__CPROVER_object_whole(g_map))
__CPROVER_assigns(g_peer != NULL: RD_P->expire, RD_P->next_wake, RD_P->closed, RD_P->refresh)
__CPROVER_ensures(UF_TXR_SCALAR(ep) && ep->tx_ring.tail == OLD(ep->tx_ring.tail))
;
static void udp_recv_cack(udp_ep *ep, udp_sp_msg *cack, const nng_sockaddr *sa)
__CPROVER_requires(UF_TXQ_PRE(ep) && __CPROVER_r_ok(cack, sizeof(udp_sp_msg)) && __CPROVER_r_ok(sa, sizeof(nng_sockaddr)))
__CPROVER_assigns(ep->next_wake, g_abort_calls, UF_FIN_GHOSTS, g_pipe_close_calls, g_pipe_close_last, UF_TXQ_FRAME(ep), g_rxq, g_connq, g_cpq, g_other_pipe, g_node_active)
__CPROVER_assigns(g_peer != NULL: RD_P->expire, RD_P->next_wake, RD_P->closed, RD_P->refresh, RD_P->peer, RD_P->sndmax, RD_P->state)
__CPROVER_ensures(UF_TXR_SCALAR(ep) && ep->tx_ring.tail == OLD(ep->tx_ring.tail))
;

/* =========================================================== receive completion
 * C11, for EVERY datagram content and every received length n:
 *  - shorter than the 8 byte header, or version != 1: dropped silently --
 *    no handler runs, nothing is delivered, queued or transmitted, no pipe
 *    changes;
 *  - unknown opcode: nothing delivered, the sender gets DISC(PROTO);
 *  - DATA / CREQ / CACK / DISC: exactly that handler, with n - 8 as the
 *    payload length;
 *  - the receive is re-armed on every path except a closed/stopped endpoint
 *    and the error back-off (which re-enters through the sleep completion);
 *  - deferred completions are run exactly once, after the lock is dropped. */
#define RX_EP ((udp_ep *) arg)
#define RX_RV OLD(((udp_ep *) arg)->rx_aio.a_result)
#define RX_N  OLD(((udp_ep *) arg)->rx_aio.a_count)
#define RX_GONE (RX_RV == NNG_ECLOSED || RX_RV == NNG_ECANCELED || RX_RV == NNG_ESTOPPED)
#define RX_RETRY (RX_RV == NNG_ETIMEDOUT || RX_RV == NNG_EAGAIN || RX_RV == NNG_EINTR)
#define RX_ERR (RX_RV != 0 && !RX_GONE && !RX_RETRY)
#define RX_COOL (RX_RV == 0 && OLD(((udp_ep *) arg)->cooldown))
#define RX_DGRAM (RX_RV == 0 && !OLD(((udp_ep *) arg)->cooldown))
#define RX_HDR_OK (RX_N >= UF_HDRSZ && g_b == 1) /* g_b: version octet (ghost tie) */
#define RX_OP ((unsigned) g_hb)                   /* g_hb: opcode octet (ghost tie) */
#define RX_REARMED (RX_EP->closed ? g_udp_recv_calls == OLD(g_udp_recv_calls) : (g_udp_recv_calls == OLD(g_udp_recv_calls) + 1 && g_udp_last_aio == &RX_EP->rx_aio))
#define RX_QUIET (g_cq_n == 0 && g_cq_run_n == OLD(g_cq_run_n) + OLD(g_cq_n) && g_fin_calls == OLD(g_fin_calls) && g_pipe_close_calls == OLD(g_pipe_close_calls) && RX_EP->tx_ring.count == OLD(((udp_ep *) arg)->tx_ring.count) && RX_EP->tx_ring.head == OLD(((udp_ep *) arg)->tx_ring.head) && TX_NOT_SENT && VP_HEAP_DELTA(0, 0) && g_palloc_calls == OLD(g_palloc_calls) && RX_EP->peer_count == OLD(((udp_ep *) arg)->peer_count))
#define RX_PEER_SAME (g_peer == NULL || (RD_Q->lmq_len == RD_OLEN && RD_Q->lmq_put == OLD(((udp_pipe *) g_peer)->rx_mq.lmq_put) && RD_Q->lmq_get == OLD(((udp_pipe *) g_peer)->rx_mq.lmq_get) && RD_P->closed == OLD(((udp_pipe *) g_peer)->closed) && RD_P->expire == OLD(((udp_pipe *) g_peer)->expire) && RD_P->state == OLD(((udp_pipe *) g_peer)->state) && g_rxq.n == OLD(g_rxq.n)))
static void udp_rx_cb(void *arg)
__CPROVER_requires(UF_TXQ_PRE(RX_EP) && UF_RXBUF_PRE(RX_EP) && UF_RXHDR_PRE(RX_EP) && RX_EP->rx_payload->m_refcnt.v == 1 && VP_NO_LOCK_HELD)
__CPROVER_requires(UF_PEER_PRE(RX_EP))
/* ASSUMED about the UDP layer (nng_udp_recv): a successful completion reports at most the bytes of the armed vector */
__CPROVER_requires(RX_EP->rx_aio.a_result != 0 || RX_EP->rx_aio.a_count <= UF_HDRSZ + UF_RXM(RX_EP)->ch_len)
/* ghost ties: version, opcode, length field of the datagram; payload byte g_k */
__CPROVER_requires(g_b == RX_EP->rx_msg->us_ver && g_hb == RX_EP->rx_msg->us_op_code && g_u32 == RX_EP->rx_msg->us_length)
__CPROVER_requires(g_p2 == (void *) RX_EP->rx_payload)
/* case split (unit defines RX_CASE): disjoint and exhaustive preconditions, same contract text */
#ifdef RX_CASE
#define RX_PRE_DGRAM (RX_EP->rx_aio.a_result == 0 && !RX_EP->cooldown)
#define RX_PRE_HDR (RX_EP->rx_aio.a_count >= UF_HDRSZ && RX_EP->rx_msg->us_ver == 1)
#if RX_CASE == 0
__CPROVER_requires(!RX_PRE_DGRAM)
#elif RX_CASE == 1
__CPROVER_requires(RX_PRE_DGRAM && !RX_PRE_HDR)
#elif RX_CASE == 2
__CPROVER_requires(RX_PRE_DGRAM && RX_PRE_HDR && RX_EP->rx_msg->us_op_code == OPCODE_DATA)
#elif RX_CASE == 3
__CPROVER_requires(RX_PRE_DGRAM && RX_PRE_HDR && RX_EP->rx_msg->us_op_code == OPCODE_CREQ)
#elif RX_CASE == 4
__CPROVER_requires(RX_PRE_DGRAM && RX_PRE_HDR && RX_EP->rx_msg->us_op_code == OPCODE_CACK)
#elif RX_CASE == 5
__CPROVER_requires(RX_PRE_DGRAM && RX_PRE_HDR && RX_EP->rx_msg->us_op_code == OPCODE_DISC)
#elif RX_CASE == 6
__CPROVER_requires(RX_PRE_DGRAM && RX_PRE_HDR && RX_EP->rx_msg->us_op_code > OPCODE_DISC)
#endif
#endif
__CPROVER_assigns(RX_EP->cooldown, RX_EP->complq, RX_EP->rx_msg, RX_EP->rx_payload, RX_EP->next_wake, RX_EP->peer_count, UF_IOV_OF(RX_EP->rx_aio), RX_EP->rx_aio.a_inputs[0], UF_RECV_GHOSTS, UF_HEAP_GHOSTS, VP_SYNC_GHOSTS,
    g_abort_calls, g_bump_err_calls, g_sleep_calls, g_sleep_last, g_rxq, UF_FIN_GHOSTS, UF_CQ_GHOSTS, g_cq_run_calls, g_cq_run_n, g_cq_run_locked, g_pipe_close_calls, g_pipe_close_last, UF_TXQ_FRAME(RX_EP),
    g_palloc_calls, g_palloc_last, g_the_pipe, g_node_active, g_rxq_addr, g_connq, g_cpq, g_other_pipe, g_idset_calls, g_map_addr, __CPROVER_object_whole(g_map))
__CPROVER_assigns(*RX_EP->rx_payload, __CPROVER_object_whole(RX_EP->rx_payload->m_body.ch_buf))
__CPROVER_assigns(g_peer != NULL: RD_P->expire, RD_P->next_wake, RD_P->closed, RD_P->refresh, RD_P->peer, RD_P->sndmax, RD_P->state, RD_P->rx_mq.lmq_get, RD_P->rx_mq.lmq_put, RD_P->rx_mq.lmq_len, __CPROVER_object_whole(RD_P->rx_mq.lmq_msgs))
__CPROVER_assigns(g_peer != NULL && g_rxq.n > 0: g_rxq.head->a_msg)
__CPROVER_assigns(g_peer != NULL && RD_Q->lmq_len >= RD_Q->lmq_cap: *LMQ_VIEW(RD_Q, 0))
__CPROVER_frees(RX_EP->rx_payload->m_body.ch_buf)
__CPROVER_frees(g_peer != NULL && RD_Q->lmq_len >= RD_Q->lmq_cap: LMQ_VIEW(RD_Q, 0), LMQ_VIEW(RD_Q, 0)->m_body.ch_buf)
__CPROVER_ensures(VP_NO_LOCK_HELD && !g_cq_run_locked)
/* closed / canceled / stopped: nothing at all, no re-arm */
__CPROVER_ensures(RX_GONE ==> (g_udp_recv_calls == OLD(g_udp_recv_calls) && g_cq_run_calls == OLD(g_cq_run_calls) && g_cq_n == OLD(g_cq_n) && g_sleep_calls == OLD(g_sleep_calls) && RX_PEER_SAME))
/* unexpected error: back off 5 ms on the receive aio (its completion re-enters with cooldown set) */
__CPROVER_ensures(RX_ERR ==> (RX_EP->cooldown && g_sleep_calls == OLD(g_sleep_calls) + 1 && g_sleep_last == &RX_EP->rx_aio && g_udp_recv_calls == OLD(g_udp_recv_calls) && RX_PEER_SAME))
/* retryable error, or the back-off completing: just re-arm */
__CPROVER_ensures((RX_RETRY || RX_COOL) ==> (!RX_EP->cooldown && RX_REARMED && RX_QUIET && RX_PEER_SAME && g_cq_run_calls == OLD(g_cq_run_calls) + 1))
/* every datagram: re-armed, completions run once */
__CPROVER_ensures(RX_DGRAM ==> (RX_REARMED && g_cq_run_calls == OLD(g_cq_run_calls) + 1 && g_cq_n == 0 && g_sleep_calls == OLD(g_sleep_calls)))
/* runt or wrong version: dropped silently */
__CPROVER_ensures((RX_DGRAM && !RX_HDR_OK) ==> (RX_QUIET && RX_PEER_SAME))
/* unknown opcode: never delivered; DISC(PROTO) to the sender (or dropped whole if the ring is full) */
__CPROVER_ensures((RX_DGRAM && RX_HDR_OK && RX_OP > OPCODE_DISC) ==> (RX_PEER_SAME && g_cq_run_n == OLD(g_cq_run_n) + OLD(g_cq_n) && g_fin_calls == OLD(g_fin_calls) && VP_HEAP_DELTA(0, 0)))
#define ep RX_EP
__CPROVER_ensures((RX_DGRAM && RX_HDR_OK && RX_OP > OPCODE_DISC && !O_QT_DROP) ==> (UF_TX_QUEUED_ONE(ep) && UF_QUEUED_HDR(ep, OPCODE_DISC, ep->proto, DISC_PROTO, 0)))
__CPROVER_ensures((RX_DGRAM && RX_HDR_OK && RX_OP > OPCODE_DISC && !O_QT_DROP) ==> UF_SA_SAME(QT_D.sa, &ep->rx_sa, g_j))
/* DISC: the sender's pipe (only) is closed, nothing transmitted or delivered */
__CPROVER_ensures((RX_DGRAM && RX_HDR_OK && RX_OP == OPCODE_DISC) ==> (UF_TX_UNCHANGED(ep) && g_cq_run_n == OLD(g_cq_run_n) + OLD(g_cq_n) && (g_peer != NULL ==> (RD_P->closed && RD_Q->lmq_len == RD_OLEN))))
/* DATA: handled with n - 8 as the available payload: unknown peer -> quiet; bad length -> never delivered */
__CPROVER_ensures((RX_DGRAM && RX_HDR_OK && RX_OP == OPCODE_DATA && g_peer == NULL) ==> RX_QUIET)
__CPROVER_ensures((RX_DGRAM && RX_HDR_OK && RX_OP == OPCODE_DATA && g_peer != NULL && (RD_L > RX_N - UF_HDRSZ || RD_L > RD_P->rcvmax)) ==> (RD_Q->lmq_len == RD_OLEN && g_cq_run_n == OLD(g_cq_run_n) + OLD(g_cq_n) && RD_P->closed))
__CPROVER_ensures((RX_DGRAM && RX_HDR_OK && RX_OP == OPCODE_DATA && g_peer != NULL && !(RD_L > RX_N - UF_HDRSZ || RD_L > RD_P->rcvmax)) ==> (RD_Q->lmq_len <= RD_Q->lmq_cap && g_cq_run_n <= OLD(g_cq_run_n) + OLD(g_cq_n) + 1 && RD_P->closed == OLD(((udp_pipe *) g_peer)->closed) && UF_TX_UNCHANGED(ep)))
#undef ep
;

/* =========================================================== peer map (finite-map model, at most UF_MAPK entries)
 * The transport stores a pipe under the first free key at or after the hash
 * of its peer address and finds it again by probing hash, hash+1, ... until a
 * free key.  Probe-chain invariant M_REACH: every stored pipe q sits at key
 * q->id + d with all of q->id .. q->id+d-1 occupied.  C11 ("only the
 * offending connection is dropped ... all other connections keep working")
 * and memory safety of later lookups need it preserved by EVERY operation:
 * a pipe that can no longer be found can no longer be removed, and its map
 * entry outlives the pipe. */
/* store: success -> reachable from its hash, everybody else still reachable, counted once; ENOMEM -> nothing changed */
static nng_err udp_add_pipe(udp_ep *ep, udp_pipe *p)
__CPROVER_requires(__CPROVER_is_fresh(ep, sizeof(udp_ep)) && __CPROVER_is_fresh(p, sizeof(udp_pipe)) && UF_MAP_PRE(ep))
__CPROVER_requires(M_COUNT < UF_MAPK && p->id <= UF_IDMAX && ep->peer_count == M_COUNT)
__CPROVER_assigns(ep->peer_count, g_idset_calls, __CPROVER_object_whole(g_map))
__CPROVER_ensures(__CPROVER_return_value == NNG_OK || __CPROVER_return_value == NNG_ENOMEM)
__CPROVER_ensures(M_DISTINCT && ep->peer_count == M_COUNT)
__CPROVER_ensures(__CPROVER_return_value == NNG_OK ==> (M_HOLDS(p) && ep->peer_count == OLD(ep->peer_count) + 1))
__CPROVER_ensures(__CPROVER_return_value != NNG_OK ==> (!M_HOLDS(p) && ep->peer_count == OLD(ep->peer_count)))
__CPROVER_ensures(p->id != 0 ==> M_REACH_ALL)
;

/* forget: afterwards no key of the map refers to the pipe (it is about to be freed), it is counted out once,
 * and every OTHER pipe can still be found (and therefore removed later) */
static void udp_remove_pipe(udp_pipe *p)
/* the pipe is the one stored in slot g_n (any slot) */
__CPROVER_requires(g_n < UF_MAPK && M_SHAPE_PRE && M_LIVE(g_n) && __CPROVER_pointer_in_range_dfcc(MP(g_n), p, MP(g_n)))
__CPROVER_requires(__CPROVER_is_fresh(p->ep, sizeof(udp_ep)) && g_map_addr == &p->ep->pipes && M_DISTINCT && M_REACH_ALL && p->ep->peer_count == M_COUNT && g_the_pipe == (void *) p)
__CPROVER_requires(g_node_active == g_cpq.has_p && (!g_cpq.has_p || g_cpq.n > 0))
__CPROVER_assigns(p->id, p->ep->peer_count, g_idrm_calls, g_idset_calls, __CPROVER_object_whole(g_map), g_cpq, g_node_active, g_pipe_rele_calls)
__CPROVER_ensures(p->id == 0 && !M_HOLDS(p))
__CPROVER_ensures(p->ep->peer_count == M_COUNT && M_COUNT == OLD(p->ep->peer_count) - 1)
__CPROVER_ensures(p->state < PIPE_CONN_DONE ? (g_pipe_rele_calls == OLD(g_pipe_rele_calls) + 1 && !g_node_active && !g_cpq.has_p) : (g_pipe_rele_calls == OLD(g_pipe_rele_calls) && g_node_active == OLD(g_node_active)))
__CPROVER_ensures(M_DISTINCT && M_REACH_ALL)
;

/* =========================================================== pipe receive / send entry points
 * C01 / C15: a receive completes IN THE CALL with the oldest queued message when there is one (it reaches
 * nni_aio_start only when it cannot proceed); closed pipe -> NNG_ECLOSED; otherwise it waits in arrival order. */
#define PR_P ((udp_pipe *) arg)
#define PR_Q (&PR_P->rx_mq)
static void udp_pipe_recv(void *arg, nni_aio *aio)
__CPROVER_requires(__CPROVER_is_fresh(arg, sizeof(udp_pipe)) && __CPROVER_is_fresh(PR_P->ep, sizeof(udp_ep)) && __CPROVER_is_fresh(aio, sizeof(nni_aio)) && VP_NO_LOCK_HELD)
__CPROVER_requires(UF_RXMQ_PRE(PR_P) && UF_PIPE_LISTS(PR_P) && (g_rxq.n == 0 || PR_Q->lmq_len == 0))
__CPROVER_requires(PR_Q->lmq_len == 0 || (MSG_PRE(LMQ_VIEW(PR_Q, 0)) && g_p == (void *) LMQ_VIEW(PR_Q, 0)))
__CPROVER_requires(g_connq.n == 0)
__CPROVER_assigns(aio->a_result, aio->a_count, aio->a_msg, PR_Q->lmq_get, PR_Q->lmq_len, g_rxq, g_start_calls, UF_FIN_GHOSTS, VP_SYNC_GHOSTS)
__CPROVER_ensures(VP_NO_LOCK_HELD && UF_RXMQ_OK(PR_P))
__CPROVER_ensures(PR_P->closed ==> (g_fin_calls == OLD(g_fin_calls) + 1 && g_fin_last == aio && g_fin_last_rv == NNG_ECLOSED && g_start_calls == OLD(g_start_calls) && g_rxq.n == OLD(g_rxq.n) && PR_Q->lmq_len == OLD(((udp_pipe *) arg)->rx_mq.lmq_len)))
/* a message is waiting: handed over now, oldest first, without scheduling the aio */
__CPROVER_ensures((!PR_P->closed && OLD(((udp_pipe *) arg)->rx_mq.lmq_len) > 0) ==> (g_fin_calls == OLD(g_fin_calls) + 1 && g_fin_last == aio && g_fin_last_rv == 0 && aio->a_msg == (nni_msg *) g_p && g_fin_last_count == aio->a_msg->m_body.ch_len && PR_Q->lmq_len == OLD(((udp_pipe *) arg)->rx_mq.lmq_len) - 1 && g_start_calls == OLD(g_start_calls) && g_rxq.n == OLD(g_rxq.n)))
/* nothing waiting: scheduled; queued behind the earlier receivers iff the aio framework admits it */
__CPROVER_ensures((!PR_P->closed && OLD(((udp_pipe *) arg)->rx_mq.lmq_len) == 0) ==> (g_start_calls == OLD(g_start_calls) + 1 && g_fin_calls == OLD(g_fin_calls) && g_rxq.n == OLD(g_rxq.n) + (g_aio_start_ok ? 1 : 0) && (OLD(g_rxq.n) > 0 ? g_rxq.head == OLD(g_rxq.head) : (!g_aio_start_ok || g_rxq.head == aio))))
;

/* C01 (send side): header exactly ver 1 / DATA / our protocol id / length = header + body bytes; payload and destination
 * exact.  C03: the message is consumed exactly once: queued (then owned by the ring), or released at once when it does
 * not fit the peer's receive limit or the ring is full.  The sender is completed with success in the call (C15). */
#define PS_P ((udp_pipe *) arg)
#define PS_EP (PS_P->ep)
#define PS_M (aio->a_msg)
#define PS_CNT (OLD(aio->a_msg->m_body.ch_len) + OLD(aio->a_msg->m_header_len))
#define PS_TOOBIG (PS_CNT > PS_P->sndmax)
static void udp_pipe_send(void *arg, nni_aio *aio)
__CPROVER_requires(__CPROVER_is_fresh(arg, sizeof(udp_pipe)) && UF_TXQ_PRE(PS_EP) && __CPROVER_is_fresh(aio, sizeof(nni_aio)) && MSG_PRE(aio->a_msg) && VP_NO_LOCK_HELD)
__CPROVER_requires(g_u32 == (uint32_t) aio->a_msg->m_refcnt.v && aio->a_msg->m_body.ch_len <= ((size_t) 1 << 40))
__CPROVER_requires(g_p == (void *) aio->a_msg)
__CPROVER_assigns(aio->a_result, aio->a_count, UF_TXQ_FRAME(PS_EP), UF_FIN_GHOSTS, VP_SYNC_GHOSTS, UF_HEAP_GHOSTS, aio->a_msg->m_refcnt, aio->a_msg->m_body)
__CPROVER_frees(aio->a_msg, aio->a_msg->m_body.ch_buf)
__CPROVER_ensures(VP_NO_LOCK_HELD && UF_TXR_SCALAR(PS_EP))
__CPROVER_ensures(g_fin_calls == OLD(g_fin_calls) + 1 && g_fin_last == aio && g_fin_last_rv == 0 && g_fin_last_count == PS_CNT)
#define ep PS_EP
/* larger than the peer accepts: never transmitted, released once */
__CPROVER_ensures(PS_TOOBIG ==> (UF_TX_UNCHANGED(ep) && g_free_calls == OLD(g_free_calls) + (g_u32 == 1 ? 2 : 0)))
/* ring full / endpoint not started: dropped whole, released once */
__CPROVER_ensures((!PS_TOOBIG && O_QT_DROP) ==> (UF_TX_UNCHANGED(ep) && g_free_calls == OLD(g_free_calls) + (g_u32 == 1 ? 2 : 0)))
/* queued: exact header, this message as payload, this peer as destination; not released */
__CPROVER_ensures((!PS_TOOBIG && !O_QT_DROP) ==> (UF_TX_QUEUED_ONE(ep) && g_free_calls == OLD(g_free_calls) && QT_D.header.us_ver == 1 && QT_D.header.us_op_code == OPCODE_DATA && QT_D.header.us_type == ep->proto && QT_D.header.us_params[0] == (uint16_t) PS_CNT && QT_D.payload == (nni_msg *) g_p && QT_D.submitted))
__CPROVER_ensures((!PS_TOOBIG && !O_QT_DROP) ==> UF_SA_SAME(QT_D.sa, &PS_P->peer_addr, g_k))
#undef ep
;
/* clang-format on */
#endif
