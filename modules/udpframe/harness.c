#define VP_SZ(v) do { v = nondet_size_t(); __CPROVER_assume(v < ((size_t) 1 << 40)); } while (0)
#define VP_HAVOC_GHOSTS()                                                     \
	do {                                                                      \
		g_k = nondet_size_t(); g_j = nondet_size_t(); g_n = nondet_size_t(); g_hk = nondet_size_t(); \
		g_b = nondet_u8(); g_hb = nondet_u8(); g_p = nondet_ptr(); g_p2 = nondet_ptr(); g_u32 = nondet_u32(); g_u64 = nondet_u64(); \
		VP_SZ(g_msg_freed); g_msg_freed_at_j = nondet_ptr(); VP_SZ(g_free_calls); VP_SZ(g_alloc_ok); \
		VP_SZ(g_rxq.n); g_rxq.head = nondet_ptr(); g_rxq.next = nondet_ptr(); VP_SZ(g_connq.n); g_connq.head = nondet_ptr(); g_connq.next = nondet_ptr(); \
		g_rxq_addr = nondet_ptr(); g_connq_addr = nondet_ptr(); g_cpq_addr = nondet_ptr(); \
		VP_SZ(g_cpq.n); g_cpq.has_p = nondet_bool(); g_cpq.p_first = nondet_bool(); g_the_pipe = nondet_ptr(); g_node_active = nondet_bool(); g_other_pipe = NULL; \
		g_peer = nondet_ptr(); g_map_addr = nondet_ptr(); g_idset_ok = nondet_bool(); VP_SZ(g_idset_calls); VP_SZ(g_idrm_calls); g_rx_hash = nondet_u64(); \
		g_map[0].key = nondet_u64(); g_map[0].val = nondet_ptr(); g_map[0].addr_eq = nondet_bool(); g_map[1].key = nondet_u64(); g_map[1].val = nondet_ptr(); g_map[1].addr_eq = nondet_bool(); \
		VP_SZ(g_fin_calls); g_fin_last = nondet_ptr(); g_fin_last_rv = nondet_int(); g_fin_last_count = nondet_size_t(); \
		VP_SZ(g_cq_n); g_cq_last = nondet_ptr(); g_cq_last_rv = nondet_int(); g_cq_last_count = nondet_size_t(); g_cq_last_msg = nondet_ptr(); \
		VP_SZ(g_cq_run_calls); VP_SZ(g_cq_run_n); g_cq_run_locked = false; VP_SZ(g_start_calls); g_aio_start_ok = nondet_bool(); g_aio_active = nondet_bool(); \
		VP_SZ(g_udp_recv_calls); VP_SZ(g_udp_send_calls); g_udp_last_aio = nondet_ptr(); g_udp_last = nondet_ptr(); \
		VP_SZ(g_pipe_close_calls); VP_SZ(g_pipe_rele_calls); VP_SZ(g_bump_err_calls); g_pipe_close_last = nondet_ptr(); \
		VP_SZ(g_abort_calls); VP_SZ(g_sleep_calls); g_sleep_last = nondet_ptr(); g_now = nondet_u64(); VP_SZ(g_palloc_calls); g_palloc_last = nondet_ptr(); \
		VP_HAVOC_SYNC();                                                      \
	} while (0)

/* harness locals of union type must be given ONE nondet value: an uninitialised local union reads as a fresh value at every access in CBMC */
nng_sockaddr nondet_sockaddr(void);
udp_sp_msg   nondet_sp_msg(void);
void h_start_tx(void)  { udp_ep *ep; VP_HAVOC_GHOSTS(); udp_start_tx(ep); VP_CANARY(); }
void h_queue_tx(void)  { udp_ep *ep; nng_sockaddr sa = nondet_sockaddr(); udp_sp_msg hdr = nondet_sp_msg(); nni_msg *pl; VP_HAVOC_GHOSTS(); udp_queue_tx(ep, &sa, &hdr, pl); VP_CANARY(); }
void h_finish_tx(void) { udp_ep *ep; VP_HAVOC_GHOSTS(); udp_finish_tx(ep); VP_CANARY(); }
void h_send_disc_full(void) { udp_ep *ep; nng_sockaddr sa = nondet_sockaddr(); udp_disc_reason r; VP_HAVOC_GHOSTS(); udp_send_disc_full(ep, &sa, r); VP_CANARY(); }
void h_send_disc(void) { udp_ep *ep; udp_pipe *p; udp_disc_reason r; VP_HAVOC_GHOSTS(); udp_send_disc(ep, p, r); VP_CANARY(); }
void h_start_rx(void)  { udp_ep *ep; VP_HAVOC_GHOSTS(); udp_start_rx(ep); VP_CANARY(); }
void h_recv_data(void) { udp_ep *ep; udp_sp_msg *d; size_t len; const nng_sockaddr *sa; VP_HAVOC_GHOSTS(); udp_recv_data(ep, d, len, sa); VP_CANARY(); }
void h_recv_disc(void) { udp_ep *ep; udp_sp_msg d = nondet_sp_msg(); nng_sockaddr sa = nondet_sockaddr(); VP_HAVOC_GHOSTS(); udp_recv_disc(ep, &d, &sa); VP_CANARY(); }
void h_rx_cb(void)     { void *ep; VP_HAVOC_GHOSTS(); udp_rx_cb(ep); VP_CANARY(); }
void h_find_pipe(void)   { udp_ep *ep; nng_sockaddr sa = nondet_sockaddr(); VP_HAVOC_GHOSTS(); udp_find_pipe(ep, &sa); VP_CANARY(); }
void h_add_pipe(void)    { udp_ep *ep; udp_pipe *p; VP_HAVOC_GHOSTS(); udp_add_pipe(ep, p); VP_CANARY(); }
void h_remove_pipe(void) { udp_pipe *p; VP_HAVOC_GHOSTS(); udp_remove_pipe(p); VP_CANARY(); }
void h_pipe_recv(void) { void *p; nni_aio *aio; VP_HAVOC_GHOSTS(); udp_pipe_recv(p, aio); VP_CANARY(); }
void h_pipe_send(void) { void *p; nni_aio *aio; VP_HAVOC_GHOSTS(); udp_pipe_send(p, aio); VP_CANARY(); }
