/* Spec macros of module subx (src/sp/protocol/pubsub0/sub.c remaining functions, xsub.c).  No code.
 * The macros of modules/sub/spec.h (SUB_TOPICS_ARE, SUB_LMQ_PRE, SUB_QSLOTS, SUB_MAXTOPIC ...) are reused. */
#ifndef VP_SUBX_SPEC_H
#define VP_SUBX_SPEC_H
/* BOUND: body buffer of a message built by the harness (bytes; headroom and length inside it symbolic) */
#ifndef SX_BCAP
#define SX_BCAP 8
#endif
/* scalar facts about a message owned by a receive queue; the pointer shape (struct, SX_BCAP-byte buffer,
 * data pointer inside it) is built by the harness */
#define SX_QUEUED_SCALAR(m)                                                \
	((m)->m_header_len <= MSG_HDRCAP && (m)->m_refcnt.v >= 1 &&            \
	    (m)->m_refcnt.v < 1000 && (m)->m_body.ch_cap == SX_BCAP &&         \
	    CH_FULL_SCALAR(&(m)->m_body))
#endif
