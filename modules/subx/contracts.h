/* Contracts of module subx: the functions of src/sp/protocol/pubsub0/sub.c that modules/sub left open,
 * and src/sp/protocol/pubsub0/xsub.c.  The object skeleton is BUILT by the harness (real objects, real
 * list code) and named by ghosts (g_s, g_c1, g_pp, g_t*, g_u*); counts are constants of the unit. */
#ifndef VP_SUBX_CONTRACTS_H
#define VP_SUBX_CONTRACTS_H
/* clang-format off */
#define RV __CPROVER_return_value
#define OLD(e) __CPROVER_old(e)
#define FREED(p) __CPROVER_was_freed(p)
#ifdef SX_COVER
#define COVER(c) __CPROVER_ensures(!(c))
#else
#define COVER(c)
#endif
#ifndef SU_NT
#define SU_NT 1
#endif
#ifndef SU_QLEN
#define SU_QLEN 1
#endif
#define SUB_IS_C0(ctx) ((ctx) == &g_s->master)
/* C15: the receive descriptor of the socket mirrors "the socket's own queue is non-empty" */
#define SUB_POLL_INV (g_pollr == (g_s->master.lmq.lmq_len > 0))
size_t g_r;                                /* ghost: index of the topic that goes (3 = none) */
bool   g_keep0, g_keep1, g_keep2, g_keep3; /* ghost: old queue entry i still matches afterwards */

/* =====================================================================
 * C05 / C15 (D8) / C03: sub0_ctx_unsubscribe
 * removes the first topic equal to buf[0..sz) (NNG_ENOENT and nothing changed if there is none);
 * afterwards the queue is the ORDER-PRESERVING FILTER of the old queue by "some REMAINING topic is a
 * prefix of the body"; a message that no longer matches loses exactly one reference (freed if it was
 * the last); the removed topic is released exactly once, with its bytes; the poll flag of the socket
 * equals "queue non-empty" afterwards.
 * Case split by constants: SU_NT topics (harness), SU_QLEN queued messages (harness). */
#define SU_C   (&g_s->master)
#define SU_Q   (&SU_C->lmq)
#define SU_V(i) LMQ_VIEW(SU_Q, (i))
#define SU_OLDLEN ((size_t) SU_QLEN)
#define SU_KEEP(i) ((i) == 0 ? g_keep0 : (i) == 1 ? g_keep1 : (i) == 2 ? g_keep2 : g_keep3)
/* number of kept entries among the first j old entries */
#define SU_RANK(j) ((size_t) (((j) > 0 && g_keep0) ? 1 : 0) + (((j) > 1 && g_keep1) ? 1 : 0) + (((j) > 2 && g_keep2) ? 1 : 0) + (((j) > 3 && g_keep3) ? 1 : 0))
/* ghost equation: SU_KEEP(i) is the ORACLE value of old entry i under the topics that remain */
#define SU_MSG_PRE(i) (SX_QUEUED_SCALAR(SU_V(i)) && SU_KEEP(i) == vp_sub_oracle_skip(g_nt, g_t0, g_t1, g_t2, g_r, SU_V(i)->m_body.ch_ptr, SU_V(i)->m_body.ch_len))
#define SU_MSG_ASSIGNS(i) __CPROVER_assigns(*SU_V(i)) __CPROVER_frees(SU_V(i), SU_V(i)->m_body.ch_buf)
#define SU_LASTREF(i) (OLD(SU_V(i)->m_refcnt.v) == 1)
/* old entry i: kept in order, untouched - or released exactly once */
#define SU_MSG_POST(i)                                                                                  \
	(SU_KEEP(i) ? (SU_V(SU_RANK(i)) == OLD(SU_V(i)) && !FREED(OLD(SU_V(i))) && OLD(SU_V(i))->m_refcnt.v == OLD(SU_V(i)->m_refcnt.v) &&                 \
	                  OLD(SU_V(i))->m_body.ch_len == OLD(SU_V(i)->m_body.ch_len) && OLD(SU_V(i))->m_body.ch_ptr == OLD(SU_V(i)->m_body.ch_ptr) && !FREED(OLD(SU_V(i)->m_body.ch_buf))) \
	            : (SU_LASTREF(i) ? (FREED(OLD(SU_V(i))) && FREED(OLD(SU_V(i)->m_body.ch_buf))) : (!FREED(OLD(SU_V(i))) && !FREED(OLD(SU_V(i)->m_body.ch_buf)) && OLD(SU_V(i))->m_refcnt.v == OLD(SU_V(i)->m_refcnt.v) - 1)))
/* old entry i exactly as it was (NNG_ENOENT path) */
#define SU_MSG_SAME(i) (SU_V(i) == OLD(SU_V(i)) && !FREED(OLD(SU_V(i))) && OLD(SU_V(i))->m_refcnt.v == OLD(SU_V(i)->m_refcnt.v) && OLD(SU_V(i))->m_body.ch_len == OLD(SU_V(i)->m_body.ch_len))
/* blocks released by dropping old entry i: struct + body buffer iff it held the last reference */
#define SU_MSG_FREES(i) ((size_t) ((!SU_KEEP(i) && SU_LASTREF(i)) ? 2 : 0))
#if SU_QLEN > 0
#define SU_IF0(x) x
#define SU_AND0(x) && (x)
#define SU_PLUS0(x) + (x)
#else
#define SU_IF0(x)
#define SU_AND0(x)
#define SU_PLUS0(x)
#endif
#if SU_QLEN > 1
#define SU_IF1(x) x
#define SU_AND1(x) && (x)
#define SU_PLUS1(x) + (x)
#else
#define SU_IF1(x)
#define SU_AND1(x)
#define SU_PLUS1(x)
#endif
#if SU_QLEN > 2
#define SU_IF2(x) x
#define SU_AND2(x) && (x)
#define SU_PLUS2(x) + (x)
#else
#define SU_IF2(x)
#define SU_AND2(x)
#define SU_PLUS2(x)
#endif
#define SU_TOPIC_GONE(t, a, b) (FREED(t) && (OLD((t)->len) == 0 || FREED(OLD((t)->buf))) && !FREED(a) && !FREED(b))
#define SU_TOPIC_BLOCKS(t) ((size_t) 1 + (OLD((t)->len) > 0 ? 1 : 0))
static nng_err sub0_ctx_unsubscribe(sub0_ctx *ctx, const void *buf, size_t sz)
__CPROVER_requires(ctx == SU_C && VP_NO_LOCK_HELD && g_nc == 1 && SUB_TOPICS_ARE(ctx, g_nt, g_t0, g_t1, g_t2))
__CPROVER_requires(sz == 0 || __CPROVER_is_fresh(buf, sz))
/* BOUND of these units: ring position 0, SU_QLEN messages queued (every ring position is covered by modules/lmq) */
__CPROVER_requires(SUB_LMQ_PRE(SU_Q) && SU_Q->lmq_get == 0 && SU_Q->lmq_len == SU_QLEN && SUB_POLL_INV)
/* ghost equations: which topic goes, and which queued messages still match what remains */
__CPROVER_requires(g_r == vp_sub_find(g_nt, g_t0, g_t1, g_t2, (const uint8_t *) buf, sz))
__CPROVER_requires(1 SU_AND0(SU_MSG_PRE(0)) SU_AND1(SU_MSG_PRE(1)) SU_AND2(SU_MSG_PRE(2)))
__CPROVER_assigns(ctx->topics.ll_head, g_t0->node, g_t1->node, g_t2->node, SU_Q->lmq_put, SU_Q->lmq_get, SU_Q->lmq_len, __CPROVER_object_whole(SU_Q->lmq_msgs), VP_PROTO_GHOST_LIST, VP_SYNC_GHOSTS, g_free_calls)
SU_IF0(SU_MSG_ASSIGNS(0)) SU_IF1(SU_MSG_ASSIGNS(1)) SU_IF2(SU_MSG_ASSIGNS(2))
__CPROVER_frees(g_t0, g_t0->buf, g_t1, g_t1->buf, g_t2, g_t2->buf)
__CPROVER_ensures(VP_NO_LOCK_HELD && LMQ_WF_SCALAR(SU_Q) && SU_Q->lmq_cap == OLD(SU_Q->lmq_cap))
__CPROVER_ensures(RV == NNG_OK || RV == NNG_ENOENT)
/* no such subscription: NNG_ENOENT, nothing changes */
__CPROVER_ensures(g_r >= g_nt ==> (RV == NNG_ENOENT && SUB_TOPICS_ARE(ctx, g_nt, g_t0, g_t1, g_t2) && !FREED(g_t0) && !FREED(g_t1) && !FREED(g_t2) && SU_Q->lmq_len == SU_OLDLEN && SU_Q->lmq_get == OLD(SU_Q->lmq_get) && g_free_calls == OLD(g_free_calls) && g_pollr == OLD(g_pollr)
    SU_AND0(SU_MSG_SAME(0)) SU_AND1(SU_MSG_SAME(1)) SU_AND2(SU_MSG_SAME(2))))
/* found: exactly that topic leaves the list (the others keep their order) and is released once, with its bytes */
__CPROVER_ensures(g_r < g_nt ==> RV == NNG_OK)
__CPROVER_ensures((g_r < g_nt && g_r == 0) ==> (SU_TOPIC_GONE(g_t0, g_t1, g_t2) && SUB_TOPICS_ARE(ctx, g_nt - 1, g_t1, g_t2, g_t2)))
__CPROVER_ensures((g_r < g_nt && g_r == 1) ==> (SU_TOPIC_GONE(g_t1, g_t0, g_t2) && SUB_TOPICS_ARE(ctx, g_nt - 1, g_t0, g_t2, g_t2)))
__CPROVER_ensures((g_r < g_nt && g_r == 2) ==> (SU_TOPIC_GONE(g_t2, g_t0, g_t1) && SUB_TOPICS_ARE(ctx, g_nt - 1, g_t0, g_t1, g_t1)))
/* the queue is the order-preserving filter of the old queue */
__CPROVER_ensures(g_r < g_nt ==> (SU_Q->lmq_len == SU_RANK(SU_OLDLEN) SU_AND0(SU_MSG_POST(0)) SU_AND1(SU_MSG_POST(1)) SU_AND2(SU_MSG_POST(2))))
/* exactly-once release, counted in heap blocks: the topic (struct + bytes) and every dropped last reference (struct + buffer) */
__CPROVER_ensures((g_r < g_nt && g_r == 0) ==> g_free_calls == OLD(g_free_calls) + SU_TOPIC_BLOCKS(g_t0) SU_PLUS0(SU_MSG_FREES(0)) SU_PLUS1(SU_MSG_FREES(1)) SU_PLUS2(SU_MSG_FREES(2)))
__CPROVER_ensures((g_r < g_nt && g_r == 1) ==> g_free_calls == OLD(g_free_calls) + SU_TOPIC_BLOCKS(g_t1) SU_PLUS0(SU_MSG_FREES(0)) SU_PLUS1(SU_MSG_FREES(1)) SU_PLUS2(SU_MSG_FREES(2)))
__CPROVER_ensures((g_r < g_nt && g_r == 2) ==> g_free_calls == OLD(g_free_calls) + SU_TOPIC_BLOCKS(g_t2) SU_PLUS0(SU_MSG_FREES(0)) SU_PLUS1(SU_MSG_FREES(1)) SU_PLUS2(SU_MSG_FREES(2)))
/* nobody is completed, nothing is sent or closed */
__CPROVER_ensures(g_fin_calls == OLD(g_fin_calls) && g_pipe_close_calls == OLD(g_pipe_close_calls) && g_qa.n == OLD(g_qa.n))
/* C15 (D8): the receive descriptor mirrors "socket queue non-empty" */
__CPROVER_ensures(SUB_POLL_INV)
COVER(g_r < g_nt && SU_QLEN > 0 && !g_keep0) COVER(g_r < g_nt && SU_QLEN > 0 && g_keep0) COVER(g_r >= g_nt)
COVER(g_r < g_nt && SU_QLEN > 1 && !g_keep0 && g_keep1) COVER(g_r < g_nt && SU_QLEN > 0 && !g_keep0 && OLD(g_t0->len) > 2)
;

/* =====================================================================
 * C05: sub0_matches - SAME contract text as modules/sub/contracts.h (unit sub0_matches there); it is
 * enforced again in this module (units sub0_matches_c0 / _c1) because it REPLACES the calls made by
 * sub0_recv_cb below. */
#define SUB_ORACLE_OF(ctx, body, len)                                                                  \
	(SUB_IS_C0(ctx) ? vp_sub_oracle(g_nt, g_t0, g_t1, g_t2, (body), (len))                             \
	                : vp_sub_oracle(g_nu, g_u0, g_u1, g_u2, (body), (len)))
static bool sub0_matches(sub0_ctx *ctx, uint8_t *body, size_t len)
__CPROVER_requires(SUB_IS_C0(ctx) || (g_nc == 2 && ctx == g_c1))
__CPROVER_requires(SUB_IS_C0(ctx) ? SUB_TOPICS_ARE(ctx, g_nt, g_t0, g_t1, g_t2) : SUB_TOPICS_ARE(ctx, g_nu, g_u0, g_u1, g_u2))
__CPROVER_requires(len == 0 || __CPROVER_is_fresh(body, len))
__CPROVER_assigns()
__CPROVER_ensures(RV == SUB_ORACLE_OF(ctx, body, len))
/* spelled out: no subscription matches nothing, the empty subscription matches everything */
__CPROVER_ensures((SUB_IS_C0(ctx) && g_nt == 0) ==> !RV)
__CPROVER_ensures((SUB_IS_C0(ctx) && ((g_nt > 0 && g_t0->len == 0) || (g_nt > 1 && g_t1->len == 0) || (g_nt > 2 && g_t2->len == 0))) ==> RV)
;

/* =====================================================================
 * C05 / C15 / C03: arrival of a published message at a socket with TWO contexts (the socket's own and
 * one more).  Per context, independently of the other:
 *   takes it  <=>  ORACLE (some current topic of THAT context is a prefix of the body; ghosts g_m0/g_m1)
 *                  and not (queue full and prefer_new off);
 *   a taker gets its OWN private copy (one reference, same bytes, origin pipe recorded) - handed to the
 *   first waiting receiver, or appended, or (queue full, prefer_new) appended after the OLDEST entry was
 *   released: exactly one message leaves; a non-taker is untouched;
 *   the only excuse for a taker not getting its copy is an allocation failure of ITS copy (counted).
 * The arriving message itself is always released; the next receive is armed exactly once.
 * Case split by constants: SUB_CASE = which contexts match (bit 0: the socket's own, bit 1: the second);
 * SB_S0 / SB_S1 = state of a context: 1 receiver waiting (queue empty), 2 no receiver and room, 3 no
 * receiver and queue full (0 = not split). */
#ifdef SB2
#define SB_M   (g_pp->aio_recv.a_msg)
#define SB_C0  (&g_s->master)
#define SB_C1  g_c1
#define SB_LEN OLD(SB_M->m_body.ch_len)
#define SB_FULL_OLD(c) (OLD((c)->lmq.lmq_len) >= (c)->lmq.lmq_cap)
#define SB_TAKES(c, M) ((M) && !(SB_FULL_OLD(c) && !(c)->prefer_new))
/* stable state: receivers wait only while the queue is empty; the oldest entry (the one that may leave) is a real message holding a reference */
#define SB_CTX_PRE(c, Q)                                                                               \
	(SUB_LMQ_PRE(&(c)->lmq) && ((Q).n == 0 || (c)->lmq.lmq_len == 0) &&                                \
	    ((c)->lmq.lmq_len == 0 || SX_QUEUED_SCALAR(LMQ_VIEW(&(c)->lmq, 0))))
#define SB_STATE_IS(c, Q, S)                                                                           \
	((S) == 0 || ((S) == 1 ? (Q).n > 0 : ((Q).n == 0 && ((S) == 3) == ((c)->lmq.lmq_len >= (c)->lmq.lmq_cap))))
/* the scalars that change on EVERY kind of delivery (served receiver: Q.n; appended: len; rotated: get) */
#define SB_UNTOUCHED(c, Q) ((c)->lmq.lmq_len == OLD((c)->lmq.lmq_len) && (c)->lmq.lmq_get == OLD((c)->lmq.lmq_get) && (Q).n == OLD((Q).n))
#define SB_CTX_SAME(c, Q)                                                                              \
	(SB_UNTOUCHED(c, Q) && (g_j >= (c)->lmq.lmq_len || LMQ_VIEW(&(c)->lmq, g_j) == OLD(LMQ_VIEW(&(c)->lmq, g_j))))
#define SB_CTX_APPENDED(c, Q, D)                                                                       \
	((c)->lmq.lmq_len == OLD((c)->lmq.lmq_len) + 1 && (c)->lmq.lmq_get == OLD((c)->lmq.lmq_get) && (Q).n == OLD((Q).n) && \
	    LMQ_VIEW(&(c)->lmq, (c)->lmq.lmq_len - 1) == (D) &&                                            \
	    (g_j >= OLD((c)->lmq.lmq_len) || LMQ_VIEW(&(c)->lmq, g_j) == OLD(LMQ_VIEW(&(c)->lmq, g_j))))
#define SB_CTX_ROTATED(c, Q, D)                                                                        \
	((c)->lmq.lmq_len == OLD((c)->lmq.lmq_len) && (Q).n == OLD((Q).n) &&                               \
	    LMQ_VIEW(&(c)->lmq, (c)->lmq.lmq_len - 1) == (D) &&                                            \
	    (g_j + 1 >= (c)->lmq.lmq_len || g_j >= LMQ_MAXALLOC || LMQ_VIEW(&(c)->lmq, g_j) == OLD(LMQ_VIEW(&(c)->lmq, g_j + 1))))
#define SB_OLDEST(c) LMQ_VIEW(&(c)->lmq, 0)
#define SB_OLDEST_LASTREF(c) (OLD(SB_OLDEST(c)->m_refcnt.v) == 1)
#define SB_OLDEST_RELEASED(c)                                                                          \
	(SB_OLDEST_LASTREF(c) ? FREED(OLD(SB_OLDEST(c)))                                                   \
	    : (!FREED(OLD(SB_OLDEST(c))) && OLD(SB_OLDEST(c))->m_refcnt.v == OLD(SB_OLDEST(c)->m_refcnt.v) - 1))
/* D is a private copy of the arriving message */
#define SB_COPY_OK(D)                                                                                  \
	((D) != OLD(SB_M) && (D)->m_refcnt.v == 1 && (D)->m_header_len == 0 && (D)->m_pipe == g_pipe_id &&  \
	    (D)->m_body.ch_len == SB_LEN && (g_k >= SB_LEN || (D)->m_body.ch_ptr[g_k] == g_b))
#define SB_C0_DONE (g_qa.n + 1 == OLD(g_qa.n))
#define SB_C1_DONE (g_qb.n + 1 == OLD(g_qb.n))
#define SB_SLOT1 (SB_C0_DONE ? 1 : 0)
#define SB_NEWEST(c) LMQ_VIEW(&(c)->lmq, (c)->lmq.lmq_len - 1)
/* outcome for context c (wait queue Q, oracle value M, completion slot S) */
#define SB_CTX_OUTCOME(c, Q, M, S)                                                                     \
	(!SB_TAKES(c, M) ? SB_CTX_SAME(c, Q)                                                               \
	    : ((g_alloc_fail > OLD(g_alloc_fail) && SB_CTX_SAME(c, Q)) ||                                  \
	          (OLD((Q).n) > 0 ? ((Q).n == OLD((Q).n) - 1 && (c)->lmq.lmq_len == OLD((c)->lmq.lmq_len) && \
	                                g_cl_fin_aio[S] == OLD((Q).head) && g_cl_fin_rv[S] == 0 &&          \
	                                g_cl_fin_count[S] == SB_LEN && SB_COPY_OK(g_cl_fin_msg[S]))         \
	              : (!SB_FULL_OLD(c) ? (SB_CTX_APPENDED(c, Q, SB_NEWEST(c)) && SB_COPY_OK(SB_NEWEST(c))) \
	                                 : (SB_CTX_ROTATED(c, Q, SB_NEWEST(c)) && SB_COPY_OK(SB_NEWEST(c)) && SB_OLDEST_RELEASED(c))))))
/* taker that did not get its copy */
#define SB_MISSED(c, Q, M) ((SB_TAKES(c, M) && SB_UNTOUCHED(c, Q)) ? 1 : 0)
#define SB_CTX_ASSIGNS(c, Q)                                                                           \
__CPROVER_assigns((c)->lmq.lmq_put, (c)->lmq.lmq_get, (c)->lmq.lmq_len, __CPROVER_object_whole((c)->lmq.lmq_msgs)) \
__CPROVER_assigns((c)->lmq.lmq_len > 0: *SB_OLDEST(c))                                                  \
__CPROVER_assigns((Q).n > 0: (Q).head->a_msg, (Q).head->a_result, (Q).head->a_count)                    \
__CPROVER_frees((c)->lmq.lmq_len > 0: SB_OLDEST(c), SB_OLDEST(c)->m_body.ch_buf)
#ifndef SB_S0
#define SB_S0 0
#endif
#ifndef SB_S1
#define SB_S1 0
#endif
static void sub0_recv_cb(void *arg)
__CPROVER_requires(arg == g_pp && VP_NO_LOCK_HELD && g_nc == 2 && g_s->num_contexts == 2)
#ifdef SB_SMALL
/* BOUND: the arriving message is built by the harness (8-byte body buffer; headroom, length, bytes symbolic) and both rings are at position 0 */
__CPROVER_requires(g_pp->aio_recv.a_result == 0 && SB_M->m_header_len == 0 && SB_M->m_refcnt.v == 1 && SB_M->m_body.ch_cap == SX_BCAP && CH_FULL_SCALAR(&SB_M->m_body) && CH_GHOST_PRE(&SB_M->m_body))
__CPROVER_requires(SB_C0->lmq.lmq_get == 0 && SB_C1->lmq.lmq_get == 0)
#else
__CPROVER_requires(g_pp->aio_recv.a_result == 0 && SUB_WIRE_MSG(SB_M) && CH_GHOST_PRE(&SB_M->m_body))
#endif
__CPROVER_requires(SB_CTX_PRE(SB_C0, g_qa) && SB_CTX_PRE(SB_C1, g_qb) && SUB_POLL_INV)
__CPROVER_requires(VP_AIOQS_PRE && VP_AIO_NOT_QUEUED(&g_pp->aio_recv))
/* ghost equations: ORACLE value of the arriving body under EACH context's own topics */
__CPROVER_requires(g_m0 == vp_sub_oracle(g_nt, g_t0, g_t1, g_t2, SB_M->m_body.ch_ptr, SB_M->m_body.ch_len))
__CPROVER_requires(g_m1 == vp_sub_oracle(g_nu, g_u0, g_u1, g_u2, SB_M->m_body.ch_ptr, SB_M->m_body.ch_len))
/* case split (one unit per case; the cases are disjoint and, over all units, exhaustive) */
__CPROVER_requires(g_m0 == ((SUB_CASE & 1) != 0) && g_m1 == ((SUB_CASE & 2) != 0))
__CPROVER_requires(SB_STATE_IS(SB_C0, g_qa, SB_S0) && SB_STATE_IS(SB_C1, g_qb, SB_S1))
__CPROVER_assigns(g_pp->aio_recv.a_msg, *SB_M, VP_PROTO_GHOST_LIST, VP_SYNC_GHOSTS, g_free_calls, g_alloc_ok, g_alloc_fail, g_cl, g_cl_ran,
    __CPROVER_object_whole(g_cl_fin_aio), __CPROVER_object_whole(g_cl_fin_msg), __CPROVER_object_whole(g_cl_fin_rv), __CPROVER_object_whole(g_cl_fin_count))
SB_CTX_ASSIGNS(SB_C0, g_qa)
SB_CTX_ASSIGNS(SB_C1, g_qb)
__CPROVER_frees(SB_M, SB_M->m_body.ch_buf)
__CPROVER_ensures(VP_NO_LOCK_HELD && VP_AIOQS_OK && LMQ_WF_SCALAR(&SB_C0->lmq) && LMQ_WF_SCALAR(&SB_C1->lmq))
/* the next receive is armed exactly once, the peer stays connected (C15: the pipe is never blocked) */
__CPROVER_ensures(g_pipe_recv_calls == OLD(g_pipe_recv_calls) + 1 && g_pipe_recv_pipe == g_pp->pipe && g_pipe_recv_aio == &g_pp->aio_recv && g_pp->aio_recv.a_msg == NULL && g_pipe_close_calls == OLD(g_pipe_close_calls))
/* the arriving message itself is always released (every taker got a copy) */
__CPROVER_ensures(FREED(OLD(SB_M)) && FREED(OLD(SB_M->m_body.ch_buf)))
/* contexts filter independently */
__CPROVER_ensures(SB_CTX_OUTCOME(SB_C0, g_qa, g_m0, 0))
__CPROVER_ensures(SB_CTX_OUTCOME(SB_C1, g_qb, g_m1, SB_SLOT1))
/* a taker misses its copy only through an allocation failure of its own */
__CPROVER_ensures(g_alloc_fail == OLD(g_alloc_fail) + SB_MISSED(SB_C0, g_qa, g_m0) + SB_MISSED(SB_C1, g_qb, g_m1))
/* exactly the waiting receivers that were served are completed, after the lock is dropped */
__CPROVER_ensures(g_fin_calls == OLD(g_fin_calls) + (SB_C0_DONE ? 1 : 0) + (SB_C1_DONE ? 1 : 0))
/* C15: the receive descriptor mirrors the socket's own queue */
__CPROVER_ensures(SUB_POLL_INV)
COVER(SB_C0_DONE) COVER(SB_C1_DONE) COVER(SB_C0_DONE && SB_C1_DONE)
COVER(SB_TAKES(SB_C0, g_m0) && SB_UNTOUCHED(SB_C0, g_qa)) COVER(SB_TAKES(SB_C1, g_m1) && (SB_C1->lmq.lmq_get != OLD(SB_C1->lmq.lmq_get)))
COVER(SB_TAKES(SB_C0, g_m0) && SB_C0->lmq.lmq_len == OLD(SB_C0->lmq.lmq_len) + 1)
;
#endif

/* =====================================================================
 * Context life cycle, cancel, option setters.  The context under contract is the socket's own (default)
 * or the second one (-DSX_CTX1); both are on the socket's context list (g_nc == 2) unless said otherwise. */
#ifdef SX_CTX1
#define XC   g_c1
#define XQ   g_qb
#define XOQ  g_qa
#define XOC  (&g_s->master)
#define XNT  g_nu
#define XT0  g_u0
#define XT1  g_u1
#define XT2  g_u2
#define X_IS_MASTER 0
#else
#define XC   (&g_s->master)
#define XQ   g_qa
#define XOQ  g_qb
#define XOC  g_c1
#define XNT  g_nt
#define XT0  g_t0
#define XT1  g_t1
#define XT2  g_t2
#define X_IS_MASTER 1
#endif
#define SX_MAXWAIT 3 /* BOUND: blocked receivers of the context under contract (drain loop unwound) */
#define XL (&XC->lmq)
#define XV(i) LMQ_VIEW(XL, (i))
/* the context list of the socket is exactly (master, second) */
#define SX_CTXLIST2 (g_s->contexts.ll_offset == offsetof(sub0_ctx, node) && VP_LIST3_IS(&g_s->contexts.ll_head, 2, &g_s->master.node, &g_c1->node, &g_c1->node))
#define SX_OTHER_Q_SAME (XOQ.n == OLD(XOQ.n) && XOQ.head == OLD(XOQ.head))
#define SX_QUEUE_SAME (XL->lmq_len == OLD(XL->lmq_len) && XL->lmq_get == OLD(XL->lmq_get) && XL->lmq_cap == OLD(XL->lmq_cap))
#define SX_PIPES_SAME (g_pipe_recv_calls == OLD(g_pipe_recv_calls) && g_pipe_close_calls == OLD(g_pipe_close_calls))
nni_aio *g_ca;    /* sub0_ctx_cancel: the aio being cancelled (harness-built) */
int      g_which; /* sub0_ctx_cancel: 0 = aio is the first waiter, 1 = the last appended one, 2 = not waiting any more */

/* ---- C03/C15: sub0_ctx_close - every blocked receiver of THIS context fails with NNG_ECLOSED, once each;
 * the other context's receivers, the queued messages and the poll flag are untouched */
static void sub0_ctx_close(void *arg)
__CPROVER_requires(arg == XC && g_nc == 2 && VP_NO_LOCK_HELD && VP_AIOQS_PRE && XQ.n <= SX_MAXWAIT)
__CPROVER_assigns(VP_PROTO_GHOST_LIST, VP_SYNC_GHOSTS)
__CPROVER_ensures(VP_NO_LOCK_HELD && VP_AIOQS_OK && XQ.n == 0)
__CPROVER_ensures(g_fin_calls == OLD(g_fin_calls) + OLD(XQ.n) && (OLD(XQ.n) > 0 ==> (g_fin_last_rv == NNG_ECLOSED && g_fin_last_count == 0)))
__CPROVER_ensures(SX_OTHER_Q_SAME && SX_PIPES_SAME && g_pollr == OLD(g_pollr) && g_start_calls == OLD(g_start_calls))
COVER(OLD(XQ.n) == 3) COVER(OLD(XQ.n) == 0)
;
/* ---- sub0_sock_close = close of the socket's own context */
static void sub0_sock_close(void *arg)
__CPROVER_requires(arg == g_s && g_nc == 2 && VP_NO_LOCK_HELD && VP_AIOQS_PRE && g_qa.n <= SX_MAXWAIT)
__CPROVER_assigns(VP_PROTO_GHOST_LIST, VP_SYNC_GHOSTS)
__CPROVER_ensures(VP_NO_LOCK_HELD && VP_AIOQS_OK && g_qa.n == 0)
__CPROVER_ensures(g_fin_calls == OLD(g_fin_calls) + OLD(g_qa.n) && (OLD(g_qa.n) > 0 ==> (g_fin_last_rv == NNG_ECLOSED && g_fin_last_count == 0)))
/* receivers of other contexts are NOT completed by the protocol (the core closes contexts itself) */
__CPROVER_ensures(g_qb.n == OLD(g_qb.n) && g_qb.head == OLD(g_qb.head) && SX_PIPES_SAME && g_pollr == OLD(g_pollr))
;
/* ---- C03: sub0_ctx_cancel - completes the operation with the caller's error ONLY if it is still waiting
 * (single winner: an aio that was already served is not completed a second time and its message stays) */
#define SC_ON(q) ((q).n > 0 && ((q).head == aio || (q).tail == aio))
static void sub0_ctx_cancel(nng_aio *aio, void *arg, nng_err rv)
__CPROVER_requires(arg == XC && aio == g_ca && g_nc == 2 && VP_NO_LOCK_HELD && VP_AIOQS_OK && !SC_ON(XOQ))
/* ghost-queue model: the aio is the first waiter, the last appended waiter, or not queued at all */
__CPROVER_requires(g_which == 0 ? (XQ.n >= 1 && XQ.head == aio) : (g_which == 1 ? (XQ.n >= 2 && XQ.tail == aio && XQ.head != aio) : (g_which == 2 && !g_aio_active && !SC_ON(XQ))))
__CPROVER_assigns(VP_PROTO_GHOST_LIST, VP_SYNC_GHOSTS)
__CPROVER_ensures(VP_NO_LOCK_HELD && VP_AIOQS_OK)
__CPROVER_ensures(g_which != 2 ==> (XQ.n == OLD(XQ.n) - 1 && g_fin_calls == OLD(g_fin_calls) + 1 && g_fin_last == aio && g_fin_last_rv == (int) rv && g_fin_last_count == 0 && !SC_ON(XQ)))
__CPROVER_ensures(g_which == 2 ==> (XQ.n == OLD(XQ.n) && XQ.head == OLD(XQ.head) && g_fin_calls == OLD(g_fin_calls)))
__CPROVER_ensures(aio->a_msg == OLD(aio->a_msg) && SX_OTHER_Q_SAME && SX_PIPES_SAME && g_pollr == OLD(g_pollr) && g_start_calls == OLD(g_start_calls))
COVER(g_which == 0) COVER(g_which == 1) COVER(g_which == 2)
;

/* queued message i of the context under contract (constant count SQ_QLEN) */
#ifndef SQ_QLEN
#define SQ_QLEN 0
#endif
#if SQ_QLEN > 0
#define SQ_IF0(x) x
#define SQ_AND0(x) && (x)
#define SQ_PLUS0(x) + (x)
#else
#define SQ_IF0(x)
#define SQ_AND0(x)
#define SQ_PLUS0(x)
#endif
#if SQ_QLEN > 1
#define SQ_IF1(x) x
#define SQ_AND1(x) && (x)
#define SQ_PLUS1(x) + (x)
#else
#define SQ_IF1(x)
#define SQ_AND1(x)
#define SQ_PLUS1(x)
#endif
#if SQ_QLEN > 2
#define SQ_IF2(x) x
#define SQ_AND2(x) && (x)
#define SQ_PLUS2(x) + (x)
#else
#define SQ_IF2(x)
#define SQ_AND2(x)
#define SQ_PLUS2(x)
#endif
#define SQ_MSG_ASSIGNS(i) __CPROVER_assigns(*XV(i)) __CPROVER_frees(XV(i), XV(i)->m_body.ch_buf)
#define SQ_LASTREF(i) (OLD(XV(i)->m_refcnt.v) == 1)
/* old entry i lost exactly one reference (freed with its buffer iff it was the last) */
#define SQ_RELEASED(i) (SQ_LASTREF(i) ? (FREED(OLD(XV(i))) && FREED(OLD(XV(i)->m_body.ch_buf))) : (!FREED(OLD(XV(i))) && !FREED(OLD(XV(i)->m_body.ch_buf)) && OLD(XV(i))->m_refcnt.v == OLD(XV(i)->m_refcnt.v) - 1))
#define SQ_RELEASED_BLOCKS(i) ((size_t) (SQ_LASTREF(i) ? 2 : 0))
/* old entry i untouched (still owned by whoever owned it) */
#define SQ_INTACT(i) (!FREED(OLD(XV(i))) && !FREED(OLD(XV(i)->m_body.ch_buf)) && OLD(XV(i))->m_refcnt.v == OLD(XV(i)->m_refcnt.v) && OLD(XV(i))->m_body.ch_len == OLD(XV(i)->m_body.ch_len))
#define SQ_MSGS_PRE (1 SQ_AND0(SX_QUEUED_SCALAR(XV(0))) SQ_AND1(SX_QUEUED_SCALAR(XV(1))) SQ_AND2(SX_QUEUED_SCALAR(XV(2))))

/* ---- C03: sub0_ctx_fini - blocked receivers fail with NNG_ECLOSED; the context leaves the socket's list;
 * every topic (struct + bytes) and the ring are released exactly once; every queued message loses exactly
 * one reference.  Constants: SF_NT topics, SQ_QLEN queued messages. */
#define SF_TOPIC_POST(i, t) ((i) < XNT ? (FREED(t) && (OLD((t)->len) == 0 || FREED(OLD((t)->buf)))) : !FREED(t))
#define SF_TOPIC_BLOCKS(i, t) ((size_t) ((i) < XNT ? (1 + (OLD((t)->len) > 0 ? 1 : 0)) : 0))
static void sub0_ctx_fini(void *arg)
__CPROVER_requires(arg == XC && g_nc == 2 && VP_NO_LOCK_HELD && VP_AIOQS_PRE && XQ.n <= SX_MAXWAIT)
__CPROVER_requires(SUB_TOPICS_ARE(XC, XNT, XT0, XT1, XT2) && SX_CTXLIST2 && g_s->num_contexts == 2)
__CPROVER_requires(SUB_LMQ_PRE(XL) && XL->lmq_len == SQ_QLEN && SQ_MSGS_PRE)
__CPROVER_assigns(XC->topics.ll_head, XT0->node, XT1->node, XT2->node, g_s->contexts.ll_head, g_s->master.node, g_c1->node, g_s->num_contexts, XL->lmq_get, XL->lmq_len, VP_PROTO_GHOST_LIST, VP_SYNC_GHOSTS, g_free_calls)
SQ_IF0(SQ_MSG_ASSIGNS(0)) SQ_IF1(SQ_MSG_ASSIGNS(1)) SQ_IF2(SQ_MSG_ASSIGNS(2))
__CPROVER_frees(XT0, XT0->buf, XT1, XT1->buf, XT2, XT2->buf, XL->lmq_msgs)
__CPROVER_ensures(VP_NO_LOCK_HELD && VP_AIOQS_OK && XQ.n == 0)
__CPROVER_ensures(g_fin_calls == OLD(g_fin_calls) + OLD(XQ.n) && (OLD(XQ.n) > 0 ==> g_fin_last_rv == NNG_ECLOSED) && SX_OTHER_Q_SAME && SX_PIPES_SAME)
/* the other context stays on the list, alone */
__CPROVER_ensures(g_s->num_contexts == 1 && VP_LIST3_IS(&g_s->contexts.ll_head, 1, &XOC->node, &XOC->node, &XOC->node))
/* no subscription is left, each one was released exactly once */
__CPROVER_ensures(SUB_TOPICS_ARE(XC, 0, XT0, XT1, XT2) && SF_TOPIC_POST(0, XT0) && SF_TOPIC_POST(1, XT1) && SF_TOPIC_POST(2, XT2))
/* the queue is empty, its ring released, every message it held released once */
__CPROVER_ensures(XL->lmq_len == 0 && FREED(OLD(XL->lmq_msgs)) SQ_AND0(SQ_RELEASED(0)) SQ_AND1(SQ_RELEASED(1)) SQ_AND2(SQ_RELEASED(2)))
__CPROVER_ensures(g_free_calls == OLD(g_free_calls) + 1 + SF_TOPIC_BLOCKS(0, XT0) + SF_TOPIC_BLOCKS(1, XT1) + SF_TOPIC_BLOCKS(2, XT2) SQ_PLUS0(SQ_RELEASED_BLOCKS(0)) SQ_PLUS1(SQ_RELEASED_BLOCKS(1)) SQ_PLUS2(SQ_RELEASED_BLOCKS(2)))
COVER(OLD(XQ.n) == 2) COVER(XNT > 0 && OLD(XT0->len) > 0)
;

/* ---- C03/C20: sub0_ctx_init - a new context: empty queue of the socket's configured depth (2 if the ring
 * could not be allocated - never unusable), the socket's PREFNEW setting, no subscription ("matches nothing"),
 * appended to the socket's context list */
#define IC ((sub0_ctx *) ctx_arg)
static void sub0_ctx_init(void *ctx_arg, void *sock_arg)
__CPROVER_requires(sock_arg == g_s && g_nc == 1 && VP_NO_LOCK_HELD && __CPROVER_is_fresh(ctx_arg, sizeof(sub0_ctx)))
__CPROVER_requires(g_s->contexts.ll_offset == offsetof(sub0_ctx, node) && VP_LIST3_IS(&g_s->contexts.ll_head, 1, &g_s->master.node, &g_s->master.node, &g_s->master.node))
__CPROVER_requires(g_s->num_contexts >= 1 && g_s->num_contexts < 1000000 && g_s->recv_buf_len >= 1 && g_s->recv_buf_len <= 8192)
/* model artefact: the list dispatcher (modules/sub/lists_post.h) recognises aio wait lists by their member offset */
__CPROVER_requires(IC->topics.ll_offset != VP_AIO_OFF)
/* the context block comes zeroed from nni_zalloc (nni_ctx_open, nni_sock_create): its list node is inactive */
__CPROVER_requires(IC->node.ln_next == NULL && IC->node.ln_prev == NULL)
__CPROVER_assigns(*IC, g_s->contexts.ll_head, g_s->master.node, g_s->num_contexts, VP_SYNC_GHOSTS, g_free_calls, g_alloc_ok, g_alloc_fail)
__CPROVER_ensures(VP_NO_LOCK_HELD && IC->sock == g_s && IC->prefer_new == g_s->prefer_new)
__CPROVER_ensures(IC->topics.ll_offset == offsetof(sub0_topic, node) && IC->topics.ll_head.ln_next == &IC->topics.ll_head && IC->topics.ll_head.ln_prev == &IC->topics.ll_head)
__CPROVER_ensures(LMQ_WF_SCALAR(&IC->lmq) && LMQ_SHAPE_POST_FRESH(&IC->lmq) && IC->lmq.lmq_len == 0 && IC->lmq.lmq_cap >= 1)
__CPROVER_ensures(IC->lmq.lmq_cap == g_s->recv_buf_len || (g_s->recv_buf_len > 2 && IC->lmq.lmq_cap == 2 && g_alloc_fail == OLD(g_alloc_fail) + 1))
__CPROVER_ensures(IC->lmq.lmq_cap == g_s->recv_buf_len ==> g_alloc_fail == OLD(g_alloc_fail))
__CPROVER_ensures(g_alloc_ok == OLD(g_alloc_ok) + (IC->lmq.lmq_alloc > 0 ? 1 : 0) && g_free_calls == OLD(g_free_calls))
__CPROVER_ensures(g_s->num_contexts == OLD(g_s->num_contexts) + 1 && VP_LIST3_IS(&g_s->contexts.ll_head, 2, &g_s->master.node, &IC->node, &IC->node))
COVER(IC->lmq.lmq_cap == 8192) COVER(IC->lmq.lmq_cap == 2 && g_s->recv_buf_len == 100) COVER(IC->lmq.lmq_cap == 1)
;

/* ---- C05/C15/C03/C20: NNG_OPT_RECVBUF on a context - range 1..8192; the new depth takes effect on THIS
 * context's queue: the OLDEST min(len, depth) messages stay in order (src/core/lmq.c, modules/lmq), every
 * other one is released exactly once; out of memory / bad argument: nothing changes.  The socket's own
 * context also records the depth for contexts opened later.  The poll flag stays equal to "own queue non-empty". */
#define SQ_VAL (*(const int *) buf)
#define SQ_OKARG (t == NNI_TYPE_INT32 && SQ_VAL >= 1 && SQ_VAL <= 8192)
#define SQ_KEPT(i) (XV(i) == OLD(XV(i)) && SQ_INTACT(i))
#define SQ_RESIZED_MSG(i) ((size_t) (i) < (size_t) SQ_VAL ? SQ_KEPT(i) : SQ_RELEASED(i))
#define SQ_DROP_BLOCKS(i) ((size_t) ((size_t) (i) < (size_t) SQ_VAL ? 0 : SQ_RELEASED_BLOCKS(i)))
#define SQ_UNCHANGED_MSG(i) (XV(i) == OLD(XV(i)) && SQ_INTACT(i))
static nng_err sub0_ctx_set_recv_buf_len(void *arg, const void *buf, size_t sz, nni_type t)
__CPROVER_requires(arg == XC && g_nc == 2 && VP_NO_LOCK_HELD && (t == NNI_TYPE_INT32 ==> __CPROVER_is_fresh(buf, sizeof(int))))
__CPROVER_requires(SUB_LMQ_PRE(XL) && XL->lmq_len == SQ_QLEN && SQ_MSGS_PRE && SUB_POLL_INV && g_s->recv_buf_len >= 1 && g_s->recv_buf_len <= 8192)
__CPROVER_assigns(*XL, g_s->recv_buf_len, VP_SYNC_GHOSTS, g_free_calls, g_alloc_ok, g_alloc_fail)
SQ_IF0(SQ_MSG_ASSIGNS(0)) SQ_IF1(SQ_MSG_ASSIGNS(1)) SQ_IF2(SQ_MSG_ASSIGNS(2))
__CPROVER_frees(XL->lmq_msgs)
__CPROVER_ensures(VP_NO_LOCK_HELD && LMQ_WF_SCALAR(XL) && XL->lmq_cap >= 1 && g_s->recv_buf_len >= 1 && g_s->recv_buf_len <= 8192)
__CPROVER_ensures(RV == NNG_OK || RV == NNG_EBADTYPE || RV == NNG_EINVAL || RV == NNG_ENOMEM)
__CPROVER_ensures(t != NNI_TYPE_INT32 ==> RV == NNG_EBADTYPE)
__CPROVER_ensures((t == NNI_TYPE_INT32 && !SQ_OKARG) ==> RV == NNG_EINVAL)
__CPROVER_ensures(SQ_OKARG ==> (RV == NNG_OK || RV == NNG_ENOMEM))
__CPROVER_ensures(g_alloc_fail == OLD(g_alloc_fail) + (RV == NNG_ENOMEM ? 1 : 0))
/* refused: nothing changes, nothing is released */
__CPROVER_ensures(RV != NNG_OK ==> (SX_QUEUE_SAME && XL->lmq_alloc == OLD(XL->lmq_alloc) && XL->lmq_msgs == OLD(XL->lmq_msgs) && !FREED(OLD(XL->lmq_msgs)) && g_s->recv_buf_len == OLD(g_s->recv_buf_len) && g_free_calls == OLD(g_free_calls) && g_alloc_ok == OLD(g_alloc_ok)
    SQ_AND0(SQ_UNCHANGED_MSG(0)) SQ_AND1(SQ_UNCHANGED_MSG(1)) SQ_AND2(SQ_UNCHANGED_MSG(2))))
/* accepted */
__CPROVER_ensures(RV == NNG_OK ==> (XL->lmq_cap == (size_t) SQ_VAL && XL->lmq_len == VP_MIN((size_t) SQ_QLEN, (size_t) SQ_VAL) && __CPROVER_is_fresh(XL->lmq_msgs, XL->lmq_alloc * sizeof(nng_msg *)) && FREED(OLD(XL->lmq_msgs))))
__CPROVER_ensures(RV == NNG_OK ==> (1 SQ_AND0(SQ_RESIZED_MSG(0)) SQ_AND1(SQ_RESIZED_MSG(1)) SQ_AND2(SQ_RESIZED_MSG(2))))
__CPROVER_ensures(RV == NNG_OK ==> (g_alloc_ok == OLD(g_alloc_ok) + 1 && g_free_calls == OLD(g_free_calls) + 1 SQ_PLUS0(SQ_DROP_BLOCKS(0)) SQ_PLUS1(SQ_DROP_BLOCKS(1)) SQ_PLUS2(SQ_DROP_BLOCKS(2))))
__CPROVER_ensures(RV == NNG_OK ==> g_s->recv_buf_len == (X_IS_MASTER ? (size_t) SQ_VAL : OLD(g_s->recv_buf_len)))
/* C15: readable flag consistent */
__CPROVER_ensures(SUB_POLL_INV)
COVER(RV == NNG_OK && SQ_VAL == 8192) COVER(RV == NNG_OK && SQ_QLEN > 1 && SQ_VAL == 1) COVER(RV == NNG_ENOMEM) COVER(RV == NNG_EINVAL)
;

/* ---- C05: NNG_OPT_SUB_PREFNEW on a context: takes effect on THIS context; the socket's own context also
 * records it for contexts opened later; nothing else changes */
static nng_err sub0_ctx_set_prefer_new(void *arg, const void *buf, size_t sz, nni_type t)
__CPROVER_requires(arg == XC && g_nc == 2 && VP_NO_LOCK_HELD && (t == NNI_TYPE_BOOL ==> __CPROVER_is_fresh(buf, sizeof(bool))))
__CPROVER_assigns(XC->prefer_new, g_s->prefer_new, VP_SYNC_GHOSTS)
__CPROVER_ensures(VP_NO_LOCK_HELD)
__CPROVER_ensures(t != NNI_TYPE_BOOL ==> (RV == NNG_EBADTYPE && XC->prefer_new == OLD(XC->prefer_new) && g_s->prefer_new == OLD(g_s->prefer_new)))
__CPROVER_ensures(t == NNI_TYPE_BOOL ==> (RV == NNG_OK && XC->prefer_new == *(const bool *) buf && g_s->prefer_new == (X_IS_MASTER ? *(const bool *) buf : OLD(g_s->prefer_new))))
__CPROVER_ensures(XOC->prefer_new == OLD(XOC->prefer_new))
;

/* =====================================================================
 * sub.c: the remaining trivial entry points */
/* a SUB socket cannot send: fails at once with NNG_ENOTSUP, the message stays with the caller (C15/C03) */
#define SX_ENOTSUP_POST (g_fin_calls == OLD(g_fin_calls) + 1 && g_fin_last == aio && g_fin_last_rv == NNG_ENOTSUP && g_fin_last_count == 0 && aio->a_msg == OLD(aio->a_msg) && g_start_calls == OLD(g_start_calls) && g_pipe_send_calls == OLD(g_pipe_send_calls))
static void sub0_sock_send(void *arg, nni_aio *aio)
__CPROVER_requires(__CPROVER_is_fresh(aio, sizeof(nni_aio)))
__CPROVER_assigns(VP_PROTO_GHOST_LIST)
__CPROVER_ensures(SX_ENOTSUP_POST)
;
static void sub0_ctx_send(void *arg, nni_aio *aio)
__CPROVER_requires(__CPROVER_is_fresh(aio, sizeof(nni_aio)))
__CPROVER_assigns(VP_PROTO_GHOST_LIST)
__CPROVER_ensures(SX_ENOTSUP_POST)
;
/* only PUB peers are accepted; an accepted pipe gets its receive armed exactly once */
static int sub0_pipe_start(void *arg)
__CPROVER_requires(arg == g_pp)
__CPROVER_assigns(VP_PROTO_GHOST_LIST)
__CPROVER_ensures(g_pipe_peer != NNI_PROTO_PUB_V0 ==> (RV == NNG_EPROTO && g_pipe_recv_calls == OLD(g_pipe_recv_calls)))
__CPROVER_ensures(g_pipe_peer == NNI_PROTO_PUB_V0 ==> (RV == 0 && g_pipe_recv_calls == OLD(g_pipe_recv_calls) + 1 && g_pipe_recv_pipe == g_pp->pipe && g_pipe_recv_aio == &g_pp->aio_recv))
__CPROVER_ensures(g_pipe_close_calls == OLD(g_pipe_close_calls) && g_fin_calls == OLD(g_fin_calls))
;
static void sub0_pipe_close(void *arg)
__CPROVER_requires(arg == g_pp)
__CPROVER_assigns(VP_PROTO_GHOST_LIST)
__CPROVER_ensures(g_aio_close_calls == OLD(g_aio_close_calls) + 1 && g_pipe_recv_calls == OLD(g_pipe_recv_calls) && g_fin_calls == OLD(g_fin_calls))
;

/* =====================================================================
 * xsub.c (raw SUB: no filtering; every arriving message is offered to the socket's upper read queue) */
xsub0_pipe *g_xp;  /* the pipe (harness-built) */
xsub0_sock *g_xsk; /* its socket */
#define XM (g_xp->aio_recv.a_msg)
#define XS_LEN OLD(XM->m_body.ch_len)
#define XS_NOT_FREED (!FREED(OLD(XM)) && !FREED(OLD(XM->m_body.ch_buf)) && OLD(XM)->m_refcnt.v == 1 && OLD(XM)->m_pipe == g_pipe_id && OLD(XM)->m_header_len == 0 && OLD(XM)->m_body.ch_len == XS_LEN && (g_k >= XS_LEN || OLD(XM)->m_body.ch_ptr[g_k] == g_b) && g_free_calls == OLD(g_free_calls))
#define XS_FREED_ONCE (FREED(OLD(XM)) && FREED(OLD(XM->m_body.ch_buf)) && g_free_calls == OLD(g_free_calls) + 2)
#ifdef XS_RECV_FAILED
/* case A: the receive failed => the peer is disconnected, nothing else happens */
static void xsub0_recv_cb(void *arg)
__CPROVER_requires(arg == g_xp && VP_NO_LOCK_HELD && g_xp->aio_recv.a_result != 0)
__CPROVER_assigns(VP_PROTO_GHOST_LIST)
__CPROVER_ensures(VP_NO_LOCK_HELD && g_pipe_close_calls == OLD(g_pipe_close_calls) + 1 && g_pipe_close_last == g_xp->pipe && g_pipe_recv_calls == OLD(g_pipe_recv_calls) && g_fin_calls == OLD(g_fin_calls) && g_xs.tryput_calls == OLD(g_xs.tryput_calls))
;
#else
/* case B: a message arrived.  It is offered to the upper read queue exactly once, without waiting:
 *   queue closed -> released; a receiver waiting -> handed to it; buffer full -> DROPPED, released exactly
 *   once; room -> becomes the newest entry, untouched.  The pipe is never blocked: the next receive is armed
 *   exactly once in every case and the pipe is not closed. */
static void xsub0_recv_cb(void *arg)
__CPROVER_requires(arg == g_xp && VP_NO_LOCK_HELD && g_xp->aio_recv.a_result == 0 && g_xp->sub == g_xsk && g_xsk->urq == g_urq_addr)
__CPROVER_requires(SUB_WIRE_MSG(XM) && CH_GHOST_PRE(&XM->m_body))
__CPROVER_assigns(g_xp->aio_recv.a_msg, *XM, VP_PROTO_GHOST_LIST, VP_XS_GHOST_LIST, VP_SYNC_GHOSTS, g_free_calls)
__CPROVER_frees(XM, XM->m_body.ch_buf)
__CPROVER_ensures(VP_NO_LOCK_HELD && g_start_calls == OLD(g_start_calls) && g_fin_calls == OLD(g_fin_calls))
__CPROVER_ensures(g_xs.tryput_calls == OLD(g_xs.tryput_calls) + 1 && g_xs.tryput_q == g_urq_addr && g_xs.tryput_msg == OLD(XM))
__CPROVER_ensures(g_pipe_recv_calls == OLD(g_pipe_recv_calls) + 1 && g_pipe_recv_pipe == g_xp->pipe && g_pipe_recv_aio == &g_xp->aio_recv && g_xp->aio_recv.a_msg == NULL && g_pipe_close_calls == OLD(g_pipe_close_calls))
__CPROVER_ensures(g_urq_closed ==> (XS_FREED_ONCE && g_xs.urq_len == OLD(g_xs.urq_len) && g_xs.urq_readers == OLD(g_xs.urq_readers)))
__CPROVER_ensures((!g_urq_closed && OLD(g_xs.urq_readers) > 0) ==> (XS_NOT_FREED && g_xs.urq_handed == OLD(XM) && g_xs.urq_readers == OLD(g_xs.urq_readers) - 1 && g_xs.urq_len == OLD(g_xs.urq_len)))
__CPROVER_ensures((!g_urq_closed && OLD(g_xs.urq_readers) == 0 && OLD(g_xs.urq_len) >= g_urq_cap) ==> (XS_FREED_ONCE && g_xs.urq_len == OLD(g_xs.urq_len) && g_xs.urq_newest == OLD(g_xs.urq_newest)))
__CPROVER_ensures((!g_urq_closed && OLD(g_xs.urq_readers) == 0 && OLD(g_xs.urq_len) < g_urq_cap) ==> (XS_NOT_FREED && g_xs.urq_len == OLD(g_xs.urq_len) + 1 && g_xs.urq_newest == OLD(XM)))
COVER(g_urq_closed) COVER(!g_urq_closed && OLD(g_xs.urq_readers) > 0) COVER(!g_urq_closed && OLD(g_xs.urq_readers) == 0 && OLD(g_xs.urq_len) >= g_urq_cap) COVER(!g_urq_closed && OLD(g_xs.urq_readers) == 0 && OLD(g_xs.urq_len) < g_urq_cap)
;
#endif
static int xsub0_pipe_start(void *arg)
__CPROVER_requires(arg == g_xp)
__CPROVER_assigns(VP_PROTO_GHOST_LIST)
__CPROVER_ensures(g_pipe_peer != NNI_PROTO_PUB_V0 ==> (RV == NNG_EPROTO && g_pipe_recv_calls == OLD(g_pipe_recv_calls)))
__CPROVER_ensures(g_pipe_peer == NNI_PROTO_PUB_V0 ==> (RV == 0 && g_pipe_recv_calls == OLD(g_pipe_recv_calls) + 1 && g_pipe_recv_pipe == g_xp->pipe && g_pipe_recv_aio == &g_xp->aio_recv))
__CPROVER_ensures(g_pipe_close_calls == OLD(g_pipe_close_calls) && g_fin_calls == OLD(g_fin_calls))
;
static void xsub0_pipe_close(void *arg)
__CPROVER_requires(arg == g_xp)
__CPROVER_assigns(VP_PROTO_GHOST_LIST)
__CPROVER_ensures(g_aio_close_calls == OLD(g_aio_close_calls) + 1 && g_pipe_recv_calls == OLD(g_pipe_recv_calls) && g_fin_calls == OLD(g_fin_calls))
;
/* receive = the upper read queue's own receive (contract: modules/msgqueue unit nni_msgq_aio_get), once, same aio */
static void xsub0_sock_recv(void *arg, nni_aio *aio)
__CPROVER_requires(arg == g_xsk && g_xsk->urq == g_urq_addr)
__CPROVER_assigns(VP_XS_GHOST_LIST)
__CPROVER_ensures(g_xs.get_calls == OLD(g_xs.get_calls) + 1 && g_xs.get_q == g_urq_addr && g_xs.get_aio == aio && g_xs.tryput_calls == OLD(g_xs.tryput_calls) && g_xs.urq_len == OLD(g_xs.urq_len))
;
static void xsub0_sock_send(void *arg, nni_aio *aio)
__CPROVER_requires(__CPROVER_is_fresh(aio, sizeof(nni_aio)))
__CPROVER_assigns(VP_PROTO_GHOST_LIST)
__CPROVER_ensures(SX_ENOTSUP_POST)
;
/* clang-format on */
#endif
