/* modules/subx/env.h -- ASSUMED environment of module subx in addition to modules/sub (which see).
 * Ghost state only, no nng code.
 *   - the upper read queue of a raw socket (nni_msgq): nni_msgq_tryput modelled by the POSTCONDITIONS of its
 *     contract in modules/msgqueue (unit nni_msgq_tryput): closed -> NNG_ECLOSED; a reader waiting -> 0, the
 *     reader gets the message; otherwise NNG_EAGAIN exactly when the buffer holds cap messages, else 0 and
 *     the message is the newest entry.  Never blocks, never frees, never keeps a refused message.
 *   - nni_msgq_aio_get, nni_sock_recvq: ghost records.
 */
#if defined(VP_XS_GHOSTS) && !defined(VP_XS_GHOSTS_DONE)
#define VP_XS_GHOSTS_DONE
struct vp_xs_env {
	/* abstract state of the upper read queue */
	size_t   urq_len;      /* messages buffered */
	size_t   urq_readers;  /* receivers waiting */
	nni_msg *urq_newest;   /* last message accepted into the buffer */
	nni_msg *urq_handed;   /* last message handed to a waiting reader */
	size_t   tryput_calls;
	nni_msgq *tryput_q;
	nni_msg  *tryput_msg;
	int       tryput_rv;
	size_t   get_calls;
	nni_msgq *get_q;
	nni_aio  *get_aio;
} g_xs;
size_t g_urq_cap;    /* environment: depth of the upper read queue */
bool   g_urq_closed; /* environment: the queue was closed */
nni_msgq *g_urq_addr; /* the queue nni_sock_recvq hands out */
#define VP_XS_GHOST_LIST g_xs
#define VP_HAVOC_XS()                                                      \
	do {                                                                   \
		g_xs.urq_len = nondet_size_t(); g_xs.urq_readers = nondet_size_t(); g_xs.urq_newest = NULL; \
		g_xs.urq_handed = NULL; g_xs.tryput_calls = nondet_size_t(); g_xs.tryput_q = NULL; g_xs.tryput_msg = NULL; \
		g_xs.tryput_rv = nondet_int(); g_xs.get_calls = nondet_size_t(); g_xs.get_q = NULL; g_xs.get_aio = NULL; \
		g_urq_cap = nondet_size_t(); g_urq_closed = nondet_bool(); g_urq_addr = nondet_ptr(); \
		__CPROVER_assume(g_xs.urq_len < ((size_t) 1 << 40) && g_xs.urq_readers < ((size_t) 1 << 40) && \
		    g_xs.tryput_calls < ((size_t) 1 << 40) && g_xs.get_calls < ((size_t) 1 << 40)); \
	} while (0)
#endif

#if defined(VP_XS_STUBS) && !defined(VP_XS_STUBS_DONE)
#define VP_XS_STUBS_DONE
int nni_msgq_tryput(nni_msgq *mq, nni_msg *msg)
{
	int rv;
	__CPROVER_assert(VP_NO_LOCK_HELD, "nni_msgq_tryput takes the queue lock: called without a lock held (contract precondition)");
	g_xs.tryput_calls++;
	g_xs.tryput_q   = mq;
	g_xs.tryput_msg = msg;
	if (g_urq_closed) {
		rv = NNG_ECLOSED;
	} else if (g_xs.urq_readers > 0) {
		g_xs.urq_readers--;
		g_xs.urq_handed = msg;
		rv = 0;
	} else if (g_xs.urq_len >= g_urq_cap) {
		rv = NNG_EAGAIN;
	} else {
		g_xs.urq_len++;
		g_xs.urq_newest = msg;
		rv = 0;
	}
	g_xs.tryput_rv = rv;
	return (rv);
}
void nni_msgq_aio_get(nni_msgq *mq, nni_aio *aio)
{
	g_xs.get_calls++;
	g_xs.get_q   = mq;
	g_xs.get_aio = aio;
}
nni_msgq *nni_sock_recvq(nni_sock *s) { (void) s; return (g_urq_addr); }
#endif
