/* modules/subx/post.h -- included AFTER the real sources.  modules/sub/post.h brings the allocator,
 * lock, pipe/aio/pollable models, the nni_list_* dispatchers (real list code for topics and contexts,
 * ghost queues for aio wait lists), the deferred-completion model and the ghost names of the skeleton
 * (g_s, g_c1, g_pp, g_t*, g_u*) plus the C05 oracle. */
#include "modules/sub/post.h"
#define VP_XS_STUBS 1
#include "modules/subx/env.h"
