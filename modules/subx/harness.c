/* modules/subx/harness.c -- skeleton builders (real objects, real list code, everything else nondet)
 * and one entry per unit.  Same technique as modules/sub/harness.c; here the NUMBER of contexts, topics
 * and queued messages is a constant of the unit (selected by "defines"), see DESIGN section 9
 * "Constant case splits". */
#define VP_HAVOC_GHOSTS()                         \
	do {                                      \
		g_k = nondet_size_t(); g_j = nondet_size_t(); g_b = nondet_u8(); \
		g_hk = nondet_size_t(); g_u32 = nondet_u32(); g_hb = nondet_u8(); \
		g_free_calls = nondet_size_t(); g_alloc_ok = nondet_size_t(); g_alloc_fail = nondet_size_t(); \
		__CPROVER_assume(g_free_calls < ((size_t) 1 << 40) && g_alloc_ok < ((size_t) 1 << 40) && g_alloc_fail < ((size_t) 1 << 40)); \
		g_m0 = nondet_bool(); g_m1 = nondet_bool(); g_r = nondet_size_t(); \
		g_keep0 = nondet_bool(); g_keep1 = nondet_bool(); g_keep2 = nondet_bool(); g_keep3 = nondet_bool(); \
		VP_HAVOC_PROTO(); VP_HAVOC_SYNC(); VP_HAVOC_XS(); \
		g_pipe_close_last = NULL; g_pipe_recv_pipe = NULL; g_pipe_recv_aio = NULL; g_pipe_send_pipe = NULL; \
		g_pipe_send_aio = NULL; g_pipe_send_msg = NULL; g_fin_last = NULL; g_fin_last_msg = NULL; g_start_last = NULL; \
		g_qa.head = NULL; g_qa.tail = NULL; g_qb.head = NULL; g_qb.tail = NULL; g_last_app = NULL; \
		g_qa_addr = NULL; g_qb_addr = NULL; g_pollr_addr = NULL; g_pollw_addr = NULL; \
	} while (0)

/* typed allocation: a new heap object that always exists; contents nondeterministic */
#define VP_NEW(T) ((T *) __CPROVER_allocate(sizeof(T), 0))
static sub0_topic *vp_mk_topic(nni_list *l, bool on)
{
	sub0_topic *t   = VP_NEW(sub0_topic);
	t->node.ln_next = NULL;
	t->node.ln_prev = NULL;
	__CPROVER_assume(t->len <= SUB_MAXTOPIC);
	t->buf = NULL; /* NNI_ALLOC_STRUCT zeroes; a buffer exists only for len > 0 */
	if (t->len > 0) {
		t->buf = __CPROVER_allocate(t->len, 0);
	}
	if (on) {
		real_list_append(l, t);
	}
	return (t);
}
/* a real message object with an SX_BCAP-byte body buffer; data pointer somewhere inside it */
static struct nng_msg *vp_mk_msg(void)
{
	struct nng_msg *m = VP_NEW(struct nng_msg);
	size_t off        = nondet_size_t();
	__CPROVER_assume(off < SX_BCAP);
	m->m_body.ch_buf = (uint8_t *) __CPROVER_allocate(SX_BCAP, 0);
	m->m_body.ch_ptr = m->m_body.ch_buf + off;
	return (m);
}
static void vp_mk_ctx(sub0_ctx *c)
{
	c->sock         = g_s;
	c->node.ln_next = NULL;
	c->node.ln_prev = NULL;
	/* receive queue: a heap ring of SUB_QSLOTS slots, each holding a real message object */
	c->lmq.lmq_msgs = (nng_msg **) __CPROVER_allocate(SUB_QSLOTS * sizeof(nng_msg *), 0);
	c->lmq.lmq_msgs[0] = vp_mk_msg(); c->lmq.lmq_msgs[1] = vp_mk_msg();
	c->lmq.lmq_msgs[2] = vp_mk_msg(); c->lmq.lmq_msgs[3] = vp_mk_msg();
	c->recv_queue.ll_offset = VP_AIO_OFF; /* nni_aio_list_init */
	real_list_init_offset(&c->topics, offsetof(sub0_topic, node));
	real_list_append(&g_s->contexts, c);
}
/* socket with nc contexts; master has nt topics, the second context nu (all three CONSTANTS of the unit) */
static void vp_mk_sock(size_t nc, size_t nt, size_t nu)
{
	g_nc = nc; g_nt = nt; g_nu = nu;
	g_s  = VP_NEW(sub0_sock);
	real_list_init_offset(&g_s->contexts, offsetof(sub0_ctx, node));
	vp_mk_ctx(&g_s->master);
	g_t0 = vp_mk_topic(&g_s->master.topics, nt > 0);
	g_t1 = vp_mk_topic(&g_s->master.topics, nt > 1);
	g_t2 = vp_mk_topic(&g_s->master.topics, nt > 2);
	g_qa_addr = &g_s->master.recv_queue;
	g_qb_addr = NULL;
	g_pollr_addr = &g_s->readable;
	g_pollw_addr = NULL;
	g_c1 = NULL; g_u0 = NULL; g_u1 = NULL; g_u2 = NULL;
	if (nc == 2) {
		g_c1 = VP_NEW(sub0_ctx);
		vp_mk_ctx(g_c1);
		g_u0 = vp_mk_topic(&g_c1->topics, nu > 0);
		g_u1 = vp_mk_topic(&g_c1->topics, nu > 1);
		g_u2 = vp_mk_topic(&g_c1->topics, nu > 2);
		g_qb_addr = &g_c1->recv_queue;
	}
	g_pp       = VP_NEW(sub0_pipe);
	g_pp->sub  = g_s;
}
/* constant ring occupancy: len messages starting at slot 0 */
static void vp_set_ring(sub0_ctx *c, size_t len)
{
	c->lmq.lmq_alloc = SUB_QSLOTS;
	c->lmq.lmq_mask  = SUB_QSLOTS - 1;
	c->lmq.lmq_get   = 0;
	c->lmq.lmq_len   = len;
	c->lmq.lmq_put   = len & (SUB_QSLOTS - 1);
}

#ifndef SU_NT
#define SU_NT 1
#endif
#ifndef SU_QLEN
#define SU_QLEN 1
#endif
void h_sub0_ctx_unsubscribe(void)
{
	const void *buf; size_t sz;
	VP_HAVOC_GHOSTS();
	vp_mk_sock(1, SU_NT, 0);
	vp_set_ring(&g_s->master, SU_QLEN);
	sub0_ctx_unsubscribe(&g_s->master, buf, sz);
	VP_CANARY();
}

/* ---- sub0_matches (enforced here because its contract replaces calls in sub0_recv_cb) ---- */
static void vp_mk_sock_sym(size_t nc)
{
	size_t nt = nondet_size_t(), nu = nondet_size_t();
	__CPROVER_assume(nt <= 3 && nu <= 3);
	vp_mk_sock(nc, nt, nu);
}
#ifdef SUB_MATCH_C1
void h_sub0_matches(void) { uint8_t *body; size_t len; VP_HAVOC_GHOSTS(); vp_mk_sock_sym(2); sub0_matches(g_c1, body, len); VP_CANARY(); }
#else
void h_sub0_matches(void) { uint8_t *body; size_t len; VP_HAVOC_GHOSTS(); vp_mk_sock_sym(1); sub0_matches(&g_s->master, body, len); VP_CANARY(); }
#endif
/* ---- sub0_recv_cb, two contexts; ring geometry of both queues constant (4-slot heap ring), position and
 * occupancy symbolic ---- */
void h_sub0_recv_cb2(void)
{
	VP_HAVOC_GHOSTS(); vp_mk_sock_sym(2);
#ifdef SB_SMALL
	g_pp->aio_recv.a_msg = vp_mk_msg();
	g_s->master.lmq.lmq_alloc = SUB_QSLOTS; g_s->master.lmq.lmq_mask = SUB_QSLOTS - 1; g_s->master.lmq.lmq_get = 0;
	g_c1->lmq.lmq_alloc = SUB_QSLOTS; g_c1->lmq.lmq_mask = SUB_QSLOTS - 1; g_c1->lmq.lmq_get = 0;
#endif
	sub0_recv_cb(g_pp);
	VP_CANARY();
}

/* ---- context life cycle / cancel / options: two contexts on the list; the context under contract is
 * XC (the socket's own, or the second one with -DSX_CTX1) ---- */
#ifndef SF_NT
#define SF_NT 0
#endif
/* ring of 4 slots, constant occupancy, symbolic position (well-formedness comes from the contract's requires) */
static void vp_set_ring_len(sub0_ctx *c, size_t len)
{
	c->lmq.lmq_alloc = SUB_QSLOTS;
	c->lmq.lmq_mask  = SUB_QSLOTS - 1;
	c->lmq.lmq_len   = len;
}
static void vp_mk_two(size_t nt, size_t nu) { vp_mk_sock(2, nt, nu); }
void h_sub0_ctx_close(void) { VP_HAVOC_GHOSTS(); vp_mk_two(1, 1); sub0_ctx_close(XC); VP_CANARY(); }
void h_sub0_sock_close(void) { VP_HAVOC_GHOSTS(); vp_mk_two(1, 1); sub0_sock_close(g_s); VP_CANARY(); }
void h_sub0_ctx_cancel(void)
{
	nng_err rv;
	VP_HAVOC_GHOSTS(); vp_mk_two(1, 1);
	/* the wait list of the context: members are real aio objects built here; the cancelled aio is the
	 * first waiter, the last appended one, or not on the list */
	g_ca    = VP_NEW(nni_aio);
	XQ.head = nondet_bool() ? g_ca : VP_NEW(nni_aio);
	XQ.tail = nondet_bool() ? NULL : (nondet_bool() ? g_ca : (nondet_bool() ? XQ.head : VP_NEW(nni_aio)));
	g_last_app = nondet_bool() ? XQ.tail : NULL;
	if (XQ.n == 0) { XQ.head = NULL; XQ.tail = NULL; }
	XOQ.head = (XOQ.n == 0) ? NULL : VP_NEW(nni_aio);
	XOQ.tail = NULL;
	sub0_ctx_cancel(g_ca, XC, rv);
	VP_CANARY();
}
void h_sub0_ctx_fini(void)
{
	VP_HAVOC_GHOSTS();
#ifdef SX_CTX1
	vp_mk_two(1, SF_NT);
#else
	vp_mk_two(SF_NT, 1);
#endif
	vp_set_ring_len(XC, SQ_QLEN);
	sub0_ctx_fini(XC);
	VP_CANARY();
}
void h_sub0_ctx_init(void) { void *ctx; VP_HAVOC_GHOSTS(); vp_mk_sock(1, 1, 0); sub0_ctx_init(ctx, g_s); VP_CANARY(); }
void h_sub0_ctx_set_recv_buf_len(void)
{
	const void *buf; size_t sz; nni_type t;
	VP_HAVOC_GHOSTS(); vp_mk_two(1, 1);
	vp_set_ring_len(XC, SQ_QLEN);
	sub0_ctx_set_recv_buf_len(XC, buf, sz, t);
	VP_CANARY();
}
void h_sub0_ctx_set_prefer_new(void) { const void *buf; size_t sz; nni_type t; VP_HAVOC_GHOSTS(); vp_mk_two(1, 1); sub0_ctx_set_prefer_new(XC, buf, sz, t); VP_CANARY(); }

/* ---- trivial entry points of sub.c ---- */
void h_sub0_sock_send(void) { nni_aio *aio; VP_HAVOC_GHOSTS(); vp_mk_sock(1, 1, 0); sub0_sock_send(g_s, aio); VP_CANARY(); }
void h_sub0_ctx_send(void) { nni_aio *aio; VP_HAVOC_GHOSTS(); vp_mk_sock(1, 1, 0); sub0_ctx_send(&g_s->master, aio); VP_CANARY(); }
void h_sub0_pipe_start(void) { VP_HAVOC_GHOSTS(); vp_mk_sock(1, 1, 0); (void) sub0_pipe_start(g_pp); VP_CANARY(); }
void h_sub0_pipe_close(void) { VP_HAVOC_GHOSTS(); vp_mk_sock(1, 1, 0); sub0_pipe_close(g_pp); VP_CANARY(); }
/* ---- xsub.c ---- */
static void vp_mk_xsub(void)
{
	g_xsk      = VP_NEW(xsub0_sock);
	g_xsk->urq = g_urq_addr; /* opaque handle: only ever passed to the nni_msgq_* models */
	g_xp       = VP_NEW(xsub0_pipe);
	g_xp->sub  = g_xsk;
}
void h_xsub0_recv_cb(void) { VP_HAVOC_GHOSTS(); vp_mk_xsub(); xsub0_recv_cb(g_xp); VP_CANARY(); }
void h_xsub0_pipe_start(void) { VP_HAVOC_GHOSTS(); vp_mk_xsub(); (void) xsub0_pipe_start(g_xp); VP_CANARY(); }
void h_xsub0_pipe_close(void) { VP_HAVOC_GHOSTS(); vp_mk_xsub(); xsub0_pipe_close(g_xp); VP_CANARY(); }
void h_xsub0_sock_recv(void) { nni_aio *aio; VP_HAVOC_GHOSTS(); vp_mk_xsub(); xsub0_sock_recv(g_xsk, aio); VP_CANARY(); }
void h_xsub0_sock_send(void) { nni_aio *aio; VP_HAVOC_GHOSTS(); vp_mk_xsub(); xsub0_sock_send(g_xsk, aio); VP_CANARY(); }
