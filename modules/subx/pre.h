/* modules/subx/pre.h -- included BEFORE the real sources of the subx TU.
 * Everything of modules/sub is reused unchanged (env_proto ghosts, memcpy over-approximation,
 * message/lmq spec macros, the real list.c under the names real_list_*, sub spec macros). */
#include "modules/sub/pre.h"
#include "modules/subx/spec.h"
#define VP_XS_GHOSTS 1
#include "modules/subx/env.h"
