/* No function contracts: the units of this module are lemma harnesses over
 * the real functions (bounded input sizes), see harness.c. */
