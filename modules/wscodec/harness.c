#ifndef B64_N
#define B64_N 6
#endif
#define B64_OUT (B64_LEN(B64_N) + 1)

/* RFC 4648: encoding n bytes gives exactly 4*ceil(n/3) characters of the
 * alphabet / padding, NUL terminated; decoding that gives the n bytes back. */
void
h_b64_roundtrip(void)
{
	uint8_t in[B64_N], back[B64_N];
	char    out[B64_OUT];
	size_t  n = nondet_size_t(), r, d;
	__CPROVER_assume(n <= B64_N);
	r = nni_base64_encode(in, n, out, sizeof(out));
	__CPROVER_assert(r == B64_LEN(n), "b64: encoded length is 4*ceil(n/3)");
	__CPROVER_assert(out[r] == '\0', "b64: encoded text is NUL terminated");
	for (size_t i = 0; i < B64_OUT - 1; i++) {
		if (i < r) {
			__CPROVER_assert(B64_ALPHA(out[i]) || (out[i] == '=' && i + 2 >= r && n % 3 != 0), "b64: alphabet, padding only in the last two places");
		}
	}
	d = nni_base64_decode(out, r, back, sizeof(back));
	__CPROVER_assert(d == n, "b64: decode(encode(x)) has the length of x");
	for (size_t i = 0; i < B64_N; i++) {
		if (i < n) {
			__CPROVER_assert(back[i] == in[i], "b64: decode(encode(x)) == x");
		}
	}
	VP_CANARY();
}

/* the encoder refuses (returns (size_t)-1) exactly when text + NUL do not fit,
 * and never writes outside out[0..out_len) (bounds checks of this run) */
void
h_b64_encode_bounds(void)
{
	uint8_t in[B64_N];
	size_t  n = nondet_size_t(), ol = nondet_size_t(), r;
	__CPROVER_assume(n <= B64_N && ol <= B64_OUT + 2);
	char *out = malloc(ol);
	__CPROVER_assume(out != NULL || ol == 0);
	r = nni_base64_encode(in, n, out, ol);
	__CPROVER_assert((r == (size_t) -1) == (ol < B64_LEN(n) + 1), "b64: refuses exactly when text + NUL do not fit");
	__CPROVER_assert(r == (size_t) -1 || r == B64_LEN(n), "b64: encoded length");
	VP_CANARY();
}

/* the decoder is memory safe for ALL byte values and never writes outside
 * out[0..out_len) */
void
h_b64_decode_safe(void)
{
	char    in[B64_N];
	size_t  n = nondet_size_t(), ol = nondet_size_t(), r;
	__CPROVER_assume(n <= B64_N && ol <= B64_N);
	uint8_t *out = malloc(ol);
	__CPROVER_assume(out != NULL || ol == 0);
	r = nni_base64_decode(in, n, out, ol);
	__CPROVER_assert(r == (size_t) -1 || r <= ol, "b64: decoded length within the output buffer");
	VP_CANARY();
}
