/* base64.c calls nothing but isspace. */
