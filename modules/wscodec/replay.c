/* Native replay driver for src/supplemental/websocket/base64.c: rebuilds the
 * inputs of a CBMC counterexample of the three lemma harnesses (entry snapshots
 * vp_arg_enc_* / vp_in_enc* and vp_arg_dec_* / vp_in_dec*, woven at the entry of
 * nni_base64_encode / nni_base64_decode), runs the REAL functions under
 * ASan/UBSan on heap buffers of EXACTLY the stated sizes and evaluates the same
 * assertions as modules/wscodec/harness.c (RFC 4648 section 4) in plain C. */
#include "vp_native.h"
#include "modules/wscodec/spec.h"
#include "supplemental/websocket/base64.c" /* the real file, via -I/repo/src */

#define LIM ((size_t) 1 << 20)
#define SNAP_NB 12

static uint8_t *
input(const char *tag, size_t n)
{
	uint8_t *in = malloc(n ? n : 1); /* exact size: ASan sees over-reads */
	for (size_t i = 0; i < n; i++) {
		char key[32];
		snprintf(key, sizeof(key), "vp_in_%s%zu", tag, i);
		in[i] = (uint8_t) vp_u64(key, (uint8_t) (0x41 + i));
	}
	return in;
}

static void
show(const char *tag, const uint8_t *b, size_t n)
{
	printf("%s %zu bytes:", tag, n);
	for (size_t i = 0; i < n && i < 32; i++)
		printf(" %02x", b[i]);
	printf("\n");
}

/* RFC 4648: n bytes -> 4*ceil(n/3) characters + NUL; decode gives them back */
static void
roundtrip(const uint8_t *in, size_t n)
{
	size_t   cap  = B64_LEN(n) + 1;
	char    *out  = malloc(cap);
	uint8_t *back = malloc(n ? n : 1);
	size_t   r    = nni_base64_encode(in, n, out, cap);
	printf("nni_base64_encode(%zu bytes, room %zu) -> %zd", n, cap, (ssize_t) r);
	VP_EXPECT(r == B64_LEN(n));
	if (r == B64_LEN(n)) {
		printf(" \"%.*s\"\n", (int) r, out);
		VP_EXPECT(out[r] == '\0');
		for (size_t i = 0; i < r; i++)
			VP_EXPECT(B64_ALPHA(out[i]) || (out[i] == '=' && i + 2 >= r && n % 3 != 0));
		size_t d = nni_base64_decode(out, r, back, n);
		printf("nni_base64_decode(that text, room %zu) -> %zd\n", n, (ssize_t) d);
		VP_EXPECT(d == n);
		if (d == n)
			VP_EXPECT(memcmp(back, in, n) == 0);
		if (d == n && memcmp(back, in, n) != 0)
			show("  decoded", back, n);
	} else {
		printf("\n");
	}
	free(out);
	free(back);
}

int
main(int argc, char **argv)
{
	if (argc < 3) {
		fprintf(stderr, "usage: replay <inputs> <unit>\n");
		return 2;
	}
	vp_load(argv[1]);
	const char *fn = argv[2];
	if (strcmp(fn, "b64_roundtrip") == 0) {
		size_t n = (size_t) vp_u64("vp_arg_enc_in_len", 0);
		if (!vp_has("vp_arg_enc_in_len") || n > SNAP_NB) {
			printf("REPLAY-RESULT: skipped (no usable entry snapshot)\n");
			return 3;
		}
		uint8_t *in = input("enc", n);
		show("input", in, n);
		roundtrip(in, n);
		free(in);
	} else if (strcmp(fn, "b64_encode_bounds") == 0) {
		size_t n = (size_t) vp_u64("vp_arg_enc_in_len", 0), ol = (size_t) vp_u64("vp_arg_enc_out_len", 0);
		if (!vp_has("vp_arg_enc_in_len") || n > SNAP_NB || ol > LIM) {
			printf("REPLAY-RESULT: skipped (no usable entry snapshot)\n");
			return 3;
		}
		uint8_t *in  = input("enc", n);
		char    *out = malloc(ol ? ol : 1); /* ol == 0: a 1-byte block nothing may touch */
		if (ol == 0)
			out[0] = 0x55;
		show("input", in, n);
		size_t r = nni_base64_encode(in, n, ol ? out : out + 1, ol);
		printf("nni_base64_encode(%zu bytes, room %zu) -> %zd (text + NUL need %zu)\n", n, ol, (ssize_t) r, (size_t) B64_LEN(n) + 1);
		VP_EXPECT((r == (size_t) -1) == (ol < B64_LEN(n) + 1));
		VP_EXPECT(r == (size_t) -1 || r == B64_LEN(n));
		free(out);
		free(in);
	} else if (strcmp(fn, "b64_decode_safe") == 0) {
		size_t n = (size_t) vp_u64("vp_arg_dec_in_len", 0), ol = (size_t) vp_u64("vp_arg_dec_out_len", 0);
		if (!vp_has("vp_arg_dec_in_len") || n > SNAP_NB || ol > LIM) {
			printf("REPLAY-RESULT: skipped (no usable entry snapshot)\n");
			return 3;
		}
		uint8_t *in  = input("dec", n);
		uint8_t *out = malloc(ol ? ol : 1);
		show("input characters", in, n);
		size_t r = nni_base64_decode((const char *) in, n, ol ? out : out + 1, ol);
		printf("nni_base64_decode(%zu characters, room %zu) -> %zd\n", n, ol, (ssize_t) r);
		VP_EXPECT(r == (size_t) -1 || r <= ol);
		free(out);
		free(in);
	} else {
		printf("REPLAY-RESULT: skipped (no native driver for %s)\n", fn);
		return 3;
	}
	VP_DONE();
}
