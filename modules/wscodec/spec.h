/* Spec helpers for src/supplemental/websocket/base64.c (RFC 4648 section 4).
 * isspace: glibc's locale-table macro dropped, CBMC's C-locale model of the
 * FUNCTION is used (ASSUMED: "C" locale). */
#ifndef VP_WSCODEC_SPEC_H
#define VP_WSCODEC_SPEC_H
#include <ctype.h>
#ifdef VP_CBMC
#undef isspace
#endif
#define B64_LEN(n) (4 * (((n) + 2) / 3))
#define B64_ALPHA(c) (((c) >= 'A' && (c) <= 'Z') || ((c) >= 'a' && (c) <= 'z') || ((c) >= '0' && (c) <= '9') || (c) == '+' || (c) == '/')

/* ---- entry snapshots of nni_base64_encode / nni_base64_decode for the native replay
 * driver (modules/wscodec/replay.c): the lengths and the first 12 input bytes as plain
 * locals woven at function entry, read by vp/replay.py from counterexample traces.
 * CBMC's per-dereference checks are switched off inside the snapshot so that it adds no
 * proof obligations (every read is guarded by i < in_len). */
#define VP_SNAP_BEGIN                                                              \
	_Pragma("CPROVER check push") _Pragma("CPROVER check disable \"pointer\"")   \
	_Pragma("CPROVER check disable \"bounds\"")                                  \
	_Pragma("CPROVER check disable \"pointer-primitive\"")                       \
	_Pragma("CPROVER check disable \"pointer-overflow\"")
#define VP_SNAP_END _Pragma("CPROVER check pop")
#define VP_SNAP_B64_B(t, i) uint8_t vp_in_##t##i = ((size_t) (i) < in_len) ? (uint8_t) in[i] : (uint8_t) 0
#define VP_SNAP_B64(t)                                                             \
	VP_SNAP_BEGIN                                                                  \
	size_t vp_arg_##t##_in_len = in_len, vp_arg_##t##_out_len = out_len;           \
	VP_SNAP_B64_B(t, 0); VP_SNAP_B64_B(t, 1); VP_SNAP_B64_B(t, 2); VP_SNAP_B64_B(t, 3); \
	VP_SNAP_B64_B(t, 4); VP_SNAP_B64_B(t, 5); VP_SNAP_B64_B(t, 6); VP_SNAP_B64_B(t, 7); \
	VP_SNAP_B64_B(t, 8); VP_SNAP_B64_B(t, 9); VP_SNAP_B64_B(t, 10); VP_SNAP_B64_B(t, 11); \
	VP_SNAP_END
#endif
