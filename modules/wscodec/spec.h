/* Spec helpers for src/supplemental/websocket/base64.c (RFC 4648 section 4).
 * isspace: glibc's locale-table macro dropped, CBMC's C-locale model of the
 * FUNCTION is used (ASSUMED: "C" locale). */
#ifndef VP_WSCODEC_SPEC_H
#define VP_WSCODEC_SPEC_H
#include <ctype.h>
#ifdef VP_CBMC
#undef isspace
#endif
#define B64_LEN(n) (4 * (((n) + 2) / 3))
#define B64_ALPHA(c) (((c) >= 'A' && (c) <= 'Z') || ((c) >= 'a' && (c) <= 'z') || ((c) >= '0' && (c) <= '9') || (c) == '+' || (c) == '/')
#endif
