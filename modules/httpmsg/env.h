/* Environment of http_msg.c for the units of this module: http_scan_line
 * calls nothing.  Every other function of the file (and everything those
 * call) is outside the units and has no stub. */
