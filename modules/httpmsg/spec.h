/* Spec macros and module-local ghosts for the HTTP line scanner in
 * src/supplemental/http/http_msg.c (no nng code).
 *
 * Source: RFC 7230 section 3 (start-line and header-field are lines ended by
 * CRLF; a recipient MAY accept a bare LF as terminator; a bare CR, i.e. a CR
 * not followed by LF, is invalid, section 3.5) and property C16 (the scanner is
 * incremental: NNG_EAGAIN asks for more data and leaves the buffer alone, so
 * re-scanning the grown buffer gives the same answer however the bytes arrived).
 */
#ifndef VP_HTTPMSG_SPEC_H
#define VP_HTTPMSG_SPEC_H
size_t g_exit; /* http_scan_line: value of the scan index at return (woven before every return) */

/* control bytes other than the two line-terminator bytes */
#define SL_CTL(b) ((uint8_t) (b) < 0x20 && (uint8_t) (b) != '\r' && (uint8_t) (b) != '\n')
#endif
