/* Spec macros and module-local ghosts for the HTTP line scanner in
 * src/supplemental/http/http_msg.c (no nng code).
 *
 * Source: RFC 7230 section 3 (start-line and header-field are lines ended by
 * CRLF; a recipient MAY accept a bare LF as terminator; a bare CR, i.e. a CR
 * not followed by LF, is invalid, section 3.5) and property C16 (the scanner is
 * incremental: NNG_EAGAIN asks for more data and leaves the buffer alone, so
 * re-scanning the grown buffer gives the same answer however the bytes arrived).
 */
#ifndef VP_HTTPMSG_SPEC_H
#define VP_HTTPMSG_SPEC_H
size_t g_exit; /* http_scan_line: value of the scan index at return (woven before every return) */

/* control bytes other than the two line-terminator bytes */
#define SL_CTL(b) ((uint8_t) (b) < 0x20 && (uint8_t) (b) != '\r' && (uint8_t) (b) != '\n')

/* ---- entry snapshot of http_scan_line for the native replay driver
 * (modules/httpmsg/replay.c): n and the first 32 buffer bytes, as plain locals
 * woven at function entry and read by vp/replay.py from counterexample traces.
 * CBMC's per-dereference checks are switched off inside the snapshot so that it
 * adds no proof obligations (every read is guarded by i < n). */
#define VP_SNAP_BEGIN                                                              \
	_Pragma("CPROVER check push") _Pragma("CPROVER check disable \"pointer\"")   \
	_Pragma("CPROVER check disable \"bounds\"")                                  \
	_Pragma("CPROVER check disable \"pointer-primitive\"")                       \
	_Pragma("CPROVER check disable \"pointer-overflow\"")
#define VP_SNAP_END _Pragma("CPROVER check pop")
#define VP_SNAP_NB 32
#define VP_SNAP_B(i) uint8_t vp_in_b##i = ((size_t) (i) < n) ? ((uint8_t *) vbuf)[i] : (uint8_t) 0
#define VP_SNAP_SCAN()                                                             \
	VP_SNAP_BEGIN                                                                  \
	size_t vp_arg_n = n;                                                           \
	VP_SNAP_B(0); VP_SNAP_B(1); VP_SNAP_B(2); VP_SNAP_B(3); VP_SNAP_B(4); VP_SNAP_B(5); VP_SNAP_B(6); VP_SNAP_B(7); \
	VP_SNAP_B(8); VP_SNAP_B(9); VP_SNAP_B(10); VP_SNAP_B(11); VP_SNAP_B(12); VP_SNAP_B(13); VP_SNAP_B(14); VP_SNAP_B(15); \
	VP_SNAP_B(16); VP_SNAP_B(17); VP_SNAP_B(18); VP_SNAP_B(19); VP_SNAP_B(20); VP_SNAP_B(21); VP_SNAP_B(22); VP_SNAP_B(23); \
	VP_SNAP_B(24); VP_SNAP_B(25); VP_SNAP_B(26); VP_SNAP_B(27); VP_SNAP_B(28); VP_SNAP_B(29); VP_SNAP_B(30); VP_SNAP_B(31); \
	VP_SNAP_END
#endif
