/* Native replay driver for http_scan_line (src/supplemental/http/http_msg.c):
 * rebuilds the receive buffer a CBMC counterexample describes (entry snapshot
 * vp_arg_n, vp_in_b0..31 woven at function entry), runs the REAL function under
 * ASan/UBSan on a heap buffer of EXACTLY n bytes (so that a look-ahead past the
 * received data is reported) and evaluates the postconditions of
 * modules/httpmsg/contracts.h in plain C, for every index instead of the ghost
 * indices g_k / g_hk.  The ghost g_exit ("first offending byte") is computed by
 * a reference scan that follows the contract's prose. */
#include "vp_native.h"
#include "core/nng_impl.h"
#include "supplemental/http/http_api.h"
size_t g_exit; /* named by spec.h only */
#include "modules/httpmsg/spec.h"

/* ---- everything else http_msg.c refers to: unreachable from http_scan_line */
#define VP_UNREACH(name)                                                          \
	do {                                                                          \
		printf("REPLAY-FAIL: %s reached (outside the replayed function)\n", name); \
		exit(1);                                                                  \
	} while (0)
void           *nni_zalloc(size_t sz) { return (sz > 0 ? calloc(1, sz) : NULL); }
void            nni_free(void *p, size_t sz) { (void) sz; free(p); }
void            nni_strfree(char *s) { free(s); }
nng_err         nni_url_canonify_uri(char *s) { (void) s; VP_UNREACH("nni_url_canonify_uri"); }
nni_http_req   *nni_http_conn_req(nni_http_conn *c) { (void) c; VP_UNREACH("nni_http_conn_req"); }
nni_http_res   *nni_http_conn_res(nni_http_conn *c) { (void) c; VP_UNREACH("nni_http_conn_res"); }
nng_err         nni_http_add_header(nng_http *c, const char *k, const char *v) { (void) c; (void) k; (void) v; VP_UNREACH("nni_http_add_header"); }
int             nni_http_set_version(nng_http *c, const char *v) { (void) c; (void) v; VP_UNREACH("nni_http_set_version"); }
void            nni_http_set_method(nng_http *c, const char *m) { (void) c; (void) m; VP_UNREACH("nni_http_set_method"); }
void            nni_http_set_status(nng_http *c, nng_http_status s, const char *r) { (void) c; (void) s; (void) r; VP_UNREACH("nni_http_set_status"); }
nng_http_status nni_http_get_status(nng_http *c) { (void) c; VP_UNREACH("nni_http_get_status"); }
nng_err         nni_http_set_uri(nng_http *c, const char *u, const char *q) { (void) c; (void) u; (void) q; VP_UNREACH("nni_http_set_uri"); }
void           *nni_list_first(const nni_list *l) { (void) l; VP_UNREACH("nni_list_first"); }
void            nni_list_init_offset(nni_list *l, size_t o) { (void) l; (void) o; VP_UNREACH("nni_list_init_offset"); }
void            nni_list_node_remove(nni_list_node *n) { (void) n; VP_UNREACH("nni_list_node_remove"); }

#include "supplemental/http/http_msg.c" /* the real file, via -I/repo/src */

#define NMAX ((size_t) 1 << 20)

static void
show(const char *tag, const uint8_t *b, size_t n)
{
	printf("%s %zu bytes \"", tag, n);
	for (size_t i = 0; i < n && i < 64; i++) {
		if (b[i] == '\r')
			printf("\\r");
		else if (b[i] == '\n')
			printf("\\n");
		else if (b[i] >= 0x20 && b[i] < 0x7f && b[i] != '"' && b[i] != '\\')
			printf("%c", b[i]);
		else
			printf("\\x%02X", b[i]);
	}
	printf("%s\"\n", n > 64 ? "..." : "");
}

/* what is running, for the sanitizer report (hook called by ASan before it prints) */
static char vp_ctx[160];
void
__asan_on_error(void)
{
	printf("REPLAY-FAIL: memory error inside %s\n", vp_ctx);
	fflush(stdout);
}

/* one run of the real function on the first n bytes of b0, full contract evaluated */
static void
scan_one(const uint8_t *b0, size_t n, bool is_cex)
{
	/* working copy of EXACTLY n bytes (1 byte when n == 0, as in the contract) */
	uint8_t *buf = malloc(n ? n : 1);
	buf[0]       = 0x55;
	memcpy(buf, b0, n);

	/* reference scan (contract prose): first LF, or e = first offending byte (a control
	 * byte other than CR/LF, or any byte other than LF right after a CR) before it */
	size_t  e;
	nng_err want = NNG_EAGAIN;
	for (e = 0; e < n; e++) {
		if (b0[e] == '\n') {
			want = 0;
			break;
		}
		if (SL_CTL(b0[e]) || (e > 0 && b0[e - 1] == '\r')) {
			want = NNG_EPROTO;
			break;
		}
	}
	int before = vp_fail_count;
	if (is_cex)
		show("counterexample buffer:", b0, n);
	snprintf(vp_ctx, sizeof(vp_ctx), "http_scan_line(n=%zu) on the first %zu bytes of the counterexample buffer (heap block of exactly %zu bytes)", n, n, n ? n : 1);
	fflush(stdout); /* a sanitizer report may end the run inside the call */
	size_t  len = (size_t) 0xdeadbeef;
	nng_err rv  = http_scan_line(buf, n, &len);
	if (is_cex || rv != want)
		printf("%shttp_scan_line(n=%zu) -> %d%s, contract says %d (0 line, %d need more data, %d protocol error)\n",
		    is_cex ? "" : "  ", n, rv, rv == 0 ? " (line)" : "", want, NNG_EAGAIN, NNG_EPROTO);

	VP_EXPECT(rv == 0 || rv == NNG_EAGAIN || rv == NNG_EPROTO);
	if (rv == 0) {
		VP_EXPECT(len >= 1 && len <= n);
		for (size_t k = 0; k < n && len >= 1 && len <= n; k++) {
			if (k + 1 == len)
				VP_EXPECT(b0[k] == '\n');
			if (k + 1 < len)
				VP_EXPECT(b0[k] != '\n' && !SL_CTL(b0[k]));
			if (k + 2 < len)
				VP_EXPECT(b0[k] != '\r');
			if (k + 2 == len)
				VP_EXPECT(b0[k] == '\r' ? buf[k] == 0 : (buf[k] == b0[k] && buf[k + 1] == 0));
			if (k + 2 < len || k >= len)
				VP_EXPECT(buf[k] == b0[k]);
		}
		if (len == 1)
			VP_EXPECT(buf[0] == 0);
	}
	if (rv == NNG_EAGAIN) {
		/* more data needed: no LF, nothing offending so far */
		for (size_t k = 0; k < n; k++) {
			VP_EXPECT(b0[k] != '\n' && !SL_CTL(b0[k]));
			if (k + 1 < n)
				VP_EXPECT(b0[k] != '\r');
		}
	}
	if (rv == NNG_EPROTO) {
		/* refused: some first offending byte e < n comes before any LF (the contract's
		 * g_exit; an implementation-internal position, natively only its existence shows) */
		VP_EXPECT(want == NNG_EPROTO);
	}
	if (rv != 0) {
		VP_EXPECT(memcmp(buf, b0, n) == 0); /* no line, no write */
		VP_EXPECT(len == (size_t) 0xdeadbeef);
	}
	VP_EXPECT(rv == want); /* the three cases of the contract are exclusive and exhaustive */
	if (vp_fail_count != before && !is_cex)
		show("  ^ same bytes, read cut short:", b0, n);
	free(buf);
}

int
main(int argc, char **argv)
{
	if (argc < 2) {
		fprintf(stderr, "usage: replay <inputs> [function]\n");
		return 2;
	}
	vp_load(argv[1]);
	if (argc > 2 && strcmp(argv[2], "http_scan_line") != 0) {
		printf("REPLAY-RESULT: skipped (no native driver for %s)\n", argv[2]);
		return 3;
	}
	size_t n = (size_t) vp_u64("vp_arg_n", 0);
	if (!vp_has("vp_arg_n")) {
		printf("REPLAY-RESULT: skipped (trace has no entry snapshot)\n");
		return 3;
	}
	if (n > NMAX) {
		printf("REPLAY-RESULT: skipped (buffer of %zu bytes too large to build natively)\n", n);
		return 3;
	}
	uint8_t *b0 = malloc(n ? n : 1);
	for (size_t i = 0; i < n; i++) {
		char key[24];
		snprintf(key, sizeof(key), "vp_in_b%zu", i);
		b0[i] = (i < VP_SNAP_NB) ? (uint8_t) vp_u64(key, 'x') : (uint8_t) 'x';
	}
	if (n > VP_SNAP_NB)
		printf("note: only the first %d bytes come from the counterexample, the other %zu are 'x'\n", VP_SNAP_NB, n - VP_SNAP_NB);
	/* the counterexample itself ... */
	scan_one(b0, n, true);
	/* ... and (C16: the scanner is incremental, the peer's bytes arrive in any split) the
	 * same byte stream when the read ended earlier: every prefix is an input of its own,
	 * judged by the same contract.  A loop-step counterexample is such an intermediate
	 * position. */
	for (size_t m = n; m-- > 0 && n - m <= 64;)
		scan_one(b0, m, false);
	free(b0);
	VP_DONE();
}
