#define VP_HAVOC_GHOSTS()                 \
	do {                                  \
		g_k    = nondet_size_t();         \
		g_hk   = nondet_size_t();         \
		g_b    = nondet_u8();             \
		g_hb   = nondet_u8();             \
		g_exit = nondet_size_t();         \
	} while (0)

/* VP_REPLAY_NCAP is defined only for the extra trace run that looks for a SMALL
 * counterexample after an obligation has failed (spec.json replay_defines); the
 * deciding run has no cap. */
#ifdef VP_REPLAY_NCAP
#define VP_REPLAY_CAP(n) __CPROVER_assume((n) <= VP_REPLAY_NCAP)
#else
#define VP_REPLAY_CAP(n) ((void) 0)
#endif
void h_scan_line(void) { void *buf; size_t n; size_t *lenp; VP_HAVOC_GHOSTS(); VP_REPLAY_CAP(n); http_scan_line(buf, n, lenp); VP_CANARY(); }
