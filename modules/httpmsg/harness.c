#define VP_HAVOC_GHOSTS()                 \
	do {                                  \
		g_k    = nondet_size_t();         \
		g_hk   = nondet_size_t();         \
		g_b    = nondet_u8();             \
		g_hb   = nondet_u8();             \
		g_exit = nondet_size_t();         \
	} while (0)

void h_scan_line(void) { void *buf; size_t n; size_t *lenp; VP_HAVOC_GHOSTS(); http_scan_line(buf, n, lenp); VP_CANARY(); }
