/* Contract of http_scan_line (redeclaration after the definition).
 *
 * With i = index of the first LF and j = index of the first offending byte
 * (a control byte other than CR/LF, or any byte other than LF right after a CR):
 *   j before i (or no LF)  -> NNG_EPROTO, buffer untouched;
 *   i exists, nothing offending before it -> 0, *lenp = i + 1, the line
 *      terminator (CRLF or LF) is replaced by a NUL so that the line is a C
 *      string, nothing else is written;
 *   neither -> NNG_EAGAIN, buffer untouched.
 * Quantifiers are ghost indices: g_b is the pre-state byte at g_k, g_hb at g_hk
 * (equations on free ghosts, not restrictions).
 */
#ifndef VP_HTTPMSG_CONTRACTS_H
#define VP_HTTPMSG_CONTRACTS_H
/* clang-format off */
#define RV __CPROVER_return_value
#define SLB ((uint8_t *) vbuf)

static nng_err http_scan_line(void *vbuf, size_t n, size_t *lenp)
/* n == 0 is allowed (nothing to scan); the pointer is still a valid one */
__CPROVER_requires(__CPROVER_is_fresh(vbuf, n == 0 ? 1 : n))
__CPROVER_requires(__CPROVER_is_fresh(lenp, sizeof(*lenp)))
__CPROVER_requires(g_k < n ==> g_b == SLB[g_k])
__CPROVER_requires(g_hk < n ==> g_hb == SLB[g_hk])
__CPROVER_assigns(*lenp, g_exit)
__CPROVER_assigns(__CPROVER_object_whole(vbuf))
__CPROVER_ensures(RV == 0 || RV == NNG_EAGAIN || RV == NNG_EPROTO)
/* ---- a line was found ------------------------------------------------ */
__CPROVER_ensures(RV == 0 ==> (*lenp >= 1 && *lenp <= n))
/* its last byte is the FIRST LF, nothing offending before it */
__CPROVER_ensures((RV == 0 && g_k < n && g_k + 1 == *lenp) ==> g_b == '\n')
__CPROVER_ensures((RV == 0 && g_k < n && g_k + 1 < *lenp) ==> (g_b != '\n' && !SL_CTL(g_b)))
/* a CR can only be the byte right before that LF */
__CPROVER_ensures((RV == 0 && g_k < n && g_k + 2 < *lenp) ==> g_b != '\r')
/* the terminator is cut off with a NUL, nothing else is written */
__CPROVER_ensures((RV == 0 && g_k < n && g_k + 2 == *lenp) ==> (g_b == '\r' ? SLB[g_k] == 0 : (SLB[g_k] == g_b && SLB[g_k + 1] == 0)))
__CPROVER_ensures((RV == 0 && *lenp == 1) ==> SLB[0] == 0)
__CPROVER_ensures((RV == 0 && g_k < n && (g_k + 2 < *lenp || g_k >= *lenp)) ==> SLB[g_k] == g_b)
/* ---- more data needed: no LF, nothing offending so far ---------------- */
__CPROVER_ensures((RV == NNG_EAGAIN && g_k < n) ==> (g_b != '\n' && !SL_CTL(g_b)))
__CPROVER_ensures((RV == NNG_EAGAIN && g_k < n && g_k + 1 < n) ==> g_b != '\r')
/* ---- refused: the first offending byte comes before any LF ------------ */
__CPROVER_ensures(RV == NNG_EPROTO ==> g_exit < n)
__CPROVER_ensures((RV == NNG_EPROTO && g_k < g_exit) ==> (g_b != '\n' && !SL_CTL(g_b)))
__CPROVER_ensures((RV == NNG_EPROTO && g_k == g_exit) ==> g_b != '\n')
__CPROVER_ensures((RV == NNG_EPROTO && g_k == g_exit && g_exit == 0) ==> SL_CTL(g_b))
__CPROVER_ensures((RV == NNG_EPROTO && g_k == g_exit && g_hk < n && g_hk + 1 == g_exit) ==> (SL_CTL(g_b) || g_hb == '\r'))
/* ---- no line, no write ------------------------------------------------ */
__CPROVER_ensures((RV != 0 && g_k < n) ==> SLB[g_k] == g_b)
;
/* clang-format on */
#endif
