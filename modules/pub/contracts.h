/* Contracts for src/sp/protocol/pubsub0/pub.c (PUB v0: best-effort broadcast, per-subscriber
 * transmit queue; C05, C15, C03).
 * The object skeleton (socket, up to three pipes on the real pipe list, queue rings with a
 * real message in every slot) is BUILT by the harness and named by ghosts (g_s, g_pp0..g_pp2,
 * g_np: the first g_np pipes are attached, in list order). */
#ifndef VP_PUB_CONTRACTS_H
#define VP_PUB_CONTRACTS_H
/* clang-format off */
#define RV __CPROVER_return_value
#define OLD(e) __CPROVER_old(e)
#define FREED(p) __CPROVER_was_freed(p)
#define PQ(p) (&(p)->sendq)
#define PQ_LEN(p) ((p)->sendq.lmq_len)
#define PQ_VIEW(p, k) LMQ_VIEW(PQ(p), k)
#define PQ_HEAD(p) PQ_VIEW(p, 0)
#define PUB_REF_OK(m) ((m)->m_refcnt.v >= 1 && (m)->m_refcnt.v <= 1000)
#define PUB_HEAD (&g_s->pipes.ll_head)
#define PUB_LIST_IS(n) PUB_LIST3_IS(PUB_HEAD, n, &g_pp0->node, &g_pp1->node, &g_pp2->node)
/* the slots of a queue's ring (frame) */
#ifdef PUB_INLINE
#define PQ_SLOTS(p) (p)->sendq.lmq_buf[0], (p)->sendq.lmq_buf[1]
#else
#define PQ_SLOTS(p) __CPROVER_object_whole((p)->sendq.lmq_msgs)
#endif
/* one reference of message M (pre-state pointer expression) was released: destroyed when it was
 * the last one, else exactly one count less; KEPT: untouched */
#define PUB_BODY_SAME(M) (OLD(M)->m_body.ch_len == OLD((M)->m_body.ch_len) && OLD(M)->m_body.ch_cap == OLD((M)->m_body.ch_cap) && OLD(M)->m_body.ch_buf == OLD((M)->m_body.ch_buf) && OLD(M)->m_body.ch_ptr == OLD((M)->m_body.ch_ptr))
#define PUB_RELEASED(M) (OLD((M)->m_refcnt.v) == 1 ? FREED(OLD(M)) : (!FREED(OLD(M)) && OLD(M)->m_refcnt.v == OLD((M)->m_refcnt.v) - 1 && PUB_BODY_SAME(M)))
#define PUB_KEPT(M) (!FREED(OLD(M)) && OLD(M)->m_refcnt.v == OLD((M)->m_refcnt.v) && PUB_BODY_SAME(M))

/* =====================================================================
 * pub0_sock_send (C05: one copy per subscriber pipe, a full transmit queue drops its OLDEST
 * entry and queues the new one; never blocks (C15); caller's reference released once (C03))
 * ===================================================================== */
#define PS_M (aio->a_msg)
#ifdef PUB_EXP
#define PUB_EXP1 (PS_M->m_refcnt.v >= 2)
#else
#define PUB_EXP1 1
#endif
#define PS_FULL_OLD(p) (OLD(PQ_LEN(p)) >= (p)->sendq.lmq_cap)
#define PS_DROPS(i, p) (g_np > (i) && OLD((p)->busy) && PS_FULL_OLD(p))
#define PS_PIPE_PRE(i, p) (PUB_LMQ_PRE(PQ(p)) && PUB_REF_OK(PQ_HEAD(p)))
#define PS_PIPE_ASSIGNS(i, p) \
__CPROVER_assigns(g_np > (i): (p)->busy, (p)->aio_send.a_msg, (p)->sendq.lmq_put, (p)->sendq.lmq_get, (p)->sendq.lmq_len, PQ_SLOTS(p), PQ_HEAD(p)->m_refcnt, PQ_HEAD(p)->m_body) \
__CPROVER_frees(PQ_HEAD(p), PQ_HEAD(p)->m_body.ch_buf)
#define PS_Q_SAME(p) (PQ_LEN(p) == OLD(PQ_LEN(p)) && (g_j >= PQ_LEN(p) || PQ_VIEW(p, g_j) == OLD(PQ_VIEW(p, g_j))))
/* outcome for attached pipe number i:
 *   idle: this message goes on the wire now (own send aio, exactly one nni_pipe_send), queue untouched;
 *   busy with room: queued at the tail, older entries keep their places;
 *   busy and full: the OLDEST entry leaves, the rest move up one place, the new one is the tail */
#define PS_PIPE_POST(i, p, SENT, SENTM)                                                                        \
	(g_np <= (i) ||                                                                                     \
	    (!OLD((p)->busy) ? ((p)->busy && (p)->aio_send.a_msg == OLD(PS_M) && SENT == OLD(SENT) + 1 && SENTM == OLD(PS_M) && PS_Q_SAME(p)) \
	        : (!PS_FULL_OLD(p) ? ((p)->busy && SENT == OLD(SENT) && PQ_LEN(p) == OLD(PQ_LEN(p)) + 1 &&   \
	                                 PQ_VIEW(p, PQ_LEN(p) - 1) == OLD(PS_M) &&                           \
	                                 (g_j >= OLD(PQ_LEN(p)) || PQ_VIEW(p, g_j) == OLD(PQ_VIEW(p, g_j)))) \
	                           : ((p)->busy && SENT == OLD(SENT) && PQ_LEN(p) == OLD(PQ_LEN(p)) &&       \
	                                 PQ_VIEW(p, PQ_LEN(p) - 1) == OLD(PS_M) &&                           \
	                                 (g_j + 1 >= PQ_LEN(p) || g_j >= LMQ_MAXALLOC || PQ_VIEW(p, g_j) == OLD(PQ_VIEW(p, g_j + 1)))))))
/* the entry dropped from a full queue is released exactly once; any other queue head is untouched */
#define PS_HEAD_POST(i, p) (PS_DROPS(i, p) ? PUB_RELEASED(PQ_HEAD(p)) : PUB_KEPT(PQ_HEAD(p)))
#define PS_DESTROYED(i, p) ((size_t) ((PS_DROPS(i, p) && OLD(PQ_HEAD(p)->m_refcnt.v) == 1) ? 1 : 0))
#ifndef PUB_NPMAX
#define PUB_NPMAX 3
#endif
/* clauses about pipe number i exist only in the units whose pipe bound reaches i */
#if PUB_NPMAX > 0
#define PS_IF0(x) x
#else
#define PS_IF0(x)
#endif
#if PUB_NPMAX > 1
#define PS_IF1(x) x
#else
#define PS_IF1(x)
#endif
#if PUB_NPMAX > 2
#define PS_IF2(x) x
#else
#define PS_IF2(x)
#endif
#define PS_SELF_DESTROYED ((size_t) ((g_np == 0 && OLD(PS_M->m_refcnt.v) == 1) ? 1 : 0))
static void pub0_sock_send(void *arg, nni_aio *aio)
__CPROVER_requires(arg == g_s && VP_NO_LOCK_HELD && g_np <= PUB_NPMAX)
__CPROVER_requires(__CPROVER_is_fresh(aio, sizeof(nni_aio)))
__CPROVER_requires(__CPROVER_is_fresh(PS_M, sizeof(struct nng_msg)) && PS_M->m_header_len <= MSG_HDRCAP && PUB_REF_OK(PS_M) && PUB_EXP1 && CH_FULL_PRE(&PS_M->m_body) && CH_GHOST_PRE(&PS_M->m_body))
PS_IF0(__CPROVER_requires(PS_PIPE_PRE(0, g_pp0))) PS_IF1(__CPROVER_requires(PS_PIPE_PRE(1, g_pp1))) PS_IF2(__CPROVER_requires(PS_PIPE_PRE(2, g_pp2)))
__CPROVER_assigns(aio->a_msg, PS_M->m_refcnt, PS_M->m_body, VP_PROTO_GHOST_LIST, VP_SYNC_GHOSTS, g_free_calls, g_sent0, g_sent1, g_sent2, g_sentm0, g_sentm1, g_sentm2)
PS_IF0(PS_PIPE_ASSIGNS(0, g_pp0)) PS_IF1(PS_PIPE_ASSIGNS(1, g_pp1)) PS_IF2(PS_PIPE_ASSIGNS(2, g_pp2))
__CPROVER_frees(PS_M, PS_M->m_body.ch_buf)
__CPROVER_ensures(VP_NO_LOCK_HELD && PUB_LIST_IS(g_np))
/* C05/C15: a PUB send NEVER blocks - for EVERY timeout setting of the aio (the timeout is not
 * consulted: nni_aio_start is never reached) it completes in the call, with success, the count is
 * the body length, and NO message is left on the aio (the caller's reference is gone: C03) */
__CPROVER_ensures(g_start_calls == OLD(g_start_calls))
__CPROVER_ensures(g_fin_calls == OLD(g_fin_calls) + 1 && g_fin_last == aio && g_fin_last_rv == 0 && g_fin_last_count == OLD(PS_M->m_body.ch_len))
__CPROVER_ensures(g_fin_last_msg == NULL && aio->a_msg == NULL)
/* C05: exactly one copy to every attached pipe, none dropped for the new message */
PS_IF0(__CPROVER_ensures(PS_PIPE_POST(0, g_pp0, g_sent0, g_sentm0)))
PS_IF1(__CPROVER_ensures(PS_PIPE_POST(1, g_pp1, g_sent1, g_sentm1)))
PS_IF2(__CPROVER_ensures(PS_PIPE_POST(2, g_pp2, g_sent2, g_sentm2)))
__CPROVER_ensures(g_pipe_send_calls == OLD(g_pipe_send_calls) + (g_sent0 - OLD(g_sent0)) + (g_sent1 - OLD(g_sent1)) + (g_sent2 - OLD(g_sent2)))
__CPROVER_ensures(g_pipe_close_calls == OLD(g_pipe_close_calls) && g_pipe_recv_calls == OLD(g_pipe_recv_calls))
/* C03: the caller's reference is released exactly once: what remains is one reference per attached
 * pipe, on the SAME, unaltered message (same buffer, same length, same bytes, same header length) */
__CPROVER_ensures((g_np == 0 && OLD(PS_M->m_refcnt.v) == 1) ? FREED(OLD(PS_M)) : (!FREED(OLD(PS_M)) && OLD(PS_M)->m_refcnt.v == OLD(PS_M->m_refcnt.v) + (int) g_np - 1))
__CPROVER_ensures(!(g_np == 0 && OLD(PS_M->m_refcnt.v) == 1) ==> (OLD(PS_M)->m_body.ch_len == OLD(PS_M->m_body.ch_len) && OLD(PS_M)->m_body.ch_ptr == OLD(PS_M->m_body.ch_ptr) && OLD(PS_M)->m_body.ch_buf == OLD(PS_M->m_body.ch_buf) && OLD(PS_M)->m_body.ch_cap == OLD(PS_M->m_body.ch_cap)))
__CPROVER_ensures((!(g_np == 0 && OLD(PS_M->m_refcnt.v) == 1) && g_k < OLD(PS_M->m_body.ch_len)) ==> OLD(PS_M->m_body.ch_ptr)[g_k] == g_b)
/* C03: per pipe exactly the displaced oldest entry is released, once */
PS_IF0(__CPROVER_ensures(PS_HEAD_POST(0, g_pp0)))
PS_IF1(__CPROVER_ensures(PS_HEAD_POST(1, g_pp1)))
PS_IF2(__CPROVER_ensures(PS_HEAD_POST(2, g_pp2)))
/* heap accounting: two blocks (structure + body) per destroyed message, nothing else */
__CPROVER_ensures(g_free_calls == OLD(g_free_calls) + 2 * (PS_SELF_DESTROYED PS_IF0(+ PS_DESTROYED(0, g_pp0)) PS_IF1(+ PS_DESTROYED(1, g_pp1)) PS_IF2(+ PS_DESTROYED(2, g_pp2))))
;

/* =====================================================================
 * pub0_pipe_send_cb (per-subscriber order: the next queued copy goes out, oldest first, once)
 * ===================================================================== */
#define PC_P ((pub0_pipe *) arg)
#define PC_AM (PC_P->aio_send.a_msg)
#ifdef PUB_SEND_FAILED
static void pub0_pipe_send_cb(void *arg)
__CPROVER_requires(arg == g_pp0 && VP_NO_LOCK_HELD && PC_P->aio_send.a_result != 0)
__CPROVER_requires(__CPROVER_is_fresh(PC_AM, sizeof(struct nng_msg)) && PUB_REF_OK(PC_AM) && CH_FULL_PRE(&PC_AM->m_body))
__CPROVER_assigns(PC_AM, PC_AM->m_refcnt, PC_AM->m_body, VP_PROTO_GHOST_LIST, g_free_calls)
__CPROVER_frees(PC_AM, PC_AM->m_body.ch_buf)
/* send failed: the unsent copy is released exactly once, the aio no longer names it, the peer is
 * disconnected; nothing is sent, the queue is left to pub0_pipe_close */
__CPROVER_ensures(VP_NO_LOCK_HELD && PC_AM == NULL && PUB_RELEASED(PC_AM))
__CPROVER_ensures(g_free_calls == OLD(g_free_calls) + (OLD(PC_AM->m_refcnt.v) == 1 ? 2 : 0))
__CPROVER_ensures(g_pipe_close_calls == OLD(g_pipe_close_calls) + 1 && g_pipe_close_last == PC_P->pipe && g_pipe_send_calls == OLD(g_pipe_send_calls))
;
#else
static void pub0_pipe_send_cb(void *arg)
__CPROVER_requires(arg == g_pp0 && VP_NO_LOCK_HELD && PC_P->aio_send.a_result == 0 && PUB_LMQ_PRE(PQ(PC_P)))
__CPROVER_assigns(PC_P->busy, PC_AM, PC_P->sendq.lmq_get, PC_P->sendq.lmq_len, VP_PROTO_GHOST_LIST, VP_SYNC_GHOSTS, g_sent0, g_sent1, g_sent2, g_sentm0, g_sentm1, g_sentm2)
__CPROVER_ensures(VP_NO_LOCK_HELD && LMQ_WF_SCALAR(PQ(PC_P)) && g_pipe_close_calls == OLD(g_pipe_close_calls))
/* pipe already closed: nothing is sent any more */
__CPROVER_ensures(PC_P->closed ==> (g_pipe_send_calls == OLD(g_pipe_send_calls) && PQ_LEN(PC_P) == OLD(PQ_LEN(PC_P)) && PC_P->sendq.lmq_get == OLD(PC_P->sendq.lmq_get) && PC_P->busy == OLD(PC_P->busy) && PC_AM == OLD(PC_AM)))
/* more queued: the OLDEST goes out next, exactly once, the rest move up in order */
__CPROVER_ensures((!PC_P->closed && OLD(PQ_LEN(PC_P)) > 0) ==> (PC_P->busy == OLD(PC_P->busy) && PC_AM == OLD(PQ_HEAD(PC_P)) && g_sent0 == OLD(g_sent0) + 1 && g_sentm0 == OLD(PQ_HEAD(PC_P)) && g_pipe_send_calls == OLD(g_pipe_send_calls) + 1 && PQ_LEN(PC_P) == OLD(PQ_LEN(PC_P)) - 1))
__CPROVER_ensures((!PC_P->closed && OLD(PQ_LEN(PC_P)) > 0 && g_j < PQ_LEN(PC_P) && g_j < LMQ_MAXALLOC) ==> PQ_VIEW(PC_P, g_j) == OLD(PQ_VIEW(PC_P, g_j + 1)))
/* nothing queued: the pipe becomes idle (the next publish goes straight to the wire) */
__CPROVER_ensures((!PC_P->closed && OLD(PQ_LEN(PC_P)) == 0) ==> (!PC_P->busy && g_pipe_send_calls == OLD(g_pipe_send_calls) && PQ_LEN(PC_P) == 0 && PC_AM == OLD(PC_AM)))
;
#endif

/* =====================================================================
 * pub0_pipe_recv_cb (a PUB socket never accepts data: whatever arrives is discarded and the
 * offending pipe is closed)
 * ===================================================================== */
#define PR_P ((pub0_pipe *) arg)
#define PR_M (PR_P->aio_recv.a_msg)
#ifdef PUB_RECV_FAILED
static void pub0_pipe_recv_cb(void *arg)
__CPROVER_requires(arg == g_pp0 && VP_NO_LOCK_HELD && PR_P->aio_recv.a_result != 0)
__CPROVER_assigns(VP_PROTO_GHOST_LIST)
__CPROVER_ensures(VP_NO_LOCK_HELD && g_pipe_close_calls == OLD(g_pipe_close_calls) + 1 && g_pipe_close_last == PR_P->pipe && g_pipe_recv_calls == OLD(g_pipe_recv_calls) && g_pipe_send_calls == OLD(g_pipe_send_calls) && g_fin_calls == OLD(g_fin_calls))
;
#else
static void pub0_pipe_recv_cb(void *arg)
__CPROVER_requires(arg == g_pp0 && VP_NO_LOCK_HELD && PR_P->aio_recv.a_result == 0)
__CPROVER_requires(__CPROVER_is_fresh(PR_M, sizeof(struct nng_msg)) && PUB_REF_OK(PR_M) && CH_FULL_PRE(&PR_M->m_body))
__CPROVER_assigns(PR_M->m_refcnt, PR_M->m_body, VP_PROTO_GHOST_LIST, g_free_calls)
__CPROVER_frees(PR_M, PR_M->m_body.ch_buf)
/* the message is released exactly once, the pipe is closed, no further receive is started */
__CPROVER_ensures(VP_NO_LOCK_HELD && PUB_RELEASED(PR_M))
__CPROVER_ensures(g_free_calls == OLD(g_free_calls) + (OLD(PR_M->m_refcnt.v) == 1 ? 2 : 0))
__CPROVER_ensures(g_pipe_close_calls == OLD(g_pipe_close_calls) + 1 && g_pipe_close_last == PR_P->pipe && g_pipe_recv_calls == OLD(g_pipe_recv_calls) && g_pipe_send_calls == OLD(g_pipe_send_calls) && g_fin_calls == OLD(g_fin_calls))
;
#endif

/* =====================================================================
 * pub0_sock_recv: PUB cannot receive
 * ===================================================================== */
static void pub0_sock_recv(void *arg, nni_aio *aio)
__CPROVER_requires(__CPROVER_is_fresh(aio, sizeof(nni_aio)))
__CPROVER_assigns(VP_PROTO_GHOST_LIST)
__CPROVER_ensures(g_fin_calls == OLD(g_fin_calls) + 1 && g_fin_last == aio && g_fin_last_rv == NNG_ENOTSUP && g_start_calls == OLD(g_start_calls))
;

/* =====================================================================
 * pub0_sock_get_sendfd (C15: a PUB socket is ALWAYS writable)
 * ===================================================================== */
static nng_err pub0_sock_get_sendfd(void *arg, int *fdp)
__CPROVER_requires(arg == g_s && g_pollw_addr == &g_s->sendable && g_pollr_addr != &g_s->sendable && __CPROVER_is_fresh(fdp, sizeof(int)))
__CPROVER_assigns(*fdp, VP_PROTO_GHOST_LIST, g_getfd_calls)
__CPROVER_ensures(g_pollw && g_pollr == OLD(g_pollr) && g_getfd_calls == OLD(g_getfd_calls) + 1)
__CPROVER_ensures(RV == (nng_err) g_getfd_rv && (RV == 0 ==> *fdp == g_getfd_fd))
;

/* =====================================================================
 * NNG_OPT_SENDBUF: depth of every subscriber's transmit queue, 1..8192
 * ===================================================================== */
#define PB_VAL (*(const int *) buf)
#define PB_OKARG (t == NNI_TYPE_INT32 && PB_VAL >= 1 && PB_VAL <= 8192)
#define PB_PIPE_PRE(i, p) (PUB_LMQ_PRE(PQ(p)) && PUB_REF_OK(PB_SLOT(p, 0)) && PUB_REF_OK(PB_SLOT(p, 1)) && PUB_REF_OK(PB_SLOT(p, 2)) && PUB_REF_OK(PB_SLOT(p, 3)))
#define PB_SLOT(p, k) ((p)->sendq.lmq_msgs[k])
#define PB_SLOT_WR(p, k) PB_SLOT(p, k)->m_refcnt, PB_SLOT(p, k)->m_body
#define PB_SLOT_FREES(p, k) __CPROVER_frees(PB_SLOT(p, k), PB_SLOT(p, k)->m_body.ch_buf)
#define PB_PIPE_ASSIGNS(i, p) __CPROVER_assigns(g_np > (i): (p)->sendq, PB_SLOT_WR(p, 0), PB_SLOT_WR(p, 1), PB_SLOT_WR(p, 2), PB_SLOT_WR(p, 3)) \
	__CPROVER_frees((p)->sendq.lmq_msgs) PB_SLOT_FREES(p, 0) PB_SLOT_FREES(p, 1) PB_SLOT_FREES(p, 2) PB_SLOT_FREES(p, 3)
/* number of queues resized by this call (each successful resize allocates exactly one new ring) */
#define PB_NRES (g_alloc_ok - OLD(g_alloc_ok))
/* pipe's queue was resized: exact new depth; the oldest min(len, depth) entries stay, in order and
 * untouched; every younger entry is released exactly once (whole messages only); old ring released */
#define PB_RESIZED(p) (PQ(p)->lmq_cap == (size_t) PB_VAL && PQ_LEN(p) == VP_MIN(OLD(PQ_LEN(p)), (size_t) PB_VAL) && LMQ_WF_SCALAR(PQ(p)) && PQ(p)->lmq_alloc >= 2 && \
	FREED(OLD(PQ(p)->lmq_msgs)) && \
	(g_j >= PQ_LEN(p) || (PQ_VIEW(p, g_j) == OLD(PQ_VIEW(p, g_j)) && PUB_KEPT(PQ_VIEW(p, g_j)))) && \
	(g_j < PQ_LEN(p) || g_j >= OLD(PQ_LEN(p)) || PUB_RELEASED(PQ_VIEW(p, g_j))) && \
	(g_j < OLD(PQ_LEN(p)) || g_j >= PUB_QSLOTS || PUB_KEPT(PQ_VIEW(p, g_j))))
#define PB_UNTOUCHED(p) (PQ(p)->lmq_cap == OLD(PQ(p)->lmq_cap) && PQ_LEN(p) == OLD(PQ_LEN(p)) && PQ(p)->lmq_get == OLD(PQ(p)->lmq_get) && PQ(p)->lmq_put == OLD(PQ(p)->lmq_put) && \
	PQ(p)->lmq_alloc == OLD(PQ(p)->lmq_alloc) && PQ(p)->lmq_mask == OLD(PQ(p)->lmq_mask) && PQ(p)->lmq_msgs == OLD(PQ(p)->lmq_msgs) && !FREED(OLD(PQ(p)->lmq_msgs)) && \
	(g_j >= PUB_QSLOTS || (PQ_VIEW(p, g_j) == OLD(PQ_VIEW(p, g_j)) && PUB_KEPT(PQ_VIEW(p, g_j)))))
#define PB_PIPE_POST(i, p) (g_np <= (i) || (PB_NRES > (i) ? PB_RESIZED(p) : PB_UNTOUCHED(p)))
static nng_err pub0_sock_set_sendbuf(void *arg, const void *buf, size_t sz, nni_type t)
__CPROVER_requires(arg == g_s && VP_NO_LOCK_HELD && g_np <= PUB_NPMAX && g_s->sendbuf >= 1 && g_s->sendbuf <= 8192)
__CPROVER_requires(t == NNI_TYPE_INT32 ==> __CPROVER_is_fresh(buf, sizeof(int)))
PS_IF0(__CPROVER_requires(PB_PIPE_PRE(0, g_pp0))) PS_IF1(__CPROVER_requires(PB_PIPE_PRE(1, g_pp1))) PS_IF2(__CPROVER_requires(PB_PIPE_PRE(2, g_pp2)))
__CPROVER_assigns(g_s->sendbuf, VP_SYNC_GHOSTS, g_free_calls, g_alloc_ok, g_alloc_fail)
PS_IF0(PB_PIPE_ASSIGNS(0, g_pp0)) PS_IF1(PB_PIPE_ASSIGNS(1, g_pp1)) PS_IF2(PB_PIPE_ASSIGNS(2, g_pp2))
__CPROVER_ensures(VP_NO_LOCK_HELD && PUB_LIST_IS(g_np))
__CPROVER_ensures(RV == NNG_OK || RV == NNG_EBADTYPE || RV == NNG_EINVAL || RV == NNG_ENOMEM)
/* wrong type or out of range: refused, nothing changes */
__CPROVER_ensures(t != NNI_TYPE_INT32 ==> RV == NNG_EBADTYPE)
__CPROVER_ensures((t == NNI_TYPE_INT32 && !PB_OKARG) ==> RV == NNG_EINVAL)
__CPROVER_ensures(!PB_OKARG ==> (g_s->sendbuf == OLD(g_s->sendbuf) && PB_NRES == 0 && g_alloc_fail == OLD(g_alloc_fail) && g_free_calls == OLD(g_free_calls)))
/* accepted: the socket remembers the depth for future pipes (range invariant 1..8192 kept) */
__CPROVER_ensures(PB_OKARG ==> (g_s->sendbuf == (size_t) PB_VAL && (RV == NNG_OK || RV == NNG_ENOMEM)))
__CPROVER_ensures(g_s->sendbuf >= 1 && g_s->sendbuf <= 8192)
/* the attached pipes are resized in list order; success = all of them; out of memory = the first
 * PB_NRES of them, every later queue is untouched - no queue is ever torn */
__CPROVER_ensures(PB_NRES <= g_np && (PB_OKARG ==> ((RV == NNG_OK) == (PB_NRES == g_np))))
__CPROVER_ensures(g_alloc_fail == OLD(g_alloc_fail) + (RV == NNG_ENOMEM ? 1 : 0))
PS_IF0(__CPROVER_ensures(PB_PIPE_POST(0, g_pp0)))
PS_IF1(__CPROVER_ensures(PB_PIPE_POST(1, g_pp1)))
PS_IF2(__CPROVER_ensures(PB_PIPE_POST(2, g_pp2)))
PS_IF0(__CPROVER_ensures((g_np > 0 && PB_NRES > 0) ==> __CPROVER_is_fresh(g_pp0->sendq.lmq_msgs, g_pp0->sendq.lmq_alloc * sizeof(nng_msg *))))
PS_IF1(__CPROVER_ensures((g_np > 1 && PB_NRES > 1) ==> __CPROVER_is_fresh(g_pp1->sendq.lmq_msgs, g_pp1->sendq.lmq_alloc * sizeof(nng_msg *))))
PS_IF2(__CPROVER_ensures((g_np > 2 && PB_NRES > 2) ==> __CPROVER_is_fresh(g_pp2->sendq.lmq_msgs, g_pp2->sendq.lmq_alloc * sizeof(nng_msg *))))
;

static nng_err pub0_sock_get_sendbuf(void *arg, void *buf, size_t *szp, nni_type t)
__CPROVER_requires(arg == g_s && VP_NO_LOCK_HELD && g_s->sendbuf >= 1 && g_s->sendbuf <= 8192)
__CPROVER_requires(t == NNI_TYPE_INT32 ==> __CPROVER_is_fresh(buf, sizeof(int)))
__CPROVER_assigns(VP_SYNC_GHOSTS)
__CPROVER_assigns(t == NNI_TYPE_INT32: *(int *) buf)
__CPROVER_ensures(VP_NO_LOCK_HELD && g_s->sendbuf == OLD(g_s->sendbuf))
__CPROVER_ensures(t == NNI_TYPE_INT32 ? (RV == NNG_OK && *(int *) buf == (int) g_s->sendbuf) : RV == NNG_EBADTYPE)
;

/* =====================================================================
 * socket / pipe life cycle
 * ===================================================================== */
static void pub0_sock_init(void *arg, nni_sock *ns)
__CPROVER_requires(__CPROVER_is_fresh(arg, sizeof(pub0_sock)))
__CPROVER_assigns(*(pub0_sock *) arg)
/* default depth 16 (inside the option's range), no pipes */
__CPROVER_ensures(((pub0_sock *) arg)->sendbuf == 16 && ((pub0_sock *) arg)->sock == ns)
__CPROVER_ensures(((pub0_sock *) arg)->pipes.ll_offset == offsetof(pub0_pipe, node) && ((pub0_sock *) arg)->pipes.ll_head.ln_next == &((pub0_sock *) arg)->pipes.ll_head && ((pub0_sock *) arg)->pipes.ll_head.ln_prev == &((pub0_sock *) arg)->pipes.ll_head)
;

#define PI_P ((pub0_pipe *) arg)
static int pub0_pipe_init(void *arg, nni_pipe *pipe, void *s)
__CPROVER_requires(__CPROVER_is_fresh(arg, sizeof(pub0_pipe)) && s == g_s && VP_NO_LOCK_HELD && g_s->sendbuf >= 1 && g_s->sendbuf <= 8192 && g_aio_init_calls == 0)
__CPROVER_assigns(PI_P->sendq, PI_P->busy, PI_P->pipe, PI_P->pub, VP_SYNC_GHOSTS, g_msg_freed, g_msg_freed_at_j, g_free_calls, g_alloc_ok, g_aio_init_calls, g_aio_init_a, g_aio_init_b, g_aio_init_cb_a, g_aio_init_cb_b, g_aio_init_arg_a, g_aio_init_arg_b)
__CPROVER_ensures(RV == 0 && VP_NO_LOCK_HELD && !PI_P->busy && PI_P->pipe == pipe && PI_P->pub == g_s)
/* empty transmit queue of the socket's configured depth (2 when the ring could not be allocated): never 0 */
__CPROVER_ensures(LMQ_WF_SCALAR(PQ(PI_P)) && PQ_LEN(PI_P) == 0 && (PQ(PI_P)->lmq_cap == g_s->sendbuf || (g_s->sendbuf > 2 && PQ(PI_P)->lmq_cap == 2)) && PQ(PI_P)->lmq_cap >= 1)
__CPROVER_ensures(g_aio_init_calls == 2 && g_aio_init_a == &PI_P->aio_send && g_aio_init_cb_a == pub0_pipe_send_cb && g_aio_init_arg_a == arg && g_aio_init_b == &PI_P->aio_recv && g_aio_init_cb_b == pub0_pipe_recv_cb && g_aio_init_arg_b == arg)
;

/* pub0_pipe_start: the pipe under contract is the first UNATTACHED one (number g_np) */
#define PT_P ((pub0_pipe *) arg)
#define PT_IS_NEXT ((g_np == 0 && arg == g_pp0) || (g_np == 1 && arg == g_pp1) || (g_np == 2 && arg == g_pp2))
static int pub0_pipe_start(void *arg)
__CPROVER_requires(PT_IS_NEXT && VP_NO_LOCK_HELD)
__CPROVER_assigns(VP_PROTO_GHOST_LIST, VP_SYNC_GHOSTS, g_s->pipes.ll_head, g_pp0->node, g_pp1->node, g_pp2->node)
__CPROVER_ensures(VP_NO_LOCK_HELD && g_pipe_close_calls == OLD(g_pipe_close_calls) && g_pipe_send_calls == OLD(g_pipe_send_calls))
/* only SUB peers are accepted; a refused pipe is not attached and nothing is started on it */
__CPROVER_ensures(g_pipe_peer != NNI_PROTO_SUB_V0 ==> (RV == NNG_EPROTO && PUB_LIST_IS(g_np) && PT_P->node.ln_next == NULL && PT_P->node.ln_prev == NULL && g_pipe_recv_calls == OLD(g_pipe_recv_calls)))
/* accepted: attached at the tail (existing order kept), receive side armed once with its own aio */
__CPROVER_ensures(g_pipe_peer == NNI_PROTO_SUB_V0 ==> (RV == 0 && PUB_LIST_IS(g_np + 1) && g_pipe_recv_calls == OLD(g_pipe_recv_calls) + 1 && g_pipe_recv_pipe == PT_P->pipe && g_pipe_recv_aio == &PT_P->aio_recv))
;

/* pub0_pipe_close: any of the three pipes (attached iff its number < g_np); case split by
 * PUB_CLOSE_IDX over the pipe under contract */
#ifndef PUB_CLOSE_IDX
#define PUB_CLOSE_IDX 0
#endif
#if PUB_CLOSE_IDX == 0
#define PX_P g_pp0
#elif PUB_CLOSE_IDX == 1
#define PX_P g_pp1
#else
#define PX_P g_pp2
#endif
#define PX_IDX ((size_t) PUB_CLOSE_IDX)
#define PX_ATTACHED (PX_IDX < g_np)
#define PX_SLOT(k) (PX_P->sendq.lmq_msgs[k])
#define PX_SLOT_FREES(k) __CPROVER_frees(PX_SLOT(k), PX_SLOT(k)->m_body.ch_buf)
static void pub0_pipe_close(void *arg)
__CPROVER_requires(arg == PX_P && g_np <= 3 && VP_NO_LOCK_HELD && PUB_LMQ_PRE(PQ(PX_P)))
/* every queued entry holds a reference */
__CPROVER_requires(PUB_REF_OK(PX_SLOT(0)) && PUB_REF_OK(PX_SLOT(1)))
#ifndef PUB_INLINE
__CPROVER_requires(PUB_REF_OK(PX_SLOT(2)) && PUB_REF_OK(PX_SLOT(3)))
#endif
__CPROVER_assigns(PX_P->closed, PX_P->sendq.lmq_get, PX_P->sendq.lmq_len, VP_PROTO_GHOST_LIST, VP_SYNC_GHOSTS, g_free_calls, g_s->pipes.ll_head, g_pp0->node, g_pp1->node, g_pp2->node)
__CPROVER_assigns(PX_SLOT(0)->m_refcnt, PX_SLOT(1)->m_refcnt, PX_SLOT(0)->m_body, PX_SLOT(1)->m_body)
PX_SLOT_FREES(0) PX_SLOT_FREES(1)
#ifndef PUB_INLINE
__CPROVER_assigns(PX_SLOT(2)->m_refcnt, PX_SLOT(3)->m_refcnt, PX_SLOT(2)->m_body, PX_SLOT(3)->m_body)
PX_SLOT_FREES(2) PX_SLOT_FREES(3)
#endif
__CPROVER_ensures(VP_NO_LOCK_HELD && PX_P->closed && g_aio_close_calls == OLD(g_aio_close_calls) + 2)
/* the transmit queue is emptied: every queued copy is released exactly once, nothing else is */
__CPROVER_ensures(PQ_LEN(PX_P) == 0 && LMQ_WF_SCALAR(PQ(PX_P)))
__CPROVER_ensures(g_j < OLD(PQ_LEN(PX_P)) ==> PUB_RELEASED(PQ_VIEW(PX_P, g_j)))
__CPROVER_ensures((g_j >= OLD(PQ_LEN(PX_P)) && g_j <= PX_P->sendq.lmq_mask) ==> PUB_KEPT(PQ_VIEW(PX_P, g_j)))
/* detached from the publish fan-out: the other pipes keep their order */
__CPROVER_ensures(PX_P->node.ln_next == NULL && PX_P->node.ln_prev == NULL)
__CPROVER_ensures(!PX_ATTACHED ==> PUB_LIST_IS(g_np))
__CPROVER_ensures((PX_ATTACHED && arg == g_pp0) ==> PUB_LIST3_IS(PUB_HEAD, g_np - 1, &g_pp1->node, &g_pp2->node, &g_pp2->node))
__CPROVER_ensures((PX_ATTACHED && arg == g_pp1) ==> PUB_LIST3_IS(PUB_HEAD, g_np - 1, &g_pp0->node, &g_pp2->node, &g_pp2->node))
__CPROVER_ensures((PX_ATTACHED && arg == g_pp2) ==> PUB_LIST3_IS(PUB_HEAD, g_np - 1, &g_pp0->node, &g_pp1->node, &g_pp1->node))
;
/* pub0_pipe_stop / pub0_pipe_fini: both per-pipe aios are stopped / finalised; fini releases what is
 * still queued (each entry exactly once) and the ring */
static void pub0_pipe_stop(void *arg)
__CPROVER_requires(arg == g_pp0)
__CPROVER_assigns(g_aio_stop_calls)
__CPROVER_ensures(g_aio_stop_calls == OLD(g_aio_stop_calls) + 2)
;
#define PF_P g_pp0
#define PF_SLOT(k) (PF_P->sendq.lmq_msgs[k])
#define PF_SLOT_FREES(k) __CPROVER_frees(PF_SLOT(k), PF_SLOT(k)->m_body.ch_buf)
static void pub0_pipe_fini(void *arg)
__CPROVER_requires(arg == PF_P && PUB_LMQ_PRE(PQ(PF_P)))
__CPROVER_requires(PUB_REF_OK(PF_SLOT(0)) && PUB_REF_OK(PF_SLOT(1)))
#ifndef PUB_INLINE
__CPROVER_requires(PUB_REF_OK(PF_SLOT(2)) && PUB_REF_OK(PF_SLOT(3)))
#endif
__CPROVER_assigns(PF_P->sendq.lmq_get, PF_P->sendq.lmq_len, g_free_calls, g_aio_fini_calls)
__CPROVER_assigns(PF_SLOT(0)->m_refcnt, PF_SLOT(1)->m_refcnt, PF_SLOT(0)->m_body, PF_SLOT(1)->m_body)
PF_SLOT_FREES(0) PF_SLOT_FREES(1)
#ifndef PUB_INLINE
__CPROVER_assigns(PF_SLOT(2)->m_refcnt, PF_SLOT(3)->m_refcnt, PF_SLOT(2)->m_body, PF_SLOT(3)->m_body)
PF_SLOT_FREES(2) PF_SLOT_FREES(3)
__CPROVER_frees(PF_P->sendq.lmq_msgs)
__CPROVER_ensures(FREED(OLD(PF_P->sendq.lmq_msgs)))
#endif
__CPROVER_ensures(g_aio_fini_calls == OLD(g_aio_fini_calls) + 2 && PQ_LEN(PF_P) == 0)
__CPROVER_ensures(g_j < OLD(PQ_LEN(PF_P)) ==> PUB_RELEASED(PQ_VIEW(PF_P, g_j)))
__CPROVER_ensures((g_j >= OLD(PQ_LEN(PF_P)) && g_j <= OLD(PF_P->sendq.lmq_mask)) ==> PUB_KEPT(PQ_VIEW(PF_P, g_j)))
;
/* clang-format on */
#endif
