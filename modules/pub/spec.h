/* Spec macros for src/sp/protocol/pubsub0/pub.c (C05, C15, C03).  No code. */
#ifndef VP_PUB_SPEC_H
#define VP_PUB_SPEC_H
/* BOUNDS (grade B): at most 3 attached pipes (real nni_list of real nodes built by the
 * harness with the real list code); every per-pipe send queue is a heap ring of
 * PUB_QSLOTS slots (depth 1..PUB_QSLOTS, ring position and occupancy symbolic), or - in
 * the *_inline units - the two-slot array inside the queue object (depth 1..2). */
#define PUB_QSLOTS 4
#ifdef PUB_INLINE
#define PUB_LMQ_PRE(q) ((q)->lmq_alloc == 0 && LMQ_WF_SCALAR(q) && (q)->lmq_cap >= 1)
#else
#define PUB_LMQ_PRE(q) ((q)->lmq_alloc == PUB_QSLOTS && LMQ_WF_SCALAR(q) && (q)->lmq_cap >= 1)
#endif
/* shape of the real doubly linked pipe list with at most three members: H = address of the
 * list head node, n = number of members, N0..N2 = addresses of the member link nodes */
#define PUB_LIST3_IS(H, n, N0, N1, N2)                                     \
	((H)->ln_next == ((n) == 0 ? (H) : (N0)) &&                           \
	    (H)->ln_prev == ((n) == 0 ? (H) : (n) == 1 ? (N0) : (n) == 2 ? (N1) : (N2)) && \
	    ((n) < 1 || ((N0)->ln_next == ((n) == 1 ? (H) : (N1)) && (N0)->ln_prev == (H))) && \
	    ((n) < 2 || ((N1)->ln_next == ((n) == 2 ? (H) : (N2)) && (N1)->ln_prev == (N0))) && \
	    ((n) < 3 || ((N2)->ln_next == (H) && (N2)->ln_prev == (N1))))
#endif
