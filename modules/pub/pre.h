/* included BEFORE the real sources of the pub TU */
#define VP_PROTO_GHOSTS 1
#include "include/env_proto.h"
#include "modules/message/spec.h"
#include "modules/lmq/spec.h"
#include "modules/pub/spec.h"
size_t g_alloc_fail; /* ghost: failed nni_alloc/nni_zalloc calls (modules/sub/env_alloc.h) */
