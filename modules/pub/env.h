/* modules/pub/env.h -- per-pipe environment models for the pub TU (ASSUMED, ghost accounting
 * only).  A transport pipe handle (nni_pipe *, opaque to the protocol) is a one-word cell;
 * nni_pipe_send additionally counts the calls per pipe and checks that a pipe is only ever
 * driven through its own send aio. */
#ifndef VP_PUB_ENV_H
#define VP_PUB_ENV_H
pub0_sock *g_s;                     /* the socket */
size_t     g_np;                    /* number of attached pipes on its list: 0..3 */
pub0_pipe *g_pp0, *g_pp1, *g_pp2;   /* the pipes, in list order (the first g_np are attached) */
size_t     g_sent0, g_sent1, g_sent2; /* nni_pipe_send calls per pipe */
nni_msg   *g_sentm0, *g_sentm1, *g_sentm2; /* message on the pipe's send aio at its last nni_pipe_send */
void
nni_pipe_send(nni_pipe *p, nni_aio *aio)
{
	vp_proto_pipe_send(p, aio);
	if (p == g_pp0->pipe) {
		g_sent0++;
		g_sentm0 = aio->a_msg;
		__CPROVER_assert(aio == &g_pp0->aio_send, "pipe send uses that pipe's own send aio");
	} else if (p == g_pp1->pipe) {
		g_sent1++;
		g_sentm1 = aio->a_msg;
		__CPROVER_assert(aio == &g_pp1->aio_send, "pipe send uses that pipe's own send aio");
	} else if (p == g_pp2->pipe) {
		g_sent2++;
		g_sentm2 = aio->a_msg;
		__CPROVER_assert(aio == &g_pp2->aio_send, "pipe send uses that pipe's own send aio");
	} else {
		__CPROVER_assert(0, "pipe send on a pipe of this socket");
	}
	__CPROVER_assert(aio->a_msg != NULL, "pipe send with a message on the aio");
}
/* src/nng.c: the public free is the internal one */
void nng_msg_free(nng_msg *m) { nni_msg_free(m); }

/* statistics: no-ops */
void nni_stat_set_value(nni_stat_item *s, uint64_t v) { (void) s; (void) v; }
void nni_stat_init(nni_stat_item *s, const nni_stat_info *i) { (void) s; (void) i; }
void nni_sock_add_stat(nni_sock *s, nni_stat_item *i) { (void) s; (void) i; }

/* aio life cycle of the two per-pipe aios: ghost records */
size_t g_aio_init_calls, g_aio_stop_calls, g_aio_fini_calls;
nni_aio *g_aio_init_a, *g_aio_init_b; /* first / second aio initialised */
nni_cb   g_aio_init_cb_a, g_aio_init_cb_b;
void    *g_aio_init_arg_a, *g_aio_init_arg_b;
void
nni_aio_init(nni_aio *aio, nni_cb cb, void *arg)
{
	if (g_aio_init_calls == 0) {
		g_aio_init_a = aio; g_aio_init_cb_a = cb; g_aio_init_arg_a = arg;
	} else {
		g_aio_init_b = aio; g_aio_init_cb_b = cb; g_aio_init_arg_b = arg;
	}
	g_aio_init_calls++;
}
void nni_aio_stop(nni_aio *aio) { (void) aio; g_aio_stop_calls++; }
void nni_aio_fini(nni_aio *aio) { (void) aio; g_aio_fini_calls++; }

/* descriptor of a pollable: may fail (pipe creation), never changes the raised state */
int     g_getfd_rv, g_getfd_fd;
size_t  g_getfd_calls;
nng_err
nni_pollable_getfd(nni_pollable *p, int *fdp)
{
	__CPROVER_assert(p == g_pollr_addr || p == g_pollw_addr, "pollable of this socket");
	g_getfd_calls++;
	if (g_getfd_rv == 0) {
		*fdp = g_getfd_fd;
	}
	return ((nng_err) g_getfd_rv);
}
#endif
