/* included AFTER the real sources.  The real src/core/list.c is part of this TU (the
 * pipes sit on a real intrusive list); the two aio-wait-list stubs of env_proto.h that
 * share names with it are renamed away (pub.c has no aio wait lists); env_proto's
 * nni_pipe_send is wrapped by the per-pipe model of modules/pub/env.h */
#include "modules/sub/env_alloc.h"
#include "include/env_sync.h"
#define nni_list_first vp_unused_aioq_first
#define nni_list_empty vp_unused_aioq_empty
#define nni_pipe_send vp_proto_pipe_send
#define VP_PROTO_STUBS 1
#include "include/env_proto.h"
#undef nni_list_first
#undef nni_list_empty
#undef nni_pipe_send
#include "modules/pub/env.h"
