#define VP_HAVOC_GHOSTS()                         \
	do {                                      \
		g_k = nondet_size_t(); g_j = nondet_size_t(); g_b = nondet_u8(); \
		g_hk = nondet_size_t(); g_u32 = nondet_u32(); g_hb = nondet_u8(); \
		g_free_calls = nondet_size_t(); g_alloc_ok = nondet_size_t(); g_alloc_fail = nondet_size_t(); \
		g_msg_freed = nondet_size_t(); g_msg_freed_at_j = NULL; \
		g_sent0 = nondet_size_t(); g_sent1 = nondet_size_t(); g_sent2 = nondet_size_t(); \
		g_sentm0 = NULL; g_sentm1 = NULL; g_sentm2 = NULL; \
		g_aio_init_calls = 0; g_aio_init_a = NULL; g_aio_init_b = NULL; g_aio_init_cb_a = NULL; g_aio_init_cb_b = NULL; \
		g_aio_init_arg_a = NULL; g_aio_init_arg_b = NULL; \
		g_aio_stop_calls = nondet_size_t(); g_aio_fini_calls = nondet_size_t(); g_getfd_calls = nondet_size_t(); \
		g_getfd_rv = nondet_int(); g_getfd_fd = nondet_int(); \
		__CPROVER_assume(g_free_calls < ((size_t) 1 << 40) && g_alloc_ok < ((size_t) 1 << 40) && g_alloc_fail < ((size_t) 1 << 40) && g_msg_freed < ((size_t) 1 << 40)); \
		__CPROVER_assume(g_sent0 < ((size_t) 1 << 40) && g_sent1 < ((size_t) 1 << 40) && g_sent2 < ((size_t) 1 << 40)); \
		__CPROVER_assume(g_aio_stop_calls < ((size_t) 1 << 40) && g_aio_fini_calls < ((size_t) 1 << 40) && g_getfd_calls < ((size_t) 1 << 40)); \
		VP_HAVOC_PROTO(); VP_HAVOC_SYNC();    \
		/* "last seen" pointer records start as NULL (only ever compared) */ \
		g_pipe_close_last = NULL; g_pipe_recv_pipe = NULL; g_pipe_recv_aio = NULL; g_pipe_send_pipe = NULL; \
		g_pipe_send_aio = NULL; g_pipe_send_msg = NULL; g_fin_last = NULL; g_fin_last_msg = NULL; g_start_last = NULL; \
		g_qa.n = 0; g_qb.n = 0; g_qa.head = NULL; g_qa.tail = NULL; g_qb.head = NULL; g_qb.tail = NULL; g_last_app = NULL; \
		g_qa_addr = NULL; g_qb_addr = NULL; g_pollr_addr = NULL; g_pollw_addr = NULL; \
	} while (0)
/* typed allocation of an object that always exists, contents nondeterministic */
#define VP_NEW(T) ((T *) __CPROVER_allocate(sizeof(T), 0))
/* a queued message: real structure, real body buffer of PUB_QBODY bytes (its content plays no
 * role in pub.c; the size matters only to the sized free) */
#define PUB_QBODY 16
static nng_msg *vp_mk_qmsg(void)
{
	nng_msg *m        = VP_NEW(struct nng_msg);
	m->m_body.ch_cap  = PUB_QBODY;
	m->m_body.ch_buf  = (uint8_t *) __CPROVER_allocate(PUB_QBODY, 0);
	m->m_body.ch_ptr  = m->m_body.ch_buf;
	return (m);
}
/* the slots of a transmit queue, each holding a real message object */
static void vp_mk_ring(nni_lmq *q)
{
#ifdef PUB_INLINE
	q->lmq_msgs    = &q->lmq_buf[0];
	q->lmq_msgs[0] = vp_mk_qmsg(); q->lmq_msgs[1] = vp_mk_qmsg();
#else
	q->lmq_msgs    = (nng_msg **) __CPROVER_allocate(PUB_QSLOTS * sizeof(nng_msg *), 0);
	q->lmq_msgs[0] = vp_mk_qmsg(); q->lmq_msgs[1] = vp_mk_qmsg();
	q->lmq_msgs[2] = vp_mk_qmsg(); q->lmq_msgs[3] = vp_mk_qmsg();
#endif
}
static pub0_pipe *vp_mk_pipe(bool on)
{
	pub0_pipe *p    = VP_NEW(pub0_pipe);
	p->pub          = g_s;
	p->pipe         = (nni_pipe *) VP_NEW(uint32_t); /* transport pipe handle: an opaque cell */
	p->node.ln_next = NULL;
	p->node.ln_prev = NULL;
	vp_mk_ring(&p->sendq);
	if (on) {
		nni_list_append(&g_s->pipes, p); /* the real list code */
	}
	return (p);
}
#ifndef PUB_NPMIN
#define PUB_NPMIN 0
#endif
#ifndef PUB_NPMAX
#define PUB_NPMAX 3
#endif
static void vp_mk_pub(size_t np)
{
#if PUB_NPMIN == PUB_NPMAX
	np = PUB_NPMAX; /* a constant: the list shape is then concrete for symbolic execution */
#else
	__CPROVER_assume(np >= PUB_NPMIN && np <= PUB_NPMAX);
#endif
	g_np = np;
	g_s  = VP_NEW(pub0_sock);
	nni_list_init_offset(&g_s->pipes, offsetof(pub0_pipe, node));
	g_pp0 = vp_mk_pipe(np > 0);
	g_pp1 = vp_mk_pipe(np > 1);
	g_pp2 = vp_mk_pipe(np > 2);
	g_pollw_addr = &g_s->sendable;
}
void h_pub0_sock_send(void) { nni_aio *aio; VP_HAVOC_GHOSTS(); vp_mk_pub(nondet_size_t()); pub0_sock_send(g_s, aio); VP_CANARY(); }
void h_pub0_pipe_send_cb(void) { VP_HAVOC_GHOSTS(); vp_mk_pub(nondet_size_t()); pub0_pipe_send_cb(g_pp0); VP_CANARY(); }
void h_pub0_pipe_recv_cb(void) { VP_HAVOC_GHOSTS(); vp_mk_pub(nondet_size_t()); pub0_pipe_recv_cb(g_pp0); VP_CANARY(); }
void h_pub0_sock_recv(void) { nni_aio *aio; void *arg; VP_HAVOC_GHOSTS(); pub0_sock_recv(arg, aio); VP_CANARY(); }
void h_pub0_sock_get_sendfd(void) { int *fdp; VP_HAVOC_GHOSTS(); vp_mk_pub(nondet_size_t()); pub0_sock_get_sendfd(g_s, fdp); VP_CANARY(); }
void h_pub0_sock_set_sendbuf(void)
{
	const void *buf; size_t sz; nni_type t;
	VP_HAVOC_GHOSTS(); vp_mk_pub(nondet_size_t());
	(void) pub0_sock_set_sendbuf(g_s, buf, sz, t);
	VP_CANARY();
}
void h_pub0_sock_get_sendbuf(void)
{
	void *buf; size_t *szp; nni_type t;
	VP_HAVOC_GHOSTS(); vp_mk_pub(nondet_size_t());
	(void) pub0_sock_get_sendbuf(g_s, buf, szp, t);
	VP_CANARY();
}
void h_pub0_sock_init(void) { void *arg; nni_sock *ns; VP_HAVOC_GHOSTS(); pub0_sock_init(arg, ns); VP_CANARY(); }
void h_pub0_pipe_init(void)
{
	void *arg; nni_pipe *pipe;
	VP_HAVOC_GHOSTS(); vp_mk_pub(nondet_size_t());
	(void) pub0_pipe_init(arg, pipe, g_s);
	VP_CANARY();
}
void h_pub0_pipe_start(void)
{
	void *arg;
	VP_HAVOC_GHOSTS(); vp_mk_pub(nondet_size_t());
	__CPROVER_assume(g_np <= 2);
	arg = (g_np == 0 ? g_pp0 : (g_np == 1 ? g_pp1 : g_pp2)); /* the first unattached pipe */
	(void) pub0_pipe_start(arg);
	VP_CANARY();
}
void h_pub0_pipe_close(void)
{
	void *arg;
	VP_HAVOC_GHOSTS(); vp_mk_pub(nondet_size_t());
	/* case split over the pipe under contract (attached iff its number < g_np) */
#if !defined(PUB_CLOSE_IDX) || PUB_CLOSE_IDX == 0
	arg = g_pp0;
#elif PUB_CLOSE_IDX == 1
	arg = g_pp1;
#else
	arg = g_pp2;
#endif
	pub0_pipe_close(arg);
	VP_CANARY();
}
void h_pub0_pipe_stop(void) { VP_HAVOC_GHOSTS(); vp_mk_pub(nondet_size_t()); pub0_pipe_stop(g_pp0); VP_CANARY(); }
void h_pub0_pipe_fini(void) { VP_HAVOC_GHOSTS(); vp_mk_pub(nondet_size_t()); pub0_pipe_fini(g_pp0); VP_CANARY(); }
