/* Contracts for src/sp/protocol/reqrep0/rep.c (cooked REP; C04, C13, C11) */
#ifndef VP_REP_CONTRACTS_H
#define VP_REP_CONTRACTS_H
/* clang-format off */
#ifndef RV
#define RV __CPROVER_return_value
#endif
#ifndef OLD
#define OLD(e) __CPROVER_old(e)
#endif
#define RP ((rep0_pipe *) arg)
#define RS (((rep0_pipe *) arg)->rep)
#define RM (((rep0_pipe *) arg)->aio_recv.a_msg)
#define ROLDLEN OLD(RM->m_body.ch_len)
#define BT(c) ((uint8_t *) (c)->btrace)
/* pipe and socket are allocated by the harness (see spec.h, harness-built state) */
#define REP_PIPE_PRE (OBJ_OK(arg, struct rep0_pipe) && OBJ_OK(RS, struct rep0_sock) && DISTINCT(arg, RS))

/* ---- receive callback: backtrace walk, then delivery to the first waiting
 * context or holding (C04, C13, C11).  For ALL body bytes, every ttl 1..15. */
#ifdef RP_RECV_FAILED
static void rep0_pipe_recv_cb(void *arg)
__CPROVER_requires(REP_PIPE_PRE)
__CPROVER_requires(RR_TTL_OK(RS->ttl.v) && VP_NO_LOCK_HELD)
__CPROVER_requires(RP->aio_recv.a_result != 0)
/* (list shapes only keep the unreachable rest of the function cheap to encode) */
__CPROVER_requires(NODE_IDLE(&RP->rnode) && REP_RECVQ_PRE(RS) && REP_RECVPIPES_PRE(RS))
__CPROVER_assigns(VP_PROTO_GHOST_LIST)
__CPROVER_ensures(VP_NO_LOCK_HELD)
__CPROVER_ensures(g_pipe_close_calls == OLD(g_pipe_close_calls) + 1 && g_pipe_close_last == RP->pipe && g_pipe_recv_calls == OLD(g_pipe_recv_calls) && g_fin_calls == OLD(g_fin_calls))
;
#else
#define R_DISCONN (g_pipe_close_calls == OLD(g_pipe_close_calls) + 1)
#define R_REARMED (g_pipe_recv_calls == OLD(g_pipe_recv_calls) + 1)
#define R_FINISHED (g_fin_calls == OLD(g_fin_calls) + 1)
#define R_FREED __CPROVER_was_freed(OLD(RM))
#define R_SAMECLOSE (g_pipe_close_calls == OLD(g_pipe_close_calls))
#define R_SAMERECV (g_pipe_recv_calls == OLD(g_pipe_recv_calls))
#define R_SAMEFIN (g_fin_calls == OLD(g_fin_calls))
/* outcomes (told apart by what the environment saw; whether the message was freed is stated once) */
#define R_O_DISCONN (R_DISCONN && R_SAMERECV && R_SAMEFIN)
#define R_O_DROPPED (R_SAMECLOSE && R_REARMED && R_SAMEFIN)
#define R_O_DISCARD (R_SAMECLOSE && R_SAMERECV && R_SAMEFIN && RP->aio_recv.a_msg == NULL) /* pipe already closed */
#define R_O_HELD (R_SAMECLOSE && R_SAMERECV && R_SAMEFIN && RP->aio_recv.a_msg != NULL)    /* nobody waiting */
#define R_O_DELIVERED (R_SAMECLOSE && R_REARMED && R_FINISHED)
#define R_HL (OLD(RM)->m_header_len)
static void rep0_pipe_recv_cb(void *arg)
__CPROVER_requires(REP_PIPE_PRE)
__CPROVER_requires(RR_TTL_OK(RS->ttl.v) && VP_NO_LOCK_HELD)
__CPROVER_requires(RP->aio_recv.a_result == 0 && RR_WIRE_MSG(RM) && CH_GHOST_PRE(&RM->m_body) && RR_BODY_GHOSTS(RM))
/* the pipe is not yet on the list of pipes holding a request (one receive outstanding per pipe) */
__CPROVER_requires(NODE_IDLE(&RP->rnode) && RP->id == g_pipe_id)
__CPROVER_requires(REP_RECVQ_PRE(RS))
__CPROVER_requires(REP_RECVPIPES_PRE(RS))
__CPROVER_requires(g_pollr_addr == &RS->readable && g_pollw_addr == &RS->writable)
__CPROVER_assigns(RP->aio_recv.a_msg, RP->rnode, RS->recvq.ll_head, RS->recvpipes.ll_head, VP_PROTO_GHOST_LIST, VP_SYNC_GHOSTS, g_free_calls)
__CPROVER_assigns(*RM)
#if REP_RQ >= 1
__CPROVER_assigns(C1->raio, C1->rqnode, C1->btrace_len, C1->btrace, C1->pipe_id, C1->raio->a_msg)
#endif
#if REP_RQ == 2
__CPROVER_assigns(C2->rqnode)
#endif
#if REP_RP == 1
__CPROVER_assigns(P1->rnode)
#endif
__CPROVER_frees(RM, RM->m_body.ch_buf)
__CPROVER_ensures(VP_NO_LOCK_HELD)
/* ---- control flow, lists, scalar facts (every RR_TRACK level) ---- */
/* exactly one outcome; an accepted request on an open pipe goes to the first waiting context iff there is one */
#if REP_RQ == 0
__CPROVER_ensures(R_O_DISCONN || R_O_DROPPED || R_O_DISCARD || R_O_HELD)
__CPROVER_ensures(R_O_HELD ==> !RP->closed)
#else
__CPROVER_ensures(R_O_DISCONN || R_O_DROPPED || R_O_DISCARD || R_O_DELIVERED)
__CPROVER_ensures(R_O_DELIVERED ==> !RP->closed)
#endif
/* freed exactly when it is neither delivered nor held */
__CPROVER_ensures(R_FREED == (R_O_DISCONN || R_O_DROPPED || R_O_DISCARD))
__CPROVER_ensures(R_O_DISCARD ==> RP->closed)
/* disconnected ==> fewer than ttl complete words; never delivered, freed */
__CPROVER_ensures(R_O_DISCONN ==> (g_pipe_close_last == RP->pipe && RP->aio_recv.a_msg == NULL && (ROLDLEN >> 2) < (size_t) RS->ttl.v))
/* dropped ==> at least ttl complete words; NOT disconnected, receive re-armed */
__CPROVER_ensures(R_O_DROPPED ==> (g_pipe_recv_pipe == RP->pipe && g_pipe_recv_aio == &RP->aio_recv && RP->aio_recv.a_msg == NULL && (ROLDLEN >> 2) >= (size_t) RS->ttl.v))
#if REP_RQ == 0
/* held: the message stays with the pipe, header = n+1 <= ttl words (at most 64 bytes), body shorter by that; pipe queued last; socket readable */
__CPROVER_ensures(R_O_HELD ==> (RP->aio_recv.a_msg == OLD(RM) && R_HL >= 4 && (R_HL & 3) == 0 && R_HL <= MSG_HDRCAP && (R_HL >> 2) <= (size_t) RS->ttl.v
    && R_HL <= ROLDLEN && OLD(RM)->m_body.ch_len == ROLDLEN - R_HL && OLD(RM)->m_pipe == RP->id && g_pollr))
#if REP_RP == 0
__CPROVER_ensures(R_O_HELD ==> LIST_IS_ONE(&RS->recvpipes, &RP->rnode))
__CPROVER_ensures(!R_O_HELD ==> (LIST_IS_EMPTY(&RS->recvpipes) && NODE_IDLE(&RP->rnode)))
#else
__CPROVER_ensures(R_O_HELD ==> LIST_IS_TWO(&RS->recvpipes, &P1->rnode, &RP->rnode))
__CPROVER_ensures(!R_O_HELD ==> (LIST_IS_ONE(&RS->recvpipes, &P1->rnode) && NODE_IDLE(&RP->rnode)))
#endif
__CPROVER_ensures(LIST_IS_EMPTY(&RS->recvq))
#else
/* delivered: exactly the FIRST waiting context gets it, once; that context captures n+1 <= ttl words and
 * the origin pipe id; the application sees no header; the next receive is armed */
__CPROVER_ensures(R_O_DELIVERED ==> (RP->aio_recv.a_msg == NULL && g_fin_last == OLD(C1->raio) && g_fin_last_rv == 0 && g_fin_last_msg == OLD(RM) && C1->raio == NULL
    && C1->btrace_len >= 4 && (C1->btrace_len & 3) == 0 && C1->btrace_len <= MSG_HDRCAP && (C1->btrace_len >> 2) <= (size_t) RS->ttl.v
    && C1->pipe_id == RP->id && R_HL == 0 && OLD(RM)->m_pipe == RP->id
    && C1->btrace_len <= ROLDLEN && OLD(RM)->m_body.ch_len == ROLDLEN - C1->btrace_len && g_fin_last_count == OLD(RM)->m_body.ch_len
    && g_pipe_recv_pipe == RP->pipe && g_pipe_recv_aio == &RP->aio_recv && NODE_IDLE(&C1->rqnode)))
/* the socket becomes writable when its own context got the request and the origin pipe is free */
__CPROVER_ensures((R_O_DELIVERED && g_c1_master && !RP->busy) ==> g_pollw)
/* nothing but delivery touches a context or the context queue; delivery removes exactly the first */
#if REP_RQ == 1
__CPROVER_ensures(R_O_DELIVERED ==> LIST_IS_EMPTY(&RS->recvq))
__CPROVER_ensures(!R_O_DELIVERED ==> (LIST_IS_ONE(&RS->recvq, &C1->rqnode) && C1->raio == OLD(C1->raio) && C1->btrace_len == OLD(C1->btrace_len) && C1->pipe_id == OLD(C1->pipe_id)))
#else
__CPROVER_ensures(R_O_DELIVERED ==> LIST_IS_ONE(&RS->recvq, &C2->rqnode))
__CPROVER_ensures(!R_O_DELIVERED ==> (LIST_IS_TWO(&RS->recvq, &C1->rqnode, &C2->rqnode) && C1->raio == OLD(C1->raio) && C1->btrace_len == OLD(C1->btrace_len) && C1->pipe_id == OLD(C1->pipe_id)))
#endif
__CPROVER_ensures(LIST_IS_EMPTY(&RS->recvpipes) && NODE_IDLE(&RP->rnode))
#endif
#if RR_TRACK >= 1
/* ---- class facts and the rest of the body (ghost byte: g_b = old body byte g_k, for EVERY g_k) ---- */
/* disconnected ==> GARBAGE: none of the complete words is a request id */
__CPROVER_ensures(R_O_DISCONN ==> RR_NO_END_BELOW(ROLDLEN >> 2))
/* dropped ==> TOOMANY: none of the first ttl words is a request id */
__CPROVER_ensures(R_O_DROPPED ==> RR_NO_END_BELOW(RS->ttl.v))
#if REP_RQ == 0
/* held ==> ACCEPT: the last moved word is the first with the high bit; the rest of the body is unchanged */
__CPROVER_ensures(R_O_HELD ==> (RR_NO_END_BELOW((R_HL >> 2) - 1) && (g_k == R_HL - 4 ==> RR_HB(g_b))))
__CPROVER_ensures((R_O_HELD && g_k >= R_HL && g_k < ROLDLEN) ==> OLD(RM)->m_body.ch_ptr[g_k - R_HL] == g_b)
#else
/* delivered ==> ACCEPT, the application sees the body behind the request id unchanged */
__CPROVER_ensures(R_O_DELIVERED ==> (RR_NO_END_BELOW((C1->btrace_len >> 2) - 1) && (g_k == C1->btrace_len - 4 ==> RR_HB(g_b))))
__CPROVER_ensures((R_O_DELIVERED && g_k >= C1->btrace_len && g_k < ROLDLEN) ==> OLD(RM)->m_body.ch_ptr[g_k - C1->btrace_len] == g_b)
#endif
#endif
#if RR_TRACK == 2
/* ---- content of the backtrace: the moved words, byte for byte, in order ---- */
#if REP_RQ == 0
__CPROVER_ensures((R_O_HELD && g_k < R_HL) ==> HDR(OLD(RM))[g_k] == g_b)
#else
__CPROVER_ensures((R_O_DELIVERED && g_k < C1->btrace_len) ==> BT(C1)[g_k] == g_b)
#endif
#endif
;
#endif

/* ===================================================================== */
/* Context operations.  The context under contract is `arg`; it is the socket's
 * own context (-DREP_C1M=1) or a separately allocated one (-DREP_C1M=0). */
#define SOCK ((rep0_sock *) g_sock)
#define CTX ((rep0_ctx *) arg)
/* Socket, context, pipes and the lists are allocated and linked by the harness (see spec.h, harness-built
 * state); the contract states the same facts as plain conditions. */
#if REP_C1M == 1
#define REP_CTX_PRE (OBJ_OK(g_sock, struct rep0_sock) && arg == (void *) &SOCK->ctx && CTX->sock == SOCK)
#else
#define REP_CTX_PRE (OBJ_OK(g_sock, struct rep0_sock) && OBJ_OK(arg, struct rep0_ctx) && DISTINCT(arg, g_sock) && CTX->sock == SOCK)
#endif
#define SM (aio->a_msg)
#define SPIPE ((rep0_pipe *) g_rr.idm_val)

/* ---- rep0_ctx_send (C04): the reply goes only to the pipe, and with the backtrace, of the request this
 * context received last; the captured state is consumed, so a second send fails with NNG_ESTATE ----
 * -DREP_SQ=n: number of OTHER contexts already queued on the target pipe (0 or 1). */
#define S_FIN1 (g_fin_calls == OLD(g_fin_calls) + 1 && g_fin_last == aio)
#define S_NOSEND (g_pipe_send_calls == OLD(g_pipe_send_calls))
#define S_OLDLEN OLD(CTX->btrace_len)
#define S_REJECT (OLD(CTX->saio) != NULL)
#define S_ESTATE (!S_REJECT && S_OLDLEN == 0)
/* -DREP_HAS=0: no pipe is registered under the captured pipe id (requester gone); =1: there is one */
#if REP_HAS == 0
#define S_GONE (!S_REJECT && S_OLDLEN > 0)
#else
#define S_NOW (!S_REJECT && S_OLDLEN > 0 && !OLD(SPIPE->busy))
#define S_WAIT (!S_REJECT && S_OLDLEN > 0 && OLD(SPIPE->busy))
#endif
static void rep0_ctx_send(void *arg, nni_aio *aio)
__CPROVER_requires(REP_CTX_PRE && VP_NO_LOCK_HELD)
__CPROVER_requires(__CPROVER_is_fresh(aio, sizeof(nni_aio)) && MSG_PRE(SM) && SM->m_refcnt.v == 1)
__CPROVER_requires(CH_GHOST_PRE(&SM->m_body))
/* state invariant of the context: the backtrace fits the header; queued on a pipe iff a send is pending */
__CPROVER_requires(CTX->btrace_len <= MSG_HDRCAP)
__CPROVER_requires(CTX->saio == NULL ? NODE_IDLE(&CTX->sqnode) : (CTX->sqnode.ln_next != NULL && CTX->sqnode.ln_prev != NULL))
/* ghost equations: g_hb = captured backtrace byte g_hk; the tracked key of the pipe map is the captured pipe id */
__CPROVER_requires((g_hk < CTX->btrace_len) ==> g_hb == BT(CTX)[g_hk])
__CPROVER_requires(g_idm_addr == &SOCK->pipes && g_idm_key == (uint64_t) CTX->pipe_id)
#if REP_HAS == 0
__CPROVER_requires(!g_rr.idm_has)
#else
__CPROVER_requires(g_rr.idm_has && OBJ_OK(g_rr.idm_val, struct rep0_pipe) && DISTINCT(g_rr.idm_val, g_sock) && DISTINCT(g_rr.idm_val, arg) && SPIPE->sendq.ll_offset == OFF_SQ &&
#if REP_SQ == 0
    LIST_IS_EMPTY(&SPIPE->sendq)
#else
    OBJ_OK(g_c2, struct rep0_ctx) && DISTINCT(g_c2, g_sock) && DISTINCT(g_c2, arg) && DISTINCT(g_c2, g_rr.idm_val) && LIST_IS_ONE(&SPIPE->sendq, &C2->sqnode)
#endif
    )
#endif
__CPROVER_requires(g_pollr_addr == &SOCK->readable && g_pollw_addr == &SOCK->writable)
#if REP_HAS == 1
/* (repx) state invariant, C15: while a pipe is busy the socket does not advertise it as the free reply path of its own context */
__CPROVER_requires((SPIPE->busy && SOCK->ctx.pipe_id == SPIPE->id) ==> !g_pollw)
#endif
__CPROVER_assigns(aio->a_msg, aio->a_result, aio->a_count, CTX->btrace_len, CTX->pipe_id, CTX->saio, CTX->spipe, CTX->sqnode, VP_PROTO_GHOST_LIST, VP_RR_GHOST_LIST, VP_REPX_GHOST_LIST, VP_SYNC_GHOSTS, g_free_calls)
__CPROVER_assigns(*SM)
#if REP_HAS == 1
__CPROVER_assigns(SPIPE->busy, SPIPE->aio_send.a_msg, SPIPE->sendq.ll_head)
#if REP_SQ == 1
__CPROVER_assigns(C2->sqnode)
#endif
#endif
__CPROVER_frees(SM, SM->m_body.ch_buf)
__CPROVER_ensures(VP_NO_LOCK_HELD)
/* out-of-order use: a reply of this context is still queued => rejected with NNG_ESTATE, nothing consumed, nothing sent */
__CPROVER_ensures(S_REJECT ==> (S_FIN1 && g_fin_last_rv == NNG_ESTATE && aio->a_msg == OLD(SM) && !__CPROVER_was_freed(OLD(SM)) && S_NOSEND && g_start_calls == OLD(g_start_calls)
    && CTX->saio == OLD(CTX->saio) && CTX->btrace_len == S_OLDLEN && CTX->pipe_id == OLD(CTX->pipe_id)))
/* otherwise the captured request is consumed whatever happens: the next send without a receive is refused */
__CPROVER_ensures(!S_REJECT ==> (CTX->btrace_len == 0 && CTX->pipe_id == 0))
#if REP_C1M == 1
__CPROVER_ensures(!S_REJECT ==> !g_pollw)
#endif
/* send before receive: NNG_ESTATE, the message stays with the caller, nothing is sent */
__CPROVER_ensures(S_ESTATE ==> (S_FIN1 && g_fin_last_rv == NNG_ESTATE && aio->a_msg == OLD(SM) && !__CPROVER_was_freed(OLD(SM)) && S_NOSEND && g_start_calls == OLD(g_start_calls)))
#if REP_HAS == 0
/* the requester's pipe is gone: discarded, reported as sent */
__CPROVER_ensures(S_GONE ==> (S_FIN1 && g_fin_last_rv == 0 && g_fin_last_count == OLD(SM->m_body.ch_len) && aio->a_msg == NULL && __CPROVER_was_freed(OLD(SM)) && S_NOSEND && g_start_calls == OLD(g_start_calls)))
#else
/* pipe idle: sent now, to exactly the pipe registered under the captured pipe id, header = exactly the captured backtrace, body unchanged */
__CPROVER_ensures(S_NOW ==> (g_pipe_send_calls == OLD(g_pipe_send_calls) + 1 && g_pipe_send_pipe == SPIPE->pipe && g_pipe_send_aio == &SPIPE->aio_send && g_pipe_send_msg == OLD(SM) && SPIPE->busy
    && !__CPROVER_was_freed(OLD(SM)) && OLD(SM)->m_header_len == S_OLDLEN && OLD(SM)->m_body.ch_len == OLD(SM->m_body.ch_len)
    && S_FIN1 && g_fin_last_rv == 0 && g_fin_last_count == OLD(SM->m_body.ch_len) && aio->a_msg == NULL && g_start_calls == OLD(g_start_calls) && CTX->saio == NULL))
__CPROVER_ensures((S_NOW && g_hk < S_OLDLEN) ==> HDR(OLD(SM))[g_hk] == g_hb)
__CPROVER_ensures((S_NOW && g_k < OLD(SM->m_body.ch_len)) ==> OLD(SM)->m_body.ch_ptr[g_k] == g_b)
/* pipe busy: waits behind the replies already queued on that pipe (or is refused by the aio layer: nothing queued);
 * the message stays attached with the backtrace as header */
__CPROVER_ensures(S_WAIT ==> (S_NOSEND && g_fin_calls == OLD(g_fin_calls) && g_start_calls == OLD(g_start_calls) + 1 && g_start_last == aio && aio->a_msg == OLD(SM) && !__CPROVER_was_freed(OLD(SM))
    && OLD(SM)->m_header_len == S_OLDLEN))
__CPROVER_ensures((S_WAIT && g_hk < S_OLDLEN) ==> HDR(OLD(SM))[g_hk] == g_hb)
__CPROVER_ensures((S_WAIT && g_aio_start_ok) ==> (CTX->saio == aio && CTX->spipe == SPIPE &&
#if REP_SQ == 0
    LIST_IS_ONE(&SPIPE->sendq, &CTX->sqnode)
#else
    LIST_IS_TWO(&SPIPE->sendq, &C2->sqnode, &CTX->sqnode)
#endif
    ))
__CPROVER_ensures((S_WAIT && !g_aio_start_ok) ==> (CTX->saio == NULL && NODE_IDLE(&CTX->sqnode) &&
#if REP_SQ == 0
    LIST_IS_EMPTY(&SPIPE->sendq)
#else
    LIST_IS_ONE(&SPIPE->sendq, &C2->sqnode)
#endif
    ))
/* (repx) C15: the invariant is kept: a reply of ANY context that makes the pipe busy takes away the socket's
 * "can send" indication when the socket's own context holds a request of that same pipe */
__CPROVER_ensures((SPIPE->busy && SOCK->ctx.pipe_id == SPIPE->id) ==> !g_pollw)
#endif
/* (repx) C02: exactly one completion of this aio on every path that completes here, none of any other aio */
__CPROVER_ensures(WA_NONE_IF(g_wa != (void *) aio))
;

/* ---- rep0_ctx_recv (C04): captures the backtrace and the origin pipe of the request it delivers;
 * a second concurrent receive is refused with NNG_ESTATE ----
 * -DREP_RP=0: no pipe holds a request (-DREP_RQ=0: nobody waits, 1: another context waits, 2: THIS context already waits)
 * -DREP_RP=1|2: that many pipes hold a request (then, by the state invariant of rep.c, nobody waits) */
#define RCV_P1M (P1->aio_recv.a_msg)
#if REP_RP == 0
#if REP_RQ == 0
#define RCV_OFFS (SOCK->recvq.ll_offset == OFF_RQ && SOCK->recvpipes.ll_offset == OFF_RP)
#define RCV_LISTS (RCV_OFFS && CTX->raio == NULL && NODE_IDLE(&CTX->rqnode) && LIST_IS_EMPTY(&SOCK->recvq) && LIST_IS_EMPTY(&SOCK->recvpipes))
#elif REP_RQ == 1
#define RCV_OFFS (SOCK->recvq.ll_offset == OFF_RQ && SOCK->recvpipes.ll_offset == OFF_RP)
#define RCV_LISTS (RCV_OFFS && CTX->raio == NULL && NODE_IDLE(&CTX->rqnode) && OBJ_OK(g_c2, struct rep0_ctx) && DISTINCT(g_c2, g_sock) && DISTINCT(g_c2, arg) && LIST_IS_ONE(&SOCK->recvq, &C2->rqnode) && LIST_IS_EMPTY(&SOCK->recvpipes))
#else
#define RCV_OFFS (SOCK->recvq.ll_offset == OFF_RQ && SOCK->recvpipes.ll_offset == OFF_RP)
#define RCV_LISTS (RCV_OFFS && __CPROVER_is_fresh(CTX->raio, sizeof(nni_aio)) && LIST_IS_ONE(&SOCK->recvq, &CTX->rqnode) && LIST_IS_EMPTY(&SOCK->recvpipes))
#endif
static void rep0_ctx_recv(void *arg, nni_aio *aio)
__CPROVER_requires(REP_CTX_PRE && VP_NO_LOCK_HELD)
__CPROVER_requires(__CPROVER_is_fresh(aio, sizeof(nni_aio)))
__CPROVER_requires(RCV_LISTS)
__CPROVER_requires(g_pollr_addr == &SOCK->readable && g_pollw_addr == &SOCK->writable)
__CPROVER_assigns(CTX->raio, CTX->rqnode, SOCK->recvq.ll_head, VP_PROTO_GHOST_LIST, VP_SYNC_GHOSTS)
#if REP_RQ == 1
__CPROVER_assigns(C2->rqnode)
#endif
__CPROVER_ensures(VP_NO_LOCK_HELD)
/* nothing to deliver: the operation must wait, so the aio layer is consulted exactly once (C15) */
__CPROVER_ensures(g_start_calls == OLD(g_start_calls) + 1 && g_start_last == aio && g_pipe_recv_calls == OLD(g_pipe_recv_calls))
/* the captured reply state is not touched by a receive that delivers nothing */
__CPROVER_ensures(CTX->btrace_len == OLD(CTX->btrace_len) && CTX->pipe_id == OLD(CTX->pipe_id))
#if REP_RQ == 2
/* second concurrent receive: NNG_ESTATE; the first one is not disturbed */
__CPROVER_ensures(g_aio_start_ok ==> (g_fin_calls == OLD(g_fin_calls) + 1 && g_fin_last == aio && g_fin_last_rv == NNG_ESTATE))
__CPROVER_ensures(!g_aio_start_ok ==> g_fin_calls == OLD(g_fin_calls))
__CPROVER_ensures(CTX->raio == OLD(CTX->raio) && LIST_IS_ONE(&SOCK->recvq, &CTX->rqnode))
#else
__CPROVER_ensures(g_fin_calls == OLD(g_fin_calls))
__CPROVER_ensures(g_aio_start_ok ==> (CTX->raio == aio &&
#if REP_RQ == 0
    LIST_IS_ONE(&SOCK->recvq, &CTX->rqnode)
#else
    LIST_IS_TWO(&SOCK->recvq, &C2->rqnode, &CTX->rqnode)
#endif
    ))
__CPROVER_ensures(!g_aio_start_ok ==> (CTX->raio == NULL && NODE_IDLE(&CTX->rqnode) &&
#if REP_RQ == 0
    LIST_IS_EMPTY(&SOCK->recvq)
#else
    LIST_IS_ONE(&SOCK->recvq, &C2->rqnode)
#endif
    ))
#endif
;
#else /* REP_RP >= 1 */
#if REP_RP == 1
#define RCV_PIPES (SOCK->recvpipes.ll_offset == OFF_RP && OBJ_OK(g_p1, struct rep0_pipe) && DISTINCT(g_p1, g_sock) && DISTINCT(g_p1, arg) && LIST_IS_ONE(&SOCK->recvpipes, &P1->rnode))
#else
#define RCV_PIPES (SOCK->recvpipes.ll_offset == OFF_RP && OBJ_OK(g_p1, struct rep0_pipe) && DISTINCT(g_p1, g_sock) && DISTINCT(g_p1, arg) && OBJ_OK(g_p2, struct rep0_pipe) && DISTINCT(g_p2, g_sock) && DISTINCT(g_p2, arg) && DISTINCT(g_p2, g_p1) && LIST_IS_TWO(&SOCK->recvpipes, &P1->rnode, &((rep0_pipe *) g_p2)->rnode))
#endif
static void rep0_ctx_recv(void *arg, nni_aio *aio)
__CPROVER_requires(REP_CTX_PRE && VP_NO_LOCK_HELD)
__CPROVER_requires(__CPROVER_is_fresh(aio, sizeof(nni_aio)))
__CPROVER_requires(CTX->raio == NULL && NODE_IDLE(&CTX->rqnode) && SOCK->recvq.ll_offset == OFF_RQ && LIST_IS_EMPTY(&SOCK->recvq))
__CPROVER_requires(RCV_PIPES)
/* the first pipe holds an accepted request: header = backtrace (at most 64 bytes), see rep0_pipe_recv_cb */
__CPROVER_requires(MSG_PRE(RCV_P1M) && RCV_P1M->m_refcnt.v == 1 && CH_GHOST_PRE(&RCV_P1M->m_body) && HDR_GHOST_PRE(RCV_P1M))
__CPROVER_requires(g_pollr_addr == &SOCK->readable && g_pollw_addr == &SOCK->writable)
__CPROVER_assigns(aio->a_msg, CTX->btrace_len, CTX->btrace, CTX->pipe_id, SOCK->recvpipes.ll_head, P1->rnode, P1->aio_recv.a_msg, RCV_P1M->m_header_len, VP_PROTO_GHOST_LIST, VP_SYNC_GHOSTS)
#if REP_RP == 2
__CPROVER_assigns(((rep0_pipe *) g_p2)->rnode)
#endif
__CPROVER_ensures(VP_NO_LOCK_HELD)
/* can proceed: completed in the call with the request of the FIRST holding pipe; the aio layer is not consulted (C15) */
__CPROVER_ensures(g_start_calls == OLD(g_start_calls) && g_fin_calls == OLD(g_fin_calls) + 1 && g_fin_last == aio && g_fin_last_rv == 0 && g_fin_last_msg == OLD(RCV_P1M) && aio->a_msg == OLD(RCV_P1M)
    && g_fin_last_count == OLD(RCV_P1M->m_body.ch_len) && CTX->raio == NULL)
/* the context captures exactly the backtrace of THAT request and the id of the pipe it came from */
__CPROVER_ensures(CTX->btrace_len == OLD(RCV_P1M->m_header_len) && CTX->pipe_id == g_pipe_id)
__CPROVER_ensures((g_hk < OLD(RCV_P1M->m_header_len)) ==> BT(CTX)[g_hk] == g_hb)
/* the application gets the body unchanged and no header */
__CPROVER_ensures(aio->a_msg->m_header_len == 0 && aio->a_msg->m_body.ch_len == OLD(RCV_P1M->m_body.ch_len))
__CPROVER_ensures((g_k < OLD(RCV_P1M->m_body.ch_len)) ==> aio->a_msg->m_body.ch_ptr[g_k] == g_b)
/* that pipe is armed for its next request and leaves the holding list; readable iff another pipe still holds one */
__CPROVER_ensures(P1->aio_recv.a_msg == NULL && g_pipe_recv_calls == OLD(g_pipe_recv_calls) + 1 && g_pipe_recv_pipe == P1->pipe && g_pipe_recv_aio == &P1->aio_recv && NODE_IDLE(&P1->rnode))
#if REP_RP == 1
__CPROVER_ensures(LIST_IS_EMPTY(&SOCK->recvpipes) && !g_pollr)
#else
__CPROVER_ensures(LIST_IS_ONE(&SOCK->recvpipes, &((rep0_pipe *) g_p2)->rnode) && g_pollr == OLD(g_pollr))
#endif
#if REP_C1M == 1
__CPROVER_ensures(!P1->busy ==> g_pollw)
#endif
;
#endif

/* ===================================================================== */
/* ===== module repx: the functions of rep.c not covered by module rep ===== */
/* ===================================================================== */
/* Shapes (constant per unit, built by the harness, restated here as plain conditions):
 *   -DXQ_SQ=0|1|2  contexts queued on the pipe's send queue (pipe units): C1 first, C2 second;
 *                  -DREP_C1M=1: C1 is the socket's own context
 *   -DXQ_RP=0..4   s->recvpipes (rep0_pipe_close): 0 empty, pipe idle; 1 the pipe alone; 2 the pipe, then P1;
 *                  3 P1, then the pipe; 4 P1 alone, pipe idle
 *   -DXQ_CS=0..3   where the context under contract sits on its pipe's send queue (context units):
 *                  0 no send pending; 1 alone; 2 first, C1 behind it; 3 C1 first, the context behind it
 *   -DXQ_CR=0..3   the same for s->recvq with C2 as the other context
 * Waiting aios of queued contexts are objects built by the harness (g_a1, g_a2); messages are is_fresh. */
#ifndef XQ_SQ
#define XQ_SQ 0
#endif
#ifndef XQ_RP
#define XQ_RP 0
#endif
#ifndef XQ_CS
#define XQ_CS 0
#endif
#ifndef XQ_CR
#define XQ_CR 0
#endif
#define XP ((rep0_pipe *) arg)
#define XS (XP->rep)
#define A1 ((nni_aio *) g_a1)
#define A2 ((nni_aio *) g_a2)
#define XPIPE_PRE (OBJ_OK(arg, struct rep0_pipe) && OBJ_OK(XS, struct rep0_sock) && DISTINCT(arg, XS) && (void *) XS == g_sock && XS->ctx.sock == XS && XP->id == g_pipe_id)
#define XPOLL_PRE(s) (g_pollr_addr == &(s)->readable && g_pollw_addr == &(s)->writable)
/* a context waiting on this pipe's send queue: its send aio holds the reply (backtrace already in the header) */
#define XQCTX_PRE(c, a) ((c)->saio == (nni_aio *) (a) && OBJ_OK((a), struct nng_aio) && (c)->spipe == XP && MSG_PRE(((nni_aio *) (a))->a_msg) && ((nni_aio *) (a))->a_msg->m_refcnt.v == 1)
#if XQ_SQ == 0
#define XSENDQ_PRE (XP->sendq.ll_offset == OFF_SQ && LIST_IS_EMPTY(&XP->sendq))
#elif XQ_SQ == 1
#define XSENDQ_PRE (XP->sendq.ll_offset == OFF_SQ && REP_C1_PRE(XS) && DISTINCT(g_c1, arg) && LIST_IS_ONE(&XP->sendq, &C1->sqnode) && XQCTX_PRE(C1, g_a1))
#else
#define XSENDQ_PRE (XP->sendq.ll_offset == OFF_SQ && REP_C1_PRE(XS) && DISTINCT(g_c1, arg) && OBJ_OK(g_c2, struct rep0_ctx) && DISTINCT(g_c2, XS) && DISTINCT(g_c2, g_c1) && DISTINCT(g_c2, arg) \
    && DISTINCT(g_a1, g_a2) && LIST_IS_TWO(&XP->sendq, &C1->sqnode, &C2->sqnode) && XQCTX_PRE(C1, g_a1) && XQCTX_PRE(C2, g_a2))
#endif
#define XM1 (A1->a_msg)
#define XM2 (A2->a_msg)

/* ---- rep0_pipe_send_cb (C04, C02, C03, C15): the transport finished sending a reply on this pipe.
 * Failure: the unsent reply is released exactly once and the peer disconnected.  Success: the FIRST queued
 * reply of this pipe goes on the wire, exactly once, its context's send completes exactly once with
 * success and the context is free for its next request; nothing queued: the pipe becomes idle and the
 * socket writable iff the socket's own context holds a request of this pipe. */
#define XAM (XP->aio_send.a_msg)
#ifdef XQ_SEND_FAILED
static void rep0_pipe_send_cb(void *arg)
__CPROVER_requires(XPIPE_PRE && VP_NO_LOCK_HELD && XP->aio_send.a_result != 0)
__CPROVER_requires(XAM == NULL || (__CPROVER_is_fresh(XAM, sizeof(struct nng_msg)) && XAM->m_refcnt.v == 1 && XAM->m_header_len <= MSG_HDRCAP && CH_FULL_PRE(&XAM->m_body)))
__CPROVER_assigns(XP->aio_send.a_msg, VP_PROTO_GHOST_LIST, VP_REPX_GHOST_LIST, g_free_calls)
__CPROVER_assigns(XAM != NULL: *XAM)
__CPROVER_frees(XAM != NULL: XAM, XAM->m_body.ch_buf)
__CPROVER_ensures(VP_NO_LOCK_HELD && XP->aio_send.a_msg == NULL)
/* the peer is disconnected once; nothing is sent, nobody completed, the queue is left to rep0_pipe_close */
__CPROVER_ensures(g_pipe_close_calls == OLD(g_pipe_close_calls) + 1 && g_pipe_close_last == XP->pipe && g_pipe_send_calls == OLD(g_pipe_send_calls) && g_fin_calls == OLD(g_fin_calls) && WA_NONE_IF(1))
/* C03: released exactly once: the message block and its body buffer */
__CPROVER_ensures(OLD(XAM) != NULL ==> (__CPROVER_was_freed(OLD(XAM)) && g_free_calls == OLD(g_free_calls) + 2))
__CPROVER_ensures(OLD(XAM) == NULL ==> g_free_calls == OLD(g_free_calls))
__CPROVER_ensures(g_pollr == OLD(g_pollr) && g_pollw == OLD(g_pollw))
;
#else
static void rep0_pipe_send_cb(void *arg)
__CPROVER_requires(XPIPE_PRE && VP_NO_LOCK_HELD && XP->aio_send.a_result == 0)
__CPROVER_requires(XSENDQ_PRE && XPOLL_PRE(XS))
#if XQ_SQ >= 1
__CPROVER_requires(HDR_GHOST_PRE(XM1) && CH_GHOST_PRE(&XM1->m_body))
#endif
__CPROVER_assigns(XP->busy, XP->aio_send.a_msg, XP->sendq.ll_head, VP_PROTO_GHOST_LIST, VP_REPX_GHOST_LIST, VP_SYNC_GHOSTS)
#if XQ_SQ >= 1
__CPROVER_assigns(C1->saio, C1->spipe, C1->sqnode, A1->a_msg)
#endif
#if XQ_SQ == 2
__CPROVER_assigns(C2->sqnode)
#endif
__CPROVER_ensures(VP_NO_LOCK_HELD)
__CPROVER_ensures(g_pipe_close_calls == OLD(g_pipe_close_calls) && g_pipe_recv_calls == OLD(g_pipe_recv_calls) && g_start_calls == OLD(g_start_calls) && g_pollr == OLD(g_pollr))
#if XQ_SQ == 0
/* nothing queued: the pipe is idle; nothing sent, nobody completed */
__CPROVER_ensures(!XP->busy && g_pipe_send_calls == OLD(g_pipe_send_calls) && g_fin_calls == OLD(g_fin_calls) && WA_NONE_IF(1) && LIST_IS_EMPTY(&XP->sendq))
/* C15: the socket's own context holds a request of this pipe: its reply can go out at once now */
__CPROVER_ensures((XP->id == XS->ctx.pipe_id) ? g_pollw : (g_pollw == OLD(g_pollw)))
#else
/* the FIRST queued reply goes on the wire of THIS pipe, exactly once; the pipe stays busy */
__CPROVER_ensures(XP->busy && g_pipe_send_calls == OLD(g_pipe_send_calls) + 1 && g_pipe_send_pipe == XP->pipe && g_pipe_send_aio == &XP->aio_send && g_pipe_send_msg == OLD(XM1) && XP->aio_send.a_msg == OLD(XM1))
/* its context's send completes exactly once, with success and the body length; the message has left the aio (owner: the pipe) */
__CPROVER_ensures(g_fin_calls == OLD(g_fin_calls) + 1 && g_fin_last == A1 && g_fin_last_rv == 0 && g_fin_last_count == OLD(XM1->m_body.ch_len) && g_fin_last_msg == NULL && A1->a_msg == NULL)
__CPROVER_ensures(WA_ONCE(A1, 0, OLD(XM1->m_body.ch_len), NULL) && WA_NONE_IF(g_wa != g_a1))
/* the context is off the queue and may send again after its next receive */
__CPROVER_ensures(C1->saio == NULL && C1->spipe == NULL && NODE_IDLE(&C1->sqnode) && g_pollw == OLD(g_pollw))
/* C13: what goes on the wire is the queued message as it was: header (the backtrace) and body, byte for byte */
__CPROVER_ensures(g_pipe_send_msg->m_header_len == OLD(XM1->m_header_len) && g_pipe_send_msg->m_body.ch_len == OLD(XM1->m_body.ch_len))
__CPROVER_ensures((g_hk < OLD(XM1->m_header_len)) ==> HDR(g_pipe_send_msg)[g_hk] == g_hb)
__CPROVER_ensures((g_k < OLD(XM1->m_body.ch_len)) ==> g_pipe_send_msg->m_body.ch_ptr[g_k] == g_b)
#if XQ_SQ == 1
__CPROVER_ensures(LIST_IS_EMPTY(&XP->sendq))
#else
/* queue order: the second one is now first, still waiting with its message */
__CPROVER_ensures(LIST_IS_ONE(&XP->sendq, &C2->sqnode) && C2->saio == A2 && C2->spipe == XP && A2->a_msg == OLD(XM2))
#endif
#endif
;
#endif

/* ---- rep0_pipe_close (C04, C02, C03, C15): every reply queued for the closing pipe is reported as sent
 * (exactly once each) and its message released exactly once; the pipe is no longer a reply target: its id
 * leaves the pipe map, so a context that captured a request of this pipe gets its reply discarded by
 * rep0_ctx_send (units rep0_ctx_send_*_gone of module rep), never sent to another pipe; a request the pipe
 * still held is no longer receivable and the poll flags mirror the new state. */
#if XQ_RP == 0
#define XRECVP_PRE (XS->recvpipes.ll_offset == OFF_RP && LIST_IS_EMPTY(&XS->recvpipes) && NODE_IDLE(&XP->rnode))
#define XRECVP_POST (LIST_IS_EMPTY(&XS->recvpipes))
#elif XQ_RP == 1
#define XRECVP_PRE (XS->recvpipes.ll_offset == OFF_RP && LIST_IS_ONE(&XS->recvpipes, &XP->rnode))
#define XRECVP_POST (LIST_IS_EMPTY(&XS->recvpipes))
#elif XQ_RP == 2
#define XRECVP_PRE (XS->recvpipes.ll_offset == OFF_RP && OBJ_OK(g_p1, struct rep0_pipe) && DISTINCT(g_p1, XS) && DISTINCT(g_p1, arg) && LIST_IS_TWO(&XS->recvpipes, &XP->rnode, &P1->rnode))
#define XRECVP_POST (LIST_IS_ONE(&XS->recvpipes, &P1->rnode))
#elif XQ_RP == 3
#define XRECVP_PRE (XS->recvpipes.ll_offset == OFF_RP && OBJ_OK(g_p1, struct rep0_pipe) && DISTINCT(g_p1, XS) && DISTINCT(g_p1, arg) && LIST_IS_TWO(&XS->recvpipes, &P1->rnode, &XP->rnode))
#define XRECVP_POST (LIST_IS_ONE(&XS->recvpipes, &P1->rnode))
#else
#define XRECVP_PRE (XS->recvpipes.ll_offset == OFF_RP && OBJ_OK(g_p1, struct rep0_pipe) && DISTINCT(g_p1, XS) && DISTINCT(g_p1, arg) && LIST_IS_ONE(&XS->recvpipes, &P1->rnode) && NODE_IDLE(&XP->rnode))
#define XRECVP_POST (LIST_IS_ONE(&XS->recvpipes, &P1->rnode))
#endif
static void rep0_pipe_close(void *arg)
__CPROVER_requires(XPIPE_PRE && VP_NO_LOCK_HELD)
__CPROVER_requires(XSENDQ_PRE && XRECVP_PRE && XPOLL_PRE(XS))
/* state invariant (C15): the socket polls readable iff some pipe holds an accepted request */
__CPROVER_requires(g_pollr == (XQ_RP != 0))
/* the tracked key of the pipe map is this pipe's id */
__CPROVER_requires(g_idm_addr == &XS->pipes && g_idm_key == (uint64_t) g_pipe_id)
__CPROVER_assigns(XP->closed, XP->rnode, XS->recvpipes.ll_head, XP->sendq.ll_head, VP_PROTO_GHOST_LIST, VP_REPX_GHOST_LIST, VP_RR_GHOST_LIST, VP_SYNC_GHOSTS, g_free_calls)
#if XQ_RP >= 2
__CPROVER_assigns(P1->rnode)
#endif
#if XQ_SQ >= 1
__CPROVER_assigns(C1->saio, C1->sqnode, A1->a_msg, *XM1)
__CPROVER_frees(XM1, XM1->m_body.ch_buf)
#endif
#if XQ_SQ == 2
__CPROVER_assigns(C2->saio, C2->sqnode, A2->a_msg, *XM2)
__CPROVER_frees(XM2, XM2->m_body.ch_buf)
#endif
__CPROVER_ensures(VP_NO_LOCK_HELD && XP->closed)
/* both pipe aios are closed; nothing is sent, received or disconnected from here */
__CPROVER_ensures(g_aio_close_calls == OLD(g_aio_close_calls) + 2 && g_x.aio_close_a == &XP->aio_send && g_x.aio_close_b == &XP->aio_recv)
__CPROVER_ensures(g_pipe_send_calls == OLD(g_pipe_send_calls) && g_pipe_recv_calls == OLD(g_pipe_recv_calls) && g_pipe_close_calls == OLD(g_pipe_close_calls) && g_start_calls == OLD(g_start_calls))
/* C04: no longer a reply target */
__CPROVER_ensures(!g_rr.idm_has && g_rr.idm_set_calls == OLD(g_rr.idm_set_calls))
/* no longer receivable; a request it still held stays with the pipe (released by rep0_pipe_fini) */
__CPROVER_ensures(NODE_IDLE(&XP->rnode) && XRECVP_POST && XP->aio_recv.a_msg == OLD(XP->aio_recv.a_msg))
/* C15: readable iff another pipe still holds a request */
__CPROVER_ensures(g_pollr == (XQ_RP >= 2))
/* C15: the socket's own context holds a request of this pipe: its reply will be accepted (and discarded) */
__CPROVER_ensures((XP->id == XS->ctx.pipe_id) ? g_pollw : (g_pollw == OLD(g_pollw)))
/* C02/C03: every queued reply: completed exactly once as sent, message released exactly once, context free again */
__CPROVER_ensures(LIST_IS_EMPTY(&XP->sendq) && g_fin_calls == OLD(g_fin_calls) + XQ_SQ && g_free_calls == OLD(g_free_calls) + 2 * XQ_SQ)
#if XQ_SQ == 0
__CPROVER_ensures(WA_NONE_IF(1))
#endif
#if XQ_SQ >= 1
__CPROVER_ensures(WA_ONCE(A1, 0, OLD(XM1->m_body.ch_len), NULL) && A1->a_msg == NULL && __CPROVER_was_freed(OLD(XM1)) && C1->saio == NULL && NODE_IDLE(&C1->sqnode))
#endif
#if XQ_SQ == 1
__CPROVER_ensures(WA_NONE_IF(g_wa != g_a1) && g_fin_last == A1)
#endif
#if XQ_SQ == 2
__CPROVER_ensures(WA_ONCE(A2, 0, OLD(XM2->m_body.ch_len), NULL) && A2->a_msg == NULL && __CPROVER_was_freed(OLD(XM2)) && C2->saio == NULL && NODE_IDLE(&C2->sqnode))
__CPROVER_ensures(WA_NONE_IF(g_wa != g_a1 && g_wa != g_a2) && g_fin_last == A2)
#endif
;

/* ===== context units: the context under contract is `arg` (REP_CTX_PRE, see above) ===== */
/* the pipe the context is queued on (P1) and the other context on that queue (C1) */
#define XCS_PIPE (OBJ_OK(g_p1, struct rep0_pipe) && DISTINCT(g_p1, g_sock) && DISTINCT(g_p1, arg) && P1->sendq.ll_offset == OFF_SQ && P1->rep == SOCK)
#define XCS_OTHER (OBJ_OK(g_c1, struct rep0_ctx) && DISTINCT(g_c1, g_sock) && DISTINCT(g_c1, arg) && DISTINCT(g_c1, g_p1))
#define XCS_AIO (OBJ_OK(g_a1, struct nng_aio) && CTX->saio == A1 && CTX->spipe == P1 && MSG_PRE(XM1) && XM1->m_refcnt.v == 1)
#if XQ_CS == 0
#define XCS_PRE (CTX->saio == NULL && NODE_IDLE(&CTX->sqnode))
#define XCS_POST (CTX->saio == NULL && NODE_IDLE(&CTX->sqnode))
#elif XQ_CS == 1
#define XCS_PRE (XCS_PIPE && XCS_AIO && LIST_IS_ONE(&P1->sendq, &CTX->sqnode))
#define XCS_POST (CTX->saio == NULL && NODE_IDLE(&CTX->sqnode) && LIST_IS_EMPTY(&P1->sendq))
#elif XQ_CS == 2
#define XCS_PRE (XCS_PIPE && XCS_OTHER && XCS_AIO && LIST_IS_TWO(&P1->sendq, &CTX->sqnode, &C1->sqnode))
#define XCS_POST (CTX->saio == NULL && NODE_IDLE(&CTX->sqnode) && LIST_IS_ONE(&P1->sendq, &C1->sqnode))
#else
#define XCS_PRE (XCS_PIPE && XCS_OTHER && XCS_AIO && LIST_IS_TWO(&P1->sendq, &C1->sqnode, &CTX->sqnode))
#define XCS_POST (CTX->saio == NULL && NODE_IDLE(&CTX->sqnode) && LIST_IS_ONE(&P1->sendq, &C1->sqnode))
#endif
#define XCR_OTHER (OBJ_OK(g_c2, struct rep0_ctx) && DISTINCT(g_c2, g_sock) && DISTINCT(g_c2, arg))
#define XCR_AIO (OBJ_OK(g_a2, struct nng_aio) && CTX->raio == A2 && DISTINCT(g_a2, g_a1))
#if XQ_CR == 0
#define XCR_PRE (CTX->raio == NULL && NODE_IDLE(&CTX->rqnode) && SOCK->recvq.ll_offset == OFF_RQ && LIST_IS_EMPTY(&SOCK->recvq))
#define XCR_POST (CTX->raio == NULL && NODE_IDLE(&CTX->rqnode) && LIST_IS_EMPTY(&SOCK->recvq))
#elif XQ_CR == 1
#define XCR_PRE (SOCK->recvq.ll_offset == OFF_RQ && XCR_AIO && LIST_IS_ONE(&SOCK->recvq, &CTX->rqnode))
#define XCR_POST (CTX->raio == NULL && NODE_IDLE(&CTX->rqnode) && LIST_IS_EMPTY(&SOCK->recvq))
#elif XQ_CR == 2
#define XCR_PRE (SOCK->recvq.ll_offset == OFF_RQ && XCR_OTHER && XCR_AIO && LIST_IS_TWO(&SOCK->recvq, &CTX->rqnode, &C2->rqnode))
#define XCR_POST (CTX->raio == NULL && NODE_IDLE(&CTX->rqnode) && LIST_IS_ONE(&SOCK->recvq, &C2->rqnode))
#else
#define XCR_PRE (SOCK->recvq.ll_offset == OFF_RQ && XCR_OTHER && XCR_AIO && LIST_IS_TWO(&SOCK->recvq, &C2->rqnode, &CTX->rqnode))
#define XCR_POST (CTX->raio == NULL && NODE_IDLE(&CTX->rqnode) && LIST_IS_ONE(&SOCK->recvq, &C2->rqnode))
#endif
#define X_NO_PIPE_OPS (g_pipe_send_calls == OLD(g_pipe_send_calls) && g_pipe_recv_calls == OLD(g_pipe_recv_calls) && g_pipe_close_calls == OLD(g_pipe_close_calls) && g_start_calls == OLD(g_start_calls) && g_pollr == OLD(g_pollr) && g_pollw == OLD(g_pollw))

/* ---- rep0_ctx_cancel_send (C02, C03, C04): a queued reply is withdrawn (timeout / abort / stop): exactly
 * that aio completes, once, with the given error; the context leaves the send queue of its pipe, the other
 * waiters keep their order; the message goes back to the caller (still attached, header cleared, body
 * untouched).  If the aio is not the context's pending send (already handed to the pipe or completed),
 * nothing happens: single winner. */
#ifdef XQ_CANCEL_OTHER
static void rep0_ctx_cancel_send(nni_aio *aio, void *arg, nng_err rv)
__CPROVER_requires(REP_CTX_PRE && VP_NO_LOCK_HELD && CTX->saio != aio)
__CPROVER_assigns(VP_PROTO_GHOST_LIST, VP_REPX_GHOST_LIST, VP_SYNC_GHOSTS)
__CPROVER_ensures(VP_NO_LOCK_HELD && g_fin_calls == OLD(g_fin_calls) && WA_NONE_IF(1) && X_NO_PIPE_OPS)
;
#else
static void rep0_ctx_cancel_send(nni_aio *aio, void *arg, nng_err rv)
__CPROVER_requires(REP_CTX_PRE && VP_NO_LOCK_HELD && aio == A1)
__CPROVER_requires(XCS_PRE)
__CPROVER_requires(HDR_GHOST_PRE(XM1) && CH_GHOST_PRE(&XM1->m_body))
__CPROVER_assigns(CTX->saio, CTX->sqnode, P1->sendq.ll_head, XM1->m_header_len, VP_PROTO_GHOST_LIST, VP_REPX_GHOST_LIST, VP_SYNC_GHOSTS)
#if XQ_CS >= 2
__CPROVER_assigns(C1->sqnode)
#endif
__CPROVER_ensures(VP_NO_LOCK_HELD && XCS_POST && X_NO_PIPE_OPS)
/* exactly this aio, exactly once, with the given error; the message is still attached: it is the caller's again */
__CPROVER_ensures(g_fin_calls == OLD(g_fin_calls) + 1 && g_fin_last == aio && g_fin_last_rv == (int) rv && g_fin_last_msg == OLD(XM1) && aio->a_msg == OLD(XM1))
__CPROVER_ensures(WA_ONCE(aio, rv, 0, OLD(XM1)) && WA_NONE_IF(g_wa != g_a1))
/* the caller gets its message back without the routing header, body byte for byte */
__CPROVER_ensures(aio->a_msg->m_header_len == 0 && aio->a_msg->m_body.ch_len == OLD(XM1->m_body.ch_len))
__CPROVER_ensures((g_k < OLD(XM1->m_body.ch_len)) ==> aio->a_msg->m_body.ch_ptr[g_k] == g_b)
/* the pipe itself is not touched, the reply state stays consumed (a retry needs a new request) */
__CPROVER_ensures(P1->busy == OLD(P1->busy) && CTX->btrace_len == OLD(CTX->btrace_len) && CTX->pipe_id == OLD(CTX->pipe_id))
;
#endif

/* ---- rep0_cancel_recv (C02): a waiting receive is withdrawn: exactly that aio completes, once, with the
 * given error, the context leaves s->recvq, the other waiters keep their order; otherwise nothing happens */
#ifdef XQ_CANCEL_OTHER
static void rep0_cancel_recv(nni_aio *aio, void *arg, nng_err rv)
__CPROVER_requires(REP_CTX_PRE && VP_NO_LOCK_HELD && CTX->raio != aio)
__CPROVER_assigns(VP_PROTO_GHOST_LIST, VP_REPX_GHOST_LIST, VP_SYNC_GHOSTS)
__CPROVER_ensures(VP_NO_LOCK_HELD && g_fin_calls == OLD(g_fin_calls) && WA_NONE_IF(1) && X_NO_PIPE_OPS)
;
#else
static void rep0_cancel_recv(nni_aio *aio, void *arg, nng_err rv)
__CPROVER_requires(REP_CTX_PRE && VP_NO_LOCK_HELD && aio == A2)
__CPROVER_requires(XCR_PRE)
__CPROVER_assigns(CTX->raio, CTX->rqnode, SOCK->recvq.ll_head, VP_PROTO_GHOST_LIST, VP_REPX_GHOST_LIST, VP_SYNC_GHOSTS)
#if XQ_CR >= 2
__CPROVER_assigns(C2->rqnode)
#endif
__CPROVER_ensures(VP_NO_LOCK_HELD && XCR_POST && X_NO_PIPE_OPS)
__CPROVER_ensures(g_fin_calls == OLD(g_fin_calls) + 1 && g_fin_last == aio && g_fin_last_rv == (int) rv && aio->a_msg == OLD(aio->a_msg))
__CPROVER_ensures(WA_ONCE(aio, rv, 0, OLD(aio->a_msg)) && WA_NONE_IF(g_wa != g_a2))
/* the captured reply state of the context is not touched */
__CPROVER_ensures(CTX->btrace_len == OLD(CTX->btrace_len) && CTX->pipe_id == OLD(CTX->pipe_id))
;
#endif

/* ---- rep0_ctx_close / rep0_ctx_fini / rep0_sock_close (C02, C03): a pending send and a pending receive of
 * the context each complete exactly once with NNG_ECLOSED and leave their queues (other waiters keep their
 * order); the unsent reply stays attached to its aio (the caller's).  Nothing else completes. */
#if XQ_CS == 0
#define XCL_SEND_REQ (1)
#define XCL_SEND_POST (1)
#else
#define XCL_SEND_REQ (HDR_GHOST_PRE(XM1))
#define XCL_SEND_POST (WA_ONCE(A1, NNG_ECLOSED, 0, OLD(XM1)) && A1->a_msg == OLD(XM1) && A1->a_msg->m_header_len == OLD(XM1->m_header_len) && A1->a_msg->m_body.ch_len == OLD(XM1->m_body.ch_len) && CTX->spipe == NULL)
#endif
#if XQ_CR == 0
#define XCL_RECV_POST (1)
#else
#define XCL_RECV_POST (WA_ONCE(A2, NNG_ECLOSED, 0, OLD(A2->a_msg)))
#endif
#define XCL_NFIN ((XQ_CS != 0) + (XQ_CR != 0))
#define XCL_CLAUSES                                                                                            \
	__CPROVER_requires(REP_CTX_PRE && VP_NO_LOCK_HELD)                                                         \
	__CPROVER_requires(XCS_PRE)                                                                                \
	__CPROVER_requires(XCR_PRE)                                                                                \
	__CPROVER_requires(XCL_SEND_REQ)                                                                           \
	__CPROVER_assigns(CTX->saio, CTX->spipe, CTX->sqnode, CTX->raio, CTX->rqnode, SOCK->recvq.ll_head, VP_PROTO_GHOST_LIST, VP_REPX_GHOST_LIST, VP_SYNC_GHOSTS) \
	__CPROVER_assigns(XQ_CS >= 1: P1->sendq.ll_head)                                                           \
	__CPROVER_assigns(XQ_CS >= 2: C1->sqnode)                                                                  \
	__CPROVER_assigns(XQ_CR >= 2: C2->rqnode)                                                                  \
	__CPROVER_ensures(VP_NO_LOCK_HELD && XCS_POST && XCR_POST && X_NO_PIPE_OPS)                                \
	__CPROVER_ensures(g_fin_calls == OLD(g_fin_calls) + XCL_NFIN)                                              \
	__CPROVER_ensures(XCL_SEND_POST && XCL_RECV_POST && WA_NONE_IF(!(XQ_CS != 0 && g_wa == g_a1) && !(XQ_CR != 0 && g_wa == g_a2))) \
	__CPROVER_ensures(CTX->btrace_len == OLD(CTX->btrace_len) && CTX->pipe_id == OLD(CTX->pipe_id))
static void rep0_ctx_close(void *arg)
XCL_CLAUSES
;
static void rep0_ctx_fini(void *arg)
XCL_CLAUSES
;
/* the socket's close entry closes the socket's own context (arg = the socket) */
#ifdef XQ_SOCK_CLOSE
#undef CTX
#define CTX (&((rep0_sock *) arg)->ctx)
#undef REP_CTX_PRE
#define REP_CTX_PRE (OBJ_OK(g_sock, struct rep0_sock) && arg == g_sock && CTX->sock == SOCK)
static void rep0_sock_close(void *arg)
XCL_CLAUSES
;
#endif

/* ---- rep0_pipe_start (C04): a wrong peer protocol is refused; else the pipe is registered as a reply target
 * under ITS id and the first receive is armed exactly once; the socket does not become writable ---- */
static int rep0_pipe_start(void *arg)
__CPROVER_requires(XPIPE_PRE && VP_NO_LOCK_HELD)
__CPROVER_requires(g_idm_addr == &XS->pipes && g_idm_key == (uint64_t) g_pipe_id)
__CPROVER_assigns(VP_PROTO_GHOST_LIST, VP_RR_GHOST_LIST, VP_SYNC_GHOSTS)
__CPROVER_ensures(VP_NO_LOCK_HELD && g_pipe_send_calls == OLD(g_pipe_send_calls) && g_pipe_close_calls == OLD(g_pipe_close_calls) && g_fin_calls == OLD(g_fin_calls) && g_pollr == OLD(g_pollr) && g_pollw == OLD(g_pollw))
__CPROVER_ensures(g_pipe_peer != 0x30 ==> (RV == NNG_EPROTO && g_pipe_recv_calls == OLD(g_pipe_recv_calls) && g_rr.idm_set_calls == OLD(g_rr.idm_set_calls) && g_rr.idm_has == OLD(g_rr.idm_has)))
__CPROVER_ensures((g_pipe_peer == 0x30 && !g_idm_set_ok) ==> (RV == NNG_ENOMEM && g_pipe_recv_calls == OLD(g_pipe_recv_calls) && g_rr.idm_has == OLD(g_rr.idm_has)))
__CPROVER_ensures((g_pipe_peer == 0x30 && g_idm_set_ok) ==> (RV == 0 && g_rr.idm_has && g_rr.idm_val == arg && g_rr.idm_set_calls == OLD(g_rr.idm_set_calls) + 1
    && g_pipe_recv_calls == OLD(g_pipe_recv_calls) + 1 && g_pipe_recv_pipe == XP->pipe && g_pipe_recv_aio == &XP->aio_recv))
;

/* ---- rep0_pipe_fini (C03): a request the pipe still held (accepted, never received) is released exactly once ---- */
#define XRM (XP->aio_recv.a_msg)
static void rep0_pipe_fini(void *arg)
__CPROVER_requires(OBJ_OK(arg, struct rep0_pipe))
__CPROVER_requires(XRM == NULL || (__CPROVER_is_fresh(XRM, sizeof(struct nng_msg)) && XRM->m_refcnt.v == 1 && XRM->m_header_len <= MSG_HDRCAP && CH_FULL_PRE(&XRM->m_body)))
__CPROVER_assigns(XP->aio_recv.a_msg, VP_REPX_GHOST_LIST, g_free_calls)
__CPROVER_assigns(XRM != NULL: *XRM)
__CPROVER_frees(XRM != NULL: XRM, XRM->m_body.ch_buf)
__CPROVER_ensures(XP->aio_recv.a_msg == NULL)
__CPROVER_ensures(OLD(XRM) != NULL ==> (__CPROVER_was_freed(OLD(XRM)) && g_free_calls == OLD(g_free_calls) + 2))
__CPROVER_ensures(OLD(XRM) == NULL ==> g_free_calls == OLD(g_free_calls))
__CPROVER_ensures(g_x.aio_fini_calls == OLD(g_x.aio_fini_calls) + 2 && g_x.aio_fini_a == &XP->aio_send && g_x.aio_fini_b == &XP->aio_recv)
;

/* ---- rep0_pipe_stop: both pipe aios are stopped, nothing else ---- */
static void rep0_pipe_stop(void *arg)
__CPROVER_requires(OBJ_OK(arg, struct rep0_pipe))
__CPROVER_assigns(VP_REPX_GHOST_LIST)
__CPROVER_ensures(g_x.aio_stop_calls == OLD(g_x.aio_stop_calls) + 2 && g_x.aio_stop_a == &XP->aio_send && g_x.aio_stop_b == &XP->aio_recv)
;

/* ---- rep0_pipe_init: callbacks bound to THIS pipe, empty send queue of contexts, id = the pipe's id ---- */
static int rep0_pipe_init(void *arg, nni_pipe *pipe, void *s)
__CPROVER_requires(OBJ_OK(arg, struct rep0_pipe))
__CPROVER_assigns(XP->sendq, XP->id, XP->pipe, XP->rep, VP_REPX_GHOST_LIST)
__CPROVER_ensures(RV == 0 && XP->id == g_pipe_id && XP->pipe == pipe && XP->rep == s && XP->sendq.ll_offset == OFF_SQ && LIST_IS_EMPTY(&XP->sendq))
__CPROVER_ensures(g_x.aio_init_calls == OLD(g_x.aio_init_calls) + 2 && g_x.aio_init_a == &XP->aio_send && g_x.aio_init_cb_a == rep0_pipe_send_cb && g_x.aio_init_arg_a == arg
    && g_x.aio_init_b == &XP->aio_recv && g_x.aio_init_cb_b == rep0_pipe_recv_cb && g_x.aio_init_arg_b == arg)
;

/* ---- rep0_ctx_init (C04): a new context holds no request: its first send is refused with NNG_ESTATE ---- */
static void rep0_ctx_init(void *carg, void *sarg)
__CPROVER_requires(OBJ_OK(carg, struct rep0_ctx))
__CPROVER_assigns(((rep0_ctx *) carg)->sqnode, ((rep0_ctx *) carg)->rqnode, ((rep0_ctx *) carg)->btrace_len, ((rep0_ctx *) carg)->sock, ((rep0_ctx *) carg)->pipe_id)
__CPROVER_ensures(NODE_IDLE(&((rep0_ctx *) carg)->sqnode) && NODE_IDLE(&((rep0_ctx *) carg)->rqnode) && ((rep0_ctx *) carg)->btrace_len == 0 && ((rep0_ctx *) carg)->pipe_id == 0 && ((rep0_ctx *) carg)->sock == sarg)
;

/* ---- two sends in a row without a receive in between (C04: "send before receive on REP ... fail with
 * NNG_ESTATE"): vp_rep0_send_twice (harness.c) calls the REAL rep0_ctx_send twice; the contract is that of
 * rep0_ctx_send for the first call (same case split: -DREP_HAS, -DREP_SQ) plus: on EVERY exit path of the
 * first call (send before receive, requester gone, pipe idle, pipe busy and queued, pipe busy and refused by
 * the aio layer) the second send is refused with NNG_ESTATE, never reaches a pipe, keeps its message, and
 * does not disturb a first reply that is still queued. ---- */
#ifdef XQ_TWICE
#define SM2 (aio2->a_msg)
static void vp_rep0_send_twice(void *arg, nni_aio *aio, nni_aio *aio2)
__CPROVER_requires(REP_CTX_PRE && VP_NO_LOCK_HELD)
__CPROVER_requires(__CPROVER_is_fresh(aio, sizeof(nni_aio)) && MSG_PRE(SM) && SM->m_refcnt.v == 1)
__CPROVER_requires(__CPROVER_is_fresh(aio2, sizeof(nni_aio)) && MSG_PRE(SM2) && SM2->m_refcnt.v == 1)
__CPROVER_requires(CH_GHOST_PRE(&SM2->m_body))
__CPROVER_requires(CTX->btrace_len <= MSG_HDRCAP && CTX->saio == NULL && NODE_IDLE(&CTX->sqnode))
__CPROVER_requires((g_hk < CTX->btrace_len) ==> g_hb == BT(CTX)[g_hk])
__CPROVER_requires(g_idm_addr == &SOCK->pipes && g_idm_key == (uint64_t) CTX->pipe_id)
#if REP_HAS == 0
__CPROVER_requires(!g_rr.idm_has)
#else
__CPROVER_requires(g_rr.idm_has && OBJ_OK(g_rr.idm_val, struct rep0_pipe) && DISTINCT(g_rr.idm_val, g_sock) && DISTINCT(g_rr.idm_val, arg) && SPIPE->sendq.ll_offset == OFF_SQ &&
#if REP_SQ == 0
    LIST_IS_EMPTY(&SPIPE->sendq)
#else
    OBJ_OK(g_c2, struct rep0_ctx) && DISTINCT(g_c2, g_sock) && DISTINCT(g_c2, arg) && DISTINCT(g_c2, g_rr.idm_val) && LIST_IS_ONE(&SPIPE->sendq, &C2->sqnode)
#endif
    )
#endif
__CPROVER_requires(g_pollr_addr == &SOCK->readable && g_pollw_addr == &SOCK->writable)
__CPROVER_assigns(aio->a_msg, aio->a_result, aio->a_count, aio2->a_msg, aio2->a_result, aio2->a_count, CTX->btrace_len, CTX->pipe_id, CTX->saio, CTX->spipe, CTX->sqnode, VP_PROTO_GHOST_LIST, VP_RR_GHOST_LIST, VP_REPX_GHOST_LIST, VP_SYNC_GHOSTS, g_free_calls)
__CPROVER_assigns(*SM, *SM2)
#if REP_HAS == 1
__CPROVER_assigns(SPIPE->busy, SPIPE->aio_send.a_msg, SPIPE->sendq.ll_head)
#if REP_SQ == 1
__CPROVER_assigns(C2->sqnode)
#endif
#endif
__CPROVER_frees(SM, SM->m_body.ch_buf)
__CPROVER_ensures(VP_NO_LOCK_HELD && CTX->btrace_len == 0 && CTX->pipe_id == 0)
/* the SECOND send: refused with NNG_ESTATE, exactly one completion, message still attached (the caller's), body untouched */
__CPROVER_ensures(WA_ONCE(aio2, NNG_ESTATE, 0, OLD(SM2)) && g_fin_last == aio2 && g_fin_last_rv == NNG_ESTATE && aio2->a_msg == OLD(SM2))
__CPROVER_ensures(aio2->a_msg->m_body.ch_len == OLD(SM2->m_body.ch_len) && ((g_k < OLD(SM2->m_body.ch_len)) ==> aio2->a_msg->m_body.ch_ptr[g_k] == g_b))
__CPROVER_ensures(WA_NONE_IF(g_wa != (void *) aio && g_wa != (void *) aio2))
/* the FIRST send, per exit path; the second never reaches a pipe and never consults the aio layer */
__CPROVER_ensures(S_ESTATE ==> (WA_ONCE(aio, NNG_ESTATE, 0, OLD(SM)) && aio->a_msg == OLD(SM) && S_NOSEND && g_start_calls == OLD(g_start_calls) && g_free_calls == OLD(g_free_calls)))
#if REP_HAS == 0
__CPROVER_ensures(S_GONE ==> (WA_ONCE(aio, 0, OLD(SM->m_body.ch_len), NULL) && aio->a_msg == NULL && __CPROVER_was_freed(OLD(SM)) && S_NOSEND && g_start_calls == OLD(g_start_calls) && g_free_calls == OLD(g_free_calls) + 2))
#else
__CPROVER_ensures(S_NOW ==> (WA_ONCE(aio, 0, OLD(SM->m_body.ch_len), NULL) && aio->a_msg == NULL && g_pipe_send_calls == OLD(g_pipe_send_calls) + 1 && g_pipe_send_msg == OLD(SM) && g_pipe_send_aio == &SPIPE->aio_send
    && g_start_calls == OLD(g_start_calls) && g_free_calls == OLD(g_free_calls) && CTX->saio == NULL))
/* first reply queued behind a busy pipe: it stays queued, untouched, with the backtrace as header; only the second completes */
__CPROVER_ensures((S_WAIT && g_aio_start_ok) ==> (WA_NONE_IF(g_wa == (void *) aio) && g_fin_calls == OLD(g_fin_calls) + 1 && CTX->saio == aio && CTX->spipe == SPIPE && aio->a_msg == OLD(SM) && OLD(SM)->m_header_len == S_OLDLEN
    && S_NOSEND && g_start_calls == OLD(g_start_calls) + 1 && g_start_last == aio && g_free_calls == OLD(g_free_calls) &&
#if REP_SQ == 0
    LIST_IS_ONE(&SPIPE->sendq, &CTX->sqnode)
#else
    LIST_IS_TWO(&SPIPE->sendq, &C2->sqnode, &CTX->sqnode)
#endif
    ))
__CPROVER_ensures((S_WAIT && g_hk < S_OLDLEN) ==> HDR(OLD(SM))[g_hk] == g_hb)
/* first reply refused by the aio layer (which completes it itself): nothing queued; the reply state is consumed all the same */
__CPROVER_ensures((S_WAIT && !g_aio_start_ok) ==> (WA_NONE_IF(g_wa == (void *) aio) && g_fin_calls == OLD(g_fin_calls) + 1 && CTX->saio == NULL && NODE_IDLE(&CTX->sqnode) && aio->a_msg == OLD(SM)
    && S_NOSEND && g_start_calls == OLD(g_start_calls) + 1 && g_free_calls == OLD(g_free_calls)))
#endif
;
#endif
/* clang-format on */
#endif
