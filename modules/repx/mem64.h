/* mem64.h -- exact, loop-free model of memcpy for copies of at most 64 bytes
 * (the message header / backtrace capacity, (NNI_MAX_MAX_TTL+1)*4, a constant
 * of the code).  CBMC's built-in memcpy with a symbolic length into a field of
 * a large struct (rep0_ctx inside rep0_sock) ran out of memory; the byte-loop
 * model of include/env_mem.h cannot be used under a woven loop contract.
 * A longer copy is an assertion failure, never silently truncated. */
#ifndef VP_MEM64_H
#define VP_MEM64_H
#define VP_CP1(i) if ((i) < n) { d[(i)] = s[(i)]; }
#define VP_CP4(i) VP_CP1(i) VP_CP1((i) + 1) VP_CP1((i) + 2) VP_CP1((i) + 3)
#define VP_CP16(i) VP_CP4(i) VP_CP4((i) + 4) VP_CP4((i) + 8) VP_CP4((i) + 12)
static inline void *
vp_memcpy64(void *dst, const void *src, size_t n)
{
	const uint8_t *s = (const uint8_t *) src;
	uint8_t       *d = (uint8_t *) dst;
	__CPROVER_assert(n <= 64, "memcpy length within the 64-byte header constant (model limit)");
	__CPROVER_assert(__CPROVER_r_ok(src, n), "memcpy source region readable");
	__CPROVER_assert(__CPROVER_w_ok(dst, n), "memcpy destination region writeable");
	__CPROVER_assert(n == 0 || !__CPROVER_same_object(d, s) ||
	        (size_t) __CPROVER_POINTER_OFFSET(d) >= (size_t) __CPROVER_POINTER_OFFSET(s) + n ||
	        (size_t) __CPROVER_POINTER_OFFSET(s) >= (size_t) __CPROVER_POINTER_OFFSET(d) + n,
	    "memcpy regions do not overlap");
	/* the two region assertions above cover every byte access below */
#pragma CPROVER check push
#pragma CPROVER check disable "pointer"
#pragma CPROVER check disable "bounds"
#pragma CPROVER check disable "pointer-overflow"
#pragma CPROVER check disable "pointer-primitive"
	if (n <= 64) {
		VP_CP16(0) VP_CP16(16) VP_CP16(32) VP_CP16(48)
	}
#pragma CPROVER check pop
	return (dst);
}
#define memcpy vp_memcpy64
#endif
