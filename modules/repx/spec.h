/* Spec macros for src/sp/protocol/reqrep0/rep.c (C04, C13, C11).  No code.
 * Intrusive lists are the REAL ones (src/core/list.c); preconditions describe
 * bounded shapes (0, 1 or 2 members) with pointer_in_range_dfcc pinning every
 * link.  The functions under contract only touch the first member and its
 * neighbours, so longer lists behave the same, but that is an argument, not a
 * check: units that depend on a list shape are graded B (K <= 2). */
#ifndef VP_REP_SPEC_H
#define VP_REP_SPEC_H
#define PTR_IS(p, target) __CPROVER_pointer_in_range_dfcc((target), (p), (target))
#define L_HEAD(l) (&(l)->ll_head)
#define LIST_EMPTY_PRE(l, off)                                             \
	((l)->ll_offset == (off) && PTR_IS((l)->ll_head.ln_next, L_HEAD(l)) && \
	    PTR_IS((l)->ll_head.ln_prev, L_HEAD(l)))
#define LIST_ONE_PRE(l, off, n1)                                           \
	((l)->ll_offset == (off) && PTR_IS((l)->ll_head.ln_next, (n1)) &&      \
	    PTR_IS((l)->ll_head.ln_prev, (n1)) && PTR_IS((n1)->ln_next, L_HEAD(l)) && \
	    PTR_IS((n1)->ln_prev, L_HEAD(l)))
#define LIST_TWO_PRE(l, off, n1, n2)                                       \
	((l)->ll_offset == (off) && PTR_IS((l)->ll_head.ln_next, (n1)) &&      \
	    PTR_IS((n1)->ln_next, (n2)) && PTR_IS((n2)->ln_next, L_HEAD(l)) && \
	    PTR_IS((l)->ll_head.ln_prev, (n2)) && PTR_IS((n2)->ln_prev, (n1)) && \
	    PTR_IS((n1)->ln_prev, L_HEAD(l)))
#define NODE_IDLE(n) ((n)->ln_next == NULL && (n)->ln_prev == NULL)
/* post-state shapes (plain comparisons, checked) */
#define LIST_IS_EMPTY(l) ((l)->ll_head.ln_next == L_HEAD(l) && (l)->ll_head.ln_prev == L_HEAD(l))
#define LIST_IS_ONE(l, n1)                                                 \
	((l)->ll_head.ln_next == (n1) && (l)->ll_head.ln_prev == (n1) &&       \
	    (n1)->ln_next == L_HEAD(l) && (n1)->ln_prev == L_HEAD(l))
#define LIST_IS_TWO(l, n1, n2)                                             \
	((l)->ll_head.ln_next == (n1) && (n1)->ln_next == (n2) && (n2)->ln_next == L_HEAD(l) && \
	    (l)->ll_head.ln_prev == (n2) && (n2)->ln_prev == (n1) && (n1)->ln_prev == L_HEAD(l))

#define C1 ((rep0_ctx *) g_c1)
#define C2 ((rep0_ctx *) g_c2)
#define P1 ((rep0_pipe *) g_p1)
#define OFF_RQ offsetof(rep0_ctx, rqnode)
#define OFF_SQ offsetof(rep0_ctx, sqnode)
#define OFF_RP offsetof(rep0_pipe, rnode)

/* ---- harness-built state (REP_BUILT) -----------------------------------
 * pointer_in_range_dfcc(lb, p, lb) gives p a SYMBOLIC offset (lb + nondet, assumed <= 0); a list link or a
 * context pointer pinned that way makes every write through it update the whole enclosing object and cbmc
 * runs out of memory.  Units built with -DREP_BUILT therefore let the harness allocate socket, pipes and
 * contexts (contents nondeterministic) and link the lists with plain C; the contract states the SAME shape
 * as plain conditions (LIST_IS_*, rw_ok, distinct objects).  Messages and aios stay __CPROVER_is_fresh. */
#define OBJ_OK(p, T) ((p) != NULL && __CPROVER_rw_ok((T *) (p), sizeof(T)) && __CPROVER_POINTER_OFFSET(p) == 0)
#define DISTINCT(a, b) (!__CPROVER_same_object((a), (b)))

/* the first context: the socket's own or a separately allocated one */
#if defined(REP_C1M) && REP_C1M == 1
#define REP_C1_PRE(s) (g_c1_master && g_c1 == (void *) &(s)->ctx)
#else
#define REP_C1_PRE(s) (!g_c1_master && OBJ_OK(g_c1, struct rep0_ctx) && DISTINCT(g_c1, (s)))
#endif
/* s->recvq: contexts waiting for a request (each with its waiting aio).
 * The shape is fixed per unit by -DREP_RQ=0|1|2 (case split over the bound). */
#if REP_RQ == 0
#define REP_RECVQ_PRE(s) (g_rq_shape == 0 && (s)->recvq.ll_offset == OFF_RQ && LIST_IS_EMPTY(&(s)->recvq))
#elif REP_RQ == 1
#define REP_RECVQ_PRE(s)                                                   \
	(g_rq_shape == 1 && REP_C1_PRE(s) && (s)->recvq.ll_offset == OFF_RQ && \
	    LIST_IS_ONE(&(s)->recvq, &C1->rqnode) && __CPROVER_is_fresh(C1->raio, sizeof(nni_aio)))
#else
#define REP_RECVQ_PRE(s)                                                   \
	(g_rq_shape == 2 && REP_C1_PRE(s) && OBJ_OK(g_c2, struct rep0_ctx) && DISTINCT(g_c2, (s)) && DISTINCT(g_c2, g_c1) && \
	    (s)->recvq.ll_offset == OFF_RQ && LIST_IS_TWO(&(s)->recvq, &C1->rqnode, &C2->rqnode) && \
	    __CPROVER_is_fresh(C1->raio, sizeof(nni_aio)))
#endif
/* s->recvpipes: other pipes holding a request nobody has asked for yet
 * (-DREP_RP=0|1).  State invariant of rep.c: a pipe is parked there only
 * while no context waits, so REP_RQ > 0 goes with REP_RP == 0. */
#if REP_RP == 0
#define REP_RECVPIPES_PRE(s) (g_rp_shape == 0 && (s)->recvpipes.ll_offset == OFF_RP && LIST_IS_EMPTY(&(s)->recvpipes))
#else
#define REP_RECVPIPES_PRE(s)                                               \
	(g_rp_shape == 1 && OBJ_OK(g_p1, struct rep0_pipe) && DISTINCT(g_p1, (s)) && \
	    (s)->recvpipes.ll_offset == OFF_RP && LIST_IS_ONE(&(s)->recvpipes, &P1->rnode))
#endif
#endif
