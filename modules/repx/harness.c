#define VP_HAVOC_GHOSTS()                         \
	do {                                      \
		g_k = nondet_size_t(); g_j = nondet_size_t(); g_b = nondet_u8(); g_n = nondet_size_t(); \
		g_hk = nondet_size_t(); g_u32 = nondet_u32(); g_hb = nondet_u8(); g_p = nondet_ptr(); \
		g_len0 = nondet_size_t(); g_off0 = nondet_size_t(); g_cap0 = nondet_size_t(); \
		g_sock = nondet_ptr(); g_c1 = nondet_ptr(); g_c2 = nondet_ptr(); g_p1 = nondet_ptr(); g_p2 = nondet_ptr(); g_rq_shape = nondet_int(); g_rp_shape = nondet_int(); g_c1_master = nondet_bool(); \
		g_free_calls = nondet_size_t(); g_alloc_ok = nondet_size_t(); \
		__CPROVER_assume(g_free_calls < ((size_t) 1 << 40) && g_alloc_ok < ((size_t) 1 << 40)); \
		VP_HAVOC_PROTO(); VP_HAVOC_RR(); VP_HAVOC_SYNC(); VP_HAVOC_REPX(); g_a1 = nondet_ptr(); g_a2 = nondet_ptr(); \
	} while (0)
/* ---- harness-built state: objects with nondeterministic contents, lists linked with plain C ---- */
static void vp_list_init(nni_list *l, size_t off) { l->ll_offset = off; l->ll_head.ln_next = &l->ll_head; l->ll_head.ln_prev = &l->ll_head; }
static void vp_list_add(nni_list *l, nni_list_node *n)
{
	n->ln_prev = l->ll_head.ln_prev; n->ln_next = &l->ll_head;
	n->ln_prev->ln_next = n; l->ll_head.ln_prev = n;
}
#define VP_NEW(T, v) T *v = malloc(sizeof(T)); __CPROVER_assume(v != NULL)
#ifndef REP_RQ
#define REP_RQ 0
#endif
#ifndef REP_RP
#define REP_RP 0
#endif
void h_rep0_pipe_recv_cb(void)
{
	VP_HAVOC_GHOSTS();
	VP_NEW(rep0_pipe, p); VP_NEW(rep0_sock, s);
	p->rep = s; s->ctx.sock = s; g_sock = s;
	p->rnode.ln_next = NULL; p->rnode.ln_prev = NULL;
	vp_list_init(&s->recvq, offsetof(rep0_ctx, rqnode));
	vp_list_init(&s->recvpipes, offsetof(rep0_pipe, rnode));
	g_rq_shape = REP_RQ; g_rp_shape = REP_RP;
#if REP_RQ >= 1
#if defined(REP_C1M) && REP_C1M == 1
	rep0_ctx *c1 = &s->ctx; g_c1_master = true;
#else
	VP_NEW(rep0_ctx, c1); c1->sock = s; g_c1_master = false;
#endif
	g_c1 = c1; vp_list_add(&s->recvq, &c1->rqnode);
#endif
#if REP_RQ == 2
	VP_NEW(rep0_ctx, c2); c2->sock = s; g_c2 = c2; vp_list_add(&s->recvq, &c2->rqnode);
#endif
#if REP_RP == 1
	VP_NEW(rep0_pipe, p1); p1->rep = s; g_p1 = p1; vp_list_add(&s->recvpipes, &p1->rnode);
#endif
	rep0_pipe_recv_cb(p);
	VP_CANARY();
}
#ifndef REP_SQ
#define REP_SQ 0
#endif
#ifndef REP_HAS
#define REP_HAS 0
#endif
/* socket + the context under contract (the socket's own one or a separate object) */
#if defined(REP_C1M) && REP_C1M == 1
#define VP_MK_CTX() VP_NEW(rep0_sock, s); s->ctx.sock = s; g_sock = s; rep0_ctx *ctx = &s->ctx
#else
#define VP_MK_CTX() VP_NEW(rep0_sock, s); g_sock = s; VP_NEW(rep0_ctx, ctx); ctx->sock = s
#endif
void h_rep0_ctx_send(void)
{
	nni_aio *aio;
	VP_HAVOC_GHOSTS();
	VP_MK_CTX();
#if REP_HAS == 1
	VP_NEW(rep0_pipe, tp); tp->rep = s; g_rr.idm_val = tp; g_rr.idm_has = true;
	vp_list_init(&tp->sendq, offsetof(rep0_ctx, sqnode));
#if REP_SQ == 1
	VP_NEW(rep0_ctx, c2); c2->sock = s; g_c2 = c2; vp_list_add(&tp->sendq, &c2->sqnode);
#endif
#endif
	rep0_ctx_send(ctx, aio);
	VP_CANARY();
}
void h_rep0_ctx_recv(void)
{
	nni_aio *aio;
	VP_HAVOC_GHOSTS();
	VP_MK_CTX();
	vp_list_init(&s->recvq, offsetof(rep0_ctx, rqnode));
	vp_list_init(&s->recvpipes, offsetof(rep0_pipe, rnode));
#if REP_RP == 0
#if REP_RQ == 0
	ctx->rqnode.ln_next = NULL; ctx->rqnode.ln_prev = NULL;
#elif REP_RQ == 1
	ctx->rqnode.ln_next = NULL; ctx->rqnode.ln_prev = NULL;
	VP_NEW(rep0_ctx, c2); c2->sock = s; g_c2 = c2; vp_list_add(&s->recvq, &c2->rqnode);
#else
	vp_list_add(&s->recvq, &ctx->rqnode);
#endif
#else
	ctx->rqnode.ln_next = NULL; ctx->rqnode.ln_prev = NULL;
	VP_NEW(rep0_pipe, p1); p1->rep = s; g_p1 = p1; vp_list_add(&s->recvpipes, &p1->rnode);
#if REP_RP == 2
	VP_NEW(rep0_pipe, p2); p2->rep = s; g_p2 = p2; vp_list_add(&s->recvpipes, &p2->rnode);
#endif
#endif
	rep0_ctx_recv(ctx, aio);
	VP_CANARY();
}

/* ===================== module repx ===================== */
#define VP_MK_PIPE()                                                                   \
	VP_NEW(rep0_pipe, p); VP_NEW(rep0_sock, s); p->rep = s; s->ctx.sock = s; g_sock = s; \
	p->id = g_pipe_id; vp_list_init(&p->sendq, offsetof(rep0_ctx, sqnode))
/* XQ_SQ contexts wait on the pipe's send queue, each with its waiting send aio (a real object) */
static void vp_mk_sendq(rep0_pipe *p, rep0_sock *s)
{
#if XQ_SQ >= 1
#if defined(REP_C1M) && REP_C1M == 1
	rep0_ctx *c1 = &s->ctx; g_c1_master = true;
#else
	VP_NEW(rep0_ctx, c1); c1->sock = s; g_c1_master = false;
#endif
	VP_NEW(nni_aio, a1); g_a1 = a1; g_c1 = c1; c1->saio = a1; c1->spipe = p; vp_list_add(&p->sendq, &c1->sqnode);
#endif
#if XQ_SQ == 2
	VP_NEW(rep0_ctx, c2); c2->sock = s; VP_NEW(nni_aio, a2); g_a2 = a2; g_c2 = c2; c2->saio = a2; c2->spipe = p; vp_list_add(&p->sendq, &c2->sqnode);
#endif
	(void) p; (void) s;
}
void h_rep0_pipe_send_cb(void)
{
	VP_HAVOC_GHOSTS();
	VP_MK_PIPE();
	vp_mk_sendq(p, s);
	rep0_pipe_send_cb(p);
	VP_CANARY();
}
void h_rep0_pipe_close(void)
{
	VP_HAVOC_GHOSTS();
	VP_MK_PIPE();
	vp_mk_sendq(p, s);
	vp_list_init(&s->recvpipes, offsetof(rep0_pipe, rnode));
	p->rnode.ln_next = NULL; p->rnode.ln_prev = NULL;
#if XQ_RP >= 2
	VP_NEW(rep0_pipe, p1); p1->rep = s; g_p1 = p1;
#endif
#if XQ_RP == 1
	vp_list_add(&s->recvpipes, &p->rnode);
#elif XQ_RP == 2
	vp_list_add(&s->recvpipes, &p->rnode); vp_list_add(&s->recvpipes, &p1->rnode);
#elif XQ_RP == 3
	vp_list_add(&s->recvpipes, &p1->rnode); vp_list_add(&s->recvpipes, &p->rnode);
#elif XQ_RP == 4
	vp_list_add(&s->recvpipes, &p1->rnode);
#endif
	rep0_pipe_close(p);
	VP_CANARY();
}
/* the context under contract with its pending send (XQ_CS) and pending receive (XQ_CR) */
static void vp_mk_ctx_queues(rep0_sock *s, rep0_ctx *ctx)
{
	vp_list_init(&s->recvq, offsetof(rep0_ctx, rqnode));
	ctx->sqnode.ln_next = NULL; ctx->sqnode.ln_prev = NULL;
	ctx->rqnode.ln_next = NULL; ctx->rqnode.ln_prev = NULL;
#if XQ_CS == 0
	ctx->saio = NULL;
#else
	VP_NEW(rep0_pipe, tp); tp->rep = s; g_p1 = tp; vp_list_init(&tp->sendq, offsetof(rep0_ctx, sqnode));
	VP_NEW(nni_aio, a1); g_a1 = a1; ctx->saio = a1; ctx->spipe = tp;
#if XQ_CS >= 2
	VP_NEW(rep0_ctx, c1); c1->sock = s; g_c1 = c1;
#endif
#if XQ_CS == 1
	vp_list_add(&tp->sendq, &ctx->sqnode);
#elif XQ_CS == 2
	vp_list_add(&tp->sendq, &ctx->sqnode); vp_list_add(&tp->sendq, &c1->sqnode);
#else
	vp_list_add(&tp->sendq, &c1->sqnode); vp_list_add(&tp->sendq, &ctx->sqnode);
#endif
#endif
#if XQ_CR == 0
	ctx->raio = NULL;
#else
	VP_NEW(nni_aio, a2); g_a2 = a2; ctx->raio = a2;
#if XQ_CR >= 2
	VP_NEW(rep0_ctx, c2); c2->sock = s; g_c2 = c2;
#endif
#if XQ_CR == 1
	vp_list_add(&s->recvq, &ctx->rqnode);
#elif XQ_CR == 2
	vp_list_add(&s->recvq, &ctx->rqnode); vp_list_add(&s->recvq, &c2->rqnode);
#else
	vp_list_add(&s->recvq, &c2->rqnode); vp_list_add(&s->recvq, &ctx->rqnode);
#endif
#endif
}
void h_rep0_ctx_cancel_send(void)
{
	nng_err rv;
	VP_HAVOC_GHOSTS();
	VP_MK_CTX();
#ifdef XQ_CANCEL_OTHER
	VP_NEW(nni_aio, other);
	rep0_ctx_cancel_send(other, ctx, rv);
#else
	vp_mk_ctx_queues(s, ctx);
	rep0_ctx_cancel_send((nni_aio *) g_a1, ctx, rv);
#endif
	VP_CANARY();
}
void h_rep0_cancel_recv(void)
{
	nng_err rv;
	VP_HAVOC_GHOSTS();
	VP_MK_CTX();
#ifdef XQ_CANCEL_OTHER
	VP_NEW(nni_aio, other);
	rep0_cancel_recv(other, ctx, rv);
#else
	vp_mk_ctx_queues(s, ctx);
	rep0_cancel_recv((nni_aio *) g_a2, ctx, rv);
#endif
	VP_CANARY();
}
void h_rep0_ctx_close(void) { VP_HAVOC_GHOSTS(); VP_MK_CTX(); vp_mk_ctx_queues(s, ctx); rep0_ctx_close(ctx); VP_CANARY(); }
void h_rep0_ctx_fini(void) { VP_HAVOC_GHOSTS(); VP_MK_CTX(); vp_mk_ctx_queues(s, ctx); rep0_ctx_fini(ctx); VP_CANARY(); }
#ifdef XQ_SOCK_CLOSE
void h_rep0_sock_close(void) { VP_HAVOC_GHOSTS(); VP_MK_CTX(); vp_mk_ctx_queues(s, ctx); rep0_sock_close(s); VP_CANARY(); }
#endif
void h_rep0_pipe_start(void) { VP_HAVOC_GHOSTS(); VP_MK_PIPE(); (void) rep0_pipe_start(p); VP_CANARY(); }
void h_rep0_pipe_fini(void) { VP_HAVOC_GHOSTS(); VP_NEW(rep0_pipe, p); rep0_pipe_fini(p); VP_CANARY(); }
void h_rep0_pipe_stop(void) { VP_HAVOC_GHOSTS(); VP_NEW(rep0_pipe, p); rep0_pipe_stop(p); VP_CANARY(); }
void h_rep0_pipe_init(void) { nni_pipe *pipe; void *sk; VP_HAVOC_GHOSTS(); VP_NEW(rep0_pipe, p); (void) rep0_pipe_init(p, pipe, sk); VP_CANARY(); }
void h_rep0_ctx_init(void) { void *sk; VP_HAVOC_GHOSTS(); VP_NEW(rep0_ctx, c); rep0_ctx_init(c, sk); VP_CANARY(); }

#ifdef XQ_TWICE
/* two sends in a row on the same context, no receive in between (the real function, twice) */
static void vp_rep0_send_twice(void *arg, nni_aio *aio, nni_aio *aio2)
{
	rep0_ctx_send(arg, aio);
	rep0_ctx_send(arg, aio2);
}
void h_rep0_send_twice(void)
{
	nni_aio *aio, *aio2;
	VP_HAVOC_GHOSTS();
	VP_MK_CTX();
	ctx->saio = NULL; ctx->sqnode.ln_next = NULL; ctx->sqnode.ln_prev = NULL;
#if REP_HAS == 1
	VP_NEW(rep0_pipe, tp); tp->rep = s; g_rr.idm_val = tp; g_rr.idm_has = true;
	vp_list_init(&tp->sendq, offsetof(rep0_ctx, sqnode));
#if REP_SQ == 1
	VP_NEW(rep0_ctx, c2); c2->sock = s; g_c2 = c2; vp_list_add(&tp->sendq, &c2->sqnode);
#endif
#endif
	vp_rep0_send_twice(ctx, aio, aio2);
	VP_CANARY();
}
#endif
