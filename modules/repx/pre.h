/* included BEFORE the real sources of the repx TU (rep.c functions not covered by module rep) */
#define VP_PROTO_GHOSTS 1
#include "include/env_proto.h"
#define VP_RR_GHOSTS 1
#include "modules/xrep/env.h"
#include "modules/message/spec.h"
#include "modules/repx/mem64.h"
#include "modules/lmq/spec.h"
#include "modules/xrep/spec.h"
#include "modules/repx/spec.h"
size_t g_len0, g_off0, g_cap0; /* ghosts: pre-state body geometry (RR_BODY_GHOSTS) */
/* ghosts naming the members of the (bounded) intrusive lists, see spec.h */
void *g_c1, *g_c2; /* first and second context on s->recvq / p->sendq */
void *g_p1, *g_p2;        /* first pipe on s->recvpipes */
int   g_rq_shape;  /* number of contexts on the context list: 0, 1, 2 */
int   g_rp_shape;  /* number of pipes on s->recvpipes: 0, 1 (+ the pipe under test where stated) */
bool  g_c1_master; /* the first context is the socket's own context (&s->ctx) */
void *g_a1, *g_a2; /* harness-built aio objects (waiting send / receive operations of queued contexts) */
void *g_sock;      /* the socket (contexts under contract point to it) */
#define VP_REPX_GHOSTS 1
#include "modules/repx/env.h"
