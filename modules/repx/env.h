/* modules/repx/env.h -- ASSUMED environment of module repx in addition to include/env_proto.h and
 * modules/xrep/env.h.  Ghost state only, no nng code.
 *   - per-aio completion counter ("watched aio"): g_wa is a FREE ghost pointer (the harness leaves it
 *     unconstrained, no precondition restricts it); every completion of the aio that equals g_wa is
 *     counted and its result recorded.  A postcondition "g_wa == X ==> completions(g_wa) == old + 1"
 *     therefore holds for EVERY aio X names, and "g_wa is none of ... ==> completions unchanged" says
 *     that nothing else was completed (C02: exactly once, also with several completions in one call).
 *   - nni_aio_init / nni_aio_fini / nni_aio_stop as counted ghost records (the aio core has its own module).
 */
#if defined(VP_REPX_GHOSTS) && !defined(VP_REPX_GHOSTS_DONE)
#define VP_REPX_GHOSTS_DONE
struct vp_repx_env {
	size_t   wa_fin;   /* completions of the watched aio */
	int      wa_rv;    /* result of its last completion */
	size_t   wa_count; /* count of its last completion */
	nni_msg *wa_msg;   /* message attached to it at completion time */
	size_t   wa_seq;   /* value of g_fin_calls right after its last completion (order of completions) */
	size_t   aio_init_calls, aio_fini_calls, aio_stop_calls;
	nni_aio *aio_init_a, *aio_init_b; /* last two initialised */
	nni_cb   aio_init_cb_a, aio_init_cb_b;
	void    *aio_init_arg_a, *aio_init_arg_b;
	nni_aio *aio_fini_a, *aio_fini_b; /* last two finalised */
	nni_aio *aio_stop_a, *aio_stop_b; /* last two stopped */
	nni_aio *aio_close_a, *aio_close_b; /* last two closed */
} g_x;
void *g_wa; /* the watched aio (free ghost) */
#define VP_REPX_GHOST_LIST g_x
#define VP_HAVOC_REPX()                                                    \
	do {                                                                   \
		g_wa = nondet_ptr(); g_x.wa_fin = nondet_size_t(); g_x.wa_rv = nondet_int(); g_x.wa_count = nondet_size_t(); \
		g_x.wa_msg = nondet_ptr(); g_x.wa_seq = nondet_size_t(); \
		g_x.aio_init_calls = nondet_size_t(); g_x.aio_fini_calls = nondet_size_t(); g_x.aio_stop_calls = nondet_size_t(); \
		g_x.aio_init_a = nondet_ptr(); g_x.aio_init_b = nondet_ptr(); g_x.aio_init_arg_a = nondet_ptr(); g_x.aio_init_arg_b = nondet_ptr(); \
		g_x.aio_init_cb_a = NULL; g_x.aio_init_cb_b = NULL; \
		g_x.aio_fini_a = nondet_ptr(); g_x.aio_fini_b = nondet_ptr(); g_x.aio_stop_a = nondet_ptr(); g_x.aio_stop_b = nondet_ptr(); \
		g_x.aio_close_a = nondet_ptr(); g_x.aio_close_b = nondet_ptr(); \
		__CPROVER_assume(g_x.wa_fin < ((size_t) 1 << 40) && g_x.aio_init_calls < ((size_t) 1 << 40) && \
		    g_x.aio_fini_calls < ((size_t) 1 << 40) && g_x.aio_stop_calls < ((size_t) 1 << 40)); \
	} while (0)
/* "the aio X was completed exactly once in this call, with result rv, count n, message m attached" */
#define WA_ONCE(X, rv, n, m) ((g_wa == (void *) (X)) ==> (g_x.wa_fin == __CPROVER_old(g_x.wa_fin) + 1 && g_x.wa_rv == (int) (rv) && g_x.wa_count == (n) && g_x.wa_msg == (m)))
#define WA_NONE_IF(cond) ((cond) ==> g_x.wa_fin == __CPROVER_old(g_x.wa_fin))
#endif

#if defined(VP_REPX_STUBS) && !defined(VP_REPX_STUBS_DONE)
#define VP_REPX_STUBS_DONE
void nni_aio_finish(nni_aio *aio, nng_err rv, size_t count)
{
	vp_base_aio_finish(aio, rv, count);
	if ((void *) aio == g_wa) {
		g_x.wa_fin++;
		g_x.wa_rv    = (int) rv;
		g_x.wa_count = count;
		g_x.wa_msg   = aio->a_msg;
		g_x.wa_seq   = g_fin_calls;
	}
}
void nni_aio_finish_sync(nni_aio *aio, nng_err rv, size_t count) { nni_aio_finish(aio, rv, count); }
void nni_aio_finish_error(nni_aio *aio, nng_err rv) { nni_aio_finish(aio, rv, 0); }
void nni_aio_finish_msg(nni_aio *aio, nni_msg *m) { aio->a_msg = m; nni_aio_finish(aio, NNG_OK, 0); }
void nni_aio_init(nni_aio *aio, nni_cb cb, void *arg)
{
	g_x.aio_init_calls++;
	g_x.aio_init_a = g_x.aio_init_b; g_x.aio_init_cb_a = g_x.aio_init_cb_b; g_x.aio_init_arg_a = g_x.aio_init_arg_b;
	g_x.aio_init_b = aio; g_x.aio_init_cb_b = cb; g_x.aio_init_arg_b = arg;
}
void nni_aio_fini(nni_aio *aio) { g_x.aio_fini_calls++; g_x.aio_fini_a = g_x.aio_fini_b; g_x.aio_fini_b = aio; }
void nni_aio_close(nni_aio *aio) { vp_base_aio_close(aio); g_x.aio_close_a = g_x.aio_close_b; g_x.aio_close_b = aio; }
void nni_aio_stop(nni_aio *aio) { g_x.aio_stop_calls++; g_x.aio_stop_a = g_x.aio_stop_b; g_x.aio_stop_b = aio; }
#endif
