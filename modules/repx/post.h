/* included AFTER the real sources.  The real src/core/list.c is part of this
 * TU (contexts and pipes sit on real intrusive lists); the two aio-wait-list
 * stubs of env_proto.h that share names with it are renamed away (rep.c has
 * no aio wait lists).  The four completion stubs of env_proto.h are renamed
 * too: modules/repx/env.h wraps them with a per-aio completion counter. */
#include "include/env_alloc.h"
#include "include/env_sync.h"
#define nni_list_first vp_unused_aioq_first
#define nni_list_empty vp_unused_aioq_empty
#define nni_aio_close vp_base_aio_close
#define nni_aio_finish vp_base_aio_finish
#define nni_aio_finish_sync vp_base_aio_finish_sync
#define nni_aio_finish_error vp_base_aio_finish_error
#define nni_aio_finish_msg vp_base_aio_finish_msg
#define VP_PROTO_STUBS 1
#include "include/env_proto.h"
#undef nni_list_first
#undef nni_list_empty
#undef nni_aio_close
#undef nni_aio_finish
#undef nni_aio_finish_sync
#undef nni_aio_finish_error
#undef nni_aio_finish_msg
#define VP_RR_STUBS 1
#include "modules/xrep/env.h"
#define VP_REPX_STUBS 1
#include "modules/repx/env.h"
