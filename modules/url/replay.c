/* Native replay driver for url.c: rebuilds the input a CBMC counterexample
 * describes (vp_in_* snapshot locals woven at the function entry), runs the
 * REAL functions of /repo/src/core/url.c under ASan/UBSan and evaluates the
 * same oracles as the contracts in plain C:
 *   url_utf8_validate          RFC 3629 byte-range table (U8_GOOD_AT, spec.h)
 *   url_hex_val                value of a hexadecimal digit (RFC 3986 2.1)
 *   nni_url_parse_inline_inner accepted => scheme text equals a table entry
 *   nni_url_clone_inline,
 *   nng_url_clone              equal + independent clone, ENOMEM only when
 *                              the allocator refused memory
 */
#include "vp_native.h"
size_t g_k, g_j, g_n; /* referenced by spec macros only */
#include "modules/url/spec.h"
#include "core/url.c" /* the real file, via -I/repo/src */

/* ---- environment ------------------------------------------------------ */
static long n_alloc, fail_at = -1, n_refused;
static void *
env_alloc(size_t sz, int zero)
{
	if (sz == 0)
		return NULL;
	if (n_alloc++ == fail_at) {
		n_refused++;
		return NULL;
	}
	return zero ? calloc(1, sz) : malloc(sz);
}
void *nni_alloc(size_t sz) { return env_alloc(sz, 0); }
void *nni_zalloc(size_t sz) { return env_alloc(sz, 1); }
void  nni_free(void *p, size_t sz) { (void) sz; free(p); }
char *
nni_strdup(const char *s)
{
	size_t l = strlen(s) + 1;
	char  *d = nni_alloc(l);
	if (d != NULL)
		memcpy(d, s, l);
	return d;
}
int
nni_get_port_by_name(const char *name, uint32_t *portp)
{
	char *end = NULL;
	long  port = strtol(name, &end, 10);
	if ((*end == '\0') && (port >= 0) && (port <= 0xffff)) {
		*portp = (uint16_t) port;
		return 0;
	}
	return NNG_EADDRINVAL;
}
void     nni_aio_init(nni_aio *a, nni_cb cb, void *arg) { (void) a; (void) cb; (void) arg; }
void     nni_aio_fini(nni_aio *a) { (void) a; }
void     nni_aio_wait(nni_aio *a) { (void) a; }
nng_err  nni_aio_result(nni_aio *a) { (void) a; return NNG_ENOTSUP; }
void     nni_resolv(nni_resolv_item *ri, nni_aio *a) { (void) ri; (void) a; }

/* ---- oracles ---------------------------------------------------------- */
static bool
u8_oracle(const uint8_t *a)
{
	size_t n = strlen((const char *) a);
	/* the macros may look 3 bytes past a lead byte: work on a padded copy */
	uint8_t *b = calloc(1, n + 8);
	bool     ok = true;
	memcpy(b + 4, a, n);
	for (size_t i = 0; i < n; i++) {
		if (!U8_GOOD_AT(b + 4, i, i))
			ok = false;
	}
	free(b);
	return ok;
}

static void
show(const char *tag, const uint8_t *s)
{
	printf("%s \"", tag);
	for (; *s; s++)
		printf((*s >= 0x20 && *s < 0x7f && *s != '"' && *s != '\\') ? "%c" : "\\x%02X", *s);
	printf("\"\n");
}

static int
replay_utf8(void)
{
	uint8_t w[11], str[16];
	char    key[16];
	size_t  k = vp_u64("vp_in_k", 7), n = vp_u64("vp_in_n", 0), len = 0;
	int     tried = 0;
	for (int i = 0; i < 11; i++) {
		snprintf(key, sizeof(key), "vp_in_w%d", i);
		w[i] = (uint8_t) vp_u64(key, 0);
	}
	/* the window holds the string bytes at indices k-7 .. k+3 (those that
	 * lie inside the object 0 .. n, a[n] == 0) */
	for (int i = 0; i < 11; i++) {
		if (k + i >= 7 && k + i - 7 <= n) {
			str[len++] = (k + i - 7 == n) ? 0 : w[i];
		}
	}
	str[len] = 0;
	/* every substring of the window is a string the validator may be handed.
	 * A function-level counterexample is a suffix of the string (run to its
	 * terminator); a loop-step counterexample is an arbitrary scan position
	 * in the middle of an object that may hold NUL bytes before, and further
	 * bytes after, the sequence that is mis-judged -- so the candidates also
	 * start behind embedded NULs and end at every later position. */
	for (size_t j = 0; j < len; j++) {
		for (size_t e = len; e > j; e--) {
			size_t l = 0;
			while (j + l < e && str[j + l] != 0)
				l++;
			if (l == 0 || (e < len && j + l < e))
				continue; /* empty, or the same string as a longer cut */
			uint8_t *copy = malloc(l + 1); /* exact size: ASan sees over-reads */
			memcpy(copy, str + j, l);
			copy[l]     = 0;
			nng_err rv  = url_utf8_validate(copy);
			bool    exp = u8_oracle(copy);
			tried++;
			if ((rv == NNG_OK) != exp) {
				show(exp ? "well-formed UTF-8 REJECTED:" : "malformed UTF-8 ACCEPTED:", copy);
				printf("  url_utf8_validate -> %d, RFC 3629 table says %s\n", rv, exp ? "well-formed" : "malformed");
				VP_EXPECT((rv == NNG_OK) == exp);
			}
			free(copy);
		}
	}
	printf("utf8: %d candidate strings from the counterexample window\n", tried);
	VP_DONE();
}

static int
replay_hex(void)
{
	/* the counterexample character first, then every other character: the
	 * function has a single 8-bit argument, so the native run is exhaustive */
	int c0 = (int) (vp_u64("vp_arg_c", 'f') & 0xff), bad = 0;
	for (int i = 0; i < 257; i++) {
		int     ci = (i == 0) ? c0 : i - 1;
		char    c  = (char) ci;
		uint8_t rv = url_hex_val(c);
		bool    ok = rv <= 15;
		if (c >= '0' && c <= '9')
			ok = ok && rv == c - '0';
		if (c >= 'A' && c <= 'F')
			ok = ok && rv == 10 + (c - 'A');
		if (c >= 'a' && c <= 'f')
			ok = ok && rv == 10 + (c - 'a');
		if (i == 0)
			printf("url_hex_val(0x%02x '%c') -> %u   [counterexample argument]\n", ci, (ci >= 0x20 && ci < 0x7f) ? ci : '.', rv);
		else if (!ok && ci != c0)
			printf("url_hex_val(0x%02x '%c') -> %u   [also wrong]\n", ci, (ci >= 0x20 && ci < 0x7f) ? ci : '.', rv);
		if (!ok && (i == 0 || ci != c0)) {
			bad++;
			/* same clauses as the contract */
			VP_EXPECT(rv <= 15);
			VP_EXPECT(!(c >= '0' && c <= '9') || rv == c - '0');
			VP_EXPECT(!(c >= 'A' && c <= 'F') || rv == 10 + (c - 'A'));
			VP_EXPECT(!(c >= 'a' && c <= 'f') || rv == 10 + (c - 'a'));
		}
	}
	printf("hex_val: %d of 256 characters decode wrongly\n", bad);
	VP_DONE();
}

static bool
scheme_known(const char *s)
{
	for (int i = 0; nni_schemes[i] != NULL; i++)
		if (s == nni_schemes[i])
			return true;
	return false;
}

static int
replay_parse(void)
{
	char    raw[64], key[16];
	size_t  n = vp_u64("vp_in_n", 0);
	nng_url u;
	if (n > 32)
		n = 32;
	for (size_t i = 0; i < n; i++) {
		snprintf(key, sizeof(key), "vp_in_r%zu", i);
		raw[i] = (char) vp_u64(key, 'x');
	}
	raw[n] = 0;
	char *exact = malloc(n + 1);
	memcpy(exact, raw, n + 1);
	memset(&u, 0, sizeof(u));
	nng_err rv = nni_url_parse_inline(&u, exact);
	show("parse input:", (uint8_t *) exact);
	printf("  nni_url_parse_inline -> %d scheme=%s\n", rv, rv == 0 ? u.u_scheme : "-");
	if (rv == NNG_OK) {
		size_t l = strlen(u.u_scheme);
		VP_EXPECT(scheme_known(u.u_scheme));
		VP_EXPECT(strncmp(exact, u.u_scheme, l) == 0 && strlen(exact) >= l + 3 && strncmp(exact + l, "://", 3) == 0);
		nni_url_fini(&u);
	}
	free(exact);
	VP_DONE();
}

static void
check_clone(const nng_url *d, const nng_url *s)
{
#define COMP(c)                                                                    \
	do {                                                                       \
		VP_EXPECT((d->c == NULL) == (s->c == NULL));                       \
		if (s->c != NULL && d->c != NULL) {                                \
			VP_EXPECT(d->c - d->u_buffer == s->c - s->u_buffer);       \
		}                                                                  \
	} while (0)
	VP_EXPECT(d->u_scheme == s->u_scheme && d->u_port == s->u_port && d->u_bufsz == s->u_bufsz);
	VP_EXPECT(d->u_buffer != s->u_buffer);
	if (s->u_bufsz == 0)
		VP_EXPECT(d->u_buffer == d->u_static);
	COMP(u_hostname);
	COMP(u_userinfo);
	COMP(u_query);
	COMP(u_fragment);
	COMP(u_path);
	VP_EXPECT(memcmp(d->u_buffer, s->u_buffer, s->u_bufsz ? s->u_bufsz : sizeof(s->u_static)) == 0);
#undef COMP
}

static int
replay_clone(bool top)
{
	char    str[400];
	bool    heap = vp_u64("vp_in_bufsz", 0) != 0, host = vp_u64("vp_in_host", 1) != 0;
	nng_url src, dst, *dp = NULL;
	nng_err rv;
	size_t  pad = heap ? 150 : 8, o;
	if (!host) {
		o = (size_t) snprintf(str, sizeof(str), "ipc:///tmp/");
	} else {
		o = (size_t) snprintf(str, sizeof(str), "http://%shost:81/", vp_u64("vp_in_user", 0) ? "user@" : "");
	}
	memset(str + o, 'a', pad);
	o += pad;
	str[o] = 0;
	if (host && vp_u64("vp_in_query", 0))
		strcat(str, "?q=1");
	if (host && vp_u64("vp_in_frag", 0))
		strcat(str, "#frag");
	memset(&src, 0, sizeof(src));
	rv = nni_url_parse_inline(&src, str);
	printf("source URL (%zu bytes, %s storage, hostname %s): %.60s%s\n", strlen(str), src.u_bufsz ? "heap" : "inline",
	    src.u_hostname ? "set" : "NULL", str, strlen(str) > 60 ? "..." : "");
	if (rv != 0) {
		printf("REPLAY-RESULT: skipped (could not build the source URL, rv=%d)\n", rv);
		return 3;
	}
	n_refused = 0;
	if (!top) {
		memset(&dst, 0, sizeof(dst));
		rv = nni_url_clone_inline(&dst, &src);
		printf("nni_url_clone_inline -> %d (allocator refused %ld requests)\n", rv, n_refused);
		VP_EXPECT(rv == NNG_OK || (rv == NNG_ENOMEM && n_refused > 0));
		if (rv == NNG_OK) {
			printf("  clone hostname=%p (source %p)\n", (void *) dst.u_hostname, (void *) src.u_hostname);
			check_clone(&dst, &src);
			nni_url_fini(&dst);
		}
	} else {
		rv = nng_url_clone(&dp, &src);
		printf("nng_url_clone -> %d (allocator refused %ld requests)\n", rv, n_refused);
		VP_EXPECT(rv == NNG_OK || (rv == NNG_ENOMEM && n_refused > 0));
		if (rv == NNG_OK && dp != NULL) {
			printf("  clone hostname=%p (source %p)\n", (void *) dp->u_hostname, (void *) src.u_hostname);
			check_clone(dp, &src);
			nng_url_free(dp);
		}
		/* allocation failure inside: the error code must be NNG_ENOMEM */
		for (long f = 0; f < (heap ? 2 : 1); f++) {
			dp        = NULL;
			n_alloc   = 0;
			fail_at   = f;
			n_refused = 0;
			rv        = nng_url_clone(&dp, &src);
			fail_at   = -1;
			printf("nng_url_clone with allocation #%ld refused -> %d\n", f, rv);
			if (n_refused > 0) {
				VP_EXPECT(rv == NNG_ENOMEM);
				VP_EXPECT(dp == NULL);
			} else if (rv == NNG_OK) {
				nng_url_free(dp);
			}
		}
	}
	nni_url_fini(&src);
	VP_DONE();
}

/* nni_url_default_port: the scheme string of the counterexample in a heap block of exactly
 * n+1 bytes; result = the port of the table entry the scheme names (with the optional
 * address-family suffix 4 / 6), 0 for every other string */
static int
replay_port(void)
{
	static const struct { const char *s; unsigned port; } tab[] = { { "git", 9418 }, { "gopher", 70 }, { "http", 80 }, { "https", 443 },
		{ "ssh", 22 }, { "telnet", 23 }, { "ws", 80 }, { "ws4", 80 }, { "ws6", 80 }, { "wss", 443 }, { "wss4", 443 }, { "wss6", 443 } };
	if (!vp_has("vp_in_n")) {
		printf("REPLAY-RESULT: skipped (trace has no entry snapshot)\n");
		return 3;
	}
	size_t n = vp_u64("vp_in_n", 0);
	if (n > ((size_t) 1 << 20)) {
		printf("REPLAY-RESULT: skipped (string of %zu bytes too large to build natively)\n", n);
		return 3;
	}
	char *s = malloc(n + 1);
	for (size_t i = 0; i < n; i++) {
		char k[24];
		snprintf(k, sizeof(k), "vp_in_p%zu", i);
		s[i] = (char) (i < 12 ? vp_u64(k, 'x') : 'x');
		if (s[i] == 0) {
			n = i;
			break;
		}
	}
	s[n]          = 0;
	unsigned want = 0;
	for (size_t i = 0; i < sizeof(tab) / sizeof(tab[0]); i++) {
		size_t l = strlen(tab[i].s);
		if (strncmp(s, tab[i].s, l) == 0 && (s[l] == 0 || ((s[l] == '4' || s[l] == '6') && s[l + 1] == 0)))
			want = tab[i].port;
	}
	unsigned rv = nni_url_default_port(s);
	printf("nni_url_default_port(\"%s\") -> %u; table says %u\n", s, rv, want);
	VP_EXPECT(rv == 0 || rv == 9418 || rv == 70 || rv == 80 || rv == 443 || rv == 22 || rv == 23);
	VP_EXPECT(rv == want);
	free(s);
	VP_DONE();
}

/* nni_url_canonify_uri: the string of the counterexample in a heap block of exactly
 * strlen+1 bytes (it is rewritten in place and never grows); accepted => RFC 3986 6.2.2
 * normal form (contract text of modules/url/contracts.h, every index instead of g_k) */
static int
replay_canon(void)
{
#define C_UPHEX(c) (((c) >= '0' && (c) <= '9') || ((c) >= 'A' && (c) <= 'F'))
#define C_HEXV(c) ((c) <= '9' ? (c) - '0' : (c) - 'A' + 10)
#define C_UNRES(c) (((c) >= 'a' && (c) <= 'z') || ((c) >= 'A' && (c) <= 'Z') || ((c) >= '0' && (c) <= '9') || (c) == '-' || (c) == '.' || (c) == '_' || (c) == '~')
#define C_SEGEND(c) ((c) == '/' || (c) == 0 || (c) == '?' || (c) == '#')
	if (!vp_has("vp_in_c0")) {
		printf("REPLAY-RESULT: skipped (trace has no entry snapshot)\n");
		return 3;
	}
	size_t  cap = vp_u64("vp_in_qcap", 16), n = 0;
	uint8_t b[32] = { 0 };
	if (cap > 16)
		cap = 16;
	for (size_t i = 0; i <= cap; i++) {
		char k[24];
		snprintf(k, sizeof(k), "vp_in_c%zu", i);
		b[i] = (uint8_t) vp_u64(k, 0);
	}
	while (n <= cap && b[n] != 0)
		n++;
	if (n > cap) {
		printf("REPLAY-RESULT: skipped (precondition: terminated within %zu bytes)\n", cap);
		return 3;
	}
	char *s = malloc(n + 1);
	memcpy(s, b, n + 1);
	printf("nni_url_canonify_uri(\"");
	for (size_t i = 0; i < n; i++)
		printf(b[i] >= 0x20 && b[i] < 0x7f && b[i] != '"' && b[i] != '\\' ? "%c" : "\\x%02X", b[i]);
	int rv = nni_url_canonify_uri(s);
	size_t m = strnlen(s, n + 1);
	printf("\") -> %d", rv);
	if (m <= n)
		printf(", now \"%s\"", s);
	printf("\n");
	VP_EXPECT(rv == NNG_OK || rv == NNG_EINVAL);
	VP_EXPECT(m <= n); /* still terminated, never longer */
	if (rv == NNG_OK && m <= n) {
		size_t pe = 0; /* the path part ends at the first '?' or '#' */
		while (pe < m && s[pe] != '?' && s[pe] != '#')
			pe++;
		for (size_t k = 0; k < m; k++) {
			uint8_t c1 = (uint8_t) s[k + 1], c2 = k + 1 < m ? (uint8_t) s[k + 2] : 0;
			if (s[k] == '%')
				VP_EXPECT(C_UPHEX(c1) && C_UPHEX(c2) && !C_UNRES(C_HEXV(c1) * 16 + C_HEXV(c2)));
			if (k < pe && s[k] == '/') {
				VP_EXPECT(s[k + 1] != '/');
				if (s[k + 1] == '.')
					VP_EXPECT(!C_SEGEND(c2) && !(c2 == '.' && C_SEGEND(k + 2 < m ? (uint8_t) s[k + 3] : 0)));
			}
		}
	}
	free(s);
	VP_DONE();
}

int
main(int argc, char **argv)
{
	if (argc < 2) {
		fprintf(stderr, "usage: replay <inputs> [function]\n");
		return 2;
	}
	vp_load(argv[1]);
	const char *fn = argc > 2 ? argv[2] : "url_utf8_validate";
	if (strcmp(fn, "url_utf8_validate") == 0)
		return replay_utf8();
	if (strcmp(fn, "url_hex_val") == 0)
		return replay_hex();
	if (strcmp(fn, "nni_url_parse_inline_inner") == 0)
		return replay_parse();
	if (strcmp(fn, "nni_url_clone_inline") == 0)
		return replay_clone(false);
	if (strcmp(fn, "nng_url_clone") == 0)
		return replay_clone(true);
	if (strcmp(fn, "nni_url_default_port") == 0)
		return replay_port();
	if (strcmp(fn, "nni_url_canonify_uri") == 0)
		return replay_canon();
	printf("REPLAY-RESULT: skipped (no native driver for %s)\n", fn);
	return 3;
}
